// Package blockcow is shared by the C22 and C23 drivers: a registry on a scratch directory opened with cold
// caches, raw access to one block of its first segment file and to the block's .cow backup file, the
// run-length block encoding of the line protocol, and the fs.DirectIOSim wrapper that tears block writes and
// parks readers at their shared-state accesses.
package blockcow

import (
	"context"
	"encoding/hex"
	"errors"
	"fmt"
	"hash/crc32"
	"os"
	"path/filepath"
	"strconv"
	"strings"
	"sync"
	"time"

	"github.com/sharedcode/sop"
	"github.com/sharedcode/sop/cache"
	"github.com/sharedcode/sop/encoding"
	"github.com/sharedcode/sop/fs"

	"verifharness/hx"
)

// ---- block encoding: maximal zero runs "z<count>", maximal non-zero runs hex, joined by "." ----

func EncBlk(b []byte) string {
	if len(b) == 0 {
		return "-"
	}
	var toks []string
	for i := 0; i < len(b); {
		j := i
		if b[i] == 0 {
			for j < len(b) && b[j] == 0 {
				j++
			}
			toks = append(toks, "z"+strconv.Itoa(j-i))
		} else {
			for j < len(b) && b[j] != 0 {
				j++
			}
			toks = append(toks, hex.EncodeToString(b[i:j]))
		}
		i = j
	}
	return strings.Join(toks, ".")
}

func ShowHandle(h sop.Handle) string {
	b := func(x bool) string {
		if x {
			return "1"
		}
		return "0"
	}
	return fmt.Sprintf("%s %s %s %s %d %d %s", hx.Hexb(h.LogicalID[:]), hx.Hexb(h.PhysicalIDA[:]), hx.Hexb(h.PhysicalIDB[:]),
		b(h.IsActiveIDB), h.Version, h.WorkInProgressTimestamp, b(h.IsDeleted))
}

func RandUUID(p *hx.Prng) sop.UUID {
	var u sop.UUID
	for i := range u {
		u[i] = byte(p.U64())
	}
	if u == sop.NilUUID {
		u[0] = 1
	}
	return u
}

// IDAt builds an id by coordinates: high%mod = block, low%handlesPerBlock = slot.
func IDAt(p *hx.Prng, md, block, slot int) sop.UUID {
	hp := fs.VerifHandlesPerBlock()
	hi := uint64(block) + uint64(md)*uint64(1+p.Intn(1<<30))
	lo := uint64(slot) + uint64(hp)*uint64(1+p.Intn(1<<30))
	var id sop.UUID
	for b := 0; b < 8; b++ {
		id[b] = byte(hi >> (56 - 8*b))
		id[8+b] = byte(lo >> (56 - 8*b))
	}
	return id
}

func GenHandle(p *hx.Prng, id sop.UUID) sop.Handle {
	h := sop.Handle{LogicalID: id, PhysicalIDA: RandUUID(p), IsActiveIDB: p.Chance(1, 2), IsDeleted: p.Chance(1, 8)}
	if p.Chance(2, 3) {
		h.PhysicalIDB = RandUUID(p)
	}
	h.Version = int32(p.Intn(1 << 20))
	if p.Chance(1, 8) {
		h.Version = -h.Version
	}
	if p.Chance(1, 2) {
		h.WorkInProgressTimestamp = 1758400000000 + int64(p.Intn(1<<30))
	}
	return h
}

// ---- reference checks used by the direct oracles (independent of the repository's code) ----

func ChecksumOK(b []byte) bool {
	if len(b) < 4 {
		return false
	}
	zero := true
	for _, x := range b {
		if x != 0 {
			zero = false
			break
		}
	}
	if zero {
		return true
	}
	n := len(b) - 4
	c := crc32.ChecksumIEEE(b[:n])
	return b[n] == byte(c) && b[n+1] == byte(c>>8) && b[n+2] == byte(c>>16) && b[n+3] == byte(c>>24)
}

// RefLookup is the tiny reference for "what does this block say about id": the first slot whose first 16
// bytes are the id, decoded; ok=false when no slot carries the id.
func RefLookup(blk []byte, id sop.UUID) (sop.Handle, bool) {
	hs := sop.HandleSizeInBytes
	m := encoding.NewHandleMarshaler()
	// the ideal slot is looked at first by the code; with at most one record per id the order is irrelevant
	for s := 0; s+hs <= len(blk)-4; s += hs {
		if string(blk[s:s+16]) == string(id[:]) {
			var h sop.Handle
			if err := m.Unmarshal(blk[s:s+hs], &h); err == nil {
				return h, true
			}
		}
	}
	return sop.Handle{}, false
}

// ---- a registry on a scratch directory ----

type Reg interface {
	Add(ctx context.Context, storesHandles []sop.RegistryPayload[sop.Handle]) error
	UpdateNoLocks(ctx context.Context, allOrNothing bool, storesHandles []sop.RegistryPayload[sop.Handle]) error
	Get(ctx context.Context, storesLids []sop.RegistryPayload[sop.UUID]) ([]sop.RegistryPayload[sop.Handle], error)
	Remove(ctx context.Context, storesLids []sop.RegistryPayload[sop.UUID]) error
	Close() error
}

type Env struct {
	Dir   string
	Table string
	Mod   int
	Block int // the block index all ids of this environment hash to
	BSize int
}

func NewEnv(prefix string, md, block int) (*Env, error) {
	dir, err := os.MkdirTemp(hx.WorkRoot(), prefix)
	if err != nil {
		return nil, err
	}
	e := &Env{Dir: dir, Table: "tb", Mod: md, Block: block, BSize: fs.VerifBlockSize()}
	if err := os.MkdirAll(filepath.Join(dir, e.Table), 0o755); err != nil {
		return nil, err
	}
	return e, nil
}

func (e *Env) Remove() { os.RemoveAll(e.Dir) }

// Open returns a registry object with nothing cached: new L2 cache, new replication tracker, no open files.
func (e *Env) Open(ctx context.Context, rw bool) (Reg, error) {
	l2 := cache.NewL2InMemoryCache()
	rt, err := fs.NewReplicationTracker(ctx, []string{e.Dir}, false, l2)
	if err != nil {
		return nil, err
	}
	return fs.NewRegistry(rw, e.Mod, rt, l2), nil
}

func (e *Env) SegPath() string { return filepath.Join(e.Dir, e.Table, e.Table+"-1.reg") }
func (e *Env) CowPath() string {
	return filepath.Join(e.Dir, e.Table, fmt.Sprintf("%s-1_%d.cow", e.Table, e.Block*e.BSize))
}

func (e *Env) ReadBlock() ([]byte, error) {
	f, err := os.Open(e.SegPath())
	if err != nil {
		return nil, err
	}
	defer f.Close()
	b := make([]byte, e.BSize)
	if _, err := f.ReadAt(b, int64(e.Block*e.BSize)); err != nil {
		return nil, err
	}
	return b, nil
}

// ReadOthers returns the segment file with the target block zeroed out (to check that nothing else moved).
func (e *Env) ReadOthers() ([]byte, error) {
	raw, err := os.ReadFile(e.SegPath())
	if err != nil {
		return nil, err
	}
	for i := e.Block * e.BSize; i < (e.Block+1)*e.BSize && i < len(raw); i++ {
		raw[i] = 0
	}
	return raw, nil
}

func (e *Env) WriteBlockRaw(b []byte) error {
	f, err := os.OpenFile(e.SegPath(), os.O_WRONLY, 0o644)
	if err != nil {
		return err
	}
	defer f.Close()
	if _, err := f.WriteAt(b, int64(e.Block*e.BSize)); err != nil {
		return err
	}
	return f.Sync()
}

// Cow returns the backup file's content; exists=false when there is no such file.
func (e *Env) Cow() (data []byte, exists bool, err error) {
	data, err = os.ReadFile(e.CowPath())
	if os.IsNotExist(err) {
		return nil, false, nil
	}
	return data, err == nil, err
}

// SetCow writes (data != nil) or removes (data == nil) the backup file.
func (e *Env) SetCow(data []byte, exists bool) error {
	if !exists {
		err := os.Remove(e.CowPath())
		if os.IsNotExist(err) {
			return nil
		}
		return err
	}
	return os.WriteFile(e.CowPath(), data, 0o644)
}

func (e *Env) Dump() (string, error) {
	b, err := e.ReadBlock()
	if err != nil {
		return "", err
	}
	c, ex, err := e.Cow()
	if err != nil {
		return "", err
	}
	cs := "none"
	if ex {
		if len(c) == 0 {
			cs = "empty"
		} else {
			cs = EncBlk(c)
		}
	}
	return EncBlk(b) + " cow=" + cs, nil
}

func (e *Env) Payload(h sop.Handle) []sop.RegistryPayload[sop.Handle] {
	return []sop.RegistryPayload[sop.Handle]{{RegistryTable: e.Table, IDs: []sop.Handle{h}}}
}
func (e *Env) IDPayload(id sop.UUID) []sop.RegistryPayload[sop.UUID] {
	return []sop.RegistryPayload[sop.UUID]{{RegistryTable: e.Table, IDs: []sop.UUID{id}}}
}

// GetOne looks one id up through a fresh registry object: "ok <handle>" | "none" | "err".
func (e *Env) GetOne(ctx context.Context, rw bool, id sop.UUID) (string, error) {
	reg, err := e.Open(ctx, rw)
	if err != nil {
		return "", err
	}
	defer reg.Close()
	return ShowGet(reg.Get(ctx, e.IDPayload(id))), nil
}

func ShowGet(res []sop.RegistryPayload[sop.Handle], err error) string {
	if err != nil {
		return "err"
	}
	if len(res) == 0 || len(res[0].IDs) == 0 {
		return "none"
	}
	return "ok " + ShowHandle(res[0].IDs[0])
}

func ErrClass(err error) string {
	if err != nil {
		return "err"
	}
	return "ok"
}

// ---- the fs.DirectIOSim wrapper ----

var ErrCrash = errors.New("verif: simulated death of the writer")

// TearPlan makes the next block write reach the disk only partly and then fail (the writer "dies": nothing
// after the write call runs, in particular the backup is not deleted) or exit the process.
type TearPlan struct {
	Kind   string // "prefix" | "mask"
	L      int    // prefix: number of leading bytes that reach the disk
	Sector int    // mask: unit size
	Bits   []bool // mask: which units reach the disk
	Exit   bool   // os.Exit(99) instead of returning ErrCrash
	Side   string // file that receives the full intended image before the process exits
}

type readerKeyT struct{}

var readerKey readerKeyT

func WithReader(ctx context.Context, rid int) context.Context {
	return context.WithValue(ctx, readerKey, rid)
}

type GateEvent struct {
	Rid int
	At  string // "haveBuf" | "restoring" | "done <result>"
}

type Hook struct {
	real      fs.DirectIO
	mu        sync.Mutex
	Tear      *TearPlan
	LastWrite []byte
	Writes    int
	// gating of readers that carry a reader id in their context
	Events chan GateEvent
	resume map[int]chan struct{}
}

func Install() *Hook {
	h := &Hook{real: fs.NewDirectIO(), Events: make(chan GateEvent, 16), resume: map[int]chan struct{}{}}
	fs.DirectIOSim = h
	return h
}

func (h *Hook) Open(ctx context.Context, filename string, flag int, permission os.FileMode) (*os.File, error) {
	f, err := h.real.Open(ctx, filename, flag, permission)
	if a := actorOf(ctx); a != nil && err == nil {
		a.files = append(a.files, f)
	}
	return f, err
}
func (h *Hook) Close(file *os.File) error { return h.real.Close(file) }

func (h *Hook) park(ctx context.Context, at string) {
	rid, ok := ctx.Value(readerKey).(int)
	if !ok {
		return
	}
	h.mu.Lock()
	ch := h.resume[rid]
	h.mu.Unlock()
	if ch == nil {
		return
	}
	h.Events <- GateEvent{rid, at}
	<-ch
}

func (h *Hook) ReadAt(ctx context.Context, file *os.File, block []byte, offset int64) (int, error) {
	if a := actorOf(ctx); a != nil {
		return a.readAt(h, ctx, file, block, offset)
	}
	n, err := h.real.ReadAt(ctx, file, block, offset)
	h.park(ctx, "haveBuf")
	return n, err
}

func (h *Hook) WriteAt(ctx context.Context, file *os.File, block []byte, offset int64) (int, error) {
	if a := actorOf(ctx); a != nil {
		return a.writeAt(h, ctx, file, block, offset)
	}
	h.park(ctx, "restoring")
	h.mu.Lock()
	plan := h.Tear
	h.Tear = nil
	h.LastWrite = append([]byte(nil), block...)
	h.Writes++
	h.mu.Unlock()
	if plan == nil {
		return h.real.WriteAt(ctx, file, block, offset)
	}
	// what reaches the disk
	cur := make([]byte, len(block))
	rf, err := os.Open(file.Name())
	if err != nil {
		return 0, err
	}
	_, err = rf.ReadAt(cur, offset)
	rf.Close()
	if err != nil {
		return 0, err
	}
	n := 0
	switch plan.Kind {
	case "prefix":
		n = plan.L
		copy(cur[:plan.L], block[:plan.L])
	case "mask":
		for i := range cur {
			u := i / plan.Sector
			if u < len(plan.Bits) && plan.Bits[u] {
				cur[i] = block[i]
				n++
			}
		}
	}
	wf, err := os.OpenFile(file.Name(), os.O_WRONLY, 0o644)
	if err != nil {
		return 0, err
	}
	if _, err := wf.WriteAt(cur, offset); err != nil {
		wf.Close()
		return 0, err
	}
	wf.Sync()
	wf.Close()
	if plan.Exit {
		if plan.Side != "" {
			os.WriteFile(plan.Side, block, 0o644)
		}
		os.Exit(99)
	}
	return n, ErrCrash
}

// Spawn starts a reader goroutine that looks id up through its own fresh registry object; it does nothing
// until its first Step.
func (h *Hook) Spawn(ctx context.Context, e *Env, rid int, rw bool, id sop.UUID) {
	ch := make(chan struct{})
	h.mu.Lock()
	h.resume[rid] = ch
	h.mu.Unlock()
	go func() {
		<-ch
		reg, err := e.Open(ctx, rw)
		if err != nil {
			h.Events <- GateEvent{rid, "done openerr"}
			return
		}
		res := ShowGet(reg.Get(WithReader(ctx, rid), e.IDPayload(id)))
		reg.Close()
		h.mu.Lock()
		delete(h.resume, rid)
		h.mu.Unlock()
		h.Events <- GateEvent{rid, "done " + res}
	}()
}

// Step lets reader rid run to its next shared-state access (or to its end) and reports where it stopped.
func (h *Hook) Step(rid int) (string, error) {
	h.mu.Lock()
	ch := h.resume[rid]
	h.mu.Unlock()
	if ch == nil {
		return "", fmt.Errorf("reader %d is not running", rid)
	}
	ch <- struct{}{}
	select {
	case ev := <-h.Events:
		if ev.Rid != rid {
			return "", fmt.Errorf("event from reader %d while stepping %d", ev.Rid, rid)
		}
		return ev.At, nil
	case <-time.After(20 * time.Second):
		return "", fmt.Errorf("reader %d did not reach a gate", rid)
	}
}
