package blockcow

// Deterministic interleavings of several registry calls ("actors": writers and readers, each with its own
// registry object = its own process) on ONE block. An actor is parked before and after every operation that
// goes through a seam of the repository: fs.DirectIOSim (block read, block write — the write of a buffer that
// was read with a good checksum is cut in two pieces with a park in between) and the sop.L2Cache handed to
// fs.NewRegistry (DualLock / Unlock of a block-region key). The backup-file operations (createCow, checkCow,
// deleteCow) use fs.NewFileIO(), which has no seam: they run inside the segment between two parks. A dead
// process is an actor that is never resumed (no deferred call runs, exactly as after a kill); the expiry of
// its lock is the controller unlocking the key in the shared lock cache.

import (
	"context"
	"fmt"
	"os"
	"strings"
	"sync"
	"time"

	"github.com/sharedcode/sop"
	"github.com/sharedcode/sop/cache"
	"github.com/sharedcode/sop/fs"
)

type actorKeyT struct{}

var actorKey actorKeyT

type GActor struct {
	ID   int
	Cut  int
	g    *Gate
	res  chan struct{}
	Dead bool
	Done bool
	// Point is where the actor is parked: rd? rd! wr? wr~ wr! lk? lk+ lk- ul? ul! | done <result>
	Point string
	// Phase: "A" until the first lk?, "B" until ul!, "post" afterwards
	Phase string
	// restorePending: the last block read failed the checksum and no block write was issued since; the next
	// block write is then written in one piece
	restorePending bool
	// SplitWrite: the block write the actor is parked in front of (or inside) is a two-piece one
	SplitWrite bool
	LastRead   []byte
	LastWrite  []byte // the full buffer of the last split (= main) block write
	MainWrites int
	files      []*os.File
	lockKeys   []*sop.LockKey
}

type GEvent struct {
	ID int
	At string
}

type Gate struct {
	mu     sync.Mutex
	Actors map[int]*GActor
	events chan GEvent
	Locks  sop.L2Cache
	Holder int // actor holding the block lock, -1 if none
}

func NewGate() *Gate {
	return &Gate{Actors: map[int]*GActor{}, events: make(chan GEvent, 16), Locks: cache.NewL2InMemoryCache(), Holder: -1}
}

func actorOf(ctx context.Context) *GActor {
	a, _ := ctx.Value(actorKey).(*GActor)
	return a
}

func (a *GActor) park(at string) {
	a.g.events <- GEvent{a.ID, at}
	<-a.res
}

// ---- the lock cache handed to the actors' registries ----

// Lock calls go to the cache shared by all actors of a case (parked when the key is a block-region key); the
// data calls (handle cache) go to a cache of the actor's own, so that every actor reads the disk.
type gatedL2 struct {
	sop.L2Cache
	g    *Gate
	data sop.L2Cache
}

func (c *gatedL2) Set(ctx context.Context, k, v string, e time.Duration) error {
	return c.data.Set(ctx, k, v, e)
}
func (c *gatedL2) Get(ctx context.Context, k string) (bool, string, error) { return c.data.Get(ctx, k) }
func (c *gatedL2) GetEx(ctx context.Context, k string, e time.Duration) (bool, string, error) {
	return c.data.GetEx(ctx, k, e)
}
func (c *gatedL2) SetStruct(ctx context.Context, k string, v interface{}, e time.Duration) error {
	return c.data.SetStruct(ctx, k, v, e)
}
func (c *gatedL2) SetStructs(ctx context.Context, k []string, v []interface{}, e time.Duration) error {
	return c.data.SetStructs(ctx, k, v, e)
}
func (c *gatedL2) GetStruct(ctx context.Context, k string, t interface{}) (bool, error) {
	return c.data.GetStruct(ctx, k, t)
}
func (c *gatedL2) GetStructEx(ctx context.Context, k string, t interface{}, e time.Duration) (bool, error) {
	return c.data.GetStructEx(ctx, k, t, e)
}
func (c *gatedL2) GetStructs(ctx context.Context, k []string, t []interface{}, e time.Duration) ([]bool, error) {
	return c.data.GetStructs(ctx, k, t, e)
}
func (c *gatedL2) Delete(ctx context.Context, k []string) (bool, error) { return c.data.Delete(ctx, k) }

func isBlockKey(keys []*sop.LockKey) bool {
	return len(keys) == 1 && strings.Contains(keys[0].Key, ".reg") && !strings.Contains(keys[0].Key, "infs_reg")
}

func (c *gatedL2) DualLock(ctx context.Context, d time.Duration, keys []*sop.LockKey) (bool, sop.UUID, error) {
	a := actorOf(ctx)
	if a == nil || !isBlockKey(keys) {
		return c.L2Cache.DualLock(ctx, d, keys)
	}
	if a.Phase == "A" {
		a.Phase = "B"
	}
	a.park("lk?")
	ok, id, err := c.L2Cache.DualLock(ctx, d, keys)
	if ok && err == nil {
		a.lockKeys = keys
		c.g.mu.Lock()
		c.g.Holder = a.ID
		c.g.mu.Unlock()
		a.park("lk+")
	} else {
		a.park("lk-")
	}
	return ok, id, err
}

func (c *gatedL2) Unlock(ctx context.Context, keys []*sop.LockKey) error {
	a := actorOf(ctx)
	if a == nil || !isBlockKey(keys) {
		return c.L2Cache.Unlock(ctx, keys)
	}
	a.park("ul?")
	err := c.L2Cache.Unlock(ctx, keys)
	c.g.mu.Lock()
	if c.g.Holder == a.ID {
		c.g.Holder = -1
	}
	c.g.mu.Unlock()
	a.Phase = "post"
	a.park("ul!")
	return err
}

// ---- DirectIO side (called from Hook) ----

func (a *GActor) readAt(h *Hook, ctx context.Context, file *os.File, block []byte, offset int64) (int, error) {
	a.park("rd?")
	n, err := h.real.ReadAt(ctx, file, block, offset)
	a.LastRead = append([]byte(nil), block...)
	a.restorePending = !(err == nil && n == len(block) && ChecksumOK(block))
	a.park("rd!")
	return n, err
}

func (a *GActor) writeAt(h *Hook, ctx context.Context, file *os.File, block []byte, offset int64) (int, error) {
	split := !a.restorePending && a.Cut > 0 && a.Cut < len(block)
	a.restorePending = false
	a.SplitWrite = split
	if split {
		a.LastWrite = append([]byte(nil), block...)
		a.MainWrites++
	}
	a.park("wr?")
	if !split {
		n, err := h.real.WriteAt(ctx, file, block, offset)
		a.park("wr!")
		return n, err
	}
	wf, err := os.OpenFile(file.Name(), os.O_WRONLY, 0o644)
	if err != nil {
		return 0, err
	}
	defer wf.Close()
	a.files = append(a.files, wf)
	if _, err := wf.WriteAt(block[:a.Cut], offset); err != nil {
		return 0, err
	}
	wf.Sync()
	a.park("wr~")
	if _, err := wf.WriteAt(block[a.Cut:], offset+int64(a.Cut)); err != nil {
		return a.Cut, err
	}
	wf.Sync()
	a.SplitWrite = false
	a.park("wr!")
	return len(block), nil
}

// ---- controller ----

// Spawn starts an actor and runs it to its first park.
func (g *Gate) Spawn(ctx context.Context, e *Env, id, cut int, call func(ctx context.Context, reg Reg) string) (string, error) {
	a := &GActor{ID: id, Cut: cut, g: g, res: make(chan struct{}), Phase: "A"}
	g.mu.Lock()
	g.Actors[id] = a
	g.mu.Unlock()
	go func() {
		<-a.res
		rt, err := fs.NewReplicationTracker(ctx, []string{e.Dir}, false, g.Locks)
		if err != nil {
			g.events <- GEvent{id, "done openerr"}
			return
		}
		reg := fs.NewRegistry(true, e.Mod, rt, &gatedL2{g.Locks, g, cache.NewL2InMemoryCache()})
		res := call(context.WithValue(ctx, actorKey, a), reg)
		reg.Close()
		g.events <- GEvent{id, "done " + res}
	}()
	return g.Step(id)
}

// OpenReg returns a registry that is nobody's actor (never parked) but shares the case's lock cache: a lock
// left behind by the history blocks it.
func (g *Gate) OpenReg(ctx context.Context, e *Env) (Reg, error) {
	rt, err := fs.NewReplicationTracker(ctx, []string{e.Dir}, false, g.Locks)
	if err != nil {
		return nil, err
	}
	return fs.NewRegistry(true, e.Mod, rt, &gatedL2{g.Locks, g, cache.NewL2InMemoryCache()}), nil
}

// Step resumes actor id until its next park (or its end).
func (g *Gate) Step(id int) (string, error) {
	a := g.Actors[id]
	if a == nil || a.Dead || a.Done {
		return "", fmt.Errorf("actor %d cannot be stepped", id)
	}
	a.res <- struct{}{}
	select {
	case ev := <-g.events:
		if ev.ID != id {
			return "", fmt.Errorf("event from actor %d while stepping %d", ev.ID, id)
		}
		a.Point = ev.At
		if strings.HasPrefix(ev.At, "done ") {
			a.Done = true
		}
		return ev.At, nil
	case <-time.After(30 * time.Second):
		return "", fmt.Errorf("actor %d did not reach a park (was at %s)", id, a.Point)
	}
}

// Kill: the actor's process dies where it is parked.
func (g *Gate) Kill(id int) {
	a := g.Actors[id]
	a.Dead = true
	for _, f := range a.files {
		f.Close()
	}
}

// Expire frees the lock of a dead holder (what the lock's TTL does).
func (g *Gate) Expire(ctx context.Context) bool {
	g.mu.Lock()
	h := g.Holder
	g.mu.Unlock()
	if h < 0 || !g.Actors[h].Dead {
		return false
	}
	g.Locks.Unlock(ctx, g.Actors[h].lockKeys)
	g.mu.Lock()
	g.Holder = -1
	g.mu.Unlock()
	return true
}

func (g *Gate) HolderID() int {
	g.mu.Lock()
	defer g.mu.Unlock()
	return g.Holder
}

// KillRest kills every actor that is still parked (end of a case).
func (g *Gate) KillRest() {
	for _, a := range g.Actors {
		if !a.Done && !a.Dead {
			g.Kill(a.ID)
		}
	}
}
