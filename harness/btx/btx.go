// Package btx is the Go side of the B-tree differential harness shared by properties C17 and C18.
//
// It drives the real /repo/btree code through a line protocol (one op line in, one answer line out, see
// Apply), dumps the whole tree after every op by walking the node repository directly (observation never
// moves the cursor), and evaluates a direct oracle against a sorted-slice reference.
package btx

import (
	"context"
	"encoding/binary"
	"fmt"
	"os"
	"sort"
	"strconv"
	"strings"
	"sync"
	"time"

	"github.com/google/uuid"
	"github.com/sharedcode/sop"
	"github.com/sharedcode/sop/btree"
	"github.com/sharedcode/sop/inmemory"

	"verifharness/hx"
)

// ---- deterministic ids ----

// idSource replaces the random source of github.com/google/uuid: the n-th read (n from 1) yields n
// big-endian in bytes 0..3 and zeros elsewhere. Items and nodes draw from this one counter.
type idSource struct {
	mu   sync.Mutex
	next uint32
}

func (s *idSource) Read(p []byte) (int, error) {
	s.mu.Lock()
	n := s.next
	s.next++
	s.mu.Unlock()
	clear(p)
	if len(p) >= 4 {
		binary.BigEndian.PutUint32(p, n)
	}
	return len(p), nil
}

var (
	ids         = &idSource{next: 1}
	installOnce sync.Once
)

// InstallIDs makes sop.NewUUID deterministic for the rest of the process.
func InstallIDs() { installOnce.Do(func() { uuid.SetRand(ids) }) }

// ResetIDs makes the next drawn id number 1.
func ResetIDs() {
	ids.mu.Lock()
	ids.next = 1
	ids.mu.Unlock()
}

// PeekID is the number the next drawn id will carry.
func PeekID() int {
	ids.mu.Lock()
	defer ids.mu.Unlock()
	return int(ids.next)
}

// IDNum is the counter value an id was made from (NilUUID -> 0).
func IDNum(u sop.UUID) int { return int(binary.BigEndian.Uint32(u[0:4])) }

// UUIDOf is byte for byte the UUID the library produces for counter value n.
func UUIDOf(n int) sop.UUID {
	var u sop.UUID
	binary.BigEndian.PutUint32(u[0:4], uint32(n))
	u[6] = 0x40
	u[8] = 0x80
	return u
}

// NoSuchID is the id number used by generators for "an id that does not exist".
const NoSuchID = 999999999

// ---- repositories ----

type recRepo struct {
	m map[sop.UUID]*btree.Node[int, int]
}

func (r *recRepo) Add(n *btree.Node[int, int])    { r.m[n.ID] = n }
func (r *recRepo) Update(n *btree.Node[int, int]) { r.m[n.ID] = n }
func (r *recRepo) Get(ctx context.Context, id sop.UUID) (*btree.Node[int, int], error) {
	return r.m[id], nil
}
func (r *recRepo) Fetched(id sop.UUID) {}
func (r *recRepo) Remove(id sop.UUID)  { delete(r.m, id) }

type dumbTracker struct{}

func (dumbTracker) Add(ctx context.Context, item *btree.Item[int, int]) error    { return nil }
func (dumbTracker) Get(ctx context.Context, item *btree.Item[int, int]) error    { return nil }
func (dumbTracker) Update(ctx context.Context, item *btree.Item[int, int]) error { return nil }
func (dumbTracker) Remove(ctx context.Context, item *btree.Item[int, int]) error { return nil }

// ---- case configuration ----

// Config is the case header: `sl=<requested slot length> u=<0|1> lb=<0|1> im=<0|1>`.
type Config struct {
	SL int  // requested slot length (NewStoreInfo rounds it)
	U  bool // unique keys
	LB bool // leaf load balancing
	IM bool // built by inmemory.NewBtree (slot length 8, balancing off)
}

func b01(b bool) string {
	if b {
		return "1"
	}
	return "0"
}

func (c Config) Header() string {
	return fmt.Sprintf("sl=%d u=%s lb=%s im=%s", c.SL, b01(c.U), b01(c.LB), b01(c.IM))
}

// ParseHeader reads a case header (fields in any order; unknown fields are an error).
func ParseHeader(h string) (Config, error) {
	var c Config
	for _, f := range strings.Fields(h) {
		k, v, ok := strings.Cut(f, "=")
		if !ok {
			return c, fmt.Errorf("bad header field %q", f)
		}
		n, err := strconv.Atoi(v)
		if err != nil {
			return c, fmt.Errorf("bad header field %q", f)
		}
		switch k {
		case "sl":
			c.SL = n
		case "u":
			c.U = n != 0
		case "lb":
			c.LB = n != 0
		case "im":
			c.IM = n != 0
		default:
			return c, fmt.Errorf("unknown header field %q", f)
		}
	}
	return c, nil
}

// ---- the tree under test plus its reference ----

// RefItem is one item of the sorted-slice reference.
type RefItem struct{ Key, Val, ID int }

// WalkItem is one item of the structural in-order walk (Val 0 = nil value pointer, ID 0 = nil id).
type WalkItem struct{ Key, Val, ID, Node, Idx int }

type nodeSnap struct {
	parent, count int
	slots         string
	kids          []int
}

type snap struct {
	nodes    map[int]*nodeSnap
	count    int
	root     int
	height   int
	nilChild bool
}

const maxDepth = 64

// Tree is one case: the real B-tree, its repository, the reference and the per-case oracle state.
type Tree struct {
	Cfg Config
	B   *btree.Btree[int, int]
	S   *hx.Session // may be nil (no recording, no oracle reports)
	Ref []RefItem   // sorted by key

	Dead      bool   // a call panicked: no further ops on this tree
	PanicMsg  string // what the panic said
	Unhealthy bool   // a C17 signature other than a wrong find/findd/findid answer fired in this case

	// ReportPrefix, when set, restricts what reaches Session.Fail to signatures with this prefix ("C17/" in
	// cmd/c17, "C18/" in cmd/c18); the others still gate (Unhealthy) and are counted as `other-property:<sig>`.
	ReportPrefix string

	// structural events seen in this case
	Splits, Rotations, NilChildOps, MaxHeight, Emptied int

	own      *recRepo
	nr       btree.NodeRepository[int, int]
	fired    map[string]bool
	shapeBad bool // the walk was mis-shaped (order, vacated slot, duplicate) after the previous op
	prev     *snap
	ops      []string
	dog      *time.Timer
}

var bg = context.Background()

// NewTree builds the tree of one case and resets the id counter afterwards. It does not call BeginCase.
func NewTree(cfg Config, s *hx.Session) *Tree {
	InstallIDs()
	t := &Tree{Cfg: cfg, S: s, fired: map[string]bool{}}
	if cfg.IM {
		b := inmemory.NewBtree[int, int](cfg.U)
		t.B = b.Btree
		t.nr = btree.VerifStoreInterface(t.B).NodeRepository
	} else {
		si := sop.NewStoreInfo(sop.StoreOptions{Name: "t", SlotLength: cfg.SL, IsUnique: cfg.U, LeafLoadBalancing: cfg.LB, IsValueDataInNodeSegment: true})
		t.own = &recRepo{m: map[sop.UUID]*btree.Node[int, int]{}}
		b, err := btree.New[int, int](si, &btree.StoreInterface[int, int]{NodeRepository: t.own, ItemActionTracker: dumbTracker{}}, nil)
		if err != nil {
			panic(err)
		}
		t.B = b
		t.nr = t.own
	}
	ResetIDs()
	_, t.prev = t.dump()
	t.hit(fmt.Sprintf("sl=%d", t.B.StoreInfo.SlotLength))
	t.hit("u=" + b01(t.B.StoreInfo.IsUnique))
	t.hit("lb=" + b01(t.B.StoreInfo.LeafLoadBalancing))
	t.hit("im=" + b01(cfg.IM))
	// a hang inside the code under test cannot be recovered in-process: make it a visible failure
	t.dog = time.AfterFunc(60*time.Second, func() {
		fmt.Fprintf(os.Stderr, "btx: case hung (header %q) after ops: %s\n", cfg.Header(), strings.Join(t.ops, "; "))
		os.Exit(4)
	})
	return t
}

// Close ends the case (stops the watchdog).
func (t *Tree) Close() {
	if t.dog != nil {
		t.dog.Stop()
	}
}

func (t *Tree) hit(k string) {
	if t.S != nil {
		t.S.Hit(k)
	}
}

// MaxReportsPerSignature bounds how many failing cases per signature carry their op list into report.json
// (hx keeps 200 failures in all; a frequent signature must not crowd out a rare one); the shortest ones are
// kept. Every firing is still counted in the histogram as `oracle_fail:<sig>`.
const MaxReportsPerSignature = 4

var reported = map[*hx.Session]map[string]int{}

// fail reports an oracle failure once per case per signature.
func (t *Tree) fail(sig, what, detail string) {
	// the balancing mode is part of the mechanism: the same symptom with balancing off is a different violation
	sig += ":lb=" + b01(t.Cfg.LB && !t.Cfg.IM)
	// A wrong answer of a read-only lookup says nothing about the tree's state: it does not gate the positional oracles.
	if strings.HasPrefix(sig, "C17/") && !strings.HasPrefix(sig, "C17/result-mismatch:find") {
		t.Unhealthy = true
	}
	if t.fired[sig] {
		return
	}
	t.fired[sig] = true
	if t.S == nil {
		return
	}
	if t.ReportPrefix != "" && !strings.HasPrefix(sig, t.ReportPrefix) {
		t.S.Hit("other-property:" + sig)
		return
	}
	m := reported[t.S]
	if m == nil {
		m = map[string]int{}
		reported[t.S] = m
	}
	m[sig]++
	if m[sig] > MaxReportsPerSignature {
		// keep the shortest witnesses: overwrite this signature's longest recorded case when this one is shorter
		t.S.Hit("oracle_fail:" + sig)
		ops := t.S.CurrentOps()
		worst := -1
		for i, f := range t.S.Rep.OracleFailures {
			if f.Signature == sig && (worst < 0 || len(f.Ops) > len(t.S.Rep.OracleFailures[worst].Ops)) {
				worst = i
			}
		}
		if worst >= 0 && len(ops) < len(t.S.Rep.OracleFailures[worst].Ops) {
			t.S.Rep.OracleFailures[worst] = hx.OracleFailure{Signature: sig, What: what, Case: t.S.CaseNo, Ops: append([]string(nil), ops...), Detail: detail}
		}
		return
	}
	t.S.Fail(sig, what, detail)
}

// Fired lists the oracle signatures that fired in this case, sorted.
func (t *Tree) Fired() []string {
	out := make([]string, 0, len(t.fired))
	for k := range t.fired {
		out = append(out, k)
	}
	sort.Strings(out)
	return out
}

// Height is the height of the tree as of the last dump (0 = no root node).
func (t *Tree) Height() int { return t.prev.height }

func (t *Tree) get(id sop.UUID) *btree.Node[int, int] {
	if id.IsNil() {
		return nil
	}
	n, _ := t.nr.Get(bg, id)
	return n
}

// allNodes is the union of the recording map (when owned) and the structural walk from the root.
func (t *Tree) allNodes() (map[int]*btree.Node[int, int], int) {
	out := map[int]*btree.Node[int, int]{}
	if t.own != nil {
		for id, n := range t.own.m {
			out[IDNum(id)] = n
		}
	}
	height := 0
	seen := map[sop.UUID]bool{}
	var rec func(id sop.UUID, depth int)
	rec = func(id sop.UUID, depth int) {
		if id.IsNil() || seen[id] || depth > maxDepth {
			return
		}
		seen[id] = true
		n := t.get(id)
		if n == nil {
			return
		}
		out[IDNum(id)] = n
		if depth > height {
			height = depth
		}
		for _, c := range n.ChildrenIDs {
			rec(c, depth+1)
		}
	}
	rec(t.B.StoreInfo.RootNodeID, 1)
	return out, height
}

func showVal(v *int) string {
	if v == nil {
		return "-"
	}
	return strconv.Itoa(*v)
}

// Dump renders `c=<Count> root=<id> cur=<cursor> | <node> | <node> …` without touching the cursor.
func (t *Tree) Dump() string {
	s, _ := t.dump()
	return s
}

func (t *Tree) dump() (string, *snap) {
	nodes, height := t.allNodes()
	order := make([]int, 0, len(nodes))
	for id := range nodes {
		order = append(order, id)
	}
	sort.Ints(order)
	sn := &snap{nodes: make(map[int]*nodeSnap, len(nodes)), count: int(t.B.Count()), root: IDNum(t.B.StoreInfo.RootNodeID), height: height}
	var b strings.Builder
	fmt.Fprintf(&b, "c=%d root=%d cur=", sn.count, sn.root)
	nid, idx, cached, it := btree.VerifCursor(t.B)
	fmt.Fprintf(&b, "%d:%d:%s:", IDNum(nid), idx, b01(cached))
	if cached {
		fmt.Fprintf(&b, "%d:%s:%d", it.Key, showVal(it.Value), IDNum(it.ID))
	} else {
		b.WriteString("-:-:-")
	}
	for _, id := range order {
		n := nodes[id]
		ns := &nodeSnap{parent: IDNum(n.ParentID), count: n.Count}
		var sb strings.Builder
		for i := range n.Slots {
			if i > 0 {
				sb.WriteByte(',')
			}
			sl := &n.Slots[i]
			sb.WriteString(strconv.Itoa(sl.Key))
			sb.WriteByte(':')
			sb.WriteString(showVal(sl.Value))
			sb.WriteByte(':')
			sb.WriteString(strconv.Itoa(IDNum(sl.ID)))
		}
		ns.slots = sb.String()
		fmt.Fprintf(&b, " | n%d p%d c%d i%d [%s] <", id, ns.parent, n.Count, btree.VerifIndexOfNode(n), ns.slots)
		if len(n.ChildrenIDs) == 0 {
			b.WriteByte('-')
		} else {
			ns.kids = make([]int, len(n.ChildrenIDs))
			zero, nonzero := false, false
			for i, c := range n.ChildrenIDs {
				if i > 0 {
					b.WriteByte(',')
				}
				ns.kids[i] = IDNum(c)
				b.WriteString(strconv.Itoa(ns.kids[i]))
				if i <= n.Count {
					if ns.kids[i] == 0 {
						zero = true
					} else {
						nonzero = true
					}
				}
			}
			if zero && nonzero {
				sn.nilChild = true
			}
		}
		b.WriteByte('>')
		sn.nodes[id] = ns
	}
	return b.String(), sn
}

// Walk is the structural in-order walk from the root through the repository (never through the cursor).
func (t *Tree) Walk() []WalkItem {
	var out []WalkItem
	seen := map[sop.UUID]bool{}
	var rec func(id sop.UUID, depth int)
	rec = func(id sop.UUID, depth int) {
		if id.IsNil() || seen[id] || depth > maxDepth {
			return
		}
		seen[id] = true
		n := t.get(id)
		if n == nil {
			return
		}
		cnt := min(max(n.Count, 0), len(n.Slots))
		nn := IDNum(id)
		emit := func(i int) {
			sl := &n.Slots[i]
			w := WalkItem{Key: sl.Key, ID: IDNum(sl.ID), Node: nn, Idx: i}
			if sl.Value != nil {
				w.Val = *sl.Value
			}
			out = append(out, w)
		}
		if len(n.ChildrenIDs) == 0 {
			for i := 0; i < cnt; i++ {
				emit(i)
			}
			return
		}
		for i := 0; i <= cnt; i++ {
			if i < len(n.ChildrenIDs) {
				rec(n.ChildrenIDs[i], depth+1)
			}
			if i < cnt {
				emit(i)
			}
		}
	}
	rec(t.B.StoreInfo.RootNodeID, 1)
	return out
}

// ---- executing one op line ----

func (t *Tree) call(f func() (bool, error)) (ret string) {
	defer func() {
		if r := recover(); r != nil {
			ret = "panic"
			t.PanicMsg = fmt.Sprint(r)
		}
	}()
	ok, err := f()
	if err != nil {
		return "err"
	}
	return b01(ok)
}

const rangeCap = 100000

func (t *Tree) callRange(desc bool, a, b int) (ret string, keys []int) {
	defer func() {
		if r := recover(); r != nil {
			ret = "panic"
			t.PanicMsg = fmt.Sprint(r)
		}
	}()
	bi := inmemory.BtreeInterface[int, int]{Btree: t.B}
	var sb strings.Builder
	sb.WriteByte('[')
	seq := bi.Range(a, b)
	if desc {
		seq = bi.RangeDesc(a, b)
	}
	for k, v := range seq {
		if len(keys) > 0 {
			sb.WriteByte(',')
		}
		if len(keys) >= rangeCap {
			sb.WriteString("...")
			break
		}
		keys = append(keys, k)
		fmt.Fprintf(&sb, "%d:%d", k, v)
	}
	sb.WriteByte(']')
	return sb.String(), keys
}

// opArity is the number of integer arguments of every op of the protocol.
var opArity = map[string]int{
	"add": 2, "addne": 2, "upsert": 2, "update": 2, "updkey": 1, "rm": 1,
	"find": 2, "findd": 1, "findid": 2,
	"first": 0, "last": 0, "next": 0, "prev": 0, "rmcur": 0, "updcurkey": 1, "updcur": 2, "updcurval": 1,
	"range": 2, "rangedesc": 2,
}

func parseOp(line string) (string, []int, error) {
	f := strings.Fields(line)
	if len(f) == 0 {
		return "", nil, fmt.Errorf("empty op line")
	}
	ar, ok := opArity[f[0]]
	if !ok || len(f) != ar+1 {
		return "", nil, fmt.Errorf("bad op line %q", line)
	}
	a := make([]int, ar)
	for i := range a {
		n, err := strconv.Atoi(f[i+1])
		if err != nil {
			return "", nil, fmt.Errorf("bad op line %q", line)
		}
		a[i] = n
	}
	return f[0], a, nil
}

// Apply executes one op line on the real tree and returns the answer line
// `<ret> c=… root=… cur=… | <node>…` (just `panic` when the call panicked; the case is over then).
// With a session attached it also records the op/answer pair (before evaluating the oracle, so that a
// reported failure carries the failing op), counts histogram keys and evaluates the direct oracle.
func (t *Tree) Apply(line string) string {
	op, a, err := parseOp(line)
	if err != nil {
		panic("btx: " + err.Error())
	}
	if t.Dead {
		panic("btx: op on a dead tree: " + line)
	}
	t.ops = append(t.ops, line)
	idBefore := PeekID()
	var ret string
	var rkeys []int
	b := t.B
	switch op {
	case "add":
		ret = t.call(func() (bool, error) { return b.Add(bg, a[0], a[1]) })
	case "addne":
		ret = t.call(func() (bool, error) { return b.AddIfNotExist(bg, a[0], a[1]) })
	case "upsert":
		ret = t.call(func() (bool, error) { return b.Upsert(bg, a[0], a[1]) })
	case "update":
		ret = t.call(func() (bool, error) { return b.Update(bg, a[0], a[1]) })
	case "updkey":
		ret = t.call(func() (bool, error) { return b.UpdateKey(bg, a[0]) })
	case "rm":
		ret = t.call(func() (bool, error) { return b.Remove(bg, a[0]) })
	case "find":
		ret = t.call(func() (bool, error) { return b.Find(bg, a[0], a[1] != 0) })
	case "findd":
		ret = t.call(func() (bool, error) { return b.FindInDescendingOrder(bg, a[0]) })
	case "findid":
		ret = t.call(func() (bool, error) { return b.FindWithID(bg, a[0], UUIDOf(a[1])) })
	case "first":
		ret = t.call(func() (bool, error) { return b.First(bg) })
	case "last":
		ret = t.call(func() (bool, error) { return b.Last(bg) })
	case "next":
		ret = t.call(func() (bool, error) { return b.Next(bg) })
	case "prev":
		ret = t.call(func() (bool, error) { return b.Previous(bg) })
	case "rmcur":
		ret = t.call(func() (bool, error) { return b.RemoveCurrentItem(bg) })
	case "updcurkey":
		ret = t.call(func() (bool, error) { return b.UpdateCurrentKey(bg, a[0]) })
	case "updcur":
		ret = t.call(func() (bool, error) { return b.UpdateCurrentItem(bg, a[0], a[1]) })
	case "updcurval":
		ret = t.call(func() (bool, error) { return b.UpdateCurrentValue(bg, a[0]) })
	case "range":
		ret, rkeys = t.callRange(false, a[0], a[1])
	case "rangedesc":
		ret, rkeys = t.callRange(true, a[0], a[1])
	}
	t.hit("op:" + op)
	if ret == "panic" {
		t.Dead = true
		if t.S != nil {
			t.S.Op(line, "panic")
		}
		t.hit("panic")
		t.hit("ret:" + op + ":panic")
		t.fail("C17/panic:"+op, "a B-tree call panicked", t.PanicMsg)
		return "panic"
	}
	ds, cur := t.dump()
	ans := ret + " " + ds
	if t.S != nil {
		t.S.Op(line, ans)
	}
	switch op {
	case "range", "rangedesc":
		if len(rkeys) == 0 {
			t.hit("range:empty")
		} else {
			t.hit("range:nonempty")
		}
	default:
		t.hit("ret:" + op + ":" + ret)
	}
	t.events(op, ret, cur)
	t.oracle(op, a, ret, idBefore, rkeys)
	t.prev = cur
	return ans
}

// events classifies what the op did to the structure by diffing consecutive dumps.
func (t *Tree) events(op, ret string, cur *snap) {
	prev := t.prev
	created, removed, changed := 0, 0, 0
	for id, n := range cur.nodes {
		p, ok := prev.nodes[id]
		if !ok {
			created++
		} else if p.slots != n.slots {
			changed++
		}
	}
	for id := range prev.nodes {
		if _, ok := cur.nodes[id]; !ok {
			removed++
		}
	}
	grew := len(cur.nodes) - len(prev.nodes)
	if grew >= 2 {
		t.Splits++
		t.hit("ev:split")
	}
	if created > 0 {
		t.hit("ev:newnode")
	}
	if removed > 0 {
		t.hit("ev:node-removed")
	}
	if cur.nilChild {
		t.NilChildOps++
		t.hit("ev:nilchild-present")
	}
	if cur.height > t.MaxHeight {
		t.MaxHeight = cur.height
	}
	if cur.height >= 3 {
		t.hit("ev:height>=3")
	}
	// root collapse: the root's only item went away and the surviving child's contents were copied into the root
	if pr, cr := prev.nodes[prev.root], cur.nodes[cur.root]; pr != nil && cr != nil && prev.root == cur.root &&
		pr.count == 1 && len(pr.kids) > 0 && pr.slots != cr.slots && removed > 0 {
		for _, k := range pr.kids {
			if k != 0 && cur.nodes[k] == nil {
				t.hit("ev:root-collapse")
				break
			}
		}
	}
	isAdd := op == "add" || op == "addne" || op == "upsert"
	if t.B.StoreInfo.LeafLoadBalancing && isAdd && ret == "1" && created == 0 && changed >= 2 {
		t.Rotations++
		t.hit("ev:rotation")
	}
	if prev.count > 0 && cur.count == 0 {
		t.Emptied++
		t.hit("ev:tree-emptied")
	}
}

func sameInts(a, b []int) bool {
	if len(a) != len(b) {
		return false
	}
	for i := range a {
		if a[i] != b[i] {
			return false
		}
	}
	return true
}

// ---- the reference ----

// Has reports whether the reference holds an item with the key.
func (t *Tree) Has(k int) bool {
	i := sort.Search(len(t.Ref), func(i int) bool { return t.Ref[i].Key >= k })
	return i < len(t.Ref) && t.Ref[i].Key == k
}

func (t *Tree) hasID(k, id int) bool {
	for i := sort.Search(len(t.Ref), func(i int) bool { return t.Ref[i].Key >= k }); i < len(t.Ref) && t.Ref[i].Key == k; i++ {
		if t.Ref[i].ID == id {
			return true
		}
	}
	return false
}

func (t *Tree) refInsert(it RefItem) {
	i := sort.Search(len(t.Ref), func(i int) bool { return t.Ref[i].Key > it.Key })
	t.Ref = append(t.Ref, RefItem{})
	copy(t.Ref[i+1:], t.Ref[i:])
	t.Ref[i] = it
}

// learnVal: the op gave value v to ONE item (with key k when anyKey is false); which one is learnt from the walk.
func (t *Tree) learnVal(k, v int, anyKey bool, w []WalkItem) {
	for _, x := range w {
		if x.Val == v && x.ID != 0 {
			for i := range t.Ref {
				if t.Ref[i].ID == x.ID && (anyKey || t.Ref[i].Key == k) {
					t.Ref[i].Val = v
					return
				}
			}
		}
	}
}

// learnRemoved: the op removed exactly ONE item (with key k when anyKey is false); which one is learnt from the walk.
func (t *Tree) learnRemoved(k int, anyKey bool, w []WalkItem) {
	live := make(map[int]bool, len(w))
	for _, x := range w {
		live[x.ID] = true
	}
	gone := -1
	for i, r := range t.Ref {
		if (anyKey || r.Key == k) && !live[r.ID] {
			if gone >= 0 {
				return // more than one disappeared: leave the reference, the content check reports it
			}
			gone = i
		}
	}
	if gone >= 0 {
		t.Ref = append(t.Ref[:gone], t.Ref[gone+1:]...)
	}
}

func (t *Tree) resync(w []WalkItem) {
	t.Ref = t.Ref[:0]
	for _, x := range w {
		if x.ID != 0 {
			t.Ref = append(t.Ref, RefItem{Key: x.Key, Val: x.Val, ID: x.ID})
		}
	}
	sort.SliceStable(t.Ref, func(i, j int) bool { return t.Ref[i].Key < t.Ref[j].Key })
}

func showWalk(w []WalkItem) string {
	var b strings.Builder
	for i, x := range w {
		if i > 0 {
			b.WriteByte(' ')
		}
		fmt.Fprintf(&b, "%d:%d:%d", x.Key, x.Val, x.ID)
	}
	return b.String()
}

func showRef(r []RefItem) string {
	var b strings.Builder
	for i, x := range r {
		if i > 0 {
			b.WriteByte(' ')
		}
		fmt.Fprintf(&b, "%d:%d:%d", x.Key, x.Val, x.ID)
	}
	return b.String()
}

func sameContent(w []WalkItem, r []RefItem) bool {
	if len(w) != len(r) {
		return false
	}
	a := make([]RefItem, len(w))
	for i, x := range w {
		a[i] = RefItem{x.Key, x.Val, x.ID}
	}
	b := append([]RefItem(nil), r...)
	less := func(s []RefItem) func(i, j int) bool {
		return func(i, j int) bool {
			if s[i].Key != s[j].Key {
				return s[i].Key < s[j].Key
			}
			if s[i].ID != s[j].ID {
				return s[i].ID < s[j].ID
			}
			return s[i].Val < s[j].Val
		}
	}
	sort.Slice(a, less(a))
	sort.Slice(b, less(b))
	for i := range a {
		if a[i] != b[i] {
			return false
		}
	}
	return true
}

// oracle evaluates the direct oracle after one (non-panicking) op.
func (t *Tree) oracle(op string, a []int, ret string, idBefore int, rkeys []int) {
	w := t.Walk()
	exp := "" // "" = the reference has no expectation for this op's result
	switch op {
	case "add", "addne":
		if (t.B.StoreInfo.IsUnique || op == "addne") && t.Has(a[0]) {
			exp = "0"
		} else {
			exp = "1"
			t.refInsert(RefItem{a[0], a[1], idBefore})
		}
	case "upsert":
		exp = "1"
		if t.Has(a[0]) {
			t.learnVal(a[0], a[1], false, w)
		} else {
			t.refInsert(RefItem{a[0], a[1], idBefore})
		}
	case "update":
		exp = b01(t.Has(a[0]))
		if exp == "1" {
			t.learnVal(a[0], a[1], false, w)
		}
	case "updkey", "find", "findd":
		exp = b01(t.Has(a[0]))
	case "findid":
		exp = b01(t.hasID(a[0], a[1]))
	case "rm":
		exp = b01(t.Has(a[0]))
		if exp == "1" {
			t.learnRemoved(a[0], false, w)
		}
	case "rmcur":
		if ret == "1" {
			t.learnRemoved(0, true, w)
		}
	case "updcur":
		if ret == "1" {
			t.learnVal(0, a[1], true, w)
		}
	case "updcurval":
		if ret == "1" {
			t.learnVal(0, a[0], true, w)
		}
	}
	// While the tree is mis-shaped (reported when it became so) wrong results and counts are consequences, not news.
	cascade := t.shapeBad
	disagree := false
	resultBad := exp != "" && ret != exp
	if resultBad && cascade {
		disagree = true
		t.hit("cascade:result-mismatch:" + op)
	} else if resultBad {
		disagree = true
		sig := "C17/result-mismatch:" + op
		if (op == "find" || op == "findd" || op == "findid") && t.ReportPrefix == "C18/" {
			// the answers of the search calls are C18's subject too: report them under the running property
			sig = "C18/result-mismatch:" + op
		}
		if op == "rm" && ret == "0" && exp == "1" {
			for _, x := range w {
				if x.Key == a[0] && x.ID != 0 {
					sig = "C17/remove-miss-on-present-key"
					break
				}
			}
		}
		t.fail(sig, "return value differs from the sorted-slice reference", fmt.Sprintf("op %q returned %s, expected %s; walk=[%s]", t.ops[len(t.ops)-1], ret, exp, showWalk(w)))
	}
	cnt := int(t.B.Count())
	countBad := false
	if cnt != len(w) && cascade {
		countBad = true
		t.hit("cascade:count-mismatch")
	} else if cnt != len(w) {
		countBad = true
		t.fail("C17/count-mismatch", "Count() differs from the number of items reachable from the root", fmt.Sprintf("Count=%d walk=%d ref=%d", cnt, len(w), len(t.Ref)))
	} else if !resultBad && cnt != len(t.Ref) {
		countBad = true
		t.fail("C17/count-mismatch", "Count() differs from the reference", fmt.Sprintf("Count=%d walk=%d ref=%d", cnt, len(w), len(t.Ref)))
	}
	shape := false
	for i := 1; i < len(w); i++ {
		if w[i].Key < w[i-1].Key {
			shape = true
			t.fail("C17/scan-out-of-order", "in-order walk keys are not non-decreasing", "walk=["+showWalk(w)+"]")
			break
		}
	}
	for _, x := range w {
		if x.ID == 0 {
			shape = true
			t.fail("C17/vacated-slot-visited", "in-order walk visits a slot whose item id is nil", "walk=["+showWalk(w)+"]")
			break
		}
	}
	if t.B.StoreInfo.IsUnique {
		seen := make(map[int]bool, len(w))
		for _, x := range w {
			if x.ID == 0 {
				continue // a vacated slot is not an item (it has its own signature)
			}
			if seen[x.Key] {
				shape = true
				t.fail("C17/duplicate-in-unique-store", "two reachable items share a key in a unique store", "walk=["+showWalk(w)+"]")
				break
			}
			seen[x.Key] = true
		}
	}
	if !sameContent(w, t.Ref) {
		disagree = true
		if !shape && !resultBad && !countBad && !cascade {
			t.fail("C17/content-mismatch", "multiset of (key,value,id) reachable from the root differs from the reference", "walk=["+showWalk(w)+"] ref=["+showRef(t.Ref)+"]")
		}
	}
	if disagree || shape || countBad {
		t.resync(w)
	}
	t.shapeBad = shape
	if t.Unhealthy {
		return
	}
	t.oracleC18(op, a, ret, w, rkeys)
}

func sameKeys(a, b []int) bool { return sameInts(a, b) }

// oracleC18: range results and the cursor position after find / findInDescendingOrder (healthy trees only).
func (t *Tree) oracleC18(op string, a []int, ret string, w []WalkItem, rkeys []int) {
	switch op {
	case "range":
		var exp []int
		for _, r := range t.Ref {
			if a[0] <= r.Key && r.Key <= a[1] {
				exp = append(exp, r.Key)
			}
		}
		if !sameKeys(exp, rkeys) {
			t.fail("C18/range-mismatch", "Range(from,to) keys differ from the reference", fmt.Sprintf("range %d %d -> %v expected %v", a[0], a[1], rkeys, exp))
		}
	case "rangedesc":
		var exp []int
		for i := len(t.Ref) - 1; i >= 0; i-- {
			if r := t.Ref[i]; a[1] <= r.Key && r.Key <= a[0] {
				exp = append(exp, r.Key)
			}
		}
		if !sameKeys(exp, rkeys) {
			t.fail("C18/rangedesc-mismatch", "RangeDesc(from,to) keys differ from the reference", fmt.Sprintf("rangedesc %d %d -> %v expected %v", a[0], a[1], rkeys, exp))
		}
	case "find", "findd":
		k := a[0]
		nid, idx, cached, it := btree.VerifCursor(t.B)
		at := func(x WalkItem) bool { return cached && x.Node == IDNum(nid) && x.Idx == idx && it.Key == x.Key }
		curs := fmt.Sprintf("cursor=%d:%d cached=%v key=%d id=%d walk=[%s]", IDNum(nid), idx, cached, it.Key, IDNum(it.ID), showWalk(w))
		if ret == "1" {
			first, last := -1, -1
			for i, x := range w {
				if x.Key == k {
					if first < 0 {
						first = i
					}
					last = i
				}
			}
			if op == "find" && a[1] != 0 && (first < 0 || !at(w[first]) || it.Key != k) {
				t.fail("C18/find-first-not-first", "Find(k,true) did not park the cursor on the first item with the key", curs)
			}
			if op == "findd" && (last < 0 || !at(w[last]) || it.Key != k) {
				t.fail("C18/findd-not-last", "FindInDescendingOrder(k) did not park the cursor on the last item with the key", curs)
			}
			return
		}
		if ret != "0" || len(w) == 0 {
			return
		}
		succ, pred := -1, -1
		for i, x := range w {
			if x.Key > k {
				succ = i
				break
			}
			pred = i
		}
		want := succ
		if want < 0 {
			want = len(w) - 1
		}
		switch {
		case at(w[want]) && succ >= 0:
			t.hit("miss:on-successor")
		case at(w[want]):
			t.hit("miss:on-last")
		case nid.IsNil() || !cached:
			t.hit("miss:no-cursor")
		case pred >= 0 && at(w[pred]):
			t.hit("miss:on-predecessor")
		default:
			t.hit("miss:elsewhere")
		}
		switch {
		case at(w[want]):
		case succ >= 0 && pred >= 0 && at(w[pred]):
			// the mechanism is specific (the descent ended past the last slot of a leaf and stepped back), so it has its own signature
			// "next to where the key would be": the greatest smaller item is adjacent too (Range/RangeDesc step over it); counted, not a failure
			t.hit("miss:adjacent-predecessor")
		default:
			t.fail("C18/miss-not-adjacent", "after a missed "+op+" the cursor is neither on the smallest greater item nor on the greatest smaller item", fmt.Sprintf("key=%d want=%d:%d ", k, w[want].Node, w[want].Idx)+curs)
		}
	}
}

// ---- running cases ----

// Script builds fixed op lists; values are 1,2,3,… in order of the ops that take one.
type Script struct {
	Ops []string
	v   int
}

func (s *Script) val() int { s.v++; return s.v }

func (s *Script) KV(op string, keys ...int) *Script {
	for _, k := range keys {
		s.Ops = append(s.Ops, fmt.Sprintf("%s %d %d", op, k, s.val()))
	}
	return s
}
func (s *Script) Add(keys ...int) *Script    { return s.KV("add", keys...) }
func (s *Script) Upsert(keys ...int) *Script { return s.KV("upsert", keys...) }
func (s *Script) Rm(keys ...int) *Script {
	for _, k := range keys {
		s.Ops = append(s.Ops, fmt.Sprintf("rm %d", k))
	}
	return s
}
func (s *Script) Raw(lines ...string) *Script { s.Ops = append(s.Ops, lines...); return s }

// Begin starts a case on the session and builds its tree.
func Begin(s *hx.Session, cfg Config) *Tree {
	s.BeginCase(cfg.Header())
	return NewTree(cfg, s)
}

// RunOps applies op lines until the list ends or the tree dies.
func (t *Tree) RunOps(ops []string) {
	for _, l := range ops {
		if t.Dead {
			return
		}
		t.Apply(l)
	}
}

// Replay runs the one case of a replay file (first line `case <n> <header>`) through Apply.
func Replay(s *hx.Session, path, reportPrefix string, done func(t *Tree)) error {
	lines, err := hx.ReadReplay(path)
	if err != nil {
		return err
	}
	if len(lines) == 0 || !strings.HasPrefix(lines[0], "case ") {
		return fmt.Errorf("replay file %s does not start with a case header", path)
	}
	f := strings.Fields(lines[0])
	cfg, err := ParseHeader(strings.Join(f[2:], " "))
	if err != nil {
		return err
	}
	t := Begin(s, cfg)
	t.ReportPrefix = reportPrefix
	for _, l := range lines[1:] {
		if strings.HasPrefix(l, "case ") || strings.HasPrefix(l, "…") {
			break
		}
		if t.Dead {
			break
		}
		if _, _, err := parseOp(l); err != nil {
			return err
		}
		t.Apply(l)
	}
	if done != nil {
		done(t)
	}
	t.Close()
	return nil
}

// ---- generators ----

// Gen produces and applies random ops on one tree. All randomness comes from P.
type Gen struct {
	P      *hx.Prng
	T      *Tree
	Lo, Hi int // key space
	N      int // ops applied so far
	v      int
}

// KeySpaces are the key ranges random cases draw from.
var KeySpaces = [][2]int{{0, 7}, {0, 15}, {0, 15}, {-8, 8}, {0, 1000}}

// SlotLengths are the requested slot lengths random cases draw from (odd ones and 1 get rounded by NewStoreInfo).
var SlotLengths = []int{2, 2, 2, 3, 4, 4, 5, 6, 8, 1, 7}

func (g *Gen) Val() int { g.v++; return g.v }

// Do applies one op line; false when the tree is dead (before or after).
func (g *Gen) Do(format string, args ...any) bool {
	if g.T.Dead {
		return false
	}
	g.T.Apply(fmt.Sprintf(format, args...))
	g.N++
	return !g.T.Dead
}

func (g *Gen) AnyKey() int { return g.Lo + g.P.Intn(g.Hi-g.Lo+1) }

func (g *Gen) HitKey() (int, bool) {
	if len(g.T.Ref) == 0 {
		return 0, false
	}
	return g.T.Ref[g.P.Intn(len(g.T.Ref))].Key, true
}

func (g *Gen) MissKey() int {
	for i := 0; i < 8; i++ {
		if k := g.AnyKey(); !g.T.Has(k) {
			return k
		}
	}
	if g.P.Chance(1, 2) {
		return g.Hi + 1 + g.P.Intn(3)
	}
	return g.Lo - 1 - g.P.Intn(3)
}

// Key is an existing key with probability num/den (when there is one), a missing key otherwise.
func (g *Gen) Key(num, den int) int {
	if g.P.Chance(num, den) {
		if k, ok := g.HitKey(); ok {
			return k
		}
	}
	return g.MissKey()
}

// cursorKey peeks at the key under the cursor (generator side only; reads, never moves).
func (g *Gen) cursorKey() (int, bool) {
	nid, idx, cached, it := btree.VerifCursor(g.T.B)
	if cached {
		return it.Key, true
	}
	if n := g.T.get(nid); n != nil && idx >= 0 && idx < len(n.Slots) {
		return n.Slots[idx].Key, true
	}
	return 0, false
}

// PhaseKinds are the op mixes a phase can have.
var PhaseKinds = []string{"grow", "churn", "flux", "shrink", "drain", "cursor", "dups"}

// Step applies one generator step of the given phase kind (one to a few ops).
func (g *Gen) Step(kind string) {
	switch kind {
	case "grow":
		if g.P.Chance(4, 5) {
			g.adder(1, 4)
		} else {
			g.churn()
		}
	case "churn":
		g.churn()
	case "flux":
		// adds and removes in balance over the whole key space: the tree hovers around one size while leaves
		// empty, nil children appear and get refilled (what load balancing's rotations trip over)
		switch r := g.P.Intn(20); {
		case r < 9:
			g.Do("add %d %d", g.AnyKey(), g.Val())
		case r < 18:
			g.Do("rm %d", g.AnyKey())
		case r == 18:
			g.Do("upsert %d %d", g.AnyKey(), g.Val())
		default:
			g.finder(g.AnyKey())
		}
	case "shrink":
		if g.P.Chance(3, 4) && len(g.T.Ref) > 0 {
			g.remover()
		} else {
			g.churn()
		}
	case "drain":
		if len(g.T.Ref) > 0 {
			g.remover()
		} else {
			g.adder(0, 1)
		}
	case "cursor":
		g.cursorPlay()
	case "dups":
		g.dups()
	default:
		panic("btx: unknown phase kind " + kind)
	}
}

func (g *Gen) adder(num, den int) {
	k := g.Key(num, den)
	switch r := g.P.Intn(4); {
	case r < 2:
		g.Do("add %d %d", k, g.Val())
	case r == 2:
		g.Do("upsert %d %d", k, g.Val())
	default:
		g.Do("addne %d %d", k, g.Val())
	}
}

func (g *Gen) remover() {
	k, _ := g.HitKey()
	if g.P.Chance(3, 5) {
		g.Do("rm %d", k)
		return
	}
	switch g.P.Intn(3) {
	case 0:
		g.Do("find %d 0", k)
	case 1:
		g.Do("find %d 1", k)
	default:
		g.Do("findd %d", k)
	}
	g.Do("rmcur")
}

func (g *Gen) findID() {
	r := g.P.Intn(100)
	ref := g.T.Ref
	switch {
	case r < 70 && len(ref) > 0:
		it := ref[g.P.Intn(len(ref))]
		g.Do("findid %d %d", it.Key, it.ID)
	case r < 85 && len(ref) > 0: // existing key, wrong id
		it := ref[g.P.Intn(len(ref))]
		id := NoSuchID
		if g.P.Chance(1, 2) {
			id = ref[g.P.Intn(len(ref))].ID
		}
		g.Do("findid %d %d", it.Key, id)
	default: // missing key
		id := NoSuchID
		if len(ref) > 0 && g.P.Chance(1, 2) {
			id = ref[g.P.Intn(len(ref))].ID
		}
		g.Do("findid %d %d", g.MissKey(), id)
	}
}

func (g *Gen) churn() {
	k := g.Key(1, 2)
	switch g.P.Intn(10) {
	case 0:
		g.Do("add %d %d", k, g.Val())
	case 1:
		g.Do("addne %d %d", k, g.Val())
	case 2:
		g.Do("upsert %d %d", k, g.Val())
	case 3:
		g.Do("update %d %d", k, g.Val())
	case 4:
		g.Do("updkey %d", k)
	case 5:
		g.Do("rm %d", k)
	case 6:
		g.Do("find %d 0", k)
	case 7:
		g.Do("find %d 1", k)
	case 8:
		g.Do("findd %d", k)
	default:
		g.findID()
	}
}

// act is what cursor-play does with a cursor some earlier op left behind (possibly stale).
func (g *Gen) act() {
	ck, ok := g.cursorKey()
	if !ok {
		ck = g.AnyKey()
	}
	other := ck + 1 + g.P.Intn(3)
	if g.P.Chance(1, 2) {
		other = ck - 1 - g.P.Intn(3)
	}
	switch g.P.Intn(13) {
	case 0, 1:
		g.Do("rmcur")
	case 2:
		g.Do("updcur %d %d", ck, g.Val())
	case 3:
		g.Do("updcur %d %d", other, g.Val())
	case 4:
		g.Do("updcurkey %d", ck)
	case 5:
		g.Do("updcurkey %d", other)
	case 6:
		g.Do("updcurval %d", g.Val())
	case 7:
		g.Do("next")
	case 8:
		g.Do("prev")
	case 9:
		g.Do("find %d 0", g.Key(3, 4))
	case 10:
		g.Do("rm %d", g.Key(3, 4))
	case 11:
		g.Do("update %d %d", g.Key(3, 4), g.Val())
	default:
		g.Do("updkey %d", g.Key(3, 4))
	}
}

func (g *Gen) nav() {
	switch g.P.Intn(4) {
	case 0:
		g.Do("first")
	case 1:
		g.Do("last")
	case 2:
		g.Do("next")
	default:
		g.Do("prev")
	}
}

func (g *Gen) finder(k int) {
	switch g.P.Intn(3) {
	case 0:
		g.Do("find %d 0", k)
	case 1:
		g.Do("find %d 1", k)
	default:
		g.Do("findd %d", k)
	}
}

func (g *Gen) cursorPlay() {
	switch g.P.Intn(7) {
	case 0: // plain navigation
		for i, n := 0, 1+g.P.Intn(3); i < n; i++ {
			g.nav()
		}
	case 1: // act on a found item
		if k, ok := g.HitKey(); ok {
			g.finder(k)
		} else {
			g.finder(g.MissKey())
		}
		g.act()
	case 2: // act right after a miss (the cursor is parked on a neighbour)
		g.finder(g.MissKey())
		g.act()
	case 3: // act right after an add (Add does not reset the cursor)
		g.adder(1, 3)
		g.act()
	case 4: // walk from an end, then act
		if g.P.Chance(1, 2) {
			g.Do("first")
			for i, n := 0, g.P.Intn(4); i < n; i++ {
				g.Do("next")
			}
		} else {
			g.Do("last")
			for i, n := 0, g.P.Intn(4); i < n; i++ {
				g.Do("prev")
			}
		}
		g.act()
	case 5: // a missed remove or update parks the cursor too
		k := g.MissKey()
		switch g.P.Intn(3) {
		case 0:
			g.Do("rm %d", k)
		case 1:
			g.Do("update %d %d", k, g.Val())
		default:
			g.Do("updkey %d", k)
		}
		g.adder(1, 4)
		g.act()
	default: // miss, then structural change, then a keyed op that trusts the cursor
		g.finder(g.MissKey())
		for i, n := 0, 1+g.P.Intn(3); i < n; i++ {
			g.adder(0, 1)
		}
		k := g.Key(3, 4)
		switch g.P.Intn(4) {
		case 0:
			g.Do("rm %d", k)
		case 1:
			g.Do("find %d 0", k)
		case 2:
			g.Do("update %d %d", k, g.Val())
		default:
			g.Do("updkey %d", k)
		}
	}
}

// dups: heavy duplicates on keys 0..2 (meant for non-unique stores).
func (g *Gen) dups() {
	k := g.P.Intn(3)
	switch r := g.P.Intn(12); {
	case r < 5:
		g.Do("add %d %d", k, g.Val())
	case r == 5:
		g.Do("rm %d", k)
	case r == 6:
		g.Do("find %d 1", k)
	case r == 7:
		g.Do("findd %d", k)
	case r == 8:
		var same []RefItem
		for _, it := range g.T.Ref {
			if it.Key == k {
				same = append(same, it)
			}
		}
		if len(same) > 0 {
			g.Do("findid %d %d", k, same[g.P.Intn(len(same))].ID)
			if g.P.Chance(1, 2) {
				g.Do("rmcur")
			}
		} else {
			g.Do("findid %d %d", k, NoSuchID)
		}
	case r == 9:
		g.Do("upsert %d %d", k, g.Val())
	case r == 10:
		g.Do("update %d %d", k, g.Val())
	default:
		g.finder(k)
		g.act()
	}
}

// RandomConfig draws slot length, uniqueness, balancing and key space. lbNum/lbDen is the chance of balancing on;
// about one case in ten is built through inmemory.NewBtree (slot length 8, balancing off).
func RandomConfig(p *hx.Prng, lbNum, lbDen int) (Config, [2]int) {
	cfg := Config{SL: SlotLengths[p.Intn(len(SlotLengths))], U: p.Chance(1, 2), LB: p.Chance(lbNum, lbDen)}
	ks := KeySpaces[p.Intn(len(KeySpaces))]
	if p.Chance(1, 10) {
		cfg.SL, cfg.LB, cfg.IM = 8, false, true
	}
	return cfg, ks
}

// SplitLen cuts n ops into k phases of at least 3 ops (fewer phases when n is small).
func SplitLen(p *hx.Prng, n, k int) []int {
	for k > 1 && n < 3*k {
		k--
	}
	out := make([]int, k)
	rest := n - 3*k
	if rest < 0 {
		rest = 0
	}
	for i := range out {
		out[i] = 3
	}
	for i := 0; i < k-1; i++ {
		x := p.Intn(rest + 1)
		if p.Chance(1, 2) {
			x = x / 2
		}
		out[i] += x
		rest -= x
	}
	out[k-1] += rest
	return out
}

// Phase runs one phase of about n ops of the given kind (a step may overshoot by a few ops).
func (g *Gen) Phase(kind string, n int) {
	if kind == "dups" && g.T.B.StoreInfo.IsUnique {
		kind = "churn"
	}
	g.T.hit("phase:" + kind)
	for end := g.N + n; g.N < end && !g.T.Dead; {
		g.Step(kind)
	}
}
