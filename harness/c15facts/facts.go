// Package c15facts regenerates lean/Sop/Gen/FactsC15.lean (namespace Sop.FactsC15): the retry cap of the
// phase-1 commit loop, the caps of the inner waits, and the retry policy of sop.Retry, all taken from the
// compiled /repo source (constants through overlay accessors; literals by running the function).
package c15facts

import (
	"context"
	"errors"
	"time"

	"github.com/sethvargo/go-retry"
	"github.com/sharedcode/sop"
	"github.com/sharedcode/sop/common"
	"github.com/sharedcode/sop/fs"

	"verifharness/hx"
)

// RetryAttempts runs sop.Retry on an always-failing retryable task with a 1 ns start duration and counts
// how often the task is invoked (1 + max retries).
func RetryAttempts() int {
	old := sop.RetryStartDuration
	sop.RetryStartDuration = time.Nanosecond
	defer func() { sop.RetryStartDuration = old }()
	n := 0
	sop.Retry(context.Background(), func(context.Context) error {
		n++
		return retry.RetryableError(errors.New("again"))
	}, nil)
	return n
}

// fibTotal is the total sleep of a Fibonacci backoff with k retries starting at start (1,1,2,3,5 … × start).
func FibTotalMs(start time.Duration, k int) int {
	a, b := start, start
	var tot time.Duration
	for i := 0; i < k; i++ {
		tot += a
		a, b = b, a+b
	}
	return int(tot / time.Millisecond)
}

func Facts() []hx.Fact {
	att := RetryAttempts()
	return []hx.Fact{
		hx.NatFact("phase1MaxRetry", common.VerifC15Phase1MaxRetry()),
		hx.NatFact("lockSectorRetryTimeoutMs", int(fs.VerifC15LockSectorRetryTimeout()/time.Millisecond)),
		hx.NatFact("lockFileRegionDurationMs", int(fs.LockFileRegionDuration/time.Millisecond)),
		hx.NatFact("retryAttempts", att),
		hx.NatFact("retryStartMs", int(sop.RetryStartDuration/time.Millisecond)),
		hx.NatFact("retryTotalSleepMs", FibTotalMs(sop.RetryStartDuration, att-1)),
	}
}
