package main

import (
	"context"
	"fmt"
	"os"

	"verifharness/commitx"
	"verifharness/hx"
	"verifharness/txk"
)

func main() { hx.Main(run, "", nil, nil) }

func run(o hx.RunOpts) error {
	ctx := context.Background()
	p := hx.NewPrng(o.Seed)
	s := hx.NewSession(o, "generated multi-store transaction programs x one injected fault per backend call of Commit")
	nprog := o.N(6, 60)
	for i := 0; i < nprog; i++ {
		pr := commitx.Gen(p.Fork())
		pr.SepVals = false
		base, err := commitx.Run(ctx, pr, "", 0, txk.None, false)
		if err != nil {
			return err
		}
		if base.SetupErr != nil || base.Res.OpenErr != nil {
			fmt.Fprintln(os.Stderr, "skip", base.SetupErr, base.Res)
			continue
		}
		commitx.Emit(ctx, s, base, pr.Header()+" nofault")
		calls := commitx.CommitCalls(base.Res)
		occ := map[string]int{}
		for _, name := range calls {
			occ[name]++
			for _, kind := range []txk.Fault{txk.FailBefore, txk.FailAfter} {
				ob, err := commitx.Run(ctx, pr, name, occ[name], kind, true)
				if err != nil {
					return err
				}
				commitx.Emit(ctx, s, ob, fmt.Sprintf("%s %s#%d:%v", pr.Header(), name, occ[name], kind))
			}
		}
	}
	return s.Finish()
}
