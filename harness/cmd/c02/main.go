package main

import (
	"fmt"
	"os"
	"strconv"
	"strings"

	"verifharness/hx"
	"verifharness/occx"
)

func main() {
	hx.Main(run, "", nil, map[string]func([]string) error{"probe": probe})
}

const rule = "cases: 2-4 real transactions (writers with read-modify-write, blind update/add/remove; ForReading readers; commit or abort) of one process over one seeded unique store " +
	"(keys 10..70, slot length 2/4/8), each in its own goroutine and parked by its txk.Script gate at the lock-record calls (GetStructs/SetStructs/Delete), the page-lock calls, the first validation read and the " +
	"install (registry UpdateNoLocks all-or-nothing); a generated schedule releases one parked transaction at a time, then the rest is drained round-robin. Every step is replayed on Model L (same schedule): park point, result, " +
	"tracked items with versionInDB, isLockOwner flags, fetched/updated page sets and the whole lock-record table after the step are diffed, then the final cold scan. Oracle: exact serializability of the committed " +
	"transactions (all serial orders; op results, values read, final scan). Directed corpus besides the write skew: one hot item — a transaction that read it and then removed it / updated it / wrote elsewhere / only read it " +
	"(writer and ForReading) or blindly removed it meets a node conflict (at the validation or at the node lock) after another writer committed an update, an increment or a remove of that item, for values in the node and in a separate segment " +
	"(the latter oracle only); the same family is generated with random park depth and a third writer. distinct = canonical case hash; non-trivial = at least two transactions were inside Commit at the same time"

// the store of DESIGN.md C02
var keys = []int{10, 20, 30, 40, 50, 60, 70}

func writeSkew() occx.Case {
	return occx.Case{Label: "write-skew", Slot: 2, Keys: keys, Val: 100,
		Progs: []occx.Prog{
			{Ops: []occx.Op{{Kind: "updf", Key: 70, Src: 10, Delta: -1}}}, // T1: reads X, writes Y := X-1
			{Ops: []occx.Op{{Kind: "updf", Key: 10, Src: 70, Delta: -1}}}, // T2: reads Y, writes X := Y-1
		},
		// T2 does its work and its FIRST lock-record read; T1 runs to just before its install; T2 overwrites both
		// records, verifies, locks X's page, validates, re-checks, reaches its install; T1 installs and its
		// unlock() deletes T2's records; T2 installs.
		Sched: []int{1, 1, 0, 0, 0, 0, 0, 0, 0, 1, 1, 1, 1, 1, 0, 0, 1, 1}}
}

func genProg(p *hx.Prng, t int, slot int) occx.Prog {
	var pr occx.Prog
	k := func() int { return keys[p.Intn(len(keys))] }
	if p.Chance(1, 6) {
		pr.Reader = true
		n := 1 + p.Intn(3)
		for i := 0; i < n; i++ {
			pr.Ops = append(pr.Ops, occx.Op{Kind: "get", Key: k()})
		}
		if p.Chance(1, 8) {
			pr.Ops = append(pr.Ops, occx.Op{Kind: "get", Key: 15})
		}
		return pr
	}
	pr.Abort = p.Chance(1, 10)
	n := 1 + p.Intn(3)
	used := map[int]bool{}
	for i := 0; i < n; i++ {
		uniq := 1000*(t+1) + 10*i
		switch x := p.Intn(20); {
		case x < 7: // read-modify-write, source may be another key (write skew shape)
			dst := k()
			src := dst
			if p.Chance(1, 2) {
				src = k()
			}
			if used[dst] {
				continue
			}
			used[dst] = true
			pr.Ops = append(pr.Ops, occx.Op{Kind: "updf", Key: dst, Src: src, Delta: -1 - t})
		case x < 10:
			pr.Ops = append(pr.Ops, occx.Op{Kind: "get", Key: k()})
		case x < 13: // blind write
			dst := k()
			if used[dst] {
				continue
			}
			used[dst] = true
			pr.Ops = append(pr.Ops, occx.Op{Kind: "upd", Key: dst, Val: uniq})
		case x < 16: // blind add (new keys between the seeded ones; sometimes an existing key)
			nk := 5 + 10*p.Intn(8)
			if p.Chance(1, 6) {
				nk = k()
			}
			if slot == 2 && !p.Chance(1, 4) {
				continue
			}
			if used[nk] {
				continue
			}
			used[nk] = true
			pr.Ops = append(pr.Ops, occx.Op{Kind: "add", Key: nk, Val: uniq})
		case x < 18: // blind remove
			dst := k()
			if used[dst] {
				continue
			}
			used[dst] = true
			pr.Ops = append(pr.Ops, occx.Op{Kind: "rm", Key: dst})
		default:
			nk := k()
			if used[nk] {
				continue
			}
			used[nk] = true
			pr.Ops = append(pr.Ops, occx.Op{Kind: "ups", Key: nk, Val: uniq})
		}
	}
	if len(pr.Ops) == 0 {
		pr.Ops = append(pr.Ops, occx.Op{Kind: "get", Key: k()})
	}
	return pr
}

// ---- one hot item: a transaction that READ item x (and then removed it / updated it / only read it) meets a node
// conflict after another writer committed an update or a remove of x; the merge replay must compare x's version with
// the versionInDB of the single tracker entry, whatever its kind (get, update, remove) ----

const hotKey = 30

// readers of x: what T1 does with the hot item after reading it
var hotFirst = []struct {
	name string
	prog occx.Prog
}{
	{"read-remove", occx.Prog{Ops: []occx.Op{{Kind: "get", Key: hotKey}, {Kind: "rm", Key: hotKey}}}},
	{"read-update", occx.Prog{Ops: []occx.Op{{Kind: "updf", Key: hotKey, Src: hotKey, Delta: -7}}}},
	{"read-write-elsewhere", occx.Prog{Ops: []occx.Op{{Kind: "updf", Key: 60, Src: hotKey, Delta: -7}}}},
	{"read-only-writer", occx.Prog{Ops: []occx.Op{{Kind: "get", Key: hotKey}}}},
	{"read-only-reader", occx.Prog{Reader: true, Ops: []occx.Op{{Kind: "get", Key: hotKey}, {Kind: "get", Key: 50}}}},
	{"blind-remove", occx.Prog{Ops: []occx.Op{{Kind: "rm", Key: hotKey}}}},
}

// writers of x: what T2 commits in between
var hotSecond = []struct {
	name string
	prog occx.Prog
}{
	{"update", occx.Prog{Ops: []occx.Op{{Kind: "upd", Key: hotKey, Val: 2000}}}},
	{"increment", occx.Prog{Ops: []occx.Op{{Kind: "updf", Key: hotKey, Src: hotKey, Delta: 1}}}},
	{"remove", occx.Prog{Ops: []occx.Op{{Kind: "rm", Key: hotKey}}}},
}

// hotCase: T0 does its work and `ahead` more steps of its Commit, T1 runs to its end, then T0 goes on (round-robin drain).
func hotCase(first, second int, segment bool, ahead int) occx.Case {
	pl := "node"
	if segment {
		pl = "segment"
	}
	c := occx.Case{Label: fmt.Sprintf("hot-%s-vs-%s-%s-%d", hotFirst[first].name, hotSecond[second].name, pl, ahead),
		Slot: 8, Keys: keys, Val: 100, Segment: segment,
		Progs: []occx.Prog{hotFirst[first].prog, hotSecond[second].prog}}
	for i := 0; i <= ahead; i++ {
		c.Sched = append(c.Sched, 0)
	}
	for i := 0; i < 14; i++ {
		c.Sched = append(c.Sched, 1)
	}
	return c
}

func hotCorpus() []occx.Case {
	var out []occx.Case
	for _, seg := range []bool{false, true} {
		for f := range hotFirst {
			for s := range hotSecond {
				out = append(out, hotCase(f, s, seg, 0))
			}
		}
	}
	// the same conflict met at the node lock (T0 already holds its lock records) instead of at the validation
	out = append(out, hotCase(0, 1, false, 3), hotCase(1, 1, false, 3), hotCase(0, 0, false, 4))
	return out
}

func genCase(p *hx.Prng, n int) occx.Case {
	if p.Chance(1, 6) {
		c := hotCase(p.Intn(len(hotFirst)), p.Intn(len(hotSecond)), p.Chance(1, 3), p.Intn(7))
		c.Label = fmt.Sprintf("gen%d-%s", n, c.Label)
		if p.Chance(1, 2) { // a third party on the same leaf
			c.Progs = append(c.Progs, genProg(p, 2, 8))
			for i := 0; i < 6; i++ {
				c.Sched = append(c.Sched, p.Intn(3))
			}
		}
		return c
	}
	slots := []int{2, 4, 4, 8}
	c := occx.Case{Label: fmt.Sprintf("gen%d", n), Slot: slots[p.Intn(len(slots))], Keys: keys, Val: 100}
	nt := 2 + p.Intn(2)
	if p.Chance(1, 8) {
		nt = 4
	}
	for t := 0; t < nt; t++ {
		c.Progs = append(c.Progs, genProg(p, t, c.Slot))
	}
	switch p.Intn(4) {
	case 0: // uniform interleaving
		for i := 0; i < 10+p.Intn(25); i++ {
			c.Sched = append(c.Sched, p.Intn(nt))
		}
	case 1: // one transaction stops somewhere inside Commit, another runs to its end, then the rest
		a, b := p.Intn(nt), p.Intn(nt)
		for i := 0; i < 1+p.Intn(8); i++ {
			c.Sched = append(c.Sched, a)
		}
		for i := 0; i < 12; i++ {
			c.Sched = append(c.Sched, b)
		}
	case 2: // the write-skew window: a parked after its first lock read, b up to its install, a up to its install, b, a
		a, b := 0, 1
		if p.Chance(1, 2) {
			a, b = 1, 0
		}
		c.Sched = append(c.Sched, a, a)
		for i := 0; i < 5+p.Intn(3); i++ {
			c.Sched = append(c.Sched, b)
		}
		for i := 0; i < 3+p.Intn(4); i++ {
			c.Sched = append(c.Sched, a)
		}
		c.Sched = append(c.Sched, b, b, a, a)
	default: // bursts
		for i := 0; i < 8; i++ {
			t := p.Intn(nt)
			for j := 0; j < 1+p.Intn(4); j++ {
				c.Sched = append(c.Sched, t)
			}
		}
	}
	return c
}

func runCase(s *hx.Session, c occx.Case) error {
	o, err := occx.Run(c)
	if o != nil && o.W != nil {
		defer o.W.Close()
	}
	if err != nil {
		return fmt.Errorf("case %s: %w", c.Label, err)
	}
	if why := o.OutOfScope(); why != "" {
		s.BeginCase("unique=1 label=" + c.Label + " oracle-only=" + why + " " + occx.Describe(c))
		s.Op("note outside Model L ("+why+"): only the direct oracle is evaluated", "ok")
		s.Hit("oracle_only:" + why)
	} else {
		o.Emit(s, c)
	}
	judge(s, c, o)
	return nil
}

func judge(s *hx.Session, c occx.Case, o *occx.Outcome) {
	inCommit := 0
	for _, p := range o.Procs {
		s.Hit("result:" + p.Result())
		tr := strings.Join(p.Trace, " ")
		if len(p.Trace) > 2 {
			inCommit++
		}
		if strings.Contains(tr, "plock plock") {
			s.Hit("page_lock_refused")
		}
		if strings.Contains(tr, "validate ldel plock") || strings.Contains(tr, "validate plock") {
			s.Hit("validation_failed_refetch")
		}
		if p.Prog.Reader {
			s.Hit("reader:" + p.Result())
		}
		if p.Err != nil && !p.Aborted {
			e := p.Err.Error()
			switch {
			case strings.Contains(e, "detected conflict"):
				s.Hit("err:lock-record-conflict")
			case strings.Contains(e, "can't attain"):
				s.Hit("err:lock-record-lost")
			case strings.Contains(e, "newer version"):
				s.Hit("err:merge-newer-version")
			case strings.Contains(e, "failed to find item"):
				s.Hit("err:merge-item-gone")
			case strings.Contains(e, "merge add item"):
				s.Hit("err:merge-duplicate-key")
			default:
				s.Hit("err:other")
			}
		}
		for i, r := range p.Results {
			if r.OK {
				s.Hit("op:" + p.Prog.Ops[i].Kind)
			} else {
				s.Hit("op-miss:" + p.Prog.Ops[i].Kind)
			}
		}
	}
	for _, e := range o.Events {
		s.Hit("event:" + e.Kind)
	}
	if inCommit >= 2 {
		s.Nontrivial()
	}
	s.HitN("steps", o.Steps)
	if o.Panicked {
		for _, p := range o.Procs {
			if p.Panic != "" {
				sig := "C02/panic"
				if strings.Contains(p.Panic, "nil pointer") && len(p.Trace) > 2 {
					sig = "C02/panic-in-merge-replay-stale-cursor" // the defect of finding C05-F1, met by a C02 workload
				}
				s.Fail(sig, "Commit panicked", p.Panic+" "+o.Summary())
			}
		}
		return
	}
	if d := o.DupKeys(); len(d) > 0 {
		s.Fail("C02/duplicate-key-in-final-scan", "the final scan of a unique store shows a key twice", fmt.Sprint(d)+" "+o.Summary())
	}
	if ok, _ := o.Serializable(c); !ok {
		sig := o.Signature(c)
		if ok2, _ := o.SerializableIgnoringNegativeReads(c); ok2 && sig == "C02/not-serializable" {
			// explainable once ops that found nothing are ignored: a phantom (negative reads are not tracked by the
			// code and are outside the property's stated workload)
			s.Hit("phantom_only:negative_read_outside_workload")
		} else {
			s.Fail(sig, "committed transactions are not explainable by any serial order", o.Summary())
		}
	} else {
		s.Hit("serializable")
	}
}

func run(o hx.RunOpts) error {
	s := hx.NewSession(o, rule)
	p := hx.NewPrng(o.Seed)
	kt, err := occx.KeepTracker()
	if err != nil {
		return err
	}
	s.Rep.Extra = map[string]any{"refetch_keeps_lock_ids": kt}
	if err := runCase(s, writeSkew()); err != nil {
		return err
	}
	for _, c := range hotCorpus() {
		if err := runCase(s, c); err != nil {
			return err
		}
	}
	n := o.N(400, 2500)
	for i := 0; i < n; i++ {
		if err := runCase(s, genCase(p.Fork(), i)); err != nil {
			return err
		}
	}
	return s.Finish()
}

// probe <sched> [ww] : run a directed case and print every step (development aid)
func probe(args []string) error {
	c := writeSkew()
	if s := os.Getenv("SLOT"); s != "" {
		c.Slot, _ = strconv.Atoi(s)
	}
	if len(args) > 1 && args[1] == "ww" {
		c.Progs = []occx.Prog{
			{Ops: []occx.Op{{Kind: "updf", Key: 10, Src: 10, Delta: -1}}},
			{Ops: []occx.Op{{Kind: "updf", Key: 20, Src: 20, Delta: -1}, {Kind: "get", Key: 70}}},
			{Reader: true, Ops: []occx.Op{{Kind: "get", Key: 10}, {Kind: "get", Key: 70}}},
		}
	}
	if pg := os.Getenv("PROGS"); pg != "" {
		c.Progs = nil
		for _, ps := range strings.Split(pg, ";") {
			var pr occx.Prog
			for _, os_ := range strings.Split(ps, ",") {
				f := strings.Split(os_, ":")
				n := func(i int) int { x, _ := strconv.Atoi(f[i]); return x }
				switch f[0] {
				case "r":
					pr.Reader = true
				case "abort":
					pr.Abort = true
				case "get", "rm":
					pr.Ops = append(pr.Ops, occx.Op{Kind: f[0], Key: n(1)})
				case "updf":
					pr.Ops = append(pr.Ops, occx.Op{Kind: "updf", Key: n(1), Src: n(2), Delta: n(3)})
				default:
					pr.Ops = append(pr.Ops, occx.Op{Kind: f[0], Key: n(1), Val: n(2)})
				}
			}
			c.Progs = append(c.Progs, pr)
		}
	}
	if len(args) > 0 && args[0] != "" {
		c.Sched = nil
		for _, x := range strings.Split(args[0], ",") {
			n, _ := strconv.Atoi(x)
			c.Sched = append(c.Sched, n)
		}
	}
	o, err := occx.Run(c)
	if o != nil {
		fmt.Println(o.Summary())
		for i, p := range o.Procs {
			fmt.Println("t", i, p.Result(), p.Err)
			if os.Getenv("CALLS") != "" {
				for _, l := range p.Script.Lines() {
					fmt.Println("   ", l)
				}
			}
		}
		ok, ord := o.Serializable(c)
		fmt.Println("serializable:", ok, ord, "signature:", o.Signature(c))
	}
	return err
}
