package main

import (
	"context"
	"fmt"
	"os"

	"verifharness/commitx"
	"verifharness/hx"
	"verifharness/txk"
)

func main() { hx.Main(run, "", nil, nil) }

func run(o hx.RunOpts) error {
	ctx := context.Background()
	p := hx.NewPrng(o.Seed)
	s := hx.NewSession(o, "generated transaction programs (as C01) run through the phased API: Phase1Commit, then Phase2Commit or Rollback; the writer is parked before EVERY backend call of its work, both phases and the rollback, and at each pause a reader transaction (a freshly started other process, or the same process sharing its caches) scans every store and reads Count; "+
		"oracle: the reader sees exactly the last committed state until the commit point and never anything of a rolled-back writer; tie: at every pause of the commit phases the registry images, blobs and counts on disk equal the state Model P has right before that call. distinct = canonical case hash; non-trivial = the writer changes at least one existing node or creates a root")
	nprog := o.N(16, 60)
	for i := 0; i < nprog; i++ {
		pr := commitx.Gen(p.Fork())
		pr.SepVals, pr.Sep = false, nil
		for _, mode := range []struct {
			same, rb bool
			api      int
		}{{false, false, 0}, {false, true, 1}, {true, false, 0}, {true, true, 0}, {true, false, 1}, {true, true, 1}, {true, false, 2}, {true, true, 2}} {
			// api rotates the public call that performs each update / remove (Update, Find+UpdateCurrentValue,
			// Find+UpdateCurrentItem; Remove, Find+RemoveCurrentItem): none of them may be visible to anybody else
			pr.API = mode.api
			ob, err := commitx.RunObserved(ctx, pr, mode.same, mode.rb)
			if err != nil {
				return err
			}
			if ob.SetupErr != nil || ob.Res == nil || ob.Res.OpenErr != nil {
				fmt.Fprintln(os.Stderr, "skip program")
				s.Hit("skipped_program")
				break
			}
			commitx.EmitC03(ctx, s, ob, fmt.Sprintf("%s same=%v rollback=%v api=%d", pr.Header(), mode.same, mode.rb, mode.api))
			s.Hit("runs")
			s.HitN("pauses", len(ob.Pauses))
			for _, pz := range ob.Pauses {
				s.Hit("pause:" + pz.Phase)
			}
			if len(ob.Res.WriteSet) > 0 {
				s.Nontrivial()
			}
			for _, n := range ob.Res.WriteSet {
				s.Hit("ws:" + n.Action)
			}
			if ob.P1Err != nil {
				s.Hit("phase1_err")
			}
			for _, f := range ob.JudgeC03() {
				s.Fail(f.Sig, f.What, f.Detail)
			}
			// C01-style end check: committed -> expected, rolled back -> before
			exp := commitx.ExpectedAfter(ob.Before, ob.Prog, ob.Res).String()
			if mode.rb && ob.P1Err == nil && ob.After.String() != ob.Before.String() {
				s.Fail("C03/rolled-back-writes-visible-afterwards", "after Rollback a later transaction sees changes of the rolled-back writer", "before="+ob.Before.String()+" after="+ob.After.String())
			}
			if !mode.rb && ob.P1Err == nil && ob.P2Err == nil && ob.After.String() != exp {
				s.Fail("C03/committed-writes-not-visible", "after Phase2Commit a later transaction does not see the writer's changes", "expected="+exp+" after="+ob.After.String())
			}
		}
	}
	// "… and after it aborts": commits that FAIL at a registry write of their own (reservation, removal marks, the flip),
	// before or after the write took effect; afterwards a cold reader must find every item as before
	nfail := o.N(6, 40)
	for i := 0; i < nfail; i++ {
		pr := commitx.Gen(p.Fork())
		pr.SepVals, pr.Sep = false, nil
		base, err := commitx.Run(ctx, pr, "", 0, txk.None, false)
		if err != nil {
			return err
		}
		if base.SetupErr != nil || base.Res == nil || base.Res.OpenErr != nil {
			s.Hit("skipped_program")
			continue
		}
		occ := map[string]int{}
		for _, name := range commitx.CommitCalls(base.Res) {
			occ[name]++
			if name != "reg.UpdateNoLocks" && name != "plog.Add" {
				continue
			}
			for _, kind := range []txk.Fault{txk.FailBefore, txk.FailAfter} {
				ob, err := commitx.Run(ctx, pr, name, occ[name], kind, false)
				if err != nil {
					return err
				}
				commitx.EmitAndJudge(ctx, s, ob, "C03", fmt.Sprintf("%s %s#%d:%v", pr.Header(), name, occ[name], kind))
				s.Hit("failed_commit_runs")
			}
		}
	}
	return s.Finish()
}
