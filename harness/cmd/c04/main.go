// C04: concurrent transactions with disjoint changes to one store all commit, and the store ends as the union.
// Real writers (goroutines running the real Commit) are parked before every node-lock attempt of the phase-1
// loop and released by a generated schedule; every step is replayed on the Lean model Sop.Merge.
package main

import (
	"context"
	"fmt"
	"strings"
	"time"

	"verifharness/hx"
	"verifharness/occ4"
)

func main() { hx.Main(run, "Sop.FactsMerge", occ4.Facts, nil) }

func add(ks ...int) []occ4.Op {
	var o []occ4.Op
	for _, k := range ks {
		o = append(o, occ4.Op{Kind: "add", Key: k, Val: k})
	}
	return o
}

type tcase struct {
	name  string
	sc    occ4.Scenario
	sched []int
	root  bool
}

// heldAtDual: writers A=0, B=1, C=2 on one leaf {10,20,30,40}. C commits (A, begun earlier, conflicts and
// refetches, reaching its DualLock holding nothing); B takes the node lock and parks before the named call of its
// commitUpdatedNodes / phase 2; A calls DualLock (refused); B finishes; A goes round again and commits.
func heldAtDual(name, call string, occ int, adds bool) tcase {
	a := []occ4.Op{{Kind: "upd", Key: 10, Val: 110}}
	b := []occ4.Op{{Kind: "upd", Key: 20, Val: 220}}
	if adds {
		a = add(11)
		b = add(12)
	}
	sc := occ4.Scenario{Slot: 8, Init: [][]occ4.Op{add(10, 20, 30, 40)},
		Writers:  []occ4.WriterSpec{{Ops: a}, {Ops: b}, {Ops: add(5)}},
		SubGates: []occ4.SubGate{{Writer: 1, Name: call, Occ: occ}}}
	return tcase{name, sc, []int{0, 2, 2, 2, 0, 0, 0, 0, 1, 1, 1, 0, 1, 0, 0, 0, 0}, false}
}

func directed() []tcase {
	return []tcase{
		// the plain merge path: two writers on an empty store, no race: the second merges into the new root
		{"merge-empty", occ4.Scenario{Slot: 8, Writers: []occ4.WriterSpec{{Ops: add(1, 2)}, {Ops: add(7)}}}, []int{0, 1, 0, 0, 1, 1, 1, 1}, false},
		// ONE conflict round by a failed node VERSION check: B commits completely between A's read and A's commit; A
		// rolls its attempt back (the value blobs it wrote stay), refetches, merges, commits
		{"one-round", occ4.Scenario{Slot: 8, Init: [][]occ4.Op{add(10, 20)}, Writers: []occ4.WriterSpec{
			{Ops: []occ4.Op{{Kind: "upd", Key: 10, Val: 110}, {Kind: "add", Key: 1, Val: 1}}}, {Ops: add(2)}}}, []int{0, 1, 1, 1, 0, 0, 0, 0, 0, 0}, false},
		// TWO conflict rounds in one commit loop: A parks before its node lock, B commits into the same leaf, A conflicts
		// and refetches, parks before DualLock, C commits into the same leaf, A conflicts again and refetches again
		{"two-rounds", occ4.Scenario{Slot: 8, Init: [][]occ4.Op{add(10, 20)}, Writers: []occ4.WriterSpec{{Ops: add(1)}, {Ops: add(2)}, {Ops: add(3)}}},
			[]int{0, 1, 1, 1, 0, 0, 0, 0, 2, 2, 2, 0, 0, 0, 0, 0}, false},
		// a refused node lock, then refetch: the writer's own lock records (remove, update) are still published
		{"refused-lock", occ4.Scenario{Slot: 8, Init: [][]occ4.Op{add(10, 20, 30, 40)}, Writers: []occ4.WriterSpec{
			{Ops: []occ4.Op{{Kind: "rm", Key: 10}, {Kind: "upd", Key: 20, Val: 99}}}, {Ops: add(2)}}}, []int{1, 1, 0, 0, 1, 0, 0, 0, 0}, false},
		// A stands before its post-refetch DualLock while B HOLDS the node lock (B parked inside its commit, after
		// Lock+IsLocked): the refused DualLock must send A round the loop again, B finishes, then A merges and commits.
		// C caused A's first-round conflict; A, B, C work on different items of the same node.
		heldAtDual("held-at-dual/before-registry-get", "reg.Get", 1, false),
		heldAtDual("held-at-dual/before-reserving-update", "reg.UpdateNoLocks", 1, false),
		heldAtDual("held-at-dual/before-flip", "reg.UpdateNoLocks", 2, false),
		heldAtDual("held-at-dual/adds-before-reserving-update", "reg.UpdateNoLocks", 1, true),
		// the first-root race: both looked the root handle up before either registered it
		{"root-race", occ4.Scenario{Slot: 8, Writers: []occ4.WriterSpec{{Ops: add(1, 2)}, {Ops: add(7)}}, Gates: []string{"blob.Add"}, Deadline: 1500 * time.Millisecond},
			[]int{1, 0, 0, 1}, true},
	}
}

func genCase(p *hx.Prng, thorough bool) tcase {
	sc, sched := occ4.Gen(p, thorough, false)
	return tcase{"gen", sc, sched, false}
}

func genRoot(p *hx.Prng) tcase {
	a := 1 + p.Intn(3)
	b := 1 + p.Intn(3)
	var ka, kb []int
	for i := 0; i < a; i++ {
		ka = append(ka, 1+2*i+10*p.Intn(2))
	}
	for i := 0; i < b; i++ {
		kb = append(kb, 2+2*i+10*p.Intn(2))
	}
	sc := occ4.Scenario{Slot: 8, Writers: []occ4.WriterSpec{{Ops: add(ka...)}, {Ops: add(kb...)}}, Gates: []string{"blob.Add"}, Deadline: 1200 * time.Millisecond}
	if p.Chance(1, 2) {
		return tcase{"root-race", sc, []int{0, 1, 1, 0}, true}
	}
	return tcase{"root-race", sc, []int{1, 0, 0, 1}, true}
}

func addedKeys(ops []occ4.Op) []int {
	var ks []int
	for _, o := range ops {
		if o.Kind == "add" {
			ks = append(ks, o.Key)
		}
	}
	return ks
}

func hasKey(items []string, k int) bool {
	for _, it := range items {
		if strings.HasPrefix(it, fmt.Sprintf("%d=", k)) {
			return true
		}
	}
	return false
}

func runCase(ctx context.Context, s *hx.Session, tc tcase) (err error) {
	// a panic anywhere inside one case (harness or real code on this goroutine) is recorded against that case and the
	// run goes on
	defer func() {
		if p := recover(); p != nil {
			s.Fail("C04/panic-in-case", "a case of the harness panicked", fmt.Sprintf("%s: %v", tc.name, p))
			err = nil
		}
	}()
	hdr := fmt.Sprintf("%s slot=%d writers=%d", tc.name, tc.sc.Slot, len(tc.sc.Writers))
	o, err := occ4.Drive(ctx, s, tc.sc, tc.sched, hdr, tc.root)
	if err != nil {
		return fmt.Errorf("case %q: %w", hdr, err)
	}
	s.Hit("case:" + tc.name)
	s.Hit(fmt.Sprintf("writers:%d", len(tc.sc.Writers)))
	s.Hit(fmt.Sprintf("slot:%d", tc.sc.Slot))
	if len(tc.sc.Init) == 0 {
		s.Hit("empty_store")
	}
	reached := false
	for w, r := range o.Results {
		s.Hit("result:" + r)
		s.Hit(fmt.Sprintf("loop_passes:%d", o.Passes[w]))
		if o.Passes[w] >= 2 || o.Refused[w] > 0 {
			reached = true
		}
		if o.Passes[w] >= 3 {
			s.Hit("two_or_more_conflict_rounds")
		}
		if o.Refused[w] > 0 {
			s.Hit("node_lock_refused")
		}
	}
	if o.Foreign {
		s.Hit("tracker_holds_another_items_identity")
	}
	if o.ReadAliased {
		s.Hit("tracked_read_aliased")
	}
	if reached || tc.root {
		s.Nontrivial()
	}
	final := o.Items[len(o.Items)-1]
	finalCount := o.Counts[len(o.Counts)-1]
	detail := fmt.Sprintf("init=%s writers=%v sched=%v results=%v passes=%v refused=%v final=%d%v", occ4.InitArg(tc.sc.Init), tc.sc.Writers, tc.sched, o.Results, o.Passes, o.Refused, finalCount, final)
	// ---- direct oracle: every writer commits, the store is init ∪ writes ----
	if o.Unfinished {
		s.Fail("C04/unfinished", "a writer neither committed nor failed within the step budget", detail)
		return nil
	}
	// the store must hold the changes of every writer whose Commit returned nil (a writer that did not commit is
	// reported below on its own)
	var committed []int
	for w, r := range o.Results {
		if r == "ok" {
			committed = append(committed, w)
		}
	}
	want := occ4.Expected(tc.sc, committed, nil)
	for w, r := range o.Results {
		if r == "ok" {
			continue
		}
		switch {
		case tc.root && r == "err:timeout":
			s.Fail("C04/first-root-race", "two writers create the first root of an empty store: the one that registers second fails (after spinning until its deadline)", detail)
		case (r == "err:itemlock" || r == "err:merge") && o.Foreign:
			// some writer's inner-node removal published a lock record under the SUCCESSOR's identity, which is
			// another writer's item
			s.Fail("C04/merge-removes-another-item-after-inner-node-removal", "an inner-node removal is tracked (and lock-recorded) under the successor's identity: a writer on that successor item meets a lock conflict, or the replay of the mis-tracked removal fails, although the key sets are disjoint", detail)
		case r == "err:merge" && o.ReadAliased:
			s.Fail("C04/merge-fails-on-aliased-tracked-read", "a writer that read an item and also adds/removes in the same node fails 'failed to find item' at its second refetch: the tracked read's item pointer aliases a node slot that the merge replay shifted", detail)
		case r == "err:itemlock" && o.Refused[w] > 0:
			s.Fail("C04/self-lock-conflict-after-refused-node-lock", "a writer with an update/remove whose node lock was refused once fails its commit on its OWN item lock records", detail)
		default:
			s.Fail("C04/commit-failed:"+r, "a writer with changes disjoint from all others did not commit", detail)
		}
	}
	for _, rp := range o.ReaderPanics {
		s.Fail("C04/panic-in-cold-"+occ4.PanicSlug(rp), "a new transaction reading the store after these commits panics inside the B-tree", detail+" "+rp.Error())
	}
	s.Hit("values:" + tc.sc.ValMode())
	if o.OrphanBlobs > 0 {
		s.Hit("orphan_blobs_after_history")
		// a removed item's value blob stays on disk in a separate-segment store even without any conflict (seen in
		// every generated case with a remove, conflict or not: C11's/C19's territory, reported); what C04 looks for
		// is value blobs orphaned BY A CONFLICT SCHEDULE: more orphans than removes
		removes := 0
		for _, ops := range tc.sc.Init {
			for _, op := range ops {
				if op.Kind == "rm" {
					removes++
				}
			}
		}
		for _, w := range tc.sc.Writers {
			for _, op := range w.Ops {
				if op.Kind == "rm" {
					removes++
				}
			}
		}
		if o.OrphanBlobs > removes {
			s.Fail("C04/blobs-orphaned-by-conflict-schedule", "after all writers finished there are more unreferenced blob files than removed items: a conflict round left blobs behind", fmt.Sprintf("%s orphans=%d removes=%d", detail, o.OrphanBlobs, removes))
		}
		s.HitN("orphan_blob_files", o.OrphanBlobs)
	}
	if o.WalkProblem != "" {
		s.Hit("walk_problem")
	}
	lost := false
	for _, it := range final {
		lost = lost || strings.HasSuffix(it, "=!lost")
	}
	if lost {
		// every writer's Commit returned, the key is in the store, and a cold reader cannot read its value
		s.Fail("C04/value-unreadable-after-commit", "a key committed to a separate-segment store has no readable value: its value blob is gone from the blob store", detail+" want="+strings.Join(want, " "))
	} else if strings.Join(final, " ") != strings.Join(want, " ") {
		sig := "C04/final-state-differs"
		for w, r := range o.Results {
			if r != "ok" {
				continue
			}
			for _, k := range addedKeys(tc.sc.Writers[w].Ops) {
				if !hasKey(final, k) {
					if tc.root {
						sig = "C04/first-root-race"
					} else if o.Passes[w] >= 3 {
						sig = "C04/adds-lost-after-two-conflict-rounds"
					}
				}
			}
		}
		for w, r := range o.Results {
			if r != "ok" || (o.Passes[w] < 2 && o.Refused[w] == 0) {
				continue // no refetch-and-merge happened in this writer
			}
			for _, op := range tc.sc.Writers[w].Ops {
				if o.Foreign && op.Kind == "rm" && hasKey(final, op.Key) && sig == "C04/final-state-differs" {
					// the committed writer's removed key is back and another key is gone
					sig = "C04/merge-removes-another-item-after-inner-node-removal"
				}
			}
		}
		if tc.root && sig == "C04/final-state-differs" {
			sig = "C04/first-root-race"
		}
		s.Fail(sig, "the store after all commits is not the union of the initial items and the writers' changes", detail+" want="+strings.Join(want, " "))
	}
	return nil
}

func run(o hx.RunOpts) error {
	s := hx.NewSession(o, "cases: a store with generated initial items (0..9 items, slot length 2/4/8, optional version bump and removal), 2-4 REAL writer transactions "+
		"with pairwise disjoint keys (adds clustered around one or two base keys so they land in the same leaf / force the same split; update/remove/get of distinct existing items), "+
		"released step by step (a step = the part of Commit between two node-lock calls) by a generated schedule, then round-robin to the end; plus the first-root race on an empty store. "+
		"Every step's observable state (where the writer stands, tracked actions, Count/count-at-fetch, loop passes) and every cold dump is compared with the Lean model; "+
		"distinct = canonical op-line hash; non-trivial = some writer went through a conflict round or was refused a node lock (or the case is a first-root race)")
	ctx := context.Background()
	p := hx.NewPrng(o.Seed)
	for _, tc := range directed() {
		if err := runCase(ctx, s, tc); err != nil {
			return err
		}
		if tc.root {
			continue
		}
		// the same schedule on a store that keeps values in a separate segment (value blobs are written by
		// commitTrackedItemsValues in every attempt, kept by the in-loop rollback, marked persisted by the replay),
		// and for the conflict-round cases also with globally cached values
		seg := tc
		seg.name += "/segment"
		seg.sc.SepVals = true
		if err := runCase(ctx, s, seg); err != nil {
			return err
		}
		if tc.name == "one-round" || tc.name == "two-rounds" {
			seg.name += "+cache"
			seg.sc.ValCache = true
			if err := runCase(ctx, s, seg); err != nil {
				return err
			}
		}
	}
	n := o.N(150, 1500)
	for i := 0; i < n; i++ {
		if err := runCase(ctx, s, genCase(p.Fork(), o.Thorough())); err != nil {
			return err
		}
	}
	nr := o.N(2, 10)
	for i := 0; i < nr; i++ {
		if err := runCase(ctx, s, genRoot(p.Fork())); err != nil {
			return err
		}
	}
	return s.Finish()
}
