package main

import (
	"fmt"
	"strings"

	"verifharness/hx"
	"verifharness/occx"
)

func main() { hx.Main(run, "", nil, nil) }

const rule = "cases: 2-4 real writers of one process racing Add / AddIfNotExist / Upsert / UpdateKey / Remove (+ reads) on a handful of overlapping keys of one UNIQUE store " +
	"(empty store = the very first items, or 3 seeded keys; slot length 8 so that the whole race is in one leaf, and 2/4 for multi-node trees; LeafLoadBalancing off), every writer parked by its txk.Script gate at the " +
	"lock-record calls, the node-lock calls, the validation read and the registry flip; generated schedules, then round-robin drain. Every step is replayed on Model L (same duplicate check in the work phase and in the merge replay) " +
	"and diffed (park point, result, tracker, isLockOwner flags, page sets, lock-record table, final cold scan). Oracle: the final cold scan (env.AsOtherProcess) has no two equal adjacent keys, and results + scan equal " +
	"a serial execution of the committed writers. distinct = canonical case hash; non-trivial = at least two writers that added or upserted the SAME key were inside Commit at the same time"

var hot = []int{20, 25, 30, 35}

func genProg(p *hx.Prng, t int, seeded []int) occx.Prog {
	var pr occx.Prog
	pr.Abort = p.Chance(1, 12)
	n := 1 + p.Intn(3)
	used := map[int]bool{}
	for i := 0; i < n; i++ {
		k := hot[p.Intn(len(hot))]
		if p.Chance(1, 5) && len(seeded) > 0 {
			k = seeded[p.Intn(len(seeded))]
		}
		if used[k] && !p.Chance(1, 4) {
			continue
		}
		used[k] = true
		v := 1000*(t+1) + 10*i
		switch x := p.Intn(20); {
		case x < 7:
			pr.Ops = append(pr.Ops, occx.Op{Kind: "add", Key: k, Val: v})
		case x < 11:
			pr.Ops = append(pr.Ops, occx.Op{Kind: "addne", Key: k, Val: v})
		case x < 15:
			pr.Ops = append(pr.Ops, occx.Op{Kind: "ups", Key: k, Val: v})
		case x < 17:
			pr.Ops = append(pr.Ops, occx.Op{Kind: "updkey", Key: k})
		case x < 18:
			pr.Ops = append(pr.Ops, occx.Op{Kind: "rm", Key: k})
		default:
			pr.Ops = append(pr.Ops, occx.Op{Kind: "get", Key: k})
		}
	}
	if len(pr.Ops) == 0 {
		pr.Ops = append(pr.Ops, occx.Op{Kind: "add", Key: hot[p.Intn(len(hot))], Val: 1000 * (t + 1)})
	}
	return pr
}

func genCase(p *hx.Prng, n int) occx.Case {
	c := occx.Case{Label: fmt.Sprintf("gen%d", n), Slot: 8, Val: 100}
	switch p.Intn(6) {
	case 0:
		c.Keys = nil // the very first items of an empty store
	case 1:
		c.Slot = 2
		c.Keys = []int{10, 30, 50}
		c.OracleOnly = "structure-change"
	case 2:
		c.Slot = 4
		c.Keys = []int{10, 30, 50, 60, 70}
		c.OracleOnly = "structure-change"
	default:
		c.Keys = []int{10, 30, 50}
	}
	nt := 2 + p.Intn(2)
	if p.Chance(1, 8) {
		nt = 4
	}
	for t := 0; t < nt; t++ {
		c.Progs = append(c.Progs, genProg(p, t, c.Keys))
	}
	switch p.Intn(3) {
	case 0:
		for i := 0; i < 8+p.Intn(20); i++ {
			c.Sched = append(c.Sched, p.Intn(nt))
		}
	case 1: // everybody does the work first (all see the key absent), then the commits interleave
		for t := 0; t < nt; t++ {
			c.Sched = append(c.Sched, t)
		}
		for i := 0; i < 6+p.Intn(16); i++ {
			c.Sched = append(c.Sched, p.Intn(nt))
		}
	default: // one writer stops somewhere inside Commit, another runs to the end
		a, b := p.Intn(nt), p.Intn(nt)
		for i := 0; i < 1+p.Intn(6); i++ {
			c.Sched = append(c.Sched, a)
		}
		for i := 0; i < 10; i++ {
			c.Sched = append(c.Sched, b)
		}
	}
	return c
}

// sameKeyRace: the directed corpus case — two writers add the same new key, both do their work before either
// commits; the second one's merge replay must hit the duplicate check.
func sameKeyRace() occx.Case {
	return occx.Case{Label: "same-key-race", Slot: 8, Val: 100, Keys: []int{10, 30, 50},
		Progs: []occx.Prog{
			{Ops: []occx.Op{{Kind: "add", Key: 20, Val: 1000}}},
			{Ops: []occx.Op{{Kind: "add", Key: 20, Val: 2000}}},
			{Ops: []occx.Op{{Kind: "ups", Key: 20, Val: 3000}}},
		},
		Sched: []int{0, 1, 2, 0, 1, 2, 0, 1, 2}}
}

func firstItems() occx.Case {
	return occx.Case{Label: "first-items", Slot: 8, Val: 100, Keys: nil,
		Progs: []occx.Prog{
			{Ops: []occx.Op{{Kind: "add", Key: 20, Val: 1000}, {Kind: "add", Key: 25, Val: 1010}}},
			{Ops: []occx.Op{{Kind: "add", Key: 20, Val: 2000}}},
		},
		Sched: []int{0, 1, 0, 1, 0, 1}}
}

func runCase(s *hx.Session, c occx.Case) error {
	o, err := occx.Run(c)
	if o != nil && o.W != nil {
		defer o.W.Close()
	}
	if err != nil {
		return fmt.Errorf("case %s: %w", c.Label, err)
	}
	if why := o.OutOfScope(); why != "" {
		s.BeginCase("unique=1 label=" + c.Label + " oracle-only=" + why + " " + occx.Describe(c))
		s.Op("note outside Model L ("+why+"): only the direct oracle is evaluated", "ok")
		s.Hit("oracle_only:" + why)
	} else {
		o.Emit(s, c)
	}
	// histogram
	adders := map[int]int{}
	for _, p := range o.Procs {
		s.Hit("result:" + p.Result())
		for i, r := range p.Results {
			k := p.Prog.Ops[i].Kind
			if r.OK {
				s.Hit("op:" + k)
			} else {
				s.Hit("op-refused:" + k)
			}
			if r.OK && (k == "add" || k == "addne" || k == "ups") && len(p.Trace) > 2 {
				adders[p.Prog.Ops[i].Key]++
			}
		}
		if p.Err != nil && !p.Aborted {
			e := p.Err.Error()
			switch {
			case strings.Contains(e, "merge add item"):
				s.Hit("err:merge-duplicate-key")
			case strings.Contains(e, "detected conflict"):
				s.Hit("err:lock-record-conflict")
			case strings.Contains(e, "newer version"):
				s.Hit("err:merge-newer-version")
			case strings.Contains(e, "failed to find item"):
				s.Hit("err:merge-item-gone")
			default:
				s.Hit("err:other")
			}
		}
		tr := strings.Join(p.Trace, " ")
		if strings.Contains(tr, "validate ldel plock") || strings.Contains(tr, "validate plock") {
			s.Hit("validation_failed_refetch")
		}
		if strings.Contains(tr, "plock plock") {
			s.Hit("node_lock_refused")
		}
	}
	if len(c.Keys) == 0 {
		s.Hit("empty_store_first_items")
	}
	for _, n := range adders {
		if n >= 2 {
			s.Nontrivial()
			s.Hit("same_key_added_by_two_committers")
			break
		}
	}
	s.HitN("steps", o.Steps)
	// oracle
	if o.Panicked {
		for _, p := range o.Procs {
			if p.Panic != "" {
				sig := "C05/panic"
				if strings.Contains(p.Panic, "nil pointer") && len(p.Trace) > 2 {
					sig = "C05/panic-in-merge-replay-stale-cursor"
				}
				s.Fail(sig, "Commit panicked", p.Panic+" "+o.Summary())
			}
		}
		return nil
	}
	if d := o.DupKeys(); len(d) > 0 {
		s.Fail("C05/duplicate-key-in-final-scan", "the final ordered scan of a unique store shows a key twice", fmt.Sprint(d)+" "+o.Summary())
	} else {
		s.Hit("no_duplicates")
	}
	if int(o.Count) != len(o.Final) {
		s.Hit("count_differs_from_scan(C06)")
	}
	if ok, _ := o.Serializable(c); !ok {
		sig := o.Signature(c)
		if ok2, _ := o.SerializableIgnoringNegativeReads(c); ok2 && sig == "C02/not-serializable" {
			s.Hit("phantom_only:negative_read_outside_workload")
		} else if sig == "C02/not-serializable" {
			s.Fail("C05/final-scan-has-no-serial-explanation", "results and final scan of the committed writers equal no serial execution", o.Summary())
		} else {
			// a C02 mechanism (owned by C02's findings); no duplicate resulted
			s.Hit("c02_mechanism:" + strings.TrimPrefix(sig, "C02/"))
		}
	} else {
		s.Hit("serial_explanation")
	}
	return nil
}

func run(o hx.RunOpts) error {
	s := hx.NewSession(o, rule)
	p := hx.NewPrng(o.Seed)
	kt, err := occx.KeepTracker()
	if err != nil {
		return err
	}
	s.Rep.Extra = map[string]any{"refetch_keeps_lock_ids": kt}
	for _, c := range []occx.Case{sameKeyRace(), firstItems()} {
		if err := runCase(s, c); err != nil {
			return err
		}
	}
	n := o.N(300, 3000)
	for i := 0; i < n; i++ {
		if err := runCase(s, genCase(p.Fork(), i)); err != nil {
			return err
		}
	}
	return s.Finish()
}
