// C06: a store's item count always equals the number of items it contains. Histories of real transactions
// (concurrent writers released step by step, aborts, injected commit failures, duplicate-key merges, the
// first-root race) on the real fs backend; after every finished transaction a cold reader compares Count()
// with the length of a First/Next scan, and the stored count and items are compared with the Lean model.
package main

import (
	"context"
	"fmt"
	"time"

	"verifharness/hx"
	"verifharness/occ4"
	"verifharness/txk"
)

func main() { hx.Main(run, "Sop.FactsMerge", occ4.Facts, nil) }

type tcase struct {
	name  string
	sc    occ4.Scenario
	sched []int
	root  bool
}

func directed() []tcase {
	add := occ4.Adds
	srAfter := &occ4.Fault{Name: "sr.Update", Occ: 1, Kind: txk.FailAfter}
	srBefore := &occ4.Fault{Name: "sr.Update", Occ: 1, Kind: txk.FailBefore}
	late := &occ4.Fault{Name: "plog.Add", Occ: 1, Kind: txk.FailBefore}
	return []tcase{
		// StoreRepository.Update applies the delta and then reports an error: the commit fails, the items are rolled
		// back, the count delta stays
		{"count-kept", occ4.Scenario{Slot: 8, Init: [][]occ4.Op{add(10, 20)}, Writers: []occ4.WriterSpec{{Ops: add(1, 2), Fault: srAfter}}}, []int{0, 0, 0}, false},
		// the same on a store without a root node: count 2, no root; a scan cannot load the root (no items), later adds fail
		{"count-kept-no-root", occ4.Scenario{Slot: 8, Writers: []occ4.WriterSpec{{Ops: add(1, 2), Fault: srAfter}}}, []int{0, 0, 0}, false},
		// the same on a store that was emptied (root node with no items): count 2, empty root. A new transaction's
		// Find then indexes the empty root's slot array at -1
		{"count-kept-empty-root", occ4.Scenario{Slot: 8, Init: [][]occ4.Op{add(40), {{Kind: "rm", Key: 40}}}, Writers: []occ4.WriterSpec{{Ops: add(1, 2), Fault: srAfter}}}, []int{0, 0, 0}, false},
		// no fault at all: the count delta is applied in phase 1 (commitStoreInfo), the nodes become active in phase 2;
		// a reader that comes in between (the writer is parked before its registry flip) sees count 1 and the empty root
		{"reader-between-count-and-flip", occ4.Scenario{Slot: 8, Init: [][]occ4.Op{add(40), {{Kind: "rm", Key: 40}}}, Writers: []occ4.WriterSpec{{Ops: add(1)}},
			SubGates: []occ4.SubGate{{Writer: 0, Name: "reg.UpdateNoLocks", Occ: 2}}, ProbeAtSubPark: true}, []int{0, 0, 0, 0}, false},
		{"clean-fail", occ4.Scenario{Slot: 8, Init: [][]occ4.Op{add(10, 20)}, Writers: []occ4.WriterSpec{{Ops: add(1, 2), Fault: srBefore}, {Ops: add(3)}}}, []int{0, 0, 0, 1, 1, 1}, false},
		// a failure after beforeFinalize: rollback applies the exact reverse delta
		{"late-fail", occ4.Scenario{Slot: 8, Init: [][]occ4.Op{add(10, 20)}, Writers: []occ4.WriterSpec{
			{Ops: []occ4.Op{{Kind: "rm", Key: 10}, {Kind: "add", Key: 5, Val: 5}, {Kind: "add", Key: 6, Val: 6}}, Fault: late}, {Ops: add(3)}}}, []int{0, 0, 0, 1, 1, 1}, false},
		{"abort", occ4.Scenario{Slot: 4, Init: [][]occ4.Op{add(10, 20, 30)}, Writers: []occ4.WriterSpec{{Ops: add(1, 2), Abort: true}, {Ops: []occ4.Op{{Kind: "rm", Key: 20}}}}}, []int{0, 1, 1, 1}, false},
		// delta survives refetch-and-merge: conflict round of a writer with adds and removes
		{"delta-merge", occ4.Scenario{Slot: 8, Init: [][]occ4.Op{add(10, 20, 30)}, Writers: []occ4.WriterSpec{
			{Ops: []occ4.Op{{Kind: "rm", Key: 10}, {Kind: "rm", Key: 30}, {Kind: "add", Key: 5, Val: 5}}}, {Ops: add(7, 8)}}}, []int{0, 1, 1, 1, 0, 0, 0, 0, 0}, false},
		// first-root race: count of the winner, items of the loser
		{"root-race", occ4.Scenario{Slot: 8, Writers: []occ4.WriterSpec{{Ops: add(1, 2)}, {Ops: add(7)}}, Gates: []string{"blob.Add"}, Deadline: 1500 * time.Millisecond}, []int{1, 0, 0, 1}, true},
	}
}

var variant = "repaired"

func runCase(ctx context.Context, s *hx.Session, tc tcase) (err error) {
	// a panic anywhere inside one case (harness or real code on this goroutine) is recorded against that case and the
	// run goes on
	defer func() {
		if p := recover(); p != nil {
			s.Fail("C06/panic-in-case", "a case of the harness panicked", fmt.Sprintf("%s: %v", tc.name, p))
			err = nil
		}
	}()
	hdr := fmt.Sprintf("%s variant=%s slot=%d writers=%d", tc.name, variant, tc.sc.Slot, len(tc.sc.Writers))
	o, err := occ4.Drive(ctx, s, tc.sc, tc.sched, hdr, tc.root)
	if err != nil {
		return fmt.Errorf("case %q: %w", hdr, err)
	}
	s.Hit("case:" + tc.name)
	s.Hit(fmt.Sprintf("writers:%d", len(tc.sc.Writers)))
	interesting := tc.root
	for w, r := range o.Results {
		s.Hit("result:" + r)
		if o.Passes[w] >= 2 {
			s.Hit("delta_through_refetch")
			interesting = true
		}
		if r != "ok" {
			interesting = true
		}
		if f := tc.sc.Writers[w].Fault; f != nil {
			s.Hit(fmt.Sprintf("fault:%s:%v", f.Name, f.Kind))
		}
	}
	if interesting {
		s.Nontrivial()
	}
	if o.Unfinished {
		s.Hit("unfinished")
	}
	// ---- direct oracle: a new transaction that reads the store must not crash ----
	for _, rp := range o.ReaderPanics {
		s.Hit("reader_panic")
		s.Fail("C06/panic-in-cold-"+occ4.PanicSlug(rp), "a new transaction reading the store after this history panics inside the B-tree (the process dies)",
			fmt.Sprintf("init=%s writers=%v sched=%v results=%v counts=%v: %s", occ4.InitArg(tc.sc.Init), tc.sc.Writers, tc.sched, o.Results, o.Counts, rp.Error()))
	}
	// ---- direct oracle: after every finished transaction, Count() == number of items a scan returns ----
	prevOff := int64(0)
	for i := range o.Counts {
		// real items only: when Count > 0 and the root node is empty (aftermath of a kept count delta, C06-F1), First()
		// hands out the zero item of the empty root ("0=" with an empty value; generated keys are never 0): it is not
		// an item of the store and must not shift the offset attributed to later transactions
		n := 0
		for _, it := range o.Items[i] {
			if it != "0=" && it != "!panic" && it != "0=!notfound" {
				n++
			}
		}
		off := o.Counts[i] - int64(n)
		newOff := off - prevOff
		prevOff = off
		if newOff == 0 {
			continue // equal, or a mismatch already reported where it appeared
		}
		detail := fmt.Sprintf("init=%s writers=%v sched=%v results=%v: after writer %d the cold reader sees count=%d items=%v", occ4.InitArg(tc.sc.Init), tc.sc.Writers, tc.sched, o.Results, o.After[i], o.Counts[i], o.Items[i])
		sig := "C06/count-differs"
		// which mechanism: look at the transaction that finished right before the mismatch appeared
		w := o.After[i]
		switch {
		case tc.root:
			sig = "C06/first-root-race"
		case w >= 0 && o.Results[w] == "err:injected" && tc.sc.Writers[w].Fault != nil && tc.sc.Writers[w].Fault.Name == "sr.Update" && tc.sc.Writers[w].Fault.Kind == txk.FailAfter:
			sig = "C06/count-delta-kept-after-failed-commit"
		}
		s.Fail(sig, "the count a new transaction reports differs from the number of items it can scan", detail)
	}
	return nil
}

func run(o hx.RunOpts) error {
	s := hx.NewSession(o, "cases: histories on one store of the real fs backend: generated initial items, 2-5 REAL writer transactions released step by step by a generated schedule "+
		"(writers begin at different times, so later ones see earlier commits), some aborted, some with one injected commit failure (StoreRepository.Update before/after its effect, priority log add after beforeFinalize), "+
		"add-only writers with overlapping keys (duplicate-key exit of the merge), plus the first-root race; after every finished transaction a cold reader's Count() and First/Next scan are taken. "+
		"The stored count and the items are compared with the Lean model after every transaction; distinct = canonical op-line hash; non-trivial = a writer failed/aborted or its count delta went through refetch-and-merge")
	ctx := context.Background()
	// C06 is proved for the pinned and for the repaired refetch-and-merge alike: which of the two the tree under test
	// has is established by a directed probe and handed to the model in every case header
	v, err := occ4.DetectVariant(ctx)
	if err != nil {
		return err
	}
	variant = v
	s.Hit("merge_variant:" + v)
	p := hx.NewPrng(o.Seed)
	for _, tc := range directed() {
		if err := runCase(ctx, s, tc); err != nil {
			return err
		}
	}
	n := o.N(150, 1500)
	for i := 0; i < n; i++ {
		sc, sched := occ4.Gen(p.Fork(), o.Thorough(), true)
		if err := runCase(ctx, s, tcase{"history", sc, sched, false}); err != nil {
			return err
		}
	}
	return s.Finish()
}
