package main

import (
	"verifharness/commitx"
	"verifharness/hx"
)

func main() {
	hx.Main(func(o hx.RunOpts) error {
		return commitx.Campaign(o, "C07", "generated transaction programs over 1-2 stores (new stores, first roots, splits at slot length 2/4, updates, removes, reads) run through the real commit code on real fs backends; each program once fault-free and once per (backend call made by Commit, failBefore|failAfter); "+
			"every run is replayed on Model P (same write set, fresh ids, fault) and the backend-call traces, final registry/blob/count/log state and the fault-free retry are diffed; oracle: a cold reader in another process sees exactly the before-state after an error and exactly the operations' reported results after success. distinct = canonical case hash; non-trivial = a fault was injected")
	}, "", nil, nil)
}
