package main

import (
	"verifharness/crashx"
	"verifharness/hx"
)

func main() {
	hx.Main(func(o hx.RunOpts) error {
		return crashx.Campaign(o, "C08", "transaction programs (6 directed: update of a root, split, node removal, first root of an empty store, removal of nodes an earlier commit had updated, store created by the crashed transaction; then generated commitx programs over 1-2 stores) are run by a CHILD PROCESS that dies (os.Exit(137) inside the backend decorator) right before backend call k of Commit, for every k (generated programs, quick tier: every third k); a FRESH child process with the clock three hours ahead (past the 5-minute priority-log age, the 70-minute log age and the one-hour reservation window) runs doPriorityRollbacks + processExpiredTransactionLogs through the overlay entry points, dumps the stores cold, the disk state and the reachability walk, then a follow-up writer upserts the same keys. Compared with the model: calls made before the crash, disk state at the crash, the recovery's durable calls, disk state after recovery, verdict. Oracle: dump in {before, expected after}, no live handle without blob, follow-up values committed and visible, both log files gone. distinct = canonical case hash; non-trivial = the crash point lies inside Commit (k >= 2)")
	}, "", nil, crashx.Subcommands())
}
