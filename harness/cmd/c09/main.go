package main

import (
	"verifharness/crashx"
	"verifharness/hx"
)

func main() {
	hx.Main(func(o hx.RunOpts) error {
		return crashx.Campaign(o, "C09", "the crash experiments of C08 (child process dies right before backend call k of Commit; sampled k), then a FRESH child process with the clock three hours ahead runs 4 public transactions (Begin, open store, Commit) three minutes apart — mode c09: nothing but the public API; mode c09idle: onIdle invoked by hand once the store is attached (what the maintenance would do if it ran). Compared with the model: calls before the crash, disk state at the crash, per transaction which maintenance clocks moved (lastOnIdleRunTime / lastPriorityOnIdleTime) and the durable calls made, disk state afterwards. Oracle (mode c09): no .plg and no .log of the dead transaction remain. distinct = canonical case hash; non-trivial = crash point inside Commit (k >= 2)")
	}, "", nil, crashx.Subcommands())
}
