// Lock-level schedules of C12: several callers of StoreRepository.Add / Remove / Get and of NewBtree (each its own
// StoreRepository value, one shared L2 cache, one stores folder or an active/passive pair) are interleaved at the L2
// cache calls of Add and Remove. A pass-through decorator of the L2 cache parks its caller right before a DualLock
// attempt, right after a successful DualLock, around SetStruct / Delete and before Unlock; it changes no cache
// semantics, it only decides WHEN the caller goes on. The Lean model Sop.StoreRepoLock answers the same `to` /
// `finish` / `observe` ops; the direct oracle judges the implementation's answers and files on their own.
package main

import (
	"context"
	"encoding/json"
	"fmt"
	"os"
	"path/filepath"
	"sort"
	"strings"
	"sync"
	"time"

	"github.com/sharedcode/sop"
	"github.com/sharedcode/sop/encoding"
	"github.com/sharedcode/sop/fs"

	"verifharness/hx"
	"verifharness/storex"
)

// gate is one actor's park control.
type gate struct {
	mu     sync.Mutex
	armed  string // park point the actor stops at next ("" = none)
	inCall string // StoreRepository method the actor is in ("Add", "Remove", "" = anything else: never parked)
	parked chan struct{}
	resume chan struct{}
	// what the decorator saw of the lock
	onLock func(acquired bool)
}

func (g *gate) at(point string) {
	g.mu.Lock()
	stop := g.armed == point && (g.inCall == "Add" || g.inCall == "Remove")
	g.mu.Unlock()
	if stop {
		g.parked <- struct{}{}
		<-g.resume
	}
}
func (g *gate) setCall(c string) { g.mu.Lock(); g.inCall = c; g.mu.Unlock() }
func (g *gate) arm(p string)     { g.mu.Lock(); g.armed = p; g.mu.Unlock() }
func (g *gate) gated() bool {
	g.mu.Lock()
	defer g.mu.Unlock()
	return g.inCall == "Add" || g.inCall == "Remove"
}

// gateL2 is the pass-through L2 cache of one actor's StoreRepository.
type gateL2 struct {
	sop.L2Cache
	g *gate
}

func (c *gateL2) DualLock(ctx context.Context, d time.Duration, lk []*sop.LockKey) (bool, sop.UUID, error) {
	c.g.at("lock-")
	ok, id, err := c.L2Cache.DualLock(ctx, d, lk)
	if ok && err == nil {
		if c.g.gated() && c.g.onLock != nil {
			c.g.onLock(true)
		}
		c.g.at("lock+")
	}
	return ok, id, err
}
func (c *gateL2) SetStruct(ctx context.Context, key string, v interface{}, d time.Duration) error {
	c.g.at("set-")
	// nothing happens between the return of SetStruct and the deferred Unlock: "after SetStruct" is the point "unlock-"
	return c.L2Cache.SetStruct(ctx, key, v, d)
}
func (c *gateL2) Delete(ctx context.Context, keys []string) (bool, error) {
	c.g.at("del-")
	ok, err := c.L2Cache.Delete(ctx, keys)
	c.g.at("del+")
	return ok, err
}
func (c *gateL2) Unlock(ctx context.Context, lk []*sop.LockKey) error {
	c.g.at("unlock-")
	err := c.L2Cache.Unlock(ctx, lk)
	if c.g.gated() && c.g.onLock != nil {
		c.g.onLock(false)
	}
	return err
}

type lactor struct {
	id      int
	kind    string // add | remove | get | new
	name    string
	o       storex.Opts
	g       *gate
	root    sop.UUID // the RootNodeID this actor's store would carry
	started bool
	done    bool
	res     string
	fin     chan string
	calls   []string // catalogue calls of a `new` actor
	order   int      // completion order
}

type lworld struct {
	ctx    context.Context
	s      *hx.Session
	e      *storex.Env
	actors map[int]*lactor
	ids    []int
	holder int // actor whose DualLock succeeded last and has not unlocked (0 = none)
	mu     sync.Mutex
	nDone  int
	names  map[string]bool
}

func newLockWorld(ctx context.Context, s *hx.Session, replicated bool) (*lworld, func()) {
	root, err := os.MkdirTemp(hx.WorkRoot(), "c12l-")
	if err != nil {
		panic(err)
	}
	e := storex.NewEnv(root, replicated, 4)
	layout := "single"
	if replicated {
		layout = "repl"
	}
	s.BeginCase("lock " + layout)
	s.Hit("lock:layout:" + layout)
	return &lworld{ctx: ctx, s: s, e: e, actors: map[int]*lactor{}, names: map[string]bool{}}, func() { os.RemoveAll(root) }
}

func (w *lworld) spawn(id int, kind, name string, o storex.Opts) *lactor {
	a := &lactor{id: id, kind: kind, name: name, o: o, fin: make(chan string, 1)}
	a.g = &gate{parked: make(chan struct{}), resume: make(chan struct{})}
	a.g.onLock = func(acq bool) {
		w.mu.Lock()
		if acq {
			w.holder = id
		} else if w.holder == id {
			w.holder = 0
		}
		w.mu.Unlock()
	}
	w.actors[id] = a
	w.ids = append(w.ids, id)
	w.names[name] = true
	w.s.Op(fmt.Sprintf("spawn %d %s %s %d %s", id, kind, name, normSlot(o.Slot), b01(o.Unique)), "ok")
	w.s.Hit("lock:spawn:" + kind)
	return a
}

func b01(b bool) string {
	if b {
		return "1"
	}
	return "0"
}

func classifyLock(err error) string {
	if err == nil {
		return "ok"
	}
	if strings.Contains(err.Error(), "lock failed") {
		return "err:busy"
	}
	return classify(err)
}

// body is what the actor's goroutine runs.
func (w *lworld) body(a *lactor) string {
	ctx := w.ctx
	switch a.kind {
	case "add", "remove", "get":
		sr, err := w.e.NewStoreRepo(ctx, &gateL2{L2Cache: w.e.L2, g: a.g})
		if err != nil {
			return "err:setup " + err.Error()
		}
		switch a.kind {
		case "add":
			si := sop.NewStoreInfo(w.e.StoreOptions(a.name, a.o))
			si.RootNodeID = sop.NewUUID()
			si.Timestamp = 1
			w.mu.Lock()
			a.root = si.RootNodeID
			w.mu.Unlock()
			a.g.setCall("Add")
			err := sr.Add(ctx, *si)
			a.g.setCall("")
			if err == nil {
				return "created"
			}
			return classifyLock(err)
		case "remove":
			a.g.setCall("Remove")
			err := sr.Remove(ctx, a.name)
			a.g.setCall("")
			return classifyLock(err)
		default:
			r, err := sr.Get(ctx, a.name)
			if err != nil {
				return "err:other"
			}
			if len(r) == 0 {
				return "missing"
			}
			return "found " + w.showInfo(r[0])
		}
	default: // new: a real transaction's NewBtree
		h := &storex.Hooks{}
		h.WrapL2 = func(in sop.L2Cache) sop.L2Cache { return &gateL2{L2Cache: in, g: a.g} }
		h.BeforeSR = func(call string, names []string) { a.g.setCall(call) }
		h.AfterSR = func(call string, names []string, err error) {
			a.g.setCall("")
			c := call + " " + strings.Join(names, ",")
			if err != nil {
				c += " !" + classifyLock(err)
			}
			w.mu.Lock()
			a.calls = append(a.calls, c)
			w.mu.Unlock()
		}
		h.OnAdd = func(ss []sop.StoreInfo) {
			w.mu.Lock()
			a.root = ss[0].RootNodeID
			w.mu.Unlock()
		}
		t, err := w.e.NewTxn(ctx, sop.ForWriting, time.Minute, h)
		if err != nil {
			return "err:setup " + err.Error()
		}
		if err := t.T.Begin(ctx); err != nil {
			return "err:setup " + err.Error()
		}
		_, err = storex.NewBtree(ctx, t, a.name, a.o)
		if err != nil {
			return classifyLock(err)
		}
		created := false
		for _, c := range h.CallLines() {
			if c == "Add "+a.name {
				created = true
			}
		}
		// the transaction stays open (a commit or rollback of it is the business of the transaction-level cases)
		if created {
			return "created"
		}
		return "opened"
	}
}

// to runs actor a until it stands at park point p ("" = to the end) and reports "parked" or "done <result>".
func (w *lworld) to(a *lactor, p string) string {
	op := fmt.Sprintf("to %d %s", a.id, p)
	if p == "" {
		op = fmt.Sprintf("finish %d", a.id)
	}
	if a.done {
		w.s.Op(op, "done "+a.res)
		return "done"
	}
	a.g.arm(p)
	if !a.started {
		a.started = true
		go func() { a.fin <- w.body(a) }()
	} else {
		a.g.resume <- struct{}{}
	}
	select {
	case <-a.g.parked:
		w.s.Op(op, "parked")
		w.s.Hit("lock:parked:" + a.kind + ":" + p)
		return "parked"
	case r := <-a.fin:
		a.done, a.res = true, r
		w.nDone++
		a.order = w.nDone
		w.s.Op(op, "done "+r)
		w.s.Hit("lock:done:" + a.kind + ":" + strings.SplitN(r, " ", 2)[0])
		return "done"
	}
}

func (w *lworld) rootName(id sop.UUID) string {
	w.mu.Lock()
	defer w.mu.Unlock()
	for _, i := range w.ids {
		if w.actors[i].root == id {
			return fmt.Sprint(i)
		}
	}
	return "?"
}

func (w *lworld) showInfo(si sop.StoreInfo) string {
	return fmt.Sprintf("%s:%d:%s", w.rootName(si.RootNodeID), si.SlotLength, b01(si.IsUnique))
}

func (w *lworld) sortedNames() []string {
	var ns []string
	for n := range w.names {
		ns = append(ns, n)
	}
	sort.Strings(ns)
	return ns
}

// readFolder reads the store list and the store info files of one stores folder.
func (w *lworld) readFolder(base string) (list []string, infos map[string]string) {
	infos = map[string]string{}
	if b, err := os.ReadFile(filepath.Join(base, "storelist.txt")); err == nil {
		json.Unmarshal(b, &list)
	}
	sort.Strings(list)
	for _, n := range w.sortedNames() {
		b, err := os.ReadFile(filepath.Join(base, n, fs.StoreInfoFilename))
		if err != nil {
			continue
		}
		var si sop.StoreInfo
		if err := encoding.Unmarshal(b, &si); err != nil {
			infos[n] = "undecodable"
			continue
		}
		infos[n] = w.showInfo(si)
	}
	return
}

func (w *lworld) cacheEntries() map[string]string {
	out := map[string]string{}
	for _, n := range w.sortedNames() {
		var si sop.StoreInfo
		found, err := w.e.L2.GetStruct(w.ctx, fmt.Sprintf("%s:%s", w.e.Folders[0], n), &si)
		if found && err == nil {
			out[n] = w.showInfo(si)
		}
	}
	return out
}

func showMap(ns []string, m map[string]string) string {
	var p []string
	for _, n := range ns {
		if v, ok := m[n]; ok {
			p = append(p, n+"="+v)
		}
	}
	return strings.Join(p, ",")
}

func (w *lworld) observe() {
	list, infos := w.readFolder(w.e.Folders[0])
	ns := w.sortedNames()
	w.mu.Lock()
	lk := "-"
	if w.holder != 0 {
		lk = fmt.Sprint(w.holder)
	}
	w.mu.Unlock()
	w.s.Op("observe", fmt.Sprintf("list=[%s] info=[%s] cache=[%s] lock=%s", strings.Join(list, ","), showMap(ns, infos), showMap(ns, w.cacheEntries()), lk))
	if w.e.Replicated() {
		pl, pi := w.readFolder(w.e.Folders[1])
		if strings.Join(pl, ",") != strings.Join(list, ",") || showMap(ns, pi) != showMap(ns, infos) {
			w.s.Fail("C12/lock/passive-catalogue-differs", "between catalogue calls the passive folder's store list / store info files differ from the active folder's",
				fmt.Sprintf("passive list=%v info=[%s] active list=%v info=[%s]", pl, showMap(ns, pi), list, showMap(ns, infos)))
		}
	}
}

// judge is the direct oracle, evaluated when every actor has returned. The reference is a Go map replayed in the
// order in which the calls RETURNED: a caller told "created" owns the name from then on, a Remove that returned nil
// ends that.
func (w *lworld) judge() {
	var as []*lactor
	for _, i := range w.ids {
		if !w.actors[i].done {
			return
		}
		as = append(as, w.actors[i])
	}
	sort.Slice(as, func(i, j int) bool { return as[i].order < as[j].order })
	owner := map[string]*lactor{}
	removedOK := map[string]bool{}
	for _, a := range as {
		switch {
		case a.res == "created":
			if prev := owner[a.name]; prev != nil {
				w.s.Fail("C12/lock/two-creators-told-created", "two callers creating the same store name were both told they created it (no Remove of the name in between)",
					fmt.Sprintf("store %s: actor %d (%s) and actor %d (%s)", a.name, prev.id, prev.kind, a.id, a.kind))
				continue // the store belongs to the one that was told first
			}
			owner[a.name] = a
		case a.kind == "remove" && a.res == "ok":
			delete(owner, a.name)
			removedOK[a.name] = true
		}
	}
	// a refusal must be justified by a store of that name
	for _, a := range as {
		if (a.res == "err:exists" || a.res == "opened") && !removedOK[a.name] && owner[a.name] == nil {
			w.s.Fail("C12/lock/refused-without-store", "a creator was refused (or opened the store) although no caller was told it created the name", fmt.Sprintf("actor %d %s %s", a.id, a.kind, a.name))
		}
	}
	var want []string
	for n := range owner {
		want = append(want, n)
	}
	sort.Strings(want)
	sigLost := func(n, dflt string) string {
		// mechanism: a NewBtree whose Add failed removed the name afterwards
		for _, a := range as {
			if a.kind != "new" || a.name != n {
				continue
			}
			for i := 0; i+1 < len(a.calls); i++ {
				if strings.HasPrefix(a.calls[i], "Add "+n+" !") {
					for _, c := range a.calls[i+1:] {
						if c == "Remove "+n {
							return "C12/lock/failed-newbtree-cleanup-removes-others-store"
						}
					}
				}
			}
		}
		return dflt
	}
	describe := func(where string, n string, got string, ok bool) {
		o := owner[n]
		if o == nil {
			if ok && removedOK[n] && !strings.HasPrefix(where, "storeinfo.txt") {
				w.s.Fail("C12/lock/removed-store-still-served", "Remove(name) returned nil, yet "+where+" still answers with the removed store (a Get that ran between Remove's cache.Delete and its folder removal put it back into the cache)", n+" "+got)
			} else if ok {
				w.s.Fail("C12/lock/unowned-store-present", "a store nobody was told it created (or that was removed) is still described by "+where, n+" "+got)
			}
			return
		}
		exp := fmt.Sprintf("%d:%d:%s", o.id, normSlot(o.o.Slot), b01(o.o.Unique))
		if !ok {
			w.s.Fail(sigLost(n, "C12/lock/created-store-missing"), "a caller was told it created the store, no Remove of it returned nil since, yet "+where+" has no such store", fmt.Sprintf("%s (created by actor %d)", n, o.id))
		} else if got != exp {
			w.s.Fail("C12/lock/catalogue-describes-another-store", where+" does not describe the store of the caller that was told it created it (root id, slot length, uniqueness)",
				fmt.Sprintf("%s: got %s want %s", n, got, exp))
		}
	}
	for fi, base := range w.e.Folders {
		list, infos := w.readFolder(base)
		if strings.Join(list, ",") != strings.Join(want, ",") {
			sig := "C12/lock/store-list-wrong"
			for _, n := range want {
				found := false
				for _, l := range list {
					found = found || l == n
				}
				if !found {
					sig = sigLost(n, sig)
				}
			}
			w.s.Fail(sig, "the store list differs from the set of stores created and not removed", fmt.Sprintf("folder %d: list %v want %v", fi, list, want))
		}
		for _, n := range w.sortedNames() {
			got, ok := infos[n]
			describe(fmt.Sprintf("storeinfo.txt of folder %d", fi), n, got, ok)
		}
	}
	// the cached Get of this process, then a fresh process (cold cache)
	get := func(e *storex.Env, where string) {
		sr, err := e.NewStoreRepo(w.ctx, e.L2)
		if err != nil {
			w.s.Fail("C12/dump-error", "cannot build a StoreRepository", err.Error())
			return
		}
		for _, n := range w.sortedNames() {
			r, err := sr.Get(w.ctx, n)
			if err != nil {
				w.s.Fail("C12/dump-error", "StoreRepository.Get failed", err.Error())
				continue
			}
			if len(r) == 0 {
				describe(where, n, "", false)
			} else {
				describe(where, n, w.showInfo(r[0]), true)
			}
		}
		if all, err := sr.GetAll(w.ctx); err == nil {
			sort.Strings(all)
			if strings.Join(all, ",") != strings.Join(want, ",") {
				w.s.Hit("lock:getall-differs")
			}
		}
	}
	cached := w.cacheEntries()
	for _, n := range w.sortedNames() {
		if got, ok := cached[n]; ok || owner[n] != nil {
			if ok {
				describe("the L2 cache entry", n, got, true)
			}
		}
	}
	get(w.e, "StoreRepository.Get (warm cache)")
	w.e.AsOtherProcess(func(o *storex.Env) error { get(o, "StoreRepository.Get of a fresh process"); return nil })
}

func (w *lworld) finishAll() {
	// parked actors first in id order, repeatedly: an actor that holds the lock lets the others through when it ends
	for _, i := range w.ids {
		a := w.actors[i]
		if !a.done {
			w.to(a, "")
		}
	}
	w.observe()
	w.judge()
}

var lockPoints = []string{"lock-", "lock+", "set-", "unlock-"}
var removePoints = []string{"lock-", "lock+", "del-", "del+", "unlock-"}

type wop struct {
	kind, name string
	o          storex.Opts
}

var oA = storex.Opts{Slot: 4, Unique: true}
var oB = storex.Opts{Slot: 8, Unique: false}

// what the others do while the first actor is parked
var windows = [][]wop{
	{{"add", "sa", oB}},
	{{"new", "sa", oB}},
	{{"new", "sa", oA}},
	{{"remove", "sa", oA}},
	{{"add", "sb", oB}},
	{{"new", "sb", oB}},
	{{"remove", "so", oA}},
	{{"get", "sa", oA}},
	{{"add", "sb", oB}, {"add", "sa", oB}},
	{{"add", "sa", oB}, {"add", "sb", oA}},
	{{"new", "sa", oB}, {"new", "sb", oA}},
	{{"add", "sa", oB}, {"remove", "sa", oA}},
	{{"add", "sa", oB}, {"get", "sa", oA}},
	{{"add", "sa", oB}, {"remove", "so", oA}},
	{{"remove", "so", oA}, {"add", "sa", oB}},
	{{"add", "sa", oB}, {"remove", "sa", oA}, {"add", "sa", oA}},
	{{"add", "sb", oB}, {"new", "sa", oA}, {"add", "sc", oA}},
}

// one directed schedule: base stores, actor 1 (kind) parked at point, the window runs, actor 1 resumes.
func lockDirected(ctx context.Context, s *hx.Session, repl bool, kind, name, point string, base []string, win []wop) {
	w, clean := newLockWorld(ctx, s, repl)
	defer clean()
	s.Nontrivial()
	id := 10
	for _, b := range base {
		id++
		x := w.spawn(id, "add", b, storex.Opts{Slot: 6, Unique: true})
		w.to(x, "")
	}
	a := w.spawn(1, kind, name, oA)
	w.to(a, point)
	w.observe()
	id = 1
	for _, op := range win {
		id++
		x := w.spawn(id, op.kind, op.name, op.o)
		w.to(x, "")
	}
	w.observe()
	w.to(a, "")
	s.Hit("lock:directed:" + kind + ":" + point)
	w.finishAll()
}

// C12-F3: NewBtree(sa) whose Add gave up on the busy store-list lock looks the name up (nothing yet: the holder has not
// written), and its cleanup Remove(sa) then waits for the lock and deletes the store the holder has just created.
func lockCorpusBusyCleanup(ctx context.Context, s *hx.Session, repl bool) {
	w, clean := newLockWorld(ctx, s, repl)
	defer clean()
	s.Nontrivial()
	s.Hit("lock:corpus:busy-cleanup")
	w.to(w.spawn(11, "add", "so", storex.Opts{Slot: 6, Unique: true}), "")
	a := w.spawn(1, "add", "sa", oA)
	w.to(a, "lock+")
	b := w.spawn(2, "new", "sa", oA)
	for i := 0; i < 7 && !b.done; i++ { // six refused DualLock attempts of Add, then the first attempt of the cleanup Remove
		w.to(b, "lock-")
	}
	w.observe()
	w.to(a, "")
	w.observe()
	w.to(b, "")
	w.finishAll()
}

// C12-F4: a Get between Remove's cache.Delete and its folder removal re-caches the store that is being removed.
func lockCorpusGetDuringRemove(ctx context.Context, s *hx.Session, repl bool) {
	w, clean := newLockWorld(ctx, s, repl)
	defer clean()
	s.Nontrivial()
	s.Hit("lock:corpus:get-during-remove")
	w.to(w.spawn(11, "add", "so", storex.Opts{Slot: 6, Unique: true}), "")
	w.to(w.spawn(12, "add", "sa", oA), "")
	r := w.spawn(1, "remove", "sa", oA)
	w.to(r, "del+")
	w.to(w.spawn(2, "get", "sa", oA), "")
	w.to(r, "")
	w.observe()
	w.to(w.spawn(3, "new", "sa", oA), "")
	w.finishAll()
}

// a random schedule: up to four actors, each moved from park point to park point in random order
func lockRandom(ctx context.Context, s *hx.Session, p *hx.Prng, repl bool) {
	w, clean := newLockWorld(ctx, s, repl)
	defer clean()
	s.Nontrivial()
	if p.Chance(2, 3) {
		x := w.spawn(11, "add", "so", storex.Opts{Slot: 6, Unique: true})
		w.to(x, "")
		if p.Chance(1, 4) {
			y := w.spawn(12, "add", "sa", storex.Opts{Slot: 6, Unique: true})
			w.to(y, "")
		}
	}
	kinds := []string{"add", "add", "add", "new", "new", "remove", "get"}
	nms := []string{"sa", "sa", "sa", "sb", "so"}
	pts := []string{"lock-", "lock+", "set-", "del-", "del+", "unlock-", "", ""}
	n := 2 + p.Intn(3)
	var live []*lactor
	next := 0
	steps := 4 + p.Intn(10)
	for i := 0; i < steps; i++ {
		if next < n && (len(live) == 0 || p.Chance(1, 3)) {
			next++
			o := oA
			if p.Chance(1, 2) {
				o = oB
			}
			live = append(live, w.spawn(next, kinds[p.Intn(len(kinds))], nms[p.Intn(len(nms))], o))
			continue
		}
		if len(live) == 0 {
			break
		}
		k := p.Intn(len(live))
		a := live[k]
		if w.to(a, pts[p.Intn(len(pts))]) == "done" {
			live = append(live[:k], live[k+1:]...)
		}
		if p.Chance(1, 3) {
			w.observe()
		}
	}
	w.finishAll()
}

func runLock(ctx context.Context, s *hx.Session, o hx.RunOpts, p *hx.Prng) {
	bases := [][]string{{"so"}}
	layouts := []bool{false, true}
	if o.Thorough() {
		bases = [][]string{{}, {"so"}, {"so", "sa"}}
	}
	for _, repl := range layouts {
		lockCorpusBusyCleanup(ctx, s, repl)
		lockCorpusGetDuringRemove(ctx, s, repl)
	}
	n := 0
	for _, repl := range layouts {
		for _, base := range bases {
			for _, kn := range [][2]string{{"add", "sa"}, {"new", "sa"}, {"remove", "so"}} {
				pts := lockPoints
				if kn[0] == "remove" {
					pts = removePoints
				}
				for _, pt := range pts {
					for wi, win := range windows {
						n++
						if !o.Thorough() && repl && (wi+n)%3 != 0 {
							continue // a third of the replicated schedules in the quick tier
						}
						lockDirected(ctx, s, repl, kn[0], kn[1], pt, base, win)
					}
				}
			}
		}
	}
	r := o.N(150, 2500)
	for i := 0; i < r; i++ {
		lockRandom(ctx, s, p.Fork(), i%3 == 2)
	}
}
