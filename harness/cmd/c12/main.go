// C12 — creating and removing stores is transactional and complete.
//
// Real transactions (built as infs builds them, single-folder and replicated layouts) run generated programs of
// begin / NewBtree / OpenBtree / Add / Commit / Rollback / RemoveBtree, with same-name create races scheduled by
// parking a transaction right before its StoreRepository.Add. After every program step the answer of the real code
// is recorded; `dump` observes through a freshly started other process (store list, OpenBtree, Count, scan) plus a
// listing of the store folder. The Lean model Sop.StoreRepo answers the same ops.
package main

import (
	"context"
	"encoding/json"
	"fmt"
	"os"
	"path/filepath"
	"sort"
	"strings"
	"time"

	"github.com/sharedcode/sop"
	"github.com/sharedcode/sop/btree"

	"verifharness/hx"
	"verifharness/storex"
)

func main() {
	hx.Main(run, "", nil, map[string]func(args []string) error{"probe": probe, "c12-crash": childCrash, "c12-recover": childRecover})
}

func probe(args []string) error {
	sop.RetryStartDuration = time.Millisecond
	h := thist{t1Write: "upd1", end: "commit"}
	if len(args) > 0 {
		h.rounds = strings.Split(args[0], ",")
	}
	o := runHist(context.Background(), h)
	fmt.Println(h, "->", o.res, o.errText, o.setupErr, "interfOK", o.interfOK)
	for _, l := range o.trace {
		fmt.Println("  ", l)
	}
	return nil
}

type result struct {
	b   btree.BtreeInterface[int, string]
	err error
}

type tx struct {
	id      int
	t       *storex.Txn
	h       *storex.Hooks
	trees   map[string]btree.BtreeInterface[int, string]
	created map[string]bool
	addsSeen map[string]int
	seen    map[string]int // generation of each attached store at attach time
	adds    map[string][]string
	gateOn  bool
	parked  chan struct{}
	release chan struct{}
	done    chan result
	pending string
	pendO   storex.Opts
	live    bool
	fail    bool
}

type world struct {
	ctx     context.Context
	s       *hx.Session
	e       *storex.Env
	txs     []*tx
	nextT   int
	nextKey int
	curVanished bool
	creator map[string]*tx // who created the current incarnation of a store
	creatorCommitted map[string]bool
	hadVanishedCommit bool
	removed map[string]bool // names explicitly removed by RemoveBtree at some point
	gen     map[string]int  // how many times a store of that name was created
	alive   map[string]bool // a store of that name exists now
}

func classify(err error) string {
	if err == nil {
		return "ok"
	}
	m := err.Error()
	switch {
	case strings.Contains(m, "an existing item with such name exists"):
		return "err:exists"
	case strings.Contains(m, "has different configuration"):
		return "err:incompatible"
	case strings.Contains(m, "does not exist"):
		return "err:missing"
	}
	return "err:other"
}

func normSlot(n int) int {
	if n <= 0 {
		n = 2000
	}
	if n%2 != 0 {
		n--
	}
	if n < 2 {
		n = 2
	}
	if n > 20000 {
		n = 20000
	}
	return n
}

func (w *world) begin() *tx {
	w.nextT++
	x := &tx{id: w.nextT, h: &storex.Hooks{}, trees: map[string]btree.BtreeInterface[int, string]{}, created: map[string]bool{}, addsSeen: map[string]int{}, seen: map[string]int{},
		adds: map[string][]string{}, parked: make(chan struct{}), release: make(chan struct{}), done: make(chan result, 1)}
	x.h.BeforeSR = func(call string, names []string) {
		if call == "Add" && x.gateOn {
			x.parked <- struct{}{}
			<-x.release
		}
	}
	t, err := w.e.NewTxn(w.ctx, sop.ForWriting, time.Minute, x.h)
	if err != nil {
		panic(err)
	}
	if err := t.T.Begin(w.ctx); err != nil {
		panic(err)
	}
	x.t, x.live = t, true
	w.txs = append(w.txs, x)
	w.s.Op(fmt.Sprintf("begin %d", x.id), "ok")
	return x
}

// listing of the active store folder: names with a store info file, and the store list
func (w *world) listing(base string) (folders []string, list []string) {
	f, l := storex.StoreFolders(base)
	if l != "<absent>" {
		json.Unmarshal([]byte(l), &list)
	}
	sort.Strings(list)
	return f, list
}

func (w *world) afterAbort(x *tx, how string) {
	x.live = false
	for n := range x.created {
		w.alive[n] = false
	}
	folders, list := w.listing(w.e.Folders[0])
	for n := range x.created {
		for _, f := range append(append([]string{}, folders...), list...) {
			if f == n {
				w.s.Fail("C12/created-store-survives-abort", "a store created in a transaction that then aborted ("+how+") is still in the store list or folder", n)
			}
		}
	}
}

func (w *world) finishNew(x *tx, name string, o storex.Opts, r result, opLine string) {
	out := classify(r.err)
	if r.err == nil {
		// a creation shows as one more successful StoreRepository.Add(name) by this transaction
		adds := 0
		for _, c := range x.h.CallLines() {
			if c == "Add "+name {
				adds++
			}
		}
		if adds > x.addsSeen[name] {
			x.addsSeen[name] = adds
			x.created[name] = true
			x.trees[name] = r.b
			w.gen[name]++
			w.alive[name] = true
			w.creator[name] = x
			w.creatorCommitted[name] = false
			x.seen[name] = w.gen[name]
			out = "created"
		} else {
			if x.trees[name] == nil {
				x.trees[name] = r.b
				x.seen[name] = w.gen[name]
			}
			out = "opened"
		}
	}
	w.s.Op(opLine, out)
	w.s.Hit("new:" + out)
	if r.err != nil {
		w.afterAbort(x, "failed NewBtree")
	}
	if out == "created" {
		// remove_complete / fresh store: a just-created store is empty and carries the requested options
		ds, err := w.e.ColdDump(w.ctx)
		if err != nil {
			w.s.Fail("C12/dump-error", "cold dump failed", err.Error())
			return
		}
		ok := false
		for _, d := range ds {
			if d.Name == name {
				ok = d.Err == "" && d.Count == 0 && len(d.Items) == 0 && d.Slot == normSlot(o.Slot) && d.Unique == o.Unique
				if !ok {
					w.s.Fail("C12/recreated-store-not-fresh", "a newly created store is not empty or does not carry the requested options", d.String()+" want "+o.String())
				}
				ok = true
			}
		}
		if !ok {
			w.s.Fail("C12/created-store-not-listed", "NewBtree reported a creation but the store is not listed", name)
		}
		if w.removed[name] {
			w.s.Hit("recreate_after_remove")
			w.s.Nontrivial()
		}
	}
}

func (w *world) newAtomic(x *tx, name string, o storex.Opts) {
	x.gateOn = false
	b, err := storex.NewBtree(w.ctx, x.t, name, o)
	w.finishNew(x, name, o, result{b, err}, fmt.Sprintf("new %d %s %s", x.id, name, o))
}

func (w *world) lookup(x *tx, name string, o storex.Opts) {
	x.gateOn = true
	go func() {
		b, err := storex.NewBtree(w.ctx, x.t, name, o)
		x.done <- result{b, err}
	}()
	op := fmt.Sprintf("lookup %d %s %s", x.id, name, o)
	select {
	case <-x.parked:
		x.pending, x.pendO = name, o
		w.s.Op(op, "parked")
		w.s.Hit("lookup:parked")
	case r := <-x.done:
		x.gateOn = false
		w.finishNew(x, name, o, r, op)
	}
}

func (w *world) resume(x *tx) {
	name, o := x.pending, x.pendO
	x.pending = ""
	x.gateOn = false
	x.release <- struct{}{}
	r := <-x.done
	w.finishNew(x, name, o, r, fmt.Sprintf("resume %d", x.id))
}

func (w *world) open(x *tx, name string) {
	op := fmt.Sprintf("open %d %s", x.id, name)
	if x.trees[name] != nil {
		w.s.Op(op, "opened")
		return
	}
	b, err := storex.OpenBtree(w.ctx, x.t, name)
	if err != nil {
		w.s.Op(op, classify(err))
		w.s.Hit("open:" + classify(err))
		w.afterAbort(x, "failed OpenBtree")
		return
	}
	x.trees[name] = b
	x.seen[name] = w.gen[name]
	w.s.Op(op, "opened")
	w.s.Hit("open:ok")
}

// canAdd: the generator writes only into the incarnation of a store the transaction is attached to, and only when
// that incarnation was created by the transaction itself or by one that has committed (writing into another
// transaction's uncommitted store is first-root-race territory, C04/C06; the directed corpus has one such case).
func (w *world) canAdd(x *tx, name string) bool {
	return w.alive[name] && w.gen[name] == x.seen[name] && (w.creator[name] == x || w.creatorCommitted[name])
}

func (w *world) add(x *tx, name string) {
	if !x.live || x.trees[name] == nil {
		return // the directed corpus goes on after an unexpected failure; the answers already differ from the model
	}
	w.nextKey++
	k := w.nextKey
	v := fmt.Sprintf("v%d", k)
	ok, err := x.trees[name].Add(w.ctx, k, v)
	out := "ok"
	if err != nil || !ok {
		out = "err"
	}
	x.adds[name] = append(x.adds[name], fmt.Sprintf("%d=%s", k, v))
	w.s.Op(fmt.Sprintf("add %d %s %d %s", x.id, name, k, v), out)
}

func (w *world) commit(x *tx) {
	if !x.live {
		return
	}
	if !w.mayCommit(x) {
		w.rollback(x)
		return
	}
	vanished := w.stale(x) == "vanished"
	err := x.t.T.Commit(w.ctx)
	out := "ok"
	if err != nil {
		out = "err:commit"
	}
	w.s.Op(fmt.Sprintf("commit %d", x.id), out)
	w.s.Hit("commit:" + out)
	if err != nil {
		w.afterAbort(x, "failed Commit")
		return
	}
	x.live = false
	for n := range x.created {
		if w.creator[n] == x {
			w.creatorCommitted[n] = true
		}
	}
	if vanished {
		w.hadVanishedCommit = true
	}
	w.curVanished = vanished
	defer func() { w.curVanished = false }()
	// create_race / intact: a store this transaction created and committed into must be there with its items,
	// unless it was explicitly removed (RemoveBtree) in between.
	var ds []storex.StoreDump
	for n := range x.created {
		if w.removedSince(x, n) {
			continue
		}
		if ds == nil {
			ds, err = w.e.ColdDump(w.ctx)
			if err != nil {
				w.s.Fail("C12/dump-error", "cold dump failed", err.Error())
				return
			}
		}
		found := false
		for _, d := range ds {
			if d.Name != n {
				continue
			}
			found = true
			have := map[string]bool{}
			for _, it := range d.Items {
				have[it] = true
			}
			for _, it := range x.adds[n] {
				if !have[it] {
					w.s.Fail(w.lostSig(n, "C12/committed-items-missing"), "Commit returned nil but an item added to a store created in the transaction is not there", n+" "+it)
					break
				}
			}
		}
		if !found {
			w.s.Fail(w.lostSig(n, "C12/committed-created-store-missing"), "Commit returned nil but the store created in the transaction does not exist", n)
		}
	}
}

// lostSig names the mechanism: some other transaction's NewBtree had its Add(name) refused and then called Remove(name).
func (w *world) lostSig(name, dflt string) string {
	if w.curVanished {
		return "C12/commit-with-vanished-store-drops-counts"
	}
	for _, y := range w.txs {
		cs := y.h.CallLines()
		for i := 0; i+1 < len(cs); i++ {
			if cs[i] == "Add "+name+" !err" && cs[i+1] == "Remove "+name {
				return "C12/loser-cleanup-removes-winner-store"
			}
		}
	}
	return dflt
}

// stale classifies a transaction with adds on a store that vanished ("vanished") or was re-created ("recreated")
// under it; "" when every store it wrote into is still the one it attached to.
func (w *world) stale(x *tx) string {
	out := ""
	for n, a := range x.adds {
		if len(a) == 0 {
			continue
		}
		if w.gen[n] != x.seen[n] {
			return "recreated"
		}
		if !w.alive[n] {
			out = "vanished"
		}
	}
	return out
}

// mayCommit: commits into stores removed or re-created under the transaction are outside C12 (what happens to the
// data is C01/C06 matter); only the single-layout "vanished" flavour, whose outcome the model carries, is run.
func (w *world) mayCommit(x *tx) bool {
	st := w.stale(x)
	if st == "recreated" || (st == "vanished" && w.e.Replicated()) {
		w.s.Hit("stale_txn_rolled_back:" + st)
		return false
	}
	if st == "vanished" {
		w.s.Hit("commit_with_vanished_store")
	}
	return true
}

func (w *world) removedSince(x *tx, name string) bool { return x.fail || w.removed[name+fmt.Sprint("@", x.id)] }

func (w *world) rollback(x *tx) {
	if !x.live {
		return
	}
	err := x.t.T.Rollback(w.ctx)
	out := "ok"
	if err != nil {
		out = "err"
	}
	w.s.Op(fmt.Sprintf("rollback %d", x.id), out)
	w.s.Hit("rollback")
	w.afterAbort(x, "Rollback")
}

func (w *world) remove(name string) {
	err := w.e.RemoveBtree(w.ctx, name)
	out := "ok"
	if err != nil {
		out = "err"
	}
	w.removed[name] = true
	w.alive[name] = false
	for _, y := range w.txs {
		w.removed[name+fmt.Sprint("@", y.id)] = true
	}
	w.s.Op("remove "+name, out)
	w.s.Hit("remove")
}

func (w *world) dump() {
	ds, err := w.e.ColdDump(w.ctx)
	body := storex.DumpString(ds)
	if err != nil {
		body = "ERR"
	}
	folders, list := w.listing(w.e.Folders[0])
	w.s.Op("dump", fmt.Sprintf("%s | folders=[%s] list=[%s]", body, strings.Join(folders, ","), strings.Join(list, ",")))
	if strings.Join(folders, ",") != strings.Join(list, ",") {
		w.s.Fail("C12/list-folder-mismatch", "the store list and the folders carrying a store info file differ", fmt.Sprint(folders, list))
	}
	for _, d := range ds {
		if d.Err != "" {
			w.s.Fail("C12/listed-store-unreadable", "a listed store cannot be opened or scanned", d.String())
		} else if int(d.Count) != len(d.Items) {
			sig := "C12/count-items-mismatch"
			if w.hadVanishedCommit {
				sig = "C12/commit-with-vanished-store-drops-counts"
			}
			w.s.Fail(sig, "a store's Count differs from the number of items a scan returns", d.String())
		}
	}
	if w.e.Replicated() {
		pf, pl := w.listing(w.e.Folders[1])
		if strings.Join(pf, ",") != strings.Join(folders, ",") || strings.Join(pl, ",") != strings.Join(list, ",") {
			w.s.Fail("C12/passive-catalogue-differs", "the passive folder's store list / store folders differ from the active folder's", fmt.Sprint(pf, pl, " vs ", folders, list))
		}
	}
}

// busy reports whether a live transaction has the name open or pending
func (w *world) busy(name string) bool {
	for _, x := range w.txs {
		if x.live && (x.trees[name] != nil || x.pending == name) {
			return true
		}
	}
	return false
}

func (w *world) liveTxs() []*tx {
	var out []*tx
	for _, x := range w.txs {
		if x.live {
			out = append(out, x)
		}
	}
	return out
}

func (w *world) finish() {
	// end every open transaction so no goroutine stays parked
	for _, x := range w.txs {
		if x.live && x.pending != "" {
			w.resume(x)
		}
	}
	for _, x := range w.txs {
		if x.live {
			w.rollback(x)
		}
	}
	w.dump()
}

var names = []string{"sa", "sb", "sc"}
var optMenu = []storex.Opts{{Slot: 4, Unique: true}, {Slot: 8, Unique: true}, {Slot: 4, Unique: false}, {Slot: 5, Unique: true}}

func newWorld(ctx context.Context, s *hx.Session, replicated bool) (*world, func()) {
	root, err := os.MkdirTemp(hx.WorkRoot(), "c12-")
	if err != nil {
		panic(err)
	}
	e := storex.NewEnv(root, replicated, 4)
	layout := "single"
	if replicated {
		layout = "repl"
	}
	s.BeginCase(layout)
	s.Hit("layout:" + layout)
	return &world{ctx: ctx, s: s, e: e, removed: map[string]bool{}, gen: map[string]int{}, alive: map[string]bool{}, creator: map[string]*tx{}, creatorCommitted: map[string]bool{}}, func() { os.RemoveAll(root) }
}

// the run-confirmed witness: the loser of a same-name create race
func corpusRace(ctx context.Context, s *hx.Session, replicated bool, loserFirst bool) {
	w, clean := newWorld(ctx, s, replicated)
	defer clean()
	s.Nontrivial()
	s.Hit("corpus:race")
	a := w.begin()
	b := w.begin()
	o := storex.Opts{Slot: 4, Unique: true}
	w.lookup(a, "sa", o)
	w.lookup(b, "sa", o)
	win, lose := a, b
	if loserFirst {
		win, lose = b, a
	}
	w.resume(win)
	if win.live {
		w.add(win, "sa")
		w.add(win, "sa")
	}
	w.resume(lose)
	w.dump()
	if win.live {
		w.commit(win)
	}
	w.dump()
	w.finish()
}

func corpusRemoveRecreate(ctx context.Context, s *hx.Session, replicated bool) {
	w, clean := newWorld(ctx, s, replicated)
	defer clean()
	s.Nontrivial()
	s.Hit("corpus:remove-recreate")
	a := w.begin()
	w.newAtomic(a, "sa", storex.Opts{Slot: 4, Unique: true})
	w.add(a, "sa")
	w.add(a, "sa")
	w.add(a, "sa")
	w.commit(a)
	w.dump()
	w.remove("sa")
	w.dump()
	b := w.begin()
	w.newAtomic(b, "sa", storex.Opts{Slot: 8, Unique: false})
	w.add(b, "sa")
	w.commit(b)
	w.finish()
}

func corpusRollbacks(ctx context.Context, s *hx.Session, replicated bool) {
	w, clean := newWorld(ctx, s, replicated)
	defer clean()
	s.Nontrivial()
	s.Hit("corpus:rollbacks")
	a := w.begin()
	w.newAtomic(a, "sa", optMenu[0])
	w.add(a, "sa")
	w.rollback(a)
	w.dump()
	b := w.begin()
	w.newAtomic(b, "sb", optMenu[0])
	w.commit(b)
	c := w.begin()
	w.newAtomic(c, "sa", optMenu[0])
	w.add(c, "sa")
	w.newAtomic(c, "sb", optMenu[1]) // incompatible: rolls c back, sa must go
	w.dump()
	d := w.begin()
	w.newAtomic(d, "sc", optMenu[2])
	w.add(d, "sc")
	d.h.FailBlobAdds(true)
	d.fail = true
	w.s.Op(fmt.Sprintf("failnext %d", d.id), "ok")
	w.commit(d)
	w.dump()
	f := w.begin()
	w.newAtomic(f, "sa", optMenu[0])
	w.open(f, "zz") // missing: rolls f back
	w.finish()
}

// a transaction writes into another transaction's uncommitted store, which then vanishes (single layout)
func corpusVanished(ctx context.Context, s *hx.Session) {
	w, clean := newWorld(ctx, s, false)
	defer clean()
	s.Nontrivial()
	s.Hit("corpus:vanished-store")
	a := w.begin()
	w.newAtomic(a, "sc", optMenu[0])
	b := w.begin()
	w.newAtomic(b, "sc", optMenu[0]) // opens a's uncommitted store
	w.rollback(a)                     // sc vanishes under b
	w.newAtomic(b, "sa", optMenu[0])
	w.add(b, "sa")
	w.add(b, "sc")
	w.commit(b)
	w.dump()
	w.finish()
}

func genCase(ctx context.Context, s *hx.Session, p *hx.Prng, replicated bool) {
	w, clean := newWorld(ctx, s, replicated)
	defer clean()
	steps := 10 + p.Intn(16)
	raced := false
	for i := 0; i < steps; i++ {
		lv := w.liveTxs()
		r := p.Intn(100)
		switch {
		case len(lv) == 0 || (len(lv) < 3 && r < 12):
			w.begin()
		case r < 40:
			x := lv[p.Intn(len(lv))]
			if x.pending != "" {
				w.resume(x)
				raced = true
				break
			}
			n := names[p.Intn(len(names))]
			o := optMenu[p.Intn(len(optMenu))]
			if p.Chance(3, 4) {
				o = optMenu[0]
			}
			if len(lv) >= 2 && p.Chance(1, 2) {
				w.lookup(x, n, o)
			} else {
				w.newAtomic(x, n, o)
			}
		case r < 45:
			x := lv[p.Intn(len(lv))]
			if x.pending == "" {
				w.open(x, names[p.Intn(len(names))])
			}
		case r < 70:
			x := lv[p.Intn(len(lv))]
			if x.pending == "" && len(x.trees) > 0 {
				var ns []string
				for n := range x.trees {
					ns = append(ns, n)
				}
				sort.Strings(ns)
				if n := ns[p.Intn(len(ns))]; w.canAdd(x, n) {
					w.add(x, n)
				} else {
					w.s.Hit("add_skipped_foreign_or_stale")
				}
			}
		case r < 80:
			x := lv[p.Intn(len(lv))]
			if x.pending == "" {
				if p.Chance(1, 5) && !x.fail {
					x.h.FailBlobAdds(true)
					x.fail = true
					w.s.Op(fmt.Sprintf("failnext %d", x.id), "ok")
					w.s.Hit("failnext")
				}
				w.commit(x)
			}
		case r < 86:
			x := lv[p.Intn(len(lv))]
			if x.pending == "" {
				w.rollback(x)
			}
		case r < 92:
			n := names[p.Intn(len(names))]
			if !w.busy(n) {
				w.remove(n)
			}
		default:
			w.dump()
		}
	}
	if raced {
		s.Hit("case_with_race")
	}
	created := false
	for _, x := range w.txs {
		if len(x.created) > 0 {
			created = true
		}
	}
	if created {
		s.Nontrivial()
	}
	w.finish()
}

func run(o hx.RunOpts) error {
	sop.RetryStartDuration = time.Millisecond
	s := hx.NewSession(o, "cases: real transactions over real fs backends (single-folder layout; replicated active/passive + EC 2+1 layout) run programs of "+
		"begin / NewBtree (atomic, or split into lookup and Add by parking the transaction before StoreRepository.Add) / OpenBtree / Add / Commit "+
		"(optionally with failing blob writes) / Rollback / RemoveBtree over three store names and four option sets; every answer and a cold dump "+
		"(fresh process: GetStores, OpenBtree, Count, scan; store folder listing) are compared with the model. distinct = canonical op-line hash; "+
		"non-trivial = at least one store was created in the case. Lock-level cases (header `lock`): two to five callers of StoreRepository.Add / Remove / Get "+
		"and of NewBtree, each with its own StoreRepository over the shared L2 cache, parked at the L2 cache calls of Add / Remove (before a DualLock attempt, after a "+
		"successful one, around SetStruct / Delete, before Unlock) while the others run; directed: one creator parked at each point x 17 windows of whole calls "+
		"(same name, other name, remove, third-party add) x two layouts; random: park-point walks; compared with Sop.StoreRepoLock and judged by the direct oracle "+
		"(one creator told `created`, store info files / cache entry / warm and cold Get describe it, store list = created and not removed)")
	ctx := context.Background()
	p := hx.NewPrng(o.Seed)
	layouts := []bool{false}
	if o.Thorough() {
		layouts = []bool{false, true}
	}
	for _, repl := range layouts {
		corpusRace(ctx, s, repl, false)
		corpusRace(ctx, s, repl, true)
		corpusRemoveRecreate(ctx, s, repl)
		corpusRollbacks(ctx, s, repl)
	}
	corpusVanished(ctx, s)
	if !o.Thorough() {
		// a taste of the replicated layout in the quick tier
		corpusRace(ctx, s, true, false)
		corpusRemoveRecreate(ctx, s, true)
	}
	runLock(ctx, s, o, p.Fork())
	runTxHist(ctx, s, o, p.Fork())
	runNewFaults(ctx, s, o)
	n := o.N(1200, 10000)
	for i := 0; i < n; i++ {
		repl := false
		if o.Thorough() {
			repl = i%3 == 2
		} else {
			repl = i%10 == 9
		}
		genCase(ctx, s, p.Fork(), repl)
	}
	_ = filepath.Join
	return s.Finish()
}
