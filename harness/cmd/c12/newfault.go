// Faults and crashes INSIDE NewBtree (C12): the backend calls NewBtree of an absent name makes (the createStore record
// to the transaction log, then StoreRepository.Add) each fail once, before or after being performed (txk script
// decorators), and the process is killed before / after each of them, after NewBtree returned, and after items were
// added (child process, os.Exit(137) from inside the decorator). A failed NewBtree has rolled the transaction back; a
// killed process is followed by the expired-log recovery of another, later process (clock +3 h, invoked by hand through
// the overlay accessor as the C08/C09 harnesses do: onIdle is not reachable from the public path, C09's finding). Then
// a cold process is asked for the store list / OpenBtree, the folder is inspected. Model: Sop.StoreRepoCommit
// (`newlog` / `newadd` with a fault, `crash`, `recover`).
package main

import (
	"context"
	"encoding/json"
	"fmt"
	"os"
	"path/filepath"
	"strconv"
	"strings"
	"time"

	"github.com/sharedcode/sop"
	"github.com/sharedcode/sop/btree"
	"github.com/sharedcode/sop/common"

	"verifharness/crashx"
	"verifharness/hx"
	"verifharness/txk"
)

type nscen struct {
	prelude string // none | open (OpenBtree se + add an item) | newsp (another store created first)
	end     string // commit | rollback
}

type nrun struct {
	e     *txk.Env
	dir   string
	sc    *txk.Script
	t1    *txk.Txn
	start int
	bsp   btree.BtreeInterface[int, string]
}

// nsetup: T0 commits `se`; T1 begins and runs the prelude.
func nsetup(ctx context.Context, dir string, prelude string) (*nrun, error) {
	e := txk.NewEnv(dir, 4)
	t0, err := e.NewTxn(ctx, sop.ForWriting, time.Minute, nil)
	if err != nil {
		return nil, err
	}
	t0.T.Begin(ctx)
	b0, err := txk.NewBtree[int, string](ctx, t0, e.StoreOpts("se", 8, true))
	if err != nil {
		return nil, err
	}
	b0.Add(ctx, 1, "v1")
	b0.Add(ctx, 2, "v2")
	if err := t0.T.Commit(ctx); err != nil {
		return nil, err
	}
	sc := txk.NewScript(e.Canon)
	t1, err := e.NewTxn(ctx, sop.ForWriting, time.Minute, sc)
	if err != nil {
		return nil, err
	}
	t1.T.Begin(ctx)
	r := &nrun{e: e, dir: dir, sc: sc, t1: t1}
	switch prelude {
	case "open":
		b, err := txk.OpenBtree[int, string](ctx, t1, "se")
		if err != nil {
			return nil, err
		}
		b.Add(ctx, 9, "t1")
	case "newsp":
		b, err := txk.NewBtree[int, string](ctx, t1, e.StoreOpts("sp", 4, true))
		if err != nil {
			return nil, err
		}
		b.Add(ctx, 5, "x")
		r.bsp = b
	}
	r.start = sc.N()
	return r, nil
}

type nout struct {
	Err      string
	NewErr   string   // error of NewBtree ("" = it returned a B-tree)
	EndRes   string   // ok | err | rolledback
	NewCalls []string // "name args [!err] [fault]" of the calls made from the start of NewBtree on
	Names    []string
	Obs      tobs
	SpListed bool
	RecErrs  []string
	RecCalls []string
}

// tobs is the exported copy of tout's observation.
type tobs struct {
	Listed, Folder, InfoFile, Cached, OpenOK bool
	Count                                    int64
	Items                                    int
	Dump                                     string
}

func obsOf(o *tout) tobs {
	return tobs{o.listed, o.folder, o.infoFile, o.cached, o.openOK, o.count, o.items, o.dump}
}

// runNewFault: fault `kind` at the k-th backend call NewBtree(sn) makes (k = 0: none), in-process.
func runNewFault(ctx context.Context, sc nscen, k int, kind txk.Fault) *nout {
	out := &nout{}
	dir, err := os.MkdirTemp(hx.WorkRoot(), "c12n-")
	if err != nil {
		out.Err = err.Error()
		return out
	}
	defer os.RemoveAll(dir)
	r, err := nsetup(ctx, dir, sc.prelude)
	if err != nil {
		out.Err = err.Error()
		return out
	}
	if k > 0 {
		r.sc.Faults[r.start+k] = kind
	}
	bsn, nerr := txk.NewBtree[int, string](ctx, r.t1, r.e.StoreOpts("sn", 4, true))
	newEnd := r.sc.N()
	if nerr != nil {
		out.NewErr = nerr.Error()
	} else {
		bsn.Add(ctx, 10, "a")
		bsn.Add(ctx, 11, "b")
		if sc.end == "commit" {
			if err := r.t1.T.Commit(ctx); err != nil {
				out.EndRes = "err"
				out.Err = err.Error()
			} else {
				out.EndRes = "ok"
			}
		} else {
			r.t1.T.Rollback(ctx)
			out.EndRes = "rolledback"
		}
	}
	for _, c := range r.sc.Calls {
		if c.Idx > r.start && c.Idx <= newEnd {
			l := c.Name + " " + c.Args
			if c.Err {
				l += " !err"
			}
			if c.Fault != txk.None {
				l += " " + c.Fault.String()
			}
			out.NewCalls = append(out.NewCalls, l)
			out.Names = append(out.Names, c.Name)
		}
	}
	t := &tout{}
	observeSn(ctx, r.e, dir, t)
	out.Obs = obsOf(t)
	return out
}

func faultWord(l string) string {
	switch {
	case strings.HasSuffix(l, " failBefore"):
		return "before"
	case strings.HasSuffix(l, " failAfter"):
		return "after"
	}
	return "none"
}

// emitNewOps writes the model ops of the NewBtree(sn) part from the calls that were made; returns false when NewBtree failed.
func emitNewOps(s *hx.Session, calls []string, crashed bool) (failed bool, unknown string) {
	for _, l := range calls {
		f := faultWord(l)
		switch {
		case strings.HasPrefix(l, "tlog.Add 1"):
			out := "ok"
			if f != "none" {
				out = "err"
			}
			s.Op("newlog sn 4 1 "+f, out)
			if f != "none" {
				return true, ""
			}
		case strings.HasPrefix(l, "sr.Add [sn]"):
			out := "created"
			if f != "none" {
				out = "err"
			}
			s.Op("newadd sn 4 1 "+f, out)
			if f != "none" {
				return true, ""
			}
		default:
			if f != "none" {
				return false, l
			}
		}
	}
	return false, ""
}

func preludeOps(s *hx.Session, prelude string) {
	s.Op("othernew se 8 1", "ok")
	s.Op("otheradd se 1 v1", "ok")
	s.Op("otheradd se 2 v2", "ok")
	s.Op("begin", "ok")
	switch prelude {
	case "open":
		s.Op("open se", "opened")
		s.Op("add se 9 t1", "ok")
	case "newsp":
		s.Op("new sp 4 1", "created")
		s.Op("add sp 5 x", "ok")
	}
}

func judgeSn(s *hx.Session, committed bool, how string, o tobs, crash bool, detail string) {
	where := fmt.Sprintf("listed=%v folder=%v storeinfo=%v cached=%v open=%v; %s", o.Listed, o.Folder, o.InfoFile, o.Cached, o.OpenOK, detail)
	if committed {
		if !o.Listed || !o.InfoFile || !o.OpenOK {
			s.Fail("C12/tx/committed-created-store-missing", "Commit returned nil but the store the transaction created is not there for a cold process", where)
		} else if o.Count != 2 || o.Items != 2 {
			s.Fail("C12/tx/committed-created-store-wrong-count", "Commit returned nil but the created store does not hold the items added", fmt.Sprintf("count %d items %d; %s", o.Count, o.Items, where))
		}
		return
	}
	if o.Listed || o.Folder || o.InfoFile || (o.Cached && !crash) || o.OpenOK {
		sig := "C12/new/created-store-survives-" + how
		if !o.Listed && !o.InfoFile && !o.OpenOK && !(o.Cached && !crash) {
			sig += "/empty-folder"
		}
		s.Fail(sig, "the transaction did not commit ("+how+"), yet the store its NewBtree created is still there (store list / folder / store info file / L2 cache entry / OpenBtree of a cold process)", where)
	}
}

func emitNewFault(s *hx.Session, sc nscen, k int, kind txk.Fault, o *nout) {
	s.BeginCase(fmt.Sprintf("tx newfault %s call=%d:%v %s", sc.prelude, k, kind, sc.end))
	if o.Err != "" && o.EndRes == "" && o.NewErr == "" {
		s.Fail("C12/dump-error", "NewBtree fault history setup failed", o.Err)
		return
	}
	s.Nontrivial()
	preludeOps(s, sc.prelude)
	failed, unknown := emitNewOps(s, o.NewCalls, false)
	if k > 0 && len(o.Names) >= k {
		s.Hit("new:fault:" + o.Names[k-1] + ":" + kind.String())
	}
	if unknown != "" {
		s.Hit("new:fault-on-other-call")
	}
	committed := false
	how := "failed-newbtree"
	switch {
	case failed || o.NewErr != "":
		if !failed {
			// NewBtree failed for a reason the catalogue model has no op for
			s.Fail("C12/new/unmodelled-newbtree-failure", "NewBtree failed on a fault at a call the model does not know", unknown+" "+o.NewErr)
		}
	default:
		s.Op("add sn 10 a", "ok")
		s.Op("add sn 11 b", "ok")
		switch o.EndRes {
		case "ok":
			committed = true
			how = "commit"
			s.Op("finish 1 1", "ok")
		case "err":
			how = "failed-commit"
			s.Op("finish 0 1", "err")
		default:
			how = "rollback"
			s.Op("rollback", "ok")
		}
	}
	s.Op("dump", o.Obs.Dump)
	s.Hit("new:res:" + how + fmt.Sprint(":committed=", committed))
	judgeSn(s, committed, how, o.Obs, false, fmt.Sprintf("calls of NewBtree %v; NewBtree error %q", o.NewCalls, o.NewErr))
}

// ---- crash: child processes ----

func installClock3h() {
	sop.Now = func() time.Time { return time.Now().Add(crashx.ClockShift) }
}

// c12-crash <dir> <prelude> <stage> <k> <when>: dies at the requested point (exit 137); exit 0 = point not reached.
func childCrash(args []string) error {
	if len(args) < 5 {
		return fmt.Errorf("c12-crash <dir> <prelude> <stage> <k> <before|after>")
	}
	sop.RetryStartDuration = time.Millisecond
	ctx := context.Background()
	dir, prelude, stage := args[0], args[1], args[2]
	k, _ := strconv.Atoi(args[3])
	r, err := nsetup(ctx, filepath.Join(dir, "data"), prelude)
	if err != nil {
		return err
	}
	if stage == "new" {
		if args[4] == "before" {
			r.sc.CrashAt = r.start + k
		} else {
			r.sc.CrashAfter = r.start + k
		}
	}
	bsn, err := txk.NewBtree[int, string](ctx, r.t1, r.e.StoreOpts("sn", 4, true))
	if err != nil {
		return fmt.Errorf("NewBtree: %v", err)
	}
	if stage == "after-new" {
		os.Exit(137)
	}
	bsn.Add(ctx, 10, "a")
	bsn.Add(ctx, 11, "b")
	if stage == "after-adds" {
		os.Exit(137)
	}
	return nil
}

// c12-recover <dir>: a later process: expired-log recovery by hand, then the cold observation -> <dir>/obs.json
func childRecover(args []string) error {
	if len(args) < 1 {
		return fmt.Errorf("c12-recover <dir>")
	}
	sop.RetryStartDuration = time.Millisecond
	installClock3h()
	ctx := context.Background()
	dir := filepath.Join(args[0], "data")
	e := txk.NewEnv(dir, 4)
	out := &nout{}
	sc := txk.NewScript(e.Canon)
	t, err := e.NewTxn(ctx, sop.ForWriting, time.Minute, sc)
	if err != nil {
		return err
	}
	if err := t.T.Begin(ctx); err != nil {
		return err
	}
	for i := 0; i < 3; i++ {
		if err := common.VerifProcessExpiredLogs(ctx, t.P); err != nil {
			out.RecErrs = append(out.RecErrs, err.Error())
		}
	}
	for _, c := range sc.Calls {
		if strings.HasPrefix(c.Name, "sr.") || strings.HasPrefix(c.Name, "tlog.") {
			out.RecCalls = append(out.RecCalls, c.String())
		}
	}
	t.T.Rollback(ctx)
	to := &tout{}
	observeSn(ctx, e, dir, to)
	out.Obs = obsOf(to)
	b, _ := json.Marshal(out)
	return os.WriteFile(filepath.Join(args[0], "obs.json"), b, 0o644)
}

// runCrash: the creating process dies at the point; another process recovers.
func runCrash(s *hx.Session, prelude, stage string, k int, when string, ffCalls []string) {
	s.BeginCase(fmt.Sprintf("tx newcrash %s %s call=%d:%s", prelude, stage, k, when))
	work, err := os.MkdirTemp(hx.WorkRoot(), "c12c-")
	if err != nil {
		s.Fail("C12/dump-error", "mkdir", err.Error())
		return
	}
	defer os.RemoveAll(work)
	code, tail := crashx.RunChild("c12-crash", work, prelude, stage, fmt.Sprint(k), when)
	if code != 137 {
		s.Hit("new:crash-point-not-reached")
		if code != 0 {
			s.Fail("C12/dump-error", "crash child failed", tail)
		}
		return
	}
	s.Nontrivial()
	preludeOps(s, prelude)
	performed := ffCalls
	if stage == "new" {
		n := k
		if when == "before" {
			n = k - 1
		}
		if n > len(ffCalls) {
			n = len(ffCalls)
		}
		performed = ffCalls[:n]
	}
	emitNewOps(s, performed, true)
	if stage == "after-adds" {
		s.Op("add sn 10 a", "ok")
		s.Op("add sn 11 b", "ok")
	}
	s.Op("crash", "ok")
	code, tail = crashx.RunChild("c12-recover", work)
	if code != 0 {
		s.Fail("C12/dump-error", "recover child failed", tail)
		return
	}
	var o nout
	b, err := os.ReadFile(filepath.Join(work, "obs.json"))
	if err == nil {
		err = json.Unmarshal(b, &o)
	}
	if err != nil {
		s.Fail("C12/dump-error", "recover child wrote no observation", fmt.Sprint(err))
		return
	}
	s.Op("recover", "ok")
	s.Op("dump", o.Obs.Dump)
	s.Hit("new:crash:" + stage)
	if len(o.RecErrs) > 0 {
		s.Hit("new:recovery-error")
	}
	for _, c := range o.RecCalls {
		if strings.HasPrefix(c, "sr.Remove") {
			s.Hit("new:recovery-called-" + strings.Fields(c)[0] + "-" + strings.Join(strings.Fields(c)[1:], ""))
		}
	}
	judgeSn(s, false, "crash-and-recovery", o.Obs, true, fmt.Sprintf("calls performed before the crash %v; recovery calls %v errors %v", performed, o.RecCalls, o.RecErrs))
}

func runNewFaults(ctx context.Context, s *hx.Session, o hx.RunOpts) {
	for _, prelude := range []string{"none", "open", "newsp"} {
		for _, end := range []string{"commit", "rollback"} {
			sc := nscen{prelude, end}
			ff := runNewFault(ctx, sc, 0, txk.None)
			emitNewFault(s, sc, 0, txk.None, ff)
			if ff.Err != "" && ff.EndRes == "" {
				continue
			}
			for k := 1; k <= len(ff.NewCalls); k++ {
				for _, kind := range []txk.Fault{txk.FailBefore, txk.FailAfter} {
					emitNewFault(s, sc, k, kind, runNewFault(ctx, sc, k, kind))
				}
			}
			if end == "rollback" {
				continue
			}
			// crashes: before / after every call of NewBtree, after NewBtree, after the adds
			if !o.Thorough() && prelude == "open" {
				continue
			}
			for k := 1; k <= len(ff.NewCalls); k++ {
				runCrash(s, prelude, "new", k, "before", ff.NewCalls)
				runCrash(s, prelude, "new", k, "after", ff.NewCalls)
			}
			runCrash(s, prelude, "after-new", 0, "-", ff.NewCalls)
			runCrash(s, prelude, "after-adds", 0, "-", ff.NewCalls)
		}
	}
}
