// Transaction histories of C12 in which the creating transaction ALSO writes into an existing store, so that its
// commit can run into conflict rounds: T1 opens `se` (committed, items 1..4 in one node), writes into it, creates `sn`
// and adds items to it; concurrent committers on `se` are run at the start of chosen rounds of T1's phase-1 loop (from
// inside a gate of T1's backend-call script, i.e. at exactly that point of T1's Commit); optionally one backend call
// of T1's Commit fails (before or after it is performed), or T1 is rolled back explicitly. Afterwards a cold process,
// the folder and this process's L2 cache are asked about `sn`.
package main

import (
	"context"
	"encoding/json"
	"fmt"
	"os"
	"path/filepath"
	"sort"
	"strings"
	"time"

	"github.com/sharedcode/sop"
	"github.com/sharedcode/sop/btree"
	"github.com/sharedcode/sop/fs"

	"verifharness/hx"
	"verifharness/storex"
	"verifharness/txk"
)

type thist struct {
	newFirst bool     // NewBtree(sn) before OpenBtree(se)
	t1Write  string   // what T1 does in `se`: "upd1" (update item 1), "add9" (add item 9), "none"
	rounds   []string // interferer at the start of round i+1 of T1's commit (round 1: right before Commit): "" none, "same" (update item 1), "other" (update item 3), "add" (add an item), "newx" (create store sx)
	fName    string   // fault: backend call name of T1's commit ("" = none)
	fOcc     int
	fKind    txk.Fault
	end      string // "commit" | "rollback"
}

func (h thist) String() string {
	o := "open-new"
	if h.newFirst {
		o = "new-open"
	}
	f := "-"
	if h.fName != "" {
		f = fmt.Sprintf("%s#%d:%v", h.fName, h.fOcc, h.fKind)
	}
	r := "-"
	if len(h.rounds) > 0 {
		var p []string
		for _, x := range h.rounds {
			if x == "" {
				x = "."
			}
			p = append(p, x)
		}
		r = strings.Join(p, ",")
	}
	return fmt.Sprintf("%s %s rounds=%s fault=%s %s", o, h.t1Write, r, f, h.end)
}

type tout struct {
	setupErr    error
	res         string // ok | err:conflict | err:injected | err:retry-limit | err:other | rolledback
	errText     string
	rounds      int      // rounds of the phase-1 loop T1 went through (lockTrackedItems log records)
	partials    int      // partial rollbacks (conflict rounds)
	commitCalls []string // names of T1's backend calls during Commit (fault-free run: the fault sites)
	trace       []string
	srCalls     []string // T1's catalogue-changing calls
	interfOK    int
	events      []string // model ops of the interferers that committed, in order, each tagged with the number of partial rollbacks of T1 seen before it
	evAt        []int
	// observation
	listed   bool
	folder   bool
	infoFile bool
	cached   bool
	openOK   bool
	count    int64
	items    int
	seItems  []string
	relogged bool
	dump     string
}

func classifyCommit(err error) string {
	if err == nil {
		return "ok"
	}
	m := err.Error()
	switch {
	case strings.Contains(m, "injected fault"):
		return "err:injected"
	case strings.Contains(m, "exceeded retry limit"):
		return "err:retry-limit"
	case strings.Contains(m, "newer version") || strings.Contains(m, "conflict") || strings.Contains(m, "failed to merge") || strings.Contains(m, "refetch"):
		return "err:conflict"
	}
	return "err:other"
}

func runHist(ctx context.Context, h thist) *tout {
	out := &tout{}
	dir, err := os.MkdirTemp(hx.WorkRoot(), "c12t-")
	if err != nil {
		out.setupErr = err
		return out
	}
	defer os.RemoveAll(dir)
	e := txk.NewEnv(dir, 4)
	// T0: the existing store
	t0, err := e.NewTxn(ctx, sop.ForWriting, time.Minute, nil)
	if err != nil {
		out.setupErr = err
		return out
	}
	t0.T.Begin(ctx)
	b0, err := txk.NewBtree[int, string](ctx, t0, e.StoreOpts("se", 8, true))
	if err != nil {
		out.setupErr = err
		return out
	}
	for k := 1; k <= 4; k++ {
		b0.Add(ctx, k, fmt.Sprintf("v%d", k))
	}
	if err := t0.T.Commit(ctx); err != nil {
		out.setupErr = err
		return out
	}
	// T1
	sc := txk.NewScript(e.Canon)
	t1, err := e.NewTxn(ctx, sop.ForWriting, time.Minute, sc)
	if err != nil {
		out.setupErr = err
		return out
	}
	t1.T.Begin(ctx)
	var bse, bsn btree.BtreeInterface[int, string]
	attach := func(newStore bool) error {
		var err error
		if newStore {
			bsn, err = txk.NewBtree[int, string](ctx, t1, e.StoreOpts("sn", 4, true))
		} else {
			bse, err = txk.OpenBtree[int, string](ctx, t1, "se")
		}
		return err
	}
	if err := attach(h.newFirst); err != nil {
		out.setupErr = err
		return out
	}
	if err := attach(!h.newFirst); err != nil {
		out.setupErr = err
		return out
	}
	switch h.t1Write {
	case "upd1":
		if ok, err := bse.Find(ctx, 1, false); !ok || err != nil {
			out.setupErr = fmt.Errorf("find 1: %v %v", ok, err)
			return out
		}
		bse.UpdateCurrentItem(ctx, 1, "t1")
	case "add9":
		bse.Add(ctx, 9, "t1")
	}
	bsn.Add(ctx, 10, "a")
	bsn.Add(ctx, 11, "b")
	bsn.Add(ctx, 12, "c")

	interferer := func(kind string, n int) {
		t, err := e.NewTxn(ctx, sop.ForWriting, time.Minute, nil)
		if err != nil {
			return
		}
		t.T.Begin(ctx)
		b, err := txk.OpenBtree[int, string](ctx, t, "se")
		if err != nil {
			return
		}
		switch kind {
		case "same":
			if ok, _ := b.Find(ctx, 1, false); ok {
				b.UpdateCurrentItem(ctx, b.GetCurrentKey().Key, fmt.Sprintf("i%d", n))
			}
		case "other":
			if ok, _ := b.Find(ctx, 3, false); ok {
				b.UpdateCurrentItem(ctx, b.GetCurrentKey().Key, fmt.Sprintf("i%d", n))
			}
		case "add":
			b.Add(ctx, 20+n, fmt.Sprintf("i%d", n))
		case "newx":
			if _, err := txk.NewBtree[int, string](ctx, t, e.StoreOpts("sx", 4, true)); err != nil {
				return
			}
		}
		if err := t.T.Commit(ctx); err == nil {
			out.interfOK++
			switch kind {
			case "add":
				out.events = append(out.events, fmt.Sprintf("otheradd se %d i%d", 20+n, n))
				out.evAt = append(out.evAt, out.partials)
			case "newx":
				out.events = append(out.events, "othernew sx 4 1")
				out.evAt = append(out.evAt, out.partials)
			}
		}
	}
	// round 1 starts with Commit: its interferer runs right before
	if len(h.rounds) > 0 && h.rounds[0] != "" && h.end == "commit" {
		interferer(h.rounds[0], 1)
	}
	start := sc.N()
	inGate := false
	occ := map[string]int{}
	sc.FaultOn = func(idx int, name string) txk.Fault {
		if idx <= start || inGate {
			return txk.None
		}
		occ[name]++
		if h.fName != "" && name == h.fName && occ[name] == h.fOcc {
			return h.fKind
		}
		return txk.None
	}
	// loop top of a round of phase 1 = T1's l2.Lock call (nothing is locked by T1 at that point); a tlog.Remove seen
	// before it is the partial rollback of the previous round
	loopTops := 0
	removes, removesAtTop := 0, 0
	sc.Gate = func(idx int, name string) {
		if idx <= start {
			return
		}
		switch name {
		case "tlog.Remove":
			removes++
		case "l2.Lock":
			loopTops++
			out.partials += removes - removesAtTop
			removesAtTop = removes
			if out.partials+1 >= 2 && out.partials+1 <= len(h.rounds) && h.rounds[out.partials] != "" && loopTops == out.partials+1 {
				interferer(h.rounds[out.partials], out.partials+1)
			}
		}
	}
	if h.end == "rollback" {
		err = t1.T.Rollback(ctx)
		out.res = "rolledback"
		if err != nil {
			out.res = "rolledback-err"
			out.errText = err.Error()
		}
	} else {
		err = t1.T.Commit(ctx)
		out.res = classifyCommit(err)
		if err != nil {
			out.errText = err.Error()
		}
	}
	sc.Gate = nil
	lastPartial := -1
	var calls []txk.Call
	for _, c := range sc.Calls {
		if c.Idx > start {
			calls = append(calls, c)
		}
	}
	sort.Slice(calls, func(i, j int) bool { return calls[i].Seq < calls[j].Seq })
	// the last partial rollback = the last tlog.Remove that is followed by an l2.Lock
	for i, c := range calls {
		out.trace = append(out.trace, c.String())
		out.commitCalls = append(out.commitCalls, c.Name)
		if c.Name == "tlog.Remove" {
			for _, d := range calls[i+1:] {
				if d.Name == "l2.Lock" {
					lastPartial = i
					break
				}
			}
		}
		if c.Name == "sr.Remove" || c.Name == "sr.Add" {
			out.srCalls = append(out.srCalls, c.String())
		}
	}
	for _, c := range calls[lastPartial+1:] {
		if c.Name == "tlog.Add" {
			out.relogged = true
		}
	}
	observeSn(ctx, e, dir, out)
	return out
}

// observeSn asks this process's L2 cache, the folder and a cold process about the store `sn` (and dumps the catalogue).
func observeSn(ctx context.Context, e *txk.Env, dir string, out *tout) {
	// observation: this process's L2 cache, the folder, a cold process
	var si sop.StoreInfo
	if found, err := e.L2.GetStruct(ctx, fmt.Sprintf("%s:%s", dir, "sn"), &si); found && err == nil {
		out.cached = true
	}
	if st, err := os.Stat(filepath.Join(dir, "sn")); err == nil && st.IsDir() {
		out.folder = true
	}
	if _, err := os.Stat(filepath.Join(dir, "sn", fs.StoreInfoFilename)); err == nil {
		out.infoFile = true
	}
	folders, list := storex.StoreFolders(dir)
	var ln []string
	if list != "<absent>" {
		json.Unmarshal([]byte(list), &ln)
	}
	sort.Strings(ln)
	var body []string
	e.AsOtherProcess(func(o *txk.Env) error {
		t, err := o.NewTxn(ctx, sop.ForReading, time.Minute, nil)
		if err != nil {
			return err
		}
		t.T.Begin(ctx)
		names, _ := t.P.GetStores(ctx)
		sort.Strings(names)
		t.T.Rollback(ctx)
		for _, n := range names {
			if n == "sn" {
				out.listed = true
			}
		}
		all := append([]string{}, names...)
		if !out.listed {
			all = append(all, "sn") // OpenBtree of the unlisted name must fail
		}
		for _, n := range all {
			t, err := o.NewTxn(ctx, sop.ForReading, time.Minute, nil)
			if err != nil {
				return err
			}
			t.T.Begin(ctx)
			b, err := txk.OpenBtree[int, string](ctx, t, n)
			if err != nil {
				if n != "sn" || out.listed {
					body = append(body, n+":ERR-open")
				}
				continue
			}
			sinfo := b.GetStoreInfo()
			var items []string
			ok, err := b.First(ctx)
			for ok && err == nil {
				v, _ := b.GetCurrentValue(ctx)
				items = append(items, fmt.Sprintf("%d=%s", b.GetCurrentKey().Key, v))
				ok, err = b.Next(ctx)
			}
			if n == "sn" {
				out.openOK = true
				out.count = b.Count()
				out.items = len(items)
			}
			if n == "se" {
				out.seItems = items
			}
			if n != "sn" || out.listed {
				body = append(body, fmt.Sprintf("%s:%d:%s:%d", n, sinfo.SlotLength, b01(sinfo.IsUnique), b.Count()))
			}
			t.T.Rollback(ctx)
		}
		return nil
	})
	bs := "-"
	if len(body) > 0 {
		bs = strings.Join(body, " ")
	}
	out.dump = fmt.Sprintf("%s | folders=[%s] list=[%s]", bs, strings.Join(folders, ","), strings.Join(ln, ","))
}

// emitHist replays the history on the model Sop.StoreRepoCommit (ops derived from what T1's backend-call trace shows:
// partial rollbacks = conflict rounds, whether the failing last round got as far as a log record) and judges it.
func emitHist(s *hx.Session, h thist, o *tout) {
	s.BeginCase("tx " + h.String())
	if o.setupErr != nil {
		s.Hit("tx:setup-error")
		s.Fail("C12/dump-error", "history setup failed", o.setupErr.Error())
		return
	}
	s.Nontrivial()
	s.Op("othernew se 8 1", "ok")
	for k := 1; k <= 4; k++ {
		s.Op(fmt.Sprintf("otheradd se %d v%d", k, k), "ok")
	}
	s.Op("begin", "ok")
	if h.newFirst {
		s.Op("new sn 4 1", "created")
		s.Op("open se", "opened")
	} else {
		s.Op("open se", "opened")
		s.Op("new sn 4 1", "created")
	}
	if h.t1Write == "add9" {
		s.Op("add se 9 t1", "ok")
	}
	s.Op("add sn 10 a", "ok")
	s.Op("add sn 11 b", "ok")
	s.Op("add sn 12 c", "ok")
	ev := 0
	flush := func(upTo int) {
		for ev < len(o.events) && o.evAt[ev] <= upTo {
			s.Op(o.events[ev], "ok")
			ev++
		}
	}
	committed := false
	if h.end == "rollback" {
		out := "ok"
		if o.res != "rolledback" {
			out = "err"
		}
		s.Op("rollback", out)
	} else {
		for r := 0; r < o.partials; r++ {
			flush(r)
			s.Op("conflict", "retry")
		}
		flush(o.partials)
		if o.res == "ok" {
			committed = true
			s.Op("finish 1 1", "ok")
		} else {
			s.Op(fmt.Sprintf("finish 0 %s", b01(o.relogged)), "err")
		}
	}
	s.Op("dump", o.dump)
	s.Hit("tx:res:" + o.res)
	s.Hit(fmt.Sprintf("tx:partials:%d", o.partials))
	if h.fName != "" {
		s.Hit("tx:fault:" + h.fName)
	}
	if !committed && o.partials > 0 {
		s.Hit("tx:failed-after-conflict-round:relogged=" + b01(o.relogged))
	}
	// direct oracle
	where := fmt.Sprintf("listed=%v folder=%v storeinfo=%v cached=%v open=%v; T1 catalogue calls %v; partial rollbacks %d, relogged %v, result %s (%s)",
		o.listed, o.folder, o.infoFile, o.cached, o.openOK, o.srCalls, o.partials, o.relogged, o.res, o.errText)
	if committed {
		if !o.listed || !o.infoFile || !o.openOK {
			s.Fail("C12/tx/committed-created-store-missing", "Commit returned nil but the store the transaction created is not there for a cold process", where)
		} else if o.count != 3 || o.items != 3 {
			s.Fail("C12/tx/committed-created-store-wrong-count", "Commit returned nil but the created store does not hold the three items added (Count / scan)", fmt.Sprintf("count %d items %d; %s", o.count, o.items, where))
		}
	} else if o.listed || o.folder || o.infoFile || o.cached || o.openOK {
		sig := "C12/tx/created-store-survives-abort"
		what := "the transaction did not commit (" + o.res + "), yet the store it created is still there (store list / folder / store info file / L2 cache entry / OpenBtree of a cold process)"
		if o.partials > 0 && !o.relogged {
			sig = "C12/tx/created-store-survives-abort-after-conflict-round"
			what = "after a conflict round (partial rollback) the commit failed before it logged anything again; the final rollback did not remove the store the transaction created: " + what
		}
		if !o.listed && !o.infoFile && !o.cached && !o.openOK {
			sig += "/empty-folder"
		}
		s.Fail(sig, what, where)
	}
	// T1's write into the existing store is there iff it committed
	has := func(it string) bool {
		for _, x := range o.seItems {
			if x == it {
				return true
			}
		}
		return false
	}
	mark := ""
	switch h.t1Write {
	case "upd1":
		mark = "1=t1"
	case "add9":
		mark = "9=t1"
	}
	if mark != "" && has(mark) != committed {
		s.Fail("C12/tx/existing-store-write-not-atomic-with-create", "the transaction's write into the existing store is visible although it did not commit (or missing although it did)", mark+" "+where)
	}
}

func runTxHist(ctx context.Context, s *hx.Session, o hx.RunOpts, p *hx.Prng) {
	var hs []thist
	for _, nf := range []bool{false, true} {
		for _, w := range []string{"upd1", "add9", "none"} {
			// (c) explicit rollback, (b) conflict rounds caused by committers on the existing store
			hs = append(hs, thist{newFirst: nf, t1Write: w, end: "rollback"})
			for _, r := range [][]string{nil, {"other"}, {"same"}, {"add"}, {"newx"}, {"other", "same"}, {"other", "other"}, {"other", "add"}, {"add", "same"}, {"same", "other"}, {"other", "other", "other"}} {
				hs = append(hs, thist{newFirst: nf, t1Write: w, rounds: r, end: "commit"})
			}
		}
	}
	for _, h := range hs {
		emitHist(s, h, runHist(ctx, h))
	}
	// (a) one injected fault per run at each backend call of the commit, without and with a conflict round before it
	for _, base := range []thist{
		{t1Write: "upd1", end: "commit"},
		{t1Write: "add9", newFirst: true, end: "commit"},
		{t1Write: "upd1", rounds: []string{"other"}, end: "commit"},
		{t1Write: "add9", rounds: []string{"add"}, newFirst: true, end: "commit"},
	} {
		ff := runHist(ctx, base)
		if ff.setupErr != nil {
			continue
		}
		occ := map[string]int{}
		for ci, name := range ff.commitCalls {
			occ[name]++
			for _, kind := range []txk.Fault{txk.FailBefore, txk.FailAfter} {
				if name == "sr.Remove" && kind == txk.FailBefore {
					s.Hit("tx:skipped-fault-on-the-removal-itself")
					continue // an injected failure of the removal cannot be expected to remove
				}
				if name == "sr.Update" && kind == txk.FailAfter {
					s.Hit("tx:skipped-fault-sr.Update-failAfter(C06-F1)")
					continue // the count delta of the existing store survives this fault: C06's open finding, not catalogue matter
				}
				if !o.Thorough() && (ci+int(kind))%3 != 0 {
					continue
				}
				h := base
				h.fName, h.fOcc, h.fKind = name, occ[name], kind
				t0 := time.Now()
				emitHist(s, h, runHist(ctx, h))
				if d := time.Since(t0); d > 300*time.Millisecond && os.Getenv("VERIF_C12_TIMING") != "" {
					fmt.Fprintln(os.Stderr, "slow history", d, h)
				}
			}
		}
	}
	_ = p
}
