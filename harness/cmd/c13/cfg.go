// C13, configuration half across processes: stores with DIFFERENT optional configuration (each of the seven omitempty
// fields of sop.StoreInfo set on some stores and absent on others), multi-name Get / GetWithTTL calls in every order
// from cold and warm processes, commits by transactions that opened their store with a cache-first Get (patch and
// full save = first item of an empty store), evictions, process restarts, and a final cold reopen.
// Diffed with Sop.Model.StoreInfoGet: every record every Get returns (field by field), the file after every commit,
// all files at the end. Direct oracle: every record a Get returns and every file carry the configuration the store
// was created with.
package main

import (
	"context"
	"encoding/json"
	"fmt"
	"os"
	"path/filepath"
	"sort"
	"strings"
	"time"

	"github.com/sharedcode/sop"
	"github.com/sharedcode/sop/cache"
	"github.com/sharedcode/sop/fs"

	"verifharness/hx"
)

type gStore struct {
	name, tok string
	id        int
	cfg       sop.StoreInfo
}

func idOf(prefix, v string) int {
	if v == "" {
		return 0
	}
	var n int
	if _, err := fmt.Sscanf(v, prefix+"%d", &n); err != nil {
		return 99
	}
	return n
}

func idsOf(prefix string, vs []string) int {
	if len(vs) == 0 {
		return 0
	}
	id := idOf(prefix, vs[0])
	for _, v := range vs[1:] {
		if idOf(prefix, v) != id {
			return 99
		}
	}
	return id
}

func keyIDs(keys []string) string {
	if len(keys) == 0 {
		return "0"
	}
	var ids []int
	for _, k := range keys {
		ids = append(ids, idOf("k", k))
	}
	sort.Ints(ids)
	var out []string
	for _, i := range ids {
		out = append(out, fmt.Sprint(i))
	}
	return strings.Join(out, "+")
}

func stripOptional(si sop.StoreInfo) sop.StoreInfo {
	si.CELexpression, si.Relations, si.Schema, si.KeyFields, si.ValueFields, si.CustomData, si.Version = "", nil, nil, nil, nil, nil, ""
	si.Count, si.Timestamp, si.CountDelta, si.NeedsMetaDataSave = 0, 0, 0, false
	return si
}

// encCfg renders a record field by field: whose mandatory part, and for each optional field whose value (0 absent)
func encCfg(si sop.StoreInfo, stores []*gStore) string {
	base := 0
	for _, st := range stores {
		if sameConfig(stripOptional(si), stripOptional(st.cfg)) {
			base = st.id
		}
	}
	rel := 0
	if len(si.Relations) > 0 {
		rel = idOf("t", si.Relations[0].TargetStore)
		for _, r := range si.Relations[1:] {
			if idOf("t", r.TargetStore) != rel {
				rel = 99
			}
		}
	}
	var sk, ck []string
	for k := range si.Schema {
		sk = append(sk, k)
	}
	for k := range si.CustomData {
		ck = append(ck, k)
	}
	return fmt.Sprintf("%d:%d:%d:%d:%d:%d:%s:%s", base, idOf("cel", si.CELexpression), rel, idsOf("kf", si.KeyFields), idsOf("vf", si.ValueFields),
		idOf("ver", si.Version), keyIDs(sk), keyIDs(ck))
}

func sameStoreConfig(got, want sop.StoreInfo) bool {
	got.Count, got.Timestamp, got.CountDelta, got.NeedsMetaDataSave = 0, 0, 0, false
	want.Count, want.Timestamp, want.CountDelta, want.NeedsMetaDataSave = 0, 0, 0, false
	return sameConfig(got, want)
}

func mkGStores(p *hx.Prng, s *hx.Session, names []string, dense bool) []*gStore {
	var out []*gStore
	for i, n := range names {
		id := i + 1
		si := genStoreInfo(p, s, true)
		si.Name = n
		si.Description = fmt.Sprintf("store %d: %s", id, si.Description)
		si.CountDelta, si.NeedsMetaDataSave, si.Count = 0, false, 0
		si.Timestamp = int64(100 + id)
		si.CELexpression, si.Relations, si.Schema, si.KeyFields, si.ValueFields, si.CustomData, si.Version = "", nil, nil, nil, nil, nil, ""
		on := func() bool {
			if dense {
				return i == 0
			}
			return p.Chance(1, 2)
		}
		if on() {
			si.CELexpression = fmt.Sprintf("cel%d", id)
			s.Hit("cfg_field:cel_expression")
		}
		if on() {
			si.Relations = []sop.Relation{{SourceFields: []string{fmt.Sprintf("f%d", id)}, TargetStore: fmt.Sprintf("t%d", id), TargetFields: []string{"id"}}}
			s.Hit("cfg_field:relations")
		}
		if on() {
			si.Schema = map[string]string{fmt.Sprintf("k%d", id): "string"}
			s.Hit("cfg_field:schema")
		}
		if on() {
			si.KeyFields = []string{fmt.Sprintf("kf%d", id)}
			s.Hit("cfg_field:key_fields")
		}
		if on() {
			si.ValueFields = []string{fmt.Sprintf("vf%d", id)}
			s.Hit("cfg_field:value_fields")
		}
		if on() {
			si.CustomData = map[string]any{fmt.Sprintf("k%d", id): fmt.Sprintf("owner%d", id)}
			s.Hit("cfg_field:custom_data")
		}
		if on() {
			si.Version = fmt.Sprintf("ver%d", id)
			s.Hit("cfg_field:version")
		}
		out = append(out, &gStore{name: n, tok: hx.Hexb([]byte(n)), id: id, cfg: si})
	}
	return out
}

type gEvent struct {
	kind  string // newproc | get | getttl | commit | evict
	names []int  // indices into stores
	full  bool
}

func cfgCase(ctx context.Context, s *hx.Session, p *hx.Prng, stores []*gStore, events []gEvent, kind string) error {
	dir, err := histDir()
	if err != nil {
		return err
	}
	defer os.RemoveAll(dir)
	raw := cache.NewL2InMemoryCache()
	sr, err := repoOn(ctx, dir, raw, raw)
	if err != nil {
		return err
	}
	s.BeginCase("cfg")
	s.Hit("cfg_" + kind)
	s.Nontrivial()
	for _, st := range stores {
		line := "gadd " + st.tok + " " + strings.ReplaceAll(encCfg(st.cfg, stores), ":", " ")
		if err := sr.Add(ctx, st.cfg); err != nil {
			s.Op(line, "err:add")
			s.Fail("C13/add-failed", "StoreRepository.Add failed", err.Error())
			return nil
		}
		s.Op(line, "ok")
	}
	byName := map[string]*gStore{}
	for _, st := range stores {
		byName[st.name] = st
	}
	key := func(st *gStore) string { return dir + ":" + st.name }
	sync := func() {
		bits := ""
		for _, st := range stores {
			var c sop.StoreInfo
			if found, err := raw.GetStruct(ctx, key(st), &c); err == nil && found {
				bits += "1"
			} else {
				bits += "0"
			}
		}
		s.Op("gsync "+bits, "ok")
	}
	judge := func(where string, got sop.StoreInfo) {
		st := byName[got.Name]
		if st == nil {
			s.Fail("C13/get-returns-unknown-store", "a Get returned a record with a name nobody asked for", where+": "+got.Name)
			return
		}
		if !sameStoreConfig(got, st.cfg) {
			sig, what := classify(&got, st.cfg)
			enc := encCfg(got, stores)
			for _, f := range strings.Split(enc, ":")[1:] {
				for _, x := range strings.Split(f, "+") {
					if x != "0" && x != fmt.Sprint(st.id) {
						sig, what = "C13/config-inherited-from-other-store", "a store's record carries optional configuration (CEL expression / relations / schema / key or value fields / custom data / version) of ANOTHER store"
					}
				}
			}
			ba, _ := json.Marshal(got)
			s.Fail(sig, what, fmt.Sprintf("%s: store %q (id %d) reads as %s: %s", where, st.name, st.id, enc, string(ba)))
		}
	}
	for _, ev := range events {
		switch ev.kind {
		case "newproc":
			raw = cache.NewL2InMemoryCache()
			if sr, err = repoOn(ctx, dir, raw, raw); err != nil {
				return err
			}
			s.Op("gnewproc", "ok")
			s.Hit("cfg_newproc")
		case "evict":
			st := stores[ev.names[0]]
			raw.Delete(ctx, []string{key(st)})
			s.Op("gevict "+st.tok, "ok")
		case "get", "getttl":
			sync()
			var names, toks []string
			for _, i := range ev.names {
				names = append(names, stores[i].name)
				toks = append(toks, stores[i].tok)
			}
			var got []sop.StoreInfo
			if ev.kind == "get" {
				got, err = sr.Get(ctx, names...)
			} else {
				got, err = sr.GetWithTTL(ctx, true, 10*time.Minute, names...)
			}
			out := "-"
			if err != nil {
				out = "err"
			} else if len(got) > 0 {
				var parts []string
				for _, g := range got {
					tok := hx.Hexb([]byte(g.Name))
					parts = append(parts, tok+"="+encCfg(g, stores))
					judge(fmt.Sprintf("%s(%s)", ev.kind, strings.Join(names, ",")), g)
				}
				sort.Slice(parts, func(i, j int) bool {
					return strings.SplitN(parts[i], "=", 2)[0] < strings.SplitN(parts[j], "=", 2)[0]
				}) // name order: which entries hit the cache (and so come first) is the cache's business
				out = strings.Join(parts, " ")
			}
			s.Op("gget "+strings.Join(toks, " "), out)
			s.Hit(fmt.Sprintf("cfg_get_names:%d", len(names)))
		case "commit":
			sync()
			st := stores[ev.names[0]]
			got, err := sr.Get(ctx, st.name) // what OpenBtree hands the transaction
			out := "none"
			if err == nil && len(got) == 1 {
				caller := got[0]
				caller.CountDelta, caller.Timestamp, caller.NeedsMetaDataSave = 1, caller.Timestamp+1, ev.full
				if _, err := sr.Update(ctx, []sop.StoreInfo{caller}); err != nil {
					s.Fail("C13/update-failed", "StoreRepository.Update failed on a store it had written itself", err.Error())
				}
				if d, derr := readDiskG(dir, st.name); d != nil {
					out = encCfg(*d, stores)
					judge("file after commit", *d)
				} else {
					out = "unreadable:" + derr
				}
			}
			s.Op(fmt.Sprintf("gcommit %s %s", st.tok, map[bool]string{false: "0", true: "1"}[ev.full]), out)
			s.Hit("cfg_commit_full:" + fmt.Sprint(ev.full))
		}
	}
	// cold reopen: every store, one by one, and the files themselves
	raw2 := cache.NewL2InMemoryCache()
	sr2, err := repoOn(ctx, dir, raw2, raw2)
	if err != nil {
		return err
	}
	var parts []string
	for _, st := range stores {
		got, err := sr2.Get(ctx, st.name)
		if err != nil || len(got) != 1 {
			sig, what := classify(nil, st.cfg)
			s.Fail(sig, what, fmt.Sprintf("cold reopen: Get(%q): err=%v n=%d", st.name, err, len(got)))
		} else {
			judge("cold reopen", got[0])
		}
		if d, derr := readDiskG(dir, st.name); d != nil {
			parts = append(parts, st.tok+"="+encCfg(*d, stores))
		} else {
			parts = append(parts, st.tok+"=unreadable:"+derr)
		}
	}
	s.Op("gdisk", strings.Join(parts, " "))
	return nil
}

func readDiskG(dir, name string) (*sop.StoreInfo, string) {
	ba, err := os.ReadFile(filepath.Join(dir, name, fs.StoreInfoFilename))
	if err != nil {
		return nil, err.Error()
	}
	var si sop.StoreInfo
	if err := json.Unmarshal(ba, &si); err != nil {
		return nil, string(ba)
	}
	return &si, ""
}

func genCfgEvents(p *hx.Prng, o hx.RunOpts, k int) []gEvent {
	n := 3 + p.Intn(6)
	if o.Thorough() {
		n = 3 + p.Intn(10)
	}
	evs := []gEvent{{kind: "newproc"}}
	for i := 0; i < n; i++ {
		switch {
		case p.Chance(1, 6):
			evs = append(evs, gEvent{kind: "newproc"})
		case p.Chance(1, 8):
			evs = append(evs, gEvent{kind: "evict", names: []int{p.Intn(k)}})
		case p.Chance(2, 5):
			evs = append(evs, gEvent{kind: "commit", names: []int{p.Intn(k)}, full: p.Chance(1, 2)})
		default:
			m := 1 + p.Intn(k)
			if k >= 2 && p.Chance(3, 4) && m < 2 {
				m = 2
			}
			kind := "get"
			if p.Chance(1, 3) {
				kind = "getttl"
			}
			evs = append(evs, gEvent{kind: kind, names: permOf(p, k)[:m]})
		}
	}
	return evs
}

func permutations(n int) [][]int {
	if n == 0 {
		return [][]int{{}}
	}
	var out [][]int
	for _, q := range permutations(n - 1) {
		for i := 0; i <= len(q); i++ {
			r := append(append(append([]int(nil), q[:i]...), n-1), q[i:]...)
			out = append(out, r)
		}
	}
	return out
}

func cfgCases(ctx context.Context, s *hx.Session, p *hx.Prng, o hx.RunOpts) error {
	// directed: one store with every optional field, the others with none; a fresh process reads them in one call, in
	// EVERY order, then opens each store and commits its first item (full save); cold reopen
	for k := 2; k <= 3; k++ {
		for _, perm := range permutations(k) {
			names := []string{"orders", "plain", "zed"}[:k]
			st := mkGStores(p, s, names, true)
			evs := []gEvent{{kind: "newproc"}, {kind: "get", names: perm}}
			for i := 0; i < k; i++ {
				evs = append(evs, gEvent{kind: "commit", names: []int{i}, full: true})
			}
			if err := cfgCase(ctx, s, p.Fork(), st, evs, "directed"); err != nil {
				return err
			}
		}
	}
	n := o.N(700, 15000)
	for i := 0; i < n; i++ {
		k := 2 + p.Intn(3)
		perm := permOf(p, len(histNames))[:k]
		names := make([]string, k)
		for j, x := range perm {
			names[j] = histNames[x]
		}
		st := mkGStores(p, s, names, false)
		if err := cfgCase(ctx, s, p.Fork(), st, genCfgEvents(p, o, k), "generated"); err != nil {
			return err
		}
	}
	return nil
}
