// C13, count half: histories of commits in ONE process.
//
// Several stores on one folder, ONE shared L2 cache for the whole history (as in a process that runs one transaction
// after another), a real fs.StoreRepository (a fresh object per commit more often than not, like a new transaction).
// Events: StoreRepository.Update on one or more stores — with, for some of them, one store's storeinfo.txt really
// broken for the duration of the call (a directory in its place: reads and writes fail; or the immutable flag where
// the file system has it: reads work, writes fail), so that the Update fails at the first / second / third store in
// name order and its inner undo reverts the earlier ones —, cache-first Gets, evictions of the cache entry (between
// calls, right before the forward pass reads it, right before the undo pass reads it), and reopen from a cold process
// (fresh L2 cache, fresh repository objects).
//
// Diffed with the model (Sop.Model.StoreInfoHistory over Sop.Model.StoreInfoCache): the result of every Update and,
// after it, every store's file AND cache entry (count, timestamp, configuration id); every cache-first Get; every cold
// read. Direct oracle: what a cold process reads is count = initial + sum of the deltas of the Updates that returned
// nil, the timestamp of the last of them (or the initial one), and the store's own configuration; a failed Update
// leaves every file as it was; a cache-first Get in the process reports the same count.
package main

import (
	"context"
	"encoding/json"
	"fmt"
	"os"
	"path/filepath"
	"sort"
	"strings"
	"sync/atomic"

	"github.com/sharedcode/sop"
	"github.com/sharedcode/sop/cache"
	"github.com/sharedcode/sop/fs"

	"verifharness/hx"
	"verifharness/persistx"
)

type hStore struct {
	name string // the real store name (also the directory name)
	tok  string // its name on the protocol lines and in the model: hex of the bytes (same order as the byte strings)
	id   int    // configuration id (model: Rec.info)
	cfg  sop.StoreInfo
	// oracle state
	count, ts     int64
	undoneBefore  bool // some failed Update included this store
	everCommitted bool
}

type hSpec struct {
	st    *hStore
	delta int64
	flags string // s u r e v
}

type hEvent struct {
	kind  string // upd | get | evict | cold | newrepo
	specs []hSpec
	ts    int64
	st    *hStore
}

var histSeq int64

func histDir() (string, error) {
	d := filepath.Join(hx.WorkRoot(), fmt.Sprintf("c13h-%d-%d", os.Getpid(), atomic.AddInt64(&histSeq, 1)))
	return d, os.MkdirAll(d, 0o755)
}

func repoOn(ctx context.Context, dir string, raw, l2 sop.L2Cache) (*fs.StoreRepository, error) {
	rt, err := fs.NewReplicationTracker(ctx, []string{dir}, false, raw)
	if err != nil {
		return nil, err
	}
	return fs.NewStoreRepository(ctx, rt, nil, l2, 0)
}

// cfgID: does `got` carry the configuration of store st (count and timestamp aside)?
func cfgID(got sop.StoreInfo, stores []*hStore, st *hStore) int {
	w := st.cfg
	w.Count, w.Timestamp = got.Count, got.Timestamp
	got.CountDelta, got.NeedsMetaDataSave = 0, false
	w.CountDelta, w.NeedsMetaDataSave = 0, false
	if sameConfig(got, w) {
		return st.id
	}
	for _, o := range stores {
		w := o.cfg
		w.Count, w.Timestamp = got.Count, got.Timestamp
		if sameConfig(got, w) {
			return o.id
		}
	}
	return 0
}

func recStr(si *sop.StoreInfo, stores []*hStore, st *hStore) string {
	if si == nil {
		return "none"
	}
	return fmt.Sprintf("%d,%d,%d", si.Count, si.Timestamp, cfgID(*si, stores, st))
}

func readDisk(dir string, st *hStore) (*sop.StoreInfo, string) {
	ba, err := os.ReadFile(filepath.Join(dir, st.name, fs.StoreInfoFilename))
	if err != nil {
		if os.IsNotExist(err) {
			return nil, ""
		}
		return nil, "err:" + err.Error()
	}
	var si sop.StoreInfo
	if err := json.Unmarshal(ba, &si); err != nil {
		return nil, "unreadable:" + string(ba)
	}
	return &si, ""
}

// histCase runs one history. `directed` fixes the events; otherwise they are generated.
func histCase(ctx context.Context, s *hx.Session, p *hx.Prng, o hx.RunOpts, names []string, directed []hEvent, stores []*hStore, kind string) error {
	dir, err := histDir()
	if err != nil {
		return err
	}
	defer os.RemoveAll(dir)
	raw := cache.NewL2InMemoryCache()
	hook := &persistx.HookL2{L2Cache: raw, Dir: dir}
	sr, err := repoOn(ctx, dir, raw, hook)
	if err != nil {
		return err
	}
	canRO := persistx.ImmutableSupported(dir)
	s.BeginCase("hist")
	s.Hit("hist_" + kind)
	s.Hit(fmt.Sprintf("hist_stores:%d", len(stores)))
	for _, st := range stores {
		si := st.cfg
		if err := sr.Add(ctx, si); err != nil {
			s.Op(fmt.Sprintf("hadd %s %d %d %d", st.tok, st.count, st.ts, st.id), "err:add")
			s.Fail("C13/add-failed", "StoreRepository.Add failed", err.Error())
			return nil
		}
		s.Op(fmt.Sprintf("hadd %s %d %d %d", st.tok, st.count, st.ts, st.id), "ok")
	}
	key := func(st *hStore) string { return hook.Key(st.name) }
	state := func() (string, map[string]string) {
		var parts []string
		disk := map[string]string{}
		for _, st := range stores {
			d, derr := readDisk(dir, st)
			ds := recStr(d, stores, st)
			if derr != "" {
				ds = derr
			}
			disk[st.name] = ds
			parts = append(parts, st.tok+"="+ds)
		}
		return strings.Join(parts, " "), disk
	}
	// the in-memory L2 cache evicts entries on its own (tiny shards): tell the model which entries are there
	// (`hsync`, one bit per store), then compare the entries that are (`hcache`)
	sync := func(show bool) {
		bits := ""
		var parts []string
		for _, st := range stores {
			var c sop.StoreInfo
			cs := "none"
			if found, err := raw.GetStruct(ctx, key(st), &c); err == nil && found {
				cs = recStr(&c, stores, st)
				bits += "1"
			} else {
				bits += "0"
				s.Hit("hist_entry_absent_at_sync")
			}
			parts = append(parts, st.tok+"="+cs)
		}
		s.Op("hsync "+bits, "ok")
		if show {
			s.Op("hcache", strings.Join(parts, " "))
		}
	}
	cold := func(tag string) error {
		raw2 := cache.NewL2InMemoryCache()
		sr2, err := repoOn(ctx, dir, raw2, raw2)
		if err != nil {
			return err
		}
		var parts []string
		for _, st := range stores {
			got, err := sr2.Get(ctx, st.name)
			if err != nil || len(got) != 1 {
				parts = append(parts, st.tok+"=none")
				sig, what := classify(nil, st.cfg)
				s.Fail(sig, what, fmt.Sprintf("%s: Get(%q) from a cold process: err=%v n=%d", tag, st.name, err, len(got)))
				continue
			}
			g := got[0]
			parts = append(parts, st.tok+"="+recStr(&g, stores, st))
			if cfgID(g, stores, st) != st.id {
				sig, what := classify(&g, st.cfg)
				s.Fail(sig, what, fmt.Sprintf("%s: store %q read from a cold process", tag, st.name))
			}
			if g.Count != st.count {
				sig := "C13/count-wrong-after-commits"
				if st.undoneBefore {
					sig = "C13/count-wrong-after-undone-commit"
				}
				s.Fail(sig, "what a cold process reads is not the initial count plus the deltas of the commits that succeeded",
					fmt.Sprintf("%s: store %q: count on disk %d, committed %d (an Update that included it had failed and been undone before: %v)", tag, st.name, g.Count, st.count, st.undoneBefore))
			} else if g.Timestamp != st.ts {
				s.Fail("C13/timestamp-not-of-last-commit", "the persisted timestamp is not that of the last commit that succeeded",
					fmt.Sprintf("%s: store %q: timestamp on disk %d, want %d", tag, st.name, g.Timestamp, st.ts))
			}
		}
		s.Op("hcold", strings.Join(parts, " "))
		return nil
	}

	events := directed
	if events == nil {
		events = genHistory(p, o, stores, canRO)
	}
	failedUpdates, okUpdates := 0, 0
	for _, ev := range events {
		switch ev.kind {
		case "newrepo":
			if sr, err = repoOn(ctx, dir, raw, hook); err != nil {
				return err
			}
			s.Hit("hist_new_repository_object")
		case "evict":
			raw.Delete(ctx, []string{key(ev.st)})
			s.Op("hevict "+ev.st.tok, "ok")
			s.Hit("hist_evict")
		case "get":
			sync(false)
			got, err := sr.Get(ctx, ev.st.name)
			out := "none"
			if err == nil && len(got) == 1 {
				out = recStr(&got[0], stores, ev.st)
				if got[0].Count != ev.st.count {
					s.Fail("C13/warm-read-differs-from-committed-count", "a cache-first Get in the process reports a count that is not initial + committed deltas",
						fmt.Sprintf("store %q: Get reports %d, committed %d", ev.st.name, got[0].Count, ev.st.count))
				}
			}
			s.Op("hget "+ev.st.tok, out)
			s.Hit("hist_get")
		case "cold":
			if err := cold("midway"); err != nil {
				return err
			}
			s.Hit("hist_cold_midway")
		case "upd":
			sync(false)
			_, before := state()
			var words []string
			caller := make([]sop.StoreInfo, 0, len(ev.specs))
			var heal []func()
			gets := map[string]int{}
			evictAt := map[string]map[int]bool{}
			for _, sp := range ev.specs {
				fl := sp.flags
				if fl == "" {
					fl = "-"
				}
				words = append(words, fmt.Sprintf("%s:%d:%d:%d:%s", sp.st.tok, sp.delta, ev.ts, sp.st.id, fl))
				c := sp.st.cfg
				c.CountDelta, c.Timestamp = sp.delta, ev.ts
				c.NeedsMetaDataSave = strings.Contains(sp.flags, "s")
				caller = append(caller, c)
				path := filepath.Join(dir, sp.st.name, fs.StoreInfoFilename)
				if strings.Contains(sp.flags, "u") {
					h, err := persistx.BreakFile(path, "unreadable")
					if err != nil {
						return err
					}
					heal = append(heal, h)
					s.Hit("hist_fault_unreadable")
				} else if strings.Contains(sp.flags, "r") {
					h, err := persistx.BreakFile(path, "readonly")
					if err != nil {
						return err
					}
					heal = append(heal, h)
					s.Hit("hist_fault_readonly")
				}
				m := map[int]bool{}
				if strings.Contains(sp.flags, "e") {
					m[1] = true
				}
				if strings.Contains(sp.flags, "v") {
					m[2] = true
				}
				evictAt[sp.st.name] = m
			}
			// the n-th Get of a store's cache key inside one Update is the n-th pass over it (1 forward, 2 undo)
			hook.OnGet = func(name string) {
				gets[name]++
				if evictAt[name][gets[name]] {
					raw.Delete(ctx, []string{hook.Key(name)})
					s.Hit(fmt.Sprintf("hist_evict_in_pass_%d", gets[name]))
				}
			}
			res, err := sr.Update(ctx, caller)
			hook.OnGet = nil
			for _, h := range heal {
				h()
			}
			r := "ok"
			switch {
			case err != nil:
				r = "err"
			case res == nil:
				r = "oknil"
			}
			st, after := state()
			s.Op("hupd "+strings.Join(words, " "), r+" "+st)
			sync(true)
			s.Hit("hist_upd_" + r)
			s.Hit(fmt.Sprintf("hist_upd_stores:%d", len(ev.specs)))
			if r == "ok" {
				okUpdates++
				for _, sp := range ev.specs {
					sp.st.count += sp.delta
					sp.st.ts = ev.ts
					sp.st.everCommitted = true
				}
				if failedUpdates > 0 {
					s.Hit("hist_commit_after_undone_commit")
				}
			} else {
				failedUpdates++
				// which position (name order) failed, how many were undone
				sorted := append([]hSpec(nil), ev.specs...)
				sort.Slice(sorted, func(i, j int) bool { return sorted[i].st.name < sorted[j].st.name })
				for i, sp := range sorted {
					if strings.ContainsAny(sp.flags, "ur") {
						s.Hit(fmt.Sprintf("hist_fails_at_position:%d_of_%d", i+1, len(sorted)))
						for _, q := range sorted[:i] {
							q.st.undoneBefore = true
						}
						if i > 0 {
							s.Hit("hist_undo_ran")
						}
						break
					}
				}
				for _, stt := range stores {
					if before[stt.name] != after[stt.name] {
						s.Fail("C13/failed-commit-changed-file", "an Update that returned an error left a store's file changed",
							fmt.Sprintf("store %q: %s -> %s", stt.name, before[stt.name], after[stt.name]))
					}
				}
			}
		}
	}
	if failedUpdates > 0 && okUpdates > 0 {
		s.Nontrivial()
	}
	return cold("end")
}

// genHistory: 3..8 events (thorough: up to 14), mostly Updates; about a third of the multi-store Updates have one store broken.
func genHistory(p *hx.Prng, o hx.RunOpts, stores []*hStore, canRO bool) []hEvent {
	n := 3 + p.Intn(6)
	if o.Thorough() {
		n = 3 + p.Intn(12)
	}
	var evs []hEvent
	ts := int64(1000)
	for i := 0; i < n; i++ {
		switch {
		case p.Chance(1, 8):
			evs = append(evs, hEvent{kind: "evict", st: stores[p.Intn(len(stores))]})
		case p.Chance(1, 7):
			evs = append(evs, hEvent{kind: "get", st: stores[p.Intn(len(stores))]})
		case p.Chance(1, 12):
			evs = append(evs, hEvent{kind: "cold"})
		default:
			if p.Chance(1, 2) {
				evs = append(evs, hEvent{kind: "newrepo"})
			}
			ts += int64(1 + p.Intn(1000))
			k := 1 + p.Intn(len(stores))
			perm := permOf(p, len(stores))[:k]
			ev := hEvent{kind: "upd", ts: ts}
			for _, j := range perm {
				d := int64(p.Intn(21) - 6)
				if p.Chance(1, 10) {
					d = 0
				}
				fl := ""
				if p.Chance(1, 8) {
					fl += "s"
				}
				if p.Chance(1, 8) {
					fl += "e"
				}
				if p.Chance(1, 8) {
					fl += "v"
				}
				ev.specs = append(ev.specs, hSpec{st: stores[j], delta: d, flags: fl})
			}
			if k >= 2 && p.Chance(2, 5) || k == 1 && p.Chance(1, 10) {
				j := p.Intn(k)
				if canRO && p.Chance(1, 3) {
					ev.specs[j].flags += "r"
				} else {
					ev.specs[j].flags += "u"
				}
			}
			evs = append(evs, ev)
		}
	}
	return evs
}

func permOf(p *hx.Prng, n int) []int {
	x := make([]int, n)
	for i := range x {
		x[i] = i
	}
	for i := n - 1; i > 0; i-- {
		j := p.Intn(i + 1)
		x[i], x[j] = x[j], x[i]
	}
	return x
}

var histNames = []string{"alpha", "beta", "gamma", "delta", "a", "b", "ab", "b0", "count", "timestamp", "Zed", "s 1", "x\"y", "ünï"}

func mkStores(p *hx.Prng, s *hx.Session, names []string) []*hStore {
	var out []*hStore
	for i, n := range names {
		si := genStoreInfo(p, s, true)
		si.Name = n
		si.CountDelta, si.NeedsMetaDataSave = 0, false
		si.Count = int64(p.Intn(6))
		si.Timestamp = int64(100 + p.Intn(100))
		out = append(out, &hStore{name: n, tok: hx.Hexb([]byte(n)), id: i + 1, cfg: si, count: si.Count, ts: si.Timestamp})
	}
	return out
}

func histCases(ctx context.Context, s *hx.Session, p *hx.Prng, o hx.RunOpts) error {
	// directed: the shapes the family is aimed at. A two-store commit failing at the second store (the first is undone),
	// then a commit on the first store, then reopen; the same with three stores failing at the third / at the second;
	// with a Get or an eviction in between; with the undone store's commit coming from a new repository object.
	type dspec struct {
		names []string
		evs   func(st []*hStore) []hEvent
	}
	up := func(ts int64, specs ...hSpec) hEvent { return hEvent{kind: "upd", ts: ts, specs: specs} }
	directed := []dspec{
		{[]string{"alpha", "beta"}, func(st []*hStore) []hEvent {
			return []hEvent{up(1000, hSpec{st[0], 3, ""}, hSpec{st[1], 5, "u"}), up(2000, hSpec{st[0], 2, ""})}
		}},
		{[]string{"alpha", "beta"}, func(st []*hStore) []hEvent {
			return []hEvent{up(1000, hSpec{st[1], 5, "u"}, hSpec{st[0], 3, ""}), {kind: "get", st: st[0]}, {kind: "newrepo"}, up(2000, hSpec{st[0], 2, ""}), up(3000, hSpec{st[0], 1, ""}, hSpec{st[1], 1, ""})}
		}},
		{[]string{"a", "b", "c"}, func(st []*hStore) []hEvent {
			return []hEvent{up(1000, hSpec{st[0], 1, ""}, hSpec{st[1], 2, ""}, hSpec{st[2], 4, "u"}), up(2000, hSpec{st[1], 7, ""}), {kind: "cold"}, up(3000, hSpec{st[0], -1, ""}, hSpec{st[2], 1, ""})}
		}},
		{[]string{"a", "b", "c"}, func(st []*hStore) []hEvent {
			return []hEvent{up(1000, hSpec{st[0], 1, ""}, hSpec{st[1], 2, "u"}, hSpec{st[2], 4, ""}), {kind: "evict", st: st[0]}, up(2000, hSpec{st[0], 7, ""}, hSpec{st[2], 1, ""})}
		}},
		{[]string{"a", "b"}, func(st []*hStore) []hEvent { // the failing store's entry evicted: GetWithTTL itself fails
			return []hEvent{up(1000, hSpec{st[0], 3, ""}, hSpec{st[1], 5, "ue"}), up(2000, hSpec{st[0], 2, ""}, hSpec{st[1], 2, ""})}
		}},
		{[]string{"a", "b"}, func(st []*hStore) []hEvent { // the undone store's entry evicted right before undo reads it
			return []hEvent{up(1000, hSpec{st[0], 3, "v"}, hSpec{st[1], 5, "u"}), up(2000, hSpec{st[0], 2, ""})}
		}},
		{[]string{"a", "b"}, func(st []*hStore) []hEvent { // full save on the undone store
			return []hEvent{up(1000, hSpec{st[0], 3, "s"}, hSpec{st[1], 5, "u"}), up(2000, hSpec{st[0], 2, ""}), up(3000, hSpec{st[0], 2, ""}, hSpec{st[1], 5, "u"}), up(4000, hSpec{st[0], 1, "s"})}
		}},
		{[]string{"count", "timestamp"}, func(st []*hStore) []hEvent {
			return []hEvent{up(1000, hSpec{st[0], 3, ""}, hSpec{st[1], 5, "u"}), up(2000, hSpec{st[0], 2, ""}, hSpec{st[1], 1, ""})}
		}},
	}
	for _, d := range directed {
		st := mkStores(p, s, d.names)
		if err := histCase(ctx, s, p.Fork(), o, d.names, d.evs(st), st, "directed"); err != nil {
			return err
		}
	}
	n := o.N(900, 20000)
	for i := 0; i < n; i++ {
		k := 1 + p.Intn(4)
		if p.Chance(3, 4) && k < 2 {
			k = 2
		}
		perm := permOf(p, len(histNames))[:k]
		names := make([]string, k)
		for j, x := range perm {
			names[j] = histNames[x]
		}
		st := mkStores(p, s, names)
		if err := histCase(ctx, s, p.Fork(), o, names, nil, st, "generated"); err != nil {
			return err
		}
	}
	return nil
}
