// C13 — committing changes never alters or corrupts a store's configuration.
//
// Real code driven here: encoding.Marshal/Unmarshal of sop.StoreInfo (the bytes of storeinfo.txt),
// fs.patchJSONNumericField (through the overlay accessor), and fs.StoreRepository Add/Update/Get on a temp
// directory with reopen (fresh repository objects and a cold L2 cache).
package main

import (
	"context"
	"encoding/json"
	"fmt"
	"os"
	"path/filepath"
	"reflect"
	"sort"
	"strings"
	"time"
	"unicode/utf8"

	"github.com/sharedcode/sop"
	"github.com/sharedcode/sop/cache"
	"github.com/sharedcode/sop/encoding"
	"github.com/sharedcode/sop/fs"

	"verifharness/hx"
)

func main() { hx.Main(drive, "Sop.FactsC13", nil, nil) }

// ---- line protocol encoding of a StoreInfo ----

func hs(s string) string {
	if s == "" {
		return "-"
	}
	return hx.Hexb([]byte(s))
}
func hi(s string) string { // item inside a list
	if s == "" {
		return "."
	}
	return hx.Hexb([]byte(s))
}
func b01(b bool) string {
	if b {
		return "1"
	}
	return "0"
}
func strList(l []string) string {
	if l == nil {
		return "~"
	}
	if len(l) == 0 {
		return "_"
	}
	q := make([]string, len(l))
	for i, s := range l {
		q[i] = hi(s)
	}
	return strings.Join(q, ",")
}

func siWords(si sop.StoreInfo) string {
	var w []string
	w = append(w, hs(si.Name), fmt.Sprint(si.SlotLength), b01(si.IsUnique), hs(si.Description), hs(si.RegistryTable), hs(si.BlobTable),
		hs(si.RootNodeID.String()), fmt.Sprint(si.Count), fmt.Sprint(si.Timestamp))
	cc := si.CacheConfig
	w = append(w, b01(si.IsValueDataInNodeSegment), b01(si.IsValueDataActivelyPersisted), b01(si.IsValueDataGloballyCached), b01(si.LeafLoadBalancing),
		fmt.Sprint(int64(cc.RegistryCacheDuration)), b01(cc.IsRegistryCacheTTL), fmt.Sprint(int64(cc.NodeCacheDuration)), b01(cc.IsNodeCacheTTL),
		fmt.Sprint(int64(cc.ValueDataCacheDuration)), b01(cc.IsValueDataCacheTTL), fmt.Sprint(int64(cc.StoreInfoCacheDuration)), b01(cc.IsStoreInfoCacheTTL),
		hs(si.MapKeyIndexSpecification), hs(si.CELexpression), b01(si.IsPrimitiveKey))
	if len(si.Relations) == 0 {
		w = append(w, "-")
	} else {
		q := make([]string, len(si.Relations))
		for i, r := range si.Relations {
			q[i] = strList(r.SourceFields) + "|" + hi(r.TargetStore) + "|" + strList(r.TargetFields)
		}
		w = append(w, strings.Join(q, ";"))
	}
	if len(si.Schema) == 0 {
		w = append(w, "-")
	} else {
		keys := make([]string, 0, len(si.Schema))
		for k := range si.Schema {
			keys = append(keys, k)
		}
		sort.Strings(keys)
		q := make([]string, len(keys))
		for i, k := range keys {
			q[i] = hi(k) + "=" + hi(si.Schema[k])
		}
		w = append(w, strings.Join(q, ","))
	}
	kf, vf := si.KeyFields, si.ValueFields
	if len(kf) == 0 {
		kf = nil
	}
	if len(vf) == 0 {
		vf = nil
	}
	w = append(w, strList(kf), strList(vf))
	if len(si.CustomData) == 0 {
		w = append(w, "-")
	} else {
		// a map[string]any: its JSON text is taken from the encoder (the model treats it as opaque text)
		b, _ := json.Marshal(si.CustomData)
		w = append(w, hx.Hexb(b))
	}
	w = append(w, hs(si.Version))
	return strings.Join(w, " ")
}

// ---- generators ----

var jsonKeys []string // json tags of sop.StoreInfo and StoreCacheConfig, in declaration order (read by reflection)

func init() {
	for _, t := range []reflect.Type{reflect.TypeOf(sop.StoreInfo{}), reflect.TypeOf(sop.StoreCacheConfig{}), reflect.TypeOf(sop.Relation{})} {
		for i := 0; i < t.NumField(); i++ {
			tag := strings.Split(t.Field(i).Tag.Get("json"), ",")[0]
			if tag != "" && tag != "-" {
				jsonKeys = append(jsonKeys, tag)
			}
		}
	}
}

var specials = []string{`"`, `\`, `\"`, `\\`, `\\"`, `","`, `":`, `,"`, `{"`, `}`, `{`, `,`, `:`, ` `, "\t", "\n", "\r", "\b", "\f", "\x00", "\x01", "\x1f", "\x7f",
	"<", ">", "&", "\u2028", "\u2029", "\ufffd", "é", "ß", "日本", "😀", " ", "/", `"`, `\n`, "'", "null", "true", "0", "-1", "12345678901234567890"}

func genKeyFragment(p *hx.Prng, s *hx.Session) string {
	k := jsonKeys[p.Intn(len(jsonKeys))]
	if p.Chance(2, 3) {
		k = []string{"count", "timestamp"}[p.Intn(2)]
	}
	forms := []string{"%s", `"%s"`, `"%s":`, `,"%s":`, `{"%s":`, `\"%s\"`, `\",\"%s\":5`, `,"%s":123,`, `my "%s`, `"%s":7}`, `x%s`, `%sx`, `"%s" : 1`, `,"%s":`, `"%s"`,
		`","%s":9,"x":"`, `\","%s":9`, `\\","%s":9`, `,"%s": 4 ,`, `'%s'`, `"%s`, `%s"`, `,"%s"`, `"%s":"`}
	i := p.Intn(len(forms))
	s.Hit(fmt.Sprintf("keyform_%02d", i))
	return fmt.Sprintf(forms[i], k)
}

// genString builds a valid-UTF-8 string out of key fragments, JSON-significant characters and random text.
func genString(p *hx.Prng, s *hx.Session, maxParts int) string {
	if p.Chance(1, 12) {
		return ""
	}
	if p.Chance(1, 15) { // the whole string is a metadata key
		s.Hit("string_equals_key")
		if p.Chance(2, 3) {
			return []string{"count", "timestamp"}[p.Intn(2)]
		}
		return jsonKeys[p.Intn(len(jsonKeys))]
	}
	var b strings.Builder
	n := 1 + p.Intn(maxParts)
	for i := 0; i < n; i++ {
		switch p.Intn(6) {
		case 0, 1:
			b.WriteString(genKeyFragment(p, s))
		case 2, 3:
			b.WriteString(specials[p.Intn(len(specials))])
		case 4:
			for j, m := 0, 1+p.Intn(6); j < m; j++ {
				b.WriteByte(byte(0x20 + p.Intn(0x5f)))
			}
		default:
			r := rune(p.Intn(0x3000))
			if p.Chance(1, 4) {
				r = rune(0x1F300 + p.Intn(0x300))
			}
			if p.Chance(1, 4) {
				r = rune(p.Intn(0x21))
			}
			if utf8.ValidRune(r) {
				b.WriteRune(r)
			}
		}
	}
	return b.String()
}

// a string usable as a directory name
func genName(p *hx.Prng, s *hx.Session) string {
	for {
		n := genString(p, s, 4)
		n = strings.NewReplacer("/", "_", "\x00", "_").Replace(n)
		if n == "" || n == "." || n == ".." || len(n) > 180 {
			continue
		}
		return n
	}
}

var edge64 = []int64{0, 1, -1, 9, 10, 99, 100, 12345, 1 << 31, 1<<63 - 1, -1 << 63, 1758400000000, -42}

func genInt(p *hx.Prng) int64 {
	if p.Chance(1, 2) {
		return edge64[p.Intn(len(edge64))]
	}
	if p.Chance(1, 2) {
		return int64(p.Intn(100000))
	}
	return int64(p.U64())
}

func genStrs(p *hx.Prng, s *hx.Session) []string {
	switch p.Intn(4) {
	case 0:
		return nil
	case 1:
		return []string{}
	}
	l := make([]string, 1+p.Intn(3))
	for i := range l {
		l[i] = genString(p, s, 2)
	}
	return l
}

func genDur(p *hx.Prng) time.Duration {
	switch p.Intn(4) {
	case 0:
		return 0
	case 1:
		return time.Duration(p.Intn(3600)) * time.Second
	case 2:
		return -1
	}
	return time.Duration(genInt(p))
}

func genStoreInfo(p *hx.Prng, s *hx.Session, forDisk bool) sop.StoreInfo {
	var si sop.StoreInfo
	if forDisk {
		si.Name = genName(p, s)
	} else {
		si.Name = genString(p, s, 4)
	}
	si.SlotLength = int(genInt(p) % 20001)
	si.IsUnique = p.Chance(1, 2)
	si.Description = genString(p, s, 6)
	switch p.Intn(3) {
	case 0:
		si.RegistryTable = sop.FormatRegistryTable(si.Name)
		si.BlobTable = si.Name + "_b"
	case 1:
		si.RegistryTable = si.Name
		si.BlobTable = "/tmp/blobs/" + si.Name
	default:
		si.RegistryTable = genString(p, s, 3)
		si.BlobTable = genString(p, s, 3)
	}
	if p.Chance(2, 3) {
		for i := range si.RootNodeID {
			si.RootNodeID[i] = byte(p.U64())
		}
	}
	si.Count = genInt(p)
	si.Timestamp = genInt(p)
	si.IsValueDataInNodeSegment = p.Chance(1, 2)
	si.IsValueDataActivelyPersisted = p.Chance(1, 2)
	si.IsValueDataGloballyCached = p.Chance(1, 2)
	si.LeafLoadBalancing = p.Chance(1, 2)
	si.CacheConfig = sop.StoreCacheConfig{RegistryCacheDuration: genDur(p), IsRegistryCacheTTL: p.Chance(1, 2), NodeCacheDuration: genDur(p), IsNodeCacheTTL: p.Chance(1, 2),
		ValueDataCacheDuration: genDur(p), IsValueDataCacheTTL: p.Chance(1, 2), StoreInfoCacheDuration: genDur(p), IsStoreInfoCacheTTL: p.Chance(1, 2)}
	if p.Chance(1, 2) {
		si.MapKeyIndexSpecification = genString(p, s, 3)
	}
	if p.Chance(1, 3) {
		si.CELexpression = genString(p, s, 3)
	}
	si.IsPrimitiveKey = p.Chance(1, 2)
	if p.Chance(1, 3) {
		for i, n := 0, 1+p.Intn(2); i < n; i++ {
			si.Relations = append(si.Relations, sop.Relation{SourceFields: genStrs(p, s), TargetStore: genString(p, s, 2), TargetFields: genStrs(p, s)})
		}
	}
	if p.Chance(1, 3) {
		si.Schema = map[string]string{}
		for i, n := 0, 1+p.Intn(3); i < n; i++ {
			si.Schema[genString(p, s, 2)] = genString(p, s, 2)
		}
	}
	if p.Chance(1, 3) {
		si.KeyFields = genStrs(p, s)
	}
	if p.Chance(1, 3) {
		si.ValueFields = genStrs(p, s)
	}
	if p.Chance(1, 3) {
		si.CustomData = map[string]any{}
		for i, n := 0, 1+p.Intn(3); i < n; i++ {
			var v any
			switch p.Intn(5) {
			case 0:
				v = float64(p.Intn(1000))
			case 1:
				v = genString(p, s, 2)
			case 2:
				v = map[string]any{"count": float64(p.Intn(9)), "timestamp": genString(p, s, 1)}
			case 3:
				v = []any{float64(1), "count", nil, true}
			default:
				v = nil
			}
			k := genString(p, s, 2)
			if p.Chance(1, 3) {
				k = []string{"count", "timestamp", "name"}[p.Intn(3)]
			}
			si.CustomData[k] = v
		}
	}
	if p.Chance(1, 2) {
		si.Version = []string{"2.3.3", "1.0", genString(p, s, 2)}[p.Intn(3)]
	}
	return si
}

// directed corpus: the inputs DESIGN.md records as failing on the unrepaired tree, and their relatives
func corpus() []sop.StoreInfo {
	mk := func(name, desc string) sop.StoreInfo {
		si := *sop.NewStoreInfo(sop.StoreOptions{Name: name, SlotLength: 8, Description: desc})
		return si
	}
	out := []sop.StoreInfo{
		mk("s1", `my "count`),
		mk("count", ""),
		mk("timestamp", ""),
		mk("s2", "count"),
		mk("s3", "timestamp"),
		mk("s4", `","count":99,"x":"`),
		mk("s5", `\","timestamp":99`),
		mk("s6", `he said "timestamp": 5, then left`),
		mk(`"count"`, `"timestamp"`),
		mk("plain", "an ordinary description"),
	}
	x := mk("s7", "")
	x.RegistryTable = "count"
	x.BlobTable = "timestamp"
	out = append(out, x)
	y := mk("s8", "")
	y.CustomData = map[string]any{"count": float64(3), "timestamp": "x"}
	y.KeyFields = []string{"a", "count", "timestamp"}
	out = append(out, y)
	return out
}

// ---- oracles ----

func sameConfig(got, want sop.StoreInfo) bool {
	a, _ := json.Marshal(got)
	b, _ := json.Marshal(want)
	return string(a) == string(b)
}

// classify says how `got` (what a reader sees) deviates from `want`.
func classify(got *sop.StoreInfo, want sop.StoreInfo) (sig, what string) {
	if got == nil {
		return "C13/config-unreadable-after-commit", "the store metadata no longer reads back after a count/timestamp update"
	}
	w2 := want
	w2.Count, w2.Timestamp = got.Count, got.Timestamp
	if !sameConfig(*got, w2) {
		return "C13/config-altered-after-commit", "a count/timestamp update changed a configuration field of the store"
	}
	return "C13/count-not-updated", "configuration intact but count or timestamp is not the committed one"
}

func patchCase(s *hx.Session, si sop.StoreInfo, c, ts int64) error {
	ba, err := encoding.Marshal(si)
	if err != nil {
		return err
	}
	s.Op("enc "+siWords(si), hx.Hexb(ba))
	out := func(b []byte, err error) string {
		if err != nil {
			return "err"
		}
		return hx.Hexb(b)
	}
	p1, e1 := fs.VerifPatchJSONNumericField(ba, "count", c)
	s.Op(fmt.Sprintf("patch %s %s %d", hx.Hexb(ba), hx.Hexb([]byte("count")), c), out(p1, e1))
	var p2 []byte
	var e2 error = e1
	if e1 == nil {
		p2, e2 = fs.VerifPatchJSONNumericField(p1, "timestamp", ts)
		s.Op(fmt.Sprintf("patch %s %s %d", hx.Hexb(p1), hx.Hexb([]byte("timestamp")), ts), out(p2, e2))
	}
	// direct oracle: the patched bytes unmarshal to the original configuration with the new count and timestamp
	want := si
	want.Count, want.Timestamp = c, ts
	want.CountDelta, want.NeedsMetaDataSave = 0, false
	if e2 != nil {
		s.Fail("C13/fast-path-refused", "the numeric patch refused a metadata file the encoder wrote", fmt.Sprint(e2))
		return nil
	}
	var got sop.StoreInfo
	if err := encoding.Unmarshal(p2, &got); err != nil {
		sig, what := classify(nil, want)
		s.Fail(sig, what, err.Error()+" :: "+string(p2))
	} else if !sameConfig(got, want) {
		sig, what := classify(&got, want)
		s.Fail(sig, what, string(p2))
	}
	return nil
}

type repo struct {
	sr  *fs.StoreRepository
	dir string
}

func openRepo(ctx context.Context, dir string) (*fs.StoreRepository, error) {
	l2 := cache.NewL2InMemoryCache()
	rt, err := fs.NewReplicationTracker(ctx, []string{dir}, false, l2)
	if err != nil {
		return nil, err
	}
	return fs.NewStoreRepository(ctx, rt, nil, l2, 0)
}

// e2eCase: Add, a history of Updates (fast path / forced full save), reopen with a fresh repository and cold
// cache at random points and at the end, Get.
func e2eCase(ctx context.Context, s *hx.Session, p *hx.Prng, si sop.StoreInfo, kind string) error {
	dir, err := os.MkdirTemp(hx.WorkRoot(), "c13-")
	if err != nil {
		return err
	}
	defer os.RemoveAll(dir)
	sr, err := openRepo(ctx, dir)
	if err != nil {
		return err
	}
	si.CountDelta, si.NeedsMetaDataSave = 0, false
	s.BeginCase("e2e " + siWords(si))
	s.Hit("e2e_" + kind)
	s.Nontrivial()
	file := filepath.Join(dir, si.Name, fs.StoreInfoFilename)
	readFile := func() string {
		b, err := os.ReadFile(file)
		if err != nil {
			return "err:read"
		}
		return hx.Hexb(b)
	}
	if err := sr.Add(ctx, si); err != nil {
		s.Op("add", "err:add")
		s.Fail("C13/add-failed", "StoreRepository.Add failed", err.Error())
		return nil
	}
	s.Op("add", readFile())
	count, ts := si.Count, si.Timestamp
	n := 1 + p.Intn(5)
	for i := 0; i < n; i++ {
		if p.Chance(1, 4) {
			if sr, err = openRepo(ctx, dir); err != nil {
				return err
			}
			s.Hit("e2e_reopen_midway")
		}
		// what the transaction passes (common.getCommitStoresInfo): a copy of the store's info with the delta and the commit time
		caller := si
		delta := int64(p.Intn(2001) - 1000)
		if p.Chance(1, 6) {
			delta = genInt(p) / 4
		}
		caller.Count = count
		caller.CountDelta = delta
		ts = genInt(p)
		if p.Chance(1, 2) {
			ts = 1758400000000 + int64(p.Intn(1000000))
		}
		caller.Timestamp = ts
		op := "upd"
		if p.Chance(1, 6) {
			caller.NeedsMetaDataSave = true
			op = "updfull"
		}
		count += delta
		s.Hit("e2e_" + op)
		if _, err := sr.Update(ctx, []sop.StoreInfo{caller}); err != nil {
			s.Op(fmt.Sprintf("%s %d %d", op, count, ts), "err:update")
			s.Fail("C13/update-failed", "StoreRepository.Update failed on a store it had written itself", err.Error())
			return nil
		}
		s.Op(fmt.Sprintf("%s %d %d", op, count, ts), readFile())
	}
	// reopen: fresh repository objects, cold cache
	sr2, err := openRepo(ctx, dir)
	if err != nil {
		return err
	}
	want := si
	want.Count, want.Timestamp = count, ts
	got, err := sr2.Get(ctx, si.Name)
	if err != nil || len(got) != 1 {
		s.Op("get", "err")
		sig, what := classify(nil, want)
		s.Fail(sig, what, fmt.Sprintf("Get after reopen: err=%v n=%d file=%s", err, len(got), readFileText(file)))
		return nil
	}
	ba, _ := encoding.Marshal(got[0])
	s.Op("get", hx.Hexb(ba))
	if !sameConfig(got[0], want) {
		sig, what := classify(&got[0], want)
		s.Fail(sig, what, fmt.Sprintf("want count=%d ts=%d; file=%s", count, ts, readFileText(file)))
	}
	return nil
}

func readFileText(f string) string {
	b, _ := os.ReadFile(f)
	if len(b) > 600 {
		b = b[:600]
	}
	return string(b)
}

// rawPatchCase feeds the patch function texts that are not metadata files (error branches, whitespace, nesting).
func rawPatchCase(s *hx.Session, p *hx.Prng) {
	fields := []string{"count", "timestamp", "x", "slot_length"}
	f := fields[p.Intn(len(fields))]
	pieces := []string{`{`, `}`, `,`, `:`, `"`, ` `, "\t", "\n", `"` + f + `"`, `,"` + f + `":`, `{"` + f + `":`, `"` + f + `":`, `,"` + f + `" :`, `12`, `-3`, `"a"`, `"name":"v"`,
		`,"` + f + `":}`, `,"` + f + `":  77 ,`, `,"` + f + `":5}`, `{"o":{"` + f + `":1}}`, `,"` + f + `":`, `\"`, `,"` + f + `x":1`, `é`, `[1,2]`}
	var b strings.Builder
	for i, n := 0, 1+p.Intn(7); i < n; i++ {
		b.WriteString(pieces[p.Intn(len(pieces))])
	}
	data := b.String()
	v := genInt(p)
	out, err := fs.VerifPatchJSONNumericField([]byte(data), f, v)
	res := "err"
	if err == nil {
		res = hx.Hexb(out)
		if res == "" {
			res = "-"
		}
		s.Hit("raw_patched")
	} else {
		s.Hit("raw_refused")
	}
	s.BeginCase("raw")
	s.Op(fmt.Sprintf("patch %s %s %d", hs(data), hx.Hexb([]byte(f)), v), res)
	if strings.Contains(data, `,"`+f+`":`) || strings.Contains(data, `{"`+f+`":`) {
		s.Nontrivial()
	}
}

func drive(o hx.RunOpts) error {
	s := hx.NewSession(o, "cases: (0) directed corpus of hostile names/descriptions end to end; (a) generated sop.StoreInfo values (every metadata key bare, quoted, escaped, as key token, "+
		"as prefix/suffix, in every string field and in custom data; control characters, backslashes, quotes, HTML characters, U+2028/9, non-ASCII) marshaled by encoding.Marshal and compared byte for byte with the model's encodeSI, "+
		"then patched (count, timestamp) by fs.patchJSONNumericField and by the model; (b) the patch function on texts that are not metadata files; (c) fs.StoreRepository Add / Update history / Get after reopen "+
		"(fresh repository objects, cold cache) on a temp directory, file bytes compared after every call. distinct = canonical op-line hash; non-trivial = (a) a string field contains a quote, backslash or a metadata key, "+
		"(b) the text contains the key token, (c) every case; "+
		"(d) HISTORIES in one process: 1..4 stores on one folder, ONE shared L2 cache, a real fs.StoreRepository (often a fresh object per commit); events = Update on one or more stores (deltas -6..14, NeedsMetaDataSave sometimes) of which about a third of the multi-store ones have one store's storeinfo.txt really broken during the call "+
		"(a directory in its place, or the immutable flag where supported), so the Update fails at the 1st/2nd/3rd/4th store in name order and its undo reverts the earlier ones; cache-first Gets; evictions of the cache entry between calls / right before the forward pass / right before the undo pass reads it; cold reopen midway and at the end. "+
		"Diffed with the model (Sop.Model.StoreInfoHistory over the Update model Sop.Model.StoreInfoCache) after every Update: result, every store's file AND cache entry (count, timestamp, configuration id); every Get; every cold read. "+
		"Direct oracle: what a cold process reads = initial count + deltas of the Updates that returned nil, timestamp of the last of them, own configuration; a failed Update leaves every file unchanged; a cache-first Get reports the committed count. Non-trivial (d) = the history has a failed Update and a successful one. A directed corpus of 8 histories runs first. "+
		"(e) CONFIGURATION ACROSS PROCESSES: 2..4 stores whose seven omitempty fields (cel_expression, relations, schema, key_fields, value_fields, custom_data, version) are each set on some stores and absent on others (values tagged with the owner), created by one process; "+
		"then process restarts (fresh L2 cache and repository objects), multi-name Get / GetWithTTL over random subsets in random order (directed: one fully configured store + bare ones, EVERY order of 2 and 3 names, then the first commit of each store), commits by a caller that opened the store with a cache-first single-name Get (patch or full save), evictions, final cold reopen. "+
		"Diffed with Sop.Model.StoreInfoGet: every record every Get returns field by field (whose mandatory part, whose value in each optional field), the file after every commit, all files at the end; the in-memory cache's own evictions are fed to the model (gsync). Direct oracle: every returned record and every file carry the configuration the store was created with (signature C13/config-inherited-from-other-store when an optional field carries another store's value).")
	p := hx.NewPrng(o.Seed)
	ctx := context.Background()

	// (0) directed corpus first
	for _, si := range corpus() {
		if err := e2eCase(ctx, s, p.Fork(), si, "corpus"); err != nil {
			return err
		}
	}
	for _, si := range corpus() {
		s.BeginCase("enc")
		s.Nontrivial()
		s.Hit("corpus_patch")
		if err := patchCase(s, si, 5, 7); err != nil {
			return err
		}
	}

	// (a) generated values: encoder bytes and the patch
	n := o.N(2500, 120000)
	for i := 0; i < n; i++ {
		si := genStoreInfo(p, s, false)
		s.BeginCase("enc")
		s.Hit("enc")
		all := si.Name + si.Description + si.RegistryTable + si.BlobTable
		if strings.ContainsAny(all, "\"\\") || strings.Contains(all, "count") || strings.Contains(all, "timestamp") {
			s.Nontrivial()
		}
		if strings.Contains(all, `"count"`) || strings.Contains(all, `"timestamp"`) {
			s.Hit("field_has_quoted_key")
		}
		if strings.Contains(all, `,"count":`) || strings.Contains(all, `,"timestamp":`) {
			s.Hit("field_has_key_token")
		}
		if si.Name == "count" || si.Name == "timestamp" || si.Description == "count" || si.Description == "timestamp" {
			s.Hit("field_equals_key")
		}
		if err := patchCase(s, si, genInt(p), genInt(p)); err != nil {
			return err
		}
	}
	// escaping alone, one string per case (wider alphabet sweep: every code point below 0x300 once, then random)
	n = o.N(1500, 80000)
	for i := 0; i < n; i++ {
		var str string
		if i < 0x300 {
			str = "a" + string(rune(i)) + "b"
		} else {
			str = genString(p, s, 8)
		}
		b, _ := encoding.Marshal(str)
		s.BeginCase("esc")
		s.Op("esc "+hs(str), hx.Hexb(b))
		s.Hit("esc")
		if strings.ContainsAny(str, "\"\\<>&") || strings.ContainsRune(str, 0x2028) {
			s.Nontrivial()
		}
	}

	// (b) raw patch inputs
	n = o.N(1500, 60000)
	for i := 0; i < n; i++ {
		rawPatchCase(s, p)
	}

	// (c) end to end
	n = o.N(250, 6000)
	for i := 0; i < n; i++ {
		si := genStoreInfo(p, s, true)
		// what Add persists for a new store
		si.CountDelta, si.NeedsMetaDataSave = 0, false
		if err := e2eCase(ctx, s, p.Fork(), si, "generated"); err != nil {
			return err
		}
	}
	// (d) histories of commits in one process (shared L2 cache): multi-store Updates failing midway and undone, then more commits, cold reopen
	if err := histCases(ctx, s, p, o); err != nil {
		return err
	}
	// (e) configuration across processes: stores with different optional configuration, multi-name Gets in every order, commits, reopen
	if err := cfgCases(ctx, s, p, o); err != nil {
		return err
	}
	s.Rep.CoverageGap = append(s.Rep.CoverageGap, "strings with invalid UTF-8 (the encoder replaces bad bytes by U+FFFD at Add time; not a commit effect) are not generated",
		"replication (passive folder) is not driven here; in the histories (d) the undo pass itself is never made to fail (a failing undo write is C20's subject) and failures are of the before-effect kind (a really unreadable / unwritable file)")
	return s.Finish()
}
