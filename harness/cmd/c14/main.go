// Command c14 drives property C14 ("transaction modes and lifecycle are enforced"): every call sequence over a
// small alphabet is run on a REAL common.Transaction (real fs backends on a scratch folder, wrapped in counting
// decorators) behind the real sop.SinglePhaseTransaction wrapper and the real btree.btreeWithTransaction wrapper.
package main

import (
	"bufio"
	"context"
	"encoding/json"
	"fmt"
	"io"
	"log"
	"os"
	"os/exec"
	"path/filepath"
	"runtime"
	"runtime/debug"
	"strconv"
	"strings"
	"sync"
	"sync/atomic"
	"time"

	"github.com/sharedcode/sop"
	"github.com/sharedcode/sop/btree"
	"github.com/sharedcode/sop/cache"
	"github.com/sharedcode/sop/common"
	"github.com/sharedcode/sop/fs"

	"verifharness/hx"
)

// ---- counting decorators -------------------------------------------------------------------------------
//
// A "data write" is a call of one of the ten mutating methods below whose payload names at least one store /
// handle / blob (the code calls e.g. Registry.Remove with an empty payload on every writer commit; that touches
// nothing and is not counted). Not data writes: every read, Replicate (no passive side configured), everything
// on the TransactionLog / TransactionPriorityLog, and all L2-cache traffic (locks, cached store info).

type rec struct {
	mu      sync.Mutex
	w       []string // write kinds since the last take()
	touched bool     // any call at all (reads included) reached a data backend

	pl    *plan    // the failure armed for the call in progress (nil: none)
	n     int      // calls of pl.name seen during the call in progress
	fired []string // where (stack class) the armed failure took effect during the call in progress
}

func (r *rec) hit(k string) {
	r.mu.Lock()
	r.w = append(r.w, k)
	r.touched = true
	r.mu.Unlock()
}
func (r *rec) touch() { r.mu.Lock(); r.touched = true; r.mu.Unlock() }
func (r *rec) take() []string {
	r.mu.Lock()
	defer r.mu.Unlock()
	x := r.w
	r.w = nil
	return x
}

// ---- injected backend failures ---------------------------------------------------------------------------
//
// A plan fails ONE backend call under ONE call of the sequence: the k-th call of the named backend method made while
// that call runs, either before it is performed (`name#k`: no effect, error) or after (`+name#k`: performed, then
// error). Where the failure took effect is read off the call stack (which piece of internal work was running), not
// off what the transaction answers, so that the model's input is independent of the implementation's output.

type plan struct {
	name  string
	k     int
	after bool
}

var errInjected = fmt.Errorf("verif: injected backend failure")

func (r *rec) arm(p *plan) { r.mu.Lock(); r.pl, r.n, r.fired = p, 0, nil; r.mu.Unlock() }
func (r *rec) disarm() []string {
	r.mu.Lock()
	defer r.mu.Unlock()
	f := r.fired
	r.pl, r.fired = nil, nil
	return f
}

// inj is called by every decorated backend method. It says whether this very call is to fail before / after it is performed.
func (r *rec) inj(name string) (before, after bool) {
	r.mu.Lock()
	defer r.mu.Unlock()
	if r.pl == nil {
		return
	}
	outage := strings.HasSuffix(r.pl.name, ".*") // `blob.*#k`: the backend is down from its k-th call on (every later call to it fails too)
	if outage {
		if !strings.HasPrefix(name, r.pl.name[:len(r.pl.name)-1]) {
			return
		}
	} else if r.pl.name != name {
		return
	}
	r.n++
	if r.n < r.pl.k || (!outage && r.n != r.pl.k) {
		return
	}
	r.fired = append(r.fired, classify()+"@"+name)
	if os.Getenv("VERIF_C14_STACK") != "" {
		debug.PrintStack()
	}
	return !r.pl.after, r.pl.after
}

func hasFn(name, fn string) bool {
	i := strings.Index(name, fn)
	if i < 0 {
		return false
	}
	rest := name[i+len(fn):]
	return rest == "" || rest[0] == '.' // the function itself or a closure inside it
}

// classify names the piece of internal work on whose behalf the failing backend call was made.
func classify() string {
	pcs := make([]uintptr, 96)
	n := runtime.Callers(3, pcs)
	fr := runtime.CallersFrames(pcs[:n])
	var p1, p2, cleanup, undo, closeFn, rollbackFn, phase2Fn, open, deleg bool
	for {
		f, more := fr.Next()
		fn := f.Function
		switch {
		case hasFn(fn, "common.(*Transaction).phase1Commit"), hasFn(fn, "common.(*Transaction).commitForReaderTransaction"):
			p1 = true
		case strings.HasSuffix(fn, "common.(*Transaction).phase2Commit"):
			p2 = true
		case hasFn(fn, "common.(*Transaction).phase2Commit"): // a closure: the fire-and-forget tasks of phase 2 (errors logged and dropped)
			cleanup = true
		case hasFn(fn, "common.(*Transaction).cleanup"):
			cleanup = true
		case hasFn(fn, "common.(*Transaction).rollback"):
			undo = true
		case hasFn(fn, "common.(*Transaction).Close"):
			closeFn = true
		case hasFn(fn, "common.(*Transaction).Rollback"):
			rollbackFn = true
		case hasFn(fn, "common.(*Transaction).Phase2Commit"):
			phase2Fn = true
		case strings.Contains(fn, "sop/common.NewBtree["), strings.Contains(fn, "sop/common.OpenBtree["):
			open = true
		case strings.Contains(fn, "sop/btree.(*btreeWithTransaction["):
			deleg = true
		}
		if !more {
			break
		}
	}
	switch {
	case p1: // includes the partial rollback inside the commit loop: its error is phase1Commit's error
		return "p1"
	case cleanup: // after the registry flip: errors are logged, not returned
		return "quiet"
	case p2:
		return "p2"
	case undo:
		return "undo"
	case closeFn && (rollbackFn || phase2Fn): // `t.Close()` / `defer t.Close()`: result dropped
		return "quiet"
	case closeFn:
		return "close"
	case open:
		return "open"
	case deleg:
		return "deleg"
	}
	return "unknown"
}

// pass runs one decorated call with the armed failure applied.
func pass(r *rec, name string, f func() error) error {
	b, a := r.inj(name)
	if b {
		return errInjected
	}
	err := f()
	if a && err == nil {
		return errInjected
	}
	return err
}

type srDec struct {
	sop.StoreRepository
	r *rec
}

func (d srDec) Get(ctx context.Context, n ...string) ([]sop.StoreInfo, error) {
	d.r.touch()
	var out []sop.StoreInfo
	err := pass(d.r, "sr.get", func() (e error) { out, e = d.StoreRepository.Get(ctx, n...); return })
	return out, err
}
func (d srDec) GetWithTTL(ctx context.Context, a bool, t time.Duration, n ...string) ([]sop.StoreInfo, error) {
	d.r.touch()
	var out []sop.StoreInfo
	err := pass(d.r, "sr.get", func() (e error) { out, e = d.StoreRepository.GetWithTTL(ctx, a, t, n...); return })
	return out, err
}
func (d srDec) GetAll(ctx context.Context) ([]string, error) {
	d.r.touch()
	return d.StoreRepository.GetAll(ctx)
}
func (d srDec) Add(ctx context.Context, s ...sop.StoreInfo) error {
	if len(s) > 0 {
		d.r.hit("sr.add")
	}
	return pass(d.r, "sr.add", func() error { return d.StoreRepository.Add(ctx, s...) })
}
func (d srDec) Update(ctx context.Context, s []sop.StoreInfo) ([]sop.StoreInfo, error) {
	if len(s) > 0 {
		d.r.hit("sr.upd")
	}
	var out []sop.StoreInfo
	err := pass(d.r, "sr.upd", func() (e error) { out, e = d.StoreRepository.Update(ctx, s); return })
	return out, err
}
func (d srDec) Remove(ctx context.Context, n ...string) error {
	if len(n) > 0 {
		d.r.hit("sr.rem")
	}
	return pass(d.r, "sr.rem", func() error { return d.StoreRepository.Remove(ctx, n...) })
}

func nH(p []sop.RegistryPayload[sop.Handle]) (n int) {
	for _, x := range p {
		n += len(x.IDs)
	}
	return
}
func nU(p []sop.RegistryPayload[sop.UUID]) (n int) {
	for _, x := range p {
		n += len(x.IDs)
	}
	return
}

type regDec struct {
	sop.Registry
	r *rec
}

func (d regDec) Get(ctx context.Context, p []sop.RegistryPayload[sop.UUID]) ([]sop.RegistryPayload[sop.Handle], error) {
	d.r.touch()
	var out []sop.RegistryPayload[sop.Handle]
	err := pass(d.r, "reg.get", func() (e error) { out, e = d.Registry.Get(ctx, p); return })
	return out, err
}
func (d regDec) Add(ctx context.Context, p []sop.RegistryPayload[sop.Handle]) error {
	if nH(p) > 0 {
		d.r.hit("reg.add")
	}
	return pass(d.r, "reg.add", func() error { return d.Registry.Add(ctx, p) })
}
func (d regDec) Update(ctx context.Context, p []sop.RegistryPayload[sop.Handle]) error {
	if nH(p) > 0 {
		d.r.hit("reg.upd")
	}
	return pass(d.r, "reg.upd", func() error { return d.Registry.Update(ctx, p) })
}
func (d regDec) UpdateNoLocks(ctx context.Context, a bool, p []sop.RegistryPayload[sop.Handle]) error {
	if nH(p) > 0 {
		d.r.hit("reg.updnl")
	}
	return pass(d.r, "reg.updnl", func() error { return d.Registry.UpdateNoLocks(ctx, a, p) })
}
func (d regDec) Remove(ctx context.Context, p []sop.RegistryPayload[sop.UUID]) error {
	if nU(p) > 0 {
		d.r.hit("reg.rem")
	}
	return pass(d.r, "reg.rem", func() error { return d.Registry.Remove(ctx, p) })
}
func (d regDec) Close() error {
	return pass(d.r, "reg.close", func() error {
		if c, ok := d.Registry.(io.Closer); ok {
			return c.Close()
		}
		return nil
	})
}

type blobDec struct {
	sop.BlobStore
	r *rec
}

func nKV(p []sop.BlobsPayload[sop.KeyValuePair[sop.UUID, []byte]]) (n int) {
	for _, x := range p {
		n += len(x.Blobs)
	}
	return
}
func (d blobDec) GetOne(ctx context.Context, t string, id sop.UUID) ([]byte, error) {
	d.r.touch()
	var out []byte
	err := pass(d.r, "blob.get", func() (e error) { out, e = d.BlobStore.GetOne(ctx, t, id); return })
	return out, err
}
func (d blobDec) Add(ctx context.Context, p []sop.BlobsPayload[sop.KeyValuePair[sop.UUID, []byte]]) error {
	if nKV(p) > 0 {
		d.r.hit("blob.add")
	}
	return pass(d.r, "blob.add", func() error { return d.BlobStore.Add(ctx, p) })
}
func (d blobDec) Update(ctx context.Context, p []sop.BlobsPayload[sop.KeyValuePair[sop.UUID, []byte]]) error {
	if nKV(p) > 0 {
		d.r.hit("blob.upd")
	}
	return pass(d.r, "blob.upd", func() error { return d.BlobStore.Update(ctx, p) })
}
func (d blobDec) Remove(ctx context.Context, p []sop.BlobsPayload[sop.UUID]) error {
	n := 0
	for _, x := range p {
		n += len(x.Blobs)
	}
	if n > 0 {
		d.r.hit("blob.rem")
	}
	return pass(d.r, "blob.rem", func() error { return d.BlobStore.Remove(ctx, p) })
}

// transaction log / priority log: not data backends (never counted as writes), decorated for failures only
type tlDec struct {
	sop.TransactionLog
	pl sop.TransactionPriorityLog
	r  *rec
}

func (d tlDec) PriorityLog() sop.TransactionPriorityLog { return d.pl }
func (d tlDec) Add(ctx context.Context, tid sop.UUID, fn int, payload []byte) error {
	return pass(d.r, "tlog.add", func() error { return d.TransactionLog.Add(ctx, tid, fn, payload) })
}
func (d tlDec) Remove(ctx context.Context, tid sop.UUID) error {
	return pass(d.r, "tlog.rem", func() error { return d.TransactionLog.Remove(ctx, tid) })
}

type plDec struct {
	sop.TransactionPriorityLog
	r *rec
}

func (d plDec) Add(ctx context.Context, tid sop.UUID, payload []byte) error {
	return pass(d.r, "plog.add", func() error { return d.TransactionPriorityLog.Add(ctx, tid, payload) })
}
func (d plDec) Remove(ctx context.Context, tid sop.UUID) error {
	return pass(d.r, "plog.rem", func() error { return d.TransactionPriorityLog.Remove(ctx, tid) })
}

// ---- a real transaction on a scratch folder ---------------------------------------------------------------

// one process-wide L2 cache, as in a real single-process deployment (the L1 cache is a process-wide singleton
// bound to the first L2 it sees). Cases are isolated by a folder each whose name is never reused within the process (freshDir): the caches key store infos by folder path.
var l2 = cache.NewL2InMemoryCache()

const storeName = "s14"

type txn struct {
	tp *common.Transaction
	t  sop.Transaction
	r  *rec
	b3 btree.BtreeInterface[int, string]
}

// newTxn mirrors infs.NewTwoPhaseCommitTransaction (no replication) with decorators around the three data backends
// (counting + failures) and around the transaction log / priority log (failures only).
func newTxn(ctx context.Context, dir string, mode sop.TransactionMode) (*txn, error) {
	return newTxnOn(ctx, dir, mode, l2)
}

func newTxnOn(ctx context.Context, dir string, mode sop.TransactionMode, l2 sop.L2Cache) (*txn, error) {
	rt, err := fs.NewReplicationTracker(ctx, []string{dir}, false, l2)
	if err != nil {
		return nil, err
	}
	sr, err := fs.NewStoreRepository(ctx, rt, fs.NewManageStoreFolder(fs.NewFileIO()), l2, fs.MinimumModValue)
	if err != nil {
		return nil, err
	}
	r := &rec{}
	tl := fs.NewTransactionLog(l2, rt)
	reg := fs.NewRegistry(mode == sop.ForWriting, fs.MinimumModValue, rt, l2)
	tld := tlDec{TransactionLog: tl, pl: plDec{tl.PriorityLog(), r}, r: r}
	tp, err := common.NewTwoPhaseCommitTransaction(mode, -1, blobDec{fs.NewBlobStore(dir, nil, nil), r}, srDec{sr, r}, regDec{reg, r}, l2, tld)
	if err != nil {
		return nil, err
	}
	rt.SetTransactionID(tp.GetID())
	t, err := sop.NewTransaction(mode, tp)
	if err != nil {
		return nil, err
	}
	return &txn{tp: tp, t: t, r: r}, nil
}

func storeOptions(dir string) sop.StoreOptions {
	return sop.StoreOptions{Name: storeName, SlotLength: 8, IsUnique: true, IsValueDataInNodeSegment: true,
		DisableRegistryStoreFormatting: true, DisableBlobStoreFormatting: true, BlobStoreBaseFolderPath: dir}
}

func errClass(err error) string {
	if err == nil {
		return "ok"
	}
	m := err.Error()
	switch {
	case strings.Contains(m, "rollback failed"):
		return "err:rollbackfailed"
	case strings.Contains(m, "has not started"), strings.Contains(m, "has not begun"), strings.Contains(m, "call Begin to start"):
		return "err:notbegun"
	case strings.Contains(m, "is ongoing"):
		return "err:ongoing"
	case strings.Contains(m, "transaction is done"):
		return "err:done"
	case strings.Contains(m, "already committed"):
		return "err:committed"
	case strings.Contains(m, "not for writing"):
		return "err:readonly"
	case strings.Contains(m, "does not exist"):
		return "err:nostore"
	case strings.Contains(m, "phase 1 commit has not been invoke"):
		return "err:nophase1"
	}
	return "err:other"
}

func boolRes(b bool, err error) string {
	if err != nil {
		return errClass(err)
	}
	if b {
		return "ok true"
	}
	return "ok false"
}

var alphabet = []string{"begin", "phase1", "phase2", "commit", "rollback", "close", "newbtree", "openbtree", "add", "find", "update", "remove", "get"}

// do runs one op on the real objects and returns the result class.
func (x *txn) do(ctx context.Context, dir, op string) (res string, detail string) {
	// a panic on the calling goroutine is an outcome of the call (the harness plays an application that recovers)
	defer func() {
		if p := recover(); p != nil {
			res, detail = "panic", fmt.Sprint(p)+" @ "+panicSite()
		}
	}()
	var err error
	switch op {
	case "begin":
		err = x.t.Begin(ctx)
	case "phase1":
		err = x.tp.Phase1Commit(ctx)
	case "phase2":
		err = x.tp.Phase2Commit(ctx)
	case "commit":
		err = x.t.Commit(ctx)
	case "rollback":
		err = x.t.Rollback(ctx)
	case "close":
		err = x.t.Close()
	case "newbtree":
		var b btree.BtreeInterface[int, string]
		b, err = common.NewBtree[int, string](ctx, storeOptions(dir), x.t, nil)
		if err == nil {
			x.b3 = b
		}
	case "openbtree":
		var b btree.BtreeInterface[int, string]
		b, err = common.OpenBtree[int, string](ctx, storeName, x.t, nil)
		if err == nil {
			x.b3 = b
		}
	case "add", "find", "update", "remove", "get":
		if x.b3 == nil {
			return "nohandle", ""
		}
		var ok bool
		switch op {
		case "add":
			ok, err = x.b3.Add(ctx, 1, "v")
		case "find":
			ok, err = x.b3.Find(ctx, 1, false)
		case "update":
			ok, err = x.b3.Update(ctx, 1, "w")
		case "remove":
			ok, err = x.b3.Remove(ctx, 1)
		case "get":
			ok, err = x.b3.Find(ctx, 1, false)
			if err == nil && ok {
				_, err = x.b3.GetCurrentValue(ctx)
			}
		}
		if err != nil {
			return errClass(err), err.Error()
		}
		return boolRes(ok, nil), ""
	default:
		return "bad-op", ""
	}
	if err != nil {
		return errClass(err), err.Error()
	}
	return "ok", ""
}

// panicSite names the innermost repository function on the stack of a recovered panic
func panicSite() string {
	pcs := make([]uintptr, 64)
	n := runtime.Callers(3, pcs)
	fr := runtime.CallersFrames(pcs[:n])
	for {
		f, more := fr.Next()
		if i := strings.Index(f.Function, "sharedcode/sop"); i >= 0 {
			return f.Function[i+len("sharedcode/"):]
		}
		if !more {
			return "?"
		}
	}
}

// setup creates the initial condition with a separate writer transaction (not part of the sequence).
func setup(ctx context.Context, dir, init string) error {
	if init == "absent" {
		return nil
	}
	x, err := newTxn(ctx, dir, sop.ForWriting)
	if err != nil {
		return err
	}
	if err := x.t.Begin(ctx); err != nil {
		return err
	}
	b, err := common.NewBtree[int, string](ctx, storeOptions(dir), x.t, nil)
	if err != nil {
		return err
	}
	if init == "one" {
		if ok, err := b.Add(ctx, 1, "v"); !ok || err != nil {
			return fmt.Errorf("setup add: %v %v", ok, err)
		}
	}
	return x.t.Commit(ctx)
}

// observe is what ANOTHER, freshly started process sees: cold L1 singletons, a fresh L2 cache, fresh repository objects
// on the same folder, a separate transaction. It reports (listed, count, has key 1, its value). This process's caches
// are put back afterwards, so the transaction under test is not disturbed and a snapshot can be taken mid-sequence.
func observe(ctx context.Context, dir string) (string, error) {
	old := cache.VerifSwapGlobalL1(nil)
	defer cache.VerifSwapGlobalL1(old)
	cold := cache.NewL2InMemoryCache()
	cache.GetGlobalL1Cache(cold)
	x, err := newTxnOn(ctx, dir, sop.ForWriting, cold)
	if err != nil {
		return "", err
	}
	if err := x.t.Begin(ctx); err != nil {
		return "", err
	}
	defer x.t.Rollback(ctx)
	names, err := x.t.GetStores(ctx)
	if err != nil {
		return "", err
	}
	listed := false
	for _, n := range names {
		if n == storeName {
			listed = true
		}
	}
	if !listed {
		return "absent", nil
	}
	b, err := common.OpenBtree[int, string](ctx, storeName, x.t, nil)
	if err != nil {
		return "listed-but-open-fails:" + errClass(err), nil
	}
	ok, err := b.Find(ctx, 1, false)
	if err != nil {
		return "listed-but-find-fails:" + errClass(err), nil
	}
	val := "-"
	if ok {
		v, err := b.GetCurrentValue(ctx)
		if err != nil {
			return "listed-but-get-fails:" + errClass(err), nil
		}
		val = v
	}
	return fmt.Sprintf("exists count=%d has1=%v val=%s", b.Count(), ok, val), nil
}

func modeOf(s string) sop.TransactionMode {
	switch s {
	case "write":
		return sop.ForWriting
	case "read":
		return sop.ForReading
	}
	return sop.NoCheck
}

// scratchRoot: C14 is about guards and call counts, not durability, so the scratch folders live on tmpfs when there
// is one (3x faster: the fs backends sync every write); otherwise under the orchestrator's work folder.
func scratchRoot() string {
	if r := os.Getenv("VERIF_C14_SCRATCH"); r != "" {
		return r
	}
	return hx.WorkRoot()
}

// freshDir makes the scratch folder of one case. Its name is NEVER reused within this process (pid + counter): the L2 cache
// and the L1 singletons are process-wide and key store infos by folder path, so a reused name would hand a later case the
// cached store of an earlier one (os.MkdirTemp draws 32-bit random suffixes: with ~200k cases per worker process a name
// comes back a few times per thorough run; the one time the stale StoreInfo had not been evicted yet, the setup of
// `write one: begin newbtree close find rollback commit` found "its" store in the cache, never wrote the store list, and
// the cold reader rightly saw no store — a false alarm of this harness, fixed here).
var caseSeq int64

func freshDir() (string, error) {
	for {
		d := filepath.Join(scratchRoot(), fmt.Sprintf("c14-%d-%d", os.Getpid(), atomic.AddInt64(&caseSeq, 1)))
		err := os.Mkdir(d, 0o755)
		if err == nil {
			return d, nil
		}
		if !os.IsExist(err) {
			return "", err
		}
		// a leftover of a dead process that had this pid: never share it
	}
}

// ---- one case ---------------------------------------------------------------------------------------------

type failure struct {
	Sig, What, Detail string
}

type caseResult struct {
	Ops        []string  `json:"ops"`
	Outs       []string  `json:"outs"`
	Hits       []string  `json:"hits"`
	Fails      []failure `json:"fails"`
	Nontrivial bool      `json:"nt"`
	Err        string    `json:"err,omitempty"`
	Diag       string    `json:"diag,omitempty"`
}

// diagDir lists the scratch folder (names, sizes) and the store list's content
func diagDir(dir string) string {
	var sb strings.Builder
	if _, err := os.Stat(dir); err != nil {
		return "dir: " + err.Error()
	}
	filepath.Walk(dir, func(p string, fi os.FileInfo, err error) error {
		if err != nil {
			sb.WriteString(p + ": " + err.Error() + "; ")
			return nil
		}
		rel, _ := filepath.Rel(dir, p)
		sb.WriteString(fmt.Sprintf("%s(%d) ", rel, fi.Size()))
		return nil
	})
	if b, err := os.ReadFile(filepath.Join(dir, "storelist.txt")); err == nil {
		sb.WriteString("| storelist=" + string(b))
	} else {
		sb.WriteString("| storelist: " + err.Error())
	}
	return sb.String()
}

func isStoreLevel(op string) bool {
	switch op {
	case "newbtree", "openbtree", "add", "find", "update", "remove", "get":
		return true
	}
	return false
}
func isMutation(op string) bool { return op == "add" || op == "update" || op == "remove" }

func initSeen(init string) string {
	switch init {
	case "empty":
		return "exists count=0"
	case "one":
		return "exists count=1"
	}
	return "absent"
}

// initFull is the cold reader's full view of the initial condition
func initFull(init string) string {
	switch init {
	case "empty":
		return "exists count=0 has1=false val=-"
	case "one":
		return "exists count=1 has1=true val=v"
	}
	return "absent"
}

// parseTok splits `op` / `op!name#k` / `op!+name#k`
func parseTok(tok string) (op string, pl *plan) {
	i := strings.IndexByte(tok, '!')
	if i < 0 {
		return tok, nil
	}
	op, f := tok[:i], tok[i+1:]
	pl = &plan{k: 1}
	if strings.HasPrefix(f, "+") {
		pl.after = true
		f = f[1:]
	}
	if j := strings.IndexByte(f, '#'); j >= 0 {
		pl.k, _ = strconv.Atoi(f[j+1:])
		f = f[:j]
	}
	pl.name = f
	return op, pl
}

// fxOf maps where the failure took effect (stack class) to the model's failure pattern for this call:
// work / work2 / undo / quiet. `unknown` (a goroutine without the caller's stack: only the fire-and-forget tasks of
// phase 2, whose errors are logged and dropped) counts as quiet.
func fxOf(op string, fired []string) []string {
	var out []string
	seen := map[string]bool{}
	add := func(x string) {
		if !seen[x] {
			seen[x] = true
			out = append(out, x)
		}
	}
	for _, cn := range fired {
		c, name, _ := strings.Cut(cn, "@")
		if c == "undo" && strings.HasPrefix(name, "tlog.") {
			c = "quiet" // `t.logger.removeLogs(ctx)` inside the undo: result dropped
		}
		switch c {
		case "p1", "open", "deleg", "close":
			add("work")
		case "p2":
			if op == "commit" {
				add("work2")
			} else {
				add("work")
			}
		case "undo":
			add("undo")
		default:
			add("quiet")
		}
	}
	return out
}

// runCase runs one call sequence on a fresh folder and evaluates the direct oracle on what the real code answered.
func runCase(ctx context.Context, mode, init string, ops []string) (res caseResult) {
	fail := func(sig, what, detail string) { res.Fails = append(res.Fails, failure{sig, what, detail}) }
	hit := func(k string) { res.Hits = append(res.Hits, k) }
	dir, err := freshDir()
	if err != nil {
		res.Err = err.Error()
		return
	}
	defer os.RemoveAll(dir)
	if err := setup(ctx, dir, init); err != nil {
		res.Err = "setup: " + err.Error()
		return
	}
	x, err := newTxn(ctx, dir, modeOf(mode))
	if err != nil {
		res.Err = "newTxn: " + err.Error()
		return
	}
	writer := mode == "write"
	var (
		beganOK, committedOK, finished, dirty bool
		createdByNewBtree                     bool // a newbtree of this case issued StoreRepository.Add
		p1WroteOK, secondP1AfterWrites        bool
		anyBegunActivity                      bool

		// failures
		faultFired   bool // some injected failure took effect in this case (from then on: what is on disk is not diffed)
		faultPlanned bool
		srRemSeen    bool
		anyFired     bool // including a failing direct Close (which blurs nothing)

		// the spec-level end of the transaction: the first Rollback or Commit (or Phase2Commit after a successful Phase1Commit)
		// CALLED after a successful Begin, whatever it returned
		ended            bool
		p1OK             bool   // a Phase1Commit returned ok: the next Phase2Commit call completes the commit (two-phase API)
		ender            string // "rollback" | "commit" | "phase2"
		enderUndoFailed  bool
		faultBeforeEnder bool
		p1BeforeEnder    bool
		endSnap          string
		haveEndSnap      bool
		opsAfterEnd      int
	)
	for i, tok := range ops {
		op, pl := parseTok(tok)
		begunBefore := x.tp.HasBegun()
		x.r.arm(pl)
		r, rDetail := x.do(ctx, dir, op)
		fired := x.r.disarm()
		w := x.r.take()
		for _, k := range w {
			if k == "sr.rem" {
				srRemSeen = true
			}
		}
		pd, com, ls := common.VerifC14State(x.tp)
		okRes := strings.HasPrefix(r, "ok")
		hit("op:" + op)
		hit("res:" + strings.ReplaceAll(r, " ", "_"))
		if begunBefore {
			hit("begun:" + op)
			if op != "begin" && op != "close" {
				anyBegunActivity = true
			}
		}
		// (b) a mutation that succeeds after an effective phase 1 of a writer: outside the tie (see the rule text)
		if writer && pd == 1 && ls >= 2 && isMutation(op) && r == "ok true" {
			dirty = true
		}
		fx := fxOf(op, fired)
		// a failure took effect (even one whose error is dropped changes what the work around it does): this call's write
		// calls are not predicted. Except under a direct Close: registry file handles only, nothing becomes unpredicted.
		blurring := false
		for _, cn := range fired {
			if !strings.HasPrefix(cn, "close@") {
				blurring = true
			}
		}
		masked := blurring
		if pl != nil {
			faultPlanned = true
			hit("fault:" + pl.name)
			if len(fired) == 0 {
				hit("fault_not_reached")
			}
			for _, cn := range fired {
				c, name, _ := strings.Cut(cn, "@")
				hit("fired:" + c + "@" + op)
				if c == "unknown" {
					hit("fired_unclassified:" + name + "@" + op)
				}
			}
			if strings.HasSuffix(pl.name, ".*") && len(fired) > 1 {
				hit("outage_hit_several_calls@" + op)
			}
			if len(fx) > 1 {
				hit("fx_combo:" + strings.Join(fx, "+") + "@" + op)
			}
			for _, c := range fx {
				hit("fx:" + c + "@" + op + "->" + strings.ReplaceAll(r, " ", "_"))
			}
		}
		wasFaultFired := faultFired
		if len(fired) > 0 {
			anyFired = true
		}
		if blurring {
			faultFired = true
		}
		ws := "-"
		if len(w) > 0 {
			ws = strings.Join(w, ",")
		}
		wsShown := ws
		if masked {
			wsShown = "*"
		}
		d01 := map[bool]string{false: "0", true: "1"}
		line := tok
		if pl != nil {
			fxs := "-"
			if len(fx) > 0 {
				fxs = strings.Join(fx, ",")
			}
			line = tok + " " + fxs
		}
		res.Ops = append(res.Ops, line)
		res.Outs = append(res.Outs, fmt.Sprintf("%s pd=%d c=%s dirty=%s w=%s", r, pd, d01[com], d01[dirty], wsShown))

		// ---- direct oracle on this call ----
		if r == "panic" {
			hit("panic:" + op)
			p2 := false
			for _, cn := range fired {
				if strings.HasPrefix(cn, "p2@") {
					p2 = true
				}
			}
			if writer && (op == "commit" || op == "phase2") && x.b3 == nil && p2 && strings.Contains(rDetail, "index out of range") && strings.Contains(rDetail, "common.(*Transaction).rollback") {
				fail("C14/phase2-failure-without-store-panics", "a writer transaction with no store attached panics (index out of range in Transaction.rollback: btreesBackend[0]) instead of returning an error when the log(finalizeCommit) call of phase 2 fails", tok+": "+rDetail)
			} else {
				fail("C14/call-panics", "a call panicked instead of returning", tok+": "+rDetail+" in: "+strings.Join(ops[:i+1], " "))
			}
		}
		if isStoreLevel(op) && okRes && !begunBefore {
			fail("C14/op-ok-without-begun", "a store-level call returned ok although the transaction had not begun (or was finished)", op)
		}
		if !writer && len(w) > 0 {
			switch {
			case op == "newbtree" && len(w) == 1 && w[0] == "sr.add":
				createdByNewBtree = true
				hit("readonly_newbtree_creates_store")
				fail("C14/newbtree-creates-store-in-readonly-txn", "NewBtree in a non-writer transaction issued StoreRepository.Add (mode "+mode+")", ws)
			case op == "newbtree" && len(fired) > 0 && createsThenCleans(w):
				// the same defect with a failing StoreRepository.Add: NewBtree's own cleanup removes the store again
				hit("readonly_newbtree_creates_store_failing_add")
				fail("C14/newbtree-creates-store-in-readonly-txn", "NewBtree in a non-writer transaction issued StoreRepository.Add (mode "+mode+")", ws)
			case createdByNewBtree && len(w) == 1 && w[0] == "sr.rem":
				hit("readonly_rollback_removes_created_store")
				fail("C14/readonly-txn-removes-store-it-created", "a non-writer transaction issued StoreRepository.Remove for the store its NewBtree had created (call "+op+")", ws)
			default:
				fail("C14/write-in-readonly-txn", "a non-writer transaction issued a data write from "+op, ws)
			}
		}
		if writer && op == "newbtree" && len(w) > 0 && w[0] == "sr.add" {
			createdByNewBtree = true
		}
		if !writer && isMutation(op) && okRes {
			fail("C14/mutation-accepted-in-readonly-txn", "add/update/remove returned ok in a non-writer transaction (mode "+mode+")", op+" -> "+r)
		}
		if committedOK && op == "rollback" && okRes {
			fail("C14/rollback-after-commit-succeeded", "Rollback returned nil after a successful commit", "")
		}
		if committedOK && !com {
			fail("C14/committed-flag-lost", "the transaction no longer reports committed", op)
		}
		if finished {
			if len(w) > 0 {
				fail("C14/write-after-finish", "a finished transaction issued a data write from "+op, ws)
			}
			if op == "begin" && okRes {
				fail("C14/begin-after-finish", "Begin succeeded on a finished transaction", "")
			}
			if pd != 2 {
				fail("C14/finished-not-final", "phaseDone left 2", fmt.Sprint(pd))
			}
		}
		// ---- the transaction has ended once Rollback or Commit was CALLED on it (successfully or not) ----
		if ended {
			opsAfterEnd++
			hit("after_end:" + op)
			seq := strings.Join(ops[:i+1], " ")
			if len(w) > 0 {
				fail("C14/write-after-end", "a data write was issued by "+op+" after "+ender+" had been called on the transaction", ws+" in: "+seq)
			}
			if okRes && op != "rollback" && op != "close" {
				fail("C14/call-accepted-after-end", op+" returned "+r+" after "+ender+" had been called on the transaction", seq)
			}
			if x.tp.HasBegun() {
				fail("C14/begun-after-end", "HasBegun() is true after "+ender+" had been called on the transaction", seq)
			}
		} else if beganOK && (op == "rollback" || op == "commit" || (op == "phase2" && p1OK)) {
			ended, ender = true, op
			faultBeforeEnder, p1BeforeEnder = wasFaultFired, p1WroteOK
			for _, c := range fx {
				if c == "undo" {
					enderUndoFailed = true
				}
			}
			hit("ender:" + op + "->" + strings.ReplaceAll(r, " ", "_"))
			if !okRes {
				hit("ender_failed:" + op)
			}
			if x.tp.HasBegun() {
				fail("C14/begun-after-end", "HasBegun() is still true right after "+op+" returned "+r, strings.Join(ops[:i+1], " "))
			}
			if i < len(ops)-1 && x.r.touched {
				snap, err := observe(ctx, dir)
				if err != nil {
					res.Err = "observe: " + err.Error()
					return
				}
				endSnap, haveEndSnap = snap, true
			}
		}
		if op == "begin" && okRes {
			if beganOK {
				fail("C14/begin-twice", "Begin succeeded twice on one transaction", "")
			}
			beganOK = true
		}
		if op == "phase1" && okRes {
			p1OK = true
		}
		if writer && op == "phase1" {
			if p1WroteOK {
				secondP1AfterWrites = true
				hit("second_phase1_after_writes")
			}
			if okRes && len(w) > 0 {
				p1WroteOK = true
			}
		}
		if writer && op == "commit" && p1WroteOK {
			secondP1AfterWrites = true
			hit("second_phase1_after_writes")
		}
		if (op == "commit" || op == "phase2") && okRes {
			committedOK = true
			hit("committed_ok")
		}
		if beganOK && !x.tp.HasBegun() {
			finished = true
		}
		if dirty {
			hit("truncated_mutation_after_phase1")
			break
		}
	}
	res.Nontrivial = beganOK && anyBegunActivity
	if faultPlanned {
		if faultFired || anyFired {
			hit("case_with_failure")
		} else {
			hit("case_failure_not_reached")
		}
	}
	if opsAfterEnd > 0 {
		hit("case_with_calls_after_end")
		if faultFired {
			hit("case_with_failure_and_calls_after_end")
		}
	}
	// ---- end-of-case observation by a separate cold reader ----
	res.Ops = append(res.Ops, "observe")
	before := initSeen(init)
	if dirty {
		res.Outs = append(res.Outs, "skipped")
		return
	}
	after, afterFull := before, initFull(init)
	if x.r.touched {
		obs, err := observe(ctx, dir)
		if err != nil {
			res.Err = "observe: " + err.Error()
			return
		}
		afterFull = obs
		f := strings.Fields(obs)
		if len(f) == 4 { // exists count=N has1=B val=V
			after = f[0] + " " + f[1]
			if (f[1] != "count=0") != (f[2] == "has1=true") {
				// with an injected failure count and content may legitimately part (e.g. the count update of a rollback refused)
				if faultFired {
					hit("observe_count_content_disagree_after_failure")
				} else {
					fail("C14/observe-inconsistent", "store count and content disagree for the later transaction", obs)
				}
			}
		} else {
			after = obs
		}
	} else {
		hit("untouched")
	}
	if faultFired {
		res.Outs = append(res.Outs, "*") // what a failed piece of work leaves on disk is not the lifecycle model's subject
	} else {
		res.Outs = append(res.Outs, after)
	}
	// self-diagnosis: the cold reader finds a pre-existing store gone although this transaction never issued StoreRepository.Remove
	if init != "absent" && afterFull == "absent" && !srRemSeen {
		hit("diag_store_gone_without_remove")
		res.Diag = diagDir(dir)
	}
	// (A) nothing is persisted after the end of the transaction
	if haveEndSnap && afterFull != endSnap {
		fail("C14/persisted-after-end", "what a cold reader sees changed AFTER "+ender+" had been called on the transaction (calls made on the ended transaction were persisted)",
			"right after "+ender+": "+endSnap+" ; at the end: "+afterFull+" ; sequence: "+strings.Join(ops, " "))
	}
	// (B) nothing written before (or after) a Rollback call is persisted
	if ended && ender == "rollback" {
		snap := afterFull
		if haveEndSnap {
			snap = endSnap
		}
		b0 := initFull(init)
		switch {
		case snap == b0:
			hit("rollback_left_nothing")
		case faultBeforeEnder:
			hit("rollback_after_earlier_failure_not_judged") // what an earlier failed call left behind: commit protocol's subject
		case enderUndoFailed && b0 == "absent" && snap == "exists count=0 has1=false val=-" && createdByNewBtree:
			hit("rollback_undo_failed_created_store_left") // the removal of the created store was refused by the backend
		case enderUndoFailed && p1BeforeEnder:
			hit("rollback_undo_failed_after_phase1_not_judged") // phase-1 work whose undo the backend refused
		case secondP1AfterWrites:
			// reported below under its own signature
		default:
			fail("C14/rolled-back-change-persisted", "a cold reader sees a change although the transaction's first ending call was Rollback", b0+" -> "+snap+" ; sequence: "+strings.Join(ops, " "))
		}
	}
	inflight := x.tp.HasBegun()
	switch {
	case after == before:
	case !writer && createdByNewBtree && before == "absent" && after == "exists count=0":
		hit("readonly_created_store_persists")
		// the visible consequence of the known defect, already reported at the newbtree call
	case !writer:
		fail("C14/readonly-txn-changed-store", "a non-writer transaction changed what a later transaction sees", before+" -> "+after)
	case committedOK:
		hit("writer_commit_changed_store")
	case inflight:
		hit("inflight_end_changed_store") // unfinished writer (phase 1 effects / created store): C03's subject, not judged here
	case faultFired:
		hit("writer_failure_left_change") // what a failed commit/undo leaves behind is the commit protocol's subject (C07), judged above only by (A) and (B)
	case secondP1AfterWrites:
		hit("second_phase1_strands_writes")
		fail("C14/second-phase1-strands-phase1-writes", "a second Phase1Commit after one that already wrote failed, and its rollback left the first run's writes: an uncommitted, finished transaction changed the store", before+" -> "+after)
	default:
		fail("C14/uncommitted-change-visible", "a finished transaction that never committed changed what a later transaction sees", before+" -> "+after)
	}
	return
}

// createsThenCleans: StoreRepository.Add followed only by StoreRepository.Remove calls
func createsThenCleans(w []string) bool {
	if len(w) == 0 || w[0] != "sr.add" {
		return false
	}
	for _, k := range w[1:] {
		if k != "sr.rem" {
			return false
		}
	}
	return true
}

// ---- worker processes (a panic inside repo goroutines would kill the process: cases run in children) --------

func worker(args []string) error {
	ctx := context.Background()
	in := bufio.NewReaderSize(os.Stdin, 1<<20)
	out := bufio.NewWriterSize(os.Stdout, 1<<20)
	defer out.Flush()
	enc := json.NewEncoder(out)
	for {
		line, err := in.ReadString('\n')
		f := strings.Fields(line)
		if len(f) >= 2 {
			r := runCase(ctx, f[0], f[1], f[2:])
			if e := enc.Encode(r); e != nil {
				return e
			}
			out.Flush()
		}
		if err != nil {
			return nil
		}
	}
}

type spec struct {
	mode, init string
	ops        []string
}

func (c spec) line() string { return c.mode + " " + c.init + " " + strings.Join(c.ops, " ") }

// runAll shards the cases over child processes and returns the results in case order. A child that dies is
// restarted after the case it died on (that case gets Err = "crash").
func runAll(cases []spec, workers int) []caseResult {
	results := make([]caseResult, len(cases))
	var wg sync.WaitGroup
	for wi := 0; wi < workers; wi++ {
		wg.Add(1)
		go func(wi int) {
			defer wg.Done()
			var idx []int
			for i := wi; i < len(cases); i += workers {
				idx = append(idx, i)
			}
			for len(idx) > 0 {
				done := runShard(cases, idx, results)
				if done < len(idx) {
					results[idx[done]] = caseResult{Err: "crash"}
					done++
				}
				idx = idx[done:]
			}
		}(wi)
	}
	wg.Wait()
	return results
}

func runShard(cases []spec, idx []int, results []caseResult) (done int) {
	bin := os.Getenv("VERIF_DRIVE")
	if bin == "" {
		bin = os.Args[0]
	}
	cmd := exec.Command(bin, "worker")
	cmd.Env = os.Environ()
	var sb strings.Builder
	for _, i := range idx {
		sb.WriteString(cases[i].line())
		sb.WriteByte('\n')
	}
	cmd.Stdin = strings.NewReader(sb.String())
	cmd.Stderr = io.Discard // package common logs at debug level through slog; nothing of it is evidence
	po, err := cmd.StdoutPipe()
	if err != nil {
		return 0
	}
	if err := cmd.Start(); err != nil {
		return 0
	}
	dec := json.NewDecoder(bufio.NewReaderSize(po, 1<<20))
	for done < len(idx) {
		var r caseResult
		if err := dec.Decode(&r); err != nil {
			break
		}
		results[idx[done]] = r
		done++
	}
	io.Copy(io.Discard, po)
	cmd.Wait()
	return done
}

// ---- generation -------------------------------------------------------------------------------------------

var core = []string{"begin", "phase1", "phase2", "commit", "rollback", "close", "newbtree", "openbtree", "add", "find"}
var full = []string{"begin", "phase1", "phase2", "commit", "rollback", "close", "newbtree", "openbtree", "add", "find", "update", "remove", "get"}
var modes = []string{"read", "nocheck", "write"}
var inits = []string{"absent", "empty", "one"}

// canReachStore: some newbtree/openbtree follows a begin. Only then can the sequence read or change the store
// (a handle needs a successful NewBtree/OpenBtree, which needs HasBegun, which needs an earlier Begin), so only
// then is it run under all three initial conditions; otherwise under `absent` alone.
func canReachStore(ops []string) bool {
	begun := false
	for _, o := range ops {
		o, _ = parseTok(o)
		if o == "begin" {
			begun = true
		} else if begun && (o == "newbtree" || o == "openbtree") {
			return true
		}
	}
	return false
}

func allSeqs(alpha []string, n int, prefix []string, f func([]string)) {
	if n == 0 {
		f(prefix)
		return
	}
	for _, a := range alpha {
		allSeqs(alpha, n-1, append(prefix, a), f)
	}
}

func addSeq(cases *[]spec, seen map[string]bool, ops []string) {
	key := strings.Join(ops, " ")
	if seen[key] {
		return
	}
	seen[key] = true
	cp := append([]string(nil), ops...)
	for _, m := range modes {
		if canReachStore(cp) {
			for _, in := range inits {
				*cases = append(*cases, spec{m, in, cp})
			}
		} else {
			*cases = append(*cases, spec{m, "absent", cp})
		}
	}
}

// ---- sequences with failing calls ---------------------------------------------------------------------------

// failing calls: for each call of the alphabet, the backend calls worth failing under it (name, ordinals), picked
// from what the call issues on the real code (a plan that is never reached leaves a plain case: histogram key
// fault_not_reached).
type fcall struct {
	op    string
	name  string
	ks    []int
	after bool // also the "performed, then error" flavour
}

var failTable = []fcall{
	{"rollback", "sr.rem", []int{1}, true}, {"rollback", "sr.upd", []int{1}, true}, {"rollback", "blob.rem", []int{1}, true},
	{"rollback", "reg.get", []int{1}, false}, {"rollback", "reg.rem", []int{1}, true}, {"rollback", "reg.updnl", []int{1}, true},
	{"rollback", "reg.upd", []int{1}, false}, {"rollback", "plog.rem", []int{1}, true}, {"rollback", "tlog.rem", []int{1}, false},
	{"rollback", "reg.close", []int{1}, false},
	{"commit", "tlog.add", []int{1, 2, 3, 4, 5, 6, 7, 8, 9, 10, 11, 12, 13}, false}, {"commit", "sr.upd", []int{1}, true}, {"commit", "sr.get", []int{1}, false},
	{"commit", "reg.get", []int{1, 2}, false}, {"commit", "reg.add", []int{1}, true}, {"commit", "reg.updnl", []int{1, 2}, true},
	{"commit", "reg.upd", []int{1}, false}, {"commit", "reg.rem", []int{1}, false}, {"commit", "blob.add", []int{1, 2}, true},
	{"commit", "blob.rem", []int{1}, false}, {"commit", "plog.add", []int{1}, true}, {"commit", "plog.rem", []int{1}, false},
	{"commit", "tlog.rem", []int{1}, false}, {"commit", "reg.close", []int{1}, false}, {"commit", "sr.rem", []int{1}, false},
	{"phase1", "tlog.add", []int{1, 2, 3, 5, 8}, false}, {"phase1", "reg.get", []int{1}, false}, {"phase1", "blob.add", []int{1}, true},
	{"phase1", "reg.updnl", []int{1}, false}, {"phase1", "reg.add", []int{1}, false}, {"phase1", "sr.upd", []int{1}, true}, {"phase1", "plog.add", []int{1}, false},
	{"phase2", "tlog.add", []int{1, 2, 3}, false}, {"phase2", "reg.updnl", []int{1}, true}, {"phase2", "blob.rem", []int{1}, false}, {"phase2", "plog.rem", []int{1}, false},
	{"newbtree", "sr.get", []int{1}, false}, {"newbtree", "tlog.add", []int{1}, false}, {"newbtree", "sr.add", []int{1}, true},
	{"openbtree", "sr.get", []int{1}, false},
	{"find", "reg.get", []int{1}, false}, {"find", "blob.get", []int{1}, false}, {"get", "reg.get", []int{1}, false}, {"get", "blob.get", []int{1}, false},
	{"add", "reg.get", []int{1}, false}, {"add", "blob.get", []int{1}, false}, {"update", "blob.get", []int{1}, false}, {"remove", "reg.get", []int{1}, false},
	{"close", "reg.close", []int{1}, false},
	// backend outages: from its k-th call under this call on, every call to the backend fails (the failing work AND its undo)
	{"rollback", "sr.*", []int{1}, false}, {"rollback", "reg.*", []int{1, 2}, false}, {"rollback", "blob.*", []int{1}, false}, {"rollback", "plog.*", []int{1}, false},
	{"commit", "sr.*", []int{1, 2}, false}, {"commit", "reg.*", []int{1, 2, 3, 4}, false}, {"commit", "blob.*", []int{1, 2}, false}, {"commit", "tlog.*", []int{1, 3, 6, 9, 11}, false}, {"commit", "plog.*", []int{1}, false},
	{"phase1", "sr.*", []int{1}, false}, {"phase1", "reg.*", []int{1, 2}, false}, {"phase1", "blob.*", []int{1}, false}, {"phase1", "tlog.*", []int{1, 3}, false},
	{"phase2", "reg.*", []int{1}, false}, {"phase2", "tlog.*", []int{1}, false}, {"phase2", "plog.*", []int{1}, false},
	{"newbtree", "sr.*", []int{1, 2}, false}, {"openbtree", "sr.*", []int{1}, false}, {"add", "reg.*", []int{1}, false}, {"get", "blob.*", []int{1}, false},
}

// failTokens expands the table into op tokens `op!name#k` / `op!+name#k`; quick keeps the first two ordinals of long lists except for commit's log calls
func failTokens(thorough bool) (ender, other []string) {
	for _, f := range failTable {
		for i, k := range f.ks {
			if !thorough && f.op != "commit" && i >= 2 && !strings.HasSuffix(f.name, ".*") {
				break
			}
			toks := []string{fmt.Sprintf("%s!%s#%d", f.op, f.name, k)}
			if f.after && (thorough || k == 1) {
				toks = append(toks, fmt.Sprintf("%s!+%s#%d", f.op, f.name, k))
			}
			if f.op == "rollback" || f.op == "commit" {
				ender = append(ender, toks...)
			} else {
				other = append(other, toks...)
			}
		}
	}
	return
}

var failPrefixes = [][]string{
	{"begin"}, {"begin", "newbtree"}, {"begin", "newbtree", "add"}, {"begin", "openbtree"}, {"begin", "openbtree", "add"},
	{"begin", "openbtree", "update"}, {"begin", "openbtree", "remove"}, {"begin", "openbtree", "get"},
	{"begin", "newbtree", "add", "phase1"}, {"begin", "openbtree", "add", "phase1"}, {"begin", "openbtree", "update", "phase1"},
	{"begin", "openbtree", "remove", "phase1"}, {"begin", "openbtree", "get", "phase1"},
}

// what a caller might try on a transaction that has ended: more store operations, then Commit / Rollback / Begin again
var failSuffixes = [][]string{
	{"add", "commit"}, {"commit", "rollback"}, {"rollback", "begin", "commit"}, {"find", "phase1", "phase2"},
	{"newbtree", "add", "commit"}, {"openbtree", "update", "commit"}, {"begin", "openbtree", "add", "commit"}, {"phase2", "get", "rollback", "commit"},
}

func genFailures(cases *[]spec, seen map[string]bool, p *hx.Prng, o hx.RunOpts) {
	cat := func(parts ...[]string) []string {
		var q []string
		for _, x := range parts {
			q = append(q, x...)
		}
		return q
	}
	// directed: the failing-undo Rollback followed by more work and a Commit (the lifecycle hole this family is aimed at),
	// a Commit failing in phase 1 / phase 2 / its log calls, a failing reader check, failing store-level calls
	for _, c := range [][]string{
		{"begin", "newbtree", "add", "rollback!sr.rem#1", "add", "commit"},
		{"begin", "newbtree", "add", "rollback!+sr.rem#1", "newbtree", "add", "commit"},
		{"begin", "openbtree", "update", "phase1", "rollback!blob.rem#1", "update", "commit"},
		{"begin", "openbtree", "add", "phase1", "rollback!reg.rem#1", "phase2"},
		{"begin", "openbtree", "remove", "phase1", "rollback!sr.upd#1", "commit", "begin"},
		{"begin", "openbtree", "update", "phase1", "rollback!plog.rem#1", "phase2", "commit"},
		{"begin", "openbtree", "add", "commit!blob.add#1", "add", "commit"},
		{"begin", "openbtree", "update", "commit!reg.updnl#2", "update", "commit", "rollback", "begin"},
		{"begin", "openbtree", "update", "commit!tlog.add#11", "find", "commit"},
		{"begin", "openbtree", "get", "phase1!reg.get#1", "find", "commit"},
		{"begin", "openbtree", "get", "commit!reg.get#1", "find", "commit"},
		{"begin", "newbtree!sr.add#1", "newbtree", "add", "commit"},
		{"begin", "openbtree", "find!reg.get#1", "add", "commit"},
		{"begin", "openbtree", "update", "phase1", "phase2!reg.updnl#1", "rollback", "commit"},
		{"begin", "openbtree", "close!reg.close#1", "add", "commit"},
		// a writer without a store whose phase-2 log call fails: panicked before fix fb2f596d (finding C14-F3), now the phase-2 error
		{"begin", "commit!tlog.add#1", "commit", "begin"},
		{"begin", "phase1", "phase2!tlog.add#1", "rollback", "commit"},
	} {
		addSeq(cases, seen, c)
	}
	// pilots: every (prefix, failing call) with NO continuation, under every mode and initial condition. Whether the failure is
	// reached depends on these alone; the continuations are added (expandReached) only where it was.
	ender, other := failTokens(o.Thorough())
	for _, pre := range failPrefixes {
		for _, tok := range append(append([]string(nil), ender...), other...) {
			addSeq(cases, seen, cat(pre, []string{tok}))
		}
	}
}

// expandReached: for every pilot in which the failure took effect, the same case followed by each continuation
func expandReached(pilots []spec, results []caseResult, o hx.RunOpts) (out []spec) {
	nSuf := 4
	if o.Thorough() {
		nSuf = len(failSuffixes)
	}
	n := 0
	for i, c := range pilots {
		reached := false
		for _, h := range results[i].Hits {
			if h == "case_with_failure" {
				reached = true
			}
		}
		if !reached || len(c.ops) == 0 || !strings.Contains(c.ops[len(c.ops)-1], "!") {
			continue
		}
		n++
		for j := 0; j < nSuf; j++ {
			suf := failSuffixes[(n+j*3)%len(failSuffixes)]
			out = append(out, spec{c.mode, c.init, append(append([]string(nil), c.ops...), suf...)})
		}
	}
	return
}

// randomFailures: begin, open, a few store calls, maybe phase 1, a failing call, then 1..5 more calls (one of them may fail too);
// mostly writers (most backend work is a writer's)
func randomFailures(p *hx.Prng, o hx.RunOpts) (out []spec) {
	ender, other := failTokens(true)
	all := append(append([]string(nil), ender...), other...)
	nRand := 6000
	if o.Thorough() {
		nRand = 60000
	}
	tail := []string{"commit", "commit", "rollback", "begin", "add", "find", "update", "remove", "get", "phase1", "phase2", "newbtree", "openbtree", "close"}
	for i := 0; i < nRand*o.Scale; i++ {
		q := []string{"begin", []string{"newbtree", "openbtree"}[p.Intn(2)]}
		for n := p.Intn(3); n > 0; n-- {
			q = append(q, []string{"add", "update", "remove", "get", "find"}[p.Intn(5)])
		}
		if p.Chance(1, 3) {
			q = append(q, "phase1")
		}
		if p.Chance(3, 4) {
			q = append(q, ender[p.Intn(len(ender))])
		} else {
			q = append(q, other[p.Intn(len(other))])
		}
		for n := 1 + p.Intn(5); n > 0; n-- {
			if p.Chance(1, 8) {
				q = append(q, all[p.Intn(len(all))])
			} else {
				q = append(q, tail[p.Intn(len(tail))])
			}
		}
		m := "write"
		if p.Chance(1, 4) {
			m = modes[p.Intn(2)]
		}
		out = append(out, spec{m, inits[p.Intn(3)], q})
	}
	return
}

func run(o hx.RunOpts) error {
	// exAll: every sequence up to this length (full alphabet); exBegin: every `begin`+suffix up to this total length (full
	// alphabet); exOpenFull / exOpenCore: every `begin` (newbtree|openbtree) + suffix of this total length (full / core alphabet)
	exAll, exBegin, exOpenFull, exOpenCore := 4, 4, 5, 0
	nRandom := 600
	if o.Thorough() {
		exAll, exBegin, exOpenFull, exOpenCore = 5, 5, 5, 6
		nRandom = 5000
	}
	rule := fmt.Sprintf("one case = (mode in read|nocheck|write, initial store absent|empty|one item made by a separate earlier writer transaction, call sequence) run on a real common.Transaction "+
		"(real fs backends on a fresh folder behind counting decorators) through sop.SinglePhaseTransaction and btree.btreeWithTransaction; per call the result class, phaseDone, committed and the data-write calls "+
		"(StoreRepository Add/Update/Remove, Registry Add/Update/UpdateNoLocks/Remove, BlobStore Add/Update/Remove with a non-empty payload; not: reads, Replicate, transaction/priority log, L2 cache) are diffed with the model, "+
		"then what a separate later writer transaction sees (store listed, count). Alphabet %v. Enumeration: directed corpus first; EVERY sequence of length <= %d over the full alphabet; every sequence `begin`+suffix of total length <= %d over the full alphabet; "+
		"every sequence `begin` (newbtree|openbtree) + suffix of total length %d over the full alphabet%s; plus %d seeded random sequences of length 6..9 starting with begin. Sequences in which no newbtree/openbtree follows a begin cannot reach the store and run under `absent` only. "+
		"A sequence is cut right after a mutation that succeeds once a writer's Phase1Commit has done work (those continuations are outside the tie: coverage_gap). "+
		"exhaustive=true refers to the stated lengths. distinct = canonical op-file hash; non-trivial = Begin succeeded and at least one further call other than Close ran while HasBegun. "+
		"FAILING CALLS: a call written `op!name#k` (`op!+name#k`) runs with the k-th call of backend method `name` (StoreRepository sr.get/add/upd/rem, Registry reg.get/add/upd/updnl/rem/close, BlobStore blob.get/add/upd/rem, "+
		"TransactionLog tlog.add/rem, priority log plog.add/rem) made under it failing before (after) it is performed, `op!sr.*#k` (reg.*, blob.*, tlog.*, plog.*) with that backend down from its k-th call under the call on (every later call to it fails too: the failing work AND the undo after it); the second word of the op line is where the failure took effect, read off the call stack at the failing backend call "+
		"(work = the call's own work: phase1Commit / commitForReaderTransaction / phase2Commit / NewBtree / OpenBtree / the B-tree call / Close; work2 = phase2Commit under Commit; undo = Transaction.rollback; quiet = a site whose error the code drops; - = never reached). "+
		"The model predicts result class, phaseDone, committed of the failing call and of every later call exactly; the write calls of a call in which a failure took effect and what is on disk afterwards are not predicted (printed `*`). "+
		"Failing-call sequences: a directed corpus; every (13 prefixes: begin [newbtree|openbtree [add|update|remove|get [phase1]]]) x (every failing call of a table of %d: Rollback x 10 backend methods, Commit x 15 incl. each of its 13 log calls, Phase1Commit, Phase2Commit, NewBtree, OpenBtree, find/get/add/update/remove, Close) x (%d of 8 continuations that try more store operations and Commit/Rollback/Begin/Phase2 again); plus %d seeded random sequences with one or two failing calls. "+
		"DIRECT ORACLE on the end of the transaction (independent of the model and of HasBegun()): once Rollback or Commit has been CALLED after a successful Begin, whatever it returned, HasBegun() must be false, every later call except Rollback/Close must be refused, no data write may be issued, "+
		"and what a cold reader (fresh L1/L2 caches, fresh repository objects, separate transaction = another process) sees right after that call must equal what it sees at the end of the sequence; and when that call was Rollback the cold reader must see the initial content "+
		"(not judged: leftovers of an undo the backend refused after a phase 1 that had written / of an earlier failed call — the commit protocol's subject; a created store whose removal was refused may stay, empty).",
		full, exAll, exBegin, exOpenFull, map[bool]string{true: fmt.Sprintf(" and of total length %d over the core alphabet %v", exOpenCore, core), false: ""}[exOpenCore > 0], nRandom,
		func() int { a, b := failTokens(o.Thorough()); return len(a) + len(b) }(), map[bool]int{false: 2, true: 8}[o.Thorough()], map[bool]int{false: 1200, true: 12000}[o.Thorough()]*o.Scale)
	s := hx.NewSession(o, rule)
	s.Rep.Exhaustive = true
	s.Rep.CoverageGap = []string{"continuations after a store mutation that succeeds while phaseDone = 1 and the writer's phase 1 has already done work (accepted by the guards; observed on the real code: silently dropped changes, count corruption on Rollback, a later Find that panics) are not diffed with the model: the case is cut at that call"}

	var cases []spec
	seen := map[string]bool{}
	// directed corpus: the Lean counterexample first, then one case per mechanism
	for _, c := range [][]string{
		{"begin", "newbtree", "commit"},        // C14_counterexample (read / nocheck, store absent)
		{"begin", "newbtree", "rollback"},      // the created store is removed again: a second write
		{"begin", "newbtree", "add", "commit"}, // wrapper guard rolls back; writer: real commit
		{"begin", "openbtree", "find", "commit", "rollback", "begin"},
		{"begin", "newbtree", "add", "phase1", "phase1"}, // second phase 1
		{"begin", "openbtree", "add", "phase1", "phase1", "rollback"},
		{"begin", "openbtree", "remove", "phase1", "phase1", "phase2"},
		{"begin", "openbtree", "update", "phase1", "phase2", "rollback", "commit", "begin"},
		{"begin", "openbtree", "get", "phase1", "rollback"},
		{"begin", "newbtree", "add", "phase1", "remove", "phase2"}, // cut at `remove`
	} {
		addSeq(&cases, seen, c)
	}
	for n := 1; n <= exAll; n++ {
		allSeqs(full, n, nil, func(q []string) { addSeq(&cases, seen, q) })
	}
	for n := 1; n < exBegin; n++ {
		allSeqs(full, n, []string{"begin"}, func(q []string) { addSeq(&cases, seen, q) })
	}
	for _, first := range []string{"newbtree", "openbtree"} {
		allSeqs(full, exOpenFull-2, []string{"begin", first}, func(q []string) { addSeq(&cases, seen, q) })
		if exOpenCore > 0 {
			allSeqs(core, exOpenCore-2, []string{"begin", first}, func(q []string) { addSeq(&cases, seen, q) })
		}
	}
	p := hx.NewPrng(o.Seed)
	for i := 0; i < nRandom*o.Scale; i++ {
		n := 5 + p.Intn(4)
		q := []string{"begin"}
		if p.Chance(3, 4) {
			q = append(q, []string{"newbtree", "openbtree"}[p.Intn(2)])
		}
		for len(q) < n+1 {
			q = append(q, full[p.Intn(len(full))])
		}
		addSeq(&cases, seen, q)
	}

	nPlain := len(cases)
	genFailures(&cases, seen, p, o)
	log.Printf("c14: %d plain cases, %d directed/pilot cases with failing calls", nPlain, len(cases)-nPlain)

	if os.Getenv("VERIF_C14_SCRATCH") == "" {
		if d, err := os.MkdirTemp("/dev/shm", "verif-c14-"); err == nil {
			os.Setenv("VERIF_C14_SCRATCH", d)
			defer os.RemoveAll(d)
		}
	}
	workers := 8
	if v := os.Getenv("VERIF_C14_WORKERS"); v != "" {
		fmt.Sscan(v, &workers)
	}
	const batch = 40000
	runBatch := func(cases []spec) (all []caseResult) {
		for lo := 0; lo < len(cases); lo += batch {
			hi := lo + batch
			if hi > len(cases) {
				hi = len(cases)
			}
			results := runAll(cases[lo:hi], workers)
			for i, c := range cases[lo:hi] {
				emit(s, c, results[i])
			}
			all = append(all, results...)
		}
		return
	}
	results := runBatch(cases)
	// second stage: continuations after the failing calls that were reached, and the random failing-call sequences
	stage2 := expandReached(cases[nPlain:], results[nPlain:], o)
	nExp := len(stage2)
	stage2 = append(stage2, randomFailures(p, o)...)
	log.Printf("c14: second stage: %d continuations of reached failures, %d random", nExp, len(stage2)-nExp)
	runBatch(stage2)
	return s.Finish()
}

func emit(s *hx.Session, c spec, r caseResult) {
	s.BeginCase(c.mode + " " + c.init)
	if r.Err != "" {
		for _, op := range c.ops {
			s.Op(op, "harness-error")
		}
		if r.Err == "crash" {
			s.Fail("C14/process-crash", "the process died while running this sequence (panic inside the repository code)", c.line())
		} else {
			s.Fail("C14/harness-error", "the case could not be run", r.Err)
		}
		return
	}
	for j := range r.Ops {
		s.Op(r.Ops[j], r.Outs[j])
	}
	s.Hit("mode:" + c.mode)
	s.Hit("init:" + c.init)
	s.Hit(fmt.Sprintf("len:%d", len(c.ops)))
	for _, h := range r.Hits {
		s.Hit(h)
	}
	if r.Nontrivial {
		s.Nontrivial()
	}
	if r.Diag != "" {
		s.Fail("C14/harness-diag-store-gone-without-remove", "harness self-diagnosis: a pre-existing store is gone for the cold reader although the transaction issued no StoreRepository.Remove", c.line()+" :: "+r.Diag)
	}
	for _, f := range r.Fails {
		// hx keeps the first 200 failures only: record at most 5 per signature so that thousands of instances of a
		// known finding cannot crowd out a different failure; the histogram still counts every instance
		if failsBySig[f.Sig] < 5 {
			failsBySig[f.Sig]++
			s.Fail(f.Sig, f.What, f.Detail)
		} else {
			s.Hit("oracle_fail:" + f.Sig)
		}
	}
}

var failsBySig = map[string]int{}

func explore(args []string) error {
	ctx := context.Background()
	if len(args) < 2 {
		return fmt.Errorf("usage: explore mode init ops...")
	}
	r := runCase(ctx, args[0], args[1], args[2:])
	for i := range r.Ops {
		fmt.Printf("%-10s %s\n", r.Ops[i], r.Outs[i])
	}
	fmt.Println("fails:", r.Fails, "err:", r.Err, "nontrivial:", r.Nontrivial)
	return nil
}

func main() {
	hx.Main(run, "", nil, map[string]func([]string) error{"explore": explore, "worker": worker})
}
