// Command c14 drives property C14 ("transaction modes and lifecycle are enforced"): every call sequence over a
// small alphabet is run on a REAL common.Transaction (real fs backends on a scratch folder, wrapped in counting
// decorators) behind the real sop.SinglePhaseTransaction wrapper and the real btree.btreeWithTransaction wrapper.
package main

import (
	"bufio"
	"context"
	"encoding/json"
	"fmt"
	"io"
	"os"
	"os/exec"
	"strings"
	"sync"
	"time"

	"github.com/sharedcode/sop"
	"github.com/sharedcode/sop/btree"
	"github.com/sharedcode/sop/cache"
	"github.com/sharedcode/sop/common"
	"github.com/sharedcode/sop/fs"

	"verifharness/hx"
)

// ---- counting decorators -------------------------------------------------------------------------------
//
// A "data write" is a call of one of the ten mutating methods below whose payload names at least one store /
// handle / blob (the code calls e.g. Registry.Remove with an empty payload on every writer commit; that touches
// nothing and is not counted). Not data writes: every read, Replicate (no passive side configured), everything
// on the TransactionLog / TransactionPriorityLog, and all L2-cache traffic (locks, cached store info).

type rec struct {
	w       []string // write kinds since the last take()
	touched bool     // any call at all (reads included) reached a data backend
}

func (r *rec) hit(k string) { r.w = append(r.w, k); r.touched = true }
func (r *rec) take() []string {
	x := r.w
	r.w = nil
	return x
}

type srDec struct {
	sop.StoreRepository
	r *rec
}

func (d srDec) Get(ctx context.Context, n ...string) ([]sop.StoreInfo, error) {
	d.r.touched = true
	return d.StoreRepository.Get(ctx, n...)
}
func (d srDec) GetWithTTL(ctx context.Context, a bool, t time.Duration, n ...string) ([]sop.StoreInfo, error) {
	d.r.touched = true
	return d.StoreRepository.GetWithTTL(ctx, a, t, n...)
}
func (d srDec) GetAll(ctx context.Context) ([]string, error) {
	d.r.touched = true
	return d.StoreRepository.GetAll(ctx)
}
func (d srDec) Add(ctx context.Context, s ...sop.StoreInfo) error {
	if len(s) > 0 {
		d.r.hit("sr.add")
	}
	return d.StoreRepository.Add(ctx, s...)
}
func (d srDec) Update(ctx context.Context, s []sop.StoreInfo) ([]sop.StoreInfo, error) {
	if len(s) > 0 {
		d.r.hit("sr.upd")
	}
	return d.StoreRepository.Update(ctx, s)
}
func (d srDec) Remove(ctx context.Context, n ...string) error {
	if len(n) > 0 {
		d.r.hit("sr.rem")
	}
	return d.StoreRepository.Remove(ctx, n...)
}

func nH(p []sop.RegistryPayload[sop.Handle]) (n int) {
	for _, x := range p {
		n += len(x.IDs)
	}
	return
}
func nU(p []sop.RegistryPayload[sop.UUID]) (n int) {
	for _, x := range p {
		n += len(x.IDs)
	}
	return
}

type regDec struct {
	sop.Registry
	r *rec
}

func (d regDec) Get(ctx context.Context, p []sop.RegistryPayload[sop.UUID]) ([]sop.RegistryPayload[sop.Handle], error) {
	d.r.touched = true
	return d.Registry.Get(ctx, p)
}
func (d regDec) Add(ctx context.Context, p []sop.RegistryPayload[sop.Handle]) error {
	if nH(p) > 0 {
		d.r.hit("reg.add")
	}
	return d.Registry.Add(ctx, p)
}
func (d regDec) Update(ctx context.Context, p []sop.RegistryPayload[sop.Handle]) error {
	if nH(p) > 0 {
		d.r.hit("reg.upd")
	}
	return d.Registry.Update(ctx, p)
}
func (d regDec) UpdateNoLocks(ctx context.Context, a bool, p []sop.RegistryPayload[sop.Handle]) error {
	if nH(p) > 0 {
		d.r.hit("reg.updnl")
	}
	return d.Registry.UpdateNoLocks(ctx, a, p)
}
func (d regDec) Remove(ctx context.Context, p []sop.RegistryPayload[sop.UUID]) error {
	if nU(p) > 0 {
		d.r.hit("reg.rem")
	}
	return d.Registry.Remove(ctx, p)
}
func (d regDec) Close() error {
	if c, ok := d.Registry.(io.Closer); ok {
		return c.Close()
	}
	return nil
}

type blobDec struct {
	sop.BlobStore
	r *rec
}

func nKV(p []sop.BlobsPayload[sop.KeyValuePair[sop.UUID, []byte]]) (n int) {
	for _, x := range p {
		n += len(x.Blobs)
	}
	return
}
func (d blobDec) GetOne(ctx context.Context, t string, id sop.UUID) ([]byte, error) {
	d.r.touched = true
	return d.BlobStore.GetOne(ctx, t, id)
}
func (d blobDec) Add(ctx context.Context, p []sop.BlobsPayload[sop.KeyValuePair[sop.UUID, []byte]]) error {
	if nKV(p) > 0 {
		d.r.hit("blob.add")
	}
	return d.BlobStore.Add(ctx, p)
}
func (d blobDec) Update(ctx context.Context, p []sop.BlobsPayload[sop.KeyValuePair[sop.UUID, []byte]]) error {
	if nKV(p) > 0 {
		d.r.hit("blob.upd")
	}
	return d.BlobStore.Update(ctx, p)
}
func (d blobDec) Remove(ctx context.Context, p []sop.BlobsPayload[sop.UUID]) error {
	n := 0
	for _, x := range p {
		n += len(x.Blobs)
	}
	if n > 0 {
		d.r.hit("blob.rem")
	}
	return d.BlobStore.Remove(ctx, p)
}

// ---- a real transaction on a scratch folder ---------------------------------------------------------------

// one process-wide L2 cache, as in a real single-process deployment (the L1 cache is a process-wide singleton
// bound to the first L2 it sees). Cases are isolated by a fresh folder and store name each.
var l2 = cache.NewL2InMemoryCache()

const storeName = "s14"

type txn struct {
	tp *common.Transaction
	t  sop.Transaction
	r  *rec
	b3 btree.BtreeInterface[int, string]
}

// newTxn mirrors infs.NewTwoPhaseCommitTransaction (no replication) with decorators around the three data backends.
func newTxn(ctx context.Context, dir string, mode sop.TransactionMode) (*txn, error) {
	rt, err := fs.NewReplicationTracker(ctx, []string{dir}, false, l2)
	if err != nil {
		return nil, err
	}
	sr, err := fs.NewStoreRepository(ctx, rt, fs.NewManageStoreFolder(fs.NewFileIO()), l2, fs.MinimumModValue)
	if err != nil {
		return nil, err
	}
	r := &rec{}
	tl := fs.NewTransactionLog(l2, rt)
	reg := fs.NewRegistry(mode == sop.ForWriting, fs.MinimumModValue, rt, l2)
	tp, err := common.NewTwoPhaseCommitTransaction(mode, -1, blobDec{fs.NewBlobStore(dir, nil, nil), r}, srDec{sr, r}, regDec{reg, r}, l2, tl)
	if err != nil {
		return nil, err
	}
	rt.SetTransactionID(tp.GetID())
	t, err := sop.NewTransaction(mode, tp)
	if err != nil {
		return nil, err
	}
	return &txn{tp: tp, t: t, r: r}, nil
}

func storeOptions(dir string) sop.StoreOptions {
	return sop.StoreOptions{Name: storeName, SlotLength: 8, IsUnique: true, IsValueDataInNodeSegment: true,
		DisableRegistryStoreFormatting: true, DisableBlobStoreFormatting: true, BlobStoreBaseFolderPath: dir}
}

func errClass(err error) string {
	if err == nil {
		return "ok"
	}
	m := err.Error()
	switch {
	case strings.Contains(m, "rollback failed"):
		return "err:rollbackfailed"
	case strings.Contains(m, "has not started"), strings.Contains(m, "has not begun"), strings.Contains(m, "call Begin to start"):
		return "err:notbegun"
	case strings.Contains(m, "is ongoing"):
		return "err:ongoing"
	case strings.Contains(m, "transaction is done"):
		return "err:done"
	case strings.Contains(m, "already committed"):
		return "err:committed"
	case strings.Contains(m, "not for writing"):
		return "err:readonly"
	case strings.Contains(m, "does not exist"):
		return "err:nostore"
	case strings.Contains(m, "phase 1 commit has not been invoke"):
		return "err:nophase1"
	}
	return "err:other"
}

func boolRes(b bool, err error) string {
	if err != nil {
		return errClass(err)
	}
	if b {
		return "ok true"
	}
	return "ok false"
}

var alphabet = []string{"begin", "phase1", "phase2", "commit", "rollback", "close", "newbtree", "openbtree", "add", "find", "update", "remove", "get"}

// do runs one op on the real objects and returns the result class.
func (x *txn) do(ctx context.Context, dir, op string) (res string, detail string) {
	var err error
	switch op {
	case "begin":
		err = x.t.Begin(ctx)
	case "phase1":
		err = x.tp.Phase1Commit(ctx)
	case "phase2":
		err = x.tp.Phase2Commit(ctx)
	case "commit":
		err = x.t.Commit(ctx)
	case "rollback":
		err = x.t.Rollback(ctx)
	case "close":
		err = x.t.Close()
	case "newbtree":
		var b btree.BtreeInterface[int, string]
		b, err = common.NewBtree[int, string](ctx, storeOptions(dir), x.t, nil)
		if err == nil {
			x.b3 = b
		}
	case "openbtree":
		var b btree.BtreeInterface[int, string]
		b, err = common.OpenBtree[int, string](ctx, storeName, x.t, nil)
		if err == nil {
			x.b3 = b
		}
	case "add", "find", "update", "remove", "get":
		if x.b3 == nil {
			return "nohandle", ""
		}
		var ok bool
		switch op {
		case "add":
			ok, err = x.b3.Add(ctx, 1, "v")
		case "find":
			ok, err = x.b3.Find(ctx, 1, false)
		case "update":
			ok, err = x.b3.Update(ctx, 1, "w")
		case "remove":
			ok, err = x.b3.Remove(ctx, 1)
		case "get":
			ok, err = x.b3.Find(ctx, 1, false)
			if err == nil && ok {
				_, err = x.b3.GetCurrentValue(ctx)
			}
		}
		if err != nil {
			return errClass(err), err.Error()
		}
		return boolRes(ok, nil), ""
	default:
		return "bad-op", ""
	}
	if err != nil {
		return errClass(err), err.Error()
	}
	return "ok", ""
}

// setup creates the initial condition with a separate writer transaction (not part of the sequence).
func setup(ctx context.Context, dir, init string) error {
	if init == "absent" {
		return nil
	}
	x, err := newTxn(ctx, dir, sop.ForWriting)
	if err != nil {
		return err
	}
	if err := x.t.Begin(ctx); err != nil {
		return err
	}
	b, err := common.NewBtree[int, string](ctx, storeOptions(dir), x.t, nil)
	if err != nil {
		return err
	}
	if init == "one" {
		if ok, err := b.Add(ctx, 1, "v"); !ok || err != nil {
			return fmt.Errorf("setup add: %v %v", ok, err)
		}
	}
	return x.t.Commit(ctx)
}

// observe opens a fresh writer transaction on fresh repository objects and reports (exists, count, has key 1).
func observe(ctx context.Context, dir string) (string, error) {
	x, err := newTxn(ctx, dir, sop.ForWriting)
	if err != nil {
		return "", err
	}
	if err := x.t.Begin(ctx); err != nil {
		return "", err
	}
	defer x.t.Rollback(ctx)
	names, err := x.t.GetStores(ctx)
	if err != nil {
		return "", err
	}
	listed := false
	for _, n := range names {
		if n == storeName {
			listed = true
		}
	}
	if !listed {
		return "absent", nil
	}
	b, err := common.OpenBtree[int, string](ctx, storeName, x.t, nil)
	if err != nil {
		return "listed-but-open-fails:" + errClass(err), nil
	}
	ok, err := b.Find(ctx, 1, false)
	if err != nil {
		return "", err
	}
	return fmt.Sprintf("exists count=%d has1=%v", b.Count(), ok), nil
}

func modeOf(s string) sop.TransactionMode {
	switch s {
	case "write":
		return sop.ForWriting
	case "read":
		return sop.ForReading
	}
	return sop.NoCheck
}

// scratchRoot: C14 is about guards and call counts, not durability, so the scratch folders live on tmpfs when there
// is one (3x faster: the fs backends sync every write); otherwise under the orchestrator's work folder.
func scratchRoot() string {
	if r := os.Getenv("VERIF_C14_SCRATCH"); r != "" {
		return r
	}
	return hx.WorkRoot()
}

// ---- one case ---------------------------------------------------------------------------------------------

type failure struct {
	Sig, What, Detail string
}

type caseResult struct {
	Ops        []string  `json:"ops"`
	Outs       []string  `json:"outs"`
	Hits       []string  `json:"hits"`
	Fails      []failure `json:"fails"`
	Nontrivial bool      `json:"nt"`
	Err        string    `json:"err,omitempty"`
}

func isStoreLevel(op string) bool {
	switch op {
	case "newbtree", "openbtree", "add", "find", "update", "remove", "get":
		return true
	}
	return false
}
func isMutation(op string) bool { return op == "add" || op == "update" || op == "remove" }

func initSeen(init string) string {
	switch init {
	case "empty":
		return "exists count=0"
	case "one":
		return "exists count=1"
	}
	return "absent"
}

// runCase runs one call sequence on a fresh folder and evaluates the direct oracle on what the real code answered.
func runCase(ctx context.Context, mode, init string, ops []string) (res caseResult) {
	fail := func(sig, what, detail string) { res.Fails = append(res.Fails, failure{sig, what, detail}) }
	hit := func(k string) { res.Hits = append(res.Hits, k) }
	dir, err := os.MkdirTemp(scratchRoot(), "c14-")
	if err != nil {
		res.Err = err.Error()
		return
	}
	defer os.RemoveAll(dir)
	if err := setup(ctx, dir, init); err != nil {
		res.Err = "setup: " + err.Error()
		return
	}
	x, err := newTxn(ctx, dir, modeOf(mode))
	if err != nil {
		res.Err = "newTxn: " + err.Error()
		return
	}
	writer := mode == "write"
	var (
		beganOK, committedOK, finished, dirty bool
		createdByNewBtree                     bool // a newbtree of this case issued StoreRepository.Add
		p1WroteOK, secondP1AfterWrites        bool
		anyBegunActivity                      bool
	)
	for _, op := range ops {
		begunBefore := x.tp.HasBegun()
		r, _ := x.do(ctx, dir, op)
		w := x.r.take()
		pd, com, ls := common.VerifC14State(x.tp)
		okRes := strings.HasPrefix(r, "ok")
		hit("op:" + op)
		hit("res:" + strings.ReplaceAll(r, " ", "_"))
		if begunBefore {
			hit("begun:" + op)
			if op != "begin" && op != "close" {
				anyBegunActivity = true
			}
		}
		// (b) a mutation that succeeds after an effective phase 1 of a writer: outside the tie (see the rule text)
		if writer && pd == 1 && ls >= 2 && isMutation(op) && r == "ok true" {
			dirty = true
		}
		ws := "-"
		if len(w) > 0 {
			ws = strings.Join(w, ",")
		}
		d01 := map[bool]string{false: "0", true: "1"}
		res.Ops = append(res.Ops, op)
		res.Outs = append(res.Outs, fmt.Sprintf("%s pd=%d c=%s dirty=%s w=%s", r, pd, d01[com], d01[dirty], ws))

		// ---- direct oracle on this call ----
		if isStoreLevel(op) && okRes && !begunBefore {
			fail("C14/op-ok-without-begun", "a store-level call returned ok although the transaction had not begun (or was finished)", op)
		}
		if !writer && len(w) > 0 {
			switch {
			case op == "newbtree" && len(w) == 1 && w[0] == "sr.add":
				createdByNewBtree = true
				hit("readonly_newbtree_creates_store")
				fail("C14/newbtree-creates-store-in-readonly-txn", "NewBtree in a non-writer transaction issued StoreRepository.Add (mode "+mode+")", ws)
			case createdByNewBtree && len(w) == 1 && w[0] == "sr.rem":
				hit("readonly_rollback_removes_created_store")
				fail("C14/readonly-txn-removes-store-it-created", "a non-writer transaction issued StoreRepository.Remove for the store its NewBtree had created (call "+op+")", ws)
			default:
				fail("C14/write-in-readonly-txn", "a non-writer transaction issued a data write from "+op, ws)
			}
		}
		if !writer && isMutation(op) && okRes {
			fail("C14/mutation-accepted-in-readonly-txn", "add/update/remove returned ok in a non-writer transaction (mode "+mode+")", op+" -> "+r)
		}
		if committedOK && op == "rollback" && okRes {
			fail("C14/rollback-after-commit-succeeded", "Rollback returned nil after a successful commit", "")
		}
		if committedOK && !com {
			fail("C14/committed-flag-lost", "the transaction no longer reports committed", op)
		}
		if finished {
			if len(w) > 0 {
				fail("C14/write-after-finish", "a finished transaction issued a data write from "+op, ws)
			}
			if op == "begin" && okRes {
				fail("C14/begin-after-finish", "Begin succeeded on a finished transaction", "")
			}
			if pd != 2 {
				fail("C14/finished-not-final", "phaseDone left 2", fmt.Sprint(pd))
			}
		}
		if op == "begin" && okRes {
			if beganOK {
				fail("C14/begin-twice", "Begin succeeded twice on one transaction", "")
			}
			beganOK = true
		}
		if writer && op == "phase1" {
			if p1WroteOK {
				secondP1AfterWrites = true
				hit("second_phase1_after_writes")
			}
			if okRes && len(w) > 0 {
				p1WroteOK = true
			}
		}
		if writer && op == "commit" && p1WroteOK {
			secondP1AfterWrites = true
			hit("second_phase1_after_writes")
		}
		if (op == "commit" || op == "phase2") && okRes {
			committedOK = true
			hit("committed_ok")
		}
		if beganOK && !x.tp.HasBegun() {
			finished = true
		}
		if dirty {
			hit("truncated_mutation_after_phase1")
			break
		}
	}
	res.Nontrivial = beganOK && anyBegunActivity
	// ---- end-of-case observation by a separate later transaction ----
	res.Ops = append(res.Ops, "observe")
	before := initSeen(init)
	if dirty {
		res.Outs = append(res.Outs, "skipped")
		return
	}
	after := before
	if x.r.touched {
		obs, err := observe(ctx, dir)
		if err != nil {
			res.Err = "observe: " + err.Error()
			return
		}
		f := strings.Fields(obs)
		if len(f) == 3 { // exists count=N has1=B
			after = f[0] + " " + f[1]
			if (f[1] != "count=0") != (f[2] == "has1=true") {
				fail("C14/observe-inconsistent", "store count and content disagree for the later transaction", obs)
			}
		} else {
			after = obs
		}
	} else {
		hit("untouched")
	}
	res.Outs = append(res.Outs, after)
	inflight := x.tp.HasBegun()
	switch {
	case after == before:
	case !writer && createdByNewBtree && before == "absent" && after == "exists count=0":
		hit("readonly_created_store_persists")
		// the visible consequence of the known defect, already reported at the newbtree call
	case !writer:
		fail("C14/readonly-txn-changed-store", "a non-writer transaction changed what a later transaction sees", before+" -> "+after)
	case committedOK:
		hit("writer_commit_changed_store")
	case inflight:
		hit("inflight_end_changed_store") // unfinished writer (phase 1 effects / created store): C03's subject, not judged here
	case secondP1AfterWrites:
		hit("second_phase1_strands_writes")
		fail("C14/second-phase1-strands-phase1-writes", "a second Phase1Commit after one that already wrote failed, and its rollback left the first run's writes: an uncommitted, finished transaction changed the store", before+" -> "+after)
	default:
		fail("C14/uncommitted-change-visible", "a finished transaction that never committed changed what a later transaction sees", before+" -> "+after)
	}
	return
}

// ---- worker processes (a panic inside repo goroutines would kill the process: cases run in children) --------

func worker(args []string) error {
	ctx := context.Background()
	in := bufio.NewReaderSize(os.Stdin, 1<<20)
	out := bufio.NewWriterSize(os.Stdout, 1<<20)
	defer out.Flush()
	enc := json.NewEncoder(out)
	for {
		line, err := in.ReadString('\n')
		f := strings.Fields(line)
		if len(f) >= 2 {
			r := runCase(ctx, f[0], f[1], f[2:])
			if e := enc.Encode(r); e != nil {
				return e
			}
			out.Flush()
		}
		if err != nil {
			return nil
		}
	}
}

type spec struct {
	mode, init string
	ops        []string
}

func (c spec) line() string { return c.mode + " " + c.init + " " + strings.Join(c.ops, " ") }

// runAll shards the cases over child processes and returns the results in case order. A child that dies is
// restarted after the case it died on (that case gets Err = "crash").
func runAll(cases []spec, workers int) []caseResult {
	results := make([]caseResult, len(cases))
	var wg sync.WaitGroup
	for wi := 0; wi < workers; wi++ {
		wg.Add(1)
		go func(wi int) {
			defer wg.Done()
			var idx []int
			for i := wi; i < len(cases); i += workers {
				idx = append(idx, i)
			}
			for len(idx) > 0 {
				done := runShard(cases, idx, results)
				if done < len(idx) {
					results[idx[done]] = caseResult{Err: "crash"}
					done++
				}
				idx = idx[done:]
			}
		}(wi)
	}
	wg.Wait()
	return results
}

func runShard(cases []spec, idx []int, results []caseResult) (done int) {
	bin := os.Getenv("VERIF_DRIVE")
	if bin == "" {
		bin = os.Args[0]
	}
	cmd := exec.Command(bin, "worker")
	cmd.Env = os.Environ()
	var sb strings.Builder
	for _, i := range idx {
		sb.WriteString(cases[i].line())
		sb.WriteByte('\n')
	}
	cmd.Stdin = strings.NewReader(sb.String())
	cmd.Stderr = io.Discard // package common logs at debug level through slog; nothing of it is evidence
	po, err := cmd.StdoutPipe()
	if err != nil {
		return 0
	}
	if err := cmd.Start(); err != nil {
		return 0
	}
	dec := json.NewDecoder(bufio.NewReaderSize(po, 1<<20))
	for done < len(idx) {
		var r caseResult
		if err := dec.Decode(&r); err != nil {
			break
		}
		results[idx[done]] = r
		done++
	}
	io.Copy(io.Discard, po)
	cmd.Wait()
	return done
}

// ---- generation -------------------------------------------------------------------------------------------

var core = []string{"begin", "phase1", "phase2", "commit", "rollback", "close", "newbtree", "openbtree", "add", "find"}
var full = []string{"begin", "phase1", "phase2", "commit", "rollback", "close", "newbtree", "openbtree", "add", "find", "update", "remove", "get"}
var modes = []string{"read", "nocheck", "write"}
var inits = []string{"absent", "empty", "one"}

// canReachStore: some newbtree/openbtree follows a begin. Only then can the sequence read or change the store
// (a handle needs a successful NewBtree/OpenBtree, which needs HasBegun, which needs an earlier Begin), so only
// then is it run under all three initial conditions; otherwise under `absent` alone.
func canReachStore(ops []string) bool {
	begun := false
	for _, o := range ops {
		if o == "begin" {
			begun = true
		} else if begun && (o == "newbtree" || o == "openbtree") {
			return true
		}
	}
	return false
}

func allSeqs(alpha []string, n int, prefix []string, f func([]string)) {
	if n == 0 {
		f(prefix)
		return
	}
	for _, a := range alpha {
		allSeqs(alpha, n-1, append(prefix, a), f)
	}
}

func addSeq(cases *[]spec, seen map[string]bool, ops []string) {
	key := strings.Join(ops, " ")
	if seen[key] {
		return
	}
	seen[key] = true
	cp := append([]string(nil), ops...)
	for _, m := range modes {
		if canReachStore(cp) {
			for _, in := range inits {
				*cases = append(*cases, spec{m, in, cp})
			}
		} else {
			*cases = append(*cases, spec{m, "absent", cp})
		}
	}
}

func run(o hx.RunOpts) error {
	// exAll: every sequence up to this length (full alphabet); exBegin: every `begin`+suffix up to this total length (full
	// alphabet); exOpenFull / exOpenCore: every `begin` (newbtree|openbtree) + suffix of this total length (full / core alphabet)
	exAll, exBegin, exOpenFull, exOpenCore := 4, 4, 5, 0
	nRandom := 600
	if o.Thorough() {
		exAll, exBegin, exOpenFull, exOpenCore = 5, 5, 5, 6
		nRandom = 5000
	}
	rule := fmt.Sprintf("one case = (mode in read|nocheck|write, initial store absent|empty|one item made by a separate earlier writer transaction, call sequence) run on a real common.Transaction "+
		"(real fs backends on a fresh folder behind counting decorators) through sop.SinglePhaseTransaction and btree.btreeWithTransaction; per call the result class, phaseDone, committed and the data-write calls "+
		"(StoreRepository Add/Update/Remove, Registry Add/Update/UpdateNoLocks/Remove, BlobStore Add/Update/Remove with a non-empty payload; not: reads, Replicate, transaction/priority log, L2 cache) are diffed with the model, "+
		"then what a separate later writer transaction sees (store listed, count). Alphabet %v. Enumeration: directed corpus first; EVERY sequence of length <= %d over the full alphabet; every sequence `begin`+suffix of total length <= %d over the full alphabet; "+
		"every sequence `begin` (newbtree|openbtree) + suffix of total length %d over the full alphabet%s; plus %d seeded random sequences of length 6..9 starting with begin. Sequences in which no newbtree/openbtree follows a begin cannot reach the store and run under `absent` only. "+
		"A sequence is cut right after a mutation that succeeds once a writer's Phase1Commit has done work (those continuations are outside the tie: coverage_gap). "+
		"exhaustive=true refers to the stated lengths. distinct = canonical op-file hash; non-trivial = Begin succeeded and at least one further call other than Close ran while HasBegun.",
		full, exAll, exBegin, exOpenFull, map[bool]string{true: fmt.Sprintf(" and of total length %d over the core alphabet %v", exOpenCore, core), false: ""}[exOpenCore > 0], nRandom)
	s := hx.NewSession(o, rule)
	s.Rep.Exhaustive = true
	s.Rep.CoverageGap = []string{"continuations after a store mutation that succeeds while phaseDone = 1 and the writer's phase 1 has already done work (accepted by the guards; observed on the real code: silently dropped changes, count corruption on Rollback, a later Find that panics) are not diffed with the model: the case is cut at that call"}

	var cases []spec
	seen := map[string]bool{}
	// directed corpus: the Lean counterexample first, then one case per mechanism
	for _, c := range [][]string{
		{"begin", "newbtree", "commit"},        // C14_counterexample (read / nocheck, store absent)
		{"begin", "newbtree", "rollback"},      // the created store is removed again: a second write
		{"begin", "newbtree", "add", "commit"}, // wrapper guard rolls back; writer: real commit
		{"begin", "openbtree", "find", "commit", "rollback", "begin"},
		{"begin", "newbtree", "add", "phase1", "phase1"}, // second phase 1
		{"begin", "openbtree", "add", "phase1", "phase1", "rollback"},
		{"begin", "openbtree", "remove", "phase1", "phase1", "phase2"},
		{"begin", "openbtree", "update", "phase1", "phase2", "rollback", "commit", "begin"},
		{"begin", "openbtree", "get", "phase1", "rollback"},
		{"begin", "newbtree", "add", "phase1", "remove", "phase2"}, // cut at `remove`
	} {
		addSeq(&cases, seen, c)
	}
	for n := 1; n <= exAll; n++ {
		allSeqs(full, n, nil, func(q []string) { addSeq(&cases, seen, q) })
	}
	for n := 1; n < exBegin; n++ {
		allSeqs(full, n, []string{"begin"}, func(q []string) { addSeq(&cases, seen, q) })
	}
	for _, first := range []string{"newbtree", "openbtree"} {
		allSeqs(full, exOpenFull-2, []string{"begin", first}, func(q []string) { addSeq(&cases, seen, q) })
		if exOpenCore > 0 {
			allSeqs(core, exOpenCore-2, []string{"begin", first}, func(q []string) { addSeq(&cases, seen, q) })
		}
	}
	p := hx.NewPrng(o.Seed)
	for i := 0; i < nRandom*o.Scale; i++ {
		n := 5 + p.Intn(4)
		q := []string{"begin"}
		if p.Chance(3, 4) {
			q = append(q, []string{"newbtree", "openbtree"}[p.Intn(2)])
		}
		for len(q) < n+1 {
			q = append(q, full[p.Intn(len(full))])
		}
		addSeq(&cases, seen, q)
	}

	if os.Getenv("VERIF_C14_SCRATCH") == "" {
		if d, err := os.MkdirTemp("/dev/shm", "verif-c14-"); err == nil {
			os.Setenv("VERIF_C14_SCRATCH", d)
			defer os.RemoveAll(d)
		}
	}
	workers := 8
	if v := os.Getenv("VERIF_C14_WORKERS"); v != "" {
		fmt.Sscan(v, &workers)
	}
	const batch = 40000
	for lo := 0; lo < len(cases); lo += batch {
		hi := lo + batch
		if hi > len(cases) {
			hi = len(cases)
		}
		results := runAll(cases[lo:hi], workers)
		for i, c := range cases[lo:hi] {
			emit(s, c, results[i])
		}
	}
	return s.Finish()
}

func emit(s *hx.Session, c spec, r caseResult) {
	s.BeginCase(c.mode + " " + c.init)
	if r.Err != "" {
		for _, op := range c.ops {
			s.Op(op, "harness-error")
		}
		if r.Err == "crash" {
			s.Fail("C14/process-crash", "the process died while running this sequence (panic inside the repository code)", c.line())
		} else {
			s.Fail("C14/harness-error", "the case could not be run", r.Err)
		}
		return
	}
	for j := range r.Ops {
		s.Op(r.Ops[j], r.Outs[j])
	}
	s.Hit("mode:" + c.mode)
	s.Hit("init:" + c.init)
	s.Hit(fmt.Sprintf("len:%d", len(c.ops)))
	for _, h := range r.Hits {
		s.Hit(h)
	}
	if r.Nontrivial {
		s.Nontrivial()
	}
	for _, f := range r.Fails {
		// hx keeps the first 200 failures only: record at most 5 per signature so that thousands of instances of a
		// known finding cannot crowd out a different failure; the histogram still counts every instance
		if failsBySig[f.Sig] < 5 {
			failsBySig[f.Sig]++
			s.Fail(f.Sig, f.What, f.Detail)
		} else {
			s.Hit("oracle_fail:" + f.Sig)
		}
	}
}

var failsBySig = map[string]int{}

func explore(args []string) error {
	ctx := context.Background()
	if len(args) < 2 {
		return fmt.Errorf("usage: explore mode init ops...")
	}
	r := runCase(ctx, args[0], args[1], args[2:])
	for i := range r.Ops {
		fmt.Printf("%-10s %s\n", r.Ops[i], r.Outs[i])
	}
	fmt.Println("fails:", r.Fails, "err:", r.Err, "nontrivial:", r.Nontrivial)
	return nil
}

func main() {
	hx.Main(run, "", nil, map[string]func([]string) error{"explore": explore, "worker": worker})
}
