package main

// Item lock records of the transaction under test: observation (records in the real L2 cache + the real tracker),
// the decorator's view of itemActionTracker.lock (what it writes; one disturbed call per case), other
// transactions' records, and the oracle "no lock left behind".

import (
	"context"
	"encoding/json"
	"fmt"
	"os"
	"sort"
	"strings"
	"time"

	"github.com/sharedcode/sop"
	"github.com/sharedcode/sop/cache"
	"github.com/sharedcode/sop/common"
)

// lockRec mirrors common.lockRecord (same JSON).
type lockRec struct {
	LockID sop.UUID
	Action int
}

var actGet, actAdd, actUpdate, actRemove = func() (int, int, int, int) {
	a := common.VerifC15Actions()
	return a[0], a[1], a[2], a[3]
}()

func actCh(a int) string {
	switch a {
	case actGet:
		return "g"
	case actAdd:
		return "a"
	case actUpdate:
		return "u"
	case actRemove:
		return "r"
	}
	return "?"
}

const lockPrefix = "lock:"

func (h *caseRun) recKey(idx int) string { return h.raw.FormatLockKey(h.itemID[idx].String()) }

func (h *caseRun) readRec(key string) (lockRec, bool) {
	var r lockRec
	ok, err := h.raw.GetStruct(context.Background(), key, &r)
	return r, ok && err == nil
}

// registerItems fixes the item indexes of the case from the tracker as it is right before Commit.
func (h *caseRun) registerItems() {
	h.ownLids = map[sop.UUID]bool{}
	h.written = map[string]bool{}
	h.planted = map[int]sop.UUID{}
	tr := common.VerifC15TrackedItems(h.txn)
	for _, e := range tr {
		h.itemKeys = append(h.itemKeys, e.Key)
		h.itemID = append(h.itemID, e.ID)
		h.ownLids[e.LockID] = true
	}
}

func (h *caseRun) idxOfKey(k int) int {
	for i, x := range h.itemKeys {
		if x == k {
			return i
		}
	}
	return -1
}

func (h *caseRun) idxOfRecKey(key string) int {
	for i := range h.itemID {
		if h.recKey(i) == key {
			return i
		}
	}
	return -1
}

// itemsState prints, per item of the case, the record in the real cache and the real tracker's entry, in the
// format of the Lean driver's showItems.
func (h *caseRun) itemsState() string {
	if h.txn == nil || len(h.itemID) == 0 {
		return "items=-"
	}
	byID := map[sop.UUID]common.VerifC15Tracked{}
	for _, e := range common.VerifC15TrackedItems(h.txn) {
		byID[e.ID] = e
		h.ownLids[e.LockID] = true
	}
	parts := make([]string, len(h.itemID))
	for i, id := range h.itemID {
		e, tracked := byID[id]
		rec := "-"
		if r, ok := h.readRec(h.recKey(i)); ok {
			switch {
			case tracked && r.LockID == e.LockID && h.ownLids[r.LockID]:
				rec = "c" + actCh(r.Action)
			case h.ownLids[r.LockID]:
				rec = "s" + actCh(r.Action)
			default:
				rec = "f" + actCh(r.Action)
			}
		}
		t := "x"
		if tracked {
			t = actCh(e.Action) + b01(e.Owner)
		}
		parts[i] = fmt.Sprintf("%d:%s/%s", i, rec, t)
	}
	return "items=" + strings.Join(parts, ",")
}

// plantForeign writes the records other transactions hold before the commit; returns the model's cache0 spec.
func (h *caseRun) plantForeign() string {
	var spec []string
	var keys []int
	for k := range h.pl.foreign {
		keys = append(keys, k)
	}
	sort.Ints(keys)
	for _, k := range keys {
		i := h.idxOfKey(k)
		if i < 0 {
			continue
		}
		lid := sop.NewUUID()
		h.planted[i] = lid
		h.raw.SetStruct(context.Background(), h.recKey(i), &lockRec{LockID: lid, Action: h.pl.foreign[k]}, time.Hour)
		spec = append(spec, fmt.Sprintf("%d%s", i, actCh(h.pl.foreign[k])))
	}
	if len(spec) == 0 {
		return "-"
	}
	return strings.Join(spec, ",")
}

// dropForeign: the other transactions finish and delete THEIR records (only if still theirs).
func (h *caseRun) dropForeign(record bool) []envLine {
	var out []envLine
	var idxs []int
	for i := range h.planted {
		idxs = append(idxs, i)
	}
	sort.Ints(idxs)
	for _, i := range idxs {
		if r, ok := h.readRec(h.recKey(i)); ok && r.LockID == h.planted[i] {
			h.raw.Delete(context.Background(), []string{h.recKey(i)})
			if record {
				out = append(out, envLine{fmt.Sprintf("env d%d", i), h.itemsState()})
			}
		}
		delete(h.planted, i)
	}
	return out
}

func inTrackerLock(st []string) bool {
	return len(st) > 0 && strings.Contains(st[0], "itemActionTracker") && strings.HasSuffix(st[0], ".lock")
}
func inTrackerCheck(st []string) bool {
	return len(st) > 0 && strings.Contains(st[0], "itemActionTracker") && strings.HasSuffix(st[0], ".checkTrackedItems")
}

func (d *deco) GetStructs(ctx context.Context, keys []string, targets []interface{}, exp time.Duration) ([]bool, error) {
	h := d.h
	if h == nil || !h.active || h.ownLids == nil {
		return d.L2Cache.GetStructs(ctx, keys, targets, exp)
	}
	st := stack()
	switch {
	case inTrackerLock(st) && !h.afterSet: // first pass of a lock call
		h.racedCall = h.lockCalls == h.pl.raceCall && h.pl.raceKind != ""
		h.lockCalls++
	case inTrackerLock(st): // the verifying read
		h.afterSet = false
		if h.racedCall && h.pl.raceKind == "readerr" {
			h.window = "!"
			h.s.Hit("lock_window_readerr")
			return nil, errInjected
		}
	case inTrackerCheck(st) && has(st, "(*Transaction).phase1Commit"):
		h.preTail, h.hasTail = h.itemsState(), true
	}
	return d.L2Cache.GetStructs(ctx, keys, targets, exp)
}

func (d *deco) SetStructs(ctx context.Context, keys []string, values []interface{}, exp time.Duration) error {
	h := d.h
	if h == nil || !h.active || h.ownLids == nil || !inTrackerLock(stack()) {
		return d.L2Cache.SetStructs(ctx, keys, values, exp)
	}
	h.afterSet = true
	for i, k := range keys {
		h.written[k] = true
		if ba, err := json.Marshal(values[i]); err == nil {
			var r lockRec
			if json.Unmarshal(ba, &r) == nil {
				h.ownLids[r.LockID] = true
			}
		}
	}
	err := d.L2Cache.SetStructs(ctx, keys, values, exp)
	if h.racedCall {
		h.setOrder = nil
		for _, k := range keys {
			h.setOrder = append(h.setOrder, h.idxOfRecKey(k))
		}
		if h.pl.raceKind == "overwrite" && len(keys) > 0 {
			// another writer, which read "no record" at the same moment, writes its own record over the first key
			i := h.setOrder[0]
			lid := sop.NewUUID()
			h.planted[i] = lid
			h.raw.SetStruct(ctx, keys[0], &lockRec{LockID: lid, Action: actUpdate}, time.Hour)
			h.window = fmt.Sprintf("p%du", i)
			h.s.Hit("lock_window_overwrite")
		}
	}
	return err
}

// trackerSpec: the model's tracker, in the verify order of the disturbed lock call when there is one.
func (h *caseRun) trackerSpec(before []common.VerifC15Tracked) string {
	if len(before) == 0 {
		return "-"
	}
	act := map[int]int{}
	for _, e := range before {
		act[h.idxOfKey(e.Key)] = e.Action
	}
	var order []int
	seen := map[int]bool{}
	for _, i := range h.setOrder {
		if i >= 0 && !seen[i] {
			order, seen[i] = append(order, i), true
		}
	}
	for i := range h.itemKeys {
		if !seen[i] {
			order = append(order, i)
		}
	}
	parts := make([]string, len(order))
	for n, i := range order {
		parts[n] = fmt.Sprintf("%d%s", i, actCh(act[i]))
	}
	return strings.Join(parts, ",")
}

// leftBehind is the oracle "no lock left behind": after Commit returned (whatever the outcome) no lock record
// under a LockID of the finished transaction and no live node lock entry may be in the cache. It returns the
// signature of the first leak ("" when clean). The signature is computed from the end state: what the tracker
// still knows about the leaked record tells the mechanism.
func (h *caseRun) leftBehind(scName, fc string, cerr error) string {
	sig := ""
	now := time.Now()
	byID := map[sop.UUID]common.VerifC15Tracked{}
	for _, e := range common.VerifC15TrackedItems(h.txn) {
		byID[e.ID] = e
	}
	for _, de := range cache.VerifC15DataEntries(h.raw, lockPrefix) {
		if !de.Expiration.IsZero() && !de.Expiration.After(now) {
			continue
		}
		var r lockRec
		if json.Unmarshal(de.Data, &r) != nil {
			continue
		}
		i := h.idxOfRecKey(de.Key)
		if !h.ownLids[r.LockID] {
			if i >= 0 && h.planted[i] == r.LockID {
				continue // a record of "another transaction" of this case
			}
			h.s.Fail("C15/unknown-lock-record-after-commit", "a lock record that nobody of this case owns is in the L2 cache after all its transactions ended",
				fmt.Sprintf("scenario=%s key=%s rec=%+v", scName, de.Key, r))
			continue
		}
		one, what := "C15/item-lock-record-left-behind", "a lock record written by the finished transaction is still in the L2 cache (it stays until its TTL = the transaction's maxTime and blocks every writer of that item)"
		e, tracked := common.VerifC15Tracked{}, false
		if i >= 0 {
			e, tracked = byID[h.itemID[i]]
		}
		msg := ""
		if cerr != nil {
			msg = cerr.Error()
		}
		switch {
		case !tracked && fc != "success" && strings.Contains(msg, "refetchAndMergeModifications failed"):
			one = "C15/item-lock-record-forgotten-after-failed-refetch"
			what = "refetchAndMerge failed part-way: it had emptied the item tracker and re-registered only some items, so the final rollback does not delete the lock records of the others"
		case tracked && e.LockID == r.LockID && !e.Owner && fc != "success" && (strings.Contains(msg, "lock(item:") || strings.Contains(msg, errInjected.Error())):
			one = "C15/item-lock-record-unowned-after-lock-early-return"
			what = "itemActionTracker.lock returned at the first entry that failed verification (or on a read error) after it had written the records: the entries after it are written but never marked isLockOwner, so rollback skips them"
		case tracked && e.LockID != r.LockID:
			what = "the tracker entry of the item carries another LockID than the record the transaction wrote (lock identity lost on re-registration): neither phase 2 nor rollback deletes it"
		}
		k := -1
		if i >= 0 {
			k = h.itemKeys[i]
		}
		h.s.Fail(one, what, fmt.Sprintf("scenario=%s exit=%s storeKey=%d item=%d rec=%s%s tracked=%v entry={lid-same=%v owner=%v act=%s} err=%q",
			scName, fc, k, i, actCh(r.Action), "", tracked, e.LockID == r.LockID, e.Owner, actCh(e.Action), msg))
		if sig == "" {
			sig = one
		}
	}
	for _, le := range cache.VerifLockEntries(h.raw) {
		if strings.HasPrefix(le.Key, lockPrefix) && len(le.Key) == len(lockPrefix)+36 && le.Expiration.After(now) {
			h.s.Fail("C15/locks-held-after-giveup", "a node lock entry is still live in the L2 cache after Commit returned ("+fc+")", le.Key)
		}
	}
	return sig
}

func (d *deco) Delete(ctx context.Context, keys []string) (bool, error) {
	h := d.h
	if h != nil && h.active && h.ownLids != nil && os.Getenv("C15_DEBUG") != "" {
		for _, k := range keys {
			if strings.HasPrefix(k, lockPrefix) {
				fmt.Fprintf(os.Stderr, "C15DEBUG delete %s by %v\n", k, stack()[:4])
			}
		}
	}
	return d.L2Cache.Delete(ctx, keys)
}
