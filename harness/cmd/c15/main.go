// Command c15 drives property C15 ("commits end within their time budget and never deadlock").
//
// Three kinds of cases:
//
//	loop   scripted: a REAL write transaction (fs backends, in-memory L2) commits while an L2 decorator, installed
//	       under both the transaction and its registry, decides every lock call of the phase-1 loop (node-key
//	       Lock / IsLocked / DualLock, registry sector-lock attempts, the "DTrollbk" lock) from a generated plan and
//	       advances a fake clock (sop.Now) by the planned amount inside that call. Refusals are real where possible
//	       (a foreign owner really holds one of the keys in the real cache), conflicts are real (a competitor
//	       transaction really commits into the same node). The observed sequence of decisions is the script the
//	       Lean model (Sop.Retry.step) is run on; after every decision both sides print what comes next, the
//	       iteration count, whether the node locks are held, and the clock.
//	       Item lock records (items.go): the transaction tracks read / updated / removed / added items and mixes; after
//	       every decision both sides also print, per tracked item, the lock record in the L2 cache and the tracker's
//	       entry (Model R-items); other transactions' records are planted / withdrawn, one itemActionTracker.lock call
//	       per case may be disturbed between its write and its verifying read, a competitor may add a key the
//	       transaction adds too (the replay of the refetch then fails part-way). Oracle "no lock left behind" after
//	       EVERY commit attempt: no record under a LockID of the finished transaction and no live node-lock entry is in
//	       the cache; a follower updating the items it only read and one updating the items it wrote must commit.
//	table  the in-memory L2 Lock/Unlock/IsLocked against the model's lock table (all-or-nothing, re-entry, TTL).
//	bound  MEASUREMENTS with the real clock: opposite-order contention, a stalled holder, a holder that never
//	       unlocks; Commit duration is compared with the model's bound + 2 s, and a follow-up transaction on the
//	       same keys must commit.
package main

import (
	"context"
	"encoding/json"
	"errors"
	"fmt"
	"math/rand"
	"os"
	"runtime"
	"strings"
	"sync"
	"time"

	"github.com/sharedcode/sop"
	"github.com/sharedcode/sop/btree"
	"github.com/sharedcode/sop/cache"
	"github.com/sharedcode/sop/common"
	"github.com/sharedcode/sop/fs"

	"verifharness/c15facts"
	"verifharness/hx"
	"verifharness/txk"
)

func main() { hx.Main(run, "Sop.FactsC15", c15facts.Facts, nil) }

// ---------------------------------------------------------------------------------------------------------
// fake clock and fake context

type fakeClock struct {
	mu   sync.Mutex
	base time.Time
	off  time.Duration
	ctxs []*fakeCtx
}

func (c *fakeClock) Now() time.Time { c.mu.Lock(); defer c.mu.Unlock(); return c.base.Add(c.off) }
func (c *fakeClock) Ms() int64      { c.mu.Lock(); defer c.mu.Unlock(); return int64(c.off / time.Millisecond) }
func (c *fakeClock) Advance(ms int64) {
	c.mu.Lock()
	c.off += time.Duration(ms) * time.Millisecond
	for _, x := range c.ctxs {
		if !x.closed && c.off >= x.dl {
			x.closed = true
			close(x.done)
		}
	}
	c.mu.Unlock()
}

// fakeCtx is a context whose deadline lives on the fake clock.
type fakeCtx struct {
	c      *fakeClock
	dl     time.Duration
	done   chan struct{}
	closed bool
}

func (c *fakeClock) WithDeadline(ms int64) context.Context {
	x := &fakeCtx{c: c, dl: time.Duration(ms) * time.Millisecond, done: make(chan struct{})}
	c.mu.Lock()
	c.ctxs = append(c.ctxs, x)
	c.mu.Unlock()
	return x
}
func (x *fakeCtx) Deadline() (time.Time, bool) { return x.c.base.Add(x.dl), true }
func (x *fakeCtx) Done() <-chan struct{}       { return x.done }
func (x *fakeCtx) Err() error {
	x.c.mu.Lock()
	defer x.c.mu.Unlock()
	if x.c.off >= x.dl {
		return context.DeadlineExceeded
	}
	return nil
}
func (x *fakeCtx) Value(any) any { return nil }

type zeroSrc struct{}

func (zeroSrc) Int63() int64 { return 0 }
func (zeroSrc) Seed(int64)   {}

// ---------------------------------------------------------------------------------------------------------
// plan and recording

type lockDir struct {
	dt       int64
	out      string // granted | refused | error
	conflict bool   // a competitor commits into the same node while this call is in flight
	j        int    // which key (after sorting) the foreign owner holds
	compAdd  int    // >0: the competitor ADDS this key (one the transaction under test adds too) instead of updating key 10
}
type boolDir struct {
	dt int64
	v  bool
	j  int
}

type plan struct {
	locks   []lockDir
	isl     []boolDir // v = answer yes
	duals   []boolDir // v = granted
	sectors []boolDir // v = busy
	handles []boolDir // v = granted
	sectorForever *boolDir // when the list is used up: every further attempt in the body answers this

	// item lock records: what other transactions do
	foreign  map[int]int // store key -> action (actGet/actUpdate) of a record another transaction holds before the commit
	dropAt   int         // the foreign records are deleted (their owners finished) at the entry of this Lock decision; -1 never
	raceCall int         // which itemActionTracker.lock call is disturbed (0 = the one before the loop); -1 none
	hasDrop  bool
	raceKind string      // "overwrite": another writer's record lands on the first key between write and verify; "readerr": the verifying read fails
}

type obs struct {
	held    bool
	partial bool
	nkeys   int
	clock   int64
	items   string // item lock records and tracker entries (see itemsState)
}

type envLine struct{ line, items string }

type event struct {
	kind    string // lock islocked duallock sector handle | derived: refetch body fail
	dt      int64
	out     string
	rec     bool
	pre     obs
	derived bool
	env     []envLine // other transactions' actions applied at the entry of this call (after pre was observed)
}

type caseRun struct {
	s       *hx.Session
	clock   *fakeClock
	raw     sop.L2Cache
	env     *txk.Env
	dir     string
	txn     *common.Transaction
	ctx     context.Context
	pl      plan
	active  bool
	events  []*event
	exitObs *obs
	il, ii, id, is, ih int
	maxTime int64
	dlMs    int64 // -1 none
	compN   int
	compErr error
	foreign sop.UUID
	// measured mode hook
	onFirstLock func(ks []*sop.LockKey)
	firstDone   bool
	busySectors bool // measured mode: every sector-lock attempt inside the loop body is answered "busy"
	mu          sync.Mutex
	pending     [][3]string

	// item lock records
	itemKeys  []int                  // store keys of the tracked items, ascending: item index = position
	itemID    []sop.UUID             // item index -> item id
	ownLids   map[sop.UUID]bool      // every LockID the transaction's tracker ever carried or wrote
	written   map[string]bool        // lock record keys the transaction wrote (SetStructs inside itemActionTracker.lock)
	planted   map[int]sop.UUID       // item index -> LockID of the record the harness planted for "another transaction"
	lockCalls int                    // itemActionTracker.lock calls begun
	afterSet  bool                   // inside a lock call, after its SetStructs
	racedCall bool                   // the current lock call is the disturbed one
	setOrder  []int                  // item indexes in the key order of the disturbed call's SetStructs (= its verify order)
	window    string                 // the model's window of the disturbed call
	preTail   string                 // items state at the entry of checkTrackedItems (end of phase 1)
	hasTail   bool
}

// fail defers an oracle failure until the case's op lines are written (so the replay carries the input).
func (h *caseRun) fail(sig, what, detail string) { h.pending = append(h.pending, [3]string{sig, what, detail}) }

type deco struct {
	sop.L2Cache
	h *caseRun
}

var errInjected = errors.New("verif: injected lock error")

func stack() []string {
	pcs := make([]uintptr, 40)
	n := runtime.Callers(3, pcs)
	fr := runtime.CallersFrames(pcs[:n])
	var out []string
	for {
		f, more := fr.Next()
		out = append(out, f.Function)
		if !more {
			break
		}
	}
	return out
}
func has(st []string, sub string) bool {
	for _, f := range st {
		if strings.Contains(f, sub) {
			return true
		}
	}
	return false
}

// direct: the decorator method was called by phase1Commit itself.
func direct(st []string) bool {
	return len(st) > 0 && strings.HasSuffix(st[0], "(*Transaction).phase1Commit")
}

func (h *caseRun) observe() obs {
	o := obs{clock: h.clock.Ms()}
	if h.txn == nil {
		return o
	}
	ks := common.VerifC15NodesKeys(h.txn)
	o.nkeys = len(ks)
	n := 0
	for _, k := range ks {
		if ok, _ := h.raw.IsLocked(context.Background(), []*sop.LockKey{k}); ok {
			n++
		}
	}
	o.held = n > 0 && n == len(ks)
	o.partial = n > 0 && n < len(ks)
	if h.ownLids != nil {
		o.items = h.itemsState()
	}
	return o
}

func (h *caseRun) budgetExceeded(clock int64) bool {
	return clock > h.maxTime || (h.dlMs >= 0 && clock >= h.dlMs)
}

func (d *deco) Lock(ctx context.Context, dur time.Duration, ks []*sop.LockKey) (bool, sop.UUID, error) {
	h := d.h
	if h == nil || !h.active {
		return d.L2Cache.Lock(ctx, dur, ks)
	}
	st := stack()
	if !direct(st) {
		return d.L2Cache.Lock(ctx, dur, ks)
	}
	if h.onFirstLock != nil {
		h.mu.Lock()
		first := !h.firstDone
		h.firstDone = true
		h.mu.Unlock()
		if first {
			h.onFirstLock(ks)
		}
		return d.L2Cache.Lock(ctx, dur, ks)
	}
	pre := h.observe()
	dir := lockDir{out: "granted"}
	if h.il < len(h.pl.locks) {
		dir = h.pl.locks[h.il]
	}
	h.il++
	// direct oracle (loop_checks_time_first): a lock attempt is never made once the budget is exhausted
	if h.budgetExceeded(pre.clock) {
		h.fail("C15/lock-attempt-after-deadline", "the phase-1 loop called Lock(nodesKeys) although the budget was already exhausted at the loop head",
			fmt.Sprintf("clock=%dms maxTime=%dms deadline=%d attempt=%d", pre.clock, h.maxTime, h.dlMs, h.il))
	}
	if pre.partial {
		h.fail("C15/partial-hold-while-waiting", "the transaction came back to the loop head holding a proper subset of its node locks",
			fmt.Sprintf("attempt=%d keys=%d", h.il, pre.nkeys))
	}
	h.clock.Advance(dir.dt)
	var env []envLine
	if h.ownLids != nil && h.pl.dropAt == h.il-1 {
		env = h.dropForeign(true) // the other transactions finish
	}
	if dir.conflict {
		h.active = false
		if err := h.competitor(dir.compAdd); err != nil && h.compErr == nil {
			h.compErr = err
		}
		h.active = true
	}
	ev := &event{kind: "lock", dt: dir.dt, pre: pre, env: env}
	h.events = append(h.events, ev)
	switch dir.out {
	case "error":
		ev.out = "error"
		return false, sop.NilUUID, errInjected
	case "refused":
		ev.out = "refused"
		if len(ks) > 0 && !pre.held {
			// a foreign owner really holds key j (in sorted order): the real Lock is refused after acquiring j keys
			sorted := append([]*sop.LockKey(nil), ks...)
			sortKeys(sorted)
			fk := &sop.LockKey{Key: sorted[dir.j%len(sorted)].Key, LockID: h.foreign}
			if ok, _, _ := h.raw.Lock(ctx, time.Hour, []*sop.LockKey{fk}); ok {
				ok2, owner, err := d.L2Cache.Lock(ctx, dur, ks)
				// all-or-nothing, observed on the real cache right after the refusal
				n := 0
				for _, k := range ks {
					if l, _ := h.raw.IsLocked(ctx, []*sop.LockKey{k}); l {
						n++
					}
				}
				h.raw.Unlock(ctx, []*sop.LockKey{fk})
				if ok2 {
					ev.out = "granted"
					h.fail("C15/lock-granted-over-foreign-holder", "Lock was granted although another owner holds one of the keys", fk.Key)
				} else if n > 0 {
					h.fail("C15/lock-refused-leaves-partial-hold", "a refused Lock left some of the keys locked by the caller", fmt.Sprintf("%d of %d", n, len(ks)))
				}
				h.s.Hit("lock_refused_real_j" + fmt.Sprint(min(dir.j%len(sorted), 3)))
				return ok2, owner, err
			}
		}
		h.s.Hit("lock_refused_forced")
		return false, h.foreign, nil
	}
	ok, owner, err := d.L2Cache.Lock(ctx, dur, ks)
	ev.out = "granted"
	if !ok {
		ev.out = "refused"
	}
	if err != nil {
		ev.out = "error"
	}
	return ok, owner, err
}

func sortKeys(ks []*sop.LockKey) {
	for i := 1; i < len(ks); i++ {
		for j := i; j > 0 && ks[j].Key < ks[j-1].Key; j-- {
			ks[j], ks[j-1] = ks[j-1], ks[j]
		}
	}
}

func (d *deco) IsLocked(ctx context.Context, ks []*sop.LockKey) (bool, error) {
	h := d.h
	if h == nil || !h.active || h.onFirstLock != nil {
		return d.L2Cache.IsLocked(ctx, ks)
	}
	if !direct(stack()) {
		return d.L2Cache.IsLocked(ctx, ks)
	}
	pre := h.observe()
	dir := boolDir{v: true}
	if h.ii < len(h.pl.isl) {
		dir = h.pl.isl[h.ii]
	}
	h.ii++
	h.clock.Advance(dir.dt)
	ev := &event{kind: "islocked", dt: dir.dt, pre: pre, out: "1"}
	h.events = append(h.events, ev)
	if !dir.v {
		ev.out = "0"
		return false, nil
	}
	ok, err := d.L2Cache.IsLocked(ctx, ks)
	if !ok {
		ev.out = "0"
	}
	return ok, err
}

func (d *deco) DualLock(ctx context.Context, dur time.Duration, ks []*sop.LockKey) (bool, sop.UUID, error) {
	h := d.h
	if h != nil && h.active && h.busySectors {
		st := stack()
		if has(st, "(*Transaction).phase1Commit") && !has(st, "(*Transaction).rollback") && len(st) > 0 &&
			(strings.HasSuffix(st[0], "(*hashmap).findAndAdd") || strings.HasSuffix(st[0], "(*hashmap).lockFileBlockRegion")) {
			return false, h.foreign, nil
		}
		return d.L2Cache.DualLock(ctx, dur, ks)
	}
	if h == nil || !h.active || h.onFirstLock != nil {
		return d.L2Cache.DualLock(ctx, dur, ks)
	}
	st := stack()
	inLoop := has(st, "(*Transaction).phase1Commit") && !has(st, "(*Transaction).rollback")
	switch {
	case inLoop && len(st) > 0 && (strings.HasSuffix(st[0], "(*hashmap).findAndAdd") || strings.HasSuffix(st[0], "(*hashmap).lockFileBlockRegion")):
		// one attempt of a sector-lock wait loop (the file pre-allocation lock taken below findAndAdd is not one)
		rec := strings.HasSuffix(st[0], "(*hashmap).lockFileBlockRegion")
		pre := h.observe()
		dir := boolDir{}
		if h.is < len(h.pl.sectors) {
			dir = h.pl.sectors[h.is]
		} else if h.pl.sectorForever != nil {
			dir = *h.pl.sectorForever
		}
		h.is++
		h.clock.Advance(dir.dt)
		ev := &event{kind: "sector", dt: dir.dt, pre: pre, out: "0", rec: rec}
		h.events = append(h.events, ev)
		if dir.v {
			ev.out = "1"
			return false, h.foreign, nil
		}
		return d.L2Cache.DualLock(ctx, dur, ks)
	case inLoop && has(st, "handleRegistrySectorLockTimeout"):
		pre := h.observe()
		dir := boolDir{v: true}
		if h.ih < len(h.pl.handles) {
			dir = h.pl.handles[h.ih]
		}
		h.ih++
		h.clock.Advance(dir.dt)
		ev := &event{kind: "handle", dt: dir.dt, pre: pre, out: "1"}
		h.events = append(h.events, ev)
		if !dir.v {
			ev.out = "0"
			return false, h.foreign, nil
		}
		return d.L2Cache.DualLock(ctx, dur, ks)
	case direct(st):
		pre := h.observe()
		dir := boolDir{v: true}
		if h.id < len(h.pl.duals) {
			dir = h.pl.duals[h.id]
		}
		h.id++
		h.clock.Advance(dir.dt)
		hk := "0"
		if len(ks) > 0 {
			hk = "1"
		}
		h.events = append(h.events, &event{kind: "refetch", dt: 0, out: hk, pre: pre, derived: true})
		ev := &event{kind: "duallock", dt: dir.dt, pre: pre, out: "1"}
		h.events = append(h.events, ev)
		if !dir.v {
			ev.out = "0"
			if len(ks) > 0 {
				sorted := append([]*sop.LockKey(nil), ks...)
				sortKeys(sorted)
				fk := &sop.LockKey{Key: sorted[dir.j%len(sorted)].Key, LockID: h.foreign}
				// the keys may still be held by the transaction from the head Lock (same LockKeys): release is its job
				if ok, _, _ := h.raw.Lock(ctx, time.Hour, []*sop.LockKey{fk}); ok {
					ok2, owner, err := d.L2Cache.DualLock(ctx, dur, ks)
					h.raw.Unlock(ctx, []*sop.LockKey{fk})
					if ok2 {
						ev.out = "1"
					}
					h.s.Hit("duallock_refused_real")
					return ok2, owner, err
				}
			}
			h.s.Hit("duallock_refused_forced")
			return false, h.foreign, nil
		}
		ok, owner, err := d.L2Cache.DualLock(ctx, dur, ks)
		if !ok {
			ev.out = "0"
		}
		return ok, owner, err
	}
	return d.L2Cache.DualLock(ctx, dur, ks)
}

func (d *deco) Unlock(ctx context.Context, ks []*sop.LockKey) error {
	h := d.h
	if h != nil && h.active && h.onFirstLock == nil && h.exitObs == nil {
		st := stack()
		if has(st, "(*Transaction).unlockNodesKeys") && has(st, "(*Transaction).Phase1Commit") && !has(st, "(*Transaction).phase1Commit") {
			o := h.observe()
			h.exitObs = &o
		}
	}
	return d.L2Cache.Unlock(ctx, ks)
}

// ---------------------------------------------------------------------------------------------------------
// store set-up

const storeName = "c15s"

func must(err error) {
	if err != nil {
		panic(err)
	}
}

// setup creates the store with n items (keys 0..n-1) through an undecorated transaction.
func setup(dir string, raw sop.L2Cache, slot, n int) error {
	ctx := context.Background()
	env := &txk.Env{Dir: dir, HashMod: 64, L2: raw, Canon: txk.NewCanon()}
	t, err := env.NewTxn(ctx, sop.ForWriting, 15*time.Minute, nil)
	if err != nil {
		return err
	}
	if err := t.T.Begin(ctx); err != nil {
		return err
	}
	b, err := txk.NewBtree[int, string](ctx, t, env.StoreOpts(storeName, slot, true))
	if err != nil {
		return err
	}
	for i := 0; i < n; i++ {
		if _, err := b.Add(ctx, i*10, fmt.Sprintf("v%d", i)); err != nil {
			return err
		}
	}
	return t.T.Commit(ctx)
}

type txnOps struct {
	rd  []int // keys to read (tracked get)
	upd []int // keys to update
	rm  []int // keys to remove
	add []int // keys to add
}

func applyOps(ctx context.Context, b btree.BtreeInterface[int, string], ops txnOps, tag string) error {
	for _, k := range ops.rd {
		if ok, err := b.Find(ctx, k, false); err != nil || !ok {
			return fmt.Errorf("find %d: %v %v", k, ok, err)
		}
		if _, err := b.GetCurrentValue(ctx); err != nil {
			return fmt.Errorf("read %d: %v", k, err)
		}
	}
	for _, k := range ops.upd {
		if ok, err := b.Update(ctx, k, tag); err != nil || !ok {
			return fmt.Errorf("update %d: %v %v", k, ok, err)
		}
	}
	for _, k := range ops.rm {
		if ok, err := b.Remove(ctx, k); err != nil || !ok {
			return fmt.Errorf("remove %d: %v %v", k, ok, err)
		}
	}
	for _, k := range ops.add {
		if ok, err := b.Add(ctx, k, tag); err != nil || !ok {
			return fmt.Errorf("add %d: %v %v", k, ok, err)
		}
	}
	return nil
}

func (h *caseRun) competitor(addKey int) error {
	h.compN++
	ctx := context.Background()
	env := &txk.Env{Dir: h.dir, HashMod: 64, L2: h.raw, Canon: h.env.Canon}
	t, err := env.NewTxn(ctx, sop.ForWriting, 15*time.Minute, nil)
	if err != nil {
		return err
	}
	if err := t.T.Begin(ctx); err != nil {
		return err
	}
	b, err := txk.OpenBtree[int, string](ctx, t, storeName)
	if err != nil {
		return err
	}
	if addKey > 0 {
		// the competitor adds a key the transaction under test adds too (added items carry no lock record)
		if ok, err := b.Add(ctx, addKey, fmt.Sprintf("comp%d", h.compN)); err != nil || !ok {
			t.T.Rollback(ctx)
			return fmt.Errorf("competitor add: %v %v", ok, err)
		}
		return t.T.Commit(ctx)
	}
	// a key next to the first key the transaction under test updates: same leaf, different item
	if ok, err := b.Update(ctx, 10, fmt.Sprintf("comp%d", h.compN)); err != nil || !ok {
		t.T.Rollback(ctx)
		return fmt.Errorf("competitor update: %v %v", ok, err)
	}
	return t.T.Commit(ctx)
}

func followUp(dir string, raw sop.L2Cache, upd []int) error {
	ops := txnOps{upd: upd}
	ctx := context.Background()
	env := &txk.Env{Dir: dir, HashMod: 64, L2: raw, Canon: txk.NewCanon()}
	t, err := env.NewTxn(ctx, sop.ForWriting, 15*time.Minute, nil)
	if err != nil {
		return err
	}
	if err := t.T.Begin(ctx); err != nil {
		return err
	}
	b, err := txk.OpenBtree[int, string](ctx, t, storeName)
	if err != nil {
		return err
	}
	keys := ops.upd
	if len(keys) == 0 {
		keys = []int{0}
		if ok, _ := b.Find(ctx, 0, false); !ok {
			if _, err := b.Add(ctx, 0, "follow"); err != nil {
				return err
			}
			return t.T.Commit(ctx)
		}
	}
	for _, k := range keys {
		if ok, err := b.Update(ctx, k, "follow"); err != nil || !ok {
			t.T.Rollback(ctx)
			return fmt.Errorf("follow-up update %d: %v %v", k, ok, err)
		}
	}
	return t.T.Commit(ctx)
}

func classify(err error) string {
	if err == nil {
		return "success"
	}
	var te sop.ErrTimeout
	if errors.As(err, &te) && te.Name == "transaction" {
		return "timeout"
	}
	if strings.Contains(err.Error(), "exceeded retry limit") {
		return "retrycap"
	}
	return "error"
}

// ---------------------------------------------------------------------------------------------------------
// one scripted case

type scen struct {
	name    string
	items   int // items in the store before the transaction under test (0 = empty store: new root)
	slot    int
	ops     txnOps
	maxTime int64
	dlMs    int64
	pl      plan
}

func b01(b bool) string {
	if b {
		return "1"
	}
	return "0"
}

func runLoopCase(s *hx.Session, sc scen) error {
	dir, err := os.MkdirTemp(hx.WorkRoot(), "c15-")
	if err != nil {
		return err
	}
	defer os.RemoveAll(dir)
	cache.VerifResetGlobalL1()
	raw := cache.NewL2InMemoryCache()
	cache.GetGlobalL1Cache(raw)
	clk := &fakeClock{base: time.Now()}
	sop.Now = clk.Now
	defer func() { sop.Now = time.Now }()
	if err := setup(dir, raw, sc.slot, sc.items); err != nil {
		return fmt.Errorf("setup: %w", err)
	}
	h := &caseRun{s: s, clock: clk, raw: raw, dir: dir, pl: sc.pl, maxTime: sc.maxTime, dlMs: sc.dlMs, foreign: sop.NewUUID()}
	if sc.pl.raceKind == "" {
		h.pl.raceCall = -1
	}
	if !sc.pl.hasDrop {
		h.pl.dropAt = -1
	}
	env := &txk.Env{Dir: dir, HashMod: 64, L2: &deco{L2Cache: raw, h: h}, Canon: txk.NewCanon()}
	h.env = env
	var ctx context.Context = context.Background()
	if sc.dlMs >= 0 {
		ctx = clk.WithDeadline(sc.dlMs)
	}
	h.ctx = ctx
	t, err := env.NewTxn(context.Background(), sop.ForWriting, time.Duration(sc.maxTime)*time.Millisecond, nil)
	if err != nil {
		return err
	}
	h.txn = t.P
	if err := t.T.Begin(context.Background()); err != nil {
		return err
	}
	b, err := txk.OpenBtree[int, string](context.Background(), t, storeName)
	if err != nil {
		return err
	}
	if err := applyOps(context.Background(), b, sc.ops, "T"); err != nil {
		return err
	}
	h.registerItems()
	trkBefore := common.VerifC15TrackedItems(h.txn)
	cache0 := h.plantForeign()
	h.active = true
	cerr := t.T.Commit(ctx)
	h.active = false
	fc := classify(cerr)
	if os.Getenv("C15_DEBUG") != "" && cerr != nil {
		fmt.Fprintf(os.Stderr, "C15DEBUG %s: %v\n", sc.name, cerr)
	}
	final := h.observe()
	endClock := final.clock
	afterItems := final.items
	if h.exitObs != nil {
		final = *h.exitObs
		final.items = afterItems // the records are released after the node keys: take them from the end state
	}

	// ---- translate the recorded decisions into the model's script ----
	type tev struct {
		line string
		ev   *event
		post obs
		next string
		idx  int
		hasPost bool
	}
	var out []*tev
	stage := "head" // head afterLock refetch body done
	need := false
	nRefetch := 0
	push := func(line string, ev *event) { out = append(out, &tev{line: line, ev: ev}) }
	recIdx := map[*tev]int{}
	_ = recIdx
	for i, e := range h.events {
		_ = i
		switch e.kind {
		case "lock":
			if stage == "body" {
				push("body 0 conflict", &event{kind: "body", out: "conflict", derived: true, pre: e.pre})
				need = true
			}
			push(fmt.Sprintf("lock %d %s", e.dt, e.out), e)
			switch e.out {
			case "granted":
				stage = "afterLock"
			case "refused":
				stage, need = "head", true
			default:
				stage = "done"
			}
		case "islocked":
			push(fmt.Sprintf("islocked %d %s", e.dt, e.out), e)
			if e.out == "1" {
				if need {
					stage = "refetch"
				} else {
					stage = "body"
				}
			} else {
				stage = "head"
			}
		case "refetch":
			push(fmt.Sprintf("refetch %d %s", e.dt, e.out), e)
			nRefetch++
			if h.window != "" && nRefetch == h.pl.raceCall {
				out[len(out)-1].line += " " + h.window
			}
		case "duallock":
			push(fmt.Sprintf("duallock %d %s", e.dt, e.out), e)
			if e.out == "1" {
				stage, need = "body", false
			} else {
				stage, need = "head", true
			}
		case "sector":
			push(fmt.Sprintf("sector %d %s %s", e.dt, e.out, b01(e.rec)), e)
			stage = "body"
		case "handle":
			push(fmt.Sprintf("handle %d %s", e.dt, e.out), e)
			// recoverable and granted: the loop goes on (or hits the cap); otherwise the commit ends with the error
			stage = "handled"
		}
	}
	switch stage {
	case "body":
		last := h.events[len(h.events)-1]
		sectorCtx := last.kind == "sector" && last.out == "1" && fc == "error"
		switch {
		case fc == "success":
			push("body 0 ok", &event{kind: "body", out: "ok", derived: true})
		case fc == "timeout" || fc == "retrycap":
			push("body 0 conflict", &event{kind: "body", out: "conflict", derived: true})
		case !sectorCtx:
			push("fail 0", &event{kind: "fail", derived: true})
		}
	case "refetch":
		if fc == "error" {
			msg := cerr.Error()
			switch {
			case strings.Contains(msg, "lock(item:") || strings.Contains(msg, errInjected.Error()):
				// the replay went through; the lockTrackedItems after it failed (no DualLock was reached)
				w := "-"
				if h.window != "" {
					w = h.window
				}
				push(fmt.Sprintf("refetch 0 1 %s", w), &event{kind: "refetch", out: "1", derived: true, pre: final})
			default:
				// refetchAndMerge itself failed: what it had re-registered by then is what the tracker holds now
				var rs []string
				for _, e := range common.VerifC15TrackedItems(h.txn) {
					if i := h.idxOfKey(e.Key); i >= 0 {
						rs = append(rs, fmt.Sprint(i))
					}
				}
				l := "-"
				if len(rs) > 0 {
					l = strings.Join(rs, ",")
				}
				push("refetchfail 0 "+l, &event{kind: "refetchfail", derived: true})
				s.Hit(fmt.Sprintf("refetch_failed_after_%d_of_%d", len(rs), len(trkBefore)))
			}
		}
	case "afterLock":
		if fc == "error" {
			push("fail 0", &event{kind: "fail", derived: true})
		}
	}
	// post observation of a translated event = pre observation of the next recorded (non-derived) decision
	for i := range out {
		out[i].post = final
		for j := i + 1; j < len(out); j++ {
			if !out[j].ev.derived || out[j].ev.kind == "refetch" {
				out[j-0].idx = j
				out[i].post = out[j].ev.pre
				out[i].hasPost = true
				break
			}
		}
	}
	kindOf := func(i int) string {
		if i < len(out) {
			return out[i].ev.kind
		}
		return "exit:" + fc
	}
	hdl := "-"
	if sc.dlMs >= 0 {
		hdl = fmt.Sprint(sc.dlMs)
	}
	hasKeys := false
	if len(h.events) > 0 {
		hasKeys = h.events[0].pre.nkeys > 0
	}
	w0 := "-"
	if h.window != "" && h.pl.raceCall == 0 {
		w0 = h.window
	}
	s.BeginCase(fmt.Sprintf("loop %d %s 0 %s %s %s %s", sc.maxTime, hdl, b01(hasKeys), h.trackerSpec(trkBefore), cache0, w0))
	iter := 0
	nx := kindOf(0)
	if nx == "lock" {
		iter = 1
	}
	first := final
	if len(h.events) > 0 {
		first = h.events[0].pre
	}
	s.Op("start", fmt.Sprintf("next=%s iter=%d held=%s clock=%d %s", nx, iter, b01(first.held), first.clock, first.items))
	retry := 0
	need = false
	for i, t := range out {
		e := t.ev
		nk := kindOf(i + 1)
		next := nk
		for _, el := range e.env {
			s.Op(el.line, el.items)
		}
		if nk == "fail" || nk == "refetchfail" { // the model names the stage it is in, not the error that ends it
			switch {
			case e.kind == "islocked" && e.out == "1" && need:
				next = "refetch"
			case e.kind == "lock":
				next = "islocked"
			case e.kind == "refetch":
				next = "duallock"
			default:
				next = "body"
			}
		}
		switch {
		case e.kind == "islocked" && e.out == "1" && !need, e.kind == "duallock" && e.out == "1", e.kind == "sector" && e.out == "0":
			next = "body"
		case e.kind == "sector" && e.out == "1":
			switch nk {
			case "sector":
				next = "wait"
			case "handle":
				next = "handle"
			default:
				next = "exit:" + fc
			}
		}
		switch {
		case e.kind == "lock" && e.out == "refused", e.kind == "duallock" && e.out == "0":
			need = true
		case e.kind == "duallock" && e.out == "1":
			need = false
		case e.kind == "body" && e.out == "conflict":
			need = true
			retry++
		case e.kind == "handle" && e.out == "1" && out[i-1].ev.rec:
			need = true
			retry++
		}
		if next == "lock" {
			iter++
		}
		held := b01(t.post.held)
		if next == "body" || next == "refetch" || next == "exit:success" || e.kind == "refetch" {
			held = "-"
		}
		// the records after this decision: observed at the entry of the next decorated call; at the end of phase 1
		// (entry of checkTrackedItems) when only derived events follow in a commit that succeeds; after Commit
		// returned when the decision ends the commit; not observable otherwise (`~`)
		items, line := t.post.items, t.line
		switch {
		case next == "exit:success" || (!t.hasPost && fc == "success" && !strings.HasPrefix(next, "exit:")):
			if h.hasTail {
				items = h.preTail
			} else { // checkTrackedItems read nothing (only added items): no observation point
				items, line = "items=~", line+" ~"
			}
		case strings.HasPrefix(next, "exit:"):
			items = afterItems
		case i+1 >= len(out) || out[i+1].ev.derived:
			items, line = "items=~", line+" ~"
		}
		s.Op(line, fmt.Sprintf("next=%s iter=%d held=%s clock=%d %s", next, iter, held, t.post.clock, items))
		// direct oracle (negation of Statement_C15): the code goes on waiting for a sector lock although the budget is gone
		if next == "wait" && h.budgetExceeded(t.post.clock) {
			s.Fail("C15/sector-lock-wait-ignores-maxtime",
				"a registry sector-lock wait continues after the transaction's budget (maxTime / context deadline) is exhausted",
				fmt.Sprintf("scenario=%s maxTime=%dms deadline=%s waited until clock=%dms; Commit returned at clock=%dms (%s)", sc.name, sc.maxTime, hdl, t.post.clock, endClock, fc))
		}
	}
	if fc == "success" {
		s.Op("tail ok", afterItems) // the rest of phase 1 (checkTrackedItems) and phase 2
	}
	s.Op("final", fmt.Sprintf("exit=%s iter=%d retry=%d", fc, iter, retry))

	// ---- direct oracles on the outcome ----
	for _, f := range h.pending {
		s.Fail(f[0], f[1], f[2])
	}
	s.Hit("scen:" + sc.name)
	s.Hit("exit:" + fc)
	if len(h.events) > 1 {
		s.Nontrivial()
	}
	selfConflict := cerr != nil && strings.Contains(cerr.Error(), "call detected conflict") && h.compN == 0 &&
		len(sc.pl.foreign) == 0 && sc.pl.raceKind == "" // nobody else's record was ever there
	if selfConflict {
		// no other transaction exists in this case: the "conflict" is with the transaction's own item lock records
		s.Fail("C15/refused-lock-retry-self-conflict",
			"after a refused node Lock the retry refetches, re-registers its updates under NEW item LockIDs and then fails lockTrackedItems on its OWN earlier lock records",
			fmt.Sprintf("scenario=%s: %v", sc.name, cerr))
	}
	if h.compErr != nil {
		s.Fail("C15/harness-competitor-failed", "the competitor transaction of the harness could not commit", h.compErr.Error())
	}
	if fc == "retrycap" && retry != common.VerifC15Phase1MaxRetry() {
		s.Fail("C15/retry-cap-not-at-limit", "the loop gave up with the retry-limit error at a different count", fmt.Sprint(retry))
	}
	if retry > 30 {
		s.Fail("C15/retry-cap-exceeded", "more than 30 unsuccessful rounds in one commit (the property's retry cap)", fmt.Sprint(retry))
	}
	// no lock left behind: whatever the outcome, nothing of the transaction's node keys stays locked, none of its
	// item lock records stays in the cache, and followers on the same items commit
	after := h.observe()
	if after.held || after.partial {
		s.Fail("C15/locks-held-after-giveup", "node locks are still held after Commit returned ("+fc+")", fmt.Sprintf("%+v", after))
	}
	leakSig := h.leftBehind(sc.name, fc, cerr)
	if leakSig == "" {
		s.Hit("no_record_left_after_" + fc)
	}
	h.dropForeign(false) // the other transactions of the case finish too
	sop.Now = time.Now
	blocked := func(who string, err error) {
		switch {
		case selfConflict && strings.Contains(err.Error(), "call detected conflict"):
			s.Fail("C15/item-lock-records-leak-after-self-conflict",
				"the item lock records of a transaction that gave up after its refetch self-conflict stay in the L2 cache (rollback unlocks only records it believes it owns): a follow-up on the same items fails until their TTL (= the dead transaction's maxTime)",
				err.Error())
		case leakSig != "" && strings.Contains(err.Error(), "call detected conflict"):
			s.Fail(leakSig, "a follow-up transaction on "+who+" is refused by a lock record the finished transaction left behind ("+fc+")", err.Error())
		default:
			s.Fail("C15/follow-up-blocked", "a follow-up transaction on "+who+" could not commit after the transaction under test ended ("+fc+")", err.Error())
		}
	}
	// (1) a writer of the items the transaction only READ
	var readOnly []int
	for _, k := range sc.ops.rd {
		wr := false
		for _, u := range append(append([]int{}, sc.ops.upd...), sc.ops.rm...) {
			wr = wr || u == k
		}
		if !wr {
			readOnly = append(readOnly, k)
		}
	}
	if len(readOnly) > 0 {
		if err := followUp(dir, raw, readOnly); err != nil {
			blocked("the items it only read", err)
		} else {
			s.Hit("followup_on_read_items_ok_after_" + fc)
		}
	}
	// (2) a writer of the items it wrote (the removed ones exist only if it did not commit)
	wrote := append([]int{}, sc.ops.upd...)
	if fc != "success" {
		wrote = append(wrote, sc.ops.rm...)
	}
	if err := followUp(dir, raw, wrote); err != nil {
		blocked("the items it wrote", err)
	} else {
		s.Hit("followup_ok_after_" + fc)
	}
	// the followers are transactions too
	for _, de := range cache.VerifC15DataEntries(raw, lockPrefix) {
		if de.Expiration.IsZero() || de.Expiration.After(time.Now()) {
			var r lockRec
			if json.Unmarshal(de.Data, &r) == nil && !h.ownLids[r.LockID] {
				s.Fail("C15/follower-lock-record-left-behind", "a follow-up transaction left a lock record in the L2 cache after it ended", de.Key)
			}
		}
	}
	return nil
}

// ---------------------------------------------------------------------------------------------------------
// generators

func dts(p *hx.Prng) int64 {
	return []int64{0, 0, 0, 1, 50, 400, 999, 1000, 1001, 1500, 2500, 60000}[p.Intn(12)]
}

func genScen(p *hx.Prng, i int) scen {
	sc := scen{items: 20, slot: 4, maxTime: []int64{2000, 3000, 5000, 900000}[p.Intn(4)], dlMs: -1}
	if p.Chance(1, 4) {
		sc.dlMs = []int64{1000, 2500, 4000, 100000}[p.Intn(4)]
	}
	nupd := 1 + p.Intn(4)
	for k := 0; k < nupd; k++ {
		sc.ops.upd = append(sc.ops.upd, []int{0, 50, 100, 150, 190}[k])
	}
	switch k := p.Intn(10); {
	case k == 0:
		sc.name = "clean"
	case k <= 3:
		sc.name = "refusals"
		n := 1 + p.Intn(5)
		for j := 0; j < n; j++ {
			sc.pl.locks = append(sc.pl.locks, lockDir{dt: dts(p), out: "refused", j: p.Intn(5)})
		}
		if p.Chance(1, 3) {
			sc.pl.duals = append(sc.pl.duals, boolDir{dt: dts(p), v: false, j: p.Intn(5)})
		}
		if p.Chance(1, 6) {
			sc.pl.locks = append(sc.pl.locks, lockDir{dt: dts(p), out: "error"})
		}
	case k <= 5:
		sc.name = "islocked-no"
		n := 1 + p.Intn(4)
		for j := 0; j < n; j++ {
			sc.pl.isl = append(sc.pl.isl, boolDir{dt: dts(p), v: false})
		}
		if p.Chance(1, 2) {
			sc.pl.locks = append(sc.pl.locks, lockDir{dt: dts(p), out: "granted"}, lockDir{dt: dts(p), out: "refused", j: p.Intn(3)})
		}
	case k <= 7:
		sc.name = "conflicts"
		sc.maxTime = 900000
		n := 1 + p.Intn(3)
		for j := 0; j < n; j++ {
			sc.pl.locks = append(sc.pl.locks, lockDir{dt: []int64{0, 10, 700}[p.Intn(3)], out: "granted", conflict: true})
		}
		if p.Chance(1, 3) {
			sc.maxTime = 2000
		}
	default:
		sc.name = "sector"
		sc.ops.upd = sc.ops.upd[:1]
		if p.Chance(1, 3) {
			sc.name = "sector-newroot"
			sc.items = 0
			sc.ops = txnOps{add: []int{7}}
		} else {
			sc.ops.add = []int{200, 201, 202, 203, 204}
		}
		// a few free attempts, then a wait
		nfree := p.Intn(3)
		for j := 0; j < nfree; j++ {
			sc.pl.sectors = append(sc.pl.sectors, boolDir{dt: 0, v: false})
		}
		nbusy := 1 + p.Intn(5)
		for j := 0; j < nbusy; j++ {
			sc.pl.sectors = append(sc.pl.sectors, boolDir{dt: []int64{100, 30000, 60000, 90000, 180001}[p.Intn(5)], v: true})
		}
		if p.Chance(1, 2) {
			sc.pl.sectorForever = &boolDir{dt: 60000, v: true}
		}
		sc.pl.handles = append(sc.pl.handles, boolDir{dt: 0, v: p.Chance(3, 4)})
	}
	genItems(p, &sc)
	return sc
}

// genItems varies WHAT the transaction tracks (read / updated / removed / added items and mixes) and what other
// transactions do to the item lock records, on top of the loop scenario chosen above.
func genItems(p *hx.Prng, sc *scen) {
	if sc.items == 0 {
		return // empty store: only adds
	}
	readKeys := []int{20, 60, 110, 160, 180}
	if p.Chance(2, 3) {
		n := 1 + p.Intn(3)
		o := p.Intn(len(readKeys))
		for j := 0; j < n; j++ {
			sc.ops.rd = append(sc.ops.rd, readKeys[(o+j)%len(readKeys)])
		}
		if p.Chance(1, 5) && len(sc.ops.upd) > 0 {
			sc.ops.rd = append(sc.ops.rd, sc.ops.upd[0]) // read, then updated: one entry, action update
		}
	}
	if p.Chance(1, 4) {
		sc.ops.rm = append(sc.ops.rm, []int{30, 70, 120}[p.Intn(3)])
		if p.Chance(1, 3) {
			sc.ops.rm = append(sc.ops.rm, 130)
		}
	}
	if p.Chance(1, 4) && len(sc.ops.add) == 0 {
		sc.ops.add = []int{205 + p.Intn(3)}
	}
	if len(sc.ops.rd) > 0 && p.Chance(1, 8) && !strings.HasPrefix(sc.name, "sector") {
		sc.ops.upd = nil // a writer-mode transaction that only read (and maybe added)
		sc.name += "+readonly"
	}
	// other readers hold (compatible) records on some of the items the transaction reads
	if len(sc.ops.rd) > 0 && p.Chance(1, 3) {
		sc.pl.foreign = map[int]int{}
		for _, k := range sc.ops.rd {
			if p.Chance(1, 2) {
				sc.pl.foreign[k] = actGet
			}
		}
		if p.Chance(2, 3) {
			sc.pl.hasDrop, sc.pl.dropAt = true, p.Intn(3)
		}
		sc.name += "+readers"
	}
	// a writer holds a record on one of the transaction's items: the commit is refused before the loop
	if p.Chance(1, 25) {
		all := append(append(append([]int{}, sc.ops.rd...), sc.ops.upd...), sc.ops.rm...)
		if len(all) > 0 {
			if sc.pl.foreign == nil {
				sc.pl.foreign = map[int]int{}
			}
			sc.pl.foreign[all[p.Intn(len(all))]] = actUpdate
			sc.name += "+writer"
		}
	}
	// one disturbed itemActionTracker.lock call (C15-F4): the first one, or the one after the first conflict round
	if p.Chance(1, 12) {
		sc.pl.raceKind = []string{"overwrite", "readerr"}[p.Intn(2)]
		sc.pl.raceCall = 0
		if strings.HasPrefix(sc.name, "conflicts") && p.Chance(1, 2) {
			sc.pl.raceCall = 1
		}
		sc.name += "+" + sc.pl.raceKind
	}
	// the competitor adds a key this transaction adds too, while its node lock is refused: the replay of the add fails (C15-F5)
	if strings.HasPrefix(sc.name, "refusals") && len(sc.pl.locks) > 0 && p.Chance(1, 6) {
		sc.ops.add = []int{209}
		sc.pl.locks[0].conflict, sc.pl.locks[0].compAdd = true, 209
		sc.name += "+dupadd"
	}
}

// directed corpus; the first is the Lean witness of C15_counterexample (finding C15-F1)
func corpus() []scen {
	w := scen{name: "F1-witness", items: 20, slot: 4, maxTime: 2000, dlMs: -1, ops: txnOps{upd: []int{0}, add: []int{200, 201, 202, 203, 204}}}
	w.pl.sectorForever = &boolDir{dt: 60000, v: true}
	w2 := scen{name: "F1-witness-newroot", items: 0, slot: 4, maxTime: 2000, dlMs: -1, ops: txnOps{add: []int{7}}}
	w2.pl.sectorForever = &boolDir{dt: 60000, v: true}
	cap30 := scen{name: "retry-cap", items: 20, slot: 4, maxTime: 900000, dlMs: -1, ops: txnOps{upd: []int{0, 100}}}
	for j := 0; j < 31; j++ {
		cap30.pl.locks = append(cap30.pl.locks, lockDir{out: "granted", conflict: true})
	}
	clean := scen{name: "clean", items: 20, slot: 4, maxTime: 2000, dlMs: -1, ops: txnOps{upd: []int{0, 100}}}
	late := scen{name: "refused-then-late", items: 20, slot: 4, maxTime: 2000, dlMs: -1, ops: txnOps{upd: []int{0, 100, 190}}}
	late.pl.locks = []lockDir{{dt: 1000, out: "refused", j: 1}, {dt: 1001, out: "refused", j: 2}}
	edge := scen{name: "refused-edge", items: 20, slot: 4, maxTime: 2000, dlMs: -1, ops: txnOps{upd: []int{0, 100, 190}}}
	edge.pl.locks = []lockDir{{dt: 2000, out: "refused", j: 0}, {dt: 1, out: "refused", j: 1}}
	ctxd := scen{name: "ctx-deadline", items: 20, slot: 4, maxTime: 5000, dlMs: 1000, ops: txnOps{upd: []int{0, 100}}}
	ctxd.pl.locks = []lockDir{{dt: 999, out: "refused", j: 0}, {dt: 1, out: "refused", j: 1}}
	wctx := scen{name: "sector-ctx", items: 20, slot: 4, maxTime: 2000, dlMs: 100000, ops: txnOps{upd: []int{0}, add: []int{200, 201, 202, 203, 204}}}
	wctx.pl.sectorForever = &boolDir{dt: 60000, v: true}
	// item lock records
	// the shape of the seeded blind spot: one item only read, one updated, the node lock refused once
	rdRef := scen{name: "read+update-refused-once", items: 20, slot: 4, maxTime: 900000, dlMs: -1, ops: txnOps{rd: []int{20}, upd: []int{0}}}
	rdRef.pl.locks = []lockDir{{dt: 10, out: "refused", j: 0}}
	rdGive := scen{name: "read+update-refused-then-error", items: 20, slot: 4, maxTime: 900000, dlMs: -1, ops: txnOps{rd: []int{20, 110}, upd: []int{0}, rm: []int{70}}}
	rdGive.pl.locks = []lockDir{{dt: 10, out: "refused", j: 0}, {dt: 0, out: "granted"}, {dt: 0, out: "error"}}
	rdGive.pl.duals = []boolDir{{dt: 0, v: false, j: 0}}
	rdTO := scen{name: "read+remove-refused-timeout", items: 20, slot: 4, maxTime: 2000, dlMs: -1, ops: txnOps{rd: []int{60}, rm: []int{30}, upd: []int{100}}}
	rdTO.pl.locks = []lockDir{{dt: 1500, out: "refused", j: 0}, {dt: 0, out: "granted"}}
	rdTO.pl.duals = []boolDir{{dt: 600, v: false, j: 1}}
	rdConf := scen{name: "read+update-conflict-round", items: 20, slot: 4, maxTime: 900000, dlMs: -1, ops: txnOps{rd: []int{20, 160}, upd: []int{0, 100}}}
	rdConf.pl.locks = []lockDir{{out: "granted", conflict: true}, {dt: 5, out: "refused", j: 1}}
	readers := scen{name: "readers-finish-during-refusal", items: 20, slot: 4, maxTime: 900000, dlMs: -1, ops: txnOps{rd: []int{20, 60}, upd: []int{0}}}
	readers.pl.locks = []lockDir{{dt: 10, out: "refused", j: 0}, {dt: 10, out: "refused", j: 0}}
	readers.pl.foreign = map[int]int{20: actGet, 60: actGet}
	readers.pl.hasDrop, readers.pl.dropAt = true, 1
	// Lean: C15_items_counterexample_lock_early_return (finding C15-F4)
	f4 := scen{name: "F4-witness-overwrite", items: 20, slot: 4, maxTime: 900000, dlMs: -1, ops: txnOps{upd: []int{0, 50, 100}}}
	f4.pl.raceKind, f4.pl.raceCall = "overwrite", 0
	f4b := scen{name: "F4-witness-readerr", items: 20, slot: 4, maxTime: 900000, dlMs: -1, ops: txnOps{rd: []int{20}, upd: []int{0}}}
	f4b.pl.raceKind, f4b.pl.raceCall = "readerr", 0
	// Lean: C15_items_counterexample_failed_refetch (finding C15-F5); which records stay depends on the replay order
	f5 := scen{name: "F5-witness-dupadd", items: 20, slot: 4, maxTime: 900000, dlMs: -1, ops: txnOps{rd: []int{20, 110}, upd: []int{0, 100}, add: []int{209}}}
	f5.pl.locks = []lockDir{{dt: 10, out: "refused", j: 0, conflict: true, compAdd: 209}}
	return []scen{w, w2, clean, late, edge, ctxd, wctx, cap30, rdRef, rdGive, rdTO, rdConf, readers, f4, f4b, f5, f5, f5}
}

// ---------------------------------------------------------------------------------------------------------
// lock table cases (real in-memory L2 against the model's table)

func runTableCase(s *hx.Session, p *hx.Prng) {
	raw := cache.NewL2InMemoryCache()
	ctx := context.Background()
	owners := []sop.UUID{sop.NewUUID(), sop.NewUUID(), sop.NewUUID()}
	names := []string{"a", "b", "c", "d", "e"}
	s.BeginCase("table")
	now := 1
	n := 4 + p.Intn(10)
	mask := func(o int, ks []string) string {
		if len(ks) == 0 {
			return "-"
		}
		var b strings.Builder
		for _, k := range ks {
			lk := &sop.LockKey{Key: raw.FormatLockKey(k), LockID: owners[o]}
			if ok, _ := raw.IsLocked(ctx, []*sop.LockKey{lk}); ok {
				b.WriteByte('1')
			} else {
				b.WriteByte('0')
			}
		}
		return b.String()
	}
	sawRefusedPartial, sawExpiry := false, false
	for i := 0; i < n; i++ {
		o := p.Intn(3)
		nk := 1 + p.Intn(4)
		var ks []string
		for j := 0; j < nk; j++ {
			ks = append(ks, names[p.Intn(len(names))])
		}
		lks := make([]*sop.LockKey, len(ks))
		for j, k := range ks {
			lks[j] = &sop.LockKey{Key: raw.FormatLockKey(k), LockID: owners[o]}
		}
		kl := strings.Join(ks, ",")
		switch p.Intn(6) {
		case 0:
			raw.Unlock(ctx, lks)
			s.Op(fmt.Sprintf("unlock %d %d %s", now, o+1, kl), mask(o, ks))
		case 1:
			ok, _ := raw.IsLocked(ctx, lks)
			s.Op(fmt.Sprintf("islocked %d %d %s", now, o+1, kl), b01(ok)+" "+mask(o, ks))
		default:
			short := p.Chance(1, 4)
			before := mask(o, ks)
			if short {
				ok, _, _ := raw.Lock(ctx, 3*time.Millisecond, lks)
				s.Op(fmt.Sprintf("lockall %d 0 %d %s", now, o+1, kl), b01(ok)+" "+mask(o, ks))
				time.Sleep(6 * time.Millisecond) // the short locks are expired at the next logical instant
				sawExpiry = sawExpiry || ok
			} else {
				ok, _, _ := raw.Lock(ctx, time.Hour, lks)
				after := mask(o, ks)
				s.Op(fmt.Sprintf("lockall %d 1000000 %d %s", now, o+1, kl), b01(ok)+" "+after)
				if !ok {
					// all-or-nothing: nothing newly held
					for j := range after {
						if after[j] == '1' && before[j] == '0' {
							s.Fail("C15/lock-refused-leaves-partial-hold", "a refused Lock left a key newly locked by the caller", kl)
						}
					}
					if len(ks) > 1 {
						sawRefusedPartial = true
					}
				}
			}
		}
		now++
	}
	s.Hit("table")
	if sawRefusedPartial {
		s.Hit("table_refused_multi")
		s.Nontrivial()
	}
	if sawExpiry {
		s.Hit("table_ttl_expiry")
	}
}

// ---------------------------------------------------------------------------------------------------------
// measurements (real clock)

type measured struct {
	name string
	dur  time.Duration
	err  error
}

func openAndCommit(dir string, l2 sop.L2Cache, maxTime time.Duration, ops txnOps, tag string, sc *txk.Script) (time.Duration, error) {
	ctx := context.Background()
	env := &txk.Env{Dir: dir, HashMod: 64, L2: l2, Canon: txk.NewCanon()}
	t, err := env.NewTxn(ctx, sop.ForWriting, maxTime, sc)
	if err != nil {
		return 0, err
	}
	if err := t.T.Begin(ctx); err != nil {
		return 0, err
	}
	b, err := txk.OpenBtree[int, string](ctx, t, storeName)
	if err != nil {
		return 0, err
	}
	if err := applyOps(ctx, b, ops, tag); err != nil {
		return 0, err
	}
	t0 := time.Now()
	err = t.T.Commit(ctx)
	return time.Since(t0), err
}

func runMeasured(s *hx.Session, p *hx.Prng, kind int) error {
	dir, err := os.MkdirTemp(hx.WorkRoot(), "c15m-")
	if err != nil {
		return err
	}
	defer os.RemoveAll(dir)
	cache.VerifResetGlobalL1()
	raw := cache.NewL2InMemoryCache()
	cache.GetGlobalL1Cache(raw)
	sop.Now = time.Now
	if err := setup(dir, raw, 4, 20); err != nil {
		return err
	}
	sectorCap := int64(fs.VerifC15LockSectorRetryTimeout() / time.Millisecond)
	capRetry := common.VerifC15Phase1MaxRetry()
	selfConf := false
	check := func(name string, maxTime time.Duration, d time.Duration, err error, mustSucceed bool) {
		if err != nil && strings.Contains(err.Error(), "call detected conflict") {
			selfConf = true
		}
		// no sector lock is contended in these scenarios, so the model's bound is the budget itself (+ 2 s of slack
		// for scheduling, file-system latency and the 20–80 ms sleeps)
		bound := maxTime + 2*time.Second
		s.Hit("measured:" + name + ":" + classify(err))
		if d > bound {
			s.Fail("C15/measured-commit-exceeds-bound", "MEASUREMENT: Commit took longer than the model's bound + 2 s",
				fmt.Sprintf("%s: %v > %v (%v)", name, d, bound, err))
		}
		if mustSucceed && err != nil && strings.Contains(err.Error(), "call detected conflict") {
			s.Fail("C15/refused-lock-retry-self-conflict",
				"MEASUREMENT: a waiter with enough budget to outwait the holder was refused once, refetched, and then failed lockTrackedItems on its OWN earlier item lock records",
				name+": "+err.Error())
		} else if mustSucceed && err != nil {
			s.Fail("C15/measured-commit-failed", "MEASUREMENT: a commit that had enough budget to outwait the other party failed", name+": "+err.Error())
		}
	}
	hdr := func(mt time.Duration) {
		s.BeginCase("bound")
		ms := int64(mt / time.Millisecond)
		s.Op(fmt.Sprintf("bound %d -", ms), fmt.Sprintf("%d %d %d", ms, sectorCap, capRetry))
		s.Nontrivial()
	}
	switch kind {
	case 0: // two transactions touching the same keys in opposite order
		mt := 3 * time.Second
		hdr(mt)
		var wg sync.WaitGroup
		res := make([]measured, 2)
		// the same nodes in opposite order, different items (the same items would be an item-level conflict, refused at once)
		opsA := txnOps{upd: []int{0, 100, 190}}
		opsB := txnOps{upd: []int{180, 110, 10}}
		for i, ops := range []txnOps{opsA, opsB} {
			wg.Add(1)
			go func(i int, ops txnOps) {
				defer wg.Done()
				d, err := openAndCommit(dir, raw, mt, ops, fmt.Sprintf("m%d", i), nil)
				res[i] = measured{dur: d, err: err}
			}(i, ops)
		}
		done := make(chan struct{})
		go func() { wg.Wait(); close(done) }()
		select {
		case <-done:
		case <-time.After(mt + 10*time.Second):
			s.Fail("C15/measured-deadlock", "MEASUREMENT: two commits over the same keys in opposite order did not return", "")
			return nil
		}
		okN := 0
		for i, r := range res {
			check(fmt.Sprintf("opposite-order-%d", i), mt, r.dur, r.err, false)
			if r.err == nil {
				okN++
			}
		}
		if okN == 0 {
			s.Fail("C15/measured-no-progress", "MEASUREMENT: neither of two contending commits succeeded", fmt.Sprint(res[0].err, " / ", res[1].err))
		}
		s.Hit(fmt.Sprintf("opposite_order_committed_%d", okN))
	case 1, 2: // a holder that never unlocks (killed): its lock dies with its TTL
		ttl := 500 * time.Millisecond
		mt := 3 * time.Second
		if kind == 2 { // TTL longer than the waiter's budget: the waiter must give up in time
			ttl, mt = 4*time.Second, 600*time.Millisecond
		}
		hdr(mt)
		h := &caseRun{s: s, raw: raw, clock: &fakeClock{base: time.Now()}, foreign: sop.NewUUID()}
		t0 := time.Now()
		h.onFirstLock = func(ks []*sop.LockKey) {
			if len(ks) == 0 {
				return
			}
			fk := &sop.LockKey{Key: ks[len(ks)-1].Key, LockID: h.foreign}
			raw.Lock(context.Background(), ttl, []*sop.LockKey{fk})
			t0 = time.Now()
		}
		h.active = true
		d, err := openAndCommit(dir, &deco{L2Cache: raw, h: h}, mt, txnOps{upd: []int{0, 100}}, "w", nil)
		h.active = false
		if kind == 1 {
			check("dead-holder-ttl", mt, d, err, true)
			if err == nil && time.Since(t0) < ttl {
				s.Fail("C15/measured-lock-granted-before-ttl", "MEASUREMENT: the waiter committed before the dead holder's TTL elapsed", fmt.Sprint(time.Since(t0)))
			}
			if err == nil && d > ttl+2*time.Second {
				s.Fail("C15/measured-ttl-not-honoured", "MEASUREMENT: the dead holder's lock was not free within TTL + 2 s", fmt.Sprint(d))
			}
		} else {
			check("dead-holder-ttl-beyond-budget", mt, d, err, false)
			if classify(err) != "timeout" {
				s.Fail("C15/measured-expected-timeout", "MEASUREMENT: the waiter did not give up with a timeout", fmt.Sprint(err))
			}
			// nothing of the waiter's stays locked; after the holder's TTL a follow-up commits
			time.Sleep(time.Until(t0.Add(ttl + 50*time.Millisecond)))
		}
	case 5: // C15-F1 on the wall clock: sector cap shrunk to 3 s (package variable), budget 300 ms, sector lock busy
		mt := 300 * time.Millisecond
		hdr(mt)
		old := fs.VerifC15SetLockSectorRetryTimeout(3 * time.Second)
		h := &caseRun{s: s, raw: raw, clock: &fakeClock{base: time.Now()}, foreign: sop.NewUUID(), busySectors: true}
		h.onFirstLock = func([]*sop.LockKey) {}
		h.active = true
		d, err := openAndCommit(dir, &deco{L2Cache: raw, h: h}, mt, txnOps{upd: []int{0}}, "w", nil)
		h.active = false
		fs.VerifC15SetLockSectorRetryTimeout(old)
		s.Hit("measured:sector-busy-budget-300ms:" + classify(err))
		if d > mt+2*time.Second {
			s.Fail("C15/sector-lock-wait-ignores-maxtime",
				"MEASUREMENT: with the sector-lock cap shrunk to 3 s and maxTime = 300 ms, Commit returned only after the sector cap, not after its budget + 2 s",
				fmt.Sprintf("took %v (%v)", d, err))
		}
	case 3, 4: // a stalled holder: T1 parked inside its commit while holding its node locks
		stall := 500 * time.Millisecond
		mt2 := 3 * time.Second
		if kind == 4 {
			stall, mt2 = 1500*time.Millisecond, 400*time.Millisecond
		}
		hdr(mt2)
		parked := make(chan struct{})
		var once sync.Once
		sc := txk.NewScript(txk.NewCanon())
		sc.Gate = func(idx int, name string) {
			if name == "blob.Add" {
				once.Do(func() { close(parked); time.Sleep(stall) })
			}
		}
		var wg sync.WaitGroup
		var r1 measured
		wg.Add(1)
		go func() {
			defer wg.Done()
			d, err := openAndCommit(dir, raw, 5*time.Second, txnOps{upd: []int{0, 100}}, "h", sc)
			r1 = measured{dur: d, err: err}
		}()
		select {
		case <-parked:
		case <-time.After(5 * time.Second):
			s.Fail("C15/harness-gate", "the holder never reached its gate", "")
			wg.Wait()
			return nil
		}
		d2, err2 := openAndCommit(dir, raw, mt2, txnOps{upd: []int{110, 10}}, "w", nil)
		wg.Wait()
		check("stalled-holder", 5*time.Second, r1.dur, r1.err, true)
		if kind == 3 {
			check("waiter-outlasts-stall", mt2, d2, err2, true)
			if err2 == nil && d2 < stall-100*time.Millisecond {
				s.Fail("C15/measured-waiter-overtook-holder", "MEASUREMENT: the waiter committed while the holder still held the node locks", fmt.Sprint(d2))
			}
		} else {
			check("waiter-gives-up", mt2, d2, err2, false)
			if classify(err2) != "timeout" {
				s.Fail("C15/measured-expected-timeout", "MEASUREMENT: the waiter did not give up with a timeout", fmt.Sprint(err2))
			}
		}
	}
	// lock release after give-up / after everything: nothing live stays, a follow-up on the same keys commits
	for _, le := range cache.VerifLockEntries(raw) {
		if strings.HasPrefix(le.Key, "lock:") && len(le.Key) == 5+36 && le.Expiration.After(time.Now()) {
			s.Fail("C15/locks-held-after-giveup", "MEASUREMENT: a node lock entry is still live after all commits returned", le.Key)
		}
	}
	d, err := openAndCommit(dir, raw, 3*time.Second, txnOps{upd: []int{0, 10, 100, 110, 180, 190}}, "f", nil)
	if err != nil && selfConf && strings.Contains(err.Error(), "call detected conflict") {
		s.Fail("C15/item-lock-records-leak-after-self-conflict",
			"MEASUREMENT: the item lock records of a transaction that gave up after its refetch self-conflict stay in the L2 cache: a follow-up on the same items fails until their TTL", err.Error())
	} else if err != nil {
		s.Fail("C15/follow-up-blocked", "MEASUREMENT: a follow-up transaction on the same keys could not commit", err.Error())
	} else {
		s.Hit("measured_followup_ok")
	}
	_ = d
	return nil
}

// ---------------------------------------------------------------------------------------------------------

func run(o hx.RunOpts) error {
	s := hx.NewSession(o, "cases: (loop) a real write transaction over fs backends commits while an L2 decorator under the transaction and its registry "+
		"decides every lock call of the phase-1 loop from a generated plan (refusals by a real foreign holder, conflicts by a real competitor commit, "+
		"sector locks reported busy, injected clock advances on a fake sop.Now / fake context deadline); the observed decision sequence is replayed on Sop.Retry.step "+
		"and next-call / iteration count / locks-held / clock / exit reason and, per tracked item (read, updated, removed, added), the lock record in the L2 cache and the tracker entry are diffed after every decision; after every commit attempt the L2 cache is listed (no record of the finished transaction, no live node lock) and followers on its read and written items must commit; (table) random Lock/Unlock/IsLocked sequences on the real in-memory L2 against the model's lock table; "+
		"(bound) wall-clock MEASUREMENTS of Commit under contention against the bound + 2 s. distinct = canonical op-line hash; non-trivial = loop cases with at least two decisions, "+
		"table cases with a refused multi-key Lock, every measurement")
	p := hx.NewPrng(o.Seed)
	sop.SetJitterRNG(rand.New(zeroSrc{}))
	fsc := fs.VerifC15LockSectorRetryTimeout()
	_ = fsc
	for _, sc := range corpus() {
		if err := runLoopCase(s, sc); err != nil {
			return fmt.Errorf("%s: %w", sc.name, err)
		}
	}
	n := o.N(140, 2600)
	for i := 0; i < n; i++ {
		sc := genScen(p, i)
		if err := runLoopCase(s, sc); err != nil {
			return fmt.Errorf("%s #%d: %w", sc.name, i, err)
		}
	}
	n = o.N(300, 5000)
	for i := 0; i < n; i++ {
		runTableCase(s, p)
	}
	rounds := o.N(1, 8)
	for r := 0; r < rounds; r++ {
		for k := 0; k < 6; k++ {
			if err := runMeasured(s, p, k); err != nil {
				return fmt.Errorf("measured %d: %w", k, err)
			}
		}
	}
	s.Rep.Extra = map[string]any{
		"measurement_note": "cases named `bound` are wall-clock measurements (tests), not proofs; slack 2 s",
		"sector_cap_ms":    int64(fs.VerifC15LockSectorRetryTimeout() / time.Millisecond),
	}
	return s.Finish()
}
