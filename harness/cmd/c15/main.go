package main

import (
	"verifharness/c15facts"
	"verifharness/hx"
)

func main() { hx.Main(func(o hx.RunOpts) error { return nil }, "Sop.FactsC15", c15facts.Facts, nil) }
