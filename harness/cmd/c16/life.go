// C16, faithful-lifecycle families.
//
// SinglePhaseTransaction.HasBegun() is SOP's own HasBegun(), and the real common.Transaction ends itself
// (phaseDone = 2, HasBegun() == false) BEFORE it returns a phase error. The families below therefore drive the real
// sop.SinglePhaseTransaction
//   - (R) with the REAL common.Transaction as its SOP side (real fs backends through harness/txk, one injected
//     fault per run at every backend call SOP's Commit makes, conflicts, reader transactions) and scripted
//     participants, and
//   - (F) with a fake SOP transaction that implements that lifecycle (lifeFake), exhaustively over scripts,
//
// and log, with every call, what SOP's HasBegun() answers right after it. Both are diffed with the Lean model
// Sop.TwoPC.commitL/beginL/rollbackOutL (whose SOP side is Sop.TwoPC.sopCall, proved in Lean to be the projection
// of C14's lifecycle model): the model is the mediator that ties the fake's lifecycle to the real one.
package main

import (
	"context"
	"errors"
	"fmt"
	"os"
	"strings"
	"time"

	"github.com/sharedcode/sop"

	"verifharness/hx"
	"verifharness/txk"
)

type callL struct {
	who, kind int
	ok, hb    bool
}

type recL struct {
	log []callL
	hb  func() bool
}

func (r *recL) add(who, kind int, ok bool) {
	r.log = append(r.log, callL{who, kind, ok, r.hb()})
}

func logLString(log []callL) string {
	if len(log) == 0 {
		return "-"
	}
	parts := make([]string, len(log))
	for i, c := range log {
		sign, hb := "-", "e"
		if c.ok {
			sign = "+"
		}
		if c.hb {
			hb = "b"
		}
		parts[i] = fmt.Sprintf("P%d.%s%s%s", c.who, kindName[c.kind], sign, hb)
	}
	return strings.Join(parts, " ")
}

func plain(log []callL) []call {
	out := make([]call, len(log))
	for i, c := range log {
		out[i] = call{c.who, c.kind, c.ok}
	}
	return out
}

// partL is a scripted participant that logs through a recL.
type partL struct {
	id   int
	bits [4]bool
	rec  *recL
	errs [4]error
}

func newPartL(id int, bits [4]bool, rec *recL) *partL {
	p := &partL{id: id, bits: bits, rec: rec}
	for k := 0; k < 4; k++ {
		p.errs[k] = fmt.Errorf("E:P%d.%s", id, kindName[k])
	}
	return p
}
func (p *partL) do(k int) error {
	p.rec.add(p.id, k, p.bits[k])
	if p.bits[k] {
		return nil
	}
	return p.errs[k]
}
func (p *partL) Begin(ctx context.Context) error                   { return p.do(kBegin) }
func (p *partL) Phase1Commit(ctx context.Context) error            { return p.do(kPhase1) }
func (p *partL) Phase2Commit(ctx context.Context) error            { return p.do(kPhase2) }
func (p *partL) Rollback(ctx context.Context, err error) error     { return p.do(kRollback) }
func (p *partL) HasBegun() bool                                    { return true }
func (p *partL) GetMode() sop.TransactionMode                      { return sop.ForWriting }
func (p *partL) GetStores(ctx context.Context) ([]string, error)   { return nil, nil }
func (p *partL) Close() error                                      { return nil }
func (p *partL) GetID() sop.UUID                                   { return sop.NilUUID }
func (p *partL) CommitMaxDuration() time.Duration                  { return time.Minute }
func (p *partL) OnCommit(callback func(ctx context.Context) error) {}

// lifeFake is a fake SOP two-phase transaction with the lifecycle of common.Transaction
// (common/twophasecommittransaction.go): work[k] says whether the internal work of call kind k succeeds when the
// call reaches it. Transcribed independently of the Lean model; the two are diffed on every script.
type lifeFake struct {
	mode      sop.TransactionMode
	pd        int
	committed bool
	work      [4]bool
	rec       *recL
	errs      [4]error
}

func newLifeFake(mode sop.TransactionMode, work [4]bool, rec *recL) *lifeFake {
	f := &lifeFake{mode: mode, pd: -1, work: work, rec: rec}
	for k := 0; k < 4; k++ {
		f.errs[k] = fmt.Errorf("E:P0.%s", kindName[k])
	}
	return f
}
func (f *lifeFake) HasBegun() bool { return f.pd >= 0 && f.pd < 2 }
func (f *lifeFake) ret(k int, ok bool) error {
	f.rec.add(0, k, ok)
	if ok {
		return nil
	}
	return f.errs[k]
}
func (f *lifeFake) Begin(ctx context.Context) error {
	if f.HasBegun() || f.pd == 2 || !f.work[kBegin] {
		return f.ret(kBegin, false)
	}
	f.pd = 0
	return f.ret(kBegin, true)
}
func (f *lifeFake) Phase1Commit(ctx context.Context) error {
	if !f.HasBegun() {
		return f.ret(kPhase1, false)
	}
	f.pd = 1
	switch f.mode {
	case sop.NoCheck:
		return f.ret(kPhase1, true)
	case sop.ForReading:
		return f.ret(kPhase1, f.work[kPhase1])
	}
	if !f.work[kPhase1] {
		f.pd = 2
		return f.ret(kPhase1, false)
	}
	return f.ret(kPhase1, true)
}
func (f *lifeFake) Phase2Commit(ctx context.Context) error {
	if !f.HasBegun() || f.pd == 0 {
		return f.ret(kPhase2, false)
	}
	f.pd = 2
	if f.mode != sop.ForWriting || f.work[kPhase2] {
		f.committed = true
		return f.ret(kPhase2, true)
	}
	return f.ret(kPhase2, false)
}
func (f *lifeFake) Rollback(ctx context.Context, err error) error {
	if f.pd == 2 {
		return f.ret(kRollback, !f.committed)
	}
	if !f.HasBegun() {
		return f.ret(kRollback, false)
	}
	f.pd = 2
	return f.ret(kRollback, f.work[kRollback])
}
func (f *lifeFake) GetMode() sop.TransactionMode                      { return f.mode }
func (f *lifeFake) GetStores(ctx context.Context) ([]string, error)   { return nil, nil }
func (f *lifeFake) Close() error                                      { return nil }
func (f *lifeFake) GetID() sop.UUID                                   { return sop.NilUUID }
func (f *lifeFake) CommitMaxDuration() time.Duration                  { return time.Minute }
func (f *lifeFake) OnCommit(callback func(ctx context.Context) error) {}

// lifeReal logs the calls SinglePhaseTransaction makes on the REAL common.Transaction (everything else, HasBegun
// included, goes straight to it).
type lifeReal struct {
	sop.TwoPhaseCommitTransaction
	rec    *recL
	failed [4]bool
}

func (l *lifeReal) note(k int, err error) error {
	l.rec.add(0, k, err == nil)
	if err != nil {
		l.failed[k] = true
	}
	return err
}
func (l *lifeReal) Begin(ctx context.Context) error {
	return l.note(kBegin, l.TwoPhaseCommitTransaction.Begin(ctx))
}
func (l *lifeReal) Phase1Commit(ctx context.Context) error {
	return l.note(kPhase1, l.TwoPhaseCommitTransaction.Phase1Commit(ctx))
}
func (l *lifeReal) Phase2Commit(ctx context.Context) error {
	return l.note(kPhase2, l.TwoPhaseCommitTransaction.Phase2Commit(ctx))
}
func (l *lifeReal) Rollback(ctx context.Context, err error) error {
	return l.note(kRollback, l.TwoPhaseCommitTransaction.Rollback(ctx, err))
}

// ---- the session oracle ----

type opRec struct {
	name string
	log  []callL
	err  error
}

// judgeSession evaluates the property on the calls of a whole session (Begin / Commit / Rollback calls on one
// SinglePhaseTransaction): per Commit the outcome rules (oracleCommit) plus "nobody is left in doubt", and across
// the session "a participant told to commit is never told to roll back, and vice versa".
func judgeSession(s *hx.Session, ps []int, ops []opRec, where string) {
	gotP2 := map[int]string{} // participant -> op index/name in which it was told to commit
	gotRb := map[int]bool{}
	for oi, op := range ops {
		// a Commit on an object whose earlier Commit returned nil decides nothing any more (the participants have been
		// told to commit; fix 6c4c66ea keeps its error path away from them): only the session rules below apply to it
		if op.name == "commit" && !committedBefore(ops[:oi]) {
			// in doubt: passed Phase1Commit in this Commit and received neither Phase2Commit nor Rollback before it returned
			for i, c := range op.log {
				if c.who == 0 || c.kind != kPhase1 || !c.ok {
					continue
				}
				decided := false
				for _, d := range op.log[i+1:] {
					if d.who == c.who && (d.kind == kPhase2 || d.kind == kRollback) {
						decided = true
						break
					}
				}
				if !decided {
					hb := "SOP.HasBegun()=true"
					if !op.log[len(op.log)-1].hb {
						hb = "SOP.HasBegun()=false"
					}
					s.Fail("C16/in-doubt-after-commit", fmt.Sprintf("P%d passed Phase1Commit and Commit returned (err=%v) without telling it to commit or to roll back (%s at the end)", c.who, op.err != nil, hb),
						where+" calls: ["+logLString(op.log)+"]")
					break
				}
			}
			oracleCommit(s, plain(op.log), ps, op.err)
		}
		for _, c := range op.log {
			if c.who == 0 {
				continue
			}
			switch c.kind {
			case kPhase2:
				if gotRb[c.who] {
					s.Fail("C16/phase2-after-rollback", fmt.Sprintf("P%d was told to commit after it had been told to roll back", c.who), where+" "+sessString(ops))
				}
				if _, ok := gotP2[c.who]; !ok {
					gotP2[c.who] = op.name
				}
			case kRollback:
				if _, ok := gotP2[c.who]; ok && !gotRb[c.who] {
					// the mechanism of the known findings: a later method call on the ended transaction runs
					// SinglePhaseTransaction.Rollback, whose fan-out does not look at SOP's outcome: SOP's own Rollback
					// refuses (error, HasBegun()==false) and the participants are told to roll back anyway
					sopRefused := false
					for _, d := range op.log {
						if d.who == 0 && d.kind == kRollback && !d.ok && !d.hb {
							sopRefused = true
						}
					}
					prevOk := oi > 0 && ops[oi-1].name == "commit" && ops[oi-1].err == nil
					if sopRefused && prevOk && (op.name == "rollback" || op.name == "commit") {
						s.Fail("C16/rollback-fanout-after-commit:via="+op.name,
							fmt.Sprintf("after a Commit that returned nil, %s() told P%d (already told to commit) to roll back; SOP's own Rollback refused", strings.ToUpper(op.name[:1])+op.name[1:], c.who),
							where+" "+sessString(ops))
					} else {
						s.Fail("C16/rollback-after-phase2", fmt.Sprintf("P%d was told to roll back after it had been told to commit", c.who), where+" "+sessString(ops))
					}
				}
				gotRb[c.who] = true
			}
		}
	}
}

func sessString(ops []opRec) string {
	var sb strings.Builder
	for _, op := range ops {
		r := "nil"
		if op.err != nil {
			r = "err"
		}
		fmt.Fprintf(&sb, "%s[%s]=>%s ", op.name, logLString(op.log), r)
	}
	return strings.TrimSpace(sb.String())
}

// retFromLog canonicalises a method's result from the log when SOP's side is the real transaction (its error
// texts are its own): the failed call that made the method fail, and the last failed rollback when the method
// reports a failed rollback as well. Participants' errors must still be wrapped (checked by token).
func retFromLog(name string, err error, log []callL) (string, string) {
	if err == nil {
		return "ok", ""
	}
	bad := ""
	if name == "rollback" {
		q := -1
		for _, c := range log {
			if c.kind == kRollback && !c.ok {
				q = c.who
			}
		}
		if q < 0 {
			return "err ?", "Rollback returned an error although no rollback call failed: " + err.Error()
		}
		return fmt.Sprintf("err P%d.rollback rb=-", q), ""
	}
	prim := "P?.?"
	pw := -1
	for _, c := range log {
		if !c.ok && c.kind != kRollback {
			prim = fmt.Sprintf("P%d.%s", c.who, kindName[c.kind])
			pw = c.who
			break
		}
	}
	if pw > 0 && !strings.Contains(err.Error(), "E:"+prim) {
		bad = "the returned error does not carry the failed participant call's error: " + err.Error()
	}
	rb := "-"
	if strings.Contains(err.Error(), "rollback failed: ") {
		for _, c := range log {
			if !c.ok && c.kind == kRollback {
				rb = fmt.Sprintf("P%d", c.who)
			}
		}
	}
	return fmt.Sprintf("err %s rb=%s", prim, rb), bad
}

func modeLetter(m sop.TransactionMode) string {
	switch m {
	case sop.ForWriting:
		return "W"
	case sop.ForReading:
		return "R"
	}
	return "N"
}

func psString(ps []int) string {
	if len(ps) == 0 {
		return "-"
	}
	q := make([]string, len(ps))
	for i, p := range ps {
		q[i] = fmt.Sprint(p)
	}
	return strings.Join(q, ",")
}

// ---- family F: the faithful fake, exhaustively ----

// fakeCase runs one op sequence on the real SinglePhaseTransaction over lifeFake + scripted participants.
func fakeCase(s *hx.Session, mode sop.TransactionMode, bits [][4]bool, ps []int, seq []string) {
	rec := &recL{}
	fk := newLifeFake(mode, bits[0], rec)
	rec.hb = fk.HasBegun
	t, _ := sop.NewTransaction(mode, fk)
	all := []*stub{{id: 0, errs: fk.errs}}
	for _, p := range ps {
		pt := newPartL(p, bits[p], rec)
		t.AddPhasedTransaction(pt)
		all = append(all, &stub{id: p, errs: pt.errs})
	}
	hdr := fmt.Sprintf("lc=%s:-1:0 ps=%s", modeLetter(mode), psString(ps))
	for _, b := range bits {
		hdr += " " + bitsStr(b)
	}
	s.BeginCase(hdr)
	ctx := context.Background()
	var ops []opRec
	for _, name := range seq {
		rec.log = nil
		var e error
		switch name {
		case "begin":
			e = t.Begin(ctx)
		case "commit":
			e = t.Commit(ctx)
		case "rollback":
			e = t.Rollback(ctx)
		}
		if t.HasBegun() != fk.HasBegun() {
			s.Fail("C16/hasbegun-not-delegated", "SinglePhaseTransaction.HasBegun() differs from SOP's own", hdr)
		}
		r, bad := showRet(e, all)
		s.Op(name, logLString(rec.log)+" => "+r)
		if bad != "" {
			s.Fail("C16/error-shape", bad, hdr)
		}
		ops = append(ops, opRec{name, append([]callL(nil), rec.log...), e})
		if name == "commit" {
			hitCommit(s, "fake", rec.log, e)
			// SOP's outcome is the participants' outcome
			if (e == nil) != fk.committed && len(ops) > 0 && !committedBefore(ops[:len(ops)-1]) {
				s.Fail("C16/outcome-differs-from-sop", fmt.Sprintf("Commit returned err=%v but SOP's transaction committed=%v", e != nil, fk.committed), hdr)
			}
		}
	}
	judgeSession(s, ps, ops, "seq="+strings.Join(seq, ",")+" "+hdr)
	s.Hit("fake_seq_" + strings.Join(seq, "_"))
	s.Hit("fake_mode_" + modeLetter(mode))
	if len(ps) > 0 {
		s.Nontrivial()
	}
}

func committedBefore(ops []opRec) bool {
	for _, op := range ops {
		if op.name == "commit" && op.err == nil {
			return true
		}
	}
	return false
}

// hitCommit records which branch one Commit took, and — the mechanism this family exists for — whether SOP's
// HasBegun() was already false when the rollback fan-out started.
func hitCommit(s *hx.Session, fam string, log []callL, e error) {
	if e == nil {
		s.Hit(fam + "_commit_ok")
		return
	}
	var last callL
	found := false
	for _, c := range log {
		if c.kind != kRollback {
			last = c
			found = true
		}
	}
	if !found {
		return
	}
	who := "participant"
	if last.who == 0 {
		who = "sop"
	}
	hb := "hasbegun_still_true"
	if !last.hb {
		hb = "hasbegun_already_false"
	}
	s.Hit(fmt.Sprintf("%s_commit_failed_at_%s_%s_%s", fam, who, kindName[last.kind], hb))
	npart := 0
	for _, c := range log {
		if c.who != 0 && c.kind == kPhase1 && c.ok {
			npart++
		}
	}
	if !last.hb && npart > 0 {
		s.Hit(fam + "_rollback_fanout_with_hasbegun_false_and_prepared_participants")
	}
}

func fakeFamily(s *hx.Session, o hx.RunOpts) {
	modes := []sop.TransactionMode{sop.ForWriting, sop.ForReading, sop.NoCheck}
	bcr := []string{"begin", "commit", "rollback"}
	// directed first: the run of the seeded-change trial (SOP's phase 2 fails after both participants prepared) …
	all1 := [4]bool{true, true, true, true}
	fakeCase(s, sop.ForWriting, [][4]bool{{true, true, false, true}, all1, all1}, []int{1, 2}, []string{"begin", "commit"})
	fakeCase(s, sop.ForWriting, [][4]bool{{true, false, true, true}, all1, all1}, []int{1, 2}, []string{"begin", "commit"})
	s.Hit("directed")
	// … and the witness of the known finding: Begin, Commit (nil), deferred Rollback
	fakeCase(s, sop.ForWriting, [][4]bool{all1, all1}, []int{1}, bcr)
	maxFull := 2
	for _, m := range modes {
		for n := 0; n <= maxFull; n++ {
			ps := make([]int, n)
			for i := range ps {
				ps[i] = i + 1
			}
			for v := 0; v < 1<<(4*(n+1)); v++ {
				fakeCase(s, m, bitsOf(v, n+1), ps, bcr)
			}
		}
		// three participants: every script of the calls Commit/Rollback can make, Begin succeeding
		n := 3
		ps := []int{1, 2, 3}
		for v := 0; v < 1<<(3*(n+1)); v++ {
			bits := make([][4]bool, n+1)
			for i := 0; i <= n; i++ {
				bits[i] = [4]bool{true, v&(1<<(3*i)) != 0, v&(1<<(3*i+1)) != 0, v&(1<<(3*i+2)) != 0}
			}
			fakeCase(s, m, bits, ps, bcr)
		}
		// other call sequences on one object: a second Commit, Commit after Rollback, no Begin at all, Rollback first
		for _, seq := range [][]string{{"begin", "commit", "commit"}, {"begin", "rollback", "commit"}, {"commit", "rollback"}, {"begin", "commit"}} {
			for n := 0; n <= 2; n++ {
				ps := make([]int, n)
				for i := range ps {
					ps[i] = i + 1
				}
				for v := 0; v < 1<<(4+3*n); v++ {
					bits := make([][4]bool, n+1)
					bits[0] = [4]bool{v&1 != 0, v&2 != 0, v&4 != 0, v&8 != 0}
					for i := 1; i <= n; i++ {
						sh := 4 + 3*(i-1)
						bits[i] = [4]bool{true, v&(1<<sh) != 0, v&(1<<(sh+1)) != 0, v&(1<<(sh+2)) != 0}
					}
					fakeCase(s, m, bits, ps, seq)
				}
			}
		}
	}
}

// ---- family R: the REAL common.Transaction as SOP's side ----

type realSpec struct {
	work    string // add | update | read | conflict | newstore | nothing
	parts   [][4]bool
	faultAt int // call index relative to the start of Commit (1-based); 0 = none
	kind    txk.Fault
	trail   bool // a deferred Rollback after Commit
}

type realOut struct {
	nCalls    int      // backend calls made by Commit
	callNames []string // their names
}

func realCase(s *hx.Session, ci int, sp realSpec) (*realOut, error) {
	ctx := context.Background()
	dir, err := os.MkdirTemp(hx.WorkRoot(), "c16r-")
	if err != nil {
		return nil, err
	}
	defer os.RemoveAll(dir)
	env := txk.NewEnv(dir, 3)
	env.ColdRestart()
	const store = "c16"
	// committed baseline: keys 1 and 2
	t0, err := env.NewTxn(ctx, sop.ForWriting, time.Minute, nil)
	if err != nil {
		return nil, err
	}
	if err := t0.T.Begin(ctx); err != nil {
		return nil, err
	}
	b0, err := txk.NewBtree[int, string](ctx, t0, env.StoreOpts(store, 4, true))
	if err != nil {
		return nil, err
	}
	b0.Add(ctx, 1, "base1")
	b0.Add(ctx, 2, "base2")
	if err := t0.T.Commit(ctx); err != nil {
		return nil, fmt.Errorf("baseline commit: %w", err)
	}
	mode := sop.ForWriting
	if sp.work == "read" {
		mode = sop.ForReading
	}
	sc := txk.NewScript(env.Canon)
	armed := false
	start := 0
	sc.FaultOn = func(idx int, name string) txk.Fault {
		if armed && sp.faultAt > 0 && idx == start+sp.faultAt-1 {
			return sp.kind
		}
		return txk.None
	}
	tx, err := env.NewTxn(ctx, mode, 5*time.Second, sc)
	if err != nil {
		return nil, err
	}
	rec := &recL{hb: tx.P.HasBegun}
	lr := &lifeReal{TwoPhaseCommitTransaction: tx.P, rec: rec}
	tut, err := sop.NewTransaction(mode, lr)
	if err != nil {
		return nil, err
	}
	ps := []int{}
	var parts []*partL
	for i, b := range sp.parts {
		pt := newPartL(i+1, b, rec)
		tut.AddPhasedTransaction(pt)
		parts = append(parts, pt)
		ps = append(ps, i+1)
	}
	var ops []opRec
	notDelegated := ""
	do := func(name string) error {
		rec.log = nil
		var e error
		switch name {
		case "begin":
			e = tut.Begin(ctx)
		case "commit":
			e = tut.Commit(ctx)
		case "rollback":
			e = tut.Rollback(ctx)
		}
		if tut.HasBegun() != tx.P.HasBegun() {
			notDelegated = name
		}
		ops = append(ops, opRec{name, append([]callL(nil), rec.log...), e})
		return e
	}
	if e := do("begin"); e != nil {
		return nil, fmt.Errorf("begin: %w", e)
	}
	// the B-tree is opened through the plain wrapper txk made around the SAME common.Transaction (OpenBtree wants the
	// concrete type behind GetPhasedTransaction); Begin/Commit/Rollback go through the transaction under test
	wantNew := false
	switch sp.work {
	case "add", "update", "read", "conflict":
		b, err := txk.OpenBtree[int, string](ctx, tx, store)
		if err != nil {
			return nil, fmt.Errorf("open: %w", err)
		}
		switch sp.work {
		case "add":
			if ok, err := b.Add(ctx, 3, "new"); err != nil || !ok {
				return nil, fmt.Errorf("add: %v %v", ok, err)
			}
			wantNew = true
		case "update", "conflict":
			if ok, err := b.Find(ctx, 2, false); err != nil || !ok {
				return nil, fmt.Errorf("find: %v %v", ok, err)
			}
			if ok, err := b.UpdateCurrentValue(ctx, "mine"); err != nil || !ok {
				return nil, fmt.Errorf("update: %v %v", ok, err)
			}
			wantNew = true
		case "read":
			if ok, err := b.Find(ctx, 2, false); err != nil || !ok {
				return nil, fmt.Errorf("find: %v %v", ok, err)
			}
			if _, err := b.GetCurrentValue(ctx); err != nil {
				return nil, err
			}
		}
		if sp.work == "conflict" {
			// another writer changes the same item and commits first
			t2, err := env.NewTxn(ctx, sop.ForWriting, time.Minute, nil)
			if err != nil {
				return nil, err
			}
			if err := t2.T.Begin(ctx); err != nil {
				return nil, err
			}
			b2, err := txk.OpenBtree[int, string](ctx, t2, store)
			if err != nil {
				return nil, err
			}
			if ok, err := b2.Find(ctx, 2, false); err != nil || !ok {
				return nil, fmt.Errorf("find2: %v %v", ok, err)
			}
			if ok, err := b2.UpdateCurrentValue(ctx, "theirs"); err != nil || !ok {
				return nil, fmt.Errorf("update2: %v %v", ok, err)
			}
			if err := t2.T.Commit(ctx); err != nil {
				return nil, fmt.Errorf("conflicting commit: %w", err)
			}
		}
	case "newstore":
		b, err := txk.NewBtree[int, string](ctx, tx, env.StoreOpts("c16new", 4, true))
		if err != nil {
			return nil, fmt.Errorf("newstore: %w", err)
		}
		if ok, err := b.Add(ctx, 7, "seven"); err != nil || !ok {
			return nil, fmt.Errorf("add: %v %v", ok, err)
		}
	}
	start = sc.N() + 1
	armed = true
	cerr := do("commit")
	armed = false
	out := &realOut{nCalls: sc.N() - start + 1}
	for _, c := range sc.Calls {
		if c.Idx >= start {
			out.callNames = append(out.callNames, c.Name)
		}
	}
	if sp.trail {
		do("rollback")
	}
	// SOP's work bits are what the real transaction answered (a kind it never refused counts as working)
	var wb [4]bool
	for k := 0; k < 4; k++ {
		wb[k] = !lr.failed[k]
	}
	hdr := fmt.Sprintf("lc=%s:-1:0 ps=%s %s", modeLetter(mode), psString(ps), bitsStr(wb))
	for _, p := range parts {
		hdr += " " + bitsStr(p.bits)
	}
	fault := "none"
	if sp.faultAt > 0 {
		nm := "?"
		for _, c := range sc.Calls {
			if c.Idx == start+sp.faultAt-1 {
				nm = c.Name
			}
		}
		fault = fmt.Sprintf("%s@%d:%s", sp.kind, sp.faultAt, nm)
		s.Hit("real_fault_on_" + nm)
	}
	hdr += fmt.Sprintf(" real work=%s fault=%s", sp.work, fault)
	s.BeginCase(hdr)
	s.Nontrivial()
	s.Hit("real_common_transaction")
	s.Hit("real_work_" + sp.work)
	if notDelegated != "" {
		s.Fail("C16/hasbegun-not-delegated", "SinglePhaseTransaction.HasBegun() differs from SOP's own after "+notDelegated, hdr)
	}
	for _, op := range ops {
		r, bad := retFromLog(op.name, op.err, op.log)
		s.Op(op.name, logLString(op.log)+" => "+r)
		if bad != "" {
			s.Fail("C16/error-shape", bad, hdr)
		}
	}
	hitCommit(s, "real", ops[1].log, cerr)
	for _, c := range ops[1].log {
		if c.who == 0 && c.kind == kRollback && !c.ok {
			s.Hit("real_sop_rollback_failed_inside_commit")
		}
	}
	if sp.faultAt > 0 {
		switch {
		case cerr == nil:
			s.Hit("real_fault_swallowed_commit_ok")
		default:
			s.Hit("real_fault_made_commit_fail")
		}
	}
	if sp.work == "conflict" {
		if cerr != nil {
			s.Hit("real_conflict_commit_failed")
		} else {
			s.Hit("real_conflict_commit_merged_ok")
		}
	}
	judgeSession(s, ps, ops, hdr)
	// what a freshly started other process sees: SOP's change is there iff Commit returned nil. Without a fault this is
	// part of this check; under an injected backend fault it is C01/C07's subject and only counted here.
	if wantNew || sp.work == "newstore" {
		var vis bool
		var rerr error
		rerr = env.AsOtherProcess(func(oe *txk.Env) error {
			tr, err := oe.NewTxn(ctx, sop.ForReading, time.Minute, nil)
			if err != nil {
				return err
			}
			if err := tr.T.Begin(ctx); err != nil {
				return err
			}
			defer tr.T.Commit(ctx)
			if sp.work == "newstore" {
				b, err := txk.OpenBtree[int, string](ctx, tr, "c16new")
				if err != nil {
					vis = false
					return nil
				}
				vis, _ = b.Find(ctx, 7, false)
				return nil
			}
			b, err := txk.OpenBtree[int, string](ctx, tr, store)
			if err != nil {
				return err
			}
			if sp.work == "add" {
				vis, err = b.Find(ctx, 3, false)
				return err
			}
			ok, err := b.Find(ctx, 2, false)
			if err != nil || !ok {
				return fmt.Errorf("item 2 not found: %v", err)
			}
			v, err := b.GetCurrentValue(ctx)
			vis = v == "mine"
			return err
		})
		switch {
		case rerr != nil && sp.faultAt == 0:
			s.Fail("C16/real-store-unreadable", "the store cannot be read after the transaction under test", hdr+" "+rerr.Error())
		case rerr != nil:
			s.Hit("real_fault_store_unreadable_afterwards(C01/C07)")
		case vis == (cerr == nil):
			if vis {
				s.Hit("real_committed_change_visible")
			} else {
				s.Hit("real_failed_change_not_visible")
			}
		case sp.faultAt == 0 && cerr == nil:
			s.Fail("C16/real-commit-lost", "Commit returned nil but SOP's change is not in the store", hdr)
		case sp.faultAt == 0:
			s.Fail("C16/real-not-rolled-back", "Commit failed but SOP's change is visible in the store", hdr)
		default:
			s.Hit(fmt.Sprintf("real_fault_store_differs_from_result(C01/C07):commit_nil=%v", cerr == nil))
		}
	}
	return out, nil
}

// realDirected runs first: the real common.Transaction with two participants, no fault, then with the backend fault
// that makes SOP's phase 2 fail after both participants prepared (the registry flip), then one that makes phase 1 fail.
func realDirected(s *hx.Session) error {
	all1 := [4]bool{true, true, true, true}
	ps := [][4]bool{all1, all1}
	out, err := realRun(s, realSpec{work: "add", parts: ps, trail: false})
	if err != nil || out == nil {
		return err
	}
	flip, lock := 0, 0
	for i, n := range out.callNames {
		if n == "reg.UpdateNoLocks" {
			flip = i + 1
		}
		if n == "l2.Lock" && lock == 0 {
			lock = i + 1
		}
	}
	for _, k := range []int{flip, lock} {
		if k == 0 {
			continue
		}
		if _, err := realRun(s, realSpec{work: "add", parts: ps, faultAt: k, kind: txk.FailBefore}); err != nil {
			return err
		}
		s.Hit("directed")
	}
	return nil
}

var realCaseNo int

// realRun = realCase with a panic of the code under test turned into a reported failure.
func realRun(s *hx.Session, sp realSpec) (out *realOut, err error) {
	realCaseNo++
	defer func() {
		if r := recover(); r != nil {
			err = nil
			s.BeginCase(fmt.Sprintf("lc=W:-1:0 ps=- 1111 real work=%s fault=%d panic", sp.work, sp.faultAt))
			s.Fail("C16/panic", fmt.Sprintf("panic in the transaction under test: %v", r), fmt.Sprintf("%+v", sp))
		}
	}()
	return realCase(s, realCaseNo, sp)
}

func realFamily(s *hx.Session, o hx.RunOpts) error {
	all1 := [4]bool{true, true, true, true}
	run1 := func(sp realSpec) (*realOut, error) { return realRun(s, sp) }
	// participant scripts: all fine; A / B refuse phase 1; B's phase 2 fails (ignored); A's rollback fails
	scripts := [][][4]bool{
		{all1, all1},
		{{true, false, true, true}, all1},
		{all1, {true, false, true, true}},
		{all1, {true, true, false, true}},
		{{true, true, true, false}, all1},
	}
	works := []string{"add", "update", "read", "conflict", "newstore", "nothing"}
	// 1. no backend fault: every workload x every participant script, with a deferred Rollback
	clean := map[string][]*realOut{}
	for _, w := range works {
		for _, ps := range scripts {
			out, err := run1(realSpec{work: w, parts: ps, trail: true})
			if err != nil {
				return err
			}
			clean[w] = append(clean[w], out)
		}
	}
	// three participants, none
	for _, n := range []int{0, 3} {
		ps := make([][4]bool, n)
		for i := range ps {
			ps[i] = all1
		}
		if _, err := run1(realSpec{work: "add", parts: ps, trail: true}); err != nil {
			return err
		}
	}
	// 2. one injected fault per run at EVERY backend call SOP's Commit makes (phase 1, phase 2, and — when a
	// participant refuses phase 1 — SOP's own Rollback inside Commit), failBefore and failAfter
	type sweep struct {
		work   string
		script int
	}
	sweeps := []sweep{{"add", 0}, {"add", 2}, {"update", 0}}
	if o.Thorough() {
		sweeps = nil
		for _, w := range []string{"add", "update", "newstore", "read", "conflict"} {
			for _, si := range []int{0, 2, 4} {
				sweeps = append(sweeps, sweep{w, si})
			}
		}
	}
	for _, sw := range sweeps {
		co := clean[sw.work][sw.script]
		if co == nil {
			continue
		}
		for k := 1; k <= co.nCalls; k++ {
			for _, kind := range []txk.Fault{txk.FailBefore, txk.FailAfter} {
				if _, err := run1(realSpec{work: sw.work, parts: scripts[sw.script], faultAt: k, kind: kind, trail: k%2 == 0}); err != nil {
					return err
				}
				if sw.script == 2 {
					s.Hit("real_fault_while_participant_refuses_phase1")
				}
			}
		}
	}
	return nil
}

var _ = errors.Is
