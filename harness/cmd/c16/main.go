// C16 — external two-phase participants follow SOP's commit outcome.
//
// The real sop.SinglePhaseTransaction (built by sop.NewTransaction, participants attached with
// AddPhasedTransaction) is driven with scripted participants and a scripted SOP two-phase transaction; every
// call and its outcome is logged and the log is diffed with the Lean model (Sop.TwoPC). A second family runs the
// real infs transaction (a B-tree with one added item) behind a logging decorator and checks the store contents.
package main

import (
	"context"
	"errors"
	"fmt"
	"os"
	"regexp"
	"strings"
	"time"

	"github.com/sharedcode/sop"
	"github.com/sharedcode/sop/infs"

	"verifharness/hx"
)

func main() { hx.Main(run, "", nil, nil) }

const (
	kBegin = iota
	kPhase1
	kPhase2
	kRollback
)

var kindName = [4]string{"begin", "phase1", "phase2", "rollback"}

type call struct {
	who, kind int
	ok        bool
}

type recorder struct{ log []call }

func (r *recorder) String() string {
	if len(r.log) == 0 {
		return "-"
	}
	parts := make([]string, len(r.log))
	for i, c := range r.log {
		sign := "-"
		if c.ok {
			sign = "+"
		}
		parts[i] = fmt.Sprintf("P%d.%s%s", c.who, kindName[c.kind], sign)
	}
	return strings.Join(parts, " ")
}

// stub is a scripted sop.TwoPhaseCommitTransaction: bits[k] says whether call kind k succeeds.
type stub struct {
	id   int
	bits [4]bool
	rec  *recorder
	errs [4]error
}

func newStub(id int, bits [4]bool, rec *recorder) *stub {
	s := &stub{id: id, bits: bits, rec: rec}
	for k := 0; k < 4; k++ {
		s.errs[k] = fmt.Errorf("E:P%d.%s", id, kindName[k])
	}
	return s
}

func (s *stub) do(k int) error {
	s.rec.log = append(s.rec.log, call{s.id, k, s.bits[k]})
	if s.bits[k] {
		return nil
	}
	return s.errs[k]
}
func (s *stub) Begin(ctx context.Context) error                   { return s.do(kBegin) }
func (s *stub) Phase1Commit(ctx context.Context) error            { return s.do(kPhase1) }
func (s *stub) Phase2Commit(ctx context.Context) error            { return s.do(kPhase2) }
func (s *stub) Rollback(ctx context.Context, err error) error     { return s.do(kRollback) }
func (s *stub) HasBegun() bool                                    { return true }
func (s *stub) GetMode() sop.TransactionMode                      { return sop.ForWriting }
func (s *stub) GetStores(ctx context.Context) ([]string, error)   { return nil, nil }
func (s *stub) Close() error                                      { return nil }
func (s *stub) GetID() sop.UUID                                   { return sop.NilUUID }
func (s *stub) CommitMaxDuration() time.Duration                  { return time.Minute }
func (s *stub) OnCommit(callback func(ctx context.Context) error) {}

var errTok = regexp.MustCompile(`E:P(\d+)\.(\w+)`)

// showRet canonicalises what Begin/Commit/Rollback returned: "ok" or "err P<i>.<kind> rb=P<j>|-".
// The primary error must be reachable with errors.Is (it is wrapped with %w by the code).
func showRet(err error, all []*stub) (string, string) {
	if err == nil {
		return "ok", ""
	}
	toks := errTok.FindAllString(err.Error(), -1)
	if len(toks) == 0 || len(toks) > 2 {
		return "err ?", "unrecognised error text: " + err.Error()
	}
	bad := ""
	found := false
	for _, st := range all {
		for k := 0; k < 4; k++ {
			if st.errs[k].Error() == toks[0] && errors.Is(err, st.errs[k]) {
				found = true
			}
		}
	}
	if !found {
		bad = "the returned error does not wrap the failed call's error: " + err.Error()
	}
	rb := "-"
	if len(toks) == 2 {
		m := errTok.FindStringSubmatch(toks[1])
		if m[2] != "rollback" {
			bad = "second error is not a rollback error: " + err.Error()
		}
		rb = "P" + m[1]
	}
	return fmt.Sprintf("err %s rb=%s", strings.TrimPrefix(toks[0], "E:"), rb), bad
}

func bitsStr(b [4]bool) string {
	var sb strings.Builder
	for _, x := range b {
		if x {
			sb.WriteByte('1')
		} else {
			sb.WriteByte('0')
		}
	}
	return sb.String()
}

// oracleCommit evaluates the property itself on the implementation's call log of one Commit.
func oracleCommit(s *hx.Session, log []call, ps []int, ret error) {
	firstFail := -1 // first failed phase-1 call or failed SOP phase 2
	sopP2ok := -1
	p1ok := map[int]int{}
	rolled := map[int]bool{}
	for i, c := range log {
		switch c.kind {
		case kPhase1:
			if c.ok {
				if _, seen := p1ok[c.who]; !seen {
					p1ok[c.who] = i
				}
			} else if firstFail < 0 {
				firstFail = i
			}
		case kPhase2:
			if c.who == 0 {
				if c.ok {
					sopP2ok = i
				} else if firstFail < 0 {
					firstFail = i
				}
			} else {
				// a participant's second phase: every first phase and SOP's second phase succeeded before it
				if sopP2ok < 0 {
					s.Fail("C16/phase2-before-sop-outcome", "a participant's Phase2Commit ran although SOP's own phase 2 had not succeeded", fmt.Sprint(log))
				}
				for _, q := range append([]int{0}, ps...) {
					if j, ok := p1ok[q]; !ok || j > i {
						s.Fail("C16/phase2-before-all-phase1", "a participant's Phase2Commit ran although not every Phase1Commit had succeeded", fmt.Sprint(log))
						break
					}
				}
				if firstFail >= 0 && firstFail < i {
					s.Fail("C16/phase2-after-failure", "a participant's Phase2Commit ran after a failed phase", fmt.Sprint(log))
				}
			}
		case kRollback:
			rolled[c.who] = true
		}
	}
	if firstFail >= 0 {
		for _, q := range append([]int{0}, ps...) {
			if !rolled[q] {
				s.Fail("C16/rollback-missing", fmt.Sprintf("a phase failed before SOP's phase 2 succeeded but P%d was not asked to roll back", q), fmt.Sprint(log))
				break
			}
		}
		if ret == nil {
			s.Fail("C16/failure-swallowed", "a phase failed but Commit returned nil", fmt.Sprint(log))
		}
	} else {
		if len(rolled) > 0 {
			s.Fail("C16/spurious-rollback", "nothing failed but a rollback was issued", fmt.Sprint(log))
		}
		if ret != nil {
			s.Fail("C16/spurious-error", "nothing failed but Commit returned an error", fmt.Sprint(log))
		}
		for _, q := range ps {
			okp2 := false
			for _, c := range log {
				if c.who == q && c.kind == kPhase2 {
					okp2 = true
				}
			}
			if !okp2 {
				s.Fail("C16/phase2-missing", fmt.Sprintf("the commit succeeded but P%d was never told to commit", q), fmt.Sprint(log))
				break
			}
		}
	}
}

// stubCase builds the real SinglePhaseTransaction over scripted transactions and runs Begin, Commit, Rollback.
// bits[i] is the script of id i (0 = SOP); ps is the attachment order (ids may repeat); split attaches in two calls.
func stubCase(s *hx.Session, bits [][4]bool, ps []int, split bool) error {
	rec := &recorder{}
	stubs := make([]*stub, len(bits))
	for i := range bits {
		stubs[i] = newStub(i, bits[i], rec)
	}
	t, err := sop.NewTransaction(sop.ForWriting, stubs[0])
	if err != nil {
		return err
	}
	att := make([]sop.TwoPhaseCommitTransaction, len(ps))
	for i, p := range ps {
		att[i] = stubs[p]
	}
	if split && len(att) > 1 {
		t.AddPhasedTransaction(att[:1]...)
		t.AddPhasedTransaction(att[1:]...)
	} else if len(att) > 0 {
		t.AddPhasedTransaction(att...)
	}
	pss := "-"
	if len(ps) > 0 {
		q := make([]string, len(ps))
		for i, p := range ps {
			q[i] = fmt.Sprint(p)
		}
		pss = strings.Join(q, ",")
	}
	hdr := "ps=" + pss
	for _, b := range bits {
		hdr += " " + bitsStr(b)
	}
	s.BeginCase(hdr)
	ctx := context.Background()

	rec.log = nil
	e := t.Begin(ctx)
	r, bad := showRet(e, stubs)
	s.Op("begin", rec.String()+" => "+r)
	if bad != "" {
		s.Fail("C16/error-shape", bad, hdr)
	}
	if e != nil {
		s.Hit("begin_failed")
	}

	rec.log = nil
	e = t.Commit(ctx)
	r, bad = showRet(e, stubs)
	s.Op("commit", rec.String()+" => "+r)
	if bad != "" {
		s.Fail("C16/error-shape", bad, hdr)
	}
	oracleCommit(s, rec.log, ps, e)
	switch {
	case e == nil:
		s.Hit("commit_ok")
		for _, c := range rec.log {
			if c.kind == kPhase2 && c.who != 0 && !c.ok {
				s.Hit("commit_ok_participant_phase2_failed_ignored")
				break
			}
		}
	default:
		last := rec.log[0]
		for _, c := range rec.log {
			if c.kind != kRollback {
				last = c
			}
		}
		who := "participant"
		if last.who == 0 {
			who = "sop"
		}
		s.Hit("commit_failed_at_" + who + "_" + kindName[last.kind])
		if strings.Contains(r, "rb=P") {
			s.Hit("commit_failed_and_rollback_failed")
		}
	}

	committed := e == nil // Commit returned nil: the participants have been told to commit
	rec.log = nil
	e = t.Rollback(ctx)
	r, bad = showRet(e, stubs)
	s.Op("rollback", rec.String()+" => "+r)
	if bad != "" {
		s.Fail("C16/error-shape", bad, hdr)
	}
	seen := map[int]int{}
	nfail := 0
	for _, c := range rec.log {
		if c.kind == kRollback {
			seen[c.who]++
			if !c.ok {
				nfail++
			}
		}
	}
	if committed {
		// after a Commit that returned nil, Rollback calls SOP's own Rollback only (fix 6c4c66ea)
		for _, c := range rec.log {
			if c.who != 0 {
				s.Fail("C16/rollback-fanout-after-commit:via=rollback", fmt.Sprintf("after a Commit that returned nil, Rollback() told P%d (already told to commit) to roll back", c.who), hdr+" "+rec.String())
				break
			}
		}
		if seen[0] == 0 {
			s.Fail("C16/rollback-fanout-stopped", "Rollback after a successful Commit did not call SOP's own Rollback", rec.String())
		}
		s.Hit("rollback_after_successful_commit_reaches_sop_only")
	} else {
		for _, q := range append([]int{0}, ps...) {
			if seen[q] == 0 {
				s.Fail("C16/rollback-fanout-stopped", fmt.Sprintf("Rollback did not reach P%d", q), rec.String())
				break
			}
		}
	}
	if (nfail > 0) != (e != nil) {
		s.Fail("C16/rollback-result", "Rollback's result does not say whether a rollback failed", rec.String())
	}
	if nfail > 0 {
		s.Hit("rollback_with_failures")
		if nfail < len(rec.log) {
			s.Hit("rollback_failure_followed_or_preceded_by_success")
		}
	}
	s.Hit(fmt.Sprintf("participants=%d", len(ps)))
	if len(ps) > 0 {
		s.Nontrivial()
	}
	return nil
}

func bitsOf(v, n int) [][4]bool {
	out := make([][4]bool, n)
	for i := 0; i < n; i++ {
		for k := 0; k < 4; k++ {
			out[i][k] = v&(1<<(4*i+k)) != 0
		}
	}
	return out
}

func run(o hx.RunOpts) error {
	s := hx.NewSession(o, "cases: the real sop.SinglePhaseTransaction over a scripted SOP transaction (id 0) and 0..3 scripted participants (thorough: 0..4), "+
		"EVERY Boolean script over Begin/Phase1Commit/Phase2Commit/Rollback of each (16^(n+1) scripts for n<=3; for n=4 every script of the calls one method can make), "+
		"plus directed attachment shapes (same participant attached twice, two AddPhasedTransaction calls) and the real infs transaction behind a logging decorator; "+
		"each case runs Begin, Commit, Rollback and logs every call with its outcome. "+
		"Faithful-lifecycle families (header lc=…, every logged call carries SOP's HasBegun() right after it): a fake SOP transaction with the lifecycle of common.Transaction "+
		"(3 modes x every script for 0..2 participants, every commit script for 3; sequences begin-commit-rollback, begin-commit-commit, begin-rollback-commit, commit-rollback, begin-commit), and the REAL "+
		"common.Transaction on real fs backends via harness/txk (add/update/read/conflict/new store/nothing x 5 participant scripts, then one injected fault — failBefore and failAfter — at every backend call "+
		"of SOP's Commit; thorough: more workloads and a failing participant rollback). distinct = canonical op-line hash; non-trivial = at least one participant attached or the real transaction")
	// directed corpus first: the shapes a reader would try by hand
	all1 := [4]bool{true, true, true, true}
	dir := []struct {
		bits  [][4]bool
		ps    []int
		split bool
	}{
		{[][4]bool{all1, all1, {true, false, true, true}, all1}, []int{1, 2, 3}, false},             // P2 phase 1 fails
		{[][4]bool{{true, true, false, true}, all1, all1}, []int{1, 2}, false},                      // SOP phase 2 fails
		{[][4]bool{{true, true, false, false}, {true, true, true, false}, all1}, []int{1, 2}, true}, // and rollbacks fail
		{[][4]bool{all1, {true, true, false, true}, all1}, []int{1, 2}, false},                      // participant phase 2 fails: ignored
		{[][4]bool{all1, {true, false, true, true}, all1}, []int{1, 2, 1}, false},                   // attached twice
		{[][4]bool{all1, all1, {true, true, true, false}}, []int{2, 1, 2}, true},
		{[][4]bool{all1, {false, true, true, true}, all1}, []int{1, 2}, false}, // participant Begin fails: nothing rolled back
	}
	for _, d := range dir {
		if err := stubCase(s, d.bits, d.ps, d.split); err != nil {
			return err
		}
		s.Hit("directed")
	}
	// exhaustive: n participants, every script
	for n := 0; n <= 3; n++ {
		ps := make([]int, n)
		for i := range ps {
			ps[i] = i + 1
		}
		total := 1 << (4 * (n + 1))
		for v := 0; v < total; v++ {
			if err := stubCase(s, bitsOf(v, n+1), ps, false); err != nil {
				return err
			}
		}
	}
	s.Rep.Exhaustive = true
	if o.Thorough() {
		n := 4
		ps := []int{1, 2, 3, 4}
		// every script of the calls Commit can make (phase1, phase2, rollback of each), Begin succeeding
		for v := 0; v < 1<<(3*(n+1)); v++ {
			bits := make([][4]bool, n+1)
			for i := 0; i <= n; i++ {
				bits[i] = [4]bool{true, v&(1<<(3*i)) != 0, v&(1<<(3*i+1)) != 0, v&(1<<(3*i+2)) != 0}
			}
			if err := stubCase(s, bits, ps, v%2 == 1); err != nil {
				return err
			}
		}
		// every Begin script
		for v := 0; v < 1<<(n+1); v++ {
			bits := make([][4]bool, n+1)
			for i := 0; i <= n; i++ {
				bits[i] = [4]bool{v&(1<<i) != 0, true, true, true}
			}
			if err := stubCase(s, bits, ps, false); err != nil {
				return err
			}
		}
		// attachment lists with repeats, random scripts
		p := hx.NewPrng(o.Seed)
		for i := 0; i < 20000*o.Scale; i++ {
			k := 1 + p.Intn(5)
			ids := 1 + p.Intn(4)
			lst := make([]int, k)
			for j := range lst {
				lst[j] = 1 + p.Intn(ids)
			}
			if err := stubCase(s, bitsOf(int(p.U64()&0xfffff), ids+1), lst, p.Chance(1, 2)); err != nil {
				return err
			}
			s.Hit("random_attachment_list")
		}
	}
	// SOP's side with the lifecycle of common.Transaction: the faithful fake (exhaustive) and the real transaction
	if err := realDirected(s); err != nil {
		return err
	}
	fakeFamily(s, o)
	if err := realFamily(s, o); err != nil {
		return err
	}
	if err := realCases(s, o); err != nil {
		return err
	}
	return s.Finish()
}

// ---- the real SOP transaction behind a logging decorator ----

type logged struct {
	sop.TwoPhaseCommitTransaction
	rec     *recorder
	failP2  bool // inject: SOP's phase 2 reports an error without running
	results [4]int
}

func (l *logged) note(k int, err error) error {
	l.rec.log = append(l.rec.log, call{0, k, err == nil})
	if err == nil {
		l.results[k] = 1
	} else {
		l.results[k] = -1
	}
	return err
}
func (l *logged) Begin(ctx context.Context) error {
	return l.note(kBegin, l.TwoPhaseCommitTransaction.Begin(ctx))
}
func (l *logged) Phase1Commit(ctx context.Context) error {
	return l.note(kPhase1, l.TwoPhaseCommitTransaction.Phase1Commit(ctx))
}
func (l *logged) Phase2Commit(ctx context.Context) error {
	if l.failP2 {
		return l.note(kPhase2, errors.New("E:P0.phase2"))
	}
	return l.note(kPhase2, l.TwoPhaseCommitTransaction.Phase2Commit(ctx))
}
func (l *logged) Rollback(ctx context.Context, err error) error {
	return l.note(kRollback, l.TwoPhaseCommitTransaction.Rollback(ctx, err))
}

func realCases(s *hx.Session, o hx.RunOpts) error {
	ctx := context.Background()
	type rc struct {
		n      int
		v      int
		failP2 bool
	}
	var cases []rc
	// participants' phase-1/phase-2/rollback bits; SOP is the real thing (optionally with an injected phase-2 failure)
	for n := 1; n <= 2; n++ {
		for v := 0; v < 1<<(3*n); v++ {
			if !o.Thorough() && n == 2 && v%5 != 0 {
				continue
			}
			cases = append(cases, rc{n, v, false})
			if v%4 == 3 {
				cases = append(cases, rc{n, v, true})
			}
		}
	}
	cases = append(cases, rc{0, 0, false}, rc{0, 0, true})
	for ci, c := range cases {
		dir, err := os.MkdirTemp(hx.WorkRoot(), "c16-")
		if err != nil {
			return err
		}
		err = func() error {
			defer os.RemoveAll(dir)
			to := sop.TransactionOptions{StoresFolders: []string{dir}, CacheType: sop.InMemory, Mode: sop.ForWriting, MaxTime: time.Minute}
			// committed baseline: key 1
			t0, err := infs.NewTransaction(ctx, to)
			if err != nil {
				return err
			}
			if err := t0.Begin(ctx); err != nil {
				return err
			}
			name := fmt.Sprintf("c16s%d", ci)
			b0, err := infs.NewBtree[int, string](ctx, sop.StoreOptions{Name: name, SlotLength: 4, IsUnique: true, IsValueDataInNodeSegment: true}, t0, nil)
			if err != nil {
				return err
			}
			if _, err := b0.Add(ctx, 1, "base"); err != nil {
				return err
			}
			if err := t0.Commit(ctx); err != nil {
				return fmt.Errorf("baseline commit: %w", err)
			}
			// the transaction under test adds key 2
			tp, err := infs.NewTwoPhaseCommitTransaction(ctx, to)
			if err != nil {
				return err
			}
			rec := &recorder{}
			lg := &logged{TwoPhaseCommitTransaction: tp, rec: rec, failP2: c.failP2}
			t, err := sop.NewTransaction(sop.ForWriting, lg)
			if err != nil {
				return err
			}
			stubs := []*stub{newStub(0, [4]bool{true, true, true, true}, rec)}
			ps := []int{}
			for i := 1; i <= c.n; i++ {
				sh := 3 * (i - 1)
				st := newStub(i, [4]bool{true, c.v&(1<<sh) != 0, c.v&(1<<(sh+1)) != 0, c.v&(1<<(sh+2)) != 0}, rec)
				stubs = append(stubs, st)
				t.AddPhasedTransaction(st)
				ps = append(ps, i)
			}
			if err := t.Begin(ctx); err != nil {
				return fmt.Errorf("begin: %w", err)
			}
			// infs.OpenBtree needs the phased transaction to be the concrete *common.Transaction: open the store through
			// a plain wrapper of the same underlying transaction; Begin/Commit go through the decorated one under test
			tInner, err := sop.NewTransaction(sop.ForWriting, tp)
			if err != nil {
				return err
			}
			b, err := infs.OpenBtree[int, string](ctx, name, tInner, nil)
			if err != nil {
				return fmt.Errorf("open: %w", err)
			}
			if ok, err := b.Add(ctx, 2, "new"); err != nil || !ok {
				return fmt.Errorf("add: %v %v", ok, err)
			}
			rec.log = nil
			lg.results = [4]int{}
			cerr := t.Commit(ctx)
			// the script of id 0 is what the real transaction answered (calls not made count as succeeding)
			var sb [4]bool
			for k := 0; k < 4; k++ {
				sb[k] = lg.results[k] >= 0
			}
			stubs[0].bits = sb
			pss := "-"
			if len(ps) > 0 {
				q := make([]string, len(ps))
				for i, p := range ps {
					q[i] = fmt.Sprint(p)
				}
				pss = strings.Join(q, ",")
			}
			hdr := "ps=" + pss
			for _, st := range stubs {
				hdr += " " + bitsStr(st.bits)
			}
			s.BeginCase(hdr + " real")
			s.Nontrivial()
			s.Hit("real_sop_transaction")
			r := "ok"
			if cerr != nil {
				// the primary error: the failed call
				toks := errTok.FindAllString(cerr.Error(), -1)
				prim := "P0.?"
				if len(toks) > 0 {
					prim = strings.TrimPrefix(toks[0], "E:")
				} else {
					for _, cl := range rec.log {
						if !cl.ok && cl.kind != kRollback {
							prim = fmt.Sprintf("P%d.%s", cl.who, kindName[cl.kind])
							break
						}
					}
				}
				rb := "-"
				if strings.Contains(cerr.Error(), "rollback failed") {
					for _, cl := range rec.log {
						if !cl.ok && cl.kind == kRollback {
							rb = fmt.Sprintf("P%d", cl.who)
						}
					}
				}
				r = fmt.Sprintf("err %s rb=%s", prim, rb)
			}
			s.Op("commit", rec.String()+" => "+r)
			oracleCommit(s, rec.log, ps, cerr)
			// store contents follow the outcome
			tr, err := infs.NewTransaction(ctx, sop.TransactionOptions{StoresFolders: []string{dir}, CacheType: sop.InMemory, Mode: sop.ForReading, MaxTime: time.Minute})
			if err != nil {
				return err
			}
			if err := tr.Begin(ctx); err != nil {
				return err
			}
			br, err := infs.OpenBtree[int, string](ctx, name, tr, nil)
			if err != nil {
				return fmt.Errorf("reopen: %w", err)
			}
			has1, _ := br.Find(ctx, 1, false)
			has2, _ := br.Find(ctx, 2, false)
			cnt := br.Count()
			tr.Commit(ctx)
			if !has1 {
				s.Fail("C16/real-baseline-lost", "the committed baseline item is gone after the transaction under test", hdr)
			}
			if cerr == nil && (!has2 || cnt != 2) {
				s.Fail("C16/real-commit-lost", "Commit returned nil but SOP's change is not in the store", fmt.Sprintf("%s has2=%v count=%d", hdr, has2, cnt))
			}
			if cerr != nil && (has2 || cnt != 1) {
				s.Fail("C16/real-not-rolled-back", "Commit failed but SOP's change is visible in the store", fmt.Sprintf("%s has2=%v count=%d", hdr, has2, cnt))
			}
			if cerr == nil {
				s.Hit("real_committed_store_has_item")
			} else {
				s.Hit("real_failed_store_unchanged")
			}
			return nil
		}()
		if err != nil {
			return err
		}
	}
	return nil
}
