// Property C17: the B-tree is a correctly ordered collection. Go side of the differential harness:
// directed corpus first, then random phase-structured op sequences on the real /repo/btree code.
package main

import (
	"fmt"

	"verifharness/btx"
	"verifharness/hx"
)

func main() { hx.Main(run, "", nil, nil) }

const rule = "cases: op sequences (add, addne, upsert, update, updkey, rm, find, findd, findid, first, last, next, prev, rmcur, updcurkey, updcur, updcurval) " +
	"on the real btree.Btree[int,int] over a recording in-memory node repository (about 1 case in 10: inmemory.NewBtree), requested slot length from {1,2,3,4,5,6,7,8}, " +
	"unique or duplicate keys, leaf load balancing on in about 35% of cases; ids are deterministic (one counter for items and nodes). After EVERY op the whole tree " +
	"(every node's slots, children, parent, count, memoised child index), Count, root id and the cursor (node, index, cached item as seen through its aliasing pointer) are dumped " +
	"by walking the repository directly, never through the cursor, and compared line by line with the model; a sorted-slice reference checks return values, count, order, " +
	"vacated slots, uniqueness and content. Directed corpus first (stale cursor, load-balancing witness, duplicates, ascending/descending drains), then random cases split into " +
	"1-4 phases (grow, churn, balanced add/remove flux, shrink, drain, cursor-play, heavy duplicates). distinct = canonical op-line hash; non-trivial = the case saw at least one split " +
	"(node count grew by >= 2 in one op), one load-balancing rotation (an add that changed >= 2 existing nodes without creating one) or a nil child next to a live one"

func finish(s *hx.Session, t *btx.Tree) {
	if t.Splits > 0 || t.Rotations > 0 || t.NilChildOps > 0 {
		s.Nontrivial()
	}
	if t.Splits > 0 {
		s.Hit("case:split")
	}
	if t.Rotations > 0 {
		s.Hit("case:rotation")
	}
	if t.NilChildOps > 0 {
		s.Hit("case:nilchild")
	}
	if t.Emptied > 0 {
		s.Hit("case:emptied")
	}
	s.Hit(fmt.Sprintf("case:height=%d", t.MaxHeight))
	if t.Dead {
		s.Hit("case:panicked")
	}
	if t.Unhealthy {
		s.Hit("case:unhealthy")
	}
	t.Close()
}

func fixed(s *hx.Session, name string, cfg btx.Config, ops []string) {
	t := btx.Begin(s, cfg)
	t.ReportPrefix = "C17/"
	s.Hit("corpus:" + name)
	t.RunOps(ops)
	finish(s, t)
}

func seq(lo, hi int) []int {
	var out []int
	if lo <= hi {
		for i := lo; i <= hi; i++ {
			out = append(out, i)
		}
	} else {
		for i := lo; i >= hi; i-- {
			out = append(out, i)
		}
	}
	return out
}

func corpus(s *hx.Session) {
	// W1: stale cursor. A missed remove parks the cursor; adds split the node under it; Find's fast path trusts the cached item.
	w1 := (&btx.Script{}).Upsert(7).Add(4).Upsert(1, 0).Rm(3).Upsert(2).Rm(0)
	fixed(s, "W1", btx.Config{SL: 2, U: true}, w1.Ops)
	// W2: load balancing mis-orders.
	w2 := (&btx.Script{}).Add(4, 2, 6, 1, 8, 9).Rm(4, 9).Add(4, 7).Rm(1, 2).Add(2, 5)
	fixed(s, "W2", btx.Config{SL: 2, U: true, LB: true}, w2.Ops)
	// W3: odd requested slot length, ten duplicates in and out.
	w3 := &btx.Script{}
	for i := 0; i < 10; i++ {
		w3.Add(5)
	}
	for i := 0; i < 10; i++ {
		w3.Rm(5)
	}
	w3.Add(1, 2, 3)
	fixed(s, "W3", btx.Config{SL: 3}, w3.Ops)
	// W4/W5: fill ascending, drain descending / ascending.
	fixed(s, "W4", btx.Config{SL: 2, U: true}, (&btx.Script{}).Add(seq(1, 20)...).Rm(seq(20, 1)...).Ops)
	fixed(s, "W5", btx.Config{SL: 2, U: true}, (&btx.Script{}).Add(seq(1, 20)...).Rm(seq(1, 20)...).Ops)
	// W6: remove every even key, add them back, drain in a fixed shuffled order.
	var even []int
	for k := 2; k <= 20; k += 2 {
		even = append(even, k)
	}
	order := seq(1, 20)
	sh := hx.NewPrng(20260922)
	for i := len(order) - 1; i > 0; i-- {
		j := sh.Intn(i + 1)
		order[i], order[j] = order[j], order[i]
	}
	fixed(s, "W6", btx.Config{SL: 2, U: true}, (&btx.Script{}).Add(seq(1, 20)...).Rm(even...).Add(even...).Rm(order...).Ops)
}

func randomCase(s *hx.Session, p *hx.Prng) {
	cfg, ks := btx.RandomConfig(p, 35, 100)
	t := btx.Begin(s, cfg)
	t.ReportPrefix = "C17/"
	g := &btx.Gen{P: p, T: t, Lo: ks[0], Hi: ks[1]}
	s.Hit(fmt.Sprintf("keys:%d..%d", ks[0], ks[1]))
	// 20..150 ops, short cases more likely (mean about 60)
	n := 20 + min(p.Intn(131), p.Intn(131))
	if cfg.SL >= 6 && p.Chance(1, 2) {
		n = 60 + p.Intn(91) // wide nodes need more items before anything structural happens
	}
	if cfg.LB {
		n = 20 + p.Intn(131) // rotations go wrong only after some add/remove turnover
	}
	lens := btx.SplitLen(p, n, 1+p.Intn(4))
	for i, ln := range lens {
		var kind string
		switch {
		case i == 0 && p.Chance(7, 10):
			kind = "grow"
		case !cfg.U && p.Chance(1, 5):
			kind = "dups"
		case cfg.LB && p.Chance(2, 5):
			kind = "flux"
		default:
			kind = []string{"grow", "churn", "churn", "flux", "shrink", "shrink", "drain", "cursor", "cursor"}[p.Intn(9)]
		}
		g.Phase(kind, ln)
		if t.Dead {
			break
		}
	}
	s.Hit(fmt.Sprintf("phases:%d", len(lens)))
	finish(s, t)
}

func run(o hx.RunOpts) error {
	s := hx.NewSession(o, rule)
	if o.Replay != "" {
		if err := btx.Replay(s, o.Replay, "C17/", func(t *btx.Tree) { finish(s, t) }); err != nil {
			return err
		}
		return s.Finish()
	}
	corpus(s)
	p := hx.NewPrng(o.Seed)
	n := o.N(3000, 15000)
	for i := 0; i < n; i++ {
		randomCase(s, p.Fork())
	}
	return s.Finish()
}
