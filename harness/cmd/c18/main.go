// Property C18: lookups and range scans position the cursor correctly. Go side of the differential harness:
// build a tree with a random grow/churn/shrink sequence, then probe every key of a window around the stored
// keys with find / findInDescendingOrder / findWithID / short walks and with Range / RangeDesc.
package main

import (
	"fmt"
	"strings"

	"verifharness/btx"
	"verifharness/hx"
)

func main() { hx.Main(run, "", nil, nil) }

const rule = "cases: a build phase (10..120 random grow/churn/shrink ops; requested slot length from {1..8}, unique or duplicate keys, leaf load balancing on in about 15% of cases, " +
	"about 1 case in 10 through inmemory.NewBtree) followed by a probe phase on the real btree.Btree[int,int]: for every key of [min-1, max+1] (window of at most 40 keys) some of " +
	"find K 1, find K 0, findd K, findid K N in random order, each possibly followed by up to 4 next or prev steps, interleaved with Range(A,B) / RangeDesc(B,A) through " +
	"inmemory.BtreeInterface for random A<=B incl. empty ranges, single keys and ranges beyond both ends. After EVERY op the whole tree and the cursor are dumped by walking the " +
	"repository (never through the cursor) and compared line by line with the model; a sorted-slice reference checks range key sequences, that find K 1 / findd K park the cursor on the " +
	"first / last item with the key, and where a miss leaves the cursor (skipped once a C17 oracle fired in the case). Directed corpus first (keys 10..100 at slot lengths 2, 4, 8 probed " +
	"at 5..105 step 5; a duplicates case). distinct = canonical op-line hash; non-trivial = the built tree has height >= 2 and at least 3 probes hit and 3 missed"

// probeStats counts what the probe phase saw.
type probeStats struct {
	hit, miss   int
	buildHeight int
}

func finish(s *hx.Session, t *btx.Tree, st *probeStats) {
	if st.buildHeight >= 2 && st.hit >= 3 && st.miss >= 3 {
		s.Nontrivial()
	}
	s.Hit(fmt.Sprintf("case:build-height=%d", st.buildHeight))
	if t.Dead {
		s.Hit("case:panicked")
	}
	if t.Unhealthy {
		s.Hit("case:unhealthy")
	}
	t.Close()
}

// probe applies a lookup and counts hit / miss from the answer line.
func probe(s *hx.Session, t *btx.Tree, st *probeStats, format string, args ...any) {
	if t.Dead {
		return
	}
	ans := t.Apply(fmt.Sprintf(format, args...))
	switch {
	case strings.HasPrefix(ans, "1 "):
		st.hit++
		s.Hit("probe:hit")
	case strings.HasPrefix(ans, "0 "):
		st.miss++
		s.Hit("probe:miss")
	}
}

func apply(t *btx.Tree, format string, args ...any) {
	if !t.Dead {
		t.Apply(fmt.Sprintf(format, args...))
	}
}

func corpus(s *hx.Session) {
	for _, sl := range []int{2, 4, 8} {
		t := btx.Begin(s, btx.Config{SL: sl, U: true})
		t.ReportPrefix = "C18/"
		s.Hit(fmt.Sprintf("corpus:decades-sl%d", sl))
		sc := &btx.Script{}
		for k := 10; k <= 100; k += 10 {
			sc.Add(k)
		}
		t.RunOps(sc.Ops)
		st := &probeStats{buildHeight: t.Height()}
		for k := 5; k <= 105; k += 5 {
			probe(s, t, st, "find %d 1", k)
			probe(s, t, st, "findd %d", k)
			probe(s, t, st, "find %d 0", k)
			id := btx.NoSuchID
			for _, r := range t.Ref {
				if r.Key == k {
					id = r.ID
				}
			}
			probe(s, t, st, "findid %d %d", k, id)
			apply(t, "next")
			apply(t, "prev")
		}
		for _, l := range []string{"range 5 105", "range 10 100", "range 15 15", "range 20 20", "range 25 45", "range 30 50", "range 101 200", "range -5 5",
			"rangedesc 105 5", "rangedesc 100 10", "rangedesc 15 15", "rangedesc 20 20", "rangedesc 45 25", "rangedesc 50 30", "rangedesc 200 101", "rangedesc 5 -5"} {
			apply(t, "%s", l)
		}
		finish(s, t, st)
	}
	// duplicates
	t := btx.Begin(s, btx.Config{SL: 2})
	t.ReportPrefix = "C18/"
	s.Hit("corpus:duplicates")
	t.RunOps((&btx.Script{}).Add(1, 1, 1, 2, 2, 3, 3, 3, 3).Ops)
	st := &probeStats{buildHeight: t.Height()}
	probe(s, t, st, "find 1 1")
	probe(s, t, st, "findd 3")
	for _, r := range append([]btx.RefItem(nil), t.Ref...) {
		probe(s, t, st, "findid %d %d", r.Key, r.ID)
	}
	for _, l := range []string{"range 1 3", "rangedesc 3 1", "range 2 2", "find 2 1", "findd 2", "findd 1", "find 3 1", "find 0 1", "findd 4", "rangedesc 2 2", "range 0 1", "rangedesc 9 3"} {
		apply(t, "%s", l)
	}
	finish(s, t, st)
}

// oneRange issues a Range or RangeDesc over a window shaped by kind.
func oneRange(p *hx.Prng, t *btx.Tree, lo, hi int) {
	a, b := lo, hi
	span := hi - lo + 1
	pick := func() int { return lo - 3 + p.Intn(span+6) }
	switch p.Intn(8) {
	case 0, 1: // random pair
		a, b = pick(), pick()
		if a > b {
			a, b = b, a
		}
	case 2: // single key
		a = pick()
		if len(t.Ref) > 0 && p.Chance(2, 3) {
			a = t.Ref[p.Intn(len(t.Ref))].Key
		}
		b = a
	case 3: // beyond both ends
		a, b = lo-2-p.Intn(5), hi+2+p.Intn(5)
	case 4: // entirely below / entirely above
		if p.Chance(1, 2) {
			a, b = lo-10, lo-1-p.Intn(3)
		} else {
			a, b = hi+1+p.Intn(3), hi+10
		}
	case 5: // a gap between two stored keys, when there is one: an empty range inside the key span
		a = pick()
		b = a
		for i := 1; i < len(t.Ref); i++ {
			j := (i + p.Intn(len(t.Ref))) % len(t.Ref)
			if j > 0 && t.Ref[j].Key-t.Ref[j-1].Key >= 2 {
				a, b = t.Ref[j-1].Key+1, t.Ref[j].Key-1
				break
			}
		}
	case 6: // from a stored key to the end / from the start to a stored key
		if len(t.Ref) > 0 {
			k := t.Ref[p.Intn(len(t.Ref))].Key
			if p.Chance(1, 2) {
				a, b = k, hi+3
			} else {
				a, b = lo-3, k
			}
		}
	default: // short window
		a = pick()
		b = a + p.Intn(4)
	}
	if p.Chance(1, 2) {
		apply(t, "range %d %d", a, b)
	} else {
		apply(t, "rangedesc %d %d", b, a)
	}
}

func randomCase(s *hx.Session, p *hx.Prng) {
	cfg, ks := btx.RandomConfig(p, 15, 100)
	t := btx.Begin(s, cfg)
	t.ReportPrefix = "C18/"
	g := &btx.Gen{P: p, T: t, Lo: ks[0], Hi: ks[1]}
	s.Hit(fmt.Sprintf("keys:%d..%d", ks[0], ks[1]))

	// build
	n := 10 + p.Intn(111)
	lens := btx.SplitLen(p, n, 1+p.Intn(3))
	for i, ln := range lens {
		kind := "grow"
		if i > 0 || p.Chance(1, 5) {
			kind = []string{"grow", "grow", "churn", "shrink"}[p.Intn(4)]
		}
		if !cfg.U && p.Chance(1, 6) {
			kind = "dups"
		}
		g.Phase(kind, ln)
	}
	st := &probeStats{buildHeight: t.Height()}
	if t.Dead {
		finish(s, t, st)
		return
	}

	// probe window: [min-1, max+1], at most 40 keys, randomly placed when the span is larger
	lo, hi := ks[0], ks[0]+5
	if len(t.Ref) > 0 {
		lo, hi = t.Ref[0].Key-1, t.Ref[len(t.Ref)-1].Key+1
	} else {
		s.Hit("probe:empty-tree")
	}
	wlo, whi := lo, hi
	if hi-lo+1 > 40 {
		wlo = lo + p.Intn(hi-lo+1-40+1)
		whi = wlo + 39
		if len(t.Ref) > 0 && p.Chance(1, 2) { // centre on a stored key so that a sparse key space still yields hits
			c := t.Ref[p.Intn(len(t.Ref))].Key
			wlo = max(lo, min(c-p.Intn(40), hi-39))
			whi = wlo + 39
		}
		s.Hit("probe:window-capped")
	}
	keys := make([]int, 0, whi-wlo+1)
	for k := wlo; k <= whi; k++ {
		keys = append(keys, k)
	}
	if hi-lo+1 > 40 && len(t.Ref) > 0 { // a sparse window: replace some missing keys by stored ones
		for i := range keys {
			if !t.Has(keys[i]) && p.Chance(1, 4) {
				keys[i] = t.Ref[p.Intn(len(t.Ref))].Key
			}
		}
	}
	for i := len(keys) - 1; i > 0; i-- {
		j := p.Intn(i + 1)
		keys[i], keys[j] = keys[j], keys[i]
	}
	for _, k := range keys {
		if t.Dead {
			break
		}
		kinds := []int{0, 1, 2, 3}
		for i := len(kinds) - 1; i > 0; i-- {
			j := p.Intn(i + 1)
			kinds[i], kinds[j] = kinds[j], kinds[i]
		}
		kinds = kinds[:1+p.Intn(2)+p.Intn(2)]
		for _, kd := range kinds {
			switch kd {
			case 0:
				probe(s, t, st, "find %d 1", k)
			case 1:
				probe(s, t, st, "find %d 0", k)
			case 2:
				probe(s, t, st, "findd %d", k)
			default:
				id := btx.NoSuchID
				var same []int
				for _, r := range t.Ref {
					if r.Key == k {
						same = append(same, r.ID)
					}
				}
				switch r := p.Intn(10); {
				case r < 7 && len(same) > 0:
					id = same[p.Intn(len(same))]
				case r < 9 && len(t.Ref) > 0:
					id = t.Ref[p.Intn(len(t.Ref))].ID
				}
				probe(s, t, st, "findid %d %d", k, id)
			}
			if p.Chance(3, 10) {
				step := "next"
				if p.Chance(1, 2) {
					step = "prev"
				}
				for i, m := 0, 1+p.Intn(4); i < m; i++ {
					apply(t, "%s", step)
				}
				s.Hit("probe:walk-" + step)
			}
		}
		if p.Chance(1, 4) {
			oneRange(p, t, lo, hi)
		}
	}
	for i, m := 0, 4+p.Intn(6); i < m; i++ {
		oneRange(p, t, lo, hi)
	}
	finish(s, t, st)
}

func run(o hx.RunOpts) error {
	s := hx.NewSession(o, rule)
	if o.Replay != "" {
		st := &probeStats{}
		if err := btx.Replay(s, o.Replay, "C18/", func(t *btx.Tree) { finish(s, t, st) }); err != nil {
			return err
		}
		return s.Finish()
	}
	corpus(s)
	p := hx.NewPrng(o.Seed)
	n := o.N(1200, 6000)
	for i := 0; i < n; i++ {
		randomCase(s, p.Fork())
	}
	return s.Finish()
}
