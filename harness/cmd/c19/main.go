// C19 — persisted stores hold exactly what was written, under every storage option.
//
// One case = one store (placement × slot length) and a list of transactions (random batching), every write
// operation run through the real B-tree + item action tracker + commit code on real fs backends (txk). After every
// commit/rollback a cold reader (another process's view) dumps the store through the B-tree API and a raw disk
// walker says where each value is actually kept. The same op lines drive Sop.Model.ValuePlacement.
package main

import (
	"context"
	"fmt"
	"os"
	"sort"
	"strings"
	"time"

	"github.com/sharedcode/sop"
	"github.com/sharedcode/sop/common"
	"github.com/sharedcode/sop/inmemory"

	"verifharness/hx"
	"verifharness/persistx"
	"verifharness/txk"
)

func main() { hx.Main(run, "", nil, nil) }

type op struct {
	kind string // add upd ups rm
	key  int
	val  persistx.Val
}

type txn struct {
	ops    []op
	commit bool
}

type caseSpec struct {
	label string
	pl    persistx.Placement
	slot  int
	txns  []txn
}

const storeName = "st"

// ---- generator ----

func genVal(p *hx.Prng, tok *int, thorough bool) persistx.Val {
	*tok++
	var size int
	switch x := p.Intn(100); {
	case x < 55:
		size = 4 + p.Intn(30)
	case x < 85:
		size = 100 + p.Intn(3000)
	case x < 97:
		size = 20000 + p.Intn(60000)
	default:
		if thorough {
			size = 1<<20 + p.Intn(300000) // > 1 MB
		} else {
			size = 120000 + p.Intn(50000)
		}
	}
	return persistx.Val{Tok: *tok, Size: size}
}

func genCase(p *hx.Prng, pl persistx.Placement, slot int, thorough bool) caseSpec {
	c := caseSpec{label: "gen", pl: pl, slot: slot}
	keyRange := 6 + p.Intn(24)
	ntx := 2 + p.Intn(6)
	tok := 0
	// shape of the transaction: mixed, removes only, updates only, adds only
	for i := 0; i < ntx; i++ {
		var t txn
		t.commit = !p.Chance(1, 6)
		n := 1 + p.Intn(9)
		shape := p.Intn(10)
		if i == 0 {
			shape = 9 // first transaction fills the store
			n = 4 + p.Intn(12)
		}
		for j := 0; j < n; j++ {
			k := p.Intn(keyRange)
			var kind string
			switch {
			case shape <= 1:
				kind = "rm"
			case shape == 2:
				kind = "upd"
			case shape == 9:
				kind = []string{"add", "add", "add", "ups"}[p.Intn(4)]
			default:
				kind = []string{"add", "add", "upd", "upd", "ups", "rm", "rm"}[p.Intn(7)]
			}
			o := op{kind: kind, key: k}
			if kind != "rm" {
				o.val = genVal(p, &tok, thorough)
			}
			t.ops = append(t.ops, o)
		}
		c.txns = append(c.txns, t)
	}
	return c
}

func v(tok, size int) persistx.Val { return persistx.Val{Tok: tok, Size: size} }

// directed corpus: the witnesses of DESIGN.md §6 C19 and of the Lean counterexamples, run first.
func corpus() []caseSpec {
	var out []caseSpec
	act, _ := persistx.PlacementByName("active")
	sep, _ := persistx.PlacementByName("sep")
	inn, _ := persistx.PlacementByName("inNode")
	// (1) actively persisted: a transaction whose only effective operations are removes
	out = append(out, caseSpec{label: "active-remove-only", pl: act, slot: 4, txns: []txn{
		{ops: []op{{"add", 1, v(1, 8)}, {"add", 2, v(2, 8)}, {"add", 3, v(3, 8)}}, commit: true},
		{ops: []op{{"rm", 2, persistx.Val{}}}, commit: true},
	}})
	// (1b) same, but the removed item's value lives in its blob (it was updated by an earlier transaction)
	out = append(out, caseSpec{label: "active-remove-only-blob", pl: act, slot: 4, txns: []txn{
		{ops: []op{{"add", 1, v(1, 8)}, {"add", 2, v(2, 8)}}, commit: true},
		{ops: []op{{"upd", 2, v(3, 9)}}, commit: true},
		{ops: []op{{"rm", 2, persistx.Val{}}}, commit: true},
	}})
	// (2) separate segment: blob written, value still inline
	out = append(out, caseSpec{label: "sep-inline", pl: sep, slot: 4, txns: []txn{
		{ops: []op{{"add", 1, v(1, 8)}, {"add", 2, v(2, 8)}}, commit: true},
		{ops: []op{{"upd", 2, v(3, 9)}}, commit: true},
	}})
	// (3) interior removal: slot 2, keys 1..5 make a 2-level tree. Before /repo a8e6b837 the successor was handed to the
	// tracker and the second and third commit were skipped (C19-F3, now fixed: must read back right)
	for _, pl := range []persistx.Placement{inn, sep} {
		out = append(out, caseSpec{label: "interior-remove", pl: pl, slot: 2, txns: []txn{
			{ops: []op{{"add", 10, v(1, 8)}, {"add", 20, v(2, 8)}, {"add", 30, v(3, 8)}, {"add", 40, v(4, 8)}, {"add", 50, v(5, 8)}}, commit: true},
			{ops: []op{{"add", 25, v(6, 8)}, {"rm", 20, persistx.Val{}}}, commit: true},
			{ops: []op{{"add", 35, v(7, 8)}, {"rm", 30, persistx.Val{}}}, commit: true},
		}})
	}
	// (4) actively persisted, the mechanisms of the whole-history theorem (Lean: sampleActive,
	// C19_interior_remove_harmless_when_active): update of a key added by the same transaction (value stays inline, no
	// second blob), two updates of one key in one transaction (inline -> blob of the same id -> new id and blob), an
	// empty transaction, a rolled-back update of a value that lives in its blob, a skipped add+remove transaction in a
	// store that is not actively persisted; and the interior-remove history in an actively persisted store
	actC, _ := persistx.PlacementByName("activeCache")
	for _, pl := range []persistx.Placement{act, actC} {
		out = append(out, caseSpec{label: "active-id-frame", pl: pl, slot: 4, txns: []txn{
			{ops: []op{{"add", 1, v(1, 8)}, {"upd", 1, v(2, 8)}, {"add", 2, v(3, 8)}}, commit: true},
			{ops: []op{{"upd", 1, v(4, 8)}, {"upd", 1, v(5, 8)}, {"rm", 2, persistx.Val{}}}, commit: true},
			{ops: nil, commit: true},
			{ops: []op{{"upd", 1, v(6, 8)}}, commit: false},
			{ops: []op{{"upd", 1, v(7, 8)}}, commit: true},
		}})
		out = append(out, caseSpec{label: "active-interior-remove", pl: pl, slot: 2, txns: []txn{
			{ops: []op{{"add", 10, v(1, 8)}, {"add", 20, v(2, 8)}, {"add", 30, v(3, 8)}, {"add", 40, v(4, 8)}, {"add", 50, v(5, 8)}}, commit: true},
			{ops: []op{{"add", 25, v(6, 8)}, {"rm", 20, persistx.Val{}}}, commit: true},
			{ops: []op{{"add", 35, v(7, 8)}, {"rm", 30, persistx.Val{}}}, commit: true},
		}})
	}
	for _, pl := range []persistx.Placement{inn, sep} {
		out = append(out, caseSpec{label: "skipped-add-remove", pl: pl, slot: 4, txns: []txn{
			{ops: []op{{"add", 1, v(1, 8)}}, commit: true},
			{ops: []op{{"add", 7, v(7, 8)}, {"upd", 7, v(8, 8)}, {"rm", 7, persistx.Val{}}}, commit: true},
			{ops: nil, commit: true},
			{ops: []op{{"upd", 1, v(2, 8)}}, commit: true},
		}})
	}
	return out
}

// ---- executor ----

type runner struct {
	s         *hx.Session
	ctx       context.Context
	rmTracked bool // does this tree track a Remove in an actively persisted store? (probed, goes into every case header)
}

// probeRemoveTracked runs one Remove in an actively persisted store and looks at the tracker.
func probeRemoveTracked(ctx context.Context) (bool, error) {
	dir, err := os.MkdirTemp(hx.WorkRoot(), "c19p-")
	if err != nil {
		return false, err
	}
	defer os.RemoveAll(dir)
	e := txk.NewEnv(dir, 3)
	defer e.ColdRestart()
	act, _ := persistx.PlacementByName("active")
	for round := 0; round < 2; round++ {
		t, err := e.NewTxn(ctx, sop.ForWriting, time.Minute, nil)
		if err != nil {
			return false, err
		}
		if err := t.T.Begin(ctx); err != nil {
			return false, err
		}
		b, err := txk.NewBtree[int, string](ctx, t, act.Opts(e, storeName, 4))
		if err != nil {
			return false, err
		}
		if round == 0 {
			if _, err := b.Add(ctx, 1, "v1:"); err != nil {
				return false, err
			}
			if err := t.T.Commit(ctx); err != nil {
				return false, err
			}
			continue
		}
		if ok, err := b.Remove(ctx, 1); err != nil || !ok {
			return false, fmt.Errorf("probe remove: %v %v", ok, err)
		}
		tracked, _ := common.VerifC19Tracked(t.P, storeName)
		t.T.Rollback(ctx)
		return tracked, nil
	}
	return false, nil
}

func errClass(err error) string {
	if err == nil {
		return "ok"
	}
	return "err"
}

func b01(b bool) string {
	if b {
		return "1"
	}
	return "0"
}

// reference: what the store must hold = the operations' reported results applied to a map, transaction by
// transaction (a rolled back or failed transaction leaves it unchanged). The in-memory B-tree of the repository is
// run alongside as the second reference the DESIGN names.
type reference struct {
	committed map[int]persistx.Val
}

func (r *reference) dump(m map[int]persistx.Val) string {
	keys := make([]int, 0, len(m))
	for k := range m {
		keys = append(keys, k)
	}
	sort.Ints(keys)
	parts := []string{fmt.Sprintf("count=%d", len(m))}
	for _, k := range keys {
		parts = append(parts, fmt.Sprintf("%d=%s", k, m[k].Canon()))
	}
	return strings.Join(parts, " ")
}

func inmemDump(b inmemory.BtreeInterface[int, string]) string {
	parts := []string{fmt.Sprintf("count=%d", b.Count())}
	for ok := b.First(); ok; ok = b.Next() {
		parts = append(parts, fmt.Sprintf("%d=%s", b.GetCurrentKey(), persistx.CanonReal(b.GetCurrentValue())))
	}
	return strings.Join(parts, " ")
}

func (r *runner) runCase(c caseSpec) error {
	s, ctx := r.s, r.ctx
	dir, err := os.MkdirTemp(hx.WorkRoot(), "c19-")
	if err != nil {
		return err
	}
	defer os.RemoveAll(dir)
	e := txk.NewEnv(dir, 3)
	defer e.ColdRestart()
	hdr := fmt.Sprintf("%s %s slot=%d", c.label, c.pl.Name, c.slot)
	if r.rmTracked {
		hdr += " rmtracked=1"
	}
	s.BeginCase(hdr)
	s.Hit("place:" + c.pl.Name)
	s.Hit(fmt.Sprintf("slot:%d", c.slot))

	// create the store in its own transaction
	{
		t, err := e.NewTxn(ctx, sop.ForWriting, time.Minute, nil)
		if err != nil {
			return err
		}
		if err := t.T.Begin(ctx); err != nil {
			return err
		}
		if _, err := txk.NewBtree[int, string](ctx, t, c.pl.Opts(e, storeName, c.slot)); err != nil {
			return err
		}
		if err := t.T.Commit(ctx); err != nil {
			return err
		}
	}
	ref := &reference{committed: map[int]persistx.Val{}}
	mem := inmemory.NewBtree[int, string](true)
	nontrivial := false

	for ti, tx := range c.txns {
		t, err := e.NewTxn(ctx, sop.ForWriting, time.Minute, nil)
		if err != nil {
			return err
		}
		if err := t.T.Begin(ctx); err != nil {
			return err
		}
		b, err := txk.OpenBtree[int, string](ctx, t, storeName)
		if err != nil {
			return err
		}
		spy := &persistx.Spy{}
		if !spy.Install(t, storeName) {
			return fmt.Errorf("cannot install tracker spy")
		}
		s.Op("begin", "ok")
		work := map[int]persistx.Val{}
		for k, x := range ref.committed {
			work[k] = x
		}
		type memop struct {
			o  op
			ok bool
		}
		var applied []memop
		effAdds, effUpds, effRms, viaOther, viaOtherAdded := 0, 0, 0, 0, 0
		addedHere := map[int]bool{}
		for _, o := range tx.ops {
			var ok bool
			var oerr error
			_, existed := work[o.key]
			switch o.kind {
			case "add":
				ok, oerr = b.Add(ctx, o.key, o.val.Real())
			case "upd":
				ok, oerr = b.Update(ctx, o.key, o.val.Real())
			case "ups":
				ok, oerr = b.Upsert(ctx, o.key, o.val.Real())
			case "rm":
				ok, oerr = b.Remove(ctx, o.key)
			}
			if oerr != nil {
				return fmt.Errorf("case %d txn %d %v: %w", s.CaseNo, ti, o, oerr)
			}
			evs := spy.Take()
			line := fmt.Sprintf("%s %d", o.kind, o.key)
			if o.kind != "rm" {
				line += fmt.Sprintf(" %d %d", o.val.Tok, o.val.Len())
			}
			if len(evs) > 0 {
				line += " ev " + strings.Join(evs, " ")
			}
			s.Op(line, b01(ok))
			s.Hit("op:" + o.kind + ":" + b01(ok))
			applied = append(applied, memop{o, ok})
			// the specification's answer for this operation
			want := map[string]bool{"add": !existed, "upd": existed, "ups": true, "rm": existed}[o.kind]
			if ok != want {
				sig := "C19/op-result-deviates-from-map"
				if o.kind == "rm" && existed && !ok {
					sig = "C19/remove-false-on-existing-key"
				}
				s.Fail(sig, "an operation's reported result differs from the map specification (B-tree layer, C17)", fmt.Sprintf("txn %d %s %d: got %v want %v", ti, o.kind, o.key, ok, want))
			}
			if ok {
				switch o.kind {
				case "add":
					work[o.key] = o.val
					effAdds++
					addedHere[o.key] = true
				case "upd":
					work[o.key] = o.val
					effUpds++
				case "ups":
					work[o.key] = o.val
					if existed {
						effUpds++
					} else {
						effAdds++
						addedHere[o.key] = true
					}
				case "rm":
					delete(work, o.key)
					effRms++
					for _, ev := range evs {
						if strings.HasPrefix(ev, "r:") && ev != fmt.Sprintf("r:%d", o.key) {
							viaOther++
							s.Hit("remove_hands_other_item_to_tracker")
							var vk int
							fmt.Sscanf(ev, "r:%d", &vk)
							if addedHere[vk] {
								viaOtherAdded++
								s.Hit("remove_hands_item_added_in_same_txn")
							}
						}
					}
					delete(addedHere, o.key)
				}
			}
		}
		spy.Remove(t, storeName)
		tracked, _ := common.VerifC19Tracked(t.P, storeName)
		effective := effAdds+effUpds+effRms > 0
		var end string
		if tx.commit {
			cerr := t.T.Commit(ctx)
			s.Op("commit", errClass(cerr))
			end = "commit:" + errClass(cerr)
			if cerr == nil {
				ref.committed = work
				for _, a := range applied {
					switch a.o.kind {
					case "add":
						mem.Add(a.o.key, a.o.val.Real())
					case "upd":
						mem.Update(a.o.key, a.o.val.Real())
					case "ups":
						mem.Upsert(a.o.key, a.o.val.Real())
					case "rm":
						mem.Remove(a.o.key)
					}
				}
			}
		} else {
			rerr := t.T.Rollback(ctx)
			s.Op("rollback", errClass(rerr))
			end = "rollback"
		}
		s.Hit(end)
		if !tracked && effective && tx.commit {
			s.Hit("commit_with_empty_tracker")
		}
		if effective && effAdds+effUpds == 0 {
			s.Hit("txn_removes_only")
		}
		dump, derr := persistx.ColdDump(ctx, e, storeName)
		if derr != nil {
			dump = "dump-error"
		}
		s.Op("dump", dump)
		disk, kerr := persistx.DiskDump(ctx, e, storeName)
		if kerr != nil {
			disk = "disk-error"
		}
		s.Op("disk", disk)
		if strings.Contains(disk, ":b=") {
			s.Hit("value_in_blob")
			nontrivial = true
		}
		if strings.Contains(disk, ":i=") && !c.pl.InNode {
			s.Hit("value_inline_in_out_of_node_store")
		}
		// direct oracle: the cold reader sees exactly the reference
		want := ref.dump(ref.committed)
		if md := inmemDump(mem); md != want {
			// the in-memory B-tree is the same btree package: its own cursor defects (C17) can make it deviate from the map
			s.Fail("C19/inmemory-btree-deviates-from-map", "the repository's in-memory B-tree, given the same operations, disagrees with the map specification (B-tree layer, C17)", fmt.Sprintf("after txn %d: inmemory %q map %q", ti, md, want))
			resync(ref, mem, want)
		}
		if dump != want {
			sig := "C19/contents-mismatch"
			switch {
			case tx.commit && !tracked && c.pl.Active && effective && viaOtherAdded == 0 && strings.Contains(dump, "=!"):
				sig = "C19/active-remove-only-commit-skipped-value-blob-deleted"
			case tx.commit && !tracked && c.pl.Active && effective && viaOtherAdded == 0:
				sig = "C19/active-remove-only-commit-skipped"
			case tx.commit && !tracked && effective && viaOtherAdded > 0:
				sig = "C19/interior-remove-untracks-successor-commit-skipped"
			}
			s.Fail(sig, "a cold reader does not see what the committed transactions wrote", fmt.Sprintf("after txn %d (%s): got %q want %q", ti, end, dump, want))
			// later transactions work on what is really there: resynchronise the references with the store
			resync(ref, mem, dump)
		}
		if effective {
			nontrivial = true
		}
		_ = viaOther
	}
	if nontrivial {
		s.Nontrivial()
	}
	return nil
}

// resync makes the references equal to what the cold reader saw (unreadable values get token 0), so that one
// defect is reported once and the rest of the case still checks something.
func resync(ref *reference, mem inmemory.BtreeInterface[int, string], dump string) {
	for mem.First() {
		mem.RemoveCurrentItem()
	}
	ref.committed = map[int]persistx.Val{}
	for _, f := range strings.Fields(dump)[1:] {
		var k, tok, n int
		if _, err := fmt.Sscanf(f, "%d=%d:%d", &k, &tok, &n); err != nil {
			fmt.Sscanf(f, "%d=", &k)
			tok, n = -1, 1
		}
		val := persistx.Val{Tok: tok, Size: n}
		ref.committed[k] = val
		mem.Add(k, val.Real())
	}
}

func run(o hx.RunOpts) error {
	s := hx.NewSession(o, "one case = one store (placement inNode|sep|sepCache|active|activeCache × slot length 2|4|8|…) and 2-7 transactions of 1-16 add/update/upsert/remove operations "+
		"(values 4 B … 170 kB quick, … 1.3 MB thorough; transaction shapes: mixed, removes only, updates only, adds only; 1 in 6 rolled back) run through the real B-tree, item action tracker and commit code on real fs backends; "+
		"after every transaction a cold reader dumps (key,value) through the B-tree API and a raw walk of registry+blob files says where each value is kept; the same lines drive Sop.Model.ValuePlacement. "+
		"Oracle: cold dump = map of reported results = repository's in-memory B-tree. distinct = canonical op hash; non-trivial = at least one effective write or a value fetched from a blob")
	r := &runner{s: s, ctx: context.Background()}
	rt, err := probeRemoveTracked(r.ctx)
	if err != nil {
		return err
	}
	r.rmTracked = rt
	s.Hit(fmt.Sprintf("tree_tracks_active_remove:%v", rt))
	for _, c := range corpus() {
		if err := r.runCase(c); err != nil {
			return err
		}
		s.Hit("corpus")
	}
	p := hx.NewPrng(o.Seed)
	n := o.N(250, 1500)
	slots := []int{2, 4, 8}
	if o.Thorough() {
		slots = []int{2, 4, 6, 8, 16, 64}
	}
	for i := 0; i < n; i++ {
		pl := persistx.Placements[i%len(persistx.Placements)]
		slot := slots[p.Intn(len(slots))]
		if err := r.runCase(genCase(p, pl, slot, o.Thorough())); err != nil {
			return err
		}
	}
	return s.Finish()
}
