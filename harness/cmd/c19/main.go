// C19 — persisted stores hold exactly what was written, under every storage option.
//
// One case = one store (placement × slot length) and a list of transactions (random batching), every write
// operation run through the real B-tree + item action tracker + commit code on real fs backends (txk). After every
// commit/rollback a cold reader (another process's view) dumps the store through the B-tree API and a raw disk
// walker says where each value is actually kept. The same op lines drive Sop.Model.ValuePlacement.
package main

import (
	"context"
	"fmt"
	"os"
	"sort"
	"strconv"
	"strings"
	"time"

	"github.com/sharedcode/sop"
	"github.com/sharedcode/sop/common"
	"github.com/sharedcode/sop/inmemory"

	"verifharness/hx"
	"verifharness/persistx"
	"verifharness/txk"
)

func main() { hx.Main(run, "", nil, nil) }

type op struct {
	kind string // add upd ups rm | upk (UpdateKey: key-only, value not fetched) | gupk (Find+GetCurrentValue+UpdateCurrentKey)
	key  int
	val  persistx.Val
}

type txn struct {
	ops    []op
	commit bool
	// rival: keys another transaction of the process adds (and commits) after this transaction's operations and before its
	// commit: this transaction loses the race for the node and goes through the conflict / refetch-and-merge round
	rival []int
}

type caseSpec struct {
	label string
	pl    persistx.Placement
	slot  int
	txns  []txn
}

const storeName = "st"

// ---- generator ----

func genVal(p *hx.Prng, tok *int, thorough bool) persistx.Val {
	*tok++
	var size int
	switch x := p.Intn(100); {
	case x < 55:
		size = 4 + p.Intn(30)
	case x < 85:
		size = 100 + p.Intn(3000)
	case x < 97:
		size = 20000 + p.Intn(60000)
	default:
		if thorough {
			size = 1<<20 + p.Intn(300000) // > 1 MB
		} else {
			size = 120000 + p.Intn(50000)
		}
	}
	return persistx.Val{Tok: *tok, Size: size}
}

func genCase(p *hx.Prng, pl persistx.Placement, slot int, thorough bool) caseSpec {
	c := caseSpec{label: "gen", pl: pl, slot: slot}
	// one case in three has transactions that lose the race for their node (a rival commits while they are open):
	// the store is then one node (slot length 64 > number of keys), so that every rival write is a conflict
	rivals := p.Chance(1, 3)
	if rivals {
		c.label, c.slot = "gen-rival", 64
	}
	keyRange := 6 + p.Intn(24)
	ntx := 2 + p.Intn(6)
	tok := 0
	// shape of the transaction: mixed, removes only, updates only, adds only
	for i := 0; i < ntx; i++ {
		var t txn
		t.commit = !p.Chance(1, 6)
		n := 1 + p.Intn(9)
		shape := p.Intn(10)
		if i == 0 {
			shape = 9 // first transaction fills the store
			n = 4 + p.Intn(12)
		}
		for j := 0; j < n; j++ {
			k := p.Intn(keyRange)
			var kind string
			switch {
			case shape <= 1:
				kind = "rm"
			case shape == 2:
				kind = "upd"
			case shape == 9:
				kind = []string{"add", "add", "add", "ups"}[p.Intn(4)]
			default:
				kind = []string{"add", "add", "upd", "upd", "ups", "rm", "rm", "upk", "gupk"}[p.Intn(9)]
			}
			o := op{kind: kind, key: k}
			if kind != "rm" {
				o.val = genVal(p, &tok, thorough)
			}
			t.ops = append(t.ops, o)
		}
		if rivals && i > 0 && p.Chance(1, 2) {
			// this transaction goes through the conflict round: adds, updates, key-only updates (no removes)
			var keep []op
			for _, o := range t.ops {
				if o.kind != "rm" {
					keep = append(keep, o)
				}
			}
			if len(keep) > 0 {
				t.ops = keep
				t.rival = []int{1000 + 10*i}
				if p.Chance(1, 3) {
					t.rival = append(t.rival, 1001+10*i)
				}
			}
		}
		c.txns = append(c.txns, t)
	}
	return c
}

func v(tok, size int) persistx.Val { return persistx.Val{Tok: tok, Size: size} }

// directed corpus: the witnesses of DESIGN.md §6 C19 and of the Lean counterexamples, run first.
func corpus() []caseSpec {
	var out []caseSpec
	act, _ := persistx.PlacementByName("active")
	sep, _ := persistx.PlacementByName("sep")
	inn, _ := persistx.PlacementByName("inNode")
	// (1) actively persisted: a transaction whose only effective operations are removes
	out = append(out, caseSpec{label: "active-remove-only", pl: act, slot: 4, txns: []txn{
		{ops: []op{{"add", 1, v(1, 8)}, {"add", 2, v(2, 8)}, {"add", 3, v(3, 8)}}, commit: true},
		{ops: []op{{"rm", 2, persistx.Val{}}}, commit: true},
	}})
	// (1b) same, but the removed item's value lives in its blob (it was updated by an earlier transaction)
	out = append(out, caseSpec{label: "active-remove-only-blob", pl: act, slot: 4, txns: []txn{
		{ops: []op{{"add", 1, v(1, 8)}, {"add", 2, v(2, 8)}}, commit: true},
		{ops: []op{{"upd", 2, v(3, 9)}}, commit: true},
		{ops: []op{{"rm", 2, persistx.Val{}}}, commit: true},
	}})
	// (2) separate segment: blob written, value still inline
	out = append(out, caseSpec{label: "sep-inline", pl: sep, slot: 4, txns: []txn{
		{ops: []op{{"add", 1, v(1, 8)}, {"add", 2, v(2, 8)}}, commit: true},
		{ops: []op{{"upd", 2, v(3, 9)}}, commit: true},
	}})
	// (3) interior removal: slot 2, keys 1..5 make a 2-level tree. Before /repo a8e6b837 the successor was handed to the
	// tracker and the second and third commit were skipped (C19-F3, now fixed: must read back right)
	for _, pl := range []persistx.Placement{inn, sep} {
		out = append(out, caseSpec{label: "interior-remove", pl: pl, slot: 2, txns: []txn{
			{ops: []op{{"add", 10, v(1, 8)}, {"add", 20, v(2, 8)}, {"add", 30, v(3, 8)}, {"add", 40, v(4, 8)}, {"add", 50, v(5, 8)}}, commit: true},
			{ops: []op{{"add", 25, v(6, 8)}, {"rm", 20, persistx.Val{}}}, commit: true},
			{ops: []op{{"add", 35, v(7, 8)}, {"rm", 30, persistx.Val{}}}, commit: true},
		}})
	}
	// (4) actively persisted, the mechanisms of the whole-history theorem (Lean: sampleActive,
	// C19_interior_remove_harmless_when_active): update of a key added by the same transaction (value stays inline, no
	// second blob), two updates of one key in one transaction (inline -> blob of the same id -> new id and blob), an
	// empty transaction, a rolled-back update of a value that lives in its blob, a skipped add+remove transaction in a
	// store that is not actively persisted; and the interior-remove history in an actively persisted store
	actC, _ := persistx.PlacementByName("activeCache")
	for _, pl := range []persistx.Placement{act, actC} {
		out = append(out, caseSpec{label: "active-id-frame", pl: pl, slot: 4, txns: []txn{
			{ops: []op{{"add", 1, v(1, 8)}, {"upd", 1, v(2, 8)}, {"add", 2, v(3, 8)}}, commit: true},
			{ops: []op{{"upd", 1, v(4, 8)}, {"upd", 1, v(5, 8)}, {"rm", 2, persistx.Val{}}}, commit: true},
			{ops: nil, commit: true},
			{ops: []op{{"upd", 1, v(6, 8)}}, commit: false},
			{ops: []op{{"upd", 1, v(7, 8)}}, commit: true},
		}})
		out = append(out, caseSpec{label: "active-interior-remove", pl: pl, slot: 2, txns: []txn{
			{ops: []op{{"add", 10, v(1, 8)}, {"add", 20, v(2, 8)}, {"add", 30, v(3, 8)}, {"add", 40, v(4, 8)}, {"add", 50, v(5, 8)}}, commit: true},
			{ops: []op{{"add", 25, v(6, 8)}, {"rm", 20, persistx.Val{}}}, commit: true},
			{ops: []op{{"add", 35, v(7, 8)}, {"rm", 30, persistx.Val{}}}, commit: true},
		}})
	}
	// (5) key-only updates (UpdateKey / GetCurrentValue+UpdateCurrentKey) of items in every placement state: inline
	// (plain add), genuine out-of-node reference (written by a transaction that went through the conflict /
	// refetch-and-merge round: a rival committed while it was open), fetched or not; the value must stay readable
	sepC, _ := persistx.PlacementByName("sepCache")
	for _, pl := range []persistx.Placement{inn, sep, sepC, act, actC} {
		out = append(out, caseSpec{label: "key-only-update-of-reference", pl: pl, slot: 64, txns: []txn{
			{ops: []op{{"add", 1, v(1, 8)}}, commit: true},
			{ops: []op{{"add", 2, v(2, 8)}, {"add", 3, v(3, 8)}, {"upd", 1, v(4, 8)}}, commit: true, rival: []int{1000}},
			{ops: []op{{"upk", 2, persistx.Val{}}, {"gupk", 3, persistx.Val{}}}, commit: true},
			{ops: []op{{"upk", 1, persistx.Val{}}, {"upk", 1000, persistx.Val{}}}, commit: true},
			{ops: []op{{"upk", 3, persistx.Val{}}, {"upd", 2, v(5, 8)}}, commit: true, rival: []int{1010}},
			{ops: []op{{"gupk", 2, persistx.Val{}}, {"upk", 3, persistx.Val{}}}, commit: false},
			{ops: []op{{"upk", 2, persistx.Val{}}}, commit: true},
		}})
		out = append(out, caseSpec{label: "key-only-update-inline", pl: pl, slot: 4, txns: []txn{
			{ops: []op{{"add", 1, v(1, 8)}, {"add", 2, v(2, 8)}}, commit: true},
			{ops: []op{{"upk", 1, persistx.Val{}}, {"gupk", 2, persistx.Val{}}}, commit: true},
			{ops: []op{{"upd", 1, v(3, 8)}}, commit: true},
			{ops: []op{{"upk", 1, persistx.Val{}}, {"add", 3, v(4, 8)}, {"upk", 3, persistx.Val{}}}, commit: true},
		}})
	}
	for _, pl := range []persistx.Placement{inn, sep} {
		out = append(out, caseSpec{label: "skipped-add-remove", pl: pl, slot: 4, txns: []txn{
			{ops: []op{{"add", 1, v(1, 8)}}, commit: true},
			{ops: []op{{"add", 7, v(7, 8)}, {"upd", 7, v(8, 8)}, {"rm", 7, persistx.Val{}}}, commit: true},
			{ops: nil, commit: true},
			{ops: []op{{"upd", 1, v(2, 8)}}, commit: true},
		}})
	}
	return out
}

// ---- executor ----

type runner struct {
	s         *hx.Session
	ctx       context.Context
	rmTracked bool // does this tree track a Remove in an actively persisted store? (probed, goes into every case header)
}

// probeRemoveTracked runs one Remove in an actively persisted store and looks at the tracker.
func probeRemoveTracked(ctx context.Context) (bool, error) {
	dir, err := os.MkdirTemp(hx.WorkRoot(), "c19p-")
	if err != nil {
		return false, err
	}
	defer os.RemoveAll(dir)
	e := txk.NewEnv(dir, 3)
	defer e.ColdRestart()
	act, _ := persistx.PlacementByName("active")
	for round := 0; round < 2; round++ {
		t, err := e.NewTxn(ctx, sop.ForWriting, time.Minute, nil)
		if err != nil {
			return false, err
		}
		if err := t.T.Begin(ctx); err != nil {
			return false, err
		}
		b, err := txk.NewBtree[int, string](ctx, t, act.Opts(e, storeName, 4))
		if err != nil {
			return false, err
		}
		if round == 0 {
			if _, err := b.Add(ctx, 1, "v1:"); err != nil {
				return false, err
			}
			if err := t.T.Commit(ctx); err != nil {
				return false, err
			}
			continue
		}
		if ok, err := b.Remove(ctx, 1); err != nil || !ok {
			return false, fmt.Errorf("probe remove: %v %v", ok, err)
		}
		tracked, _ := common.VerifC19Tracked(t.P, storeName)
		t.T.Rollback(ctx)
		return tracked, nil
	}
	return false, nil
}

func errClass(err error) string {
	if err == nil {
		return "ok"
	}
	return "err"
}

func b01(b bool) string {
	if b {
		return "1"
	}
	return "0"
}

// reference: what the store must hold = the operations' reported results applied to a map, transaction by
// transaction (a rolled back or failed transaction leaves it unchanged). The in-memory B-tree of the repository is
// run alongside as the second reference the DESIGN names.
type reference struct {
	committed map[int]persistx.Val
}

func (r *reference) dump(m map[int]persistx.Val) string {
	keys := make([]int, 0, len(m))
	for k := range m {
		keys = append(keys, k)
	}
	sort.Ints(keys)
	parts := []string{fmt.Sprintf("count=%d", len(m))}
	for _, k := range keys {
		parts = append(parts, fmt.Sprintf("%d=%s", k, m[k].Canon()))
	}
	return strings.Join(parts, " ")
}

func inmemDump(b inmemory.BtreeInterface[int, string]) string {
	parts := []string{fmt.Sprintf("count=%d", b.Count())}
	for ok := b.First(); ok; ok = b.Next() {
		parts = append(parts, fmt.Sprintf("%d=%s", b.GetCurrentKey(), persistx.CanonReal(b.GetCurrentValue())))
	}
	return strings.Join(parts, " ")
}

func (r *runner) runCase(c caseSpec) error {
	s, ctx := r.s, r.ctx
	dir, err := os.MkdirTemp(hx.WorkRoot(), "c19-")
	if err != nil {
		return err
	}
	defer os.RemoveAll(dir)
	e := txk.NewEnv(dir, 3)
	defer e.ColdRestart()
	hdr := fmt.Sprintf("%s %s slot=%d", c.label, c.pl.Name, c.slot)
	if r.rmTracked {
		hdr += " rmtracked=1"
	}
	if os.Getenv("VERIF_C19_HOISTED") == "1" {
		hdr += " hoisted=1" // triage knob: run the model's variant of the seeded change C10c (see Sop.Model.ValuePlacementX)
	}
	s.BeginCase(hdr)
	s.Hit("place:" + c.pl.Name)
	s.Hit(fmt.Sprintf("slot:%d", c.slot))

	// create the store in its own transaction
	{
		t, err := e.NewTxn(ctx, sop.ForWriting, time.Minute, nil)
		if err != nil {
			return err
		}
		if err := t.T.Begin(ctx); err != nil {
			return err
		}
		if _, err := txk.NewBtree[int, string](ctx, t, c.pl.Opts(e, storeName, c.slot)); err != nil {
			return err
		}
		if err := t.T.Commit(ctx); err != nil {
			return err
		}
	}
	ref := &reference{committed: map[int]persistx.Val{}}
	mem := inmemory.NewBtree[int, string](true)
	nontrivial := false
	damaged := false // an earlier finding of this case left an item whose value no longer loads

	for ti, tx := range c.txns {
		var sc *txk.Script
		if len(tx.rival) > 0 {
			sc = txk.NewScript(e.Canon) // records the backend calls: the number of commit rounds is read off the log writes
		}
		t, err := e.NewTxn(ctx, sop.ForWriting, time.Minute, sc)
		if err != nil {
			return err
		}
		if err := t.T.Begin(ctx); err != nil {
			return err
		}
		b, err := txk.OpenBtree[int, string](ctx, t, storeName)
		if err != nil {
			return err
		}
		spy := &persistx.Spy{}
		if !spy.Install(t, storeName) {
			return fmt.Errorf("cannot install tracker spy")
		}
		s.Op("begin", "ok")
		work := map[int]persistx.Val{}
		for k, x := range ref.committed {
			work[k] = x
		}
		type memop struct {
			o  op
			ok bool
		}
		var applied []memop
		effAdds, effUpds, effRms, viaOther, viaOtherAdded := 0, 0, 0, 0, 0
		keyOnly := 0
		before := map[int]persistx.Val{} // committed contents when this transaction began
		for k, x := range ref.committed {
			before[k] = x
		}
		newValueKeys, keyOnlyKeys := map[int]bool{}, map[int]bool{}
		written := map[int][]string{} // per key: the values this transaction wrote, in order ("tok:len")
		retries := 0
		addedHere := map[int]bool{}
		for _, o := range tx.ops {
			var ok bool
			var oerr error
			_, existed := work[o.key]
			switch o.kind {
			case "add":
				ok, oerr = b.Add(ctx, o.key, o.val.Real())
			case "upd":
				ok, oerr = b.Update(ctx, o.key, o.val.Real())
			case "ups":
				ok, oerr = b.Upsert(ctx, o.key, o.val.Real())
			case "rm":
				ok, oerr = b.Remove(ctx, o.key)
			case "upk":
				ok, oerr = b.UpdateKey(ctx, o.key)
			case "gupk":
				if ok, oerr = b.Find(ctx, o.key, false); ok && oerr == nil {
					if _, gerr := b.GetCurrentValue(ctx); gerr != nil {
						// the value does not load inside the writer (its blob is gone: an earlier finding of this case, already
						// reported by the cold reader's oracle): the failed read ends the transaction, the case is cut here
						s.Hit("gupk_value_unreadable_case_cut")
						t.T.Rollback(ctx)
						if nontrivial {
							s.Nontrivial()
						}
						return nil
					}
					ok, oerr = b.UpdateCurrentKey(ctx, o.key)
				}
			}
			if oerr != nil {
				return fmt.Errorf("case %d txn %d %v: %w", s.CaseNo, ti, o, oerr)
			}
			evs := spy.Take()
			line := fmt.Sprintf("%s %d", o.kind, o.key)
			if o.kind != "rm" && o.kind != "upk" && o.kind != "gupk" {
				line += fmt.Sprintf(" %d %d", o.val.Tok, o.val.Len())
			}
			if len(evs) > 0 {
				line += " ev " + strings.Join(evs, " ")
			}
			s.Op(line, b01(ok))
			s.Hit("op:" + o.kind + ":" + b01(ok))
			applied = append(applied, memop{o, ok})
			// the specification's answer for this operation
			want := map[string]bool{"add": !existed, "upd": existed, "ups": true, "rm": existed, "upk": existed, "gupk": existed}[o.kind]
			if ok != want {
				sig := "C19/op-result-deviates-from-map"
				if o.kind == "rm" && existed && !ok {
					sig = "C19/remove-false-on-existing-key"
				}
				s.Fail(sig, "an operation's reported result differs from the map specification (B-tree layer, C17)", fmt.Sprintf("txn %d %s %d: got %v want %v", ti, o.kind, o.key, ok, want))
			}
			if ok && (o.kind == "add" || o.kind == "upd" || o.kind == "ups") {
				written[o.key] = append(written[o.key], fmt.Sprintf("%d:%d", o.val.Tok, o.val.Len()))
			}
			if ok {
				switch o.kind {
				case "add":
					work[o.key] = o.val
					effAdds++
					addedHere[o.key] = true
				case "upd":
					work[o.key] = o.val
					effUpds++
					newValueKeys[o.key] = true
				case "upk", "gupk":
					keyOnlyKeys[o.key] = true
					// the value is not replaced; the item is tracked as updated
					effUpds++
					keyOnly++
					s.Hit("key_only_update:" + o.kind)
				case "ups":
					work[o.key] = o.val
					if existed {
						effUpds++
						newValueKeys[o.key] = true
					} else {
						effAdds++
						addedHere[o.key] = true
					}
				case "rm":
					delete(work, o.key)
					effRms++
					for _, ev := range evs {
						if strings.HasPrefix(ev, "r:") && ev != fmt.Sprintf("r:%d", o.key) {
							viaOther++
							s.Hit("remove_hands_other_item_to_tracker")
							var vk int
							fmt.Sscanf(ev, "r:%d", &vk)
							if addedHere[vk] {
								viaOtherAdded++
								s.Hit("remove_hands_item_added_in_same_txn")
							}
						}
					}
					delete(addedHere, o.key)
				}
			}
		}
		spy.Remove(t, storeName)
		tracked, _ := common.VerifC19Tracked(t.P, storeName)
		effective := effAdds+effUpds+effRms > 0
		if len(tx.rival) > 0 {
			// the rival: begins, adds its keys, commits — while this transaction is open
			s.Op("park", "ok")
			rt, err := e.NewTxn(ctx, sop.ForWriting, time.Minute, nil)
			if err != nil {
				return err
			}
			if err := rt.T.Begin(ctx); err != nil {
				return err
			}
			rb, err := txk.OpenBtree[int, string](ctx, rt, storeName)
			if err != nil {
				return err
			}
			rspy := &persistx.Spy{}
			if !rspy.Install(rt, storeName) {
				return fmt.Errorf("cannot install tracker spy (rival)")
			}
			s.Op("begin", "ok")
			for _, rk := range tx.rival {
				rv := persistx.Val{Tok: 7000 + rk, Size: 8}
				ok, err := rb.Add(ctx, rk, rv.Real())
				if err != nil || !ok {
					return fmt.Errorf("rival add %d: %v %v", rk, ok, err)
				}
				line := fmt.Sprintf("add %d %d %d", rk, rv.Tok, rv.Len())
				if evs := rspy.Take(); len(evs) > 0 {
					line += " ev " + strings.Join(evs, " ")
				}
				s.Op(line, "1")
				ref.committed[rk] = rv
				work[rk] = rv // what this transaction will have merged in after its conflict round
				mem.Add(rk, rv.Real())
			}
			rspy.Remove(rt, storeName)
			if err := rt.T.Commit(ctx); err != nil {
				return fmt.Errorf("rival commit: %w", err)
			}
			s.Op("commit", "ok")
			s.Op("resume", "ok")
			s.Hit("rival_committed_while_open")
		}
		var end string
		if tx.commit {
			cerr := t.T.Commit(ctx)
			cline := "commit"
			if sc != nil {
				rounds := 0
				for _, cl := range sc.Calls {
					if cl.Name == "tlog.Add" && cl.Args == "3" { // commitTrackedItemsValues is logged once per commit round
						rounds++
					}
				}
				retries = rounds - 1
				if rounds == 0 {
					retries = 0
				}
				cline = fmt.Sprintf("commit retry=%d", retries)
				s.Hit(fmt.Sprintf("conflict_rounds:%d", retries))
				if tracked && retries != 1 && cerr == nil {
					s.Fail("C19/conflict-round-not-taken", "a transaction that lost the race for its node did not go through exactly one refetch-and-merge round", fmt.Sprintf("txn %d: rounds=%d", ti, rounds))
				}
			}
			if cerr != nil && sc != nil && c.pl.Active && strings.Contains(cerr.Error(), "refetchAndMergeModifications failed to find item") {
				// actively persisted store: Update(k) gave the item a new ID, a later UpdateKey(k) tracked it under that ID; the
				// replay of the conflict round looks that ID up in the committed tree and refuses the commit. Nothing is
				// written (the transaction is rolled back); what the rollback leaves is not modelled: the case is cut here
				s.Hit("conflict_round_refuses_update_then_key_update_case_cut")
				if nontrivial {
					s.Nontrivial()
				}
				return nil
			}
			if cerr != nil && sc != nil && damaged && strings.Contains(cerr.Error(), "no such file or directory") {
				// the replay of the conflict round fetches (GetCurrentItem) an item whose value blob an earlier, already
				// reported finding of this case destroyed: the commit is refused; what is left is not modelled: the case is cut
				s.Hit("conflict_round_hits_destroyed_value_case_cut")
				if nontrivial {
					s.Nontrivial()
				}
				return nil
			}
			if cerr != nil {
				msg := cerr.Error()
				if len(msg) > 110 {
					msg = msg[:110]
				}
				s.Hit("commit_error:" + msg)
			}
			s.Op(cline, errClass(cerr))
			end = "commit:" + errClass(cerr)
			if cerr == nil {
				ref.committed = work
				for _, a := range applied {
					switch a.o.kind {
					case "add":
						mem.Add(a.o.key, a.o.val.Real())
					case "upd":
						mem.Update(a.o.key, a.o.val.Real())
					case "ups":
						mem.Upsert(a.o.key, a.o.val.Real())
					case "rm":
						mem.Remove(a.o.key)
					}
				}
			}
		} else {
			rerr := t.T.Rollback(ctx)
			s.Op("rollback", errClass(rerr))
			end = "rollback"
		}
		s.Hit(end)
		if !tracked && effective && tx.commit {
			s.Hit("commit_with_empty_tracker")
		}
		if effective && effAdds+effUpds == 0 {
			s.Hit("txn_removes_only")
		}
		dump, derr := persistx.ColdDump(ctx, e, storeName)
		if derr != nil {
			dump = "dump-error"
		}
		s.Op("dump", dump)
		if strings.Contains(dump, "=!") {
			damaged = true
		}
		disk, kerr := persistx.DiskDump(ctx, e, storeName)
		if kerr != nil {
			disk = "disk-error"
		}
		s.Op("disk", disk)
		if strings.Contains(disk, ":b=") {
			s.Hit("value_in_blob")
			nontrivial = true
		}
		if strings.Contains(disk, ":i=") && !c.pl.InNode {
			s.Hit("value_inline_in_out_of_node_store")
		}
		// direct oracle: the cold reader sees exactly the reference
		want := ref.dump(ref.committed)
		if md := inmemDump(mem); md != want {
			// the in-memory B-tree is the same btree package: its own cursor defects (C17) can make it deviate from the map
			s.Fail("C19/inmemory-btree-deviates-from-map", "the repository's in-memory B-tree, given the same operations, disagrees with the map specification (B-tree layer, C17)", fmt.Sprintf("after txn %d: inmemory %q map %q", ti, md, want))
			resync(ref, mem, want)
		}
		if dump != want {
			sig := "C19/contents-mismatch"
			switch {
			case tx.commit && retries == 1 && onlyKeysDiffer(dump, want, func(k int, got string) bool {
				// the key was ADDED by this transaction and updated afterwards; the cold reader sees the value of the add
				_, had := before[k]
				return !had && len(written[k]) > 1 && got == written[k][0]
			}):
				sig = "C19/update-after-add-lost-in-conflict-round"
			case tx.commit && retries == 1 && c.pl.Active && onlyKeysDiffer(dump, want, func(k int, got string) bool {
				// actively persisted store: the key existed, this transaction gave it a new value; the cold reader sees an
				// EARLIER value (the committed one, or the one a previous update of this transaction wrote)
				b, had := before[k]
				if !had || len(written[k]) == 0 {
					return false
				}
				if got == fmt.Sprintf("%d:%d", b.Tok, b.Len()) {
					return true
				}
				for _, x := range written[k][:len(written[k])-1] {
					if x == got {
						return true
					}
				}
				return false
			}):
				sig = "C19/active-update-lost-in-conflict-round"
			case tx.commit && retries == 1 && onlyKeysDiffer(dump, want, func(k int, got string) bool {
				// both of the above in one transaction
				b, had := before[k]
				if !had {
					return len(written[k]) > 1 && got == written[k][0]
				}
				if !c.pl.Active || len(written[k]) == 0 {
					return false
				}
				if got == fmt.Sprintf("%d:%d", b.Tok, b.Len()) {
					return true
				}
				for _, x := range written[k][:len(written[k])-1] {
					if x == got {
						return true
					}
				}
				return false
			}):
				sig = "C19/update-after-add-lost-in-conflict-round"
			case c.pl.Active && !tx.commit && keyOnly > 0 && onlyKeysDiffer(dump, want, func(k int, got string) bool {
				return keyOnlyKeys[k] && got == "!"
			}):
				// actively persisted store: rolling back a transaction with key-only updates deleted the COMMITTED value blobs
				sig = "C19/active-rollback-after-key-only-update-deletes-committed-value"
			case tx.commit && tracked && keyOnly > 0 && strings.Contains(dump, "=!"):
				// a live item's value no longer loads after a transaction that updated keys only
				sig = "C19/value-unreadable-after-key-only-update"
			case tx.commit && !tracked && c.pl.Active && effective && viaOtherAdded == 0 && strings.Contains(dump, "=!"):
				sig = "C19/active-remove-only-commit-skipped-value-blob-deleted"
			case tx.commit && !tracked && c.pl.Active && effective && viaOtherAdded == 0:
				sig = "C19/active-remove-only-commit-skipped"
			case tx.commit && !tracked && effective && viaOtherAdded > 0:
				sig = "C19/interior-remove-untracks-successor-commit-skipped"
			}
			s.Fail(sig, "a cold reader does not see what the committed transactions wrote", fmt.Sprintf("after txn %d (%s): got %q want %q", ti, end, dump, want))
			// later transactions work on what is really there: resynchronise the references with the store
			resync(ref, mem, dump)
		}
		if effective {
			nontrivial = true
		}
		_ = viaOther
	}
	if nontrivial {
		s.Nontrivial()
	}
	return nil
}

// onlyKeysDiffer: the two dumps ("count=n k=tok:len …") have the same keys and differ exactly on keys for which f holds
func onlyKeysDiffer(got, want string, f func(k int, got string) bool) bool {
	parse := func(d string) map[int]string {
		m := map[int]string{}
		for _, w := range strings.Fields(d) {
			kv := strings.SplitN(w, "=", 2)
			if len(kv) != 2 || kv[0] == "count" {
				continue
			}
			k, err := strconv.Atoi(kv[0])
			if err != nil {
				return nil
			}
			m[k] = kv[1]
		}
		return m
	}
	g, w := parse(got), parse(want)
	if g == nil || w == nil || len(g) != len(w) {
		return false
	}
	n := 0
	for k, gv := range g {
		wv, ok := w[k]
		if !ok {
			return false
		}
		if gv != wv {
			if !f(k, gv) {
				return false
			}
			n++
		}
	}
	return n > 0
}

// resync makes the references equal to what the cold reader saw (unreadable values get token 0), so that one
// defect is reported once and the rest of the case still checks something.
func resync(ref *reference, mem inmemory.BtreeInterface[int, string], dump string) {
	for mem.First() {
		mem.RemoveCurrentItem()
	}
	ref.committed = map[int]persistx.Val{}
	for _, f := range strings.Fields(dump)[1:] {
		var k, tok, n int
		if _, err := fmt.Sscanf(f, "%d=%d:%d", &k, &tok, &n); err != nil {
			fmt.Sscanf(f, "%d=", &k)
			tok, n = -1, 1
		}
		val := persistx.Val{Tok: tok, Size: n}
		ref.committed[k] = val
		mem.Add(k, val.Real())
	}
}

func run(o hx.RunOpts) error {
	s := hx.NewSession(o, "one case = one store (placement inNode|sep|sepCache|active|activeCache × slot length 2|4|8|…) and 2-7 transactions of 1-16 add/update/upsert/remove operations "+
		"(values 4 B … 170 kB quick, … 1.3 MB thorough; transaction shapes: mixed, removes only, updates only, adds only; 1 in 6 rolled back) run through the real B-tree, item action tracker and commit code on real fs backends; "+
		"after every transaction a cold reader dumps (key,value) through the B-tree API and a raw walk of registry+blob files says where each value is kept; the same lines drive Sop.Model.ValuePlacement. "+
		"Oracle: cold dump = map of reported results = repository's in-memory B-tree. distinct = canonical op hash; non-trivial = at least one effective write or a value fetched from a blob")
	r := &runner{s: s, ctx: context.Background()}
	rt, err := probeRemoveTracked(r.ctx)
	if err != nil {
		return err
	}
	r.rmTracked = rt
	s.Hit(fmt.Sprintf("tree_tracks_active_remove:%v", rt))
	for _, c := range corpus() {
		if err := r.runCase(c); err != nil {
			return err
		}
		s.Hit("corpus")
	}
	p := hx.NewPrng(o.Seed)
	n := o.N(250, 1500)
	slots := []int{2, 4, 8}
	if o.Thorough() {
		slots = []int{2, 4, 6, 8, 16, 64}
	}
	for i := 0; i < n; i++ {
		pl := persistx.Placements[i%len(persistx.Placements)]
		slot := slots[p.Intn(len(slots))]
		if err := r.runCase(genCase(p, pl, slot, o.Thorough())); err != nil {
			return err
		}
	}
	return s.Finish()
}
