// C20 — caches never serve stale data.
//
// One store with one item on a shared folder; two "processes" with separate L1 caches (node MRU + Handles) and one
// shared L2 cache: (a) emulated in one OS process by swapping the L1 singletons, L2 = one in-memory cache or the
// real adapters/redis client against harness/fakeredis; (b) two real child processes, each with its own redis
// client to the fakeredis server of the parent. Histories of reads (NoCheck / ForReading / ForWriting), writes,
// L1 evictions (node MRU, Handles) and L2 flushes, and aborted updates (abort: read, Update, Rollback — what the
// transaction did to the node it read must not reach any cache); every answer is diffed with Sop.Model.Cache and judged
// against the last committed content.
package main

import (
	"bufio"
	"context"
	"fmt"
	"io"
	"os"
	"os/exec"
	"strconv"
	"strings"
	"time"

	"github.com/sharedcode/sop"
	redisad "github.com/sharedcode/sop/adapters/redis"
	"github.com/sharedcode/sop/cache"

	"verifharness/fakeredis"
	"verifharness/hx"
	"verifharness/persistx"
	"verifharness/txk"
)

func main() {
	hx.Main(run, "", nil, map[string]func([]string) error{"c20child": childMain})
}

const storeName = "st"

// hx.Session keeps the first 200 oracle failures only and the known findings of this property fire hundreds of times:
// keep a few per signature (every one is still counted in the histogram) so that a new signature is never crowded out.
var failsBySig = map[string]int{}

func failCapped(s *hx.Session, sig, what, detail string) {
	failsBySig[sig]++
	if failsBySig[sig] <= 4 {
		s.Fail(sig, what, detail)
		return
	}
	s.Hit("oracle_fail:" + sig)
}

func val(c int) string { return "v" + strconv.Itoa(c) }
func unval(s string) string {
	if strings.HasPrefix(s, "v") {
		return s[1:]
	}
	return "?" + s
}

// ---- one process's view: run one operation with this process's caches ----

func doRead(ctx context.Context, e *txk.Env, mode string) string {
	m := map[string]sop.TransactionMode{"nocheck": sop.NoCheck, "forreading": sop.ForReading, "forwriting": sop.ForWriting}[mode]
	t, err := e.NewTxn(ctx, m, 20*time.Second, nil)
	if err != nil {
		return "! err"
	}
	if err := t.T.Begin(ctx); err != nil {
		return "! err"
	}
	b, err := txk.OpenBtree[int, string](ctx, t, storeName)
	if err != nil {
		t.T.Rollback(ctx)
		return "! err"
	}
	ok, err := b.Find(ctx, 1, false)
	if err != nil || !ok {
		t.T.Rollback(ctx)
		return "! err"
	}
	v, err := b.GetCurrentValue(ctx)
	if err != nil {
		t.T.Rollback(ctx)
		return "! err"
	}
	if err := t.T.Commit(ctx); err != nil {
		return unval(v) + " err"
	}
	return unval(v) + " ok"
}

func doWrite(ctx context.Context, e *txk.Env, c int) string {
	t, err := e.NewTxn(ctx, sop.ForWriting, 20*time.Second, nil)
	if err != nil {
		return "err"
	}
	if err := t.T.Begin(ctx); err != nil {
		return "err"
	}
	b, err := txk.OpenBtree[int, string](ctx, t, storeName)
	if err != nil {
		t.T.Rollback(ctx)
		return "err"
	}
	ok, err := b.Update(ctx, 1, val(c))
	if err != nil || !ok {
		t.T.Rollback(ctx)
		return "err"
	}
	if err := t.T.Commit(ctx); err != nil {
		return "err"
	}
	return "ok"
}

// doAbort: a ForWriting transaction reads the item, updates it to content c and ROLLS BACK. It answers what it read.
// Its cache footprint is that of a read (the node is fetched through the three-level lookup); the update must stay
// private to the transaction, whichever cache level served the node.
func doAbort(ctx context.Context, e *txk.Env, c int) string {
	t, err := e.NewTxn(ctx, sop.ForWriting, 20*time.Second, nil)
	if err != nil {
		return "! err"
	}
	if err := t.T.Begin(ctx); err != nil {
		return "! err"
	}
	b, err := txk.OpenBtree[int, string](ctx, t, storeName)
	if err != nil {
		t.T.Rollback(ctx)
		return "! err"
	}
	ok, err := b.Find(ctx, 1, false)
	if err != nil || !ok {
		t.T.Rollback(ctx)
		return "! err"
	}
	v, err := b.GetCurrentValue(ctx)
	if err != nil {
		t.T.Rollback(ctx)
		return "! err"
	}
	if ok, err := b.UpdateCurrentValue(ctx, val(c)); err != nil || !ok {
		t.T.Rollback(ctx)
		return "! err"
	}
	if err := t.T.Rollback(ctx); err != nil {
		return unval(v) + " err"
	}
	return unval(v) + " rb"
}

func dropL1(nodes, handles bool) {
	for _, l1 := range cache.VerifC20Registry() {
		if nodes {
			cache.VerifC20DropNodes(l1)
		}
		if handles {
			cache.VerifC20DropHandles(l1)
		}
	}
}

// local executes one op line ("read <mode>", "write <c>", "dropmru", "droph") against env e in THIS OS process.
func local(ctx context.Context, e *txk.Env, w []string) string {
	cache.GetGlobalL1Cache(e.L2)
	switch w[0] {
	case "read":
		return doRead(ctx, e, w[1])
	case "write":
		c, _ := strconv.Atoi(w[1])
		return doWrite(ctx, e, c)
	case "abort":
		c, _ := strconv.Atoi(w[1])
		return doAbort(ctx, e, c)
	case "dropmru":
		dropL1(true, false)
		return "ok"
	case "droph":
		dropL1(false, true)
		return "ok"
	}
	return "bad-op"
}

// ---- worlds ----

type proc interface {
	do(w []string) string
	close()
}

// inproc: a process emulated by its own set of L1 singletons.
type inproc struct {
	ctx context.Context
	e   *txk.Env
	l1  map[sop.L2CacheType]*cache.L1Cache
}

func (p *inproc) do(w []string) string {
	old := cache.VerifSwapGlobalL1(p.l1)
	defer func() { p.l1 = cache.VerifSwapGlobalL1(old) }()
	return local(p.ctx, p.e, w)
}
func (p *inproc) close() {}

// child: a real OS process.
type child struct {
	cmd *exec.Cmd
	in  io.WriteCloser
	out *bufio.Reader
}

func startChild(dir, addr string) (*child, error) {
	cmd := exec.Command(os.Getenv("VERIF_DRIVE"), "c20child", dir, addr)
	if os.Getenv("VERIF_DRIVE") == "" {
		cmd = exec.Command(os.Args[0], "c20child", dir, addr)
	}
	in, err := cmd.StdinPipe()
	if err != nil {
		return nil, err
	}
	out, err := cmd.StdoutPipe()
	if err != nil {
		return nil, err
	}
	cmd.Stderr = io.Discard
	if err := cmd.Start(); err != nil {
		return nil, err
	}
	return &child{cmd: cmd, in: in, out: bufio.NewReader(out)}, nil
}
func (c *child) do(w []string) string {
	fmt.Fprintln(c.in, strings.Join(w, " "))
	l, err := c.out.ReadString('\n')
	if err != nil {
		return "child-died"
	}
	return strings.TrimSpace(l)
}
func (c *child) close() { c.in.Close(); c.cmd.Wait() }

func childMain(args []string) error {
	if len(args) != 2 {
		return fmt.Errorf("usage: c20child <dir> <redis addr>")
	}
	ctx := context.Background()
	l2 := redisad.NewConnectionClient(redisad.Options{Address: args[1], MaxRetries: -1})
	e := &txk.Env{Dir: args[0], HashMod: 3, L2: l2, Canon: txk.NewCanon()}
	sc := bufio.NewScanner(os.Stdin)
	out := bufio.NewWriter(os.Stdout)
	for sc.Scan() {
		w := strings.Fields(sc.Text())
		if len(w) == 0 {
			continue
		}
		fmt.Fprintln(out, local(ctx, e, w))
		out.Flush()
	}
	return nil
}

type world struct {
	short bool   // every cache duration of the store is 1ns: an L2 entry is gone by the time anybody looks
	kind  string // mem | redis | procs
	dir   string
	procs [2]proc
	srv   *fakeredis.Server
	mem   sop.L2Cache
	ctx   context.Context
}

func newWorld(ctx context.Context, kind string, c0 int, short, ttl bool) (*world, error) {
	dir, err := os.MkdirTemp(hx.WorkRoot(), "c20-")
	if err != nil {
		return nil, err
	}
	w := &world{kind: kind, dir: dir, ctx: ctx, short: short}
	mk := func() (sop.L2Cache, error) {
		if kind == "mem" {
			return w.mem, nil
		}
		return redisad.NewConnectionClient(redisad.Options{Address: w.srv.Addr(), MaxRetries: -1}), nil
	}
	if kind == "mem" {
		w.mem = cache.NewL2InMemoryCache()
	} else {
		if w.srv, err = fakeredis.Start(); err != nil {
			return nil, err
		}
	}
	// setup in a throw-away process: create the store with its one item
	l2, _ := mk()
	setup := &inproc{ctx: ctx, e: &txk.Env{Dir: dir, HashMod: 3, L2: l2, Canon: txk.NewCanon()}, l1: map[sop.L2CacheType]*cache.L1Cache{}}
	old := cache.VerifSwapGlobalL1(setup.l1)
	err = func() error {
		cache.GetGlobalL1Cache(l2)
		t, err := setup.e.NewTxn(ctx, sop.ForWriting, time.Minute, nil)
		if err != nil {
			return err
		}
		if err := t.T.Begin(ctx); err != nil {
			return err
		}
		inn, _ := persistx.PlacementByName("inNode")
		so := inn.Opts(setup.e, storeName, 4)
		if short {
			so.CacheConfig.RegistryCacheDuration = 1
			so.CacheConfig.NodeCacheDuration = 1
			so.CacheConfig.StoreInfoCacheDuration = 1
			so.CacheConfig.ValueDataCacheDuration = 1
		}
		so.CacheConfig.IsRegistryCacheTTL = ttl
		so.CacheConfig.IsNodeCacheTTL = ttl
		so.CacheConfig.IsStoreInfoCacheTTL = ttl
		b, err := txk.NewBtree[int, string](ctx, t, so)
		if err != nil {
			return err
		}
		if ok, err := b.Add(ctx, 1, val(c0)); err != nil || !ok {
			return fmt.Errorf("setup add: %v %v", ok, err)
		}
		return t.T.Commit(ctx)
	}()
	cache.VerifSwapGlobalL1(old)
	if err != nil {
		return nil, err
	}
	w.flush()
	for i := 0; i < 2; i++ {
		if kind == "procs" {
			c, err := startChild(dir, w.srv.Addr())
			if err != nil {
				return nil, err
			}
			w.procs[i] = c
		} else {
			l2, _ := mk()
			w.procs[i] = &inproc{ctx: ctx, e: &txk.Env{Dir: dir, HashMod: 3, L2: l2, Canon: txk.NewCanon()}, l1: map[sop.L2CacheType]*cache.L1Cache{}}
		}
	}
	return w, nil
}

func (w *world) flush() {
	if w.kind == "mem" {
		w.mem.Clear(w.ctx)
	} else {
		w.srv.Reset()
	}
}

func (w *world) close() {
	for _, p := range w.procs {
		if p != nil {
			p.close()
		}
	}
	if w.srv != nil {
		w.srv.Close()
	}
	os.RemoveAll(w.dir)
}

// ---- cases ----

type op struct {
	kind string // read write abort dropmru droph flushl2
	p    int
	mode string
	c    int
}

func (o op) line() string {
	switch o.kind {
	case "read":
		return fmt.Sprintf("read %d %s", o.p, o.mode)
	case "write":
		return fmt.Sprintf("write %d %d", o.p, o.c)
	case "abort":
		return fmt.Sprintf("abort %d %d", o.p, o.c)
	case "flushl2":
		return "flushl2"
	}
	return fmt.Sprintf("%s %d", o.kind, o.p)
}

var modes = []string{"nocheck", "forreading", "forwriting"}

func gen(p *hx.Prng, single bool) []op {
	n := 4 + p.Intn(12)
	var ops []op
	c := 100
	for i := 0; i < n; i++ {
		pr := p.Intn(2)
		if single {
			pr = 0
		}
		switch x := p.Intn(24); {
		case x < 9:
			ops = append(ops, op{kind: "read", p: pr, mode: modes[p.Intn(3)]})
		case x < 15:
			c++
			ops = append(ops, op{kind: "write", p: pr, c: c})
		case x < 18:
			ops = append(ops, op{kind: "dropmru", p: pr})
		case x < 20:
			ops = append(ops, op{kind: "droph", p: pr})
		case x < 23:
			// an aborted update (its content is never committed: 9xx)
			ops = append(ops, op{kind: "abort", p: pr, c: 900 + p.Intn(100)})
		default:
			ops = append(ops, op{kind: "flushl2"})
		}
	}
	return ops
}

// the two-process witness of DESIGN.md §6 C20
func witness() []op {
	return []op{
		{kind: "write", p: 0, c: 101}, {kind: "read", p: 0, mode: "forreading"},
		{kind: "write", p: 1, c: 102}, {kind: "read", p: 1, mode: "forreading"},
		{kind: "read", p: 0, mode: "nocheck"}, {kind: "read", p: 0, mode: "forreading"}, {kind: "read", p: 0, mode: "forreading"},
		{kind: "write", p: 0, c: 103},
		{kind: "droph", p: 0}, {kind: "read", p: 0, mode: "forreading"}, {kind: "write", p: 0, c: 104},
	}
}

func runCase(s *hx.Session, ctx context.Context, kind, label string, c0 int, ops []op, short, ttl bool) error {
	w, err := newWorld(ctx, kind, c0, short, ttl)
	if err != nil {
		return err
	}
	defer w.close()
	s.BeginCase(fmt.Sprintf("%s-%s %d", label, kind, c0))
	s.Hit("world:" + kind)
	s.Hit(fmt.Sprintf("durations_1ns:%v ttl:%v", short, ttl))
	cur := c0
	lastWriter := -1
	// does process p hold an L1 Handles entry from its own write that another process has since superseded?
	ownHandle := [2]bool{}
	superseded := [2]bool{}
	twoProc := false
	var aborted []string // contents of updates that were rolled back
	for _, o := range ops {
		var out string
		if w.short {
			// with 1ns durations every L2 entry has lapsed before the next operation looks: for the model that is a flush
			s.Op("flushl2", "ok")
		}
		switch o.kind {
		case "flushl2":
			w.flush()
			out = "ok"
		case "read":
			out = w.procs[o.p].do([]string{"read", o.mode})
		case "write":
			out = w.procs[o.p].do([]string{"write", strconv.Itoa(o.c)})
		case "abort":
			out = w.procs[o.p].do([]string{"abort", strconv.Itoa(o.c)})
			aborted = append(aborted, strconv.Itoa(o.c))
		default:
			out = w.procs[o.p].do([]string{o.kind})
		}
		s.Op(o.line(), out)
		s.Hit("op:" + o.kind)
		staleCtx := ownHandle[o.p] && superseded[o.p]
		switch o.kind {
		case "read", "abort":
			f := strings.Fields(out)
			want := strconv.Itoa(cur)
			if len(f) != 2 {
				failCapped(s, "C20/read-failed", "a read produced no answer", out)
				break
			}
			if f[0] != want {
				sig := "C20/stale-read"
				wasAborted := false
				prev := aborted
				if o.kind == "abort" {
					prev = aborted[:len(aborted)-1] // its own update is the last entry
				}
				for _, a := range prev {
					if a == f[0] {
						wasAborted = true
					}
				}
				if wasAborted {
					sig = "C20/read-returns-rolled-back-update"
				} else if staleCtx {
					sig = "C20/stale-read-via-own-l1-handle-after-other-process-commit"
					s.Hit("stale:" + o.mode + ":" + f[1])
				}
				failCapped(s, sig, "a read returned something other than the last committed content", fmt.Sprintf("%s: got %s want %s", o.line(), out, want))
			} else if f[1] != "ok" && o.kind == "read" {
				failCapped(s, "C20/fresh-read-cannot-commit", "a transaction that read the current content failed to commit", o.line()+": "+out)
			} else if f[1] != "rb" && o.kind == "abort" {
				failCapped(s, "C20/rollback-failed", "the rollback of an update failed", o.line()+": "+out)
			}
		case "write":
			if out == "ok" {
				cur = o.c
				if lastWriter != -1 && lastWriter != o.p {
					twoProc = true
				}
				lastWriter = o.p
				ownHandle[o.p] = true
				superseded[o.p] = false
				superseded[1-o.p] = true
			} else {
				sig := "C20/write-failed"
				if staleCtx {
					sig = "C20/writer-blocked-by-own-stale-l1-handle"
				}
				failCapped(s, sig, "a lone writer's commit failed", o.line()+": "+out)
			}
		case "droph":
			ownHandle[o.p] = false
		}
	}
	if twoProc {
		s.Nontrivial()
		s.Hit("two_writers")
	} else if len(ops) > 3 {
		s.Nontrivial()
	}
	return nil
}

func run(o hx.RunOpts) error {
	s := hx.NewSession(o, "one case = one single-item store on a shared folder, two processes with separate L1 caches and one shared L2 (in-memory, or real adapters/redis client on a fake Redis; 'procs' = two real child processes), 4-15 operations: "+
		"read (NoCheck|ForReading|ForWriting, Find+GetCurrentValue+Commit), write (Update+Commit), abort (read+UpdateCurrentValue+Rollback), drop one process's node MRU or Handles cache, flush L2; every answer diffed with Sop.Model.Cache; oracle: read = last committed content and lone commits succeed. "+
		"distinct = canonical op hash; non-trivial = at least 4 operations. "+
		"'si' cases (storeinfo.go): 2-4 stores, real fs StoreRepository.Update called directly or by the commit of a real multi-store transaction, with a concurrent removal / an unreadable or read-only storeinfo.txt / an eviction / a refused SetStruct at one store "+
		"(forward pass or undo); every Add/Update replayed on Sop.Model.StoreInfoCache; after each, per store: cache-first Get/GetWithTTL == cold process == file, file restored after a failed Update, next Update's base = file, Count = items after a following commit; non-trivial = undo ran for at least one store"+
		". 'rg' cases (regget.go): 2-3 registry handles, real fs registries over one shared L2 behind gating L2 clients (parked after GetStructs and before every SetStruct): every merge of the steps of a multi-id Get (every hit/miss pattern) and of an Update/UpdateNoLocks over 1-2 ids, and random histories with up to three concurrent Gets, updaters and evictions; every step diffed with Sop.Model.RegistryGet; oracle: nothing in flight => a warm process's Get of every id == the file; non-trivial = an updater step happened while a Get was in flight")
	ctx := context.Background()
	if dbg := os.Getenv("VERIF_C20_DEBUG"); dbg != "" {
		// "short,ttl;op;op;…" with op = "read 0 forwriting" etc.: one case, for triage
		parts := strings.Split(dbg, ";")
		var ops []op
		for _, f := range parts[1:] {
			w := strings.Fields(f)
			o := op{kind: w[0]}
			if len(w) > 1 {
				o.p, _ = strconv.Atoi(w[1])
			}
			if o.kind == "read" {
				o.mode = w[2]
			}
			if o.kind == "write" {
				o.c, _ = strconv.Atoi(w[2])
			}
			ops = append(ops, o)
		}
		if err := runCase(s, ctx, "mem", "debug", 100, ops, strings.Contains(parts[0], "short"), strings.Contains(parts[0], "ttl")); err != nil {
			return err
		}
		return s.Finish()
	}
	if os.Getenv("VERIF_C20_ONLY") == "rg" {
		// triage: the registry Get cases only
		if err := runRegGet(s, ctx, hx.NewPrng(o.Seed+4242), o); err != nil {
			return err
		}
		return s.Finish()
	}
	for _, kind := range []string{"mem", "redis", "procs"} {
		if err := runCase(s, ctx, kind, "witness", 100, witness(), false, false); err != nil {
			return err
		}
	}
	p := hx.NewPrng(o.Seed)
	n := o.N(600, 4000)
	for i := 0; i < n; i++ {
		kind := "mem"
		switch {
		case i%10 == 9 && o.Thorough():
			kind = "procs"
		case i%3 == 1:
			kind = "redis"
		}
		single := i%4 == 0
		label := "gen"
		if single {
			label = "single"
		}
		// cache durations below 5 minutes are raised to 5-10 minutes by StoreCacheConfig.enforceMinimumRule, so an
		// expiry inside a run cannot be configured: it is emulated by the flushl2 operation. "short" stays off.
		short := false
		ttl := p.Chance(1, 2)
		if short {
			label += "-1ns"
		}
		if err := runCase(s, ctx, kind, label, 100, gen(p, single), short, ttl); err != nil {
			return fmt.Errorf("case %d: %w", s.CaseNo, err)
		}
	}
	if err := runStoreInfo(s, ctx, hx.NewPrng(o.Seed+7777), o); err != nil {
		return err
	}
	if err := runRegGet(s, ctx, hx.NewPrng(o.Seed+4242), o); err != nil {
		return err
	}
	return s.Finish()
}
