// C20, registry handles in L2: gated real fs registry Gets against a concurrent registry updater.
//
// One registry table on a scratch folder, 2-3 handles, one shared in-memory L2 ("Redis"). Every actor is a separate
// fs.NewRegistry instance ("process") whose sop.L2Cache is a wrapper around the shared cache that PARKS the caller
//   - right after GetStructs was answered (the Get has its hits and misses, has not gone to the file yet),
//   - right before every SetStruct (the Get has read the file / the updater has written the file, L2 not yet written).
//
// The harness releases one parked call at a time, so every interleaving of the steps of Sop.Model.RegistryGet that can
// be told apart from outside is produced deterministically: Get = L2 multi-read | file read of the misses | one
// write-back per handle | return; updater (UpdateNoLocks / Update) = file write(s) | one SetStruct per handle | return;
// evictions of single L2 entries in between. Every step's observable (hit/miss per id, the handle each SetStruct
// carries, the returned handles in order) is diffed with the model; at the end of a case, with nothing in flight, a
// warm process's Get of every id must equal the file.
package main

import (
	"context"
	"fmt"
	"os"
	"path/filepath"
	"strconv"
	"strings"
	"time"

	"github.com/sharedcode/sop"
	"github.com/sharedcode/sop/cache"
	"github.com/sharedcode/sop/fs"

	"verifharness/hx"
)

const (
	rgTable        = "c20rg_r"
	rgSigMissWin   = "C20/registry-get-miss-writeback-overwrites-concurrent-update"
	rgSigUnexplain = "C20/registry-l2-handle-stale-without-update-in-a-miss-window"
)

type rgEvent struct {
	kind  string // l2 | set | ret
	found []bool
	vals  []sop.Handle
	key   string
	val   sop.Handle
	res   []sop.Handle
	err   error
}

// gateL2 is one process's client of the shared L2 cache.
type gateL2 struct {
	sop.L2Cache
	ev      chan rgEvent
	resume  chan struct{}
	gateGet bool
	off     bool
}

func (g *gateL2) GetStructs(ctx context.Context, keys []string, targets []interface{}, d time.Duration) ([]bool, error) {
	found, err := g.L2Cache.GetStructs(ctx, keys, targets, d)
	if g.gateGet && !g.off {
		vals := make([]sop.Handle, len(targets))
		for i := range targets {
			if h, ok := targets[i].(*sop.Handle); ok && err == nil && found[i] {
				vals[i] = *h
			}
		}
		g.ev <- rgEvent{kind: "l2", found: append([]bool{}, found...), vals: vals, err: err}
		<-g.resume
	}
	return found, err
}

func (g *gateL2) SetStruct(ctx context.Context, key string, value interface{}, d time.Duration) error {
	if h, ok := value.(*sop.Handle); ok && !g.off {
		g.ev <- rgEvent{kind: "set", key: key, val: *h}
		<-g.resume
	}
	return g.L2Cache.SetStruct(ctx, key, value, d)
}

type rgProc struct {
	gate    *gateL2
	reg     fs.Registry
	running bool
	state   string // afterL2 | beforeSet
	cur     rgEvent
	ids     []int // requested
	misses  []int
	fetched map[int]bool // ids this Get has read from the file (set once the read is observed)
	kind    string       // updater: l | n
	written int          // updater: file writes reported so far
	vals    []sop.Handle // updater: the handles it writes
}

type rgWorld struct {
	s       *hx.Session
	ctx     context.Context
	dir     string
	shared  sop.L2Cache
	n       int
	uuids   []sop.UUID
	keyIdx  map[string]int
	cur     []sop.Handle // what the harness believes is on file
	tainted []bool
	gets    map[int]*rgProc
	upd     *rgProc
	warm    fs.Registry
	mk      func(l2 sop.L2Cache, rw bool) fs.Registry
	// statistics of the case
	updDuringGet, updHitDuringGet, updInWindow bool
}

const rgDur = 10 * time.Minute

func newRGWorld(ctx context.Context, s *hx.Session, n int) (*rgWorld, error) {
	dir, err := os.MkdirTemp(hx.WorkRoot(), "c20rg")
	if err != nil {
		return nil, err
	}
	w := &rgWorld{s: s, ctx: ctx, dir: dir, n: n, keyIdx: map[string]int{}, gets: map[int]*rgProc{}, tainted: make([]bool, n)}
	shared := cache.NewL2InMemoryCache()
	w.shared = shared
	rt, err := fs.NewReplicationTracker(ctx, []string{dir}, false, shared)
	if err != nil {
		return nil, err
	}
	if err := os.MkdirAll(filepath.Join(dir, rgTable), 0o755); err != nil {
		return nil, err
	}
	w.mk = func(l2 sop.L2Cache, rw bool) fs.Registry { return fs.NewRegistry(rw, fs.MinimumModValue, rt, l2) }
	w.warm = w.mk(shared, true)
	for i := 0; i < n; i++ {
		h := sop.NewHandle(sop.NewUUID())
		w.uuids = append(w.uuids, h.LogicalID)
		w.keyIdx[h.LogicalID.String()] = i
		w.cur = append(w.cur, h)
	}
	if err := w.warm.Add(ctx, []sop.RegistryPayload[sop.Handle]{{RegistryTable: rgTable, CacheDuration: rgDur, IDs: append([]sop.Handle{}, w.cur...)}}); err != nil {
		return nil, fmt.Errorf("registry add: %w", err)
	}
	return w, nil
}

func (w *rgWorld) close() {
	for _, p := range w.gets {
		p.reg.Close()
	}
	w.warm.Close()
	os.RemoveAll(w.dir)
}

func idsStr(ids []int) string {
	var b []string
	for _, i := range ids {
		b = append(b, strconv.Itoa(i))
	}
	return strings.Join(b, " ")
}

func (w *rgWorld) retLine(e rgEvent) string {
	if e.err != nil {
		return "ret err"
	}
	var b []string
	for _, h := range e.res {
		b = append(b, fmt.Sprintf("%d:%d", w.keyIdx[h.LogicalID.String()], h.Version))
	}
	return "ret " + strings.Join(b, ",")
}

func (w *rgWorld) anyGetRunning() bool {
	for _, p := range w.gets {
		if p.running {
			return true
		}
	}
	return false
}

// ---- Get ----

func (w *rgWorld) getStart(pn int, ids []int, ttl bool) {
	p := w.gets[pn]
	if p == nil {
		g := &gateL2{L2Cache: w.shared, ev: make(chan rgEvent), resume: make(chan struct{}), gateGet: true}
		p = &rgProc{gate: g, reg: w.mk(g, false)}
		w.gets[pn] = p
	}
	if p.running {
		return
	}
	p.running, p.ids, p.misses, p.fetched = true, ids, nil, map[int]bool{}
	var lids []sop.UUID
	for _, i := range ids {
		lids = append(lids, w.uuids[i])
	}
	go func() {
		res, err := p.reg.Get(w.ctx, []sop.RegistryPayload[sop.UUID]{{RegistryTable: rgTable, CacheDuration: rgDur, IsCacheTTL: ttl, IDs: lids}})
		e := rgEvent{kind: "ret", err: err}
		if err == nil && len(res) == 1 {
			e.res = res[0].IDs
		}
		p.gate.ev <- e
	}()
	e := <-p.gate.ev
	w.s.Op(fmt.Sprintf("gs %d %s", pn, idsStr(ids)), "ok")
	if e.kind != "l2" {
		// cannot happen with this wrapper; keep the trace honest
		w.s.Op(fmt.Sprintf("g %d", pn), "unexpected-"+e.kind)
		p.running = false
		return
	}
	hits := 0
	for k, i := range ids {
		if e.err == nil && e.found[k] {
			hits++
			w.s.Op(fmt.Sprintf("g %d", pn), fmt.Sprintf("hit %d %d", i, e.vals[k].Version))
		} else {
			p.misses = append(p.misses, i)
			w.s.Op(fmt.Sprintf("g %d", pn), fmt.Sprintf("miss %d", i))
		}
	}
	w.s.Hit(fmt.Sprintf("rg_get_hits:%d/%d", hits, len(ids)))
	p.state = "afterL2"
}

// getAdvance releases process pn's parked call and waits for its next one (or its return).
func (w *rgWorld) getAdvance(pn int) {
	p := w.gets[pn]
	if p == nil || !p.running {
		return
	}
	op := fmt.Sprintf("g %d", pn)
	prev := p.cur
	was := p.state
	p.gate.resume <- struct{}{}
	e := <-p.gate.ev
	if was == "afterL2" {
		// the file read of the misses (if any) lies behind us
		for _, i := range p.misses {
			w.s.Op(op, fmt.Sprintf("disk %d", i))
			p.fetched[i] = true
		}
	} else {
		w.s.Op(op, fmt.Sprintf("set %d %d", w.keyIdx[prev.key], prev.val.Version))
	}
	if e.kind == "set" {
		p.state, p.cur = "beforeSet", e
		return
	}
	w.s.Op(op, w.retLine(e))
	p.running = false
	p.fetched = map[int]bool{}
}

// ---- updater ----

func (w *rgWorld) noteFileWrite(i int) {
	for _, p := range w.gets {
		if !p.running {
			continue
		}
		w.updDuringGet = true
		if p.fetched[i] {
			w.tainted[i] = true
			w.updInWindow = true
		}
		for _, r := range p.ids {
			if r == i && !contains(p.misses, i) {
				w.updHitDuringGet = true
			}
		}
	}
}

func contains(l []int, x int) bool {
	for _, y := range l {
		if y == x {
			return true
		}
	}
	return false
}

func (w *rgWorld) updStart(kind string, ids []int) {
	if w.upd != nil {
		return
	}
	g := &gateL2{L2Cache: w.shared, ev: make(chan rgEvent), resume: make(chan struct{})}
	p := &rgProc{gate: g, reg: w.mk(g, true), running: true, kind: kind, ids: ids}
	w.upd = p
	var hs []sop.Handle
	for _, i := range ids {
		h := w.cur[i]
		if !h.IsAandBinUse() {
			h.AllocateID()
		}
		h.FlipActiveID()
		h.Version++
		hs = append(hs, h)
	}
	go func() {
		var err error
		pl := []sop.RegistryPayload[sop.Handle]{{RegistryTable: rgTable, CacheDuration: rgDur, IDs: hs}}
		if kind == "l" {
			err = p.reg.Update(w.ctx, pl)
		} else {
			err = p.reg.UpdateNoLocks(w.ctx, true, pl)
		}
		p.gate.ev <- rgEvent{kind: "ret", err: err}
	}()
	e := <-g.ev
	w.s.Op(fmt.Sprintf("us %s %s", kind, idsStr(ids)), "ok")
	w.s.Hit("rg_updater:" + map[string]string{"l": "Update", "n": "UpdateNoLocks"}[kind])
	if e.kind != "set" {
		w.s.Op("u", "unexpected-"+e.kind)
		w.upd = nil
		p.reg.Close()
		return
	}
	// the file writes that lie behind the first parked SetStruct
	cnt := len(ids)
	if kind == "l" {
		cnt = 1
	}
	for k := 0; k < cnt; k++ {
		i := ids[k]
		w.cur[i] = hs[k]
		w.noteFileWrite(i)
		w.s.Op("u", fmt.Sprintf("wd %d %d", i, hs[k].Version))
	}
	p.written = cnt
	p.cur = e
	p.vals = hs
}

func (w *rgWorld) updAdvance() {
	p := w.upd
	if p == nil {
		return
	}
	prev := p.cur
	p.gate.resume <- struct{}{}
	e := <-p.gate.ev
	w.s.Op("u", fmt.Sprintf("wl %d %d", w.keyIdx[prev.key], prev.val.Version))
	if w.anyGetRunning() {
		w.updDuringGet = true
	}
	if e.kind == "set" {
		if p.kind == "l" {
			i := p.ids[p.written]
			w.cur[i] = p.vals[p.written]
			w.noteFileWrite(i)
			w.s.Op("u", fmt.Sprintf("wd %d %d", i, p.vals[p.written].Version))
			p.written++
		}
		p.cur = e
		return
	}
	if e.err != nil {
		w.s.Op("u", "err")
	} else {
		w.s.Op("u", "done")
	}
	p.reg.Close()
	w.upd = nil
}

// ---- bystanders ----

func (w *rgWorld) evict(i int) {
	w.shared.Delete(w.ctx, []string{w.uuids[i].String()})
	w.s.Op(fmt.Sprintf("ev %d", i), "ok")
}

func (w *rgWorld) l2Version(i int) string {
	var h sop.Handle
	ok, err := w.shared.GetStruct(w.ctx, w.uuids[i].String(), &h)
	if err != nil || !ok {
		return "-"
	}
	return strconv.Itoa(int(h.Version))
}

func (w *rgWorld) fileVersion(i int) string {
	r := w.mk(cache.NewL2InMemoryCache(), false)
	defer r.Close()
	res, err := r.Get(w.ctx, []sop.RegistryPayload[sop.UUID]{{RegistryTable: rgTable, CacheDuration: rgDur, IDs: []sop.UUID{w.uuids[i]}}})
	if err != nil || len(res) != 1 || len(res[0].IDs) != 1 {
		return "!"
	}
	return strconv.Itoa(int(res[0].IDs[0].Version))
}

func (w *rgWorld) warmVersion(i int) string {
	res, err := w.warm.Get(w.ctx, []sop.RegistryPayload[sop.UUID]{{RegistryTable: rgTable, CacheDuration: rgDur, IDs: []sop.UUID{w.uuids[i]}}})
	if err != nil || len(res) != 1 || len(res[0].IDs) != 1 {
		return "!"
	}
	return strconv.Itoa(int(res[0].IDs[0].Version))
}

func (w *rgWorld) obs(i int) (string, string) {
	l, d := w.l2Version(i), w.fileVersion(i)
	w.s.Op(fmt.Sprintf("obs %d", i), fmt.Sprintf("l2 %s disk %s", l, d))
	return l, d
}

// ---- one case ----

// an action: "gs p ttl ids…" | "g p" | "us k ids…" | "u" | "ev i"
func (w *rgWorld) do(a string) {
	f := strings.Fields(a)
	nums := func(ws []string) []int {
		var r []int
		for _, x := range ws {
			v, _ := strconv.Atoi(x)
			r = append(r, v)
		}
		return r
	}
	switch f[0] {
	case "gs":
		x := nums(f[1:])
		w.getStart(x[0], x[2:], x[1] == 1)
	case "g":
		w.getAdvance(nums(f[1:])[0])
	case "us":
		w.updStart(f[1], nums(f[2:]))
	case "u":
		w.updAdvance()
	case "ev":
		w.evict(nums(f[1:])[0])
	}
}

func runRGCase(s *hx.Session, ctx context.Context, label string, n int, actions []string) error {
	w, err := newRGWorld(ctx, s, n)
	if err != nil {
		return err
	}
	defer w.close()
	wb := 0
	if os.Getenv("VERIF_C20_WBALL") == "1" {
		wb = 1
	}
	s.BeginCase(fmt.Sprintf("rg %s %d %d", label, n, wb))
	s.Hit("world:rg")
	for _, a := range actions {
		w.do(a)
	}
	// drive everything to its end: the updater first or the Gets first, as the last action's parity says
	fin := func() {
		for w.upd != nil {
			w.updAdvance()
		}
	}
	if len(actions)%2 == 0 {
		fin()
	}
	for pn := 0; pn < 4; pn++ {
		for w.gets[pn] != nil && w.gets[pn].running {
			w.getAdvance(pn)
		}
	}
	fin()
	if w.updDuringGet {
		s.Nontrivial()
		s.Hit("rg_updater_step_during_get")
	}
	if w.updHitDuringGet {
		s.Hit("rg_file_write_of_an_l2_hit_id_during_get")
	}
	if w.updInWindow {
		s.Hit("rg_file_write_of_a_missed_id_between_file_read_and_return")
	}
	// nothing in flight: what a warm process is handed must be what the file holds
	for i := 0; i < n; i++ {
		l, d := w.obs(i)
		wv := w.warmVersion(i)
		s.Op(fmt.Sprintf("warm %d", i), wv)
		if l != "-" && l != d {
			s.Hit("rg_final_l2_entry_differs_from_file")
		}
		if wv != d {
			sig := rgSigUnexplain
			if w.tainted[i] {
				sig = rgSigMissWin
			}
			failCapped(s, sig, fmt.Sprintf("registry Get by a warm process returns handle version %s of id %d, the registry file holds version %s (L2 entry: %s), nothing in flight", wv, i, d, l),
				"actions: "+strings.Join(actions, "; "))
		}
	}
	return nil
}

// merges of a G's and b U's
func merges(a, b int) []string {
	if a == 0 {
		return []string{strings.Repeat("U", b)}
	}
	if b == 0 {
		return []string{strings.Repeat("G", a)}
	}
	var out []string
	for _, m := range merges(a-1, b) {
		out = append(out, "G"+m)
	}
	for _, m := range merges(a, b-1) {
		out = append(out, "U"+m)
	}
	return out
}

func runRegGet(s *hx.Session, ctx context.Context, p *hx.Prng, o hx.RunOpts) error {
	// directed: the miss window of the unchanged code (finding C20-F4) and the partial-hit history
	if err := runRGCase(s, ctx, "miss-window", 1, []string{"ev 0", "gs 0 0 0", "g 0", "us n 0", "u", "g 0"}); err != nil {
		return err
	}
	if err := runRGCase(s, ctx, "partial-hit", 2, []string{"ev 1", "gs 0 0 0 1", "us n 0", "u", "g 0", "g 0"}); err != nil {
		return err
	}
	// systematic: every hit/miss pattern of a Get over all n ids, one updater over one or two ids, every merge of the
	// Get's and the updater's steps
	cnt := 0
	for _, n := range []int{2, 3} {
		all := []int{}
		for i := 0; i < n; i++ {
			all = append(all, i)
		}
		for miss := 0; miss < 1<<n; miss++ {
			m := 0
			var evs []string
			for i := 0; i < n; i++ {
				if miss>>i&1 == 1 {
					m++
					evs = append(evs, fmt.Sprintf("ev %d", i))
				}
			}
			var usets [][]int
			for i := 0; i < n; i++ {
				usets = append(usets, []int{i})
			}
			usets = append(usets, []int{1, 0})
			if n == 3 {
				usets = append(usets, []int{0, 2})
			}
			for ui, us := range usets {
				for _, kind := range []string{"n", "l"} {
					ga := 1 // start
					if m > 0 {
						ga += 1 + m // file read, m write-backs
					} else {
						ga++ // return
					}
					ub := 1 + len(us)
					for mi, mg := range merges(ga, ub) {
						cnt++
						if !o.Thorough() {
							// quick: all of n=2; for n=3 single-id UpdateNoLocks updaters and a third of the rest
							if n == 3 && !(kind == "n" && len(us) == 1) && (cnt%3 != 0) {
								continue
							}
						}
						acts := append([]string{}, evs...)
						gs, ustarted := false, false
						for _, c := range mg {
							if c == 'G' {
								if !gs {
									acts = append(acts, fmt.Sprintf("gs 0 %d %s", (mi+ui)%2, idsStr(all)))
									gs = true
								} else {
									acts = append(acts, "g 0")
								}
							} else {
								if !ustarted {
									acts = append(acts, fmt.Sprintf("us %s %s", kind, idsStr(us)))
									ustarted = true
								} else {
									acts = append(acts, "u")
								}
							}
						}
						if err := runRGCase(s, ctx, "sys", n, acts); err != nil {
							return fmt.Errorf("rg case %d: %w", s.CaseNo, err)
						}
					}
				}
			}
		}
	}
	// random: up to three concurrent Gets (any subset, any order), updaters one after the other, evictions anywhere
	nr := o.N(250, 4000)
	for c := 0; c < nr; c++ {
		n := 2 + p.Intn(2)
		steps := 6 + p.Intn(16)
		var acts []string
		for k := 0; k < steps; k++ {
			switch x := p.Intn(20); {
			case x < 4:
				var ids []int
				perm := []int{0, 1, 2}[:n]
				for i := n - 1; i > 0; i-- {
					j := p.Intn(i + 1)
					perm[i], perm[j] = perm[j], perm[i]
				}
				ids = append(ids, perm[:1+p.Intn(n)]...)
				if p.Chance(2, 3) {
					ids = append([]int{}, perm...)
				}
				acts = append(acts, fmt.Sprintf("gs %d %d %s", p.Intn(3), p.Intn(2), idsStr(ids)))
			case x < 10:
				acts = append(acts, fmt.Sprintf("g %d", p.Intn(3)))
			case x < 12:
				a := p.Intn(n)
				ids := []int{a}
				if p.Chance(1, 3) {
					ids = append(ids, (a+1+p.Intn(n-1))%n)
				}
				acts = append(acts, fmt.Sprintf("us %s %s", []string{"n", "l"}[p.Intn(2)], idsStr(ids)))
			case x < 16:
				acts = append(acts, "u")
			default:
				acts = append(acts, fmt.Sprintf("ev %d", p.Intn(n)))
			}
		}
		if err := runRGCase(s, ctx, "rnd", n, acts); err != nil {
			return fmt.Errorf("rg case %d: %w", s.CaseNo, err)
		}
	}
	return nil
}
