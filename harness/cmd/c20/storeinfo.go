// C20, store-info cache: StoreRepository.Update over several stores with a fault / a concurrent removal at one of
// them, so that its inner undo runs for the stores before it. Afterwards the three views of every store's info must
// agree: a cache-first Get / GetWithTTL through the shared L2 cache, a cold reader in another process, the file.
// Two drivers of the same machinery: direct calls of the real fs StoreRepository, and real transactions whose
// commit changes the item count of 2-4 stores. Every Add / Update / Remove call is replayed on
// Sop.Model.StoreInfoCache and every view is diffed with the model.
package main

import (
	"context"
	"fmt"
	"os"
	"sort"
	"strings"
	"time"

	"github.com/sharedcode/sop"
	"github.com/sharedcode/sop/fs"

	"verifharness/hx"
	"verifharness/persistx"
	"verifharness/txk"
)

// one store's planned fault in one pass of Update
type siFault struct {
	gone    bool   // removed by "another transaction" right before this store's GetWithTTL
	evict   bool   // cache entry deleted right before it
	file    string // "", unreadable, readonly: a real fault on storeinfo.txt while this store is processed
	setfail bool   // the cache refuses SetStruct for this store
}

func (f siFault) flags() string {
	s := ""
	if f.gone {
		s += "g"
	}
	if f.evict {
		s += "e"
	}
	switch f.file {
	case "unreadable":
		s += "rRf"
	case "readonly":
		s += "wf"
	}
	if f.setfail {
		s += "s"
	}
	if s == "" {
		return "-"
	}
	return s
}
func (f siFault) any() bool { return f.gone || f.evict || f.file != "" || f.setfail }

type siWorld struct {
	ctx   context.Context
	s     *hx.Session
	p     *hx.Prng
	dir   string
	env   *txk.Env
	hook  *persistx.HookL2
	repo  *fs.StoreRepository // cache calls hooked: the repository under test
	plain *fs.StoreRepository // same folder, same L2, no hooks: readers and the concurrent remover

	tsIDs   map[int64]int
	infoIDs map[string]int

	plan          map[string][2]siFault
	inUpdate      bool
	gets          map[string]int
	heal          func()
	fired         map[string]bool // name/pass/kind
	pre           map[string]*sop.StoreInfo
	removed       map[string]bool
	lastCtx       map[string]string // what the last Update did to the store: ok | undone | failed-step | untouched
	staleSet      map[string]bool   // a SetStruct for this store was refused after its file was written
	undoFromStale map[string]bool   // undo computed this store's count from an entry a refused SetStruct had left stale (C20-F3)
	undoDisturbed map[string]bool   // undo's own write for this store was made to fail (double fault): not restored, by construction
	names         []string
	updates       int
}

func newSIWorld(ctx context.Context, s *hx.Session, p *hx.Prng) (*siWorld, error) {
	dir, err := os.MkdirTemp(hx.WorkRoot(), "c20si-")
	if err != nil {
		return nil, err
	}
	w := &siWorld{ctx: ctx, s: s, p: p, dir: dir, tsIDs: map[int64]int{}, infoIDs: map[string]int{}, plan: map[string][2]siFault{},
		gets: map[string]int{}, fired: map[string]bool{}, removed: map[string]bool{}, lastCtx: map[string]string{}, staleSet: map[string]bool{}, undoDisturbed: map[string]bool{}, undoFromStale: map[string]bool{}}
	w.env = txk.NewEnv(dir, 3)
	w.hook = &persistx.HookL2{L2Cache: w.env.L2, Dir: dir}
	w.hook.OnGet = w.onGet
	w.hook.OnSet = w.onSet
	if w.repo, err = persistx.NewRepo(ctx, dir, w.env.L2, w.hook, 3); err != nil {
		return nil, err
	}
	if w.plain, err = persistx.NewRepo(ctx, dir, w.env.L2, w.env.L2, 3); err != nil {
		return nil, err
	}
	return w, nil
}

func (w *siWorld) close() {
	if w.heal != nil {
		w.heal()
		w.heal = nil
	}
	os.RemoveAll(w.dir)
}

func (w *siWorld) tsID(v int64) int {
	if id, ok := w.tsIDs[v]; ok {
		return id
	}
	w.tsIDs[v] = len(w.tsIDs) + 1
	return w.tsIDs[v]
}
func (w *siWorld) infoID(si *sop.StoreInfo) int {
	k := si.RootNodeID.String() + "|" + si.Description
	if id, ok := w.infoIDs[k]; ok {
		return id
	}
	w.infoIDs[k] = len(w.infoIDs) + 1
	return w.infoIDs[k]
}
func (w *siWorld) rec(si *sop.StoreInfo) string {
	if si == nil {
		return "none"
	}
	return fmt.Sprintf("%d %d %d", si.Count, w.tsID(si.Timestamp), w.infoID(si))
}

// ---- hooks: what happens to a store while Update works on it ----

func (w *siWorld) onGet(name string) {
	if !w.inUpdate {
		return
	}
	if w.heal != nil {
		w.heal()
		w.heal = nil
	}
	w.gets[name]++
	pass := w.gets[name] - 1
	if pass > 1 {
		return
	}
	f := w.plan[name][pass]
	tag := fmt.Sprintf("%s/%d/", name, pass)
	if f.gone {
		w.plain.Remove(w.ctx, name)
		w.removed[name] = true
		w.fired[tag+"gone"] = true
		return
	}
	if f.evict {
		w.env.L2.Delete(w.ctx, []string{w.hook.Key(name)})
		w.fired[tag+"evict"] = true
	}
	if f.file != "" {
		if h, err := persistx.BreakFile(persistx.StoreInfoPath(w.dir, name), f.file); err == nil {
			w.heal = h
			w.fired[tag+"file"] = true
		}
	}
}

func (w *siWorld) onSet(name string) error {
	if !w.inUpdate {
		return nil
	}
	pass := w.gets[name] - 1
	if pass < 0 || pass > 1 {
		return nil
	}
	if w.plan[name][pass].setfail {
		w.fired[fmt.Sprintf("%s/%d/setfail", name, pass)] = true
		return fmt.Errorf("verif: injected cache SetStruct failure")
	}
	return nil
}

func (w *siWorld) beginUpdate(in []sop.StoreInfo) {
	w.inUpdate = true
	w.gets = map[string]int{}
	w.fired = map[string]bool{}
	w.pre = map[string]*sop.StoreInfo{}
	for i := range in {
		si, _ := persistx.ReadStoreInfoFile(w.dir, in[i].Name)
		w.pre[in[i].Name] = si
	}
}

func (w *siWorld) endUpdate(in, out []sop.StoreInfo, err error) {
	w.inUpdate = false
	if w.heal != nil {
		w.heal()
		w.heal = nil
	}
	if len(in) == 0 {
		return
	}
	w.updates++
	res := "ok"
	if err != nil {
		res = "err"
	} else if out == nil {
		res = "oknil"
	}
	items := make([]string, len(in))
	for i := range in {
		pl := w.plan[in[i].Name]
		ns := 0
		if in[i].NeedsMetaDataSave {
			ns = 1
		}
		items[i] = fmt.Sprintf("%s:%+d:%d:%d:%d:%s:%s", in[i].Name, in[i].CountDelta, w.tsID(in[i].Timestamp), w.infoID(&in[i]), ns, pl[0].flags(), pl[1].flags())
	}
	w.s.Op("upd "+strings.Join(items, " "), res)
	w.s.Hit("update:" + res)
	w.s.Hit(fmt.Sprintf("update_stores:%d", len(in)))

	// which stores completed their forward iteration, which one failed
	sorted := append([]sop.StoreInfo(nil), in...)
	sort.SliceStable(sorted, func(i, j int) bool { return sorted[i].Name < sorted[j].Name })
	undone := 0
	for i := range sorted {
		n := sorted[i].Name
		switch {
		case res == "ok":
			w.lastCtx[n] = "ok"
		case w.gets[n] >= 2:
			w.lastCtx[n] = "undone"
			undone++
		case w.gets[n] == 1:
			w.lastCtx[n] = "failed-step"
			w.s.Hit(fmt.Sprintf("fail_at_sorted_index:%d", i))
		default:
			w.lastCtx[n] = "untouched"
		}
	}
	if res != "ok" {
		w.s.Hit(fmt.Sprintf("stores_undone:%d", undone))
		if undone > 0 {
			w.s.Nontrivial()
		}
	}
	for k := range w.fired {
		f := strings.Split(k, "/")
		w.s.Hit("fault_fired:" + [2]string{"fwd", "undo"}[f[1][0]-'0'] + ":" + f[2])
	}

	// direct oracle 1: what Update left in the files
	for i := range in {
		n := in[i].Name
		pre := w.pre[n]
		post, _ := persistx.ReadStoreInfoFile(w.dir, n)
		if w.fired[n+"/0/setfail"] && (res == "ok" || w.gets[n] >= 2) {
			// the forward iteration completed (file written) but its SetStruct was refused
			w.staleSet[n] = true
		}
		if res == "ok" {
			if pre == nil || post == nil {
				continue
			}
			if w.staleSet[n] && !w.fired[n+"/0/setfail"] {
				continue // base taken from an entry a refused SetStruct left stale: reported by observe
			}
			if post.Count != pre.Count+in[i].CountDelta || post.Timestamp != in[i].Timestamp {
				failCapped(w.s, "C20/storeinfo-update-base-not-the-file", "a successful Update did not move the count in the file by its delta",
					fmt.Sprintf("%s: file before %s, delta %+d, file after %s", n, w.rec(pre), in[i].CountDelta, w.rec(post)))
			}
			continue
		}
		if w.fired[n+"/0/gone"] || w.removed[n] {
			continue
		}
		if w.fired[n+"/1/file"] {
			w.s.Hit("double_fault:undo_disturbed")
			w.undoDisturbed[n] = true
			continue
		}
		if w.fired[n+"/0/setfail"] {
			// the forward pass wrote the file but its SetStruct was refused: undo computes from the OLD cache entry
			if w.rec(pre) != w.rec(post) {
				w.s.Hit("stale:setstruct-refused-then-undone")
				w.undoFromStale[n] = true
				failCapped(w.s, "C20/storeinfo-cache-stale-after-tolerated-setstruct-failure", "undo subtracted the delta from a cache entry a refused SetStruct had left at the old count",
					fmt.Sprintf("%s: before %s, after %s", n, w.rec(pre), w.rec(post)))
			}
			continue
		}
		if in[i].NeedsMetaDataSave && pre != nil && w.infoID(pre) != w.infoID(&in[i]) {
			w.s.Hit("metadata_change_not_undone")
			continue
		}
		if w.rec(pre) != w.rec(post) {
			failCapped(w.s, "C20/storeinfo-file-not-restored-after-failed-update", "Update failed but a store's file does not hold what it held before the call",
				fmt.Sprintf("%s: before %s, after %s", n, w.rec(pre), w.rec(post)))
		}
	}
}

// observe compares, for every store, the shared-cache view, a cold process's view and the file.
func (w *siWorld) observe(when string) {
	for _, n := range w.names {
		file, _ := persistx.ReadStoreInfoFile(w.dir, n)
		w.s.Op("disk "+n, w.rec(file))
		var cold *sop.StoreInfo
		w.env.AsOtherProcess(func(o *txk.Env) error {
			r, err := persistx.NewRepo(w.ctx, w.dir, o.L2, o.L2, 3)
			if err != nil {
				return err
			}
			if sis, err := r.Get(w.ctx, n); err == nil && len(sis) == 1 {
				cold = &sis[0]
			}
			return nil
		})
		w.s.Op("disk "+n, w.rec(cold))
		var cached *sop.StoreInfo
		var sis []sop.StoreInfo
		var err error
		if w.p.Chance(1, 2) {
			sis, err = w.plain.Get(w.ctx, n)
			w.s.Hit("reader:Get")
		} else {
			sis, err = w.plain.GetWithTTL(w.ctx, true, 10*time.Minute, n)
			w.s.Hit("reader:GetWithTTL")
		}
		if err == nil && len(sis) == 1 {
			cached = &sis[0]
		}
		w.s.Op("get "+n, w.rec(cached))
		if w.rec(cold) != w.rec(file) {
			failCapped(w.s, "C20/storeinfo-cold-reader-differs-from-file", "a freshly started process reads a store info other than the file's", fmt.Sprintf("%s %s: cold %s file %s", when, n, w.rec(cold), w.rec(file)))
		}
		if w.rec(cached) != w.rec(file) {
			sig := "C20/storeinfo-cache-differs-from-file:after-" + w.lastCtx[n]
			if w.staleSet[n] {
				sig = "C20/storeinfo-cache-stale-after-tolerated-setstruct-failure"
				w.s.Hit("stale:setstruct-refused")
			}
			failCapped(w.s, sig, "the shared store-info cache serves a record other than the committed one in the file (Count / Timestamp / RootNodeID)",
				fmt.Sprintf("%s %s: cache-first reader %s, file %s, cold reader %s", when, n, w.rec(cached), w.rec(file), w.rec(cold)))
		} else {
			w.s.Hit("views_agree")
		}
		if w.staleSet[n] {
			// put the cache right again (an expiry) so that the rest of the case does not inherit the known defect
			w.env.L2.Delete(w.ctx, []string{w.hook.Key(n)})
			w.s.Op("evict "+n, "ok")
			delete(w.staleSet, n)
		}
	}
}

func (w *siWorld) evict(n string) {
	w.env.L2.Delete(w.ctx, []string{w.hook.Key(n)})
	w.s.Op("evict "+n, "ok")
	w.s.Hit("op:evict")
}

// pickPlan chooses the victim among the stores of one Update (sorted order decides who is undone).
func (w *siWorld) pickPlan(names []string, immutable bool, kindHint int) {
	w.plan = map[string][2]siFault{}
	sorted := append([]string(nil), names...)
	sort.Strings(sorted)
	if kindHint < 0 {
		return
	}
	k := len(sorted) - 1
	if len(sorted) > 1 {
		k = 1 + w.p.Intn(len(sorted)-1)
	}
	if w.p.Chance(1, 8) {
		k = 0
	}
	var f siFault
	switch kindHint % 4 {
	case 0:
		f.gone = true
	case 1:
		f.file = "unreadable"
	case 2:
		f.file = "readonly"
		if !immutable {
			f.file = "unreadable"
		}
	case 3:
		f.file = "unreadable"
		f.evict = true
	}
	if !f.gone && w.p.Chance(1, 5) {
		f.evict = true
	}
	pl := w.plan[sorted[k]]
	pl[0] = f
	w.plan[sorted[k]] = pl
	w.s.Hit("plan:fwd:" + f.flags())
	// harmless interference elsewhere: an eviction before another store's forward or undo Get
	if w.p.Chance(1, 3) {
		j := w.p.Intn(len(sorted))
		pl := w.plan[sorted[j]]
		pass := w.p.Intn(2)
		if !pl[pass].any() {
			pl[pass].evict = true
			w.plan[sorted[j]] = pl
			w.s.Hit(fmt.Sprintf("plan:evict:pass%d", pass))
		}
	}
	// double fault: undo itself disturbed for a store before the victim
	if k > 0 && w.p.Chance(1, 7) {
		j := w.p.Intn(k)
		pl := w.plan[sorted[j]]
		pl[1].file = []string{"unreadable", "readonly"}[w.p.Intn(2)]
		if !immutable {
			pl[1].file = "unreadable"
		}
		w.plan[sorted[j]] = pl
		w.s.Hit("plan:undo:" + pl[1].flags())
	}
	// the tolerated cache failure (known finding C20-F3)
	if w.p.Chance(1, 12) {
		j := w.p.Intn(len(sorted))
		pl := w.plan[sorted[j]]
		if !pl[0].gone {
			pl[0].setfail = true
			w.plan[sorted[j]] = pl
			w.s.Hit("plan:setfail")
		}
	}
}

func siNames(p *hx.Prng) []string {
	pool := []string{"a", "b", "c", "d", "e", "f"}
	pre := []string{"s", "st_", "S", "z", ""}[p.Intn(5)]
	n := 2 + p.Intn(3)
	var out []string
	for len(out) < n {
		i := p.Intn(len(pool))
		out = append(out, pre+pool[i])
		pool = append(pool[:i], pool[i+1:]...)
	}
	if pre == "" { // "" would give one-letter names: fine, but make one sort differently by case
		out[0] = strings.ToUpper(out[0])
	}
	return out
}

func (w *siWorld) addedCB(ss []sop.StoreInfo, err error) {
	for i := range ss {
		out := "ok"
		if err != nil {
			out = "err"
		}
		w.s.Op(fmt.Sprintf("add %s %d %d %d", ss[i].Name, ss[i].Count, w.tsID(ss[i].Timestamp), w.infoID(&ss[i])), out)
	}
}

// ---- driver 1: the repository called directly ----

func runSIDirect(s *hx.Session, ctx context.Context, p *hx.Prng, immutable bool, directed int) error {
	w, err := newSIWorld(ctx, s, p)
	if err != nil {
		return err
	}
	defer w.close()
	label := "direct"
	if directed >= 0 {
		label = fmt.Sprintf("direct-witness%d", directed)
	}
	s.BeginCase("si " + label)
	s.Hit("driver:direct")
	w.names = siNames(p)
	ts := int64(1000)
	ttl := p.Chance(1, 2)
	for i, n := range w.names {
		so := w.env.StoreOpts(n, 4, true)
		so.CacheConfig.IsStoreInfoCacheTTL = ttl
		si := sop.NewStoreInfo(so)
		si.Count = int64(p.Intn(6))
		ts++
		si.Timestamp = ts
		si.Description = fmt.Sprintf("d%d", i)
		err := w.repo.Add(ctx, *si)
		w.addedCB([]sop.StoreInfo{*si}, err)
		if err != nil {
			return err
		}
	}
	rounds := 1 + p.Intn(3)
	for r := 0; r < rounds; r++ {
		for _, n := range w.names {
			if p.Chance(1, 4) {
				w.evict(n)
			}
		}
		// the stores of this Update, in an order of the caller's choosing
		var pick []string
		for _, n := range w.names {
			if p.Chance(3, 4) {
				pick = append(pick, n)
			}
		}
		if len(pick) < 2 {
			pick = append([]string(nil), w.names...)
		}
		for i := len(pick) - 1; i > 0; i-- {
			j := p.Intn(i + 1)
			pick[i], pick[j] = pick[j], pick[i]
		}
		kind := p.Intn(5) - 1 // -1: no fault
		if directed >= 0 && r == 0 {
			kind = directed
		}
		w.pickPlan(pick, immutable, kind)
		var in []sop.StoreInfo
		for _, n := range pick {
			cur, _ := persistx.ReadStoreInfoFile(w.dir, n)
			if cur == nil {
				so := w.env.StoreOpts(n, 4, true)
				cur = sop.NewStoreInfo(so)
			}
			x := *cur
			x.CountDelta = int64(1 + p.Intn(5))
			if p.Chance(1, 3) && x.Count > 0 {
				x.CountDelta = -int64(1 + p.Intn(int(x.Count)))
			}
			ts++
			x.Timestamp = ts
			x.Count = x.Count + x.CountDelta // what a transaction's copy would carry; Update overwrites it
			if p.Chance(1, 10) {
				x.NeedsMetaDataSave = true
				if p.Chance(1, 2) {
					x.Description += "'"
				}
				w.s.Hit("needs_metadata_save")
			}
			in = append(in, x)
		}
		w.beginUpdate(in)
		cp := append([]sop.StoreInfo(nil), in...)
		out, err := w.repo.Update(ctx, in)
		w.endUpdate(cp, out, err)
		w.plan = map[string][2]siFault{}
		w.observe(fmt.Sprintf("after update %d", r+1))
	}
	// a following fault-free Update of every remaining store: its base must be the file
	var in []sop.StoreInfo
	for _, n := range w.names {
		cur, _ := persistx.ReadStoreInfoFile(w.dir, n)
		if cur == nil {
			continue
		}
		x := *cur
		x.CountDelta = int64(1 + p.Intn(3))
		ts++
		x.Timestamp = ts
		in = append(in, x)
	}
	if len(in) > 0 {
		w.beginUpdate(in)
		cp := append([]sop.StoreInfo(nil), in...)
		out, err := w.repo.Update(ctx, in)
		w.endUpdate(cp, out, err)
		if err != nil || out == nil {
			failCapped(s, "C20/storeinfo-follow-up-update-failed", "a fault-free Update after the faulted one failed", fmt.Sprint(err))
		}
		w.observe("after follow-up")
	}
	return nil
}

// ---- driver 2: real transactions ----

func (w *siWorld) newTxn(mode sop.TransactionMode) (*txk.Txn, error) {
	t, err := persistx.NewTxnWithRepo(w.ctx, w.env, mode, 30*time.Second, w.hook, func(in sop.StoreRepository) sop.StoreRepository {
		return &persistx.RecRepo{In: in, Before: w.beginUpdate, After: w.endUpdate, Added: w.addedCB}
	})
	if err != nil {
		return nil, err
	}
	if err := t.T.Begin(w.ctx); err != nil {
		return nil, err
	}
	return t, nil
}

// coldItems counts the items of a store the slow way, in another process.
func (w *siWorld) coldItems(n string) (int, int64, error) {
	items, count := 0, int64(-1)
	err := w.env.AsOtherProcess(func(o *txk.Env) error {
		t, err := o.NewTxn(w.ctx, sop.ForReading, 30*time.Second, nil)
		if err != nil {
			return err
		}
		if err := t.T.Begin(w.ctx); err != nil {
			return err
		}
		defer t.T.Rollback(w.ctx)
		b, err := txk.OpenBtree[int, string](w.ctx, t, n)
		if err != nil {
			return err
		}
		count = b.Count()
		ok, err := b.First(w.ctx)
		for ok && err == nil {
			items++
			ok, err = b.Next(w.ctx)
		}
		return err
	})
	return items, count, err
}

func runSITxn(s *hx.Session, ctx context.Context, p *hx.Prng, immutable bool, directed int) error {
	w, err := newSIWorld(ctx, s, p)
	if err != nil {
		return err
	}
	defer w.close()
	label := "txn"
	if directed >= 0 {
		label = fmt.Sprintf("txn-witness%d", directed)
	}
	s.BeginCase("si " + label)
	s.Hit("driver:txn")
	w.names = siNames(p)
	ttl := p.Chance(1, 2)
	items := map[string]map[int]bool{}
	nextKey := 1

	// T0: create the stores with a few items each
	t, err := w.newTxn(sop.ForWriting)
	if err != nil {
		return err
	}
	for _, n := range w.names {
		so := w.env.StoreOpts(n, 4, true)
		so.CacheConfig.IsStoreInfoCacheTTL = ttl
		b, err := txk.NewBtree[int, string](ctx, t, so)
		if err != nil {
			return fmt.Errorf("create %s: %w", n, err)
		}
		items[n] = map[int]bool{}
		for i, k := 0, 1+p.Intn(5); i < k; i++ {
			if ok, err := b.Add(ctx, nextKey, "v"); err != nil || !ok {
				return fmt.Errorf("setup add: %v %v", ok, err)
			}
			items[n][nextKey] = true
			nextKey++
		}
	}
	if err := t.T.Commit(ctx); err != nil {
		return fmt.Errorf("setup commit: %w", err)
	}
	w.observe("after setup")
	for _, n := range w.names {
		if p.Chance(1, 4) {
			w.evict(n)
		}
	}

	// T1: one transaction changing the count of at least two stores; a fault at one of them at commit time
	order := append([]string(nil), w.names...)
	for i := len(order) - 1; i > 0; i-- {
		j := p.Intn(i + 1)
		order[i], order[j] = order[j], order[i]
	}
	nmod := 2 + p.Intn(len(order)-1)
	mod := order[:nmod]
	if t, err = w.newTxn(sop.ForWriting); err != nil {
		return err
	}
	pending := map[string]map[int]bool{}
	for _, n := range order {
		b, err := txk.OpenBtree[int, string](ctx, t, n)
		if err != nil {
			return fmt.Errorf("open %s: %w", n, err)
		}
		pending[n] = map[int]bool{}
		for k := range items[n] {
			pending[n][k] = true
		}
		isMod := false
		for _, m := range mod {
			isMod = isMod || m == n
		}
		if !isMod {
			continue
		}
		if len(items[n]) > 1 && p.Chance(1, 3) {
			// a negative delta
			keys := make([]int, 0, len(items[n]))
			for k := range items[n] {
				keys = append(keys, k)
			}
			sort.Ints(keys)
			for i, k := 0, 1+p.Intn(len(keys)-1); i < k; i++ {
				if ok, err := b.Remove(ctx, keys[i]); err != nil || !ok {
					return fmt.Errorf("remove: %v %v", ok, err)
				}
				delete(pending[n], keys[i])
			}
			w.s.Hit("txn_delta:negative")
		} else {
			for i, k := 0, 1+p.Intn(4); i < k; i++ {
				if ok, err := b.Add(ctx, nextKey, "v"); err != nil || !ok {
					return fmt.Errorf("add: %v %v", ok, err)
				}
				pending[n][nextKey] = true
				nextKey++
			}
			w.s.Hit("txn_delta:positive")
		}
	}
	kind := p.Intn(5) - 1
	if directed >= 0 {
		kind = directed
	}
	w.pickPlan(mod, immutable, kind)
	before := w.updates
	cerr := t.T.Commit(ctx)
	w.plan = map[string][2]siFault{}
	if cerr == nil {
		items = pending
		w.s.Hit("faulted_commit:ok")
	} else {
		w.s.Hit("faulted_commit:err")
	}
	w.s.Hit(fmt.Sprintf("update_calls_in_commit:%d", w.updates-before))
	w.observe("after faulted commit")

	// T2: a following successful transaction adds one item to every remaining store
	anyRemoved := len(w.removed) > 0
	if t, err = w.newTxn(sop.ForWriting); err != nil {
		return err
	}
	for _, n := range w.names {
		if w.removed[n] {
			continue
		}
		b, err := txk.OpenBtree[int, string](ctx, t, n)
		if err != nil {
			failCapped(s, "C20/storeinfo-follow-up-open-failed", "a store cannot be opened after the faulted commit", n+": "+err.Error())
			t.T.Rollback(ctx)
			return nil
		}
		if ok, err := b.Add(ctx, nextKey, "v"); err != nil || !ok {
			return fmt.Errorf("follow-up add: %v %v", ok, err)
		}
		items[n][nextKey] = true
		nextKey++
	}
	if err := t.T.Commit(ctx); err != nil {
		failCapped(s, "C20/storeinfo-follow-up-commit-failed", "the transaction after the faulted one cannot commit", err.Error())
		return nil
	}
	w.observe("after follow-up commit")
	for _, n := range w.names {
		if w.removed[n] {
			continue
		}
		// the in-process reader: OpenBtree(...).Count() goes through the cached store info
		rt, err := w.newTxn(sop.ForReading)
		if err != nil {
			return err
		}
		b, err := txk.OpenBtree[int, string](ctx, rt, n)
		if err != nil {
			rt.T.Rollback(ctx)
			continue
		}
		warm := b.Count()
		rt.T.Rollback(ctx)
		got, coldCount, err := w.coldItems(n)
		if err != nil {
			w.s.Hit("cold_items:err")
			continue
		}
		if warm != coldCount {
			failCapped(s, "C20/storeinfo-cache-differs-from-file:count-of-open-btree", "Count() of a store opened through the shared cache differs from a cold process's", fmt.Sprintf("%s: warm %d cold %d", n, warm, coldCount))
		}
		if anyRemoved {
			w.s.Hit("count_vs_items:skipped-store-vanished(C12)")
			continue
		}
		if w.undoDisturbed[n] {
			w.s.Hit("count_vs_items:skipped-undo-disturbed")
			continue
		}
		if w.undoFromStale[n] {
			if int64(got) != coldCount {
				failCapped(s, "C20/storeinfo-cache-stale-after-tolerated-setstruct-failure", "Count differs from the number of items: undo had subtracted the delta from a stale cache entry",
					fmt.Sprintf("%s: Count %d, items found %d", n, coldCount, got))
			}
			continue
		}
		if int64(got) != coldCount || got != len(items[n]) {
			failCapped(s, "C20/storeinfo-count-differs-from-items", "after the following successful transaction a store's Count is not its number of items",
				fmt.Sprintf("%s: Count %d, items found %d, items committed %d", n, coldCount, got, len(items[n])))
		} else {
			w.s.Hit("count_equals_items")
		}
	}
	return nil
}

func runStoreInfo(s *hx.Session, ctx context.Context, p *hx.Prng, o hx.RunOpts) error {
	immutable := persistx.ImmutableSupported(hx.WorkRoot())
	s.Hit(fmt.Sprintf("immutable_files_supported:%v", immutable))
	// directed cases first: each fault kind once through each driver
	for k := 0; k < 4; k++ {
		if err := runSIDirect(s, ctx, p, immutable, k); err != nil {
			return fmt.Errorf("si direct witness %d: %w", k, err)
		}
		if err := runSITxn(s, ctx, p, immutable, k); err != nil {
			return fmt.Errorf("si txn witness %d: %w", k, err)
		}
	}
	n := o.N(160, 1500)
	for i := 0; i < n; i++ {
		var err error
		if i%4 == 3 {
			err = runSITxn(s, ctx, p, immutable, -1)
		} else {
			err = runSIDirect(s, ctx, p, immutable, -1)
		}
		if err != nil {
			return fmt.Errorf("si case %d: %w", s.CaseNo, err)
		}
	}
	return nil
}
