// C21 — the on-disk registry behaves as a map from id to handle.
//
// Runs the real fs.NewRegistry on temp dirs with tiny and default hash moduli. Ids are constructed from
// coordinates (block, ideal slot, serial) so that collisions, displaced entries, full blocks and overflow
// into further segment files are the norm. After every mutating call: a COLD lookup of every id used so
// far (a new registry object with a fresh L2 cache: registryOnDisk.Get consults only the L2 cache before
// the files) and a raw decode of the .reg segment files into (segment, block, slot) -> id. Both are
// diffed with the Lean model (correspondence) and checked against a Go map (direct oracle).
// Several writers on one folder and one lock cache, interleaved call by call: multi.go.
package main

import (
	"context"
	"fmt"
	"os"
	"path/filepath"
	"strings"

	"github.com/sharedcode/sop"
	"github.com/sharedcode/sop/cache"
	"github.com/sharedcode/sop/encoding"
	"github.com/sharedcode/sop/fs"

	"verifharness/fsfacts"
	"verifharness/hx"
)

func main() { hx.Main(driveC21, "Sop.Facts", fsfacts.Facts, nil) }

const table = "t21"

type id struct{ hi, lo uint64 }

func (i id) String() string { return fmt.Sprintf("%d:%d", i.hi, i.lo) }

func (i id) uuid() sop.UUID {
	var u sop.UUID
	for b := 0; b < 8; b++ {
		u[b] = byte(i.hi >> (56 - 8*b))
		u[8+b] = byte(i.lo >> (56 - 8*b))
	}
	return u
}

func idOf(u sop.UUID) id { h, l := u.Split(); return id{h, l} }

func payload(h sop.Handle) string {
	b := func(x bool) int {
		if x {
			return 1
		}
		return 0
	}
	return fmt.Sprintf("%s.%s.%d.%d.%d.%d", hx.Hexb(h.PhysicalIDA[:]), hx.Hexb(h.PhysicalIDB[:]), b(h.IsActiveIDB), h.Version,
		h.WorkInProgressTimestamp, b(h.IsDeleted))
}

type cellPos struct{ seg, blk, slot int }

// layout is the decoded content of the segment files.
type layout struct {
	nseg  int
	cells map[cellPos]id
	order []cellPos
}

func (l layout) String() string {
	var sb strings.Builder
	fmt.Fprintf(&sb, "nseg=%d", l.nseg)
	for _, c := range l.order {
		fmt.Fprintf(&sb, " %d.%d.%d=%s", c.seg, c.blk, c.slot, l.cells[c])
	}
	return sb.String()
}

// probeIndex is the position of (seg, slot) in the probe sequence of an id whose ideal slot is `ideal`.
func probeIndex(hp, seg, slot, ideal int) int {
	k := 0
	switch {
	case slot == ideal:
		k = 0
	case slot < ideal:
		k = slot + 1
	default:
		k = slot
	}
	return seg*hp + k
}

type world struct {
	ctx    context.Context
	s      *hx.Session
	p      *hx.Prng
	dir    string
	md     int
	hp     int
	bsz    int
	reg    fs.Registry
	newReg func(l2 sop.L2Cache) fs.Registry // a read-write registry object of its own on the same folder
	l2     sop.L2Cache
	cold   func() fs.Registry
	ref    map[id]sop.Handle // the specification: a map
	used   []id              // every id ever mentioned, in order of first use
	seen   map[id]bool
	gone   []id // ids removed at least once (may be present again)
	ser    uint64
	ver    int32
	lay    layout
	displ  bool
	ovf    bool
	// ids that a writer (add / update / remove) was sent to while their record sat behind an empty slot of its
	// probe sequence: the only situation in which the first-hole write probe misbehaves
	tainted map[id]bool
	// set by the first failure that carries the footprint of the write-probe defect: what the map oracle reports
	// later in the same case (stale copies that outlive their footprint) is downstream of it
	contaminated bool
	lastTouched  []id
}

func (w *world) note(i id) {
	if !w.seen[i] {
		w.seen[i] = true
		w.used = append(w.used, i)
	}
}

// freshID builds a new id with the given block and ideal slot.
func (w *world) freshID(blk, slot int) id {
	w.ser++
	return id{hi: uint64(blk) + uint64(w.md)*uint64(w.p.Intn(5)), lo: uint64(slot) + uint64(w.hp)*w.ser}
}

func (w *world) handle(i id) sop.Handle {
	w.ver++
	h := sop.Handle{LogicalID: i.uuid(), Version: w.ver}
	for k := range h.PhysicalIDA {
		h.PhysicalIDA[k] = byte(w.p.U64())
	}
	if w.p.Chance(1, 2) {
		for k := range h.PhysicalIDB {
			h.PhysicalIDB[k] = byte(w.p.U64())
		}
		h.IsActiveIDB = w.p.Chance(1, 2)
	}
	if w.p.Chance(1, 4) {
		h.WorkInProgressTimestamp = int64(w.p.U64() >> 12)
	}
	h.IsDeleted = w.p.Chance(1, 8)
	return h
}

func errClass(err error) string {
	if err == nil {
		return "ok"
	}
	if strings.Contains(err.Error(), "maximum count of segment files") {
		return "err:full"
	}
	if strings.Contains(err.Error(), "can't acquire a lock to preallocate file") {
		return "err:busy" // setupNewFile does not retry its preallocation lock
	}
	return "err"
}

func recs(hs []sop.Handle) string {
	parts := make([]string, 0, 2*len(hs))
	for _, h := range hs {
		parts = append(parts, idOf(h.LogicalID).String(), payload(h))
	}
	return strings.Join(parts, " ")
}

func idsStr(is []id) string {
	parts := make([]string, len(is))
	for k, i := range is {
		parts[k] = i.String()
	}
	return strings.Join(parts, " ")
}

func (w *world) presentIDs() []id {
	out := make([]id, 0, len(w.ref))
	for _, i := range w.used {
		if _, ok := w.ref[i]; ok {
			out = append(out, i)
		}
	}
	return out
}

// ---- the operations: real call, op line, expected result from the reference map ----

func (w *world) opAdd(hs []sop.Handle) {
	err := w.reg.Add(w.ctx, []sop.RegistryPayload[sop.Handle]{{RegistryTable: table, IDs: hs}})
	got := errClass(err)
	w.s.Op("add "+recs(hs), got)
	want := "ok"
	for _, h := range hs {
		i := idOf(h.LogicalID)
		w.note(i)
		if _, ok := w.ref[i]; ok {
			want = "err"
			break
		}
		w.ref[i] = h
	}
	w.s.Hit("op_add")
	if want == "err" {
		w.s.Hit("op_add_present_refused")
	}
	w.after("add", got, want, idsOf(hs))
}

func (w *world) opSet(hs []sop.Handle, noLocks bool) {
	pl := []sop.RegistryPayload[sop.Handle]{{RegistryTable: table, IDs: hs}}
	var err error
	name := "upd"
	if noLocks {
		name = "set"
		err = w.reg.UpdateNoLocks(w.ctx, false, pl)
	} else {
		err = w.reg.Update(w.ctx, pl)
	}
	got := errClass(err)
	w.s.Op(name+" "+recs(hs), got)
	for _, h := range hs {
		i := idOf(h.LogicalID)
		w.note(i)
		if _, ok := w.ref[i]; !ok {
			w.s.Hit("op_update_absent_upsert")
		}
		w.ref[i] = h
	}
	w.s.Hit("op_" + name)
	w.after(name, got, "ok", idsOf(hs))
}

func (w *world) opRemove(is []id) {
	us := make([]sop.UUID, len(is))
	for k, i := range is {
		us[k] = i.uuid()
		w.note(i)
	}
	err := w.reg.Remove(w.ctx, []sop.RegistryPayload[sop.UUID]{{RegistryTable: table, IDs: us}})
	got := errClass(err)
	w.s.Op("rm "+idsStr(is), got)
	want := "ok"
	for _, i := range is {
		if _, ok := w.ref[i]; !ok {
			want = "err"
		}
	}
	if want == "ok" {
		for _, i := range is {
			delete(w.ref, i)
			w.gone = append(w.gone, i)
		}
		w.s.Hit("op_remove")
	} else {
		w.s.Hit("op_remove_absent_refused")
	}
	w.after("rm", got, want, is)
}

func idsOf(hs []sop.Handle) []id {
	out := make([]id, len(hs))
	for k, h := range hs {
		out[k] = idOf(h.LogicalID)
	}
	return out
}

// decode reads the raw segment files: every block when full is set (or the table is small), otherwise the
// blocks that ids used so far map to (the others are verified to be all zero by the full read that ends the case).
func (w *world) decode(full bool) (layout, error) {
	hot := map[int]bool{}
	if w.md <= 3 {
		full = true
	}
	for _, i := range w.used {
		hot[int(i.hi%uint64(w.md))] = true
	}
	l := layout{cells: map[cellPos]id{}}
	m := encoding.NewHandleMarshaler()
	for seg := 0; ; seg++ {
		fn := filepath.Join(w.dir, table, fmt.Sprintf("%s-%d.reg", table, seg+1))
		f, err := os.Open(fn)
		if err != nil {
			if os.IsNotExist(err) {
				break
			}
			return l, err
		}
		st, err := f.Stat()
		if err != nil {
			f.Close()
			return l, err
		}
		if st.Size() != int64(w.md*w.bsz) {
			f.Close()
			return l, fmt.Errorf("segment %s has %d bytes, expected %d", fn, st.Size(), w.md*w.bsz)
		}
		l.nseg++
		blk := make([]byte, w.bsz)
		for b := 0; b < w.md; b++ {
			if !full && !hot[b] {
				continue
			}
			if _, err := f.ReadAt(blk, int64(b*w.bsz)); err != nil {
				f.Close()
				return l, err
			}
			for sl := 0; sl < w.hp; sl++ {
				rec := blk[sl*sop.HandleSizeInBytes : (sl+1)*sop.HandleSizeInBytes]
				zero := true
				for _, x := range rec {
					if x != 0 {
						zero = false
						break
					}
				}
				if zero {
					continue
				}
				var h sop.Handle
				if err := m.Unmarshal(rec, &h); err != nil {
					return l, fmt.Errorf("segment %d block %d slot %d does not decode: %v", seg, b, sl, err)
				}
				c := cellPos{seg, b, sl}
				l.cells[c] = idOf(h.LogicalID)
				l.order = append(l.order, c)
			}
		}
		f.Close()
	}
	return l, nil
}

// holeFootprint: does a record of `i` sit after an empty slot of its probe sequence, or twice? (the footprint of a
// writer that settled on the first hole while the id lived further along)
func (w *world) holeFootprint(l layout, i id) bool {
	blk := int(i.hi % uint64(w.md))
	ideal := int(i.lo % uint64(w.hp))
	firstEmpty := -1
	count := 0
	last := -1
	for seg := 0; seg < l.nseg; seg++ {
		for sl := 0; sl < w.hp; sl++ {
			pi := probeIndex(w.hp, seg, sl, ideal)
			if x, ok := l.cells[cellPos{seg, blk, sl}]; !ok {
				if firstEmpty < 0 || pi < firstEmpty {
					firstEmpty = pi
				}
			} else if x == i {
				count++
				if pi > last {
					last = pi
				}
			}
		}
	}
	return count > 1 || (count == 1 && firstEmpty >= 0 && firstEmpty < last)
}

// fail records an oracle failure about id i. It gets the signature of the known write-probe defect only when the
// failure is one the map oracle can attribute to it (a second record, a record or lookup result for an absent id, an
// older value, a lost id, a refused removal / accepted duplicate add), the id is one of ours, a writer was sent to it (or
// to an id of the same call) while that id's record sat behind a hole, and the segment files still show the footprint
// (that id twice, or behind a hole); or it comes later in a case in which that already happened (stale copies outlive
// their footprint). Anything else keeps its own signature.
func (w *world) fail(i id, generic, what, detail string) {
	sig := generic
	eligible := false
	switch generic {
	case "C21/duplicate-record", "C21/absent-id-found", "C21/stale-value", "C21/layout-extra-record", "C21/op-result",
		"C21/lost-id", "C21/layout-missing-record":
		eligible = w.seen[i]
	}
	if eligible {
		// the id itself, and — when it was part of the last call — the ids that call carried with it (a batch resolves
		// every location before it writes: two ids sent to one hole overwrite each other)
		cands := []id{i}
		for _, t := range w.lastTouched {
			if t == i {
				cands = append(cands, w.lastTouched...)
				break
			}
		}
		for _, c := range cands {
			if w.tainted[c] && w.holeFootprint(w.lay, c) {
				w.contaminated = true
			}
		}
		if w.contaminated {
			sig = "C21/write-probe-stops-at-hole"
		}
	}
	if sig == generic && os.Getenv("C21_DEBUG") != "" {
		fmt.Fprintf(os.Stderr, "generic failure case %d: %s %s %s tainted=%v footprint=%v\n  layout %s\n", w.s.CaseNo, generic, what, detail, w.tainted[i], w.holeFootprint(w.lay, i), w.lay.String())
	}
	w.s.Fail(sig, what, detail)
}

// coldLookups: a cold Get (new registry object, fresh L2 cache) of every id used so far, as one op line.
func (w *world) coldLookups() map[id]sop.Handle {
	// cold lookups
	cr := w.cold()
	us := make([]sop.UUID, len(w.used))
	for k, i := range w.used {
		us[k] = i.uuid()
	}
	res, err := cr.Get(w.ctx, []sop.RegistryPayload[sop.UUID]{{RegistryTable: table, IDs: us}})
	cr.Close()
	line := "err"
	found := map[id]sop.Handle{}
	if err == nil && len(res) == 1 {
		parts := make([]string, 0, len(res[0].IDs))
		for _, h := range res[0].IDs {
			i := idOf(h.LogicalID)
			parts = append(parts, i.String()+"="+payload(h))
			if _, dup := found[i]; dup {
				w.s.Fail("C21/lookup-duplicate", "one lookup returned an id twice", i.String())
			}
			found[i] = h
		}
		line = strings.Join(parts, " ")
		if line == "" {
			line = "-"
		}
	} else {
		w.s.Fail("C21/lookup-error", "cold Get failed", fmt.Sprint(err))
	}
	w.s.Op("gets "+idsStr(w.used), line)
	w.s.HitN("cold_lookups", len(w.used))
	return found
}

// after: result check, cold lookups of every id used so far, raw layout — each an op line of its own.
func (w *world) after(name, got, want string, touched []id) {
	w.lastTouched = touched
	// state of the touched ids before this op's layout is read (for the histogram): was there a hole before them?
	for _, i := range touched {
		if w.holeFootprint(w.lay, i) {
			w.s.Hit(name + "_of_id_behind_a_hole")
			w.tainted[i] = true
		}
	}
	lay, err := w.decode(false)
	if err != nil {
		w.s.Fail("C21/raw-decode", "segment files do not decode", err.Error())
	}
	w.lay = lay
	if got != want {
		w.fail(touched[0], "C21/op-result", fmt.Sprintf("%s answered %s where a map answers %s", name, got, want), idsStr(touched))
	}

	found := w.coldLookups()
	for _, i := range w.used {
		exp, present := w.ref[i]
		h, ok := found[i]
		switch {
		case present && !ok:
			w.fail(i, "C21/lost-id", "a present id is not found by a cold lookup", i.String())
		case !present && ok:
			w.fail(i, "C21/absent-id-found", "a cold lookup finds an id that was removed or never written", i.String()+"="+payload(h))
		case present && ok && h != exp:
			w.fail(i, "C21/stale-value", "a cold lookup returns a handle other than the last one written", i.String()+"="+payload(h)+" want "+payload(exp))
		}
	}

	// raw layout
	w.s.Op("dump", lay.String())
	count := map[id]int{}
	for _, c := range lay.order {
		i := lay.cells[c]
		count[i]++
		if int(i.hi%uint64(w.md)) != c.blk {
			w.s.Fail("C21/misplaced-record", "a record sits in a block other than high % hashMod", fmt.Sprintf("%v %s", c, i))
		}
		if c.slot != int(i.lo%uint64(w.hp)) {
			w.displ = true
		}
	}
	for i, n := range count {
		if n > 1 {
			w.fail(i, "C21/duplicate-record", "the segment files hold two records of one id", i.String())
		}
		if _, ok := w.ref[i]; !ok {
			w.fail(i, "C21/layout-extra-record", "the segment files hold a record of an absent id", i.String())
		}
	}
	for i := range w.ref {
		if count[i] == 0 {
			w.fail(i, "C21/layout-missing-record", "the segment files hold no record of a present id", i.String())
		}
	}
	if lay.nseg >= 2 {
		w.ovf = true
	}
	if w.displ || w.ovf {
		w.s.Nontrivial()
	}
}

// ---- cases ----

type profile struct {
	name     string
	md       int
	blocks   int // number of hot blocks
	slots    int // number of hot ideal slots (0 = any)
	ops      int
	addBias  int // percent of ops that add fresh ids
	maxBatch int
}

func runCase(ctx context.Context, s *hx.Session, p *hx.Prng, pr profile, script func(w *world)) error {
	dir, err := os.MkdirTemp(hx.WorkRoot(), "c21-")
	if err != nil {
		return err
	}
	defer os.RemoveAll(dir)
	l2 := cache.NewL2InMemoryCache()
	rt, err := fs.NewReplicationTracker(ctx, []string{dir}, false, l2)
	if err != nil {
		return err
	}
	if err := os.MkdirAll(filepath.Join(dir, table), 0o755); err != nil {
		return err
	}
	reg := fs.NewRegistry(true, pr.md, rt, l2)
	defer reg.Close()
	w := &world{ctx: ctx, s: s, p: p, dir: dir, md: pr.md, hp: fs.VerifHandlesPerBlock(), bsz: fs.VerifBlockSize(), reg: reg,
		l2: l2, ref: map[id]sop.Handle{}, seen: map[id]bool{}, tainted: map[id]bool{}, lay: layout{cells: map[cellPos]id{}}}
	w.cold = func() fs.Registry { return fs.NewRegistry(false, pr.md, rt, cache.NewL2InMemoryCache()) }
	w.newReg = func(c sop.L2Cache) fs.Registry { return fs.NewRegistry(true, pr.md, rt, c) }
	s.BeginCase(fmt.Sprintf("md %d", pr.md))
	s.Hit("case_" + pr.name)
	s.Hit(fmt.Sprintf("hashmod_%d", pr.md))
	if script != nil {
		script(w)
	} else {
		w.random(pr)
	}
	// every block of every segment, once per case: nothing was written outside the blocks the ids map to
	if full, err := w.decode(true); err != nil {
		s.Fail("C21/raw-decode", "segment files do not decode", err.Error())
	} else if full.String() != w.lay.String() {
		s.Fail("C21/stray-write", "a block that no id maps to is not empty", full.String())
	}
	if w.displ {
		s.Hit("case_with_displaced_entry")
	}
	if w.ovf {
		s.Hit("case_with_segment_overflow")
	}
	if w.lay.nseg >= 3 {
		s.Hit("case_with_3_or_more_segments")
	}
	return nil
}

func (w *world) random(pr profile) {
	p := w.p
	hotB := make([]int, pr.blocks)
	for k := range hotB {
		hotB[k] = p.Intn(w.md)
	}
	if w.md > 1 && p.Chance(1, 3) {
		hotB[0] = w.md - 1
	}
	nslots := pr.slots
	if nslots == 0 {
		nslots = w.hp
	}
	hotS := make([]int, nslots)
	for k := range hotS {
		hotS[k] = p.Intn(w.hp)
	}
	if p.Chance(1, 4) {
		hotS[0] = w.hp - 1
	}
	if p.Chance(1, 4) {
		hotS[0] = 0
	}
	fresh := func() id { return w.freshID(hotB[p.Intn(len(hotB))], hotS[p.Intn(len(hotS))]) }
	batch := func() int {
		if pr.maxBatch <= 1 || p.Chance(2, 3) {
			return 1
		}
		return 1 + p.Intn(pr.maxBatch)
	}
	pick := func(from []id, n int) []id {
		if len(from) == 0 {
			return nil
		}
		out := []id{}
		seen := map[id]bool{}
		for k := 0; k < n; k++ {
			i := from[p.Intn(len(from))]
			if !seen[i] {
				seen[i] = true
				out = append(out, i)
			}
		}
		return out
	}
	for n := 0; n < pr.ops; n++ {
		present := w.presentIDs()
		var absentOld []id
		for _, i := range w.gone {
			if _, ok := w.ref[i]; !ok {
				absentOld = append(absentOld, i)
			}
		}
		r := p.Intn(100)
		switch {
		case r < pr.addBias || len(present) == 0:
			k := batch()
			hs := make([]sop.Handle, k)
			for j := range hs {
				hs[j] = w.handle(fresh())
			}
			w.opAdd(hs)
		case r < pr.addBias+4:
			// adding an id that is there: refused
			hs := []sop.Handle{w.handle(present[p.Intn(len(present))])}
			if p.Chance(1, 3) {
				hs = append([]sop.Handle{w.handle(fresh())}, hs...)
			}
			w.opAdd(hs)
		case r < pr.addBias+12 && len(absentOld) > 0:
			w.s.Hit("op_readd_removed_id")
			w.opAdd([]sop.Handle{w.handle(absentOld[p.Intn(len(absentOld))])})
		case r < pr.addBias+36:
			is := pick(present, batch())
			hs := make([]sop.Handle, len(is))
			for j, i := range is {
				hs[j] = w.handle(i)
			}
			w.opSet(hs, p.Chance(1, 2))
		case r < pr.addBias+40:
			// update of an absent id writes it (registryMap.set does not insist on presence); at most one per call
			var i id
			if len(absentOld) > 0 && p.Chance(1, 2) {
				i = absentOld[p.Intn(len(absentOld))]
			} else {
				i = fresh()
			}
			hs := []sop.Handle{w.handle(i)}
			if p.Chance(1, 3) {
				for _, j := range pick(present, 2) {
					hs = append(hs, w.handle(j))
				}
			}
			w.opSet(hs, p.Chance(1, 2))
		case r < 96:
			w.opRemove(pick(present, batch()))
		default:
			var is []id
			if len(absentOld) > 0 && p.Chance(1, 2) {
				is = []id{absentOld[p.Intn(len(absentOld))]}
			} else {
				is = []id{fresh()}
			}
			if p.Chance(1, 3) {
				is = append(pick(present, 1), is...)
			}
			w.opRemove(is)
		}
	}
}

// the witness of DESIGN.md §6 C21: add X, add Y (same block and ideal slot, displaced), remove X, update Y,
// remove Y; Y must be gone.
func witness(slot int, hiK uint64) func(w *world) {
	return func(w *world) {
		blk := int(hiK % uint64(w.md))
		x := w.freshID(blk, slot)
		y := w.freshID(blk, slot)
		w.opAdd([]sop.Handle{w.handle(x)})
		w.opAdd([]sop.Handle{w.handle(y)})
		w.opRemove([]id{x})
		w.opSet([]sop.Handle{w.handle(y)}, false)
		w.opRemove([]id{y})
		// and the slot is usable again
		w.opAdd([]sop.Handle{w.handle(y)})
		w.opRemove([]id{y})
	}
}

// exactly Sop.C21.witness (md 1, X = 0:5, Y = 0:71), followed by the lookup of Y that `after` issues anyway
func witnessExact(w *world) {
	x, y := id{0, 5}, id{0, 71}
	w.opAdd([]sop.Handle{w.handle(x)})
	w.opAdd([]sop.Handle{w.handle(y)})
	w.opRemove([]id{x})
	w.opSet([]sop.Handle{w.handle(y)}, true)
	w.opRemove([]id{y})
}

// fill one block beyond its 66 slots, punch holes, update and remove displaced entries, refill
func fullBlock(extra int) func(w *world) {
	return func(w *world) {
		p := w.p
		blk := p.Intn(w.md)
		var ids []id
		for k := 0; k < w.hp+extra; k++ {
			i := w.freshID(blk, p.Intn(w.hp))
			ids = append(ids, i)
			w.opAdd([]sop.Handle{w.handle(i)})
			if k == w.hp-1 {
				w.s.Hit("block_filled_to_66")
			}
		}
		for k := 0; k < 12; k++ {
			i := ids[p.Intn(len(ids))]
			if _, ok := w.ref[i]; ok {
				if p.Chance(1, 2) {
					w.opRemove([]id{i})
				} else {
					w.opSet([]sop.Handle{w.handle(i)}, p.Chance(1, 2))
				}
			} else {
				w.opAdd([]sop.Handle{w.handle(i)})
			}
		}
		for k := 0; k < 4; k++ {
			w.opAdd([]sop.Handle{w.handle(w.freshID(blk, p.Intn(w.hp)))})
		}
	}
}

func driveC21(o hx.RunOpts) error {
	s := hx.NewSession(o, "one case = one fresh registry table (hashMod 1, 2, 3 or 250) driven through registryOnDisk.Add / Update / UpdateNoLocks / Remove with ids built from "+
		"(block, ideal slot, serial) coordinates aimed at a few hot blocks and slots; after every call a cold Get (new registry object, fresh L2 cache) of every id used so far and a raw decode of the "+
		".reg files, each compared with the Lean model line by line and with a Go map (oracle). Multi-writer cases: after a short sequential prefix, two or three registry objects on the same "+
		"folder and lock cache each run one Add / UpdateNoLocks / Update / Remove, parked in front of every DualLock / Unlock / block ReadAt / block WriteAt and resumed one call at a time (one writer parked after "+
		"k calls while the others run whole, for every k; random schedules); every call is compared with the model, results and cold lookups must be linearizable to a map. distinct = hash of the op lines; "+
		"non-trivial = at least one record displaced from its ideal slot, a second segment file, or a multi-writer history")
	old := fs.VerifSetLockRetryTimeout(0)
	defer fs.VerifSetLockRetryTimeout(old)
	// the coordinates rely on the big-endian halves returned by UUID.Split
	if h, l := (id{3, 7}).uuid().Split(); h != 3 || l != 7 {
		return fmt.Errorf("uuid split layout changed")
	}
	p := hx.NewPrng(o.Seed)
	ctx := context.Background()

	// development aid: C21_PART=mw runs the multi-writer part alone
	if os.Getenv("C21_PART") == "mw" {
		if err := driveMW(ctx, s, p.Fork(), o); err != nil {
			return err
		}
		return s.Finish()
	}

	// directed corpus first
	if err := runCase(ctx, s, p.Fork(), profile{name: "witness", md: 1}, witnessExact); err != nil {
		return err
	}
	for _, md := range []int{1, 2, 3, 250} {
		for _, slot := range []int{5, 0, 65} {
			if err := runCase(ctx, s, p.Fork(), profile{name: "witness", md: md}, witness(slot, uint64(md-1))); err != nil {
				return err
			}
		}
	}
	for _, md := range []int{1, 3} {
		if err := runCase(ctx, s, p.Fork(), profile{name: "fullblock", md: md}, fullBlock(3)); err != nil {
			return err
		}
	}

	// several writers on one folder and one lock cache
	if err := driveMW(ctx, s, p.Fork(), o); err != nil {
		return err
	}

	mods := []int{1, 2, 3, 250}
	n := o.N(400, 3000)
	for k := 0; k < n; k++ {
		q := p.Fork()
		md := mods[q.Intn(len(mods))]
		if md == 250 && q.Chance(1, 2) {
			md = mods[q.Intn(3)]
		}
		pr := profile{name: "collide", md: md, blocks: 1 + q.Intn(2), slots: 1 + q.Intn(3), ops: 20 + q.Intn(30), addBias: 30 + q.Intn(15), maxBatch: 3}
		switch q.Intn(10) {
		case 0:
			pr.name, pr.slots, pr.blocks = "spread", 0, 3
		case 1:
			pr.name, pr.ops, pr.maxBatch = "churn", 60, 1
			pr.addBias = 25
		}
		if err := runCase(ctx, s, q, pr, nil); err != nil {
			return err
		}
	}
	// full blocks and deep overflow
	n = o.N(6, 40)
	for k := 0; k < n; k++ {
		q := p.Fork()
		md := mods[q.Intn(3)]
		extra := 2 + q.Intn(8)
		if k%3 == 2 {
			extra = 66 + q.Intn(10) // third segment
			md = 1 + q.Intn(2)
		}
		if err := runCase(ctx, s, q, profile{name: "fullblock", md: md}, fullBlock(extra)); err != nil {
			return err
		}
	}
	s.Rep.CoverageGap = append(s.Rep.CoverageGap,
		"the 1000-segment limit of findOneFileRegion is modelled (Out.full) but never reached by a generated case",
		"several writers: single-handle calls only; interleavings at the granularity of lock-cache and block IO calls (a block write is atomic, no crash: C22); inside setupNewFile the window between Open(O_CREATE) and Truncate (no call to park at) and lock expiry (5 min TTL) are not exercised; all writers share one replication tracker without a transaction id",
		"ids are never the nil UUID; update batches contain at most one absent id (two absent ids of one block in one UpdateNoLocks call are located before either is written)")
	return s.Finish()
}
