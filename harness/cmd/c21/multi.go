// C21, several writers. Two or three registry objects (fs.NewRegistry: one hashmap, one set of open segment files
// each — what two transactions of one process, or two processes, have) share ONE L2 lock cache and ONE registry
// folder. Every call a writer makes on the lock cache (DualLock / Unlock of a slot key, a block-region key or an id
// key) and on a segment file (DirectIO ReadAt / WriteAt of one block) goes through a gate: the writer is parked in
// front of the call until the controller resumes it, so a history is a deterministic interleaving at the
// granularity lock / read block / write block / unlock. The Lean model (Sop.RegistryMW) makes the same step on
// every resume and must print the same call with the same outcome.
//
// Oracle: the writers' results and the cold lookups after the history are those of a map for SOME order of the
// calls that respects real time (call x before call y when x returned before y started); the raw segment files
// hold exactly one record per present id; a writer that is alone is never refused a lock. A failure gets the
// signature of the first harmful event of the history: a block written back that is not the block on disk plus the
// writer's own slot (the read-modify-write was not atomic), or a slot that changed between the writer's unlocked
// search and its locked write.
package main

import (
	"bytes"
	"context"
	"fmt"
	"os"
	"path/filepath"
	"sort"
	"strconv"
	"strings"
	"time"

	"github.com/sharedcode/sop"
	"github.com/sharedcode/sop/fs"

	"verifharness/hx"
)

type actorKeyT struct{}

var actorKey actorKeyT

type mwOp struct {
	kind string // add | set | upd | rm
	i    id
	h    sop.Handle
}

type readRec struct {
	file string
	off  int64
	data []byte
}

type createRec struct {
	file    string
	existed bool
	before  []byte
}

type gevent struct {
	idx  int
	ev   string
	done bool
}

type mechEv struct {
	sig    string
	what   string
	detail string
}

type actor struct {
	idx      int
	op       mwOp
	g        *gate
	resume   chan struct{}
	pending  string
	done     bool
	res      string
	gaveUp   bool
	reads    []readRec
	start    int
	end      int
	wrote    bool
	rdStreak int // block reads since the last lock call (an add that finds its id keeps searching)
	lastEv   string
	lastLock string
	created  *createRec
}

type gate struct {
	w      *world
	events chan gevent
	actors []*actor
	clock  int
	mech   []mechEv
	dead   bool
}

func actorOf(ctx context.Context) *actor {
	a, _ := ctx.Value(actorKey).(*actor)
	return a
}

func (a *actor) park() {
	a.g.events <- gevent{a.idx, a.pending, false}
	<-a.resume
}

// ---- lock cache seam ----

type gatedL2 struct {
	sop.L2Cache
	g *gate
}

// canonKey names a lock key by coordinates: S<block>.<slot> (findAndAdd: table + offset), B<seg>.<block>.<slot>
// (lockFileBlockRegion: segment file + offset), I<id> (Update), P<seg> (setupNewFile: preallocation of a segment file).
// "" = not one of these (never parked).
func (g *gate) canonKey(k string) string {
	w := g.w
	for strings.HasPrefix(k, "lock:") {
		k = k[5:]
	}
	if strings.HasPrefix(k, "infs_reg") {
		// setupNewFile: preallocateFileLockKey + full path of the segment file
		b := filepath.Base(k)
		if strings.HasPrefix(b, table+"-") && strings.HasSuffix(b, ".reg") {
			if seg, err := strconv.Atoi(b[len(table)+1 : len(b)-4]); err == nil {
				return fmt.Sprintf("P%d", seg-1)
			}
		}
		return ""
	}
	pre := "infs" + w.dir + string(os.PathSeparator)
	if strings.HasPrefix(k, pre) {
		rest := k[len(pre):]
		if strings.HasPrefix(rest, table+"-") {
			rest = rest[len(table)+1:]
			p := strings.Index(rest, ".reg")
			if p < 0 {
				return ""
			}
			seg, err1 := strconv.Atoi(rest[:p])
			n, err2 := strconv.Atoi(rest[p+4:])
			if err1 != nil || err2 != nil {
				return ""
			}
			return fmt.Sprintf("B%d.%d.%d", seg-1, n/w.bsz, n%w.bsz/sop.HandleSizeInBytes)
		}
		if strings.HasPrefix(rest, table) {
			n, err := strconv.Atoi(rest[len(table):])
			if err != nil {
				return ""
			}
			return fmt.Sprintf("S%d.%d", n/w.bsz, n%w.bsz/sop.HandleSizeInBytes)
		}
		return ""
	}
	if u, err := sop.ParseUUID(k); err == nil {
		return "I" + idOf(u).String()
	}
	return ""
}

func (c *gatedL2) DualLock(ctx context.Context, d time.Duration, keys []*sop.LockKey) (bool, sop.UUID, error) {
	a := actorOf(ctx)
	ck := ""
	if a != nil && len(keys) == 1 {
		ck = c.g.canonKey(keys[0].Key)
	}
	if ck == "" {
		return c.L2Cache.DualLock(ctx, d, keys)
	}
	a.park()
	ok, owner, err := c.L2Cache.DualLock(ctx, d, keys)
	a.rdStreak = 0
	if ok && err == nil {
		a.pending = "lk+ " + ck
		a.lastLock = a.pending
	} else {
		a.pending = "lk- " + ck
	}
	return ok, owner, err
}

func (c *gatedL2) Unlock(ctx context.Context, keys []*sop.LockKey) error {
	a := actorOf(ctx)
	ck := ""
	if a != nil && len(keys) == 1 {
		ck = c.g.canonKey(keys[0].Key)
	}
	if ck == "" {
		return c.L2Cache.Unlock(ctx, keys)
	}
	a.park()
	if strings.HasPrefix(ck, "P") && a.created != nil {
		c.g.judgeCreate(a)
	}
	err := c.L2Cache.Unlock(ctx, keys)
	a.pending = "ul " + ck
	return err
}

// ---- segment file seam (fs.DirectIOSim) ----

type ioHook struct{ real fs.DirectIO }

// An open that may create the file (setupNewFile) is a call of its own: the writer decided "missing" earlier, without
// a lock. What the file held before is kept, to be compared with what it holds when the preallocation lock is released.
func (h *ioHook) Open(ctx context.Context, filename string, flag int, permission os.FileMode) (*os.File, error) {
	a := actorOf(ctx)
	if a == nil || flag&os.O_CREATE == 0 {
		return h.real.Open(ctx, filename, flag, permission)
	}
	a.park()
	before, err := os.ReadFile(filename)
	a.created = &createRec{file: filename, existed: err == nil, before: before}
	f, err := h.real.Open(ctx, filename, flag, permission)
	a.pending = fmt.Sprintf("mk %d", segOfFile(filename))
	return f, err
}

// judgeCreate: a creator that found the file already there (another writer made it since the unlocked existence check)
// must leave its content alone.
func (g *gate) judgeCreate(a *actor) {
	c := a.created
	a.created = nil
	if !c.existed || len(c.before) == 0 {
		return
	}
	now, err := os.ReadFile(c.file)
	if err == nil && bytes.Equal(now, c.before) {
		return
	}
	lost := 0
	for off := 0; off+g.w.bsz <= len(c.before); off += g.w.bsz {
		blk := c.before[off : off+g.w.bsz]
		for s := 0; s < g.w.hp; s++ {
			rec := blk[s*sop.HandleSizeInBytes : (s+1)*sop.HandleSizeInBytes]
			if !bytes.Equal(rec, make([]byte, sop.HandleSizeInBytes)) && (off+(s+1)*sop.HandleSizeInBytes > len(now) || !bytes.Equal(rec, now[off+s*sop.HandleSizeInBytes:off+(s+1)*sop.HandleSizeInBytes])) {
				lost++
			}
		}
	}
	g.mech = append(g.mech, mechEv{"C21/segment-file-content-destroyed-by-second-creator",
		"a writer that decided (without a lock) that a segment file is missing creates it after another writer did, and destroys what was written to it in between",
		fmt.Sprintf("writer %d (%s %s) segment file %d: %d records gone", a.idx, a.op.kind, a.op.i, segOfFile(c.file), lost)})
}
func (h *ioHook) Close(file *os.File) error { return h.real.Close(file) }

func segOfFile(name string) int {
	b := filepath.Base(name)
	b = strings.TrimSuffix(strings.TrimPrefix(b, table+"-"), ".reg")
	n, _ := strconv.Atoi(b)
	return n - 1
}

func (h *ioHook) ReadAt(ctx context.Context, file *os.File, block []byte, offset int64) (int, error) {
	a := actorOf(ctx)
	if a == nil {
		return h.real.ReadAt(ctx, file, block, offset)
	}
	a.park()
	n, err := h.real.ReadAt(ctx, file, block, offset)
	a.reads = append(a.reads, readRec{file.Name(), offset, append([]byte(nil), block...)})
	a.rdStreak++
	a.pending = fmt.Sprintf("rd %d.%d", segOfFile(file.Name()), offset/int64(a.g.w.bsz))
	return n, err
}

func slotsThatDiffer(x, y []byte, hp int) []int {
	var out []int
	for s := 0; s < hp; s++ {
		if !bytes.Equal(x[s*sop.HandleSizeInBytes:(s+1)*sop.HandleSizeInBytes], y[s*sop.HandleSizeInBytes:(s+1)*sop.HandleSizeInBytes]) {
			out = append(out, s)
		}
	}
	return out
}

func (h *ioHook) WriteAt(ctx context.Context, file *os.File, block []byte, offset int64) (int, error) {
	a := actorOf(ctx)
	if a == nil {
		return h.real.WriteAt(ctx, file, block, offset)
	}
	a.park()
	a.g.judgeWrite(a, file.Name(), offset, block)
	n, err := h.real.WriteAt(ctx, file, block, offset)
	a.wrote = true
	a.pending = fmt.Sprintf("wr %d.%d", segOfFile(file.Name()), offset/int64(a.g.w.bsz))
	return n, err
}

// judgeWrite looks at a block write just before it happens: is the block on disk still the one the writer read
// (under its lock), and was the slot it changes still what its unlocked search saw?
func (g *gate) judgeWrite(a *actor, name string, off int64, block []byte) {
	w := g.w
	cur := make([]byte, w.bsz)
	f, err := os.Open(name)
	if err != nil {
		return
	}
	_, err = f.ReadAt(cur, off)
	f.Close()
	if err != nil {
		return
	}
	var lr, pr *readRec
	for k := len(a.reads) - 1; k >= 0; k-- {
		r := &a.reads[k]
		if r.file == name && r.off == off {
			if lr == nil {
				lr = r
			} else {
				pr = r
				break
			}
		}
	}
	where := fmt.Sprintf("writer %d (%s %s) block %d.%d", a.idx, a.op.kind, a.op.i, segOfFile(name), off/int64(w.bsz))
	if lr == nil {
		g.mech = append(g.mech, mechEv{"C21/block-written-without-read", "a block is written that the writer never read", where})
		return
	}
	if ch := slotsThatDiffer(cur, lr.data, w.hp); len(ch) > 0 {
		g.mech = append(g.mech, mechEv{"C21/stale-block-written-back",
			"a writer writes back a block that changed on disk between its read and its write (the read-modify-write is not atomic): the other writer's slot is reverted",
			fmt.Sprintf("%s: slots changed on disk since its read %v, slots it changes itself %v", where, ch, slotsThatDiffer(lr.data, block, w.hp))})
	}
	mine := slotsThatDiffer(lr.data, block, w.hp)
	searchSig := map[string]string{"add": "C21/add-overwrites-slot-filled-after-its-search", "set": "C21/update-writes-slot-changed-after-its-search",
		"upd": "C21/update-writes-slot-changed-after-its-search", "rm": "C21/remove-zeroes-slot-changed-after-its-search"}[a.op.kind]
	const searchWhat = "the slot a writer settled on in its unlocked search (findOneFileRegion) holds something else by the time it has the block lock; it is written without a second look"
	zero := make([]byte, w.bsz)
	seenAtSearch := zero
	if pr != nil {
		seenAtSearch = pr.data
	}
	if len(mine) == 0 {
		// the write changes nothing (a removal of a slot that is already zero, an update with the bytes that are there):
		// the slot it meant is one of those that changed since its search
		if ch := slotsThatDiffer(seenAtSearch, lr.data, w.hp); len(ch) > 0 {
			g.mech = append(g.mech, mechEv{searchSig, searchWhat, fmt.Sprintf("%s: its write changes nothing; slots changed since its search %v", where, ch)})
		}
		return
	}
	for _, s := range mine {
		x := seenAtSearch[s*sop.HandleSizeInBytes : (s+1)*sop.HandleSizeInBytes]
		now := lr.data[s*sop.HandleSizeInBytes : (s+1)*sop.HandleSizeInBytes]
		if !bytes.Equal(x, now) {
			g.mech = append(g.mech, mechEv{searchSig, searchWhat, fmt.Sprintf("%s slot %d", where, s)})
		}
	}
}

// ---- controller ----

func waitLimit() time.Duration {
	if os.Getenv("C21_DEBUG") != "" {
		return 3 * time.Second
	}
	return 60 * time.Second
}

func (g *gate) wait(idx int) (gevent, bool) {
	select {
	case ev := <-g.events:
		if ev.idx != idx {
			g.w.s.Fail("C21/harness-event-order", "event from another writer", fmt.Sprintf("%d while stepping %d", ev.idx, idx))
		}
		return ev, true
	case <-time.After(waitLimit()):
		g.dead = true
		g.w.s.Fail("C21/writer-hangs", "a writer does not reach its next lock or file call within 60 s", fmt.Sprintf("writer %d", idx))
		return gevent{}, false
	}
}

func (g *gate) spawn(op mwOp) *actor {
	w := g.w
	a := &actor{idx: len(g.actors), op: op, g: g, resume: make(chan struct{}), pending: "start", start: g.clock}
	g.actors = append(g.actors, a)
	g.clock++
	w.note(op.i)
	reg := w.newReg(&gatedL2{w.l2, g})
	go func() {
		ctx := context.WithValue(w.ctx, actorKey, a)
		var err error
		switch op.kind {
		case "add":
			err = reg.Add(ctx, []sop.RegistryPayload[sop.Handle]{{RegistryTable: table, IDs: []sop.Handle{op.h}}})
		case "set":
			err = reg.UpdateNoLocks(ctx, false, []sop.RegistryPayload[sop.Handle]{{RegistryTable: table, IDs: []sop.Handle{op.h}}})
		case "upd":
			err = reg.Update(ctx, []sop.RegistryPayload[sop.Handle]{{RegistryTable: table, IDs: []sop.Handle{op.h}}})
		case "rm":
			err = reg.Remove(ctx, []sop.RegistryPayload[sop.UUID]{{RegistryTable: table, IDs: []sop.UUID{op.i.uuid()}}})
		}
		reg.Close()
		g.events <- gevent{a.idx, a.pending + " => " + errClass(err), true}
	}()
	line := "spawn " + op.kind + " " + op.i.String()
	if op.kind != "rm" {
		line += " " + payload(op.h)
	}
	ev, ok := g.wait(a.idx)
	if !ok {
		return a
	}
	g.finishStep(a, ev)
	w.s.Op(line, ev.ev)
	w.s.Hit("mw_spawn_" + op.kind)
	return a
}

func (g *gate) finishStep(a *actor, ev gevent) {
	a.lastEv = ev.ev
	if ev.done {
		a.done = true
		a.end = g.clock
		a.res = ev.ev[strings.LastIndex(ev.ev, "=> ")+3:]
	}
	g.clock++
}

// step resumes writer a for one call. giveup: its lock-retry time has lapsed when it looks at the clock.
func (g *gate) step(a *actor, giveup bool) string {
	if a.done || g.dead {
		return ""
	}
	name := "step"
	var old time.Duration
	if giveup {
		name = "giveup"
		a.gaveUp = true
		old = fs.VerifSetLockRetryTimeout(0)
	}
	a.resume <- struct{}{}
	ev, ok := g.wait(a.idx)
	if giveup {
		fs.VerifSetLockRetryTimeout(old)
	}
	if !ok {
		return ""
	}
	g.finishStep(a, ev)
	g.w.s.Op(fmt.Sprintf("%s %d", name, a.idx), ev.ev)
	if os.Getenv("C21_DEBUG") == "2" {
		fmt.Fprintf(os.Stderr, "  %s %d: %s\n", name, a.idx, ev.ev)
	}
	word := strings.SplitN(ev.ev, " ", 2)[0]
	g.w.s.Hit("mw_event_" + word)
	if word == "lk-" {
		g.w.s.Hit("mw_lock_refused_" + ev.ev[4:5])
		others := 0
		for _, b := range g.actors {
			if b != a && !b.done {
				others++
			}
		}
		if others == 0 {
			g.w.s.Fail("C21/lock-left-behind", "a writer that is alone is refused a lock: another writer returned without releasing it", fmt.Sprintf("writer %d: %s", a.idx, ev.ev))
		}
	}
	return ev.ev
}

func (g *gate) live() []*actor {
	var out []*actor
	for _, a := range g.actors {
		if !a.done {
			out = append(out, a)
		}
	}
	return out
}

// spinning: an add that has read more blocks than there are segment files since its last lock call found its id
// and searches again (until its retry time lapses)
func (g *gate) spinning(a *actor) bool {
	return a.op.kind == "add" && a.rdStreak > g.w.lay.nseg+2
}

// runUntilBlocked steps a until it is done or refused a lock. Returns true when done.
func (g *gate) runUntilBlocked(a *actor) bool {
	for n := 0; !a.done && !g.dead && n < 400; n++ {
		ev := g.step(a, g.spinning(a))
		if strings.HasPrefix(ev, "lk-") && !a.done {
			return false
		}
	}
	return a.done
}

// drain runs every live writer to its end, round-robin; a writer refused a lock waits for the others.
func (g *gate) drain() {
	for round := 0; round < 2000 && !g.dead; round++ {
		lv := g.live()
		if len(lv) == 0 {
			return
		}
		progressed := false
		for _, a := range lv {
			before := g.clock
			if g.runUntilBlocked(a) {
				progressed = true
			}
			if g.clock-before > 1 {
				progressed = true
			}
		}
		if !progressed && len(lv) == len(g.live()) {
			// everybody is refused by somebody: let the first give up
			g.w.s.Hit("mw_all_refused_giveup")
			g.step(lv[0], true)
		}
	}
	if len(g.live()) > 0 && !g.dead {
		g.w.s.Fail("C21/writer-never-completes", "a writer is still not done after 2000 rounds", fmt.Sprintf("%d live", len(g.live())))
		g.dead = true
	}
}

// ---- the oracle after a history ----

func (w *world) specApply(m map[id]sop.Handle, a *actor) (string, bool) {
	_, present := m[a.op.i]
	switch a.op.kind {
	case "add":
		if present {
			return "err", false
		}
		m[a.op.i] = a.op.h
		return "ok", true
	case "set", "upd":
		m[a.op.i] = a.op.h
		return "ok", true
	default:
		if !present {
			return "err", false
		}
		delete(m, a.op.i)
		return "ok", true
	}
}

// linearize looks for an order of the calls, respecting real time, in which a map gives every call's result and
// ends in `found`. A call that answered err after its retry time was made to lapse, and an Update refused its id
// lock, may also be a call without effect.
func (w *world) linearize(acts []*actor, found map[id]sop.Handle) (map[id]sop.Handle, bool) {
	n := len(acts)
	perm := make([]int, 0, n)
	used := make([]bool, n)
	var result map[id]sop.Handle
	var rec func(m map[id]sop.Handle) bool
	same := func(m map[id]sop.Handle) bool {
		for _, i := range w.used {
			a, oka := m[i]
			b, okb := found[i]
			if oka != okb || (oka && a != b) {
				return false
			}
		}
		return true
	}
	rec = func(m map[id]sop.Handle) bool {
		if len(perm) == n {
			if same(m) {
				result = m
				return true
			}
			return false
		}
		for k := 0; k < n; k++ {
			if used[k] {
				continue
			}
			// every call that returned before k started must already be placed
			okPrec := true
			for j := 0; j < n; j++ {
				if j != k && !used[j] && acts[j].end < acts[k].start {
					okPrec = false
				}
			}
			if !okPrec {
				continue
			}
			a := acts[k]
			var branches []bool // true = takes effect per the map; false = no effect
			if a.res == "ok" {
				branches = []bool{true}
			} else if a.res == "err:busy" {
				branches = []bool{false} // refused the preallocation lock: nothing done
			} else if a.gaveUp || a.op.kind == "upd" {
				branches = []bool{true, false}
			} else {
				branches = []bool{true}
			}
			for _, eff := range branches {
				m2 := make(map[id]sop.Handle, len(m)+1)
				for x, y := range m {
					m2[x] = y
				}
				if eff {
					r, _ := w.specApply(m2, a)
					if r != a.res {
						continue
					}
				}
				used[k] = true
				perm = append(perm, k)
				if rec(m2) {
					return true
				}
				perm = perm[:len(perm)-1]
				used[k] = false
			}
		}
		return false
	}
	if rec(w.ref) {
		return result, true
	}
	return nil, false
}

// judge: cold lookups and raw layout after the history (two op lines), then the oracle.
func (g *gate) judge() {
	w := g.w
	lay, err := w.decode(false)
	if err != nil {
		w.s.Fail("C21/raw-decode", "segment files do not decode", err.Error())
	}
	w.lay = lay
	found := w.coldLookups()
	w.s.Op("dump", lay.String())
	sig := func(generic string) (string, string) {
		// a block written back stale is never expected: it names the failure even when a stale search came first
		for _, m := range g.mech {
			if m.sig == "C21/stale-block-written-back" || m.sig == "C21/segment-file-content-destroyed-by-second-creator" {
				return m.sig, m.what + " [" + m.detail + "] "
			}
		}
		if len(g.mech) > 0 {
			return g.mech[0].sig, g.mech[0].what + " [" + g.mech[0].detail + "] "
		}
		return generic, ""
	}
	var hist []string
	for _, a := range g.actors {
		hist = append(hist, fmt.Sprintf("w%d:%s %s -> %s [%d,%d]", a.idx, a.op.kind, a.op.i, a.res, a.start, a.end))
	}
	final, ok := w.linearize(g.actors, found)
	if !ok {
		s, what := sig("C21/not-linearizable")
		var fs []string
		for _, i := range w.used {
			if h, ok := found[i]; ok {
				fs = append(fs, i.String()+"="+payload(h))
			}
		}
		w.s.Fail(s, what+"results and cold lookups after the history are those of no order of the calls on a map", strings.Join(hist, "; ")+" | found: "+strings.Join(fs, " "))
		final = found
	}
	w.ref = final
	count := map[id]int{}
	for _, c := range lay.order {
		i := lay.cells[c]
		count[i]++
		if int(i.hi%uint64(w.md)) != c.blk {
			w.s.Fail("C21/misplaced-record", "a record sits in a block other than high % hashMod", fmt.Sprintf("%v %s", c, i))
		}
		if c.slot != int(i.lo%uint64(w.hp)) {
			w.displ = true
		}
	}
	var keys []id
	for i := range count {
		keys = append(keys, i)
	}
	sort.Slice(keys, func(x, y int) bool { return keys[x].String() < keys[y].String() })
	for _, i := range keys {
		if count[i] > 1 {
			s, what := sig("C21/duplicate-record")
			w.s.Fail(s, what+"the segment files hold two records of one id", i.String()+" | "+strings.Join(hist, "; "))
		}
		if _, ok := w.ref[i]; !ok {
			s, what := sig("C21/layout-extra-record")
			w.s.Fail(s, what+"the segment files hold a record of an absent id", i.String()+" | "+strings.Join(hist, "; "))
		}
	}
	for i := range w.ref {
		if count[i] == 0 {
			s, what := sig("C21/layout-missing-record")
			w.s.Fail(s, what+"the segment files hold no record of a present id", i.String()+" | "+strings.Join(hist, "; "))
		}
	}
	for _, m := range g.mech {
		w.s.Hit("mw_seen:" + m.sig)
	}
	w.s.Nontrivial()
}

// concurrent runs one history: spawn the calls, let `sched` drive them, run everybody to the end, judge.
func (w *world) concurrent(ops []mwOp, sched func(g *gate)) *gate {
	g := &gate{w: w, events: make(chan gevent, 8)}
	old := fs.VerifSetLockRetryTimeout(3 * time.Minute)
	defer fs.VerifSetLockRetryTimeout(old)
	for _, op := range ops {
		g.spawn(op)
	}
	if sched != nil && !g.dead {
		sched(g)
	}
	g.drain()
	if !g.dead {
		g.judge()
	}
	return g
}

// ---- scenarios ----

// target classes of a writer's id, relative to one hot block that the case prepared
const (
	tPresent   = iota // an id that is in the registry (its own slot)
	tFreshFree        // a new id whose ideal slot is empty
	tFreshBusy        // a new id whose ideal slot is taken: goes to the first empty slot of the block
	tAbsent           // an id that was removed
	tOther            // a new id of another block
)

type mwPlan struct {
	kinds   []string
	targets []int
	sameID  bool // writer 1 (and 2) use writer 0's id
	sameIdl bool // fresh ids share the ideal slot
	full    bool // the hot block of the first segment file is (nearly) full
	newSeg  int  // 1: no segment file yet; 2: the hot block of the only segment file is exactly full (new ids open file 2)
}

// prepare fills the hot block: a few present ids (some displaced), one removed id (a hole early in the block).
type prepared struct {
	blk     int
	present []id
	absent  []id
	busy    []int // ideal slots that are taken
	free    []int // ideal slots that are empty (and the ids using them as ideal are absent)
}

func (w *world) prepare(p *hx.Prng, n int) *prepared {
	pr := &prepared{blk: p.Intn(w.md)}
	slots := p.Intn(w.hp - 12)
	// ids at ideal slots slots+2 .. ; one of them with a twin that is displaced to the first hole
	for k := 0; k < n; k++ {
		i := w.freshID(pr.blk, slots+2+k)
		w.opAdd([]sop.Handle{w.handle(i)})
		pr.present = append(pr.present, i)
		pr.busy = append(pr.busy, slots+2+k)
	}
	if p.Chance(1, 2) {
		tw := w.freshID(pr.blk, slots+2)
		w.opAdd([]sop.Handle{w.handle(tw)})
		pr.present = append(pr.present, tw)
		pr.busy = append(pr.busy, 0)
		w.s.Hit("mw_prefix_displaced_twin")
	}
	if p.Chance(1, 2) {
		gone := w.freshID(pr.blk, slots+2+n)
		w.opAdd([]sop.Handle{w.handle(gone)})
		w.opRemove([]id{gone})
		pr.absent = append(pr.absent, gone)
		w.s.Hit("mw_prefix_removed_id")
	}
	for k := 0; k < 6; k++ {
		pr.free = append(pr.free, slots+2+n+1+k)
	}
	return pr
}

// prepareFull fills the hot block of segment 0 up to its last r slots (r = 0: the next new id opens a second segment
// file), so that searches run over one or two segment files and holes are scarce.
func (w *world) prepareFull(p *hx.Prng) *prepared {
	pr := &prepared{blk: p.Intn(w.md)}
	r := p.Intn(3)
	for k := 0; k < w.hp-r; k++ {
		i := w.freshID(pr.blk, p.Intn(w.hp))
		w.opAdd([]sop.Handle{w.handle(i)})
		pr.present = append(pr.present, i)
		pr.busy = append(pr.busy, int(i.lo%uint64(w.hp)))
	}
	if p.Chance(1, 2) {
		// one id already lives in the second segment file
		i := w.freshID(pr.blk, p.Intn(w.hp))
		for k := 0; k < r+1; k++ {
			i = w.freshID(pr.blk, p.Intn(w.hp))
			w.opAdd([]sop.Handle{w.handle(i)})
			pr.present = append(pr.present, i)
		}
		pr.busy = append(pr.busy, int(i.lo%uint64(w.hp)))
	}
	if p.Chance(1, 2) {
		gone := pr.present[p.Intn(len(pr.present))]
		w.opRemove([]id{gone})
		pr.absent = append(pr.absent, gone)
		var keep []id
		for _, x := range pr.present {
			if x != gone {
				keep = append(keep, x)
			}
		}
		pr.present = keep
	}
	pr.free = pr.busy // no ideal slot is known to be empty
	w.s.Hit("mw_prefix_full_block")
	return pr
}

// prepareNewSeg: nothing at all (the first segment file is missing), or the hot block of segment file 1 exactly full
// (every new id of that block needs segment file 2, which is missing). The new ids get ideal slots of their own.
func (w *world) prepareNewSeg(p *hx.Prng, overflow bool) *prepared {
	pr := &prepared{blk: p.Intn(w.md)}
	if overflow {
		for k := 0; k < w.hp; k++ {
			i := w.freshID(pr.blk, p.Intn(w.hp))
			w.opAdd([]sop.Handle{w.handle(i)})
			pr.present = append(pr.present, i)
		}
		w.s.Hit("mw_prefix_exactly_full_block")
	} else {
		w.s.Hit("mw_prefix_no_segment_file")
	}
	first := p.Intn(w.hp)
	for k := 0; k < 6; k++ {
		pr.free = append(pr.free, (first+7*k)%w.hp)
	}
	pr.busy = pr.free
	return pr
}

func (w *world) pickOp(p *hx.Prng, pr *prepared, kind string, target int, freeIdx *int) mwOp {
	var i id
	switch target {
	case tPresent:
		if len(pr.present) == 0 {
			i = w.freshID(pr.blk, pr.free[*freeIdx%len(pr.free)])
			*freeIdx++
		} else {
			i = pr.present[p.Intn(len(pr.present))]
		}
	case tFreshFree:
		i = w.freshID(pr.blk, pr.free[*freeIdx%len(pr.free)])
		*freeIdx++
	case tFreshBusy:
		i = w.freshID(pr.blk, pr.busy[p.Intn(len(pr.busy))])
	case tAbsent:
		if len(pr.absent) > 0 {
			i = pr.absent[0]
		} else {
			i = w.freshID(pr.blk, pr.free[*freeIdx%len(pr.free)])
			*freeIdx++
		}
	default:
		i = w.freshID((pr.blk+1)%w.md, p.Intn(w.hp))
	}
	return mwOp{kind: kind, i: i, h: w.handle(i)}
}

func (w *world) planOps(p *hx.Prng, pr *prepared, pl mwPlan) []mwOp {
	var ops []mwOp
	freeIdx := 0
	for k, kind := range pl.kinds {
		op := w.pickOp(p, pr, kind, pl.targets[k], &freeIdx)
		if k > 0 && pl.sameID {
			op = mwOp{kind: kind, i: ops[0].i, h: w.handle(ops[0].i)}
		} else if k > 0 && pl.sameIdl && (pl.targets[k] == tFreshFree || pl.targets[k] == tFreshBusy) {
			i := w.freshID(int(ops[0].i.hi%uint64(w.md)), int(ops[0].i.lo%uint64(w.hp)))
			op = mwOp{kind: kind, i: i, h: w.handle(i)}
		}
		ops = append(ops, op)
	}
	return ops
}

// parkAt: writer `who` makes k calls and is parked; every other writer runs (in index order) until it is done or
// refused; then everybody is run to the end.
func parkAt(who, k int, reached *bool) func(g *gate) {
	return func(g *gate) {
		a := g.actors[who]
		n := 0
		for ; n < k && !a.done && !g.dead; n++ {
			g.step(a, false)
		}
		*reached = n == k && !a.done
		for _, b := range g.actors {
			if b != a {
				g.runUntilBlocked(b)
			}
		}
	}
}

func randomSched(p *hx.Prng) func(g *gate) {
	return func(g *gate) {
		var last *actor
		refused := map[*actor]int{}
		for n := 0; n < 150 && !g.dead; n++ {
			lv := g.live()
			if len(lv) == 0 {
				return
			}
			a := lv[p.Intn(len(lv))]
			if a == last && strings.HasPrefix(a.lastEv, "lk-") && len(lv) > 1 {
				// a writer that was just refused sleeps; somebody else moves
				for a == last {
					a = lv[p.Intn(len(lv))]
				}
			}
			giveup := g.spinning(a) || (refused[a] >= 3 && p.Chance(1, 3))
			ev := g.step(a, giveup)
			if strings.HasPrefix(ev, "lk-") {
				refused[a]++
			}
			last = a
		}
	}
}

var kinds4 = []string{"add", "set", "upd", "rm"}

func defaultTarget(kind string, p *hx.Prng) int {
	switch kind {
	case "add":
		if p.Chance(1, 2) {
			return tFreshBusy
		}
		return tFreshFree
	case "rm":
		if p.Chance(1, 8) {
			return tAbsent
		}
		return tPresent
	default:
		if p.Chance(1, 6) {
			return tAbsent
		}
		return tPresent
	}
}

func (pl mwPlan) name() string {
	n := strings.Join(pl.kinds, "_")
	switch {
	case pl.sameID:
		n += ":same_id"
	case pl.sameIdl:
		n += ":same_ideal_slot"
	case pl.full:
		n += ":full_block"
	case pl.newSeg == 1:
		n += ":first_segment"
	case pl.newSeg == 2:
		n += ":overflow_segment"
	default:
		rel := "same_block"
		for _, t := range pl.targets {
			if t == tOther {
				rel = "other_block"
			}
		}
		n += ":" + rel
	}
	return n
}

// runMW runs one multi-writer case: prefix, history, judge. reached tells whether the park point exists.
func runMW(ctx context.Context, s *hx.Session, p *hx.Prng, md int, pl mwPlan, sched func(p *hx.Prng) func(g *gate)) error {
	return runCase(ctx, s, p, profile{name: "mw" + strconv.Itoa(len(pl.kinds)), md: md}, func(w *world) {
		var pr *prepared
		if pl.full {
			pr = w.prepareFull(p)
		} else if pl.newSeg > 0 {
			pr = w.prepareNewSeg(p, pl.newSeg == 2)
		} else {
			pr = w.prepare(p, 2+p.Intn(2))
		}
		ops := w.planOps(p, pr, pl)
		s.Hit("mw_plan_" + pl.name())
		t0 := time.Now()
		g := w.concurrent(ops, sched(p))
		if os.Getenv("C21_DEBUG") != "" {
			fmt.Fprintf(os.Stderr, "case %d %s md=%d steps=%d %v\n", s.CaseNo, pl.name(), md, g.clock, time.Since(t0))
		}
	})
}

// directed: the history of the seeded-change trial — two updates of two present ids of one block; the first is
// parked between its block read and its block write while the second runs whole.
func mwDirected(ctx context.Context, s *hx.Session, p *hx.Prng, md int, kindA, kindB string) error {
	return runCase(ctx, s, p, profile{name: "mw_directed", md: md}, func(w *world) {
		blk := md - 1
		x := w.freshID(blk, 3)
		y := w.freshID(blk, 9)
		z := w.freshID(blk, 20)
		w.opAdd([]sop.Handle{w.handle(x)})
		w.opAdd([]sop.Handle{w.handle(y)})
		mk := func(kind string, present, fresh id) mwOp {
			if kind == "add" {
				return mwOp{kind, fresh, w.handle(fresh)}
			}
			return mwOp{kind, present, w.handle(present)}
		}
		ops := []mwOp{mk(kindA, x, z), mk(kindB, y, w.freshID(blk, 30))}
		w.concurrent(ops, func(g *gate) {
			a, b := g.actors[0], g.actors[1]
			// a up to and including its locked block read
			for n := 0; n < 40 && !a.done; n++ {
				ev := g.step(a, false)
				if strings.HasPrefix(ev, "rd") && strings.HasPrefix(a.prevLockEv(), "lk+ B") {
					break
				}
			}
			g.runUntilBlocked(b)
		})
	})
}

func (a *actor) prevLockEv() string { return a.lastLock }

type relation struct {
	name    string
	sameID  bool
	sameIdl bool
	other   bool
	busy    bool
	full    bool
	newSeg  int
}

var relations = []relation{
	{name: "same_block"},
	{name: "same_id", sameID: true},
	{name: "same_ideal_slot", sameIdl: true},
	{name: "both_displaced", busy: true},
	{name: "other_block", other: true},
	{name: "first_segment", newSeg: 1},
	{name: "overflow_segment", newSeg: 2},
	{name: "full_block", full: true},
}

// relations with a 66-call prefix come last: dealt out sparingly
const heavyRelations = 2

func upserts(kind string) bool { return kind == "add" || kind == "set" || kind == "upd" }

// planFor builds the plan of a pair (or triple) of kinds under a relation; ok=false when the relation does not apply.
func planFor(p *hx.Prng, ks []string, r relation, md int) (mwPlan, bool) {
	pl := mwPlan{kinds: ks, sameID: r.sameID, sameIdl: r.sameIdl, full: r.full, newSeg: r.newSeg}
	for k, kind := range ks {
		t := defaultTarget(kind, p)
		switch {
		case r.newSeg == 1 || (r.newSeg == 2 && (kind == "add" || p.Chance(1, 2))):
			t = tFreshFree // a new id (for Remove: an absent one) with an ideal slot of its own: the segment file is missing
		case r.sameIdl:
			if !upserts(kind) {
				return pl, false
			}
			t = tFreshFree
		case r.busy:
			if !upserts(kind) {
				return pl, false
			}
			t = tFreshBusy
		case r.other && k == len(ks)-1:
			if md < 2 {
				return pl, false
			}
			t = tOther
		}
		pl.targets = append(pl.targets, t)
	}
	return pl, true
}

// exactly Sop.C21.searchWitnessOps / searchWitnessSchedule: two adds of different ids whose unlocked searches settle on the
// same empty slot; and Sop.C21.slotLockWitnessSchedule: two updates of two present ids of one block, the first parked
// between its block read and its block write
func mwWitnesses(ctx context.Context, s *hx.Session, p *hx.Prng) error {
	sched := func(seq ...int) func(g *gate) {
		return func(g *gate) {
			for k := 0; k+1 < len(seq); k += 2 {
				for n := 0; n < seq[k+1]; n++ {
					g.step(g.actors[seq[k]], false)
				}
			}
		}
	}
	prefix := func(w *world) {
		w.opAdd([]sop.Handle{w.handle(id{0, 5})})
		w.opAdd([]sop.Handle{w.handle(id{0, 7})})
	}
	if err := runCase(ctx, s, p.Fork(), profile{name: "mw_witness", md: 1}, func(w *world) {
		prefix(w)
		w.concurrent([]mwOp{{"add", id{0, 71}, w.handle(id{0, 71})}, {"add", id{0, 73}, w.handle(id{0, 73})}}, sched(0, 2, 1, 9, 0, 7))
	}); err != nil {
		return err
	}
	if err := runCase(ctx, s, p.Fork(), profile{name: "mw_witness", md: 1}, func(w *world) {
		prefix(w)
		w.concurrent([]mwOp{{"set", id{0, 5}, w.handle(id{0, 5})}, {"set", id{0, 7}, w.handle(id{0, 7})}}, sched(0, 3, 1, 5, 0, 2, 1, 5))
	}); err != nil {
		return err
	}
	// finding C21-F4: two Removes of one id, the first parked between its search and its block lock: both answer ok
	if err := runCase(ctx, s, p.Fork(), profile{name: "mw_witness", md: 1}, func(w *world) {
		prefix(w)
		w.concurrent([]mwOp{{"rm", id{0, 5}, sop.Handle{}}, {"rm", id{0, 5}, sop.Handle{}}}, sched(0, 1, 1, 5, 0, 4))
	}); err != nil {
		return err
	}
	// finding C21-F3: an UpdateNoLocks upsert and an Add of two new ids whose ideal slots are taken settle on the same hole
	if err := runCase(ctx, s, p.Fork(), profile{name: "mw_witness", md: 1}, func(w *world) {
		prefix(w)
		w.concurrent([]mwOp{{"set", id{0, 71}, w.handle(id{0, 71})}, {"add", id{0, 73}, w.handle(id{0, 73})}}, sched(0, 1, 1, 9, 0, 4))
	}); err != nil {
		return err
	}
	// Sop.C21.createWitnessSchedule: no segment file yet; writer 0 decides "missing" and is parked in front of the
	// preallocation lock; writer 1 creates the file, writes and returns; writer 0 creates the file again
	for _, md := range []int{1, 250} {
		if err := runCase(ctx, s, p.Fork(), profile{name: "mw_witness_create", md: md}, func(w *world) {
			w.concurrent([]mwOp{{"add", id{0, 5}, w.handle(id{0, 5})}, {"add", id{0, 7}, w.handle(id{0, 7})}}, sched(0, 1, 1, 9, 0, 8))
		}); err != nil {
			return err
		}
	}
	// Sop.C21.overflowWitness: block 0 of segment file 1 is full (ids 0:0 … 0:65); both new ids need segment file 2
	return runCase(ctx, s, p.Fork(), profile{name: "mw_witness_create", md: 1}, func(w *world) {
		for k := 0; k < w.hp; k++ {
			w.opAdd([]sop.Handle{w.handle(id{0, uint64(k)})})
		}
		a, b := id{0, uint64(w.hp*5 + 3)}, id{0, uint64(w.hp*7 + 9)}
		w.concurrent([]mwOp{{"add", a, w.handle(a)}, {"add", b, w.handle(b)}}, sched(0, 2, 1, 10, 0, 8))
	})
}

func driveMW(ctx context.Context, s *hx.Session, p *hx.Prng, o hx.RunOpts) error {
	fs.DirectIOSim = &ioHook{fs.NewDirectIO()}
	defer func() { fs.DirectIOSim = nil }()
	if err := mwWitnesses(ctx, s, p); err != nil {
		return err
	}
	// the history of the seeded-change trial first
	for _, md := range []int{1, 3} {
		for _, ka := range kinds4 {
			for _, kb := range kinds4 {
				if err := mwDirected(ctx, s, p.Fork(), md, ka, kb); err != nil {
					return err
				}
			}
		}
	}
	// two writers: one parked after k calls (every k), the other runs whole, for every pair of kinds and relation
	mods := []int{1, 3, 250}
	sweep := 0
	for _, ka := range kinds4 {
		for _, kb := range kinds4 {
			for _, r := range relations {
				heavy := r.full || r.newSeg == 2
				if heavy && !(ka == "add" && kb == "add") && !(o.Thorough() && (ka == "add" || kb == "add")) {
					continue // the sweeps with a 66-call prefix per case: two Adds; thorough tier: every pair with an Add
				}
				seed := p.U64()
				md := mods[int(seed%3)]
				if heavy && md == 250 {
					md = 1
				}
				if r.other && md == 1 {
					md = 3
				}
				maxK := 16
				for k := 0; k <= maxK; k++ {
					if !o.Thorough() && r.newSeg == 0 && k > 0 && (sweep+k)%2 == 0 {
						continue // quick tier: every other park point, alternating between sweeps
					}
					q := hx.NewPrng(seed)
					pl, ok := planFor(q, []string{ka, kb}, r, md)
					if !ok {
						break
					}
					reached := false
					if err := runMW(ctx, s, q, md, pl, func(*hx.Prng) func(g *gate) { return parkAt(0, k, &reached) }); err != nil {
						return err
					}
					s.Hit("mw_sweep_case")
					if !reached && k > 0 {
						break // writer 0 has no k-th call: the sweep of this pair is complete
					}
				}
				sweep++
			}
		}
	}
	// two and three writers, random kinds, targets and schedules
	n := o.N(60, 1500)
	for k := 0; k < n; k++ {
		q := p.Fork()
		nw := 2 + q.Intn(2)
		ks := make([]string, nw)
		for j := range ks {
			ks[j] = kinds4[q.Intn(4)]
		}
		md := mods[q.Intn(3)]
		r := relations[q.Intn(len(relations)-heavyRelations)] // the 66-call prefixes are dealt out below
		pl, ok := planFor(q, ks, r, md)
		if !ok {
			pl, _ = planFor(q, ks, relations[0], md)
		}
		if k%15 == 7 {
			pl.full = true
			if md == 250 {
				md = 3
			}
		}
		if k%15 == 11 {
			if md == 250 {
				md = 3
			}
			pl, _ = planFor(q, ks, relations[len(relations)-2], md) // overflow into a missing second segment file
		}
		if err := runMW(ctx, s, q, md, pl, randomSched); err != nil {
			return err
		}
		s.Hit(fmt.Sprintf("mw_random_%d_writers", nw))
	}
	return nil
}
