package main

import (
	"bytes"
	"context"
	"encoding/hex"
	"errors"
	"flag"
	"fmt"
	"os"
	"os/exec"
	"path/filepath"
	"strings"

	"github.com/sharedcode/sop"
	"github.com/sharedcode/sop/fs"

	bc "verifharness/blockcow"
	"verifharness/fsfacts"
	"verifharness/hx"
)

func main() {
	hx.Main(driveC22, "Sop.Facts", fsfacts.Facts, map[string]func([]string) error{"crashwriter": crashWriter})
}

const (
	sigInterleaved = "C22/torn-block-served-after-concurrent-reader-deleted-backup"
	sigNotOldNew   = "C22/lookup-neither-old-nor-new"
	sigBlkNotOld   = "C22/block-neither-old-nor-new-after-read"
	sigHdet        = "C22/checksum-accepts-torn-block"
)

// one (old, new) pair: a block written by the real code and a writer operation on it
type pair struct {
	env     *bc.Env
	old     []byte
	present []sop.Handle
	opLine  string
	op      func(ctx context.Context, reg bc.Reg) error
	target  sop.UUID // the id the writer touches
	other   sop.UUID // another id of the block (Nil if none)
	off     int      // byte offset of the slot the writer touches (from the image diff)
}

func setup(ctx context.Context, p *hx.Prng, nHandles int) (*pair, error) {
	md := []int{1, 2, 3}[p.Intn(3)]
	block := p.Intn(md)
	env, err := bc.NewEnv("c22-", md, block)
	if err != nil {
		return nil, err
	}
	pr := &pair{env: env}
	reg, err := env.Open(ctx, true)
	if err != nil {
		return nil, err
	}
	hp := fs.VerifHandlesPerBlock()
	var slots []int
	for i := 0; i < nHandles; i++ {
		slot := p.Intn(hp)
		if len(slots) > 0 && p.Chance(1, 4) {
			slot = slots[p.Intn(len(slots))] // same ideal slot: the record is placed by the scan
		}
		slots = append(slots, slot)
		h := bc.GenHandle(p, bc.IDAt(p, md, block, slot))
		if err := reg.Add(ctx, env.Payload(h)); err != nil {
			return nil, fmt.Errorf("setup add: %w", err)
		}
		pr.present = append(pr.present, h)
	}
	if nHandles == 0 {
		// an existing segment file whose target block is all zero again
		h := bc.GenHandle(p, bc.IDAt(p, md, block, p.Intn(hp)))
		if err := reg.Add(ctx, env.Payload(h)); err != nil {
			return nil, err
		}
		if err := reg.Remove(ctx, env.IDPayload(h.LogicalID)); err != nil {
			return nil, err
		}
	}
	reg.Close()
	if pr.old, err = env.ReadBlock(); err != nil {
		return nil, err
	}
	// the writer's operation
	k := p.Intn(10)
	switch {
	case k < 5 || len(pr.present) == 0 && k < 8: // update an existing handle (or, on an empty block, write the first)
		var h sop.Handle
		if len(pr.present) > 0 {
			h = bc.GenHandle(p, pr.present[p.Intn(len(pr.present))].LogicalID)
		} else {
			h = bc.GenHandle(p, bc.IDAt(p, md, block, p.Intn(hp)))
		}
		pr.target = h.LogicalID
		pr.opLine = "wset " + bc.ShowHandle(h)
		pr.op = func(ctx context.Context, reg bc.Reg) error { return reg.UpdateNoLocks(ctx, false, env.Payload(h)) }
	case k < 8 || len(pr.present) == 0:
		slot := p.Intn(hp)
		if len(slots) > 0 && p.Chance(1, 3) {
			slot = slots[p.Intn(len(slots))]
		}
		h := bc.GenHandle(p, bc.IDAt(p, md, block, slot))
		pr.target = h.LogicalID
		pr.opLine = "wadd " + bc.ShowHandle(h)
		pr.op = func(ctx context.Context, reg bc.Reg) error { return reg.Add(ctx, env.Payload(h)) }
	default:
		id := pr.present[p.Intn(len(pr.present))].LogicalID
		pr.target = id
		pr.opLine = "wrm " + hx.Hexb(id[:])
		pr.op = func(ctx context.Context, reg bc.Reg) error { return reg.Remove(ctx, env.IDPayload(id)) }
	}
	for _, h := range pr.present {
		if h.LogicalID != pr.target {
			pr.other = h.LogicalID
			break
		}
	}
	return pr, nil
}

type shape struct {
	line string // "crash …" op line
	plan *bc.TearPlan
	cowK int  // for "cow k": truncate the backup to k bytes after a 0-byte write; -1 otherwise
	none bool // "before": remove the backup
	full bool // "after": the writer is not interrupted
	torn bool // the block write is torn (backup = old stays)
}

func bitsString(b []bool) string {
	var s strings.Builder
	for _, x := range b {
		if x {
			s.WriteByte('1')
		} else {
			s.WriteByte('0')
		}
	}
	return s.String()
}

func prefixShape(L int) shape {
	return shape{line: fmt.Sprintf("crash torn %d", L), plan: &bc.TearPlan{Kind: "prefix", L: L}, cowK: -1, torn: true}
}
func cowShape(k int) shape {
	return shape{line: fmt.Sprintf("crash cow %d", k), plan: &bc.TearPlan{Kind: "prefix", L: 0}, cowK: k}
}
func maskShape(p *hx.Prng, sector, bsz int) shape {
	bits := make([]bool, (bsz+sector-1)/sector)
	for i := range bits {
		bits[i] = p.Chance(1, 2)
	}
	return shape{line: fmt.Sprintf("crash mask %d %s", sector, bitsString(bits)), plan: &bc.TearPlan{Kind: "mask", Sector: sector, Bits: bits}, cowK: -1, torn: true}
}

var hook *bc.Hook
var noBackup bool // set by runWriter when the block write started without a backup file on disk

// runWriter resets the disk to (old, no backup), runs the writer's operation under the shape's plan and
// returns the image the writer intended to put on disk.
func runWriter(ctx context.Context, pr *pair, sh shape) ([]byte, error) {
	if err := pr.env.WriteBlockRaw(pr.old); err != nil {
		return nil, err
	}
	if err := pr.env.SetCow(nil, false); err != nil {
		return nil, err
	}
	reg, err := pr.env.Open(ctx, true)
	if err != nil {
		return nil, err
	}
	defer reg.Close()
	hook.Tear = sh.plan
	hook.LastWrite = nil
	noBackup = false
	err = pr.op(ctx, reg)
	hook.Tear = nil
	if sh.full {
		if err != nil {
			return nil, fmt.Errorf("uninterrupted writer failed: %w", err)
		}
	} else if !errors.Is(err, bc.ErrCrash) {
		return nil, fmt.Errorf("writer did not die at the block write: %v", err)
	}
	img := hook.LastWrite
	if img == nil {
		return nil, fmt.Errorf("writer never reached the block write")
	}
	if sh.none {
		if err := pr.env.SetCow(nil, false); err != nil {
			return nil, err
		}
	} else if sh.cowK >= 0 {
		c, ex, err := pr.env.Cow()
		if err != nil {
			return nil, err
		}
		if !ex {
			// the code under test wrote no backup before the block write: leave the disk as it is; the
			// caller's oracle and the diff with the model report it
			noBackup = true
			return img, nil
		}
		if sh.cowK < len(c) {
			c = c[:sh.cowK]
		}
		if err := pr.env.SetCow(c, true); err != nil {
			return nil, err
		}
	}
	return img, nil
}

func refShow(blk []byte, id sop.UUID) string {
	h, ok := bc.RefLookup(blk, id)
	if !ok || h.IsEmpty() {
		return "none"
	}
	return "ok " + bc.ShowHandle(h)
}

// oldOrNew is the property itself on one lookup result.
func oldOrNew(res string, old, img []byte, id sop.UUID) bool {
	return res == refShow(old, id) || res == refShow(img, id)
}

func firstDiff(a, b []byte) int {
	for i := range a {
		if a[i] != b[i] {
			return i
		}
	}
	return -1
}

// oneCase: one crash shape of one pair, then readers.
func oneCase(ctx context.Context, s *hx.Session, p *hx.Prng, pr *pair, sh shape, img0 []byte, sched []string, viaChild bool) error {
	var img []byte
	var err error
	if viaChild {
		img, err = runWriterInChild(pr, sh)
	} else {
		img, err = runWriter(ctx, pr, sh)
	}
	if err != nil {
		return err
	}
	if img0 != nil && !bytes.Equal(img, img0) {
		return fmt.Errorf("the writer's image differs between two runs of the same operation")
	}
	s.BeginCase("blockcow")
	s.Op("init "+bc.EncBlk(pr.old), "ok")
	s.Op(pr.opLine, bc.EncBlk(img))
	d, err := pr.env.Dump()
	if err != nil {
		return err
	}
	s.Op(sh.line, d)
	s.Hit("shape:" + strings.Fields(sh.line)[1])
	if _, ex, _ := pr.env.Cow(); !viaChild && !sh.full && !sh.none && (noBackup || (sh.torn && !ex)) {
		s.Fail("C22/no-backup-on-disk-while-block-write-in-flight", "the writer reached the block write without a backup file of the old image on disk", sh.line)
	}
	if viaChild {
		s.Hit("writer_killed_in_child_process")
	}
	cur, _ := pr.env.ReadBlock()
	invalid := false
	if sh.torn {
		s.Nontrivial()
		switch {
		case bytes.Equal(cur, pr.old):
			s.Hit("torn=old")
		case bytes.Equal(cur, img):
			s.Hit("torn=new")
		case bc.ChecksumOK(cur):
			s.Hit("torn_checksum_collision")
			s.Fail(sigHdet, "a torn mixture of the old and the new block passes the checksum (the detection hypothesis of C22_old_or_new fails for this pair)", sh.line)
		default:
			invalid = true
			s.Hit("torn_detected_by_checksum")
		}
	} else if sh.cowK >= 0 {
		s.Nontrivial()
	}
	ids := []sop.UUID{pr.target, pr.target, pr.target}
	if pr.other != sop.NilUUID {
		ids[1+p.Intn(2)] = pr.other
	}
	if sched == nil && invalid && p.Chance(1, 3) {
		// random interleaving of three or four readers
		n := 3 + p.Intn(2)
		left := make([]int, n)
		for i := range left {
			left[i] = 3
		}
		late := -1
		if p.Chance(1, 2) {
			// one reader takes its block read first and everything else last
			late = p.Intn(n)
			sched = append(sched, fmt.Sprint(late))
			left[late] = 0
		}
		tot := 0
		for _, x := range left {
			tot += x
		}
		for k := 0; k < tot; {
			r := p.Intn(n)
			if left[r] > 0 {
				left[r]--
				k++
				sched = append(sched, fmt.Sprint(r))
			}
		}
		if late >= 0 {
			sched = append(sched, fmt.Sprint(late), fmt.Sprint(late))
		}
	}
	if sched != nil {
		return runSchedule(ctx, s, p, pr, img, sched, ids)
	}
	// sequential readers, each a fresh registry object
	n := 1 + p.Intn(3)
	for i := 0; i < n; i++ {
		rw := p.Chance(3, 4)
		id := ids[i%len(ids)]
		res, err := pr.env.GetOne(ctx, rw, id)
		if err != nil {
			return err
		}
		mode := "ro"
		if rw {
			mode = "rw"
		}
		s.Op(fmt.Sprintf("read %s %s", mode, hx.Hexb(id[:])), res)
		s.Hit("read_" + mode)
		if !oldOrNew(res, pr.old, img, id) {
			s.Fail(sigNotOldNew, "a reader after the writer's death got a record that is neither the old nor the new one", res)
		}
		d, err := pr.env.Dump()
		if err != nil {
			return err
		}
		s.Op("dump", d)
		blk, _ := pr.env.ReadBlock()
		if rw && !bytes.Equal(blk, pr.old) && !bytes.Equal(blk, img) {
			s.Fail(sigBlkNotOld, "after a read-write reader the block on disk is neither the old nor the new image", d)
		}
		if rw && invalid && i == 0 {
			if bytes.Equal(blk, pr.old) {
				s.Hit("restored_from_backup")
			}
		}
	}
	return nil
}

func runSchedule(ctx context.Context, s *hx.Session, p *hx.Prng, pr *pair, img []byte, sched []string, ids []sop.UUID) error {
	s.Hit("interleaved_readers")
	n := 0
	for _, x := range sched {
		var r int
		fmt.Sscan(x, &r)
		if r+1 > n {
			n = r + 1
		}
	}
	done := make([]bool, n)
	rids := make([]sop.UUID, n)
	for r := 0; r < n; r++ {
		rids[r] = ids[r%len(ids)]
		hook.Spawn(ctx, pr.env, r, true, rids[r])
		s.Op(fmt.Sprintf("spawn rw %s", hx.Hexb(rids[r][:])), "ok")
	}
	stepOne := func(r int) error {
		at, err := hook.Step(r)
		if err != nil {
			return err
		}
		s.Op(fmt.Sprintf("step %d", r), at)
		if strings.HasPrefix(at, "done ") {
			done[r] = true
			res := strings.TrimPrefix(at, "done ")
			if !oldOrNew(res, pr.old, img, rids[r]) {
				_, ex, _ := pr.env.Cow()
				blk, _ := pr.env.ReadBlock()
				if !ex && (bytes.Equal(blk, pr.old) || bytes.Equal(blk, img)) {
					s.Fail(sigInterleaved, "reader read the torn block, another reader restored it, a third saw it valid and deleted the backup, then the first found no backup and served the torn bytes", res)
				} else {
					s.Fail(sigNotOldNew, "a concurrent reader after the writer's death got a record that is neither the old nor the new one", res)
				}
			} else {
				s.Hit("interleaved_reader_ok")
			}
		}
		return nil
	}
	for _, x := range sched {
		var r int
		fmt.Sscan(x, &r)
		if done[r] {
			continue
		}
		if err := stepOne(r); err != nil {
			return err
		}
	}
	for r := 0; r < n; r++ {
		for !done[r] {
			if err := stepOne(r); err != nil {
				return err
			}
		}
	}
	d, err := pr.env.Dump()
	if err != nil {
		return err
	}
	s.Op("dump", d)
	return nil
}

// ---- the writer in a child process that really dies inside the block write ----

func runWriterInChild(pr *pair, sh shape) ([]byte, error) {
	if err := pr.env.WriteBlockRaw(pr.old); err != nil {
		return nil, err
	}
	if err := pr.env.SetCow(nil, false); err != nil {
		return nil, err
	}
	side := filepath.Join(pr.env.Dir, "image.bin")
	os.Remove(side)
	f := strings.Fields(pr.opLine)
	if f[0] != "wset" {
		return nil, fmt.Errorf("child mode supports wset only")
	}
	cmd := exec.Command(os.Args[0], "crashwriter", "-dir", pr.env.Dir, "-mod", fmt.Sprint(pr.env.Mod), "-block", fmt.Sprint(pr.env.Block),
		"-L", fmt.Sprint(sh.plan.L), "-side", side, "-handle", strings.Join(f[1:], ","))
	out, err := cmd.CombinedOutput()
	var ee *exec.ExitError
	if !errors.As(err, &ee) || ee.ExitCode() != 99 {
		return nil, fmt.Errorf("child writer did not die in the block write: %v %s", err, out)
	}
	return os.ReadFile(side)
}

func crashWriter(args []string) error {
	fl := flag.NewFlagSet("crashwriter", flag.ExitOnError)
	dir := fl.String("dir", "", "")
	md := fl.Int("mod", 1, "")
	block := fl.Int("block", 0, "")
	L := fl.Int("L", 0, "")
	side := fl.String("side", "", "")
	hs := fl.String("handle", "", "")
	fl.Parse(args)
	f := strings.Split(*hs, ",")
	if len(f) != 7 {
		return fmt.Errorf("bad handle")
	}
	var h sop.Handle
	for i, dst := range []*sop.UUID{&h.LogicalID, &h.PhysicalIDA, &h.PhysicalIDB} {
		b, err := hex.DecodeString(f[i])
		if err != nil || len(b) != 16 {
			return fmt.Errorf("bad uuid")
		}
		copy(dst[:], b)
	}
	h.IsActiveIDB = f[3] == "1"
	fmt.Sscan(f[4], &h.Version)
	fmt.Sscan(f[5], &h.WorkInProgressTimestamp)
	h.IsDeleted = f[6] == "1"
	env := &bc.Env{Dir: *dir, Table: "tb", Mod: *md, Block: *block, BSize: fs.VerifBlockSize()}
	hk := bc.Install()
	hk.Tear = &bc.TearPlan{Kind: "prefix", L: *L, Exit: true, Side: *side}
	ctx := context.Background()
	reg, err := env.Open(ctx, true)
	if err != nil {
		return err
	}
	err = reg.UpdateNoLocks(ctx, false, env.Payload(h))
	return fmt.Errorf("writer survived: %v", err)
}

// ---- driver ----

func shapesFor(p *hx.Prng, pr *pair, img []byte, all bool) []shape {
	bsz := pr.env.BSize
	off := firstDiff(pr.old, img)
	if off < 0 {
		off = 0
	}
	slotStart := off / sop.HandleSizeInBytes * sop.HandleSizeInBytes
	sh := []shape{
		{line: "crash before", plan: &bc.TearPlan{Kind: "prefix", L: 0}, cowK: -1, none: true},
		cowShape(0), cowShape(1 + p.Intn(bsz-1)), cowShape(bsz - 1), cowShape(bsz),
		prefixShape(0), prefixShape(slotStart + 1 + p.Intn(sop.HandleSizeInBytes-1)), prefixShape(slotStart + sop.HandleSizeInBytes),
		prefixShape(bsz - 4), prefixShape(bsz - 1 - p.Intn(3)), prefixShape(bsz), prefixShape(p.Intn(bsz + 1)),
		maskShape(p, 512, bsz), maskShape(p, []int{64, 128, 1024}[p.Intn(3)], bsz),
		{line: "crash after", cowK: -1, full: true},
	}
	if all {
		sh = sh[:0]
		for L := 0; L <= bsz; L++ {
			sh = append(sh, prefixShape(L))
		}
		for k := 0; k <= bsz; k += 1 + p.Intn(7) {
			sh = append(sh, cowShape(k))
		}
	}
	return sh
}

func driveC22(o hx.RunOpts) error {
	s := hx.NewSession(o, "one case = one (old block, writer operation, crash shape) followed by readers. old = a block of a real registry segment file "+
		"holding 0..8 handles written by fs.NewRegistry.Add; writer = UpdateNoLocks / Add / Remove of one handle through fs.DirectIOSim, which lets only a prefix of L bytes "+
		"(or a random subset of 64..1024-byte units) of the block write reach the disk and then kills the writer (error return in-process; os.Exit in a child process for a subset); "+
		"backup-file crash shapes (absent, empty, any prefix, complete) are produced by truncating the real backup file. Readers are fresh registry objects (new L2 cache, no open files): "+
		"1..3 sequential Gets (read-write or read-only) or 3..4 concurrent Gets interleaved at their shared-state accesses (block read / backup check / restoring write) by a random schedule. "+
		"Compared line by line with the model: the writer's block image, the on-disk block and backup after the crash and after every reader, every lookup result and reader position. "+
		"distinct = hash of the op lines; non-trivial = the crash left a backup file behind (partial backup or torn/complete block write)")
	p := hx.NewPrng(o.Seed)
	ctx := context.Background()
	hook = bc.Install()

	// directed corpus: the interleaving of C22_interleaved_counterexample on the real code
	{
		pr, err := setup(ctx, hx.NewPrng(7), 2)
		if err != nil {
			return err
		}
		h := bc.GenHandle(p, pr.present[0].LogicalID)
		pr.target, pr.other = h.LogicalID, sop.NilUUID
		pr.opLine = "wset " + bc.ShowHandle(h)
		pr.op = func(ctx context.Context, reg bc.Reg) error { return reg.UpdateNoLocks(ctx, false, pr.env.Payload(h)) }
		img, err := runWriter(ctx, pr, shape{line: "crash after", cowK: -1, full: true})
		if err != nil {
			return err
		}
		off := firstDiff(pr.old, img)
		err = oneCase(ctx, s, p, pr, prefixShape(off+20), img, []string{"0", "1", "1", "1", "2", "2", "0"}, false)
		pr.env.Remove()
		if err != nil {
			return err
		}
	}

	npairs := o.N(150, 1500)
	childLeft := o.N(12, 120)
	for i := 0; i < npairs; i++ {
		pp := p.Fork()
		pr, err := setup(ctx, pp, pp.Intn(9))
		if err != nil {
			return err
		}
		img, err := runWriter(ctx, pr, shape{line: "crash after", cowK: -1, full: true})
		if err != nil {
			pr.env.Remove()
			return err
		}
		for _, sh := range shapesFor(pp, pr, img, false) {
			child := false
			if childLeft > 0 && sh.torn && sh.plan.Kind == "prefix" && strings.HasPrefix(pr.opLine, "wset") && pp.Chance(1, 6) {
				child = true
				childLeft--
			}
			if err := oneCase(ctx, s, pp, pr, sh, img, nil, child); err != nil {
				pr.env.Remove()
				return fmt.Errorf("pair %d %s: %w", i, sh.line, err)
			}
		}
		pr.env.Remove()
	}
	if o.Thorough() {
		// every torn prefix length of the block write, and a dense sweep of partial backups, for a few pairs
		for i := 0; i < 4*o.Scale; i++ {
			pp := p.Fork()
			pr, err := setup(ctx, pp, 1+pp.Intn(6))
			if err != nil {
				return err
			}
			img, err := runWriter(ctx, pr, shape{line: "crash after", cowK: -1, full: true})
			if err != nil {
				pr.env.Remove()
				return err
			}
			for _, sh := range shapesFor(pp, pr, img, true) {
				if err := oneCase(ctx, s, pp, pr, sh, img, nil, false); err != nil {
					pr.env.Remove()
					return err
				}
			}
			s.Hit("every_prefix_length_sweep")
			pr.env.Remove()
		}
		s.Rep.Notes = append(s.Rep.Notes, "thorough: every torn prefix length 0..blockSize exercised for 4 pairs")
	}
	if err := driveMulti(ctx, s, p, o); err != nil {
		return err
	}
	s.Rep.Notes = append(s.Rep.Notes, "multi-writer cases: 2-3 registry calls (UpdateNoLocks/Add/Remove, optionally a Get) on the same block (different or same slot), each its own registry object sharing one lock cache; "+
		"parked before and after every DualLock/Unlock of the block-region key and every DirectIO block read/write (the main block write in two pieces at a generated cut), interleaved by directed "+
		"(actor 0 parked at each point while actor 1 runs a prefix or a whole update and dies or not) and random schedules with process deaths (never resumed; also inside the backup write by truncating it) and lock expiry; "+
		"then sequential readers of every touched id, the raw block, and a later writer. Oracle: one block version consistent with the updates acknowledged (lock released) in order, dead writers' updates optional; later writer gets through.")
	return s.Finish()
}
