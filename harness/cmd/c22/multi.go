package main

// Several registry calls on the SAME block, interleaved deterministically at every lock / block-IO operation
// (harness/blockcow/gate.go), with process deaths anywhere (also between the two pieces of a block write and
// inside the backup write), lock expiry, then readers and a later writer.

import (
	"bytes"
	"context"
	"fmt"
	"hash/crc32"
	"strings"
	"time"

	"github.com/sharedcode/sop"
	"github.com/sharedcode/sop/encoding"
	"github.com/sharedcode/sop/fs"

	bc "verifharness/blockcow"
	"verifharness/hx"
)

const (
	sigUnlockedCheck   = "C22/live-backup-deleted-by-unlocked-block-check"
	sigUnlockedRestore = "C22/unlocked-restore-overwrote-live-writers-block"
	sigAfterUnlock     = "C22/backup-deleted-after-unlock-by-previous-lock-holder"
	sigNonHolder       = "C22/backup-deleted-inside-section-by-non-holder"
	sigMultiMix        = "C22/multi-writer-block-not-a-version"
	sigMultiRead       = "C22/multi-writer-concurrent-get-not-a-version"
	sigServedLive      = "C22/half-written-block-served-after-live-writer-finished-and-deleted-backup"
	sigLateBlocked     = "C22/later-writer-blocked-or-failed"
	sigLateWrong       = "C22/later-writer-result-not-version-plus-update"
)

type mop struct {
	kind string // set | add | rm | get
	id   sop.UUID
	h    sop.Handle
}

func (o mop) line() string {
	switch o.kind {
	case "set", "add":
		return o.kind + " " + bc.ShowHandle(o.h)
	default:
		return o.kind + " " + hx.Hexb(o.id[:])
	}
}

func (o mop) call(env *bc.Env) func(ctx context.Context, reg bc.Reg) string {
	return func(ctx context.Context, reg bc.Reg) string {
		switch o.kind {
		case "set":
			return bc.ErrClass(reg.UpdateNoLocks(ctx, false, env.Payload(o.h)))
		case "add":
			return bc.ErrClass(reg.Add(ctx, env.Payload(o.h)))
		case "rm":
			return bc.ErrClass(reg.Remove(ctx, env.IDPayload(o.id)))
		default:
			return bc.ShowGet(reg.Get(ctx, env.IDPayload(o.id)))
		}
	}
}

// ---- the reference: a block is a version iff it is the initial block with complete updates applied ----

func refReseal(b []byte) {
	n := len(b) - 4
	zero := true
	for _, x := range b[:n] {
		if x != 0 {
			zero = false
			break
		}
	}
	var c uint32
	if !zero {
		c = crc32.ChecksumIEEE(b[:n])
	}
	b[n], b[n+1], b[n+2], b[n+3] = byte(c), byte(c>>8), byte(c>>16), byte(c>>24)
}

// refApply: every record of these cases sits in the ideal slot of its id
func refApply(blk []byte, o mop, md int) []byte {
	nb := append([]byte(nil), blk...)
	_, off := fs.VerifOffsets(o.id, md)
	hs := sop.HandleSizeInBytes
	switch o.kind {
	case "set", "add":
		m := encoding.NewHandleMarshaler()
		rec, _ := m.Marshal(o.h, make([]byte, 0, hs))
		copy(nb[off:int(off)+hs], rec)
	case "rm":
		for i := 0; i < hs; i++ {
			nb[int(off)+i] = 0
		}
	}
	refReseal(nb)
	return nb
}

// sequences of the elements of must (in this order) with any subset of may inserted anywhere, in any order
func sequences(must, may []int) [][]int {
	var out [][]int
	var rec func(cur []int, mi int, used uint)
	rec = func(cur []int, mi int, used uint) {
		if mi == len(must) {
			out = append(out, append([]int(nil), cur...))
		}
		if mi < len(must) {
			rec(append(cur, must[mi]), mi+1, used)
		}
		for k, x := range may {
			if used&(1<<uint(k)) == 0 {
				rec(append(cur, x), mi, used|(1<<uint(k)))
			}
		}
	}
	rec(nil, 0, 0)
	return out
}

type harm struct {
	kind  string // cow-removed | restore-over-live-writer
	phase string // phase of the culprit
	by    int
	note  string
}

type mcase struct {
	ctx   context.Context
	s     *hx.Session
	p     *hx.Prng
	env   *bc.Env
	g     *bc.Gate
	old   []byte
	ops   []mop
	harm  *harm
	acks  []int         // actors in the order they released the lock
	torn  map[int]int   // reader/phase-A actor -> the writer whose half-written block it read (-1: nobody's)
	tornDead map[int]bool // … and whether that writer was dead at the time of the read
	steps int
}

func (c *mcase) diskState() (dump string, blk []byte, cowExists bool, err error) {
	if dump, err = c.env.Dump(); err != nil {
		return
	}
	if blk, err = c.env.ReadBlock(); err != nil {
		return
	}
	_, cowExists, err = c.env.Cow()
	return
}

func lockStr(h int) string {
	if h < 0 {
		return "lock=-"
	}
	return fmt.Sprintf("lock=%d", h)
}

// step lets actor i run to its next park and watches for the events that make a later failure explicable.
func (c *mcase) step(i int) (string, error) {
	a := c.g.Actors[i]
	_, blk0, cow0, err := c.diskState()
	if err != nil {
		return "", err
	}
	h0 := c.g.HolderID()
	var holder *bc.GActor
	if h0 >= 0 {
		holder = c.g.Actors[h0]
	}
	holderPending := holder != nil && holder.SplitWrite && (holder.Point == "wr?" || holder.Point == "wr~")
	p0, phase0, split0 := a.Point, a.Phase, a.SplitWrite
	at, err := c.g.Step(i)
	if err != nil {
		return "", err
	}
	c.steps++
	dump, _, cow1, err := c.diskState()
	if err != nil {
		return "", err
	}
	c.s.Op(fmt.Sprintf("go %d", i), at+" "+dump+" "+lockStr(c.g.HolderID()))
	c.s.Hit("at:" + strings.Fields(at)[0])
	if at == "ul!" {
		c.acks = append(c.acks, i)
	}
	if at == "rd!" && !bc.ChecksumOK(a.LastRead) {
		c.torn[i] = -1
		if holder != nil && holder.ID != i && holder.SplitWrite && holder.Point == "wr~" {
			c.torn[i] = holder.ID
			c.tornDead[i] = holder.Dead
		}
		c.s.Hit("actor_read_torn_block")
	} else if at == "rd!" {
		delete(c.torn, i)
	}
	if c.harm == nil && cow0 && !cow1 && i != h0 && (!bc.ChecksumOK(blk0) || holderPending) {
		c.harm = &harm{kind: "cow-removed", phase: phase0, by: i,
			note: fmt.Sprintf("actor %d (phase %s, from %s) removed the backup file while it was needed (block torn: %v, lock holder %d with its block write pending: %v)", i, phase0, p0, !bc.ChecksumOK(blk0), h0, holderPending)}
		c.s.Hit("harm:cow-removed-by-phase-" + phase0)
	}
	if c.harm == nil && p0 == "wr?" && !split0 && at == "wr!" && i != h0 {
		if t, ok := c.torn[i]; ok && t >= 0 && !c.g.Actors[t].Dead {
			c.harm = &harm{kind: "restore-over-live-writer", phase: phase0, by: i,
				note: fmt.Sprintf("actor %d (phase %s, not holding the lock) wrote the backup image over the block that live writer %d was writing", i, phase0, t)}
			c.s.Hit("harm:restore-over-live-writer")
		}
	}
	return at, nil
}

func (c *mcase) kill(i int) {
	c.g.Kill(i)
	c.s.Op(fmt.Sprintf("kill %d", i), "ok")
	c.s.Hit("kill_at:" + strings.Fields(c.g.Actors[i].Point)[0])
}

func (c *mcase) killCow(i, k int) error {
	data, ex, err := c.env.Cow()
	if err != nil {
		return err
	}
	if !ex {
		// nothing to truncate: plain kill
		c.kill(i)
		return nil
	}
	if k < len(data) {
		data = data[:k]
	}
	if err := c.env.SetCow(data, true); err != nil {
		return err
	}
	c.g.Kill(i)
	d, err := c.env.Dump()
	if err != nil {
		return err
	}
	c.s.Op(fmt.Sprintf("killcow %d %d", i, k), d)
	c.s.Hit("kill_inside_backup_write")
	return nil
}

func (c *mcase) expire() {
	if c.g.Expire(c.ctx) {
		c.s.Op("expire", lockStr(c.g.HolderID()))
		c.s.Hit("lock_expired")
	}
}

func (c *mcase) live() []int {
	var l []int
	for i := range c.ops {
		a := c.g.Actors[i]
		if !a.Dead && !a.Done {
			l = append(l, i)
		}
	}
	return l
}

func (c *mcase) holderDead() bool {
	h := c.g.HolderID()
	return h >= 0 && c.g.Actors[h].Dead
}

// blockedOnLock: stepping the actor now would only produce a refused lock attempt (and a sleep)
func (c *mcase) blockedOnLock(i int) bool {
	a := c.g.Actors[i]
	h := c.g.HolderID()
	return (a.Point == "lk?" || a.Point == "lk-") && h >= 0 && h != i
}

// finish brings every actor to its end (or kills it) so that the case can be judged.
func (c *mcase) finish(killProb int) error {
	for guard := 0; guard < 400; guard++ {
		l := c.live()
		if len(l) == 0 {
			break
		}
		if c.holderDead() {
			c.expire()
		}
		// prefer an actor that can make progress
		var pick []int
		for _, i := range l {
			if !c.blockedOnLock(i) {
				pick = append(pick, i)
			}
		}
		if len(pick) == 0 {
			pick = l
		}
		i := pick[c.p.Intn(len(pick))]
		if killProb > 0 && c.p.Chance(1, killProb) {
			c.kill(i)
			continue
		}
		// run it for a while
		for k := 0; k < 1+c.p.Intn(6); k++ {
			a := c.g.Actors[i]
			if a.Done || a.Dead || c.blockedOnLock(i) {
				break
			}
			if _, err := c.step(i); err != nil {
				return err
			}
		}
	}
	if len(c.live()) > 0 {
		return fmt.Errorf("actors still running at the end of the case")
	}
	if c.holderDead() {
		c.expire()
	}
	return nil
}

// judge: readers after the history, the block on disk, a later writer.
func (c *mcase) judge() error {
	s, env := c.s, c.env
	md := env.Mod
	// the versions
	var writers, started []int
	isAck := map[int]bool{}
	for _, i := range c.acks {
		isAck[i] = true
	}
	for i, o := range c.ops {
		if o.kind == "get" {
			continue
		}
		writers = append(writers, i)
		if !isAck[i] && c.g.Actors[i].MainWrites > 0 {
			started = append(started, i)
		}
	}
	fold := func(seq []int) []byte {
		b := c.old
		for _, i := range seq {
			b = refApply(b, c.ops[i], md)
		}
		return b
	}
	var allowed [][]byte
	for _, seq := range sequences(c.acks, started) {
		allowed = append(allowed, fold(seq))
	}
	var anyVersion [][]byte
	for _, seq := range sequences(nil, writers) {
		anyVersion = append(anyVersion, fold(seq))
	}
	fail := func(generic, what, detail string) {
		sig := generic
		if c.harm != nil {
			switch {
			case c.harm.kind == "cow-removed" && c.harm.phase == "A":
				sig = sigUnlockedCheck
			case c.harm.kind == "cow-removed" && c.harm.phase == "post":
				sig = sigAfterUnlock
			case c.harm.kind == "cow-removed":
				sig = sigNonHolder
			case c.harm.kind == "restore-over-live-writer":
				sig = sigUnlockedRestore
			}
			what += " — " + c.harm.note
		}
		s.Fail(sig, what, detail)
	}
	// concurrent Gets
	for i, o := range c.ops {
		a := c.g.Actors[i]
		if o.kind != "get" || !a.Done {
			continue
		}
		res := strings.TrimPrefix(a.Point, "done ")
		ok := false
		for _, v := range anyVersion {
			if res == refShow(v, o.id) {
				ok = true
				break
			}
		}
		if ok {
			s.Hit("concurrent_get_ok")
			continue
		}
		generic := sigMultiRead
		if t, okk := c.torn[i]; okk && c.harm == nil {
			if t < 0 || c.tornDead[i] {
				// the mechanism of C22-F1: a dead writer's torn block was restored and the backup removed behind
				// this reader's back
				generic = sigInterleaved
			} else {
				generic = sigServedLive
			}
		}
		fail(generic, "a Get running concurrently with the writers returned a record of no version of the block", res)
	}
	// readers after the history: all of them must see one and the same allowed version
	ids := []sop.UUID{}
	seen := map[sop.UUID]bool{}
	for _, o := range c.ops {
		if !seen[o.id] {
			seen[o.id] = true
			ids = append(ids, o.id)
		}
	}
	cand := allowed
	bad := false
	for k, id := range ids {
		rw := k == len(ids)-1 || c.p.Chance(1, 2)
		mode := "ro"
		if rw {
			mode = "rw"
		}
		res, err := env.GetOne(c.ctx, rw, id)
		if err != nil {
			return err
		}
		s.Op(fmt.Sprintf("read %s %s", mode, hx.Hexb(id[:])), res)
		var next [][]byte
		for _, v := range cand {
			if res == refShow(v, id) {
				next = append(next, v)
			}
		}
		if len(next) == 0 && !bad {
			bad = true
			fail(sigMultiMix, "after the history (all writers finished or dead, locks expired) a reader is handed a record that belongs to no block version consistent with the acknowledged updates", fmt.Sprintf("id %s: %s", hx.Hexb(id[:]), res))
		}
		if len(next) > 0 {
			cand = next
		}
	}
	d, err := env.Dump()
	if err != nil {
		return err
	}
	s.Op("dump", d)
	blk, _ := env.ReadBlock()
	var ver []byte
	for _, v := range cand {
		if bytes.Equal(v, blk) {
			ver = v
		}
	}
	if ver == nil && !bad {
		bad = true
		fail(sigMultiMix, "after the history and a read-write reader the block on disk is no version consistent with the acknowledged updates", d)
	}
	if !bad {
		s.Hit("final_version_ok")
	}
	// a later writer must get through and produce version + its update
	base := blk
	var target sop.UUID
	for _, o := range c.ops {
		if o.kind == "set" {
			target = o.id
		}
	}
	if target == sop.NilUUID {
		return nil
	}
	lh := bc.GenHandle(c.p, target)
	// the later writer shares the lock cache of the case: a lock left behind blocks it
	reg, err := c.g.OpenReg(c.ctx, env)
	if err != nil {
		return err
	}
	lctx, cancel := context.WithTimeout(c.ctx, 5*time.Second)
	lerr := reg.UpdateNoLocks(lctx, false, env.Payload(lh))
	cancel()
	reg.Close()
	s.Op("late set "+bc.ShowHandle(lh), bc.ErrClass(lerr))
	d, err = env.Dump()
	if err != nil {
		return err
	}
	s.Op("dump", d)
	if lerr != nil {
		fail(sigLateBlocked, "a writer that comes after the history does not get through", lerr.Error())
		return nil
	}
	if !bad {
		want := refApply(base, mop{kind: "set", id: target, h: lh}, md)
		got, _ := env.ReadBlock()
		if !bytes.Equal(want, got) {
			fail(sigLateWrong, "the later writer's block is not the version before it plus its update", d)
		} else {
			s.Hit("later_writer_ok")
		}
	}
	return nil
}

// ---- case construction ----

func newMultiCase(ctx context.Context, s *hx.Session, p *hx.Prng, nWriters int, withGet bool, sameSlot int, cutKind int, setsOnly bool) (*mcase, error) {
	md := []int{1, 2, 3}[p.Intn(3)]
	block := p.Intn(md)
	env, err := bc.NewEnv("c22m-", md, block)
	if err != nil {
		return nil, err
	}
	reg, err := env.Open(ctx, true)
	if err != nil {
		return nil, err
	}
	hp := fs.VerifHandlesPerBlock()
	nH := 3 + p.Intn(4)
	used := map[int]bool{}
	var present []sop.Handle
	freeSlot := func() int {
		for {
			sl := p.Intn(hp)
			if !used[sl] {
				used[sl] = true
				return sl
			}
		}
	}
	for i := 0; i < nH; i++ {
		h := bc.GenHandle(p, bc.IDAt(p, md, block, freeSlot()))
		if err := reg.Add(ctx, env.Payload(h)); err != nil {
			return nil, err
		}
		present = append(present, h)
	}
	reg.Close()
	c := &mcase{ctx: ctx, s: s, p: p, env: env, g: bc.NewGate(), torn: map[int]int{}, tornDead: map[int]bool{}}
	if c.old, err = env.ReadBlock(); err != nil {
		return nil, err
	}
	// operations: sameSlot = 0 different ids, 1 first two writers on the same id, 2 all on the same id
	perm := p.Intn(len(present))
	for w := 0; w < nWriters; w++ {
		var o mop
		idx := (perm + w) % len(present)
		if sameSlot == 2 || (sameSlot == 1 && w < 2) {
			idx = perm % len(present)
		}
		k := p.Intn(10)
		if setsOnly {
			k = 0
		}
		switch {
		case k < 7:
			o = mop{kind: "set", id: present[idx].LogicalID, h: bc.GenHandle(p, present[idx].LogicalID)}
		case k < 8 && sameSlot == 0:
			o = mop{kind: "rm", id: present[idx].LogicalID}
		default:
			if sameSlot != 0 {
				o = mop{kind: "set", id: present[idx].LogicalID, h: bc.GenHandle(p, present[idx].LogicalID)}
			} else {
				h := bc.GenHandle(p, bc.IDAt(p, md, block, freeSlot()))
				o = mop{kind: "add", id: h.LogicalID, h: h}
			}
		}
		c.ops = append(c.ops, o)
	}
	if withGet {
		c.ops = append(c.ops, mop{kind: "get", id: c.ops[p.Intn(nWriters)].id})
	}
	s.BeginCase("blockcow")
	s.Op("init "+bc.EncBlk(c.old), "ok")
	bsz := env.BSize
	hs := sop.HandleSizeInBytes
	for i, o := range c.ops {
		_, off := fs.VerifOffsets(o.id, md)
		var cut int
		ck := cutKind
		if ck < 0 {
			ck = p.Intn(6)
		}
		switch ck {
		case 0:
			cut = int(off) + 1 + p.Intn(hs-1) // inside the record
		case 1:
			cut = int(off) + 16 + p.Intn(hs-16) // after the logical id: new physical ids with old flags/version
		case 2:
			cut = int(off) + hs + p.Intn(bsz-4-int(off)-hs+1) // record complete, trailer old
		case 3:
			cut = bsz - 1 - p.Intn(3) // inside the trailer
		case 6:
			cut = int(off) + 24 // in the middle of the first physical id: always a mixture
		case 4:
			cut = 1 + p.Intn(int(off)+1) // before the record: nothing new on disk yet
			if cut >= bsz {
				cut = bsz - 1
			}
		default:
			cut = 1 + p.Intn(bsz-1)
		}
		at, err := c.g.Spawn(ctx, env, i, cut, o.call(env))
		if err != nil {
			return nil, err
		}
		s.Op(fmt.Sprintf("actor %d %d %s", i, cut, o.line()), at)
	}
	s.Hit(fmt.Sprintf("multi:writers=%d,get=%v,sameSlot=%d", nWriters, withGet, sameSlot))
	s.Nontrivial()
	return c, nil
}

func (c *mcase) close() {
	c.g.KillRest()
	c.env.Remove()
}

// runUntil steps actor i until it is parked at the n-th park from its start (or is done).
func (c *mcase) runTo(i, n int) error {
	for k := 0; k < n; k++ {
		a := c.g.Actors[i]
		if a.Done || a.Dead || c.blockedOnLock(i) {
			return nil
		}
		if _, err := c.step(i); err != nil {
			return err
		}
	}
	return nil
}

// directedCase: actor 0 is parked after k0 steps; actor 1 runs k1 steps (a whole update if large) and is killed
// or not; actor 0 goes on; ...
func directedCase(ctx context.Context, s *hx.Session, p *hx.Prng, k0, k1 int, kill1, kill0 bool, sameSlot int) error {
	c, err := newMultiCase(ctx, s, p, 2, false, sameSlot, -1, false)
	if err != nil {
		return err
	}
	defer c.close()
	s.Hit("multi_directed")
	if err := c.runTo(0, k0); err != nil {
		return err
	}
	if err := c.runTo(1, k1); err != nil {
		return err
	}
	if kill1 && !c.g.Actors[1].Done {
		a := c.g.Actors[1]
		if a.Point == "wr?" && a.SplitWrite && p.Chance(1, 3) {
			if err := c.killCow(1, p.Intn(c.env.BSize+1)); err != nil {
				return err
			}
		} else {
			c.kill(1)
		}
	}
	// actor 0 goes on for a few steps, possibly dies
	if err := c.runTo(0, 1+p.Intn(3)); err != nil {
		return err
	}
	if kill0 && !c.g.Actors[0].Done {
		c.kill(0)
	}
	if err := c.finish(0); err != nil {
		return err
	}
	return c.judge()
}

func randomCase(ctx context.Context, s *hx.Session, p *hx.Prng) error {
	nW := 2
	if p.Chance(1, 3) {
		nW = 3
	}
	c, err := newMultiCase(ctx, s, p, nW, p.Chance(1, 3), p.Intn(3), -1, false)
	if err != nil {
		return err
	}
	defer c.close()
	s.Hit("multi_random")
	budget := 10 + p.Intn(50)
	cur := -1
	for n := 0; n < budget; n++ {
		l := c.live()
		if len(l) == 0 {
			break
		}
		if c.holderDead() && p.Chance(1, 3) {
			c.expire()
		}
		var pick []int
		for _, i := range l {
			if !c.blockedOnLock(i) || p.Chance(1, 12) {
				pick = append(pick, i)
			}
		}
		if len(pick) == 0 {
			if c.holderDead() {
				c.expire()
				continue
			}
			pick = l
		}
		i := pick[p.Intn(len(pick))]
		if cur >= 0 && p.Chance(1, 2) {
			for _, x := range pick {
				if x == cur {
					i = cur
				}
			}
		}
		cur = i
		a := c.g.Actors[i]
		switch {
		case p.Chance(1, 14):
			if a.Point == "wr?" && a.SplitWrite && p.Chance(1, 2) {
				if err := c.killCow(i, p.Intn(c.env.BSize+1)); err != nil {
					return err
				}
			} else {
				c.kill(i)
			}
		default:
			if _, err := c.step(i); err != nil {
				return err
			}
		}
	}
	if err := c.finish(6); err != nil {
		return err
	}
	return c.judge()
}

// script: "0" = one step of actor 0, "k0" = kill actor 0, "x" = expire
func scriptedCase(ctx context.Context, s *hx.Session, p *hx.Prng, withGet bool, script string, tag string) error {
	// cut in the middle of the record's first physical id; two writers on different records (a mixture in writer 0's record
	// is then not papered over by writer 1's update), or a Get of the record being written
	same := 0
	if withGet {
		same = 1
	}
	c, err := newMultiCase(ctx, s, p, 2, withGet, same, 6, true)
	if err != nil {
		return err
	}
	defer c.close()
	s.Hit("multi_corpus:" + tag)
	for _, w := range strings.Fields(script) {
		switch {
		case w == "x":
			c.expire()
		case w[0] == 'k':
			c.kill(int(w[1] - '0'))
		default:
			i := int(w[0] - '0')
			if a := c.g.Actors[i]; a.Done || a.Dead {
				continue
			}
			if _, err := c.step(i); err != nil {
				return err
			}
		}
	}
	if err := c.finish(0); err != nil {
		return err
	}
	return c.judge()
}

func driveMulti(ctx context.Context, s *hx.Session, p *hx.Prng, o hx.RunOpts) error {
	// directed corpus: the Lean counterexample C22_unlocked_check_counterexample and the other live-writer
	// histories on the real code
	corpus := []struct {
		tag, script string
		get         bool
	}{
		// writer 0 has made its backup and is about to write; writer 1's unlocked block check sees a valid block
		// and deletes the backup; writer 0 writes the first piece and dies
		{"unlocked-check-deletes-live-backup", "0 0 0 0 0 0 1 1 0 k0 x", false},
		// the same with the check parked between its block read and its deleteCow while writer 0 makes the backup
		{"unlocked-check-deletes-live-backup-late", "0 0 0 0 0 1 0 1 0 k0 x", false},
		// writer 0 is between the two pieces; writer 1's unlocked check reads the torn block, restores the backup
		// over it; writer 0 writes the second piece, deletes the backup, is acknowledged: torn block, no backup
		{"unlocked-restore-over-inflight-write", "0 0 0 0 0 0 0 1 1 1 0 0 0 0", false},
		// … or the restore lands after writer 0 was acknowledged: lost update
		{"unlocked-restore-after-ack", "0 0 0 0 0 0 0 1 1 0 0 0 0 1", false},
		// writer 0 has written, released the lock and is parked before it returns; writer 1 takes the lock, makes
		// its backup, writes the first piece and dies; writer 0 returns. (Quiet on the code as it is: nothing
		// happens between Unlock and the return.)
		{"previous-holder-returns-while-next-writer-is-torn", "0 0 0 0 0 0 0 0 0 0 1 1 1 1 1 1 1 k1 0 x", false},
		{"previous-holder-before-unlock-while-next-writer-waits", "0 0 0 0 0 0 0 0 1 1 1 1 0 0 0 1 1 1 1 1 1 k1 x", false},
		// a Get reads the half-written block, the writer finishes and deletes the backup, the Get finds none
		{"get-serves-half-written-block", "0 0 0 0 0 0 0 2 0 0 0 0 2", true},
	}
	for k, cs := range corpus {
		// fixed generator: the corpus is the same in every tier and for every seed
		if err := scriptedCase(ctx, s, hx.NewPrng(uint64(7700+k)), cs.get, cs.script, cs.tag); err != nil {
			return fmt.Errorf("corpus %s: %w", cs.tag, err)
		}
	}
	// grid: actor 0 parked after k0 steps (every park of a whole update: 0..11) × actor 1 run for k1 steps
	// (… lk+ rd? rd! wr? wr~ wr! … or a whole update) and then killed
	k1s := []int{1, 2, 4, 6, 7, 8, 40}
	for k0 := 0; k0 <= 11; k0++ {
		for _, k1 := range k1s {
			if !o.Thorough() && (k0+k1)%2 == 1 && k0 < 9 {
				continue
			}
			pp := p.Fork()
			if err := directedCase(ctx, s, pp, k0, k1, k1 != 40, false, pp.Intn(3)); err != nil {
				return fmt.Errorf("grid case %d/%d: %w", k0, k1, err)
			}
		}
	}
	// directed: every park of actor 0 × a prefix of actor 1 ending in its death or its completion
	nd := o.N(30, 700)
	for n := 0; n < nd; n++ {
		pp := p.Fork()
		k0 := pp.Intn(14)
		k1 := pp.Intn(15)
		if pp.Chance(1, 3) {
			k1 = 40 // a whole update
		}
		if err := directedCase(ctx, s, pp, k0, k1, pp.Chance(2, 3), pp.Chance(1, 4), pp.Intn(3)); err != nil {
			return fmt.Errorf("directed case %d: %w", n, err)
		}
	}
	nr := o.N(120, 1500)
	for n := 0; n < nr; n++ {
		if err := randomCase(ctx, s, p.Fork()); err != nil {
			return fmt.Errorf("random multi-writer case %d: %w", n, err)
		}
	}
	return nil
}
