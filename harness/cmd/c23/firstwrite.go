package main

// The writer's OWN crash as the source of a bad block: the first write into a never written (all-zero) block —
// a segment file that does not exist yet, a block of an existing file that was never touched, a block that was
// emptied again — and, as a control, a write into a populated block, killed at every point of
// writeBlockRegionPayload (before / inside the backup write, inside the block write after any prefix or any set
// of sectors, after it). Then what C23 is about: lookups of the never committed record and the next writer of
// the block, through fresh registry objects.

import (
	"bytes"
	"context"
	"errors"
	"fmt"
	"os"
	"strings"

	"github.com/sharedcode/sop"
	"github.com/sharedcode/sop/fs"

	bc "verifharness/blockcow"
	"verifharness/hx"
)

const (
	sigCrashNoBackup = "C23/writer-crash-left-bad-checksum-block-without-usable-backup"
	sigServedTorn    = "C23/record-of-torn-never-committed-write-served"
	sigResealedTorn  = "C23/torn-write-sealed-as-valid-by-next-writer"
)

var hook *bc.Hook

type fwWorld struct {
	env     *bc.Env
	kind    string // fresh | untouched | emptied | populated
	old     []byte
	present []sop.Handle
	h       sop.Handle // the writer's handle
	opWord  string     // wadd | wset
	img     []byte
}

func (w *fwWorld) reset() error {
	if w.kind == "fresh" {
		if err := os.Remove(w.env.SegPath()); err != nil && !os.IsNotExist(err) {
			return err
		}
		return w.env.SetCow(nil, false)
	}
	if err := w.env.WriteBlockRaw(w.old); err != nil {
		return err
	}
	return w.env.SetCow(nil, false)
}

func (w *fwWorld) write(ctx context.Context, reg bc.Reg) error {
	if w.opWord == "wset" {
		return reg.UpdateNoLocks(ctx, false, w.env.Payload(w.h))
	}
	return reg.Add(ctx, w.env.Payload(w.h))
}

func newFwWorld(ctx context.Context, p *hx.Prng, kind string) (*fwWorld, error) {
	md := []int{1, 2, 3}[p.Intn(3)]
	if kind == "untouched" && md == 1 {
		md = 2 + p.Intn(2)
	}
	block := p.Intn(md)
	env, err := bc.NewEnv("c23f-", md, block)
	if err != nil {
		return nil, err
	}
	w := &fwWorld{env: env, kind: kind, opWord: "wadd"}
	hp := fs.VerifHandlesPerBlock()
	if kind != "fresh" {
		reg, err := env.Open(ctx, true)
		if err != nil {
			return nil, err
		}
		switch kind {
		case "untouched":
			other := (block + 1 + p.Intn(md-1)) % md
			if err := reg.Add(ctx, env.Payload(bc.GenHandle(p, bc.IDAt(p, md, other, p.Intn(hp))))); err != nil {
				return nil, err
			}
		case "emptied":
			h := bc.GenHandle(p, bc.IDAt(p, md, block, p.Intn(hp)))
			if err := reg.Add(ctx, env.Payload(h)); err != nil {
				return nil, err
			}
			if err := reg.Remove(ctx, env.IDPayload(h.LogicalID)); err != nil {
				return nil, err
			}
		case "populated":
			for i, n := 0, 1+p.Intn(4); i < n; i++ {
				h := bc.GenHandle(p, bc.IDAt(p, md, block, p.Intn(hp)))
				if err := reg.Add(ctx, env.Payload(h)); err != nil {
					return nil, err
				}
				w.present = append(w.present, h)
			}
		}
		reg.Close()
		if w.old, err = env.ReadBlock(); err != nil {
			return nil, err
		}
	} else {
		w.old = make([]byte, env.BSize)
	}
	if kind == "populated" && p.Chance(1, 3) {
		w.opWord = "wset"
		w.h = bc.GenHandle(p, w.present[p.Intn(len(w.present))].LogicalID)
	} else {
		w.h = bc.GenHandle(p, bc.IDAt(p, md, block, p.Intn(hp)))
	}
	// the image: the writer run to completion
	if err := w.reset(); err != nil {
		return nil, err
	}
	reg, err := env.Open(ctx, true)
	if err != nil {
		return nil, err
	}
	hook.LastWrite = nil
	err = w.write(ctx, reg)
	reg.Close()
	if err != nil {
		return nil, fmt.Errorf("uninterrupted writer failed: %w", err)
	}
	if w.img, err = env.ReadBlock(); err != nil {
		return nil, err
	}
	return w, nil
}

type fwShape struct {
	line   string
	plan   *bc.TearPlan
	cowK   int
	before bool
	full   bool
}

func fwBits(b []bool) string {
	var s strings.Builder
	for _, x := range b {
		if x {
			s.WriteByte('1')
		} else {
			s.WriteByte('0')
		}
	}
	return s.String()
}

func fwShapes(p *hx.Prng, w *fwWorld, dense bool) []fwShape {
	bsz := w.env.BSize
	hs := sop.HandleSizeInBytes
	off := 0
	for i := range w.old {
		if w.old[i] != w.img[i] {
			off = i / hs * hs
			break
		}
	}
	torn := func(L int) fwShape {
		return fwShape{line: fmt.Sprintf("crash torn %d", L), plan: &bc.TearPlan{Kind: "prefix", L: L}, cowK: -1}
	}
	cow := func(k int) fwShape {
		return fwShape{line: fmt.Sprintf("crash cow %d", k), plan: &bc.TearPlan{Kind: "prefix", L: 0}, cowK: k}
	}
	mask := func(sector int) fwShape {
		bits := make([]bool, (bsz+sector-1)/sector)
		for i := range bits {
			bits[i] = p.Chance(1, 2)
		}
		// the sector with the checksum trailer does not make it (the history of the seeded trial)
		if p.Chance(1, 2) {
			bits[len(bits)-1] = false
			bits[off/sector] = true
		}
		return fwShape{line: fmt.Sprintf("crash mask %d %s", sector, fwBits(bits)), plan: &bc.TearPlan{Kind: "mask", Sector: sector, Bits: bits}, cowK: -1}
	}
	if dense {
		var sh []fwShape
		for L := 0; L <= bsz; L += 1 + p.Intn(5) {
			sh = append(sh, torn(L))
		}
		return sh
	}
	return []fwShape{
		{line: "crash before", plan: &bc.TearPlan{Kind: "prefix", L: 0}, cowK: -1, before: true},
		cow(0), cow(1 + p.Intn(bsz-1)), cow(bsz),
		torn(0), torn(off + 1 + p.Intn(hs-1)), torn(off + 16 + p.Intn(hs-16)), torn(off + hs), torn(bsz - 512), torn(bsz - 4), torn(bsz - 1 - p.Intn(3)), torn(bsz),
		torn(1 + p.Intn(bsz)), mask(512), mask([]int{64, 128, 1024}[p.Intn(3)]),
		{line: "crash after", cowK: -1, full: true},
	}
}

func fwCase(ctx context.Context, s *hx.Session, p *hx.Prng, w *fwWorld, sh fwShape) error {
	env := w.env
	if err := w.reset(); err != nil {
		return err
	}
	reg, err := env.Open(ctx, true)
	if err != nil {
		return err
	}
	hook.Tear = sh.plan
	err = w.write(ctx, reg)
	hook.Tear = nil
	reg.Close()
	if sh.full {
		if err != nil {
			return fmt.Errorf("uninterrupted writer failed: %w", err)
		}
	} else if !errors.Is(err, bc.ErrCrash) {
		return fmt.Errorf("writer did not die at the block write: %v", err)
	}
	if sh.before {
		if err := env.SetCow(nil, false); err != nil {
			return err
		}
	} else if sh.cowK >= 0 {
		if c, ex, err := env.Cow(); err != nil {
			return err
		} else if ex {
			if sh.cowK < len(c) {
				c = c[:sh.cowK]
			}
			if err := env.SetCow(c, true); err != nil {
				return err
			}
		}
	}
	s.BeginCase("blockcow")
	s.Op("base "+bc.EncBlk(w.old), "ok")
	s.Op(w.opWord+" "+bc.ShowHandle(w.h), bc.EncBlk(w.img))
	d0, err := env.Dump()
	if err != nil {
		return err
	}
	s.Op(sh.line, d0)
	s.Hit("firstwrite:" + w.kind)
	s.Hit("firstwrite_crash:" + strings.Fields(sh.line)[1])
	crashBlk, _ := env.ReadBlock()
	cowData, cowEx, _ := env.Cow()
	validBlk := bc.ChecksumOK(crashBlk)
	validCow := cowEx && len(cowData) == len(crashBlk) && bc.ChecksumOK(cowData)
	s.Op("valid", map[bool]string{true: "1", false: "0"}[validBlk])
	if !validBlk {
		s.Nontrivial()
		s.Hit("firstwrite_torn_block:" + w.kind)
		if !validCow {
			s.Fail(sigCrashNoBackup, "the writer died inside its block write and left a block that fails its checksum with no usable backup of the pre-image ("+w.kind+" block)", sh.line+" -> "+d0)
		}
	}
	target := w.h.LogicalID
	allowed := map[string]bool{"err": true, refShow(w.old, target): true}
	if bytes.Equal(crashBlk, w.img) {
		allowed[refShow(w.img, target)] = true
	}
	look := func(rw bool) error {
		res, err := env.GetOne(ctx, rw, target)
		if err != nil {
			return err
		}
		mode := map[bool]string{true: "rw", false: "ro"}[rw]
		s.Op(fmt.Sprintf("get %s %s", mode, hx.Hexb(target[:])), res)
		if !allowed[res] {
			s.Fail(sigServedTorn, "after the writer's death a lookup returns a record of the torn, never committed block write (neither the record before the write nor — the write being incomplete — the new one)", res)
		} else if !validBlk {
			s.Hit("firstwrite_lookup_ok_after_torn")
		}
		d, err := env.Dump()
		if err != nil {
			return err
		}
		s.Op("dump", d)
		return nil
	}
	order := p.Intn(3) // 0: lookup, writer, lookup; 1: writer first; 2: read-only lookup first
	if order != 1 {
		if err := look(order == 0); err != nil {
			return err
		}
	}
	// the next writer of the block: another record
	var sib sop.Handle
	var line string
	var call func(r bc.Reg) error
	if len(w.present) > 0 && p.Chance(1, 2) {
		for _, h := range w.present {
			if h.LogicalID != target {
				sib = bc.GenHandle(p, h.LogicalID)
			}
		}
	}
	if sib.LogicalID != sop.NilUUID {
		line = "set " + bc.ShowHandle(sib)
		call = func(r bc.Reg) error { return r.UpdateNoLocks(ctx, false, env.Payload(sib)) }
	} else {
		sib = bc.GenHandle(p, bc.IDAt(p, env.Mod, env.Block, p.Intn(fs.VerifHandlesPerBlock())))
		line = "add " + bc.ShowHandle(sib)
		call = func(r bc.Reg) error { return r.Add(ctx, env.Payload(sib)) }
	}
	reg, err = env.Open(ctx, true)
	if err != nil {
		return err
	}
	res := bc.ErrClass(call(reg))
	reg.Close()
	s.Op(line, res)
	d1, err := env.Dump()
	if err != nil {
		return err
	}
	s.Op("dump", d1)
	after, _ := env.ReadBlock()
	if res == "ok" && bc.ChecksumOK(after) && !allowed[refShow(after, target)] {
		s.Fail(sigResealedTorn, "the next writer of the block merged its record into the torn bytes and stamped a valid checksum on them: the never committed record is now permanent", d1)
	} else if res == "ok" && !validBlk {
		s.Hit("firstwrite_next_writer_ok_after_torn")
	}
	return look(true)
}

func driveFirstWrites(ctx context.Context, s *hx.Session, p *hx.Prng, o hx.RunOpts) error {
	kinds := []string{"fresh", "untouched", "emptied", "populated"}
	// directed corpus (same in every tier and for every seed): first Add into a never written block, every sector
	// of the block write reaches the disk except the last one (the one with the checksum trailer), then Get,
	// a sibling Add, Get
	for k, kind := range []string{"fresh", "untouched"} {
		pp := hx.NewPrng(uint64(2300 + k))
		w, err := newFwWorld(ctx, pp, kind)
		if err != nil {
			return err
		}
		bits := make([]bool, w.env.BSize/512)
		for i := range bits {
			bits[i] = i != len(bits)-1
		}
		sh := fwShape{line: "crash mask 512 " + fwBits(bits), plan: &bc.TearPlan{Kind: "mask", Sector: 512, Bits: bits}, cowK: -1}
		err = fwCase(ctx, s, pp, w, sh)
		w.env.Remove()
		if err != nil {
			return fmt.Errorf("first-write corpus %s: %w", kind, err)
		}
	}
	n := o.N(12, 120)
	for i := 0; i < n; i++ {
		pp := p.Fork()
		w, err := newFwWorld(ctx, pp, kinds[i%len(kinds)])
		if err != nil {
			return err
		}
		for _, sh := range fwShapes(pp, w, false) {
			if err := fwCase(ctx, s, pp, w, sh); err != nil {
				w.env.Remove()
				return fmt.Errorf("first-write world %d (%s) %s: %w", i, w.kind, sh.line, err)
			}
		}
		w.env.Remove()
	}
	if o.Thorough() {
		for _, k := range kinds {
			pp := p.Fork()
			w, err := newFwWorld(ctx, pp, k)
			if err != nil {
				return err
			}
			for _, sh := range fwShapes(pp, w, true) {
				if err := fwCase(ctx, s, pp, w, sh); err != nil {
					w.env.Remove()
					return err
				}
			}
			w.env.Remove()
		}
		s.Rep.Notes = append(s.Rep.Notes, "thorough: a dense sweep of torn prefix lengths of the first write for each kind of pre-image")
	}
	return nil
}
