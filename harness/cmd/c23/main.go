package main

import (
	"bytes"
	"context"
	"fmt"
	"strings"

	"github.com/sharedcode/sop"
	"github.com/sharedcode/sop/fs"

	bc "verifharness/blockcow"
	"verifharness/fsfacts"
	"verifharness/hx"
)

func main() { hx.Main(driveC23, "Sop.Facts", fsfacts.Facts, nil) }

const (
	sigNoBackup     = "C23/bad-checksum-no-backup-served"
	sigUnusable     = "C23/bad-checksum-unusable-backup-served"
	sigEmptyBackup  = "C23/bad-checksum-empty-backup-served"
	sigResealed     = "C23/bad-checksum-block-resealed-by-write"
	sigNotRestored  = "C23/valid-backup-not-restored"
	sigValidMisread = "C23/valid-block-misread"
	sigFlipMissed   = "C23/single-bit-flip-passes-checksum"
	sigChanged      = "C23/rejected-operation-changed-the-file"
)

type world struct {
	env     *bc.Env
	base    []byte
	older   []byte // a valid earlier image of the block (before the last add), nil if none
	present []sop.Handle
	slots   []int // byte offset of each present record in base
}

func setup(ctx context.Context, p *hx.Prng, nHandles int) (*world, error) {
	md := []int{1, 2, 3}[p.Intn(3)]
	block := p.Intn(md)
	env, err := bc.NewEnv("c23-", md, block)
	if err != nil {
		return nil, err
	}
	w := &world{env: env}
	reg, err := env.Open(ctx, true)
	if err != nil {
		return nil, err
	}
	defer reg.Close()
	hp := fs.VerifHandlesPerBlock()
	var slots []int
	if nHandles == 0 {
		h := bc.GenHandle(p, bc.IDAt(p, md, block, p.Intn(hp)))
		if err := reg.Add(ctx, env.Payload(h)); err != nil {
			return nil, err
		}
		if w.older, err = env.ReadBlock(); err != nil {
			return nil, err
		}
		if err := reg.Remove(ctx, env.IDPayload(h.LogicalID)); err != nil {
			return nil, err
		}
	}
	for i := 0; i < nHandles; i++ {
		slot := p.Intn(hp)
		if len(slots) > 0 && p.Chance(1, 4) {
			slot = slots[p.Intn(len(slots))]
		}
		slots = append(slots, slot)
		if i == nHandles-1 && i > 0 {
			if w.older, err = env.ReadBlock(); err != nil {
				return nil, err
			}
		}
		h := bc.GenHandle(p, bc.IDAt(p, md, block, slot))
		if err := reg.Add(ctx, env.Payload(h)); err != nil {
			return nil, fmt.Errorf("setup add: %w", err)
		}
		w.present = append(w.present, h)
	}
	if w.base, err = env.ReadBlock(); err != nil {
		return nil, err
	}
	for _, h := range w.present {
		off := -1
		for s := 0; s+sop.HandleSizeInBytes <= len(w.base)-4; s += sop.HandleSizeInBytes {
			if string(w.base[s:s+16]) == string(h.LogicalID[:]) {
				off = s
			}
		}
		if off < 0 {
			return nil, fmt.Errorf("record not found in its block after Add")
		}
		w.slots = append(w.slots, off)
	}
	return w, nil
}

// corruption: spec string for the model and the resulting bytes
func corrupt(p *hx.Prng, w *world, kind int) (string, []byte, string) {
	bsz := len(w.base)
	out := append([]byte(nil), w.base...)
	hs := sop.HandleSizeInBytes
	pickSlotOff := func() int {
		if len(w.slots) > 0 && p.Chance(3, 4) {
			return w.slots[p.Intn(len(w.slots))]
		}
		return p.Intn(fs.VerifHandlesPerBlock()) * hs
	}
	switch kind {
	case 0: // single bit: inside a record's id
		bit := (pickSlotOff()+p.Intn(16))*8 + p.Intn(8)
		out[bit/8] ^= 1 << (bit % 8)
		return fmt.Sprintf("flip:%d", bit), out, "flip_in_id"
	case 1: // single bit: elsewhere in a record
		bit := (pickSlotOff()+16+p.Intn(hs-16))*8 + p.Intn(8)
		out[bit/8] ^= 1 << (bit % 8)
		return fmt.Sprintf("flip:%d", bit), out, "flip_in_record_body"
	case 2: // single bit: checksum trailer
		bit := (bsz-4)*8 + p.Intn(32)
		out[bit/8] ^= 1 << (bit % 8)
		return fmt.Sprintf("flip:%d", bit), out, "flip_in_trailer"
	case 3: // single bit: anywhere
		bit := p.Intn(bsz * 8)
		out[bit/8] ^= 1 << (bit % 8)
		return fmt.Sprintf("flip:%d", bit), out, "flip_anywhere"
	case 4: // burst of random bytes over a slot (up to one record long)
		n := 1 + p.Intn(hs)
		off := pickSlotOff() + p.Intn(hs-n+1)
		b := make([]byte, n)
		for i := range b {
			b[i] = byte(p.U64())
		}
		b[0] = out[off] ^ byte(1+p.Intn(255))
		copy(out[off:], b)
		return fmt.Sprintf("burst:%d:%s", off, hx.Hexb(b)), out, "burst_random"
	case 5: // a record zeroed out (the handle vanishes)
		if len(w.slots) == 0 {
			return corrupt(p, w, 3)
		}
		off := w.slots[p.Intn(len(w.slots))]
		b := make([]byte, hs)
		copy(out[off:], b)
		return fmt.Sprintf("burst:%d:%s", off, hx.Hexb(b)), out, "burst_zero_record"
	case 6: // trailer overwritten (zeroed or random)
		b := make([]byte, 4)
		if p.Chance(1, 2) {
			for i := range b {
				b[i] = byte(p.U64())
			}
		}
		if bytes.Equal(b, out[bsz-4:]) {
			b[0] ^= 1
		}
		copy(out[bsz-4:], b)
		return fmt.Sprintf("burst:%d:%s", bsz-4, hx.Hexb(b)), out, "burst_trailer"
	case 7: // burst anywhere, up to 62 bytes, crossing slot boundaries
		n := 1 + p.Intn(hs)
		off := p.Intn(bsz - n)
		b := make([]byte, n)
		for i := range b {
			b[i] = byte(p.U64())
		}
		b[0] = out[off] ^ byte(1+p.Intn(255))
		copy(out[off:], b)
		return fmt.Sprintf("burst:%d:%s", off, hx.Hexb(b)), out, "burst_anywhere"
	default:
		return "same", out, "not_corrupted"
	}
}

type cowState struct {
	spec   string
	data   []byte
	exists bool
	class  string
}

func genCow(p *hx.Prng, w *world, kind int) cowState {
	switch kind {
	case 0:
		return cowState{"none", nil, false, "none"}
	case 1:
		return cowState{"empty", []byte{}, true, "empty"}
	case 2:
		k := 1 + p.Intn(len(w.base)-1)
		return cowState{fmt.Sprintf("pre:%d", k), append([]byte(nil), w.base[:k]...), true, "unusable_short"}
	case 3:
		g := append([]byte(nil), w.base...)
		g[p.Intn(len(g))] ^= byte(1 << p.Intn(8))
		return cowState{"raw:" + bc.EncBlk(g), g, true, "unusable_bad_checksum"}
	case 4:
		return cowState{"base", append([]byte(nil), w.base...), true, "valid_same"}
	default:
		if w.older == nil {
			return cowState{"base", append([]byte(nil), w.base...), true, "valid_same"}
		}
		return cowState{"raw:" + bc.EncBlk(w.older), append([]byte(nil), w.older...), true, "valid_older"}
	}
}

func refShow(blk []byte, id sop.UUID) string {
	h, ok := bc.RefLookup(blk, id)
	if !ok || h.IsEmpty() {
		return "none"
	}
	return "ok " + bc.ShowHandle(h)
}

func servedSig(c cowState) string {
	switch {
	case !c.exists:
		return sigNoBackup
	case len(c.data) == 0:
		return sigEmptyBackup
	default:
		return sigUnusable
	}
}

// oneCase: base block, corruption + backup state, one registry operation through a cold registry object.
func oneCase(ctx context.Context, s *hx.Session, p *hx.Prng, w *world, bspec string, blk []byte, bclass string, c cowState, opKind int, target sop.UUID) error {
	env := w.env
	if err := env.WriteBlockRaw(blk); err != nil {
		return err
	}
	if err := env.SetCow(c.data, c.exists); err != nil {
		return err
	}
	othersBefore, err := env.ReadOthers()
	if err != nil {
		return err
	}
	s.BeginCase("blockcow")
	s.Op("base "+bc.EncBlk(w.base), "ok")
	d0, err := env.Dump()
	if err != nil {
		return err
	}
	s.Op(fmt.Sprintf("st %s %s", bspec, c.spec), d0)
	_, uerr := fs.VerifUnmarshalData(blk)
	s.Op("valid", map[bool]string{true: "1", false: "0"}[uerr == nil])
	validBlk := bc.ChecksumOK(blk)
	validCow := c.exists && len(c.data) == len(blk) && bc.ChecksumOK(c.data)
	s.Hit("corruption:" + bclass)
	s.Hit("backup:" + c.class)
	if strings.HasPrefix(bspec, "flip:") && validBlk {
		s.Fail(sigFlipMissed, "a single flipped bit of a checksummed block passes the checksum", bspec)
	}
	if !validBlk {
		s.Nontrivial()
	}

	// the operation
	var opLine, res string
	isGet, rw := false, true
	switch opKind {
	case 0, 1:
		isGet = true
		rw = opKind == 0
		mode := map[bool]string{true: "rw", false: "ro"}[rw]
		opLine = fmt.Sprintf("get %s %s", mode, hx.Hexb(target[:]))
		if res, err = env.GetOne(ctx, rw, target); err != nil {
			return err
		}
	case 2:
		h := bc.GenHandle(p, target)
		opLine = "set " + bc.ShowHandle(h)
		reg, err := env.Open(ctx, true)
		if err != nil {
			return err
		}
		res = bc.ErrClass(reg.UpdateNoLocks(ctx, false, env.Payload(h)))
		reg.Close()
	case 3:
		h := bc.GenHandle(p, bc.IDAt(p, env.Mod, env.Block, p.Intn(fs.VerifHandlesPerBlock())))
		target = h.LogicalID
		opLine = "add " + bc.ShowHandle(h)
		reg, err := env.Open(ctx, true)
		if err != nil {
			return err
		}
		res = bc.ErrClass(reg.Add(ctx, env.Payload(h)))
		reg.Close()
	default:
		opLine = "rm " + hx.Hexb(target[:])
		reg, err := env.Open(ctx, true)
		if err != nil {
			return err
		}
		res = bc.ErrClass(reg.Remove(ctx, env.IDPayload(target)))
		reg.Close()
	}
	s.Op(opLine, res)
	s.Hit("op:" + strings.Fields(opLine)[0])
	d1, err := env.Dump()
	if err != nil {
		return err
	}
	s.Op("dump", d1)
	othersAfter, err := env.ReadOthers()
	if err != nil {
		return err
	}
	if !bytes.Equal(othersBefore, othersAfter) {
		s.Fail("C23/other-block-changed", "an operation on one block changed another block of the segment file", opLine)
	}

	// the direct oracle
	after, _ := env.ReadBlock()
	switch {
	case !validBlk && !validCow:
		// the property: error, nothing changed
		if isGet {
			if res != "err" && d1 != d0 {
				s.Fail("C23/lookup-on-corrupted-block-rewrote-it-from-unverified-backup", "a lookup on a block whose checksum fails, with no usable backup, changed the block or the backup file", d1)
			} else if res != "err" && res != refShow(blk, target) {
				s.Fail("C23/lookup-answered-from-unverified-backup", "a lookup on a block whose checksum fails was answered from a backup that fails its own checksum", res)
			} else if res != "err" {
				s.Fail(servedSig(c), "a lookup on a block whose checksum fails, with no usable backup, is answered from the unverified bytes instead of failing", res)
				if res == "none" {
					s.Hit("served:handle_vanished")
				} else if res != refShow(w.base, target) {
					s.Hit("served:wrong_handle")
				} else {
					s.Hit("served:bytes_happen_to_be_intact")
				}
			} else {
				s.Hit("rejected")
			}
		} else {
			if res == "ok" {
				s.Fail(sigResealed, "a write on a block whose checksum fails, with no usable backup, merges into the unverified bytes and stamps a fresh checksum on them", opLine)
			} else {
				s.Hit("rejected_or_failed_otherwise")
			}
		}
		if res == "err" && d1 != d0 {
			s.Fail(sigChanged, "an operation that failed on a corrupted block still changed the file", d1)
		}
	case !validBlk && validCow:
		s.Hit("restorable")
		if isGet && res != refShow(c.data, target) {
			s.Fail(sigNotRestored, "checksum fails and a valid backup exists, but the lookup did not answer from the backup", res)
		}
		if isGet && rw && !bytes.Equal(after, c.data) {
			s.Fail(sigNotRestored, "checksum fails and a valid backup exists, but the block on disk was not restored from it", d1)
		}
	default:
		s.Hit("valid_block")
		if isGet && res != refShow(blk, target) {
			s.Fail(sigValidMisread, "lookup on a block with a good checksum does not answer from it", res)
		}
	}
	return nil
}

func pickTarget(p *hx.Prng, w *world) sop.UUID {
	if len(w.present) > 0 && p.Chance(5, 6) {
		return w.present[p.Intn(len(w.present))].LogicalID
	}
	return bc.IDAt(p, w.env.Mod, w.env.Block, p.Intn(fs.VerifHandlesPerBlock()))
}

func driveC23(o hx.RunOpts) error {
	s := hx.NewSession(o, "one case = (block written by the real registry with 0..8 handles, one corruption of its bytes in the segment file, one state of the .cow backup file, "+
		"one operation Get(rw)/Get(read-only)/UpdateNoLocks/Add/Remove through a fresh fs.NewRegistry object with a new L2 cache). Corruptions: single bit in a record's id / record body / "+
		"checksum trailer / anywhere; bursts of 1..62 random bytes on a slot or anywhere; a record zeroed; the trailer overwritten; none (control). Backup states: absent, empty, short prefix, "+
		"full-size with bad checksum, valid copy, valid older image. Compared with the model: unmarshalData's verdict on the corrupted block, the operation's result class and decoded handle, "+
		"block bytes and backup file after the operation. Second family (the writer's own crash): the first Add into a never written block (no segment file yet / block of an existing file never touched / block emptied again) "+
		"and, as a control, Add/UpdateNoLocks into a populated block, killed through fs.DirectIOSim before / inside the backup write (truncated backup) / inside the block write after a prefix or a random set of 64..1024-byte sectors / after it; "+
		"then Get of the never committed id (rw/ro), the next writer of the block (Add/UpdateNoLocks of another record), Get again; oracle: no bad-checksum block without usable backup after the crash, every lookup answers error / the record before the write (/ the new one only if the write was complete), also after the next writer. distinct = hash of the op lines; non-trivial = the block on disk fails its checksum when the operation starts")
	p := hx.NewPrng(o.Seed)
	ctx := context.Background()
	hook = bc.Install()

	// directed corpus first: C23_counterexample on the real code — one bit of a record's physical id flipped, no backup
	{
		w, err := setup(ctx, hx.NewPrng(11), 2)
		if err != nil {
			return err
		}
		bit := (w.slots[0]+20)*8 + 3
		blk := append([]byte(nil), w.base...)
		blk[bit/8] ^= 1 << (bit % 8)
		err = oneCase(ctx, s, p, w, fmt.Sprintf("flip:%d", bit), blk, "flip_in_record_body", cowState{"none", nil, false, "none"}, 0, w.present[0].LogicalID)
		if err == nil {
			err = oneCase(ctx, s, p, w, fmt.Sprintf("flip:%d", bit), blk, "flip_in_record_body", cowState{"none", nil, false, "none"}, 2, w.present[1].LogicalID)
		}
		w.env.Remove()
		if err != nil {
			return err
		}
	}

	// the writer's own crash as the source of the bad block (first write of a never written block, …)
	if err := driveFirstWrites(ctx, s, hx.NewPrng(o.Seed*977+23), o); err != nil {
		return err
	}

	nworlds := o.N(120, 1200)
	for i := 0; i < nworlds; i++ {
		pp := p.Fork()
		w, err := setup(ctx, pp, pp.Intn(9))
		if err != nil {
			return err
		}
		for j := 0; j < 16; j++ {
			ck := pp.Intn(9)
			if pp.Chance(1, 12) {
				ck = 8 // control: not corrupted
			}
			bspec, blk, bclass := corrupt(pp, w, ck)
			c := genCow(pp, w, []int{0, 0, 0, 1, 2, 3, 4, 5}[pp.Intn(8)])
			if err := oneCase(ctx, s, pp, w, bspec, blk, bclass, c, []int{0, 0, 0, 1, 2, 2, 3, 4}[pp.Intn(8)], pickTarget(pp, w)); err != nil {
				w.env.Remove()
				return fmt.Errorf("world %d: %w", i, err)
			}
		}
		w.env.Remove()
	}
	if o.Thorough() {
		// every single bit of one written block, no backup
		pp := p.Fork()
		w, err := setup(ctx, pp, 2)
		if err != nil {
			return err
		}
		for bit := 0; bit < len(w.base)*8; bit++ {
			blk := append([]byte(nil), w.base...)
			blk[bit/8] ^= 1 << (bit % 8)
			if err := oneCase(ctx, s, pp, w, fmt.Sprintf("flip:%d", bit), blk, "flip_every_bit", cowState{"none", nil, false, "none"}, 0, w.present[bit%2].LogicalID); err != nil {
				w.env.Remove()
				return err
			}
		}
		w.env.Remove()
		s.Rep.Notes = append(s.Rep.Notes, "thorough: every one of the 32768 single-bit flips of one written block exercised")
	}
	return s.Finish()
}
