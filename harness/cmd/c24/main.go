package main

import (
	"context"
	"fmt"
	"math"
	"os"
	"path/filepath"
	"strings"

	"github.com/sharedcode/sop"
	"github.com/sharedcode/sop/cache"
	"github.com/sharedcode/sop/encoding"
	"github.com/sharedcode/sop/fs"

	"verifharness/fsfacts"
	"verifharness/hx"
)

func main() { hx.Main(driveC24, "Sop.Facts", fsfacts.Facts, nil) }

func showHandle(h sop.Handle) string {
	b := func(x bool) string {
		if x {
			return "1"
		}
		return "0"
	}
	return fmt.Sprintf("%s %s %s %s %d %d %s", hx.Hexb(h.LogicalID[:]), hx.Hexb(h.PhysicalIDA[:]), hx.Hexb(h.PhysicalIDB[:]),
		b(h.IsActiveIDB), h.Version, h.WorkInProgressTimestamp, b(h.IsDeleted))
}

func genUUID(p *hx.Prng) sop.UUID {
	var u sop.UUID
	switch p.Intn(6) {
	case 0: // nil
	case 1:
		for i := range u {
			u[i] = 0xff
		}
	case 2:
		u[p.Intn(16)] = byte(1 << p.Intn(8))
	default:
		for i := range u {
			u[i] = byte(p.U64())
		}
	}
	return u
}

var edge32 = []int32{0, 1, -1, math.MaxInt32, math.MinInt32, 255, 256, -256, 65535, 65536, 1 << 24, -(1 << 24)}
var edge64 = []int64{0, 1, -1, math.MaxInt64, math.MinInt64, 255, 256, 1 << 32, -(1 << 32), 1 << 56, -(1 << 56), 1758400000000}

func genHandle(p *hx.Prng) sop.Handle {
	h := sop.Handle{LogicalID: genUUID(p), PhysicalIDA: genUUID(p), PhysicalIDB: genUUID(p),
		IsActiveIDB: p.Chance(1, 2), IsDeleted: p.Chance(1, 2)}
	if p.Chance(1, 2) {
		h.Version = edge32[p.Intn(len(edge32))]
	} else {
		h.Version = int32(p.U64())
	}
	if p.Chance(1, 2) {
		h.WorkInProgressTimestamp = edge64[p.Intn(len(edge64))]
	} else {
		h.WorkInProgressTimestamp = int64(p.U64())
	}
	return h
}

func driveC24(o hx.RunOpts) error {
	s := hx.NewSession(o, "cases: (a) handle values mixing edge and random ids/int32/int64/flags, encoded by encoding.HandleEncoder and decoded back; "+
		"(b) id halves and hash moduli through fs.getBlockOffsetAndHandleInBlockOffset; (c) real registry files: a handle is added through fs.NewRegistry and the touched 4096-byte block is compared byte for byte "+
		"(checksum trailer masked) with the model's slot write. distinct = canonical op-line hash; non-trivial = at least one non-zero id byte and a non-zero version or timestamp (a), id halves >= modulus (b), every (c) case")
	p := hx.NewPrng(o.Seed)
	m := encoding.NewHandleMarshaler()

	// (a) codec round trips
	n := o.N(4000, 200000)
	for i := 0; i < n; i++ {
		h := genHandle(p)
		s.BeginCase("codec")
		var buf [sop.HandleSizeInBytes]byte
		b, err := m.Marshal(h, buf[:0])
		if err != nil {
			return err
		}
		s.Op("enc "+showHandle(h), hx.Hexb(b))
		var back sop.Handle
		if err := m.Unmarshal(b, &back); err != nil {
			s.Op("dec "+hx.Hexb(b), "none")
			s.Fail("C24/decode-error", "decoding an encoded handle failed", err.Error())
		} else {
			s.Op("dec "+hx.Hexb(b), showHandle(back))
			if back != h {
				s.Fail("C24/round-trip", "decode(encode(h)) != h", showHandle(h)+" -> "+showHandle(back))
			}
		}
		if len(b) != sop.HandleSizeInBytes {
			s.Fail("C24/length", "encoded length differs from HandleSizeInBytes", fmt.Sprint(len(b)))
		}
		s.Hit("codec")
		if h.LogicalID != sop.NilUUID && (h.Version != 0 || h.WorkInProgressTimestamp != 0) {
			s.Nontrivial()
		}
		if h.Version < 0 {
			s.Hit("neg_version")
		}
		if h.WorkInProgressTimestamp < 0 {
			s.Hit("neg_wip")
		}
		// decoding arbitrary bytes: the model must agree on what any 62-byte record means
		if p.Chance(1, 4) {
			raw := make([]byte, sop.HandleSizeInBytes)
			for j := range raw {
				raw[j] = byte(p.U64())
			}
			if p.Chance(1, 2) {
				raw[48] = byte(p.Intn(3))
				raw[61] = byte(p.Intn(3))
			}
			var t sop.Handle
			if err := m.Unmarshal(raw, &t); err == nil {
				s.Op("dec "+hx.Hexb(raw), showHandle(t))
				s.Hit("raw_decode")
			}
		}
	}

	// (b) offsets
	bs := uint64(fs.VerifBlockSize())
	hp := uint64(fs.VerifHandlesPerBlock())
	n = o.N(2000, 100000)
	for i := 0; i < n; i++ {
		id := genUUID(p)
		mods := []int{1, 2, 3, 7, 250, 749, 750, 100000}
		md := mods[p.Intn(len(mods))]
		hi, lo := id.Split()
		bo, ho := fs.VerifOffsets(id, md)
		s.BeginCase("offsets")
		s.Op(fmt.Sprintf("off %d %d %d", hi, lo, md), fmt.Sprintf("%d %d", bo, ho))
		s.Hit("offsets")
		if hi >= uint64(md) && lo >= hp {
			s.Nontrivial()
		}
		if uint64(bo)%bs != 0 || uint64(bo)+bs > uint64(md)*bs || uint64(ho)+sop.HandleSizeInBytes > bs-4 || uint64(ho)%sop.HandleSizeInBytes != 0 {
			s.Fail("C24/offset-out-of-bounds", "slot offset leaves the block or overlaps the checksum", fmt.Sprintf("id=%v mod=%d -> %d %d", id, md, bo, ho))
		}
	}

	// (c) real registry file: the bytes a write changes
	n = o.N(30, 400)
	ctx := context.Background()
	for i := 0; i < n; i++ {
		if err := c24RegistryCase(ctx, s, p.Fork()); err != nil {
			return err
		}
	}
	return s.Finish()
}

// c24RegistryCase adds handles whose ids land in one block of a fresh registry and checks, after every
// write, that exactly the addressed slot (and the 4-byte trailer) of the block changed.
func c24RegistryCase(ctx context.Context, s *hx.Session, p *hx.Prng) error {
	dir, err := os.MkdirTemp(hx.WorkRoot(), "c24-")
	if err != nil {
		return err
	}
	defer os.RemoveAll(dir)
	l2 := cache.NewL2InMemoryCache()
	rt, err := fs.NewReplicationTracker(ctx, []string{dir}, false, l2)
	if err != nil {
		return err
	}
	md := []int{1, 2, 5}[p.Intn(3)]
	reg := fs.NewRegistry(true, md, rt, l2)
	defer reg.Close()
	table := "t24"
	if err := os.MkdirAll(filepath.Join(dir, table), 0o755); err != nil {
		return err
	}
	bsz := fs.VerifBlockSize()
	hp := fs.VerifHandlesPerBlock()
	s.BeginCase(fmt.Sprintf("regfile mod=%d", md))
	s.Nontrivial()
	used := map[int]bool{}
	block := p.Intn(md)
	prev := make([]byte, bsz)
	k := 2 + p.Intn(5)
	for j := 0; j < k; j++ {
		slot := p.Intn(hp)
		if used[slot] {
			continue
		}
		used[slot] = true
		h := genHandle(p)
		// id chosen by coordinates: high%mod = block, low%handlesPerBlock = slot
		hi := uint64(block) + uint64(md)*uint64(p.Intn(1000))
		lo := uint64(slot) + uint64(hp)*uint64(p.Intn(1000))
		var id sop.UUID
		for b := 0; b < 8; b++ {
			id[b] = byte(hi >> (56 - 8*b))
			id[8+b] = byte(lo >> (56 - 8*b))
		}
		if h2, l2_ := id.Split(); h2 != hi || l2_ != lo {
			return fmt.Errorf("uuid split layout changed: %d %d vs %d %d", h2, l2_, hi, lo)
		}
		h.LogicalID = id
		if err := reg.Add(ctx, []sop.RegistryPayload[sop.Handle]{{RegistryTable: table, IDs: []sop.Handle{h}}}); err != nil {
			return fmt.Errorf("registry add: %w", err)
		}
		files, _ := filepath.Glob(filepath.Join(dir, table, "*.reg"))
		if len(files) != 1 {
			return fmt.Errorf("expected one segment file, got %v", files)
		}
		raw, err := os.ReadFile(files[0])
		if err != nil {
			return err
		}
		if len(raw) != md*bsz {
			s.Fail("C24/segment-size", "segment file size is not hashMod*blockSize", fmt.Sprint(len(raw)))
		}
		cur := append([]byte(nil), raw[block*bsz:(block+1)*bsz]...)
		var buf [sop.HandleSizeInBytes]byte
		rec, _ := encoding.NewHandleMarshaler().Marshal(h, buf[:0])
		masked := append([]byte(nil), cur...)
		for t := bsz - 4; t < bsz; t++ {
			masked[t] = 0
		}
		pm := append([]byte(nil), prev...)
		for t := bsz - 4; t < bsz; t++ {
			pm[t] = 0
		}
		s.Op(fmt.Sprintf("slot %s %d %s", hx.Hexb(pm), slot, hx.Hexb(rec)), hx.Hexb(masked))
		s.Hit("regfile_write")
		// direct oracle: bytes outside the slot and trailer unchanged; other blocks untouched (still zero)
		for t := 0; t < bsz-4; t++ {
			in := t >= slot*sop.HandleSizeInBytes && t < (slot+1)*sop.HandleSizeInBytes
			if !in && cur[t] != prev[t] {
				s.Fail("C24/frame", "a slot write changed a byte outside its slot", fmt.Sprintf("slot %d byte %d", slot, t))
				break
			}
		}
		if _, err := fs.VerifUnmarshalData(cur); err != nil {
			s.Fail("C24/checksum", "block checksum invalid after a slot write", err.Error())
		}
		for ob := 0; ob < md; ob++ {
			if ob == block {
				continue
			}
			for _, x := range raw[ob*bsz : (ob+1)*bsz] {
				if x != 0 {
					s.Fail("C24/other-block", "a slot write changed another block", fmt.Sprint(ob))
					break
				}
			}
		}
		prev = cur
	}
	_ = strings.TrimSpace
	return nil
}
