// C25 — erasure-coded blobs survive up to p damaged shards. See harness/ecx for the child-process driver.
package main

import (
	"bufio"
	"fmt"
	"os"
	"strings"

	"verifharness/ecx"
	"verifharness/hx"
)

func explore(args []string) error {
	r := &ecx.Runner{}
	defer r.Close()
	in := bufio.NewScanner(os.Stdin)
	for in.Scan() {
		c, err := ecx.ParseCase(in.Text())
		if err != nil {
			return err
		}
		res, err := r.Run(c)
		if err != nil {
			return err
		}
		fmt.Printf("%s => %+v\n", in.Text(), res)
	}
	return nil
}

type drv struct {
	s       *hx.Session
	r       *ecx.Runner
	variant string
}

// one case: add (with write faults), then one read after damage.
func (x *drv) do(d, p, size, salt, mode int, failW, dmg []string) error {
	s := x.s
	n := d + p
	c := ecx.Case{D: d, P: p, Size: size, Salt: salt, Mode: mode, FailW: failW, Dmg: dmg}
	res, err := x.r.Run(c)
	if err != nil {
		return err
	}
	s.BeginCase(fmt.Sprintf("%d %d 0 %s", d, p, x.variant))
	s.Hit(fmt.Sprintf("cfg:d=%d,p=%d", d, p))
	fw := make([]string, n)
	nf := 0
	for i := range fw {
		fw[i] = "-"
		if i < len(failW) && failW[i] != "-" {
			fw[i] = failW[i]
			nf++
		}
	}
	s.Op(fmt.Sprintf("add %d %d %d %s", size, salt, mode, ecx.Csv(fw)), res.Add)
	s.Hit("add:" + res.Add)
	// direct oracle, write side: ok <-> failed writes <= p
	switch {
	case size == 0:
		s.Hit("size0")
		if res.Add != "err" {
			s.Fail("C25/empty-blob-accepted", "an empty blob was accepted (Split used to refuse it)", res.Add)
		} else if nf <= p {
			s.Fail("C25/empty-blob-rejected", "Add of an empty blob fails although no shard write failed (reedsolomon.Split refuses empty input)", c.Line())
		}
	case (res.Add == "ok") != (nf <= p):
		s.Fail("C25/write-tolerance", "Add succeeded iff failed shard writes <= p is violated", fmt.Sprintf("failed writes %d, p %d, add %s", nf, p, res.Add))
	}
	if nf > 0 {
		s.Hit(fmt.Sprintf("failw:%d", nf))
		s.Nontrivial()
	}
	if len(dmg) == 0 {
		return nil
	}
	// shard state = failed write (absent) overridden by later damage
	state := make([]string, n)
	for i := range state {
		state[i] = dmg[i]
		if fw[i] != "-" || size == 0 {
			state[i] = "m"
		}
	}
	out := res.Get
	if res.Get != "panic" {
		out = fmt.Sprintf("%s rep=%s files=%s", res.Get, res.Rep, res.Files)
	}
	s.Op("get "+ecx.Csv(dmg), out)
	s.Hit("get:" + strings.SplitN(res.Get, ":", 3)[0] + ":" + strings.TrimPrefix(strings.TrimPrefix(res.Get, "ok:"), "wrong:"+fmt.Sprint(size)))
	sm := ecx.Summarise(state, size, d)
	if size == 0 {
		return nil
	}
	if sm.D > 0 {
		s.Nontrivial()
	}
	for _, t := range state {
		s.Hit("kind:" + ecx.KindClass(t))
	}
	if sm.D <= p {
		s.Hit("within-parity")
	} else {
		s.Hit("beyond-parity")
	}
	if sm.Missing > 0 && sm.Body+sm.MetaOnly > 0 {
		s.Hit("mixed:missing+corrupt")
	}
	if size%d != 0 {
		s.Hit("size%d!=0")
	}
	if sig, what := ecx.ReadSignature(res.Get, sm, p); sig != "" {
		s.Fail(sig, what, fmt.Sprintf("d=%d p=%d size=%d failed-writes=%s damage=%s -> %s %s", d, p, size, ecx.Csv(fw), ecx.Csv(dmg), res.Get, res.Detail))
	}
	if res.Rep != "-" && res.Get != "panic" {
		s.Fail("C25/unexpected-write", "GetOne wrote shard files although RepairCorruptedShards is off", res.Rep)
	}
	return nil
}

func run(o hx.RunOpts) error {
	s := hx.NewSession(o, "cases: a blob (every (d,p) of the tier, sizes 1,d-1,d,d+1,4d+3,259[,4099] and 0) is written through the real fs.BlobStoreWithEC.Add "+
		"(optionally with injected MkdirAll/WriteFile failures), its shard files are damaged (every subset of shards x random kinds among missing, truncated to 0/5/16/17/18 bytes, "+
		"a flipped body byte, a flipped checksum byte, a changed pad-count byte) and read back with GetOne in a child process (a dead child = panic). "+
		"Compared with the model: Add result, read outcome class (ok+equal / ok+wrong+length / err / panic), shard files equal to a fresh encode. "+
		"distinct = canonical op-line hash; non-trivial = at least one shard write failed or one shard file actually changed")
	p := hx.NewPrng(o.Seed)
	r := &ecx.Runner{}
	defer r.Close()
	v, err := r.Variant()
	if err != nil {
		return err
	}
	x := &drv{s: s, r: r, variant: v}
	s.Hit("variant:" + v)

	// directed corpus: the witnesses of Props/C25.lean (and DESIGN.md §6 C25), first
	g := func(n int) []string {
		o := make([]string, n)
		for i := range o {
			o[i] = "g"
		}
		return o
	}
	type dc struct {
		d, p, size int
		dmg        string
	}
	for _, c := range []dc{
		{2, 1, 5, "t5,g,g"},        // (1) short file
		{1, 2, 3, "m,c0,g"},        // (2) missing + corrupt within parity (repetition-code witness)
		{2, 2, 5, "m,c0,g,g"},      // (2) as in DESIGN.md
		{2, 1, 5, "m,c0,g"},        // (3) beyond parity, wrong bytes (xor-code witness)
		{2, 2, 29, "m,c1,m,g"},     // (3) as in DESIGN.md
		{2, 1, 5, "t18,g,g"},       // truncated after the prefix, within parity
		{2, 1, 5, "z0,g,g"},        // pad byte
		{2, 1, 5, "z200,g,g"},      // pad byte > size
		{2, 1, 5, "k2,g,g"},        // checksum byte only
		{2, 1, 5, "k2,z0,g"},       // beyond parity, metadata only
		{2, 1, 4, "o,g,o"},         // p+1 bodies replaced by another blob's (consistent) bodies: Verify passes
		{3, 2, 9, "o,g,g,o,o"},
	} {
		if err := x.do(c.d, c.p, c.size, 7, 0, nil, strings.Split(c.dmg, ",")); err != nil {
			return err
		}
	}
	mixes := o.N(8, 30)
	if v == "orig" && o.Thorough() {
		// on the pinned tree most damaged cases kill the child; every death costs a process start, so the
		// thorough tier is scaled down there (the kinds of outcome are all reached long before)
		mixes = 8 * o.Scale
		s.Rep.Notes = append(s.Rep.Notes, "variant orig: thorough tier scaled down to 8 kind mixes per subset (each crash of the child costs a process start)")
	}
	for _, cfg := range ecx.Configs(o.Thorough()) {
		d, par := cfg[0], cfg[1]
		n := d + par
		// size 0
		if err := x.do(d, par, 0, 0, 0, nil, g(n)); err != nil {
			return err
		}
		for _, size := range ecx.Sizes(d, o.Thorough()) {
			mx := mixes
			if size > 1000 {
				mx = 1
			}
			var ferr error
			ecx.SubsetCases(p, d, par, size, mx, ecx.Kinds, func(dmg []string) {
				if ferr == nil {
					ferr = x.do(d, par, size, p.Intn(256), p.Intn(3), nil, dmg)
				}
			})
			if ferr != nil {
				return ferr
			}
		}
		// write faults: every subset of failing shard writes; then a read, sometimes with further damage
		for mask := 0; mask < 1<<n; mask++ {
			fw := make([]string, n)
			for i := range fw {
				fw[i] = "-"
				if mask&(1<<i) != 0 {
					fw[i] = []string{"w", "k"}[p.Intn(2)]
				}
			}
			size := ecx.Sizes(d, false)[p.Intn(len(ecx.Sizes(d, false)))]
			dmg := g(n)
			if p.Chance(1, 3) {
				i := p.Intn(n)
				dmg[i] = ecx.Concrete(p, ecx.Kinds[p.Intn(len(ecx.Kinds))], size, d)
			}
			if err := x.do(d, par, size, p.Intn(256), p.Intn(3), fw, dmg); err != nil {
				return err
			}
		}
	}
	s.Rep.Extra = map[string]any{"child_spawns": r.Spawns, "variant": v}
	return s.Finish()
}

func main() {
	hx.Main(run, "Sop.FactsC25", nil, map[string]func([]string) error{"ecchild": ecx.ChildMain, "explore": explore})
}
