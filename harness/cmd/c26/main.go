// C26 — shard auto-repair restores full redundancy. Same child-process driver as C25 (harness/ecx) with
// RepairCorruptedShards on: after the repairing read every shard file is compared byte for byte with a fresh
// encode, then p new failures are injected and the blob is read again.
package main

import (
	"fmt"
	"strings"

	"verifharness/ecx"
	"verifharness/hx"
)

type drv struct {
	s       *hx.Session
	r       *ecx.Runner
	variant string
}

func (x *drv) do(d, p, size, salt, mode int, dmg, dmg2 []string) error {
	s := x.s
	n := d + p
	c := ecx.Case{D: d, P: p, Repair: true, Size: size, Salt: salt, Mode: mode, Dmg: dmg, Dmg2: dmg2}
	res, err := x.r.Run(c)
	if err != nil {
		return err
	}
	s.BeginCase(fmt.Sprintf("%d %d 1 %s", d, p, x.variant))
	s.Hit(fmt.Sprintf("cfg:d=%d,p=%d", d, p))
	fw := make([]string, n)
	for i := range fw {
		fw[i] = "-"
	}
	s.Op(fmt.Sprintf("add %d %d %d %s", size, salt, mode, ecx.Csv(fw)), res.Add)
	if res.Add != "ok" {
		s.Fail("C26/add-failed", "Add without faults failed", res.Add)
		return nil
	}
	out := res.Get
	if res.Get != "panic" {
		out = fmt.Sprintf("%s rep=%s files=%s", res.Get, res.Rep, res.Files)
	}
	s.Op("get "+ecx.Csv(dmg), out)
	sm := ecx.Summarise(dmg, size, d)
	if sm.D > 0 {
		s.Nontrivial()
	}
	for _, t := range dmg {
		s.Hit("kind:" + ecx.KindClass(t))
	}
	s.Hit("get:" + strings.SplitN(res.Get, ":", 3)[0])
	within := sm.D <= p
	if within {
		s.Hit("within-parity")
	} else {
		s.Hit("beyond-parity")
	}
	if sm.Missing > 0 && sm.Body+sm.MetaOnly > 0 {
		s.Hit("mixed:missing+corrupt")
	}
	if res.Rep != "-" {
		s.Hit(fmt.Sprintf("repaired:%d", strings.Count(res.Rep, ",")+1))
	}
	detail := fmt.Sprintf("d=%d p=%d size=%d damage=%s -> %s rep=%s files=%s; then %s -> %s %s", d, p, size, ecx.Csv(dmg), res.Get, res.Rep, res.Files, ecx.Csv(dmg2), res.Get2, res.Detail)
	failed := false
	if within {
		// the property: a successful repairing read leaves every shard file intact ...
		switch {
		case res.Get != "ok:eq":
			failed = true
			sig, what := ecx.ReadSignature(res.Get, sm, p)
			s.Fail(strings.Replace(sig, "C25/", "C26/first-read:", 1), "the repairing read itself fails: "+what, detail)
		case strings.Trim(res.Files, "g") != "":
			failed = true
			// which files are still damaged, and how were they damaged
			metaOnly := true
			for i, st := range res.Files {
				if st != 'g' && !(dmg[i][0] == 'k' || dmg[i][0] == 'z') {
					metaOnly = false
				}
			}
			onlyPad := true
			for i, st := range res.Files {
				if st != 'g' && dmg[i][0] != 'z' {
					onlyPad = false
				}
			}
			switch {
			case metaOnly && sm.Missing == 0 && sm.Body == 0 && !sm.Short:
				s.Fail("C26/metadata-only-damage-not-repaired", "all shard bodies are intact, so Verify passes and Decode never looks at the checksums: a shard file whose metadata prefix (checksum or pad-count byte) is damaged is not rewritten and counts against the parity at the next failure", detail)
			case onlyPad:
				s.Fail("C26/pad-count-damage-not-repaired", "the pad-count byte is not covered by the shard checksum: a shard file in which only that byte changed passes the checksum pass and is not rewritten by the repair", detail)
			default:
				s.Fail("C26/damaged-shard-not-rewritten", "after a successful repairing read a damaged shard file is still not equal to a fresh encode", detail)
			}
		}
	}
	// repaired shards must be listed exactly once and be damaged ones
	if res.Rep != "-" && res.Get != "panic" {
		seen := map[string]bool{}
		for _, t := range strings.Split(res.Rep, ",") {
			var i int
			fmt.Sscanf(t, "%d", &i)
			if seen[t] || i < 0 || i >= n || !ecx.Effective(dmg[i], size, d) {
				s.Fail("C26/repair-wrote-intact-shard", "the repair rewrote a shard that was not damaged, or one twice", detail)
			}
			seen[t] = true
		}
	}
	if len(dmg2) == 0 || res.Get == "panic" {
		return nil // the process that held the blob store is dead
	}
	out2 := res.Get2
	s.Op("get2 "+ecx.Csv(dmg2), out2)
	s.Hit("get2:" + strings.SplitN(res.Get2, ":", 3)[0])
	if within && !failed {
		// ... so p new failures are tolerated
		if res.Get2 != "ok:eq" {
			s.Fail("C26/second-read-failed", "after a complete repair, p new shard failures are not tolerated", detail)
		}
	}
	return nil
}

func run(o hx.RunOpts) error {
	s := hx.NewSession(o, "cases: RepairCorruptedShards=true; a blob (every (d,p) of the tier, sizes 1,d-1,d,d+1,4d+3,259[,4099]) is written, every subset of its shard files is damaged "+
		"(random kinds among missing, truncated to 0/5/16/17/18 bytes, flipped body byte, flipped checksum byte, changed pad-count byte), GetOne is called in a child process; "+
		"then every shard file is compared byte for byte with a fresh encode, p further shards (random subset, random kinds except the pad byte) are damaged and the blob is read again. "+
		"Compared with the model: outcome classes of both reads, the list of rewritten shard indices in call order, which files equal the fresh encode. "+
		"distinct = canonical op-line hash; non-trivial = at least one shard file actually changed before the first read")
	p := hx.NewPrng(o.Seed)
	r := &ecx.Runner{}
	defer r.Close()
	v, err := r.Variant()
	if err != nil {
		return err
	}
	x := &drv{s: s, r: r, variant: v}
	s.Hit("variant:" + v)
	sp := func(a string) []string { return strings.Split(a, ",") }
	// directed: mixed damage within parity (the suspected overwritten-index-list case), checksum-only damage
	if err := x.do(2, 2, 29, 7, 0, sp("m,c1,g,g"), sp("g,g,m,m")); err != nil {
		return err
	}
	if err := x.do(2, 2, 29, 7, 0, sp("c3,g,g,m"), sp("m,g,m,g")); err != nil {
		return err
	}
	if err := x.do(2, 1, 5, 7, 0, sp("k2,g,g"), sp("g,m,g")); err != nil {
		return err
	}
	if err := x.do(1, 2, 3, 7, 0, sp("m,c0,g"), sp("g,m,m")); err != nil {
		return err
	}
	kinds2 := []string{"m", "m", "t0", "t5", "t17", "t18", "c", "k"}
	mixes := o.N(8, 30)
	if v == "orig" && o.Thorough() {
		// on the pinned tree most damaged cases kill the child; every death costs a process start, so the
		// thorough tier is scaled down there (the kinds of outcome are all reached long before)
		mixes = 8 * o.Scale
		s.Rep.Notes = append(s.Rep.Notes, "variant orig: thorough tier scaled down to 8 kind mixes per subset (each crash of the child costs a process start)")
	}
	for _, cfg := range ecx.Configs(o.Thorough()) {
		d, par := cfg[0], cfg[1]
		n := d + par
		for _, size := range ecx.Sizes(d, o.Thorough()) {
			mx := mixes
			if size > 1000 {
				mx = 1
			}
			var ferr error
			ecx.SubsetCases(p, d, par, size, mx, ecx.Kinds, func(dmg []string) {
				if ferr != nil {
					return
				}
				// p new failures on a random subset of exactly p shards
				dmg2 := make([]string, n)
				for i := range dmg2 {
					dmg2[i] = "g"
				}
				for k := 0; k < par; {
					i := p.Intn(n)
					if dmg2[i] == "g" {
						dmg2[i] = ecx.Concrete(p, kinds2[p.Intn(len(kinds2))], size, d)
						if !ecx.Effective(dmg2[i], size, d) {
							dmg2[i] = "m"
						}
						k++
					}
				}
				ferr = x.do(d, par, size, p.Intn(256), p.Intn(3), dmg, dmg2)
			})
			if ferr != nil {
				return ferr
			}
		}
	}
	s.Rep.Extra = map[string]any{"child_spawns": r.Spawns, "variant": v}
	return s.Finish()
}

func main() {
	hx.Main(run, "Sop.FactsC26", nil, map[string]func([]string) error{"ecchild": ecx.ChildMain})
}
