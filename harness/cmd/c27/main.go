// C27 — the passive copy stays a faithful replica and can be reinstated.
//
// Real replicated transactions (built as infs.NewTwoPhaseCommitTransactionWithReplication builds them: active and
// passive store folders, EC 2+1 blob drives) run generated histories of store creation, commits (adds, updates,
// removes of items), RemoveBtree, real filesystem faults on the passive side (the drive or one store folder replaced
// by an object of the wrong kind, so every write under it fails), drive repair (same contents / empty drive),
// ReinstateFailedDrives as a whole or phase by phase with commits in between, TriggerFailover and process restarts.
// After every step both folders' decoded metadata (store list, store infos, registry handle images, status file), the
// process-wide and the L2 copy of the replication status are compared with the Lean model Sop.Replication; a freshly
// started process dumps the stores and is compared with a reference map of what was committed.
package main

import (
	"context"
	"fmt"
	"os"
	"sort"
	"strings"
	"time"

	"github.com/sharedcode/sop"
	"github.com/sharedcode/sop/cache"
	"github.com/sharedcode/sop/common"
	"github.com/sharedcode/sop/fs"

	"verifharness/hx"
	"verifharness/replx"
	"verifharness/storex"
)

func main() { hx.Main(run, "", nil, nil) }

type world struct {
	ctx   context.Context
	s     *hx.Session
	e     *storex.Env
	cn    *replx.Canon
	ref   map[string]map[int]string // committed contents (the direct oracle's reference)
	key   int
	rrt   any    // tracker of a reinstate in progress
	broke string // "", "drive", "store <name>"
	// history facts for the oracles
	everFault     bool
	failedKnown   bool // FailedToReplicate was observed set and no reinstate completed since
	removedInFail map[string]bool
	midReinstate  int // last completed reinstate phase (0 = none in progress)
	commitsInReinstate int
	loggedInReinstate  int
	synced        bool // passive is expected to equal active (fault-free so far, or cleanly reinstated)
	catFault      bool // a catalogue operation (create / remove) hit the passive fault: nothing records that
	// wiped: the harness itself discarded the passive folder's contents (`heal empty`: the drive swapped for a new, empty
	// one) at a moment when the passive folder was still an exact replica and NO operation of the code had run against
	// the fault (no commit, creation or removal between `break drive` and the swap). The code never performed a passive
	// write that failed, so nothing can have been recorded and ReinstateFailedDrives rightly refuses; the difference
	// between the folders is the environment's doing (the same as deleting a healthy passive folder), outside the
	// property's quantifier ("passive-side failures at a replication step"). From here on the passive folder is not
	// expected to equal the active one; the correspondence with the model and the active-side oracles stay on.
	wiped bool
	hm        int  // the registry hash-mod value the database is created with (every transaction of "this process" passes it)
	hmOmitted bool // a reinstate left the passive folder without reghashmod.txt (C27-F10)
	dead          bool // the case stopped observing (a racy outcome followed)
	dirtyWhy      string
}

func (w *world) togglerFirst() bool {
	if fs.GlobalReplicationDetails != nil {
		return fs.GlobalReplicationDetails.ActiveFolderToggler
	}
	return true
}

func (w *world) passiveDir() string {
	if w.togglerFirst() {
		return w.e.Folders[1]
	}
	return w.e.Folders[0]
}

func (w *world) handles(ps []sop.RegistryPayload[sop.Handle]) string {
	var out []string
	for _, p := range ps {
		for _, h := range p.IDs {
			out = append(out, p.RegistryTable+"|"+w.cn.ID(h.LogicalID)+"|"+w.cn.Image(h))
		}
	}
	if len(out) == 0 {
		return "-"
	}
	return strings.Join(out, ",")
}

func (w *world) keys(ps []sop.RegistryPayload[sop.Handle]) string {
	var out []string
	for _, p := range ps {
		for _, h := range p.IDs {
			out = append(out, p.RegistryTable+"|"+w.cn.ID(h.LogicalID))
		}
	}
	if len(out) == 0 {
		return "-"
	}
	return strings.Join(out, ",")
}

// metaOf reads one folder's metadata; a broken drive's contents live aside.
func (w *world) metaOf(dir string) string {
	st, err := os.Stat(dir)
	if err != nil || !st.IsDir() {
		if _, e2 := os.Stat(dir + ".verif-sav"); e2 == nil {
			dir = dir + ".verif-sav"
		}
	}
	m, err := replx.ReadMeta(dir)
	if err != nil {
		return "ERR " + err.Error()
	}
	return m.Render(w.cn)
}

func stripStatus(s string) string {
	if i := strings.LastIndex(s, " st="); i >= 0 {
		return s[:i]
	}
	return s
}

func (w *world) l2Flags() string {
	var d fs.ReplicationTrackedDetails
	found, err := w.e.L2.GetStruct(w.ctx, "Rreplstat:"+w.e.Folders[0], &d)
	if err != nil || !found {
		return "nil"
	}
	return replx.Bits(d)
}

func (w *world) logCount() int {
	n := 0
	for _, f := range w.e.Folders {
		ents, _ := os.ReadDir(f + "/commitlogs")
		n += len(ents)
	}
	return n
}

func (w *world) meta() {
	if w.dead {
		return
	}
	g := "nil"
	if fs.GlobalReplicationDetails != nil {
		g = replx.Bits(*fs.GlobalReplicationDetails)
	}
	f0, f1 := w.metaOf(w.e.Folders[0]), w.metaOf(w.e.Folders[1])
	w.s.Op("meta", fmt.Sprintf("g=%s l2=%s logs=%d F0: %s F1: %s", g, w.l2Flags(), w.logCount(), f0, f1))
	// the two folders as sets of files, by replicated kind (store list, hash-mod file, store infos, registry segment
	// files, and any file of a kind this harness does not know): same relative paths, whole-file kinds byte-identical
	fsd := ""
	if w.broke == "" {
		fsd = replx.DiffFileSets(w.e.Folders[0], w.e.Folders[1])
	}
	if fsd != "" {
		w.s.Hit("file_sets_differ")
	} else if w.broke == "" {
		w.s.Hit("file_sets_equal")
	}
	if w.synced && w.broke == "" && w.midReinstate == 0 && (stripStatus(f0) != stripStatus(f1) || fsd != "") {
		if fsd != "" {
			f1 += " | files: " + fsd
		}
		sig := "C27/passive-differs-fault-free"
		if w.catFault {
			sig = "C27/passive-diverged-unrecorded-after-catalogue-fault"
		} else if w.everFault {
			sig = "C27/passive-differs-after-reinstate"
		}
		w.s.Fail(sig, "the passive folder's store list / store infos / registry differ from the active folder's although no fault is outstanding", f0+" vs "+f1)
	}
}

func (w *world) failedNow() bool {
	return fs.GlobalReplicationDetails != nil && fs.GlobalReplicationDetails.FailedToReplicate
}

// passiveSnapshot is used by the "no further passive writes" oracle
func (w *world) passiveSnapshot() string { return stripStatus(w.metaOf(w.passiveDir())) }

func (w *world) afterOp(before string, wasFailed bool, what string) {
	if wasFailed && w.midReinstate == 0 {
		after := w.passiveSnapshot()
		if after != before {
			w.s.Fail("C27/passive-written-after-failure", "FailedToReplicate was set, yet "+what+" changed the passive folder (fileIO.replicate does not consult the flag)", before+" -> "+after)
		}
	}
	if w.failedNow() {
		w.failedKnown = true
		w.synced = false
	}
}

// write runs one transaction on store name: create it when absent, add / update / remove items, commit.
func (w *world) write(name string, nAdd, nUpd, nDel int) {
	if w.dead {
		return
	}
	before, wasFailed := w.passiveSnapshot(), w.failedNow()
	// every transaction builds its tracker and store repository first: NewStoreRepository(…, hash-mod value) persists the
	// value (active folder, replayed on the passive one) when the active folder has no reghashmod.txt
	w.s.Op(fmt.Sprintf("open %d", w.e.HashMod), "ok")
	t, err := w.e.NewTxn(w.ctx, sop.ForWriting, time.Minute, nil)
	if err != nil {
		panic(err)
	}
	if err := t.T.Begin(w.ctx); err != nil {
		panic(err)
	}
	_, existed := w.ref[name]
	b, err := storex.NewBtree(w.ctx, t, name, storex.Opts{Slot: 4, Unique: true})
	if !existed {
		out := "created"
		if err != nil {
			out = "err:create"
		}
		w.s.Op(fmt.Sprintf("create %s 4 1", name), out)
		w.s.Hit("create:" + out)
		if err != nil {
			if w.broke != "" {
				w.catFault = true
				w.s.Fail("C27/create-fails-when-passive-unreachable", "a passive-side I/O error makes NewBtree fail and rolls the store creation back on the active side; FailedToReplicate is not set",
					w.broke+": "+err.Error())
			} else {
				w.s.Fail("C27/create-fails", "NewBtree failed without an outstanding fault", err.Error())
			}
			w.afterOp(before, wasFailed, "a failed store creation")
			return
		}
		w.ref[name] = map[int]string{}
		if wasFailed {
			w.afterOp(before, wasFailed, "a store creation")
			before = w.passiveSnapshot()
		}
	} else if err != nil {
		panic(fmt.Sprintf("NewBtree(%s) on an existing store: %v", name, err))
	}
	cur := w.ref[name]
	next := map[int]string{}
	for k, v := range cur {
		next[k] = v
	}
	var ks []int
	for k := range cur {
		ks = append(ks, k)
	}
	sort.Ints(ks)
	changed := false
	for i := 0; i < nDel && i < len(ks); i++ {
		if ok, err := b.Remove(w.ctx, ks[i]); err == nil && ok {
			delete(next, ks[i])
			changed = true
		}
	}
	for i := nDel; i < nDel+nUpd && i < len(ks); i++ {
		v := fmt.Sprintf("u%d", w.key+i)
		if ok, err := b.Update(w.ctx, ks[i], v); err == nil && ok {
			next[ks[i]] = v
			changed = true
		}
	}
	for i := 0; i < nAdd; i++ {
		w.key++
		v := fmt.Sprintf("v%d", w.key)
		if ok, err := b.Add(w.ctx, w.key, v); err == nil && ok {
			next[w.key] = v
			changed = true
		}
	}
	cerr := t.T.Commit(w.ctx)
	if !changed {
		return
	}
	r, a, u, d, stores := common.VerifCommitHandles(t.P)
	out := "ok"
	if cerr != nil {
		out = "err"
	}
	count := "-" // the count delta is 0: no store info is updated, replicated or logged
	if len(stores) > 0 {
		count = fmt.Sprint(stores[0].Count)
	} else {
		w.s.Hit("commit_without_count_change")
	}
	w.s.Op(fmt.Sprintf("commit %s %s R=%s A=%s U=%s D=%s", name, count, w.handles(r), w.handles(a), w.handles(u), w.keys(d)), out)
	w.s.Hit("commit:" + out)
	if len(d) > 0 {
		w.s.Hit("commit_with_removed_nodes")
	}
	if len(a) > 0 {
		w.s.Hit("commit_with_added_nodes")
	}
	if cerr != nil {
		if w.broke != "" {
			w.s.Fail("C27/commit-fails-when-passive-unreachable", "a passive-side I/O error changed the outcome of a commit", w.broke+": "+cerr.Error())
		} else {
			w.s.Fail("C27/commit-fails", "commit failed without an outstanding fault", cerr.Error())
		}
		return
	}
	w.ref[name] = next
	if w.broke == "" && !wasFailed && w.failedNow() && w.wiped {
		// the emptied drive (see world.wiped) lacks a record this commit removes: the code notices and records the
		// failure, which is what it should do. Same goroutine race as below: stop observing.
		w.s.Hit("unobserved_wipe_detected_by_commit")
		w.dead = true
		return
	}
	if w.broke == "" && !wasFailed && w.failedNow() {
		// replication failed on a writable passive folder (a record the passive registry should have is missing);
		// whether the store info was still written is a race between two goroutines: stop observing this case
		w.s.Fail("C27/replication-fails-again-on-incomplete-passive", "after a reinstate the passive registry lacks records, so a later commit's registry replication fails (can't delete a missing item) and FailedToReplicate is set again", name)
		w.dead = true
		return
	}
	if w.broke != "" && !wasFailed {
		w.s.Hit("fault_hit_during_commit")
		w.everFault = true
		if !w.failedNow() {
			w.s.Fail("C27/fault-not-recorded", "a passive-side write failed during commit replication but FailedToReplicate was not set", w.broke)
		}
	}
	if w.midReinstate > 0 && w.midReinstate < 4 {
		w.commitsInReinstate++
	}
	w.afterOp(before, wasFailed, "a commit")
}

func (w *world) remove(name string) {
	if w.dead {
		return
	}
	before, wasFailed := w.passiveSnapshot(), w.failedNow()
	w.s.Op(fmt.Sprintf("open %d", fs.MinimumModValue), "ok") // RemoveBtree builds its repository with MinimumModValue
	err := w.e.RemoveBtree(w.ctx, name)
	out := "ok"
	if err != nil {
		out = "err"
	}
	delete(w.ref, name)
	w.s.Op("remove "+name, out)
	w.s.Hit("remove:" + out)
	if err != nil && w.broke != "" {
		w.catFault = true
		w.s.Fail("C27/remove-errors-when-passive-unreachable", "RemoveBtree returns an error because the passive folder cannot be written (the active side is already removed)", err.Error())
	}
	if w.broke != "" || wasFailed {
		w.removedInFail[name] = true
	}
	w.afterOp(before, wasFailed, "RemoveBtree")
}

func (w *world) brk(kind, name string) {
	if w.dead {
		return
	}
	if kind == "drive" {
		if err := replx.Break(w.passiveDir()); err != nil {
			panic(err)
		}
		w.broke = "drive"
		w.s.Op("break drive", "ok")
	} else {
		if err := replx.Break(w.passiveDir() + "/" + name); err != nil {
			panic(err)
		}
		w.broke = "store " + name
		w.s.Op("break store "+name, "ok")
	}
	w.s.Hit("break:" + kind)
}

func (w *world) heal(keep bool) {
	if w.dead {
		return
	}
	path := w.passiveDir()
	if strings.HasPrefix(w.broke, "store ") {
		path += "/" + strings.TrimPrefix(w.broke, "store ")
		keep = true
	}
	if keep {
		replx.HealKeep(path)
		os.MkdirAll(w.passiveDir(), 0o755)
		w.s.Op("heal keep", "ok")
		w.s.Hit("heal:keep")
	} else {
		// did any operation of the code meet the fault? (a commit that met it recorded FailedToReplicate -> synced is
		// already false; a creation / removal that met it set catFault, C27-F9)
		unobserved := w.synced && !w.catFault && !w.everFault && !w.failedKnown && !w.failedNow()
		replx.HealEmpty(path)
		w.s.Op("heal empty", "ok")
		w.s.Hit("heal:empty")
		w.removedInFail = map[string]bool{}
		if unobserved {
			w.wiped = true
			w.synced = false
			w.s.Hit("heal:empty_before_any_write_met_the_fault")
		}
	}
	w.broke = ""
}

func (w *world) reinstateDone() {
	// passive should now equal active; name the mechanism when it cannot
	w.midReinstate = 0
	w.failedKnown = false
	w.synced = true
	w.rrt = nil
	// When the reinstate left the passive registry incomplete (C27-F4), what later replication does to the missing
	// records depends on hash-slot placement (C21's matter) and on a goroutine race: report and stop observing.
	regOf := func(m string) string {
		i, j := strings.Index(m, " reg="), strings.LastIndex(m, " hm=")
		if i < 0 || j < i {
			return m
		}
		return m[i:j]
	}
	f0, f1 := w.metaOf(w.e.Folders[0]), w.metaOf(w.e.Folders[1])
	if regOf(f0) != regOf(f1) {
		w.s.Op("meta", fmt.Sprintf("g=%s l2=%s logs=%d F0: %s F1: %s", w.gBits(), w.l2Flags(), w.logCount(), f0, f1))
		w.s.Fail("C27/passive-differs-after-reinstate", "after ReinstateFailedDrives the passive registry is not the active one", f0+" vs "+f1)
		w.s.Hit("reinstate_left_passive_incomplete")
		w.dead = true
	} else {
		w.s.Hit("reinstate_registry_complete")
	}
	hmOf := func(m string) string {
		i, j := strings.LastIndex(m, " hm="), strings.LastIndex(m, " st=")
		if i < 0 || j < i {
			return m
		}
		return m[i:j]
	}
	if hmOf(f0) != hmOf(f1) {
		// the copier does not copy reghashmod.txt and NewStoreRepository rewrites it only when the ACTIVE folder lacks it
		w.hmOmitted = true
		w.s.Hit("reinstate_omitted_reghashmod")
		w.s.Fail("C27/reinstate-omits-reghashmod", "after ReinstateFailedDrives onto a replacement drive the passive folder has no reghashmod.txt: CopyToPassiveFolders does not copy it and NewStoreRepository writes it only when the active folder lacks it", hmOf(f0)+" vs"+hmOf(f1))
	}
}

func (w *world) gBits() string {
	if fs.GlobalReplicationDetails != nil {
		return replx.Bits(*fs.GlobalReplicationDetails)
	}
	return "nil"
}

func (w *world) rphase(k int) {
	if w.dead {
		return
	}
	if k == 1 {
		rt, err := fs.NewReplicationTracker(w.ctx, w.e.Folders, true, w.e.L2)
		if err != nil {
			panic(err)
		}
		if err := fs.VerifReinstatePhase(w.ctx, rt, 0); err != nil {
			w.s.Op("rphase 1", "err:not-failed")
			return
		}
		w.rrt = rt
		w.commitsInReinstate, w.loggedInReinstate = 0, 0
	}
	err := fs.VerifReinstatePhase(w.ctx, w.rrt, k)
	out := "ok"
	if err != nil {
		out = "err"
		w.s.Fail("C27/reinstate-error", "a reinstate phase failed", fmt.Sprint(k, ": ", err))
	}
	if k == 3 || k == 5 {
		// logs are consumed here
	}
	w.s.Op(fmt.Sprintf("rphase %d", k), out)
	w.s.Hit(fmt.Sprintf("rphase:%d", k))
	w.midReinstate = k
	if k == 5 {
		cir := w.commitsInReinstate
		w.reinstateDone()
		w.everFault = true
		if cir > 0 {
			w.s.Hit("reinstate_with_interleaved_commits")
		}
	}
}

func (w *world) reinstate() {
	if w.dead {
		return
	}
	rt, err := fs.NewReplicationTracker(w.ctx, w.e.Folders, true, w.e.L2)
	if err != nil {
		panic(err)
	}
	err = rt.ReinstateFailedDrives(w.ctx)
	out := "ok"
	if err != nil {
		out = "err"
		if strings.Contains(err.Error(), "FailedToReplicate is false") {
			out = "err:not-failed"
		} else {
			w.s.Fail("C27/reinstate-error", "ReinstateFailedDrives failed", err.Error())
		}
	}
	w.s.Op("reinstate", out)
	w.s.Hit("reinstate:" + out)
	if err == nil {
		w.everFault = true
		w.reinstateDone()
	}
}

func (w *world) failover() {
	if w.dead {
		return
	}
	wasFirst := w.togglerFirst()
	wasFailed := w.failedNow()
	err := fs.TriggerFailover(w.ctx, w.e.Folders, true, w.e.L2)
	out := "ok"
	if err != nil {
		out = "err"
	}
	w.s.Op("failover", out)
	w.s.Hit("failover")
	if !wasFailed && err == nil {
		if w.togglerFirst() == wasFirst {
			w.s.Fail("C27/failover-no-effect", "TriggerFailover returned nil without switching folders although replication had not failed", "")
		}
		w.synced = false
		w.failedKnown = true
	} else if wasFailed {
		w.s.Hit("failover_refused_while_failed")
	}
}

func (w *world) cold() {
	if w.dead {
		return
	}
	cache.VerifResetGlobalL1()
	w.e.L2 = cache.NewL2InMemoryCache()
	cache.GetGlobalL1Cache(w.e.L2)
	replx.ResetProcessState()
	w.s.Op("cold", "ok")
	w.s.Hit("cold")
}

// colddump: what a freshly started process (own caches, no status in memory) believes and reads.
func (w *world) colddump() {
	if w.dead {
		return
	}
	var line string
	var ds []storex.StoreDump
	wantFirst := w.togglerFirst()
	var gotFirst bool
	mod := -1
	err := w.e.AsOtherProcess(func(o *storex.Env) error {
		// the fresh process does NOT pass the hash-mod value: it relies on the persisted one (what reghashmod.txt is for)
		o.HashMod = 0
		rt, err := fs.NewReplicationTracker(w.ctx, o.Folders, true, o.L2)
		if err != nil {
			return err
		}
		failed, first, _ := fs.VerifTrackerFlags(rt)
		gotFirst = first
		sr, err := fs.NewStoreRepository(w.ctx, rt, fs.NewManageStoreFolder(fs.NewFileIO()), o.L2, 0)
		if err != nil {
			return err
		}
		if mod, err = sr.GetRegistryHashModValue(w.ctx); err != nil {
			return err
		}
		ds, err = o.DumpHere(w.ctx)
		if err != nil {
			return err
		}
		var items []string
		for _, d := range ds {
			if d.Err == "open" {
				items = append(items, d.Name+":?") // no store info in the folder this process reads
			} else {
				// a store whose info is there but whose nodes cannot be read still shows its count; the oracle below flags it
				items = append(items, fmt.Sprintf("%s:%d", d.Name, d.Count))
			}
		}
		a, f := 1, 0
		if first {
			a = 0
		}
		if failed {
			f = 1
		}
		line = fmt.Sprintf("active=%d failed=%d mod=%d stores=[%s]", a, f, mod, strings.Join(items, ","))
		return nil
	})
	if err != nil {
		line = "ERR"
		w.s.Fail("C27/cold-dump-error", "a freshly started process cannot dump the stores", err.Error())
	}
	w.s.Op("colddump", line)
	w.s.Hit("colddump")
	if err != nil {
		return
	}
	if gotFirst != wantFirst {
		w.s.Fail("C27/failover-forgotten-by-cold-process", "after a failover a freshly started process (no L2 entry) goes back to the previously active folder: failover wrote the status file before flipping ActiveFolderToggler and readStatusFromHomeFolder takes the file's toggler", line)
		return
	}
	// direct oracle: the fresh process computes the hash modulus the database was created with …
	eff := mod
	if eff <= 0 {
		eff = fs.MinimumModValue
	}
	if eff != w.hm {
		if w.wiped {
			// the folder the environment emptied unobserved (see world.wiped) has become the one a fresh process reads:
			// outside the quantifier, nothing to judge from here on
			w.s.Hit("cold_open_reads_unobserved_wiped_folder")
			return
		}
		sig := "C27/cold-open-wrong-hash-mod"
		if w.hmOmitted {
			sig = "C27/reinstate-omits-reghashmod"
		} else if w.catFault {
			// the drive was swapped for an empty one after a fault that only catalogue operations met: nothing recorded
			// it, so ReinstateFailedDrives refused to run and the new drive never got the file (consequence of C27-F9)
			sig = "C27/passive-diverged-unrecorded-after-catalogue-fault"
		}
		w.s.Hit("cold_open_wrong_hash_mod")
		w.s.Fail(sig, "a freshly started process that does not pass the registry hash-mod value computes a modulus different from the one the database was created with (no reghashmod.txt in the folder it reads): handles are looked up in the wrong blocks",
			fmt.Sprintf("created with %d, persisted value read %d, modulus in effect %d; %s", w.hm, mod, eff, line))
		return
	}
	w.s.Hit("cold_open_right_hash_mod")
	// … and its dump equals what was committed (every committed item is found)
	got := map[string]string{}
	for _, d := range ds {
		got[d.Name] = strings.Join(d.Items, ",")
		if d.Err != "" {
			got[d.Name] = "ERR-" + d.Err
		}
	}
	want := map[string]string{}
	for n, kv := range w.ref {
		var ks []int
		for k := range kv {
			ks = append(ks, k)
		}
		sort.Ints(ks)
		var it []string
		for _, k := range ks {
			it = append(it, fmt.Sprintf("%d=%s", k, kv[k]))
		}
		want[n] = strings.Join(it, ",")
	}
	if fmt.Sprint(got) != fmt.Sprint(want) {
		sig := "C27/cold-dump-differs"
		if gotFirst != true {
			sig = "C27/stale-passive-after-failover"
		}
		w.s.Fail(sig, "a freshly started process does not read what was committed", fmt.Sprint(got, " want ", want))
	}
}

// the hash-mod values the cases cycle through: small ones (cheap segment files), the default (250: a lost
// reghashmod.txt is harmless then) and larger non-default ones (a reader falling back to 250 accepts the segment file
// and looks in the wrong blocks)
var hmValues = []int{4, 7, 400, 5, 16, 250, 4, 300, 13, 4}
var caseSeq int

func nextHashMod() int { caseSeq++; return hmValues[(caseSeq-1)%len(hmValues)] }

func newWorld(ctx context.Context, s *hx.Session, header string) (*world, func()) {
	return newWorldHM(ctx, s, header, 4)
}

func newWorldHM(ctx context.Context, s *hx.Session, header string, hm int) (*world, func()) {
	root, err := os.MkdirTemp(hx.WorkRoot(), "c27-")
	if err != nil {
		panic(err)
	}
	cache.VerifResetGlobalL1()
	replx.ResetProcessState()
	e := storex.NewEnv(root, true, hm)
	s.BeginCase(header)
	s.Hit(fmt.Sprintf("hashmod:%d", hm))
	return &world{hm: hm, ctx: ctx, s: s, e: e, cn: replx.NewCanon(), ref: map[string]map[int]string{}, removedInFail: map[string]bool{}, synced: true},
		func() { os.RemoveAll(root) }
}

var names = []string{"sa", "sb", "sc"}

func (w *world) randomWrite(p *hx.Prng) {
	n := names[p.Intn(len(names))]
	if strings.HasPrefix(w.broke, "store ") && strings.TrimPrefix(w.broke, "store ") == n {
		if _, ok := w.ref[n]; !ok {
			return
		}
	}
	w.write(n, 1+p.Intn(6), p.Intn(3), p.Intn(3))
}

func (w *world) randomRemove(p *hx.Prng) {
	n := names[p.Intn(len(names))]
	if _, ok := w.ref[n]; !ok {
		return
	}
	if w.broke == "store "+n {
		return
	}
	w.remove(n)
}

func (w *world) existing() []string {
	var out []string
	for n := range w.ref {
		out = append(out, n)
	}
	sort.Strings(out)
	return out
}

// fault-free history, then failover, then a cold dump
func caseFaultFree(ctx context.Context, s *hx.Session, p *hx.Prng) {
	w, clean := newWorldHM(ctx, s, "faultfree", nextHashMod())
	defer clean()
	s.Hit("case:faultfree")
	k := 4 + p.Intn(8)
	for i := 0; i < k; i++ {
		if p.Chance(1, 6) {
			w.randomRemove(p)
		} else {
			w.randomWrite(p)
		}
		w.meta()
	}
	if len(w.ref) > 0 {
		s.Nontrivial()
	}
	if p.Chance(1, 3) {
		w.cold()
		w.randomWrite(p)
		w.meta()
	}
	w.colddump()
	w.failover()
	w.meta()
	w.colddump()
	w.randomWrite(p)
	w.meta()
	w.colddump()
}

// a passive fault, activity under it, repair, reinstate, more activity, failover
func caseFault(ctx context.Context, s *hx.Session, p *hx.Prng, directed int) {
	w, clean := newWorldHM(ctx, s, "fault", nextHashMod())
	defer clean()
	s.Hit("case:fault")
	for i := 0; i < 2+p.Intn(3); i++ {
		w.randomWrite(p)
	}
	w.meta()
	ex := w.existing()
	if len(ex) == 0 {
		return
	}
	s.Nontrivial()
	driveFault := p.Chance(1, 2) || directed == 1
	if directed == 2 {
		driveFault = false
	}
	if driveFault {
		w.brk("drive", "")
	} else {
		w.brk("store", ex[p.Intn(len(ex))])
	}
	steps := 2 + p.Intn(5)
	for i := 0; i < steps; i++ {
		r := p.Intn(10)
		switch {
		case r < 6:
			if strings.HasPrefix(w.broke, "store ") && !w.failedNow() {
				n := strings.TrimPrefix(w.broke, "store ")
				w.write(n, 1+p.Intn(4), p.Intn(2), p.Intn(2)) // hit the broken store first
			} else {
				w.randomWrite(p)
			}
		case r < 8:
			w.randomRemove(p)
		default:
			w.meta()
		}
	}
	w.meta()
	w.heal(p.Chance(1, 2))
	for i := 0; i < p.Intn(3); i++ {
		w.randomWrite(p)
	}
	w.meta()
	if p.Chance(1, 4) {
		w.cold() // the reinstate is run by a fresh process: no L2 entry
	}
	if !w.failedNow() && fs.GlobalReplicationDetails != nil {
		// nothing recorded the fault (only catalogue operations ran): reinstate refuses
		w.reinstate()
		w.meta()
		w.colddump()
		return
	}
	if p.Chance(1, 2) {
		w.reinstate()
	} else {
		w.rphase(1)
		if w.rrt != nil {
			if p.Chance(2, 3) {
				w.randomWrite(p)
			}
			w.rphase(2)
			if p.Chance(2, 3) {
				w.randomWrite(p)
			}
			w.meta()
			w.rphase(3)
			w.rphase(4)
			w.rphase(5)
		}
	}
	w.meta()
	for i := 0; i < 1+p.Intn(3); i++ {
		w.randomWrite(p)
		w.meta()
	}
	w.colddump()
	w.failover()
	w.meta()
	w.colddump()
}

// The drive fails, nothing is written while it is down, and it is swapped for an empty one: no passive write ever
// failed, so no failure is recorded and ReinstateFailedDrives refuses. The passive folder is empty because the
// environment emptied it; that is not a violation (thorough seed 1 case 318 reported it as one). Later commits
// replicate onto the new drive (registry set / add are upserts).
func caseUnobservedWipe(ctx context.Context, s *hx.Session) {
	w, clean := newWorld(ctx, s, "fault")
	defer clean()
	s.Hit("case:unobserved_wipe")
	w.write("sb", 1, 0, 0)
	w.write("sc", 3, 0, 0)
	w.meta()
	s.Nontrivial()
	w.brk("drive", "")
	w.meta()
	w.meta()
	w.meta()
	w.heal(false)
	w.meta()
	if !w.wiped || w.failedNow() {
		s.Fail("C27/harness-self-check", "the directed unobserved-wipe case did not reach the state it is about", fmt.Sprint(w.wiped, w.failedNow()))
	}
	w.reinstate() // err:not-failed
	w.meta()
	w.colddump()
	w.write("sb", 2, 1, 0)
	w.meta()
	w.colddump()
}

// A database created with a non-default hash-mod value, no fault at all: commits, a cold open that does not pass the
// value, failover, cold open again from the former passive folder, more commits there, restart.
func caseHashMod(ctx context.Context, s *hx.Session, hm int) {
	w, clean := newWorldHM(ctx, s, "faultfree", hm)
	defer clean()
	s.Hit("case:hashmod_directed")
	w.write("sa", 6, 0, 0)
	w.write("sb", 5, 0, 0)
	w.write("sa", 6, 1, 1)
	w.meta()
	s.Nontrivial()
	w.colddump()
	w.failover()
	w.meta()
	w.colddump()
	w.write("sa", 4, 1, 0)
	w.meta()
	w.cold()
	w.write("sb", 3, 0, 1)
	w.meta()
	w.colddump()
	w.remove("sb")
	w.meta()
	w.colddump()
}

func run(o hx.RunOpts) error {
	sop.RetryStartDuration = time.Millisecond
	s := hx.NewSession(o, "cases: real replicated transactions (active/passive folders + EC 2+1 blob drives) run histories of store creation, commits with item adds/updates/removes "+
		"(the commit's handle sets are read off the transaction and given to the model), RemoveBtree, passive-side faults (drive or one store folder replaced by a file: every write below fails), "+
		"repair (same contents / empty drive), ReinstateFailedDrives whole or phase by phase with commits in between, TriggerFailover, process restart; after each step both folders' decoded "+
		"metadata and the in-memory / L2 / on-disk replication status are compared with the model, and a freshly started process's dump with a reference map. distinct = canonical op-line hash; "+
		"non-trivial = at least one store exists when the fault / failover part starts")
	ctx := context.Background()
	p := hx.NewPrng(o.Seed)
	// directed corpus first
	caseFault(ctx, s, hx.NewPrng(11), 1)
	caseFault(ctx, s, hx.NewPrng(12), 2)
	caseFaultFree(ctx, s, hx.NewPrng(13))
	caseUnobservedWipe(ctx, s)
	caseHashMod(ctx, s, 400)
	caseHashMod(ctx, s, 251)
	n := o.N(120, 900)
	for i := 0; i < n; i++ {
		if i%3 == 0 {
			caseFaultFree(ctx, s, p.Fork())
		} else {
			caseFault(ctx, s, p.Fork(), 0)
		}
	}
	return s.Finish()
}
