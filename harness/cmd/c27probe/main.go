package main

import (
	"context"
	"fmt"
	"os"
	"path/filepath"
	"time"

	"github.com/sharedcode/sop"
	"github.com/sharedcode/sop/fs"

	"verifharness/replx"
	"verifharness/storex"
)

var ctx = context.Background()

func must(err error) {
	if err != nil {
		panic(err)
	}
}

func write(e *storex.Env, name string, o storex.Opts, kv map[int]string) error {
	t, err := e.NewTxn(ctx, sop.ForWriting, time.Minute, nil)
	must(err)
	must(t.T.Begin(ctx))
	b, err := storex.NewBtree(ctx, t, name, o)
	if err != nil {
		return fmt.Errorf("newbtree: %w", err)
	}
	for k, v := range kv {
		if _, err := b.Add(ctx, k, v); err != nil {
			return err
		}
	}
	return t.T.Commit(ctx)
}

func show(e *storex.Env, tag string) {
	d, err := e.ColdDump(ctx)
	fmt.Printf("== %s: dump=%s err=%v\n", tag, storex.DumpString(d), err)
	for _, f := range e.Folders {
		w, l := storex.StoreFolders(f)
		fmt.Printf("   %s: infos=%v list=%s\n", filepath.Base(f), w, l)
		for _, x := range storex.ListFiles(f) {
			fmt.Printf("      %s\n", x)
		}
	}
	fmt.Printf("   global=%+v\n", fs.GlobalReplicationDetails)
	cn := replx.NewCanon()
	for _, f := range e.Folders {
		m, err := replx.ReadMeta(f)
		if err != nil {
			fmt.Println("   meta err", err)
			continue
		}
		fmt.Printf("   META %s: %s logs=%v status=%s\n", filepath.Base(f), m.Render(cn), m.Logs, m.Status)
	}
}

func c12() {
	root, _ := os.MkdirTemp("", "p12-")
	defer os.RemoveAll(root)
	e := storex.NewEnv(root, false, 4)
	// winner and loser race on "s"
	gate := make(chan struct{})
	parked := make(chan struct{})
	hl := &storex.Hooks{}
	hl.BeforeSR = func(call string, names []string) {
		if call == "Add" {
			parked <- struct{}{}
			<-gate
		}
	}
	tl, err := e.NewTxn(ctx, sop.ForWriting, time.Minute, hl)
	must(err)
	must(tl.T.Begin(ctx))
	done := make(chan error)
	go func() {
		_, err := storex.NewBtree(ctx, tl, "s", storex.Opts{Slot: 4, Unique: true})
		done <- err
	}()
	<-parked
	// winner
	tw, err := e.NewTxn(ctx, sop.ForWriting, time.Minute, nil)
	must(err)
	must(tw.T.Begin(ctx))
	bw, err := storex.NewBtree(ctx, tw, "s", storex.Opts{Slot: 4, Unique: true})
	must(err)
	bw.Add(ctx, 1, "w1")
	show(e, "winner added store, loser parked")
	gate <- struct{}{}
	fmt.Println("loser NewBtree err:", <-done, "calls:", hl.CallLines())
	show(e, "after loser finished")
	fmt.Println("winner commit:", tw.T.Commit(ctx))
	show(e, "after winner commit")
	fmt.Println("recreate:", write(e, "s", storex.Opts{Slot: 8, Unique: false}, map[int]string{5: "x"}))
	show(e, "after recreate")
}

func c27() {
	sop.RetryStartDuration = time.Millisecond
	root, _ := os.MkdirTemp("", "p27-")
	defer os.RemoveAll(root)
	e := storex.NewEnv(root, true, 4)
	fmt.Println("write a:", write(e, "a", storex.Opts{Slot: 4, Unique: true}, map[int]string{1: "a1", 2: "a2", 3: "a3", 4: "a4", 5: "a5", 6: "a6"}))
	fmt.Println("write b:", write(e, "b", storex.Opts{Slot: 4, Unique: true}, map[int]string{1: "b1"}))
	show(e, "fault-free")
	// fault: passive registry table folder of a becomes a file
	pa := filepath.Join(e.Folders[1], "a")
	must(os.Rename(pa, pa+".sav"))
	must(os.WriteFile(pa, []byte("x"), 0o644))
	fmt.Println("write a (passive a broken):", write(e, "a", storex.Opts{Slot: 4, Unique: true}, map[int]string{10: "a10"}))
	show(e, "after passive fault")
	fmt.Println("write b after fault:", write(e, "b", storex.Opts{Slot: 4, Unique: true}, map[int]string{2: "b2"}))
	fmt.Println("write c after fault:", write(e, "c", storex.Opts{Slot: 4, Unique: true}, map[int]string{1: "c1"}))
	fmt.Println("remove b:", e.RemoveBtree(ctx, "b"))
	show(e, "after more commits")
	// drive repaired: put an empty folder
	os.Remove(pa)
	must(os.Rename(pa+".sav", pa))
	rt, err := fs.NewReplicationTracker(ctx, e.Folders, true, e.L2)
	must(err)
	fmt.Println("reinstate:", rt.ReinstateFailedDrives(ctx))
	show(e, "after reinstate")
	fmt.Println("write a after reinstate:", write(e, "a", storex.Opts{Slot: 4, Unique: true}, map[int]string{11: "a11"}))
	show(e, "after reinstate+commit")
	fmt.Println("failover:", fs.TriggerFailover(ctx, e.Folders, true, e.L2))
	show(e, "after failover")
}

func c27b() {
	sop.RetryStartDuration = time.Millisecond
	root, _ := os.MkdirTemp("", "p27b-")
	defer os.RemoveAll(root)
	e := storex.NewEnv(root, true, 4)
	fmt.Println("write a:", write(e, "a", storex.Opts{Slot: 4, Unique: true}, map[int]string{1: "a1"}))
	// whole passive drive gone
	p := e.Folders[1]
	must(os.Rename(p, p+".sav"))
	must(os.WriteFile(p, []byte("x"), 0o644))
	fmt.Println("write c (passive drive gone):", write(e, "c", storex.Opts{Slot: 4, Unique: true}, map[int]string{1: "c1"}))
	show(e, "after create with dead passive")
	fmt.Println("write a (passive drive gone):", write(e, "a", storex.Opts{Slot: 4, Unique: true}, map[int]string{2: "a2"}))
	fmt.Println("write c again:", write(e, "c", storex.Opts{Slot: 4, Unique: true}, map[int]string{1: "c1"}))
	fmt.Println("remove a:", e.RemoveBtree(ctx, "a"))
	show(e, "after more")
	os.Remove(p)
	os.MkdirAll(p, 0o755) // replaced by an empty drive
	rt, err := fs.NewReplicationTracker(ctx, e.Folders, true, e.L2)
	must(err)
	fmt.Println("phase1:", fs.VerifReinstatePhase(ctx, rt, 1))
	fmt.Println("write d during logging:", write(e, "d", storex.Opts{Slot: 4, Unique: true}, map[int]string{1: "d1", 2: "d2", 3: "d3", 4: "d4", 5: "d5", 6: "d6"}))
	fmt.Println("phase2:", fs.VerifReinstatePhase(ctx, rt, 2))
	fmt.Println("write d after copy:", write(e, "d", storex.Opts{Slot: 4, Unique: true}, map[int]string{7: "d7", 8: "d8", 9: "d9", 10: "d10", 11: "d11"}))
	show(e, "before ff")
	fmt.Println("phase3:", fs.VerifReinstatePhase(ctx, rt, 3))
	fmt.Println("phase4:", fs.VerifReinstatePhase(ctx, rt, 4))
	fmt.Println("phase5:", fs.VerifReinstatePhase(ctx, rt, 5))
	show(e, "after reinstate")
	fmt.Println("failover:", fs.TriggerFailover(ctx, e.Folders, true, e.L2))
	show(e, "after failover")
}

func c12b() {
	for _, recreate := range []bool{false, true} {
		root, _ := os.MkdirTemp("", "p12b-")
		e := storex.NewEnv(root, true, 4)
		t2, _ := e.NewTxn(ctx, sop.ForWriting, time.Minute, nil)
		t2.T.Begin(ctx)
		storex.NewBtree(ctx, t2, "sc", storex.Opts{Slot: 4, Unique: true})
		t3, _ := e.NewTxn(ctx, sop.ForWriting, time.Minute, nil)
		t3.T.Begin(ctx)
		b3, err := storex.NewBtree(ctx, t3, "sc", storex.Opts{Slot: 4, Unique: true})
		fmt.Println("t3 open:", err)
		b3.Add(ctx, 1, "v1")
		fmt.Println("t2 rollback:", t2.T.Rollback(ctx))
		if recreate {
			fmt.Println("recreate:", write(e, "sc", storex.Opts{Slot: 4, Unique: true}, map[int]string{7: "x"}))
		}
		fmt.Println("recreate", recreate, "t3 commit:", t3.T.Commit(ctx))
		show(e, "after")
		os.RemoveAll(root)
	}
}

func main() {
	if len(os.Args) > 1 && os.Args[1] == "c12b" {
		c12b()
		return
	}
	if len(os.Args) > 1 && os.Args[1] == "c27b" {
		c27b()
		return
	}
	if len(os.Args) > 1 && os.Args[1] == "c12" {
		c12()
		return
	}
	c27()
}
