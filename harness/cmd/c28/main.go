// C28 — a lock is held by at most one owner and only its owner can release it.
// Drives the real cache.L2InMemoryCache (per-shard capacities 1,2,5,1000, keys forced into one shard) and the real
// adapters/redis client (against harness/fakeredis with a controlled clock) with lock programs of several owners,
// records every answer plus "who IsLocked what" after every call for the Lean model, and evaluates the property
// directly: every owner that was granted a lease which has neither been unlocked nor run out must still be
// confirmed by IsLocked, and no key may have two such owners.
package main

import (
	"context"
	"fmt"
	"io"
	"log/slog"
	"os"
	"sort"
	"strconv"
	"strings"
	"time"

	"github.com/sharedcode/sop"
	redisad "github.com/sharedcode/sop/adapters/redis"
	"github.com/sharedcode/sop/cache"

	"verifharness/fakeredis"
	"verifharness/hx"
)

func main() { hx.Main(run, "", nil, nil) }

const fillerOwner = 99

// ---- time-to-live classes ----

type ttl struct {
	name  string
	memNs int64 // model duration, in-memory (ns)
	redMs int64 // model duration, redis (ms)
	rank  int   // short < mid < long
}

var (
	ttlShort = ttl{"short", 1, 50, 0}            // in-memory: 1ns = already over at the next clock reading
	ttlMid   = ttl{"mid", 200_000_000, 2000, 1}  // in-memory: 200ms, only in cases that really sleep
	ttlOdd   = ttl{"odd", 200_000_000, 1500, 1}  // redis: not a whole number of seconds (PX path of go-redis)
	ttlLong  = ttl{"long", 3_600_000_000_000, 3_600_000, 2}
	ttlZero  = ttl{"zero", 0, 0, 2} // in-memory only: duration 0 -> Lock's 15 minute default
)

const memSleepNs = 300_000_000

func (t ttl) memDur() time.Duration { return time.Duration(t.memNs) }
func (t ttl) redDur() time.Duration { return time.Duration(t.redMs) * time.Millisecond }

func ownerID(o int) sop.UUID {
	var u sop.UUID
	u[0] = 0xC2
	u[1] = 0x8A
	u[15] = byte(o)
	u[14] = byte(o >> 8)
	return u
}
func ownerOf(u sop.UUID) int {
	if u == sop.NilUUID {
		return 0
	}
	if u[0] != 0xC2 || u[1] != 0x8A {
		return -1
	}
	return int(u[15]) | int(u[14])<<8
}

func joinInts(a []int) string {
	if len(a) == 0 {
		return "-"
	}
	s := make([]string, len(a))
	for i, x := range a {
		s[i] = strconv.Itoa(x)
	}
	return strings.Join(s, ",")
}
func b01(b bool) string {
	if b {
		return "1"
	}
	return "0"
}

// ---- the two worlds behind one interface ----

type world interface {
	kind() string
	lock(o int, t ttl, keys []int, dual bool) (ok bool, owner int, hints []int, err error)
	isLocked(o int, keys []int) (bool, error)
	isLockedTTL(o int, t ttl, keys []int) (bool, error)
	unlock(o int, keys []int) error
	advance(units int64)
	holds(o, k int) bool       // fresh LockKey objects: does not disturb the owners' own objects
	present(k int) (int, bool) // physical/visible entry of k and its owner
	observe(owners, keys []int) string
	flag(o, k int) bool
	close()
}

// ---------- in-memory ----------

type memNames struct {
	names map[int]string // key id -> name (without the "lock:" prefix)
	ids   map[string]int // full lock key -> id
}

var memTable *memNames

// buildMemNames finds, per group g (= model shard g), names whose *formatted lock key* falls into one shard of the
// real sharded map and whose string order is the order of their ids (Lock sorts by Key).
func buildMemNames(l2 sop.L2Cache) *memNames {
	t := &memNames{names: map[int]string{}, ids: map[string]int{}}
	want := []int{1100, 12, 12}
	for g, n := range want {
		target := (g*53 + 7) % 256
		cnt := 0
		for c := 0; cnt < n; c++ {
			name := fmt.Sprintf("g%d-%08d", g, c)
			full := l2.FormatLockKey(name)
			if cache.VerifShardIndex(full) != target {
				continue
			}
			if !cache.VerifShardOfKeyIs(l2, full, target) {
				panic("overlay shard function disagrees with getShard")
			}
			id := g*100000 + cnt
			t.names[id] = name
			t.ids[full] = id
			cnt++
		}
	}
	return t
}

type memWorld struct {
	l2    sop.L2Cache
	ctx   context.Context
	lks   map[[2]int]*sop.LockKey
	epoch int
}

func newMemWorld(capacity int) *memWorld {
	old := cache.DefaultInMemoryCacheShardCapacity
	cache.DefaultInMemoryCacheShardCapacity = capacity
	l2 := cache.NewL2InMemoryCache()
	cache.DefaultInMemoryCacheShardCapacity = old
	if cache.VerifLockCapacity(l2) != capacity {
		panic("capacity not taken from DefaultInMemoryCacheShardCapacity")
	}
	if memTable == nil {
		memTable = buildMemNames(l2)
	}
	return &memWorld{l2: l2, ctx: context.Background(), lks: map[[2]int]*sop.LockKey{}}
}

func (w *memWorld) kind() string { return "mem" }
func (w *memWorld) close()       {}

func (w *memWorld) lk(o, k int) *sop.LockKey {
	if p, ok := w.lks[[2]int{o, k}]; ok {
		return p
	}
	p := w.l2.CreateLockKeysForIDs([]sop.Tuple[string, sop.UUID]{{First: memTable.names[k], Second: ownerID(o)}})[0]
	w.lks[[2]int{o, k}] = p
	return p
}
func (w *memWorld) slice(o int, keys []int) []*sop.LockKey {
	out := make([]*sop.LockKey, len(keys))
	for i, k := range keys {
		out[i] = w.lk(o, k)
	}
	return out
}
func (w *memWorld) entries() map[int]int {
	m := map[int]int{}
	for _, e := range cache.VerifLockEntries(w.l2) {
		id, ok := memTable.ids[e.Key]
		if !ok {
			panic("unknown key in lock map: " + e.Key)
		}
		m[id] = ownerOf(e.LockID)
	}
	return m
}
func (w *memWorld) lock(o int, t ttl, keys []int, dual bool) (bool, int, []int, error) {
	before := w.entries()
	var ok bool
	var ow sop.UUID
	var err error
	if dual {
		ok, ow, err = w.l2.DualLock(w.ctx, t.memDur(), w.slice(o, keys))
	} else {
		ok, ow, err = w.l2.Lock(w.ctx, t.memDur(), w.slice(o, keys))
	}
	after := w.entries()
	var hints []int
	inCall := map[int]bool{}
	for _, k := range keys {
		inCall[k] = true
	}
	for k := range before {
		if _, still := after[k]; !still && !inCall[k] {
			hints = append(hints, k)
		}
	}
	sort.Ints(hints)
	return ok, ownerOf(ow), hints, err
}
func (w *memWorld) isLocked(o int, keys []int) (bool, error) { return w.l2.IsLocked(w.ctx, w.slice(o, keys)) }
func (w *memWorld) isLockedTTL(o int, t ttl, keys []int) (bool, error) {
	return w.l2.IsLockedTTL(w.ctx, t.memDur(), w.slice(o, keys))
}
func (w *memWorld) unlock(o int, keys []int) error { return w.l2.Unlock(w.ctx, w.slice(o, keys)) }
func (w *memWorld) advance(ns int64) {
	time.Sleep(time.Duration(ns))
	w.epoch++
}
func (w *memWorld) holds(o, k int) bool {
	fresh := w.l2.CreateLockKeysForIDs([]sop.Tuple[string, sop.UUID]{{First: memTable.names[k], Second: ownerID(o)}})
	ok, _ := w.l2.IsLocked(w.ctx, fresh)
	return ok
}
func (w *memWorld) present(k int) (int, bool) { o, ok := w.entries()[k]; return o, ok }
func (w *memWorld) flag(o, k int) bool          { return false }
func (w *memWorld) observe(owners, keys []int) string {
	return "E " + showEntries(w.entries()) + " L " + w.pairs(owners, keys)
}
func (w *memWorld) pairs(owners, keys []int) string { return pairs(owners, keys, w.holds) }

func showEntries(m map[int]int) string {
	var ids []int
	fill := 0
	for k, o := range m {
		if o == fillerOwner {
			fill++
		} else {
			ids = append(ids, k)
		}
	}
	sort.Ints(ids)
	s := make([]string, len(ids))
	for i, k := range ids {
		s[i] = fmt.Sprintf("%d:%d", k, m[k])
	}
	r := "-"
	if len(s) > 0 {
		r = strings.Join(s, ",")
	}
	return fmt.Sprintf("%s fill=%d", r, fill)
}
func pairs(owners, keys []int, f func(o, k int) bool) string {
	var s []string
	for _, o := range owners {
		for _, k := range keys {
			if f(o, k) {
				s = append(s, fmt.Sprintf("%d:%d", o, k))
			}
		}
	}
	if len(s) == 0 {
		return "-"
	}
	return strings.Join(s, ",")
}

// ---------- redis ----------

type redisWorld struct {
	srv     *fakeredis.Server
	clients []sop.CloseableCache
	ctx     context.Context
	lks     map[[2]int]*sop.LockKey
}

func newRedisWorld() (*redisWorld, error) {
	srv, err := fakeredis.Start()
	if err != nil {
		return nil, err
	}
	w := &redisWorld{srv: srv, ctx: context.Background(), lks: map[[2]int]*sop.LockKey{}}
	for i := 0; i < 2; i++ { // two client objects = two processes sharing the server
		w.clients = append(w.clients, redisad.NewConnectionClient(redisad.Options{Address: srv.Addr(), MaxRetries: -1}))
	}
	return w, nil
}
func (w *redisWorld) kind() string { return "redis" }
func (w *redisWorld) close() {
	for _, c := range w.clients {
		c.Close()
	}
	w.srv.Close()
}
func (w *redisWorld) cl(o int) sop.L2Cache { return w.clients[o%len(w.clients)] }
func redisName(k int) string               { return fmt.Sprintf("k%d", k) }
func (w *redisWorld) lk(o, k int) *sop.LockKey {
	if p, ok := w.lks[[2]int{o, k}]; ok {
		return p
	}
	p := w.cl(o).CreateLockKeysForIDs([]sop.Tuple[string, sop.UUID]{{First: redisName(k), Second: ownerID(o)}})[0]
	w.lks[[2]int{o, k}] = p
	return p
}
func (w *redisWorld) slice(o int, keys []int) []*sop.LockKey {
	out := make([]*sop.LockKey, len(keys))
	for i, k := range keys {
		out[i] = w.lk(o, k)
	}
	return out
}
func (w *redisWorld) lock(o int, t ttl, keys []int, dual bool) (bool, int, []int, error) {
	var ok bool
	var ow sop.UUID
	var err error
	if dual {
		ok, ow, err = w.cl(o).DualLock(w.ctx, t.redDur(), w.slice(o, keys))
	} else {
		ok, ow, err = w.cl(o).Lock(w.ctx, t.redDur(), w.slice(o, keys))
	}
	return ok, ownerOf(ow), nil, err
}
func (w *redisWorld) isLocked(o int, keys []int) (bool, error) {
	return w.cl(o).IsLocked(w.ctx, w.slice(o, keys))
}
func (w *redisWorld) isLockedTTL(o int, t ttl, keys []int) (bool, error) {
	return w.cl(o).IsLockedTTL(w.ctx, t.redDur(), w.slice(o, keys))
}
func (w *redisWorld) unlock(o int, keys []int) error { return w.cl(o).Unlock(w.ctx, w.slice(o, keys)) }
func (w *redisWorld) advance(ms int64)               { w.srv.Advance(time.Duration(ms) * time.Millisecond) }
func (w *redisWorld) holds(o, k int) bool {
	fresh := w.cl(o).CreateLockKeysForIDs([]sop.Tuple[string, sop.UUID]{{First: redisName(k), Second: ownerID(o)}})
	ok, _ := w.cl(o).IsLocked(w.ctx, fresh)
	return ok
}
func (w *redisWorld) visible() map[int]int {
	m := map[int]int{}
	for _, kv := range w.srv.Dump() {
		if !strings.HasPrefix(kv.Key, "Lk") {
			panic("unexpected redis key " + kv.Key)
		}
		id, err := strconv.Atoi(kv.Key[2:])
		if err != nil {
			panic(err)
		}
		u, err := sop.ParseUUID(kv.Val)
		if err != nil {
			panic(err)
		}
		m[id] = ownerOf(u)
	}
	return m
}
func (w *redisWorld) present(k int) (int, bool) { o, ok := w.visible()[k]; return o, ok }
func (w *redisWorld) flag(o, k int) bool {
	p, ok := w.lks[[2]int{o, k}]
	return ok && p.IsLockOwner
}
func (w *redisWorld) observe(owners, keys []int) string {
	return "E " + showEntries(w.visible()) + " L " + pairs(owners, keys, w.holds) + " F " + pairs(owners, keys, w.flag)
}

// guardOK is the usage rule of the partial theorem (Sop.Locks.redisOpOk) evaluated on the live server:
// Unlock: a flagged key must still carry the caller's value (or be gone); IsLockedTTL: never shorten a foreign lease.
func (w *redisWorld) guardOK(st step, k int) bool {
	var cur *fakeredis.KV
	for _, kv := range w.srv.Dump() {
		if kv.Key == "L"+redisName(k) {
			c := kv
			cur = &c
		}
	}
	if cur == nil {
		return true
	}
	u, _ := sop.ParseUUID(cur.Val)
	if ownerOf(u) == st.o {
		return true
	}
	switch st.kind {
	case "unlock":
		return !w.flag(st.o, k)
	case "ttl":
		return cur.TTLMs >= 0 && cur.TTLMs <= st.t.redMs
	}
	return true
}

// ---- the direct oracle: leases handed out, from the API answers alone ----

type lease struct {
	class    ttl
	epoch    int   // in-memory: the sleep epoch a mid lease was granted in
	deadline int64 // redis: absolute server ms
	residual bool  // granted by a Lock that found its own value already in the store (left by an earlier failed Lock)
	foreign  bool  // a different owner's IsLockedTTL rewrote the key's TTL to something shorter
	reported bool
}

type oracle struct {
	w      world
	s      *hx.Session
	grants map[int]map[int]*lease // key -> owner -> lease
	nowMs  int64                  // redis model clock (relative)
	epoch  int
	twoRep map[int]bool
}

func (or *oracle) live(l *lease) bool {
	if or.w.kind() == "redis" {
		return or.nowMs < l.deadline
	}
	switch l.class.rank {
	case 2:
		return true
	case 1:
		return l.epoch == or.epoch
	}
	return false
}
func (or *oracle) liveHolder(k, o int) *lease {
	if l, ok := or.grants[k][o]; ok && or.live(l) {
		return l
	}
	return nil
}
func (or *oracle) newLease(t ttl) *lease {
	return &lease{class: t, epoch: or.epoch, deadline: or.nowMs + t.redMs}
}
func (or *oracle) put(k, o int, l *lease) {
	if or.grants[k] == nil {
		or.grants[k] = map[int]*lease{}
	}
	or.grants[k][o] = l
}

// shorter reports whether lease a ends before lease b (a, b live).
func (or *oracle) shorter(a, b *lease) bool {
	if or.w.kind() == "redis" {
		return a.deadline < b.deadline
	}
	return a.class.rank < b.class.rank
}

type opInfo struct {
	kind string // lock dlock islocked ttl unlock adv
	o    int
	keys []int
}

// after is evaluated after every call: every live lease must be confirmed, no key has two live leases.
func (or *oracle) after(op opInfo, trackedKeys []int) {
	for _, k := range trackedKeys {
		var liveOwners []int
		var os_ []int
		for o := range or.grants[k] {
			os_ = append(os_, o)
		}
		sort.Ints(os_)
		for _, o := range os_ {
			l := or.grants[k][o]
			if !or.live(l) {
				continue
			}
			liveOwners = append(liveOwners, o)
			if l.reported || or.w.holds(o, k) {
				continue
			}
			l.reported = true
			sig, what := or.classify(op, k, o, l)
			or.s.Fail(sig, what, fmt.Sprintf("after `%s` by owner %d: owner %d was granted key %d, did not unlock it, its lease has not run out, yet IsLocked(owner %d, key %d) = false", op.kind, op.o, o, k, o, k))
		}
		if len(liveOwners) > 1 && !or.twoRep[k] {
			or.twoRep[k] = true
			sort.Ints(liveOwners)
			sig := "C28/two-holders"
			for _, o := range liveOwners {
				if l := or.grants[k][o]; l.reported {
					sg, _ := or.classifyStored(l)
					if sg != "" {
						sig = sg
					}
				}
			}
			or.s.Fail(sig, "two owners hold unexpired, unreleased locks on one key", fmt.Sprintf("key %d owners %v", k, liveOwners))
		}
	}
}

var storedSig = map[*lease][2]string{}

func (or *oracle) classifyStored(l *lease) (string, string) { v := storedSig[l]; return v[0], v[1] }

func (or *oracle) classify(op opInfo, k, o int, l *lease) (string, string) {
	sig, what := "C28/holder-lost", "a granted, unreleased, unexpired lock is no longer confirmed by IsLocked"
	_, present := or.w.present(k)
	switch {
	case or.w.kind() == "mem" && (op.kind == "lock" || op.kind == "dlock") && (!present || op.o != o):
		sig, what = "C28/mem-live-lock-evicted", "in-memory cache: loadOrStore evicted an unexpired lock entry to make room (shard at capacity)"
	case or.w.kind() == "redis" && op.kind == "unlock" && op.o != o:
		sig, what = "C28/redis-unlock-deletes-by-key-without-owner-compare", "redis: Unlock DELs every key whose local IsLockOwner flag is set without comparing the stored owner, so an owner whose lease lapsed (or who already unlocked) deletes the next holder's lock"
	case or.w.kind() == "redis" && op.kind == "adv" && l.foreign:
		sig, what = "C28/redis-islockedttl-rewrites-foreign-ttl", "redis: IsLockedTTL issues GETEX (which sets the TTL) before looking at the owner, so another owner's call shortens the holder's lease"
	case or.w.kind() == "redis" && op.kind == "adv" && l.residual:
		sig, what = "C28/redis-reentrant-lock-keeps-residual-ttl", "redis: a failed multi-key Lock leaves the keys it did SETNX; a later Lock by the same owner succeeds on them as 're-entrant' with the old, shorter TTL"
	}
	storedSig[l] = [2]string{sig, what}
	if sig == "C28/holder-lost" && os.Getenv("VERIF_C28_DEBUG") != "" {
		fmt.Fprintf(os.Stderr, "unclassified: case %d world %s op %+v key %d owner %d lease %+v\n", or.s.CaseNo, or.w.kind(), op, k, o, *l)
	}
	return sig, what
}

// ---- running one program ----

type step struct {
	kind string // lock dlock islocked ttl unlock adv
	o    int
	t    ttl
	keys []int
	adv  int64
	// disciplined use (redis): Unlock / IsLockedTTL only touch keys for which the usage rule of the partial theorem
	// holds at that moment (the others are dropped from the call); a refused Lock is followed by such an Unlock
	guarded         bool
	unlockOnRefusal bool
}

type caseSpec struct {
	world    string // mem | redis
	capacity int
	fill     []step // in-memory: filler locks issued before the program (not observed one by one)
	steps    []step
	owners   []int
	keys     []int // tracked keys
	tag      string
}

func runCase(s *hx.Session, c caseSpec) error {
	var w world
	if c.world == "mem" {
		w = newMemWorld(c.capacity)
		fix := "1"
		if os.Getenv("VERIF_C28_UNFIXED") != "" {
			fix = "0"
		}
		s.BeginCase(fmt.Sprintf("mem %d 2 %s", c.capacity, fix))
	} else {
		rw, err := newRedisWorld()
		if err != nil {
			return err
		}
		w = rw
		s.BeginCase("redis")
	}
	defer w.close()
	or := &oracle{w: w, s: s, grants: map[int]map[int]*lease{}, twoRep: map[int]bool{}}
	s.Hit("case:" + c.world + ":" + c.tag)
	if c.world == "mem" {
		s.Hit(fmt.Sprintf("mem_cap:%d", c.capacity))
	}
	all := append(append([]step(nil), c.fill...), c.steps...)
	interesting := false
	failsBefore := len(s.Rep.OracleFailures)
	for i := 0; i < len(all); i++ {
		st := all[i]
		isFill := i < len(c.fill)
		if st.guarded {
			rw := w.(*redisWorld)
			var keep []int
			for _, k := range st.keys {
				if rw.guardOK(st, k) {
					keep = append(keep, k)
				}
			}
			if len(keep) != len(st.keys) {
				s.Hit("redis_guard_dropped_keys")
			}
			if len(keep) == 0 {
				continue
			}
			st.keys = keep
		}
		dur := st.t.memNs
		if c.world == "redis" {
			dur = st.t.redMs
		}
		op := opInfo{kind: st.kind, o: st.o, keys: st.keys}
		switch st.kind {
		case "adv":
			w.advance(st.adv)
			if c.world == "mem" {
				s.Hit("mem_real_sleep")
			}
			if c.world == "redis" {
				or.nowMs += st.adv
			} else {
				or.epoch++
			}
			s.Op(fmt.Sprintf("adv %d", st.adv), "1 0")
			s.Hit("op:adv")
		case "lock", "dlock":
			// which keys already carry the caller's own value without the caller being a holder (residue)?
			residual := map[int]bool{}
			for _, k := range st.keys {
				if or.liveHolder(k, st.o) == nil && w.holds(st.o, k) {
					residual[k] = true
				}
			}
			ok, ow, hints, err := w.lock(st.o, st.t, st.keys, st.kind == "dlock")
			if err != nil {
				return fmt.Errorf("lock: %w", err)
			}
			line := fmt.Sprintf("%s %d %d %s", st.kind, st.o, dur, joinInts(st.keys))
			if c.world == "mem" {
				line += " " + joinInts(hints)
				if len(hints) > 0 {
					s.Hit("mem_eviction_observed")
					interesting = true
				}
				if mw := w.(*memWorld); true {
					n := 0
					for k := range mw.entries() {
						if k/100000 == st.keys[0]/100000 {
							n++
						}
					}
					if n > c.capacity {
						s.Hit("mem_shard_over_capacity_all_candidates_live")
					} else if n == c.capacity {
						s.Hit("mem_shard_at_capacity")
					}
				}
			}
			s.Op(line, fmt.Sprintf("%s %d", b01(ok), ow))
			s.Hit(fmt.Sprintf("op:%s:%s", st.kind, b01(ok)))
			if len(st.keys) > 1 {
				s.Hit("multi_key_" + st.kind)
			}
			if !ok && ow > 0 {
				s.Hit("lock_refused_owner_reported")
				interesting = true
			}
			if !ok && st.unlockOnRefusal {
				rest := append([]step{{kind: "unlock", o: st.o, keys: st.keys, guarded: true}}, all[i+1:]...)
				all = append(all[:i+1:i+1], rest...)
			}
			if ok {
				for _, k := range st.keys {
					// re-entrant success (the store already confirmed the caller before the call and the caller has
					// not unlocked since its last grant): neither implementation extends the lease
					if _, has := or.grants[k][st.o]; or.liveHolder(k, st.o) != nil || (has && residual[k]) {
						s.Hit("lock_reentry")
						continue
					}
					l := or.newLease(st.t)
					l.residual = residual[k]
					if l.residual {
						s.Hit("lock_on_residue")
					}
					// DualLock with a lease that is over immediately answers false, so ok here means the lease counts
					or.put(k, st.o, l)
				}
			}
		case "islocked":
			ok, err := w.isLocked(st.o, st.keys)
			if err != nil {
				return fmt.Errorf("islocked: %w", err)
			}
			s.Op(fmt.Sprintf("islocked %d %s", st.o, joinInts(st.keys)), b01(ok)+" 0")
			s.Hit("op:islocked:" + b01(ok))
		case "ttl":
			ok, err := w.isLockedTTL(st.o, st.t, st.keys)
			if err != nil {
				return fmt.Errorf("islockedttl: %w", err)
			}
			s.Op(fmt.Sprintf("ttl %d %d %s", st.o, dur, joinInts(st.keys)), b01(ok)+" 0")
			s.Hit("op:ttl:" + b01(ok))
			nl := or.newLease(st.t)
			for _, k := range st.keys {
				if ok {
					or.put(k, st.o, or.newLease(st.t))
				} else if l := or.liveHolder(k, st.o); l != nil && or.shorter(nl, l) {
					// a refused IsLockedTTL may still have rewritten the caller's own lease; never assume it got longer
					l.class, l.epoch, l.deadline = nl.class, nl.epoch, nl.deadline
				}
				if c.world == "redis" {
					for o2, l := range or.grants[k] {
						if o2 != st.o && or.live(l) && or.shorter(nl, l) {
							if _, vis := w.present(k); vis {
								l.foreign = true
								s.Hit("redis_foreign_ttl_rewrite")
							}
						}
					}
				}
			}
		case "unlock":
			for _, k := range st.keys {
				if ow, vis := w.present(k); vis && ow != st.o && w.flag(st.o, k) {
					s.Hit("redis_unlock_while_foreign_value_stored")
				}
			}
			if err := w.unlock(st.o, st.keys); err != nil {
				return fmt.Errorf("unlock: %w", err)
			}
			s.Op(fmt.Sprintf("unlock %d %s", st.o, joinInts(st.keys)), "1 0")
			s.Hit("op:unlock")
			for _, k := range st.keys {
				delete(or.grants[k], st.o)
			}
		default:
			return fmt.Errorf("unknown step %q", st.kind)
		}
		if isFill && i != len(c.fill)-1 {
			continue
		}
		s.Op(fmt.Sprintf("obs %s %s", joinInts(c.owners), joinInts(c.keys)), w.observe(c.owners, c.keys))
		or.after(op, c.keys)
	}
	if c.tag == "disciplined" && len(s.Rep.OracleFailures) > failsBefore {
		s.Fail("C28/redis-disciplined-run-failed", "the property failed in a redis program that obeys the usage rule of C28_redis_partial", c.tag)
	}
	// non-trivial: at least two owners competed for one key (a refusal, an eviction or a takeover happened)
	takeover := false
	for _, m := range or.grants {
		if len(m) > 1 {
			takeover = true
		}
	}
	if takeover {
		s.Hit("key_granted_to_several_owners_over_time")
	}
	if interesting || takeover {
		s.Nontrivial()
	}
	return nil
}

// ---- directed corpus (runs first) ----

func L(o int, t ttl, keys ...int) step  { return step{kind: "lock", o: o, t: t, keys: keys} }
func DL(o int, t ttl, keys ...int) step { return step{kind: "dlock", o: o, t: t, keys: keys} }
func IL(o int, keys ...int) step        { return step{kind: "islocked", o: o, keys: keys} }
func TT(o int, t ttl, keys ...int) step { return step{kind: "ttl", o: o, t: t, keys: keys} }
func UL(o int, keys ...int) step        { return step{kind: "unlock", o: o, keys: keys} }
func ADV(n int64) step                  { return step{kind: "adv", adv: n} }

func corpus() []caseSpec {
	o3 := []int{1, 2, 3}
	return []caseSpec{
		// DESIGN.md C28 witness: capacity 1, A locks k1 (1h), B locks k2 in the same shard, C locks k1
		{world: "mem", capacity: 1, tag: "D1-evict-live", owners: o3, keys: []int{1, 2}, steps: []step{L(1, ttlLong, 1), L(2, ttlLong, 2), L(3, ttlLong, 1), UL(2, 2), UL(1, 1), L(3, ttlLong, 1)}},
		// one call, two keys, capacity 1: the second key's insertion finds the first at capacity
		{world: "mem", capacity: 1, tag: "D2-self-evict", owners: o3, keys: []int{1, 2}, steps: []step{L(1, ttlLong, 1, 2), IL(1, 1, 2), L(2, ttlLong, 1), UL(1, 1, 2), L(2, ttlLong, 1)}},
		{world: "mem", capacity: 2, tag: "D3-evict-expired", owners: o3, keys: []int{1, 2, 3}, steps: []step{L(1, ttlShort, 1), L(2, ttlLong, 2), L(3, ttlLong, 3), L(1, ttlLong, 1)}},
		{world: "mem", capacity: 5, tag: "D4-takeover", owners: o3, keys: []int{1}, steps: []step{L(1, ttlShort, 1), L(2, ttlLong, 1), UL(1, 1), L(3, ttlLong, 1), IL(2, 1), UL(2, 1), L(3, ttlZero, 1)}},
		{world: "mem", capacity: 5, tag: "D5-rollback", owners: o3, keys: []int{1, 2, 3}, steps: []step{L(1, ttlLong, 2), L(2, ttlLong, 3, 1, 2), L(2, ttlLong, 1, 1), L(1, ttlLong, 2, 1), UL(2, 1), L(1, ttlLong, 1, 2)}},
		{world: "mem", capacity: 5, tag: "D6-ttl-dual", owners: o3, keys: []int{1, 2}, steps: []step{DL(1, ttlLong, 1, 2), TT(1, ttlLong, 1, 2), TT(2, ttlLong, 1), TT(1, ttlShort, 1), L(2, ttlLong, 1), DL(3, ttlShort, 2), TT(1, ttlLong, 2, 1)}},
		{world: "mem", capacity: 2, tag: "D7-two-shards", owners: o3, keys: []int{1, 2, 100001, 100002}, steps: []step{L(1, ttlLong, 1, 100001), L(2, ttlLong, 2, 100002), L(3, ttlLong, 100001, 1), UL(1, 1, 100001), L(3, ttlLong, 100001, 1)}},
		// redis witness: A locks, its TTL lapses, B locks, A unlocks, C acquires
		{world: "redis", tag: "R1-unlock-after-expiry", owners: o3, keys: []int{1}, steps: []step{L(1, ttlShort, 1), ADV(60), L(2, ttlLong, 1), UL(1, 1), L(3, ttlLong, 1)}},
		{world: "redis", tag: "R2-double-unlock", owners: o3, keys: []int{1}, steps: []step{L(1, ttlLong, 1), UL(1, 1), L(2, ttlLong, 1), UL(1, 1), L(3, ttlLong, 1)}},
		{world: "redis", tag: "R3-foreign-ttl", owners: o3, keys: []int{1}, steps: []step{L(1, ttlLong, 1), TT(2, ttlShort, 1), ADV(60), L(3, ttlLong, 1)}},
		{world: "redis", tag: "R4-residue", owners: o3, keys: []int{1, 2}, steps: []step{L(2, ttlLong, 2), L(1, ttlMid, 1, 2), L(1, ttlLong, 1), ADV(2500), L(3, ttlLong, 1)}},
		{world: "redis", tag: "R5-regular", owners: o3, keys: []int{1, 2}, steps: []step{DL(1, ttlLong, 2, 1), L(2, ttlLong, 1), TT(1, ttlOdd, 1, 2), IL(1, 1, 2), ADV(1000), UL(1, 1, 2), L(2, ttlMid, 1, 2), ADV(2000), IL(2, 1), L(3, ttlLong, 2, 2)}},
	}
}

// ---- generators ----

func pickKeys(p *hx.Prng, pool []int, max int) []int {
	n := 1 + p.Intn(max)
	var ks []int
	for i := 0; i < n; i++ {
		ks = append(ks, pool[p.Intn(len(pool))])
	}
	if !p.Chance(1, 6) { // mostly distinct; sometimes a duplicate stays
		seen := map[int]bool{}
		var d []int
		for _, k := range ks {
			if !seen[k] {
				seen[k] = true
				d = append(d, k)
			}
		}
		ks = d
	}
	return ks
}

// genMem builds a program step by step against a live world (so that a multi-key Lock is only issued when no
// eviction can happen inside it: the victim of each eviction must be attributable to one insertion).
type memGen struct {
	p        *hx.Prng
	capacity int
	sleeps   bool
	pool     []int
}

func (g *memGen) ttl() ttl {
	switch r := g.p.Intn(20); {
	case r < 11:
		return ttlLong
	case r < 17:
		return ttlShort
	case r < 18:
		return ttlZero
	default:
		if g.sleeps {
			return ttlMid
		}
		return ttlLong
	}
}

func runMemRandom(s *hx.Session, p *hx.Prng, capacity int, sleeps bool, nsteps int) error {
	g := &memGen{p: p, capacity: capacity, sleeps: sleeps}
	nOwners := 2 + p.Intn(3)
	owners := make([]int, nOwners)
	for i := range owners {
		owners[i] = i + 1
	}
	nk := capacity + 1 + p.Intn(3)
	if capacity == 1000 {
		nk = 4 + p.Intn(4)
	}
	if nk > 8 {
		nk = 8
	}
	var keys []int
	for i := 0; i < nk; i++ {
		keys = append(keys, 1+i)
	}
	other := p.Chance(1, 3)
	if other {
		keys = append(keys, 100001, 100002)
	}
	g.pool = keys
	c := caseSpec{world: "mem", capacity: capacity, owners: owners, keys: keys, tag: "random"}
	if capacity == 1000 {
		// fill the shard up to (almost) capacity with filler locks: mostly live, some already expired
		total := 990 + p.Intn(11)
		if total > 1000-0 {
			total = 1000
		}
		expired := p.Intn(30)
		var live, dead []int
		for i := 0; i < total; i++ {
			if i < expired {
				dead = append(dead, 50+i)
			} else {
				live = append(live, 50+i)
			}
		}
		if len(dead) > 0 {
			c.fill = append(c.fill, step{kind: "lock", o: fillerOwner, t: ttlShort, keys: dead})
		}
		c.fill = append(c.fill, step{kind: "lock", o: fillerOwner, t: ttlLong, keys: live})
	}
	// plan: the program is generated blind except for the multi-key rule, which needs the shard fill level;
	// a shadow count of physically present entries per shard is kept from the plan's own effects (upper bound).
	present := map[int]bool{}
	for _, st := range c.fill {
		for _, k := range st.keys {
			present[k] = true
		}
	}
	shardCount := func(k int) int {
		n := 0
		for x := range present {
			if x/100000 == k/100000 {
				n++
			}
		}
		return n
	}
	for i := 0; i < nsteps; i++ {
		o := owners[p.Intn(len(owners))]
		switch r := p.Intn(100); {
		case r < 40 || r >= 90 && !sleeps:
			ks := pickKeys(p, g.pool, 3)
			// an upper bound of the fill level: every key ever locked may still be present
			room := true
			for _, k := range ks {
				newInShard := 0
				for _, k2 := range ks {
					if k2/100000 == k/100000 && !present[k2] {
						newInShard++
					}
				}
				if shardCount(k)+newInShard > capacity {
					room = false
				}
			}
			if !room {
				ks = ks[:1]
			}
			kind := "lock"
			if p.Chance(1, 5) {
				kind = "dlock"
			}
			c.steps = append(c.steps, step{kind: kind, o: o, t: g.ttl(), keys: ks})
			for _, k := range ks {
				present[k] = true
			}
		case r < 50:
			c.steps = append(c.steps, IL(o, pickKeys(p, g.pool, 2)...))
		case r < 62:
			t := g.ttl()
			if t.name == "zero" {
				t = ttlLong // IsLockedTTL has no default: a zero duration is a lease that is over at once
			}
			c.steps = append(c.steps, TT(o, t, pickKeys(p, g.pool, 2)...))
		case r < 90:
			c.steps = append(c.steps, UL(o, pickKeys(p, g.pool, 3)...))
		default:
			c.steps = append(c.steps, ADV(memSleepNs))
		}
	}
	return runCase(s, c)
}

func runRedisRandom(s *hx.Session, p *hx.Prng, disciplined bool, nsteps int) error {
	nOwners := 2 + p.Intn(3)
	owners := make([]int, nOwners)
	for i := range owners {
		owners[i] = i + 1
	}
	nk := 1 + p.Intn(4)
	var keys []int
	for i := 0; i < nk; i++ {
		keys = append(keys, 1+i)
	}
	ttls := []ttl{ttlShort, ttlShort, ttlMid, ttlOdd, ttlLong, ttlLong, ttlLong}
	advs := []int64{10, 49, 50, 60, 1500, 2500}
	c := caseSpec{world: "redis", owners: owners, keys: keys, tag: "random"}
	if disciplined {
		c.tag = "disciplined"
	}
	for i := 0; i < nsteps; i++ {
		o := owners[p.Intn(len(owners))]
		r := p.Intn(100)
		switch {
		case r < 38:
			kind := "lock"
			if p.Chance(1, 5) {
				kind = "dlock"
			}
			c.steps = append(c.steps, step{kind: kind, o: o, t: ttls[p.Intn(len(ttls))], keys: pickKeys(p, keys, 3), unlockOnRefusal: disciplined})
		case r < 48:
			c.steps = append(c.steps, IL(o, pickKeys(p, keys, 2)...))
		case r < 60:
			c.steps = append(c.steps, step{kind: "ttl", o: o, t: ttls[p.Intn(len(ttls))], keys: pickKeys(p, keys, 2), guarded: disciplined})
		case r < 82:
			c.steps = append(c.steps, step{kind: "unlock", o: o, keys: pickKeys(p, keys, 3), guarded: disciplined})
		default:
			c.steps = append(c.steps, ADV(advs[p.Intn(len(advs))]))
		}
	}
	return runCase(s, c)
}

func run(o hx.RunOpts) error {
	slog.SetDefault(slog.New(slog.NewTextHandler(io.Discard, nil)))
	s := hx.NewSession(o, "cases: lock programs of 2-4 owners (Lock, DualLock, IsLocked, IsLockedTTL, Unlock, clock advance) over (a) the real cache.L2InMemoryCache "+
		"with per-shard capacity 1, 2, 5 or 1000 and all tracked keys forced into one shard of the real sharded map (1000: shard pre-filled to 990-1000 entries), TTL classes 1ns / 200ms (+ real 300ms sleeps) / 1h / 0; "+
		"(b) the real adapters/redis client against harness/fakeredis with a controlled clock, TTLs 50ms / 1.5s / 2s / 1h. After every call the store content and IsLocked of every (owner, key) is compared with the Lean model; "+
		"the observed eviction victim is fed to the model, which checks it was admissible. distinct = canonical op-line hash; non-trivial = a key was granted to more than one owner over time, or a Lock was refused naming the holder, or an eviction happened")
	p := hx.NewPrng(o.Seed)
	for _, c := range corpus() {
		if err := runCase(s, c); err != nil {
			return err
		}
	}
	caps := []int{1, 2, 5, 1000}
	n := o.N(240, 3000)
	for i := 0; i < n; i++ {
		capacity := caps[i%4]
		if capacity == 1000 && i%16 != 3 { // the pre-filled shard is expensive on the model side: fewer of them
			capacity = caps[p.Intn(3)]
		}
		if err := runMemRandom(s, p.Fork(), capacity, false, 8+p.Intn(30)); err != nil {
			return err
		}
	}
	n = o.N(6, 250) // real sleeps
	for i := 0; i < n; i++ {
		if err := runMemRandom(s, p.Fork(), caps[p.Intn(3)], true, 8+p.Intn(16)); err != nil {
			return err
		}
	}
	n = o.N(200, 3000)
	for i := 0; i < n; i++ {
		if err := runRedisRandom(s, p.Fork(), i%3 == 2, 8+p.Intn(30)); err != nil {
			return err
		}
	}
	return s.Finish()
}
