// C29: btree.Compare / btree.CoerceComparer against the Lean model Sop.Compare, and against the
// order axioms plus a native reference order per type.
package main

import (
	"bytes"
	"fmt"
	"math"
	"reflect"
	"strings"
	"time"
	"unsafe"

	"github.com/google/uuid"
	"github.com/sharedcode/sop"
	"github.com/sharedcode/sop/btree"

	"verifharness/hx"
)

func main() { hx.Main(run, "", nil, nil) }

// ---- time.Time with a chosen monotonic reading (layout checked at start-up) ----

type timeRepr struct {
	wall uint64
	ext  int64
	loc  *time.Location
}

var monoOK bool

const hasMonotonic = uint64(1) << 63

func monoOf(t time.Time) (int64, bool) {
	r := (*timeRepr)(unsafe.Pointer(&t))
	if r.wall&hasMonotonic != 0 {
		return r.ext, true
	}
	return 0, false
}

// withMono builds the time.Time a time.Now() at unix instant (sec,nsec) with monotonic reading m would be.
func withMono(sec int64, nsec int, m int64) time.Time {
	base := time.Date(1885, 1, 1, 0, 0, 0, 0, time.UTC).Unix()
	var t time.Time
	r := (*timeRepr)(unsafe.Pointer(&t))
	r.wall = hasMonotonic | uint64(sec-base)<<30 | uint64(nsec)
	r.ext = m
	r.loc = time.Local
	return t
}

// consistentMono: a reading from a monotonic clock that started at unix second 1699999000 and was never stepped.
func consistentMono(sec int64, nsec int) time.Time {
	return withMono(sec, nsec, (sec-1699999000)*1_000_000_000+int64(nsec))
}

func checkMonoLayout() bool {
	if unsafe.Sizeof(time.Time{}) != unsafe.Sizeof(timeRepr{}) {
		return false
	}
	now := time.Now()
	if _, ok := monoOf(now); !ok {
		return false
	}
	if _, ok := monoOf(now.Round(0)); ok {
		return false
	}
	t := withMono(1700000000, 123456789, 5_000_000_000)
	if t.Unix() != 1700000000 || t.Nanosecond() != 123456789 || !strings.Contains(t.String(), "m=+5.000000000") {
		return false
	}
	if !t.Round(0).Equal(time.Unix(1700000000, 123456789)) {
		return false
	}
	// both monotonic: only the readings count
	a, b := withMono(100, 0, 1), withMono(50, 0, 2)
	return a.Compare(b) == -1 && a.Round(0).Compare(b.Round(0)) == 1
}

// ---- canonical token of a key (the Lean driver parses it) ----

func hexOrDash(b []byte) string {
	if len(b) == 0 {
		return "-"
	}
	return hx.Hexb(b)
}

func enc(v any) string {
	switch x := v.(type) {
	case nil:
		return "N"
	case int:
		return fmt.Sprintf("i0:%d", x)
	case int8:
		return fmt.Sprintf("i1:%d", x)
	case int16:
		return fmt.Sprintf("i2:%d", x)
	case int32:
		return fmt.Sprintf("i3:%d", x)
	case int64:
		return fmt.Sprintf("i4:%d", x)
	case uint:
		return fmt.Sprintf("u0:%d", x)
	case uint8:
		return fmt.Sprintf("u1:%d", x)
	case uint16:
		return fmt.Sprintf("u2:%d", x)
	case uint32:
		return fmt.Sprintf("u3:%d", x)
	case uint64:
		return fmt.Sprintf("u4:%d", x)
	case uintptr:
		return fmt.Sprintf("u5:%d", uint64(x))
	case float32:
		return fmt.Sprintf("f:%d", math.Float32bits(x))
	case float64:
		return fmt.Sprintf("d:%d", math.Float64bits(x))
	case string:
		return "s:" + hexOrDash([]byte(x))
	case uuid.UUID:
		return "g:" + hx.Hexb(x[:])
	case sop.UUID:
		return "q:" + hx.Hexb(x[:])
	case time.Time:
		if m, ok := monoOf(x); ok {
			return fmt.Sprintf("t:%d:%d:%d", x.Unix(), x.Nanosecond(), m)
		}
		return fmt.Sprintf("t:%d:%d:n", x.Unix(), x.Nanosecond())
	case []byte:
		return "b:" + hexOrDash(x)
	case []string:
		p := make([]string, len(x))
		for i, s := range x {
			p[i] = hexOrDash([]byte(s))
		}
		return "S[" + strings.Join(p, ",") + "]"
	case []int:
		p := make([]string, len(x))
		for i, s := range x {
			p[i] = fmt.Sprint(s)
		}
		return "I[" + strings.Join(p, ",") + "]"
	case []float64:
		p := make([]string, len(x))
		for i, s := range x {
			p[i] = fmt.Sprint(math.Float64bits(s))
		}
		return "D[" + strings.Join(p, ",") + "]"
	case []float32:
		p := make([]string, len(x))
		for i, s := range x {
			p[i] = fmt.Sprint(math.Float32bits(s))
		}
		return "F[" + strings.Join(p, ",") + "]"
	case []any:
		p := make([]string, len(x))
		for i, s := range x {
			p[i] = enc(s)
		}
		return "A[" + strings.Join(p, ",") + "]"
	}
	panic(fmt.Sprintf("enc: unsupported %T", v))
}

// ---- the harness's own notion of "keys of one type" (printed next to the model's `compat`) ----

func sgn(x int64) int {
	if x < 0 {
		return -1
	}
	if x > 0 {
		return 1
	}
	return 0
}

func wallCmp(a, b time.Time) int {
	if a.Unix() != b.Unix() {
		if a.Unix() < b.Unix() {
			return -1
		}
		return 1
	}
	return sgn(int64(a.Nanosecond()) - int64(b.Nanosecond()))
}

func compatGo(a, b any) bool {
	if a == nil || b == nil {
		return a == nil && b == nil
	}
	if reflect.TypeOf(a) != reflect.TypeOf(b) {
		return false
	}
	switch x := a.(type) {
	case []any:
		y := b.([]any)
		for i := 0; i < len(x) && i < len(y); i++ {
			if !compatGo(x[i], y[i]) {
				return false
			}
		}
	case time.Time:
		y := b.(time.Time)
		ma, oka := monoOf(x)
		mb, okb := monoOf(y)
		if oka && okb {
			c := 0
			if ma < mb {
				c = -1
			} else if ma > mb {
				c = 1
			}
			return c == wallCmp(x, y)
		}
	}
	return true
}

// ---- native reference order per type (never calls btree) ----

func refFloat(a, b float64) int {
	an, bn := a != a, b != b
	switch {
	case an && bn:
		return 0
	case an:
		return -1
	case bn:
		return 1
	case a < b:
		return -1
	case a > b:
		return 1
	}
	return 0
}

func refOrd[T int | int8 | int16 | int32 | int64 | uint | uint8 | uint16 | uint32 | uint64 | uintptr | string](a, b T) int {
	if a < b {
		return -1
	}
	if a > b {
		return 1
	}
	return 0
}

func refSlice[T any](a, b []T, c func(x, y T) int) int {
	for i := 0; i < len(a) && i < len(b); i++ {
		if r := c(a[i], b[i]); r != 0 {
			return r
		}
	}
	return refOrd(len(a), len(b))
}

// ref is the natural order of two compatible keys.
func ref(a, b any) int {
	switch x := a.(type) {
	case nil:
		return 0
	case int:
		return refOrd(x, b.(int))
	case int8:
		return refOrd(x, b.(int8))
	case int16:
		return refOrd(x, b.(int16))
	case int32:
		return refOrd(x, b.(int32))
	case int64:
		return refOrd(x, b.(int64))
	case uint:
		return refOrd(x, b.(uint))
	case uint8:
		return refOrd(x, b.(uint8))
	case uint16:
		return refOrd(x, b.(uint16))
	case uint32:
		return refOrd(x, b.(uint32))
	case uint64:
		return refOrd(x, b.(uint64))
	case uintptr:
		return refOrd(x, b.(uintptr))
	case float32:
		return refFloat(float64(x), float64(b.(float32)))
	case float64:
		return refFloat(x, b.(float64))
	case string:
		return sgn(int64(bytes.Compare([]byte(x), []byte(b.(string)))))
	case uuid.UUID:
		y := b.(uuid.UUID)
		return refSlice(x[:], y[:], func(p, q byte) int { return refOrd(p, q) })
	case sop.UUID:
		y := b.(sop.UUID)
		return refSlice(x[:], y[:], func(p, q byte) int { return refOrd(p, q) })
	case time.Time:
		return wallCmp(x, b.(time.Time))
	case []byte:
		return refSlice(x, b.([]byte), func(p, q byte) int { return refOrd(p, q) })
	case []string:
		return refSlice(x, b.([]string), func(p, q string) int { return refOrd(p, q) })
	case []int:
		return refSlice(x, b.([]int), func(p, q int) int { return refOrd(p, q) })
	case []float64:
		return refSlice(x, b.([]float64), refFloat)
	case []float32:
		return refSlice(x, b.([]float32), func(p, q float32) int { return refFloat(float64(p), float64(q)) })
	case []any:
		return refSlice(x, b.([]any), ref)
	}
	panic("ref: unsupported")
}

// ---- value families ----

type family struct {
	name  string
	edges []any
	rnd   func(p *hx.Prng) any
}

var f64Edges = []uint64{
	0x0000000000000000, 0x8000000000000000, // +0 -0
	0x0000000000000001, 0x8000000000000001, // smallest denormals
	0x000FFFFFFFFFFFFF, 0x0010000000000000, // largest denormal, smallest normal
	0x3FF0000000000000, 0xBFF0000000000000, 0x3FF0000000000001, // 1, -1, nextafter(1)
	0x7FEFFFFFFFFFFFFF, 0xFFEFFFFFFFFFFFFF, // ±MaxFloat64
	0x7FF0000000000000, 0xFFF0000000000000, // ±Inf
	0x7FF8000000000000, 0x7FF8000000000001, 0xFFF8000000000000, 0x7FF0000000000001, 0xFFFFFFFFFFFFFFFF, // NaNs
}

var f32Edges = []uint32{
	0x00000000, 0x80000000, 0x00000001, 0x80000001, 0x007FFFFF, 0x00800000, 0x3F800000, 0xBF800000, 0x3F800001,
	0x7F7FFFFF, 0xFF7FFFFF, 0x7F800000, 0xFF800000, 0x7FC00000, 0x7FC00001, 0xFFC00000, 0x7F800001, 0xFFFFFFFF,
}

func rndF64(p *hx.Prng) float64 {
	if p.Chance(1, 2) {
		return math.Float64frombits(f64Edges[p.Intn(len(f64Edges))])
	}
	switch p.Intn(4) {
	case 0:
		return math.Float64frombits(p.U64())
	case 1:
		return float64(int64(p.U64()%2001) - 1000)
	case 2: // neighbours of an edge
		return math.Float64frombits(f64Edges[p.Intn(len(f64Edges))] ^ uint64(p.Intn(4)))
	}
	return math.Float64frombits(p.U64()&0x800FFFFFFFFFFFFF | uint64(0x3FE+p.Intn(4))<<52)
}

func rndF32(p *hx.Prng) float32 {
	if p.Chance(1, 2) {
		return math.Float32frombits(f32Edges[p.Intn(len(f32Edges))])
	}
	switch p.Intn(3) {
	case 0:
		return math.Float32frombits(uint32(p.U64()))
	case 1:
		return float32(int64(p.U64()%2001) - 1000)
	}
	return math.Float32frombits(f32Edges[p.Intn(len(f32Edges))] ^ uint32(p.Intn(4)))
}

var strAlphabet = []string{"", "a", "b", "ab", "\x00", "\xff", "é", "a\x00", "z", "A"}

func rndStr(p *hx.Prng) string {
	n := p.Intn(4)
	s := ""
	for i := 0; i < n; i++ {
		s += strAlphabet[p.Intn(len(strAlphabet))]
	}
	return s
}

func rndBytes16(p *hx.Prng) [16]byte {
	var u [16]byte
	switch p.Intn(5) {
	case 0:
	case 1:
		for i := range u {
			u[i] = 0xff
		}
	case 2:
		u[p.Intn(16)] = byte(1 << p.Intn(8))
	case 3: // shared prefix, differing tail
		for i := 0; i < 12; i++ {
			u[i] = 0xab
		}
		u[12+p.Intn(4)] = byte(p.Intn(3))
	default:
		for i := range u {
			u[i] = byte(p.U64())
		}
	}
	return u
}

var zones = []*time.Location{time.UTC, time.FixedZone("p5", 5*3600), time.FixedZone("m8", -8*3600), time.FixedZone("p0530", 5*3600+1800)}

func rndTime(p *hx.Prng) time.Time {
	var t time.Time
	switch p.Intn(6) {
	case 0:
		return time.Time{}
	case 1:
		t = time.Unix(int64(p.Intn(3))-1, int64([]int{0, 1, 999999999, 500000000}[p.Intn(4)]))
	case 2:
		t = time.Unix(1700000000+int64(p.Intn(3)), int64(p.Intn(3)))
	case 3:
		t = time.Date([]int{-200, 1, 1677, 1884, 2262, 9999, 292277}[p.Intn(7)], time.Month(1+p.Intn(12)), 1+p.Intn(28), p.Intn(24), p.Intn(60), p.Intn(60), p.Intn(1000000000), time.UTC)
	case 4:
		if monoOK { // a monotonic reading consistent with the wall clock (as time.Now() gives while the clock is not stepped)
			sec := int64(1700000000 + p.Intn(4))
			ns := p.Intn(3) * 499999999
			return consistentMono(sec, ns)
		}
		t = time.Unix(1700000000, 0)
	default:
		t = time.Unix(int64(p.U64()>>24)-(1<<38), int64(p.Intn(1000000000)))
	}
	return t.In(zones[p.Intn(len(zones))])
}

func intFam[T int | int8 | int16 | int32 | int64 | uint | uint8 | uint16 | uint32 | uint64 | uintptr](name string, edges []T) family {
	e := make([]any, len(edges))
	for i, v := range edges {
		e[i] = v
	}
	return family{name, e, func(p *hx.Prng) any {
		switch p.Intn(3) {
		case 0:
			return T(p.U64())
		case 1:
			return T(int64(p.Intn(9)) - 4)
		}
		return edges[p.Intn(len(edges))] + T(p.Intn(3)) - 1
	}}
}

func anysOf(n int, gens ...func(p *hx.Prng) any) func(p *hx.Prng) any {
	return func(p *hx.Prng) any {
		if p.Chance(1, 12) {
			return []any(nil)
		}
		k := p.Intn(n + 1)
		out := make([]any, k)
		for i := range out {
			out[i] = gens[i%len(gens)](p)
		}
		return out
	}
}

func families() []family {
	smallInt := func(p *hx.Prng) any { return p.Intn(4) - 1 }
	smallStr := func(p *hx.Prng) any { return strAlphabet[p.Intn(4)] }
	smallF64 := func(p *hx.Prng) any {
		return math.Float64frombits([]uint64{0, 0x8000000000000000, 0x3FF0000000000000, 0x7FF8000000000001, 0xFFF8000000000000, 0xFFF0000000000000}[p.Intn(6)])
	}
	fs := []family{
		intFam("int", []int{0, 1, -1, math.MaxInt64, math.MinInt64, math.MaxInt64 - 1, math.MinInt64 + 1, 255, 256, -256, math.MaxInt32, math.MinInt32}),
		intFam("int8", []int8{0, 1, -1, 127, -128, 126, -127}),
		intFam("int16", []int16{0, 1, -1, math.MaxInt16, math.MinInt16, 255, 256, -256}),
		intFam("int32", []int32{0, 1, -1, math.MaxInt32, math.MinInt32, 65535, 65536, -65536}),
		intFam("int64", []int64{0, 1, -1, math.MaxInt64, math.MinInt64, 1 << 32, -(1 << 32), 1 << 53, 1<<53 + 1}),
		intFam("uint", []uint{0, 1, 2, math.MaxUint64, math.MaxUint64 - 1, 1 << 63, 1<<63 - 1, 1 << 32}),
		intFam("uint8", []uint8{0, 1, 127, 128, 254, 255}),
		intFam("uint16", []uint16{0, 1, 255, 256, 32767, 32768, 65535}),
		intFam("uint32", []uint32{0, 1, 65535, 65536, 1 << 31, 1<<31 - 1, math.MaxUint32}),
		intFam("uint64", []uint64{0, 1, math.MaxUint64, math.MaxUint64 - 1, 1 << 63, 1<<63 - 1, 1<<63 + 1}),
		intFam("uintptr", []uintptr{0, 1, math.MaxUint64, 1 << 63, 1<<63 - 1}),
	}
	var e64, e32 []any
	for _, b := range f64Edges {
		e64 = append(e64, math.Float64frombits(b))
	}
	for _, b := range f32Edges {
		e32 = append(e32, math.Float32frombits(b))
	}
	fs = append(fs, family{"float64", e64, func(p *hx.Prng) any { return rndF64(p) }})
	fs = append(fs, family{"float32", e32, func(p *hx.Prng) any { return rndF32(p) }})
	fs = append(fs, family{"string", []any{"", "a", "a\x00", "aa", "ab", "b", "\xff", "\xff\x00", "é", "e", "a" + strings.Repeat("z", 40), "a" + strings.Repeat("z", 41), "A", "\x00", "10", "9"},
		func(p *hx.Prng) any { return rndStr(p) }})
	fs = append(fs, family{"uuid.UUID", []any{uuid.UUID{}, uuid.UUID{15: 1}, uuid.UUID{0: 1}, uuid.UUID{0: 0x80}, uuid.UUID{0: 0x7f, 1: 0xff},
		uuid.UUID{0xff, 0xff, 0xff, 0xff, 0xff, 0xff, 0xff, 0xff, 0xff, 0xff, 0xff, 0xff, 0xff, 0xff, 0xff, 0xff}, uuid.UUID{7: 1}, uuid.UUID{8: 1}},
		func(p *hx.Prng) any { return uuid.UUID(rndBytes16(p)) }})
	fs = append(fs, family{"sop.UUID", []any{sop.UUID{}, sop.UUID{15: 1}, sop.UUID{0: 1}, sop.UUID{0: 0x80}, sop.UUID{0: 0x7f, 1: 0xff},
		sop.UUID{0xff, 0xff, 0xff, 0xff, 0xff, 0xff, 0xff, 0xff, 0xff, 0xff, 0xff, 0xff, 0xff, 0xff, 0xff, 0xff}, sop.UUID{7: 1}, sop.UUID{8: 1}},
		func(p *hx.Prng) any { return sop.UUID(rndBytes16(p)) }})
	te := []any{time.Time{}, time.Unix(0, 0), time.Unix(0, 1), time.Unix(0, 999999999), time.Unix(1, 0), time.Unix(-1, 999999999),
		time.Unix(1700000000, 5).In(zones[1]), time.Unix(1700000000, 5).In(zones[2]), time.Unix(1700000000, 5).UTC(), time.Unix(1700000000, 4).In(zones[3]),
		time.Date(9999, 12, 31, 23, 59, 59, 999999999, time.UTC), time.Date(-200, 3, 1, 0, 0, 0, 0, time.UTC),
		time.Date(2024, 3, 10, 2, 30, 0, 0, zones[1]), time.Date(2024, 3, 10, 2, 30, 0, 0, zones[2])}
	if monoOK {
		te = append(te, consistentMono(1700000000, 5), consistentMono(1700000001, 0), consistentMono(1700000000, 4))
	}
	fs = append(fs, family{"time.Time", te, func(p *hx.Prng) any { return rndTime(p) }})
	fs = append(fs, family{"[]byte", []any{[]byte(nil), []byte{}, []byte{0}, []byte{0, 0}, []byte{1}, []byte{255}, []byte{1, 0}, []byte{1, 255}, []byte{0, 255}},
		func(p *hx.Prng) any {
			b := make([]byte, p.Intn(4))
			for i := range b {
				b[i] = []byte{0, 1, 127, 128, 255}[p.Intn(5)]
			}
			return b
		}})
	fs = append(fs, family{"[]string", []any{[]string(nil), []string{}, []string{""}, []string{"", ""}, []string{"a"}, []string{"a", "b"}, []string{"ab"}, []string{"b"}, []string{"a", ""}, []string{"\xff"}},
		func(p *hx.Prng) any {
			b := make([]string, p.Intn(4))
			for i := range b {
				b[i] = strAlphabet[p.Intn(len(strAlphabet))]
			}
			return b
		}})
	fs = append(fs, family{"[]int", []any{[]int(nil), []int{}, []int{0}, []int{0, 0}, []int{-1}, []int{1}, []int{1, 2}, []int{1, -2}, []int{math.MinInt64}, []int{math.MaxInt64}, []int{math.MaxInt64, 0}},
		func(p *hx.Prng) any {
			b := make([]int, p.Intn(4))
			for i := range b {
				b[i] = p.Intn(5) - 2
			}
			return b
		}})
	nan1, nan2 := math.Float64frombits(0x7FF8000000000001), math.Float64frombits(0xFFF8000000000000)
	negz := math.Copysign(0, -1)
	fs = append(fs, family{"[]float64", []any{[]float64(nil), []float64{}, []float64{nan1}, []float64{nan2}, []float64{nan1, 1}, []float64{nan2, 0}, []float64{negz}, []float64{0}, []float64{0, 1}, []float64{negz, 2},
		[]float64{math.Inf(1)}, []float64{math.Inf(-1)}, []float64{1}, []float64{math.Inf(-1), nan1}},
		func(p *hx.Prng) any {
			b := make([]float64, p.Intn(4))
			for i := range b {
				b[i] = rndF64(p)
			}
			return b
		}})
	n32a, n32b := math.Float32frombits(0x7FC00001), math.Float32frombits(0xFFC00000)
	negz32 := float32(math.Copysign(0, -1))
	fs = append(fs, family{"[]float32", []any{[]float32(nil), []float32{}, []float32{n32a}, []float32{n32b}, []float32{n32a, 1}, []float32{negz32}, []float32{0}, []float32{0, 1}, []float32{negz32, 2},
		[]float32{float32(math.Inf(1))}, []float32{float32(math.Inf(-1))}, []float32{1}},
		func(p *hx.Prng) any {
			b := make([]float32, p.Intn(4))
			for i := range b {
				b[i] = rndF32(p)
			}
			return b
		}})
	// []any, one schema per family (elements at one position always have one type)
	fs = append(fs, family{"[]any{int…}", []any{[]any(nil), []any{}, []any{0}, []any{0, 0}, []any{-1}, []any{1}, []any{1, 2}, []any{math.MinInt64}, []any{math.MaxInt64, 0}},
		anysOf(3, smallInt)})
	fs = append(fs, family{"[]any{string,float64}", []any{[]any{}, []any{"a"}, []any{"a", 1.0}, []any{"a", nan1}, []any{"a", nan2}, []any{"b", negz}, []any{"a", 0.0}, []any{"a", negz}, []any{"", math.Inf(-1)}, []any{"a", 1.0, "x"}},
		anysOf(3, smallStr, smallF64, smallStr)})
	inner := anysOf(2, smallInt)
	fs = append(fs, family{"[]any{[]any{int…},string}", []any{[]any{}, []any{[]any{}}, []any{[]any{}, "x"}, []any{[]any{1}, "x"}, []any{[]any{1, 2}}, []any{[]any{1}, "y"}, []any{[]any(nil), "x"}, []any{[]any{0}, ""}},
		anysOf(2, inner, smallStr)})
	fs = append(fs, family{"[]any{nil,int}", []any{[]any{}, []any{nil}, []any{nil, 1}, []any{nil, 2}, []any{nil, -1}},
		anysOf(2, func(*hx.Prng) any { return nil }, smallInt)})
	fs = append(fs, family{"[]any{time,sop.UUID,[]byte}", []any{[]any{}, []any{time.Unix(5, 0)}, []any{time.Unix(5, 0).In(zones[1]), sop.UUID{1: 1}}, []any{time.Unix(5, 1), sop.UUID{}}, []any{time.Unix(5, 0), sop.UUID{1: 1}, []byte{1}}, []any{time.Unix(5, 0), sop.UUID{1: 1}, []byte{}}},
		anysOf(3, func(p *hx.Prng) any { return time.Unix(int64(p.Intn(3)), int64(p.Intn(2))).In(zones[p.Intn(4)]) }, func(p *hx.Prng) any { return sop.UUID{0: byte(p.Intn(3))} }, func(p *hx.Prng) any { return make([]byte, p.Intn(3)) })})
	fs = append(fs, family{"nil", []any{nil}, func(*hx.Prng) any { return nil }})
	return fs
}

func pick(f family, p *hx.Prng) any {
	if p.Chance(2, 5) {
		return f.edges[p.Intn(len(f.edges))]
	}
	return f.rnd(p)
}

// ---- the run ----

type runner struct {
	s *hx.Session
}

func (r *runner) cmp(a, b any) int {
	c := btree.Compare(a, b)
	k := "0"
	if compatGo(a, b) {
		k = "1"
	}
	r.s.Op("cmp "+enc(a)+" "+enc(b), fmt.Sprintf("%d %s", c, k))
	return c
}

func (r *runner) coe(x, a, b any) int {
	c := btree.CoerceComparer(x)(a, b)
	r.s.Op("coe "+enc(x)+" "+enc(a)+" "+enc(b), fmt.Sprint(c))
	return c
}

func (r *runner) pairCase(fam string, a, b any) {
	s := r.s
	s.BeginCase("pair " + strings.ReplaceAll(fam, " ", ""))
	ab, ba, aa := r.cmp(a, b), r.cmp(b, a), r.cmp(a, a)
	c1, c2 := r.coe(a, a, b), r.coe(b, a, b)
	s.Hit("pair")
	s.Hit("pair:" + fam)
	s.Hit(fmt.Sprintf("result:%d", ab))
	if enc(a) != enc(b) {
		s.Nontrivial()
	}
	if !compatGo(a, b) {
		s.Hit("pair_not_compat")
		return
	}
	d := fmt.Sprintf("a=%s b=%s: ab=%d ba=%d aa=%d", enc(a), enc(b), ab, ba, aa)
	if ab < -1 || ab > 1 {
		s.Fail("C29/range", "Compare returned a value outside {-1,0,1}", d)
	}
	if aa != 0 {
		s.Fail("C29/reflexivity", "Compare(a,a) != 0", d)
	}
	if ab != -ba {
		s.Fail("C29/antisymmetry", "Compare(a,b) != -Compare(b,a) for two keys of one type", d)
	}
	if want := ref(a, b); ab != want {
		s.Fail("C29/natural-order", "Compare disagrees with the type's natural order", fmt.Sprintf("%s want %d", d, want))
	}
	if c1 != ab || c2 != ab {
		s.Fail("C29/coerce-differs", "CoerceComparer(x)(a,b) != Compare(a,b) for x of the type of a", fmt.Sprintf("%s coerce=%d,%d", d, c1, c2))
	}
}

func (r *runner) tripleCase(fam string, a, b, c any) {
	s := r.s
	s.BeginCase("triple " + strings.ReplaceAll(fam, " ", ""))
	x, y, z := r.cmp(a, b), r.cmp(b, c), r.cmp(a, c)
	s.Hit("triple")
	if x <= 0 && y <= 0 {
		s.Hit("triple_chain") // the premise of transitivity holds
		s.Nontrivial()
		if x < 0 || y < 0 {
			s.Hit("triple_chain_strict")
		}
	}
	if !(compatGo(a, b) && compatGo(b, c) && compatGo(a, c)) {
		s.Hit("triple_not_compat")
		return
	}
	bad := (x <= 0 && y <= 0 && z > 0) || (x < 0 && y <= 0 && z >= 0) || (x <= 0 && y < 0 && z >= 0) || (x == 0 && y == 0 && z != 0)
	if bad {
		s.Fail("C29/transitivity", "a<=b and b<=c but not a<=c (or a strict step lost) for three keys of one type",
			fmt.Sprintf("a=%s b=%s c=%s: ab=%d bc=%d ac=%d", enc(a), enc(b), enc(c), x, y, z))
	}
}

func fkCase(s *hx.Session, w int, a, b uint64) {
	s.BeginCase("fkey")
	var x, y float64
	if w == 32 {
		x, y = float64(math.Float32frombits(uint32(a))), float64(math.Float32frombits(uint32(b)))
	} else {
		x, y = math.Float64frombits(a), math.Float64frombits(b)
	}
	b01 := func(v bool) string {
		if v {
			return "1"
		}
		return "0"
	}
	o := "x"
	if x == x && y == y {
		switch {
		case x < y:
			o = "-1"
		case x > y:
			o = "1"
		default:
			o = "0"
		}
		s.Nontrivial()
	}
	s.Op(fmt.Sprintf("fk %d %d %d", w, a, b), fmt.Sprintf("%s %s %s", b01(x != x), b01(y != y), o))
	s.Hit(fmt.Sprintf("fkey%d", w))
}

func run(o hx.RunOpts) error {
	monoOK = checkMonoLayout()
	s := hx.NewSession(o, "cases: per key type (11 integer types, float32/64, string, uuid.UUID, sop.UUID, time.Time incl. zones and monotonic readings, []byte, []string, []int, []float64, []float32, "+
		"five []any schemas incl. nested and nil elements, nil): all ordered pairs of the edge table and random pairs -> Compare(a,b), Compare(b,a), Compare(a,a), CoerceComparer(a)(a,b), CoerceComparer(b)(a,b); "+
		"random triples -> Compare on ab, bc, ac; mixed-type pairs (model correspondence only); float key map vs Go's < on bit patterns. "+
		"distinct = canonical op-line hash; non-trivial = pair of two different values / triple whose premise a<=b<=c holds / float pair without NaN")
	if !monoOK {
		s.Rep.CoverageGap = append(s.Rep.CoverageGap, "time.Time layout self-check failed: no keys with monotonic readings generated")
	}
	p := hx.NewPrng(o.Seed)
	r := &runner{s}
	fams := families()

	// directed: the two witnesses of Props/C29.lean (outside the homogeneity hypothesis; model and code must agree on them)
	s.BeginCase("directed hetero")
	h1, h2 := []any{[]any{1}, 2}, []any{2}
	ab, ba := r.cmp(h1, h2), r.cmp(h2, h1)
	if ab == 1 && ba == 1 {
		s.Hit("directed_hetero_both_1")
	} else {
		s.Rep.Notes = append(s.Rep.Notes, fmt.Sprintf("mixed-type []any witness now compares %d/%d (was 1/1)", ab, ba))
	}
	s.Nontrivial()
	if monoOK {
		s.BeginCase("directed stepped-clock")
		a, b, c := withMono(100, 0, 1), withMono(50, 0, 2), time.Unix(60, 0)
		x, y, z := r.cmp(a, b), r.cmp(b, c), r.cmp(a, c)
		if x == -1 && y == -1 && z == 1 {
			s.Hit("directed_stepped_clock_cycle")
		}
		s.Nontrivial()
	}

	// all ordered pairs of every edge table
	for _, f := range fams {
		for _, a := range f.edges {
			for _, b := range f.edges {
				r.pairCase(f.name, a, b)
			}
		}
	}
	// random pairs and triples
	np, nt := o.N(150, 6000), o.N(400, 20000)
	for _, f := range fams {
		if f.name == "nil" {
			continue
		}
		for i := 0; i < np; i++ {
			r.pairCase(f.name, pick(f, p), pick(f, p))
		}
		for i := 0; i < nt; i++ {
			a, b, c := pick(f, p), pick(f, p), pick(f, p)
			if p.Chance(1, 3) { // all three from the edge table
				a, b, c = f.edges[p.Intn(len(f.edges))], f.edges[p.Intn(len(f.edges))], f.edges[p.Intn(len(f.edges))]
			}
			r.tripleCase(f.name, a, b, c)
		}
	}
	// mixed types: the second argument is silently replaced by the zero value of the first one's type
	nh := o.N(1500, 60000)
	for i := 0; i < nh; i++ {
		fa, fb := fams[p.Intn(len(fams))], fams[p.Intn(len(fams))]
		a, b := pick(fa, p), pick(fb, p)
		if p.Chance(1, 3) { // inside []any
			k := pick(fams[p.Intn(len(fams))], p)
			a, b = []any{k, a}, []any{k, b}
			if p.Chance(1, 4) {
				b = []any{k}
			}
		}
		s.BeginCase("hetero")
		x, y := r.cmp(a, b), r.cmp(b, a)
		r.coe(a, a, b)
		r.coe(a, b, a)
		if a != nil || (a == nil && b == nil) {
			r.coe(a, b, b)
		}
		s.Hit("hetero")
		if !compatGo(a, b) {
			s.Hit("hetero_not_compat")
			s.Nontrivial()
			if x != -y {
				s.Hit("hetero_not_antisymmetric")
			}
		}
	}
	// the IEEE fact the proofs trust
	nf := o.N(20000, 1000000)
	for i := 0; i < nf; i++ {
		var a, b uint64
		switch p.Intn(4) {
		case 0:
			a, b = p.U64(), p.U64()
		case 1:
			a, b = f64Edges[p.Intn(len(f64Edges))], f64Edges[p.Intn(len(f64Edges))]
		case 2:
			a = p.U64()
			b = a ^ uint64(1)<<p.Intn(64)
		default:
			a = f64Edges[p.Intn(len(f64Edges))]
			b = a + uint64(p.Intn(3)) - 1
		}
		fkCase(s, 64, a, b)
		if i%4 == 0 {
			var c, d uint32
			switch p.Intn(3) {
			case 0:
				c, d = uint32(p.U64()), uint32(p.U64())
			case 1:
				c, d = f32Edges[p.Intn(len(f32Edges))], f32Edges[p.Intn(len(f32Edges))]
			default:
				c = uint32(p.U64())
				d = c ^ uint32(1)<<p.Intn(32)
			}
			fkCase(s, 32, uint64(c), uint64(d))
		}
	}
	return s.Finish()
}
