// C30: the JSON map-key comparers (jsondb.IndexSpecification.Comparer and JsonDBMapKey.defaultComparer behind
// proxyComparer) against the Lean model Sop.MapKey; direct oracle = history independence (one instance vs new
// instances on the same pair) + order axioms + a native reference order on uniformly typed keys.
package main

import (
	"fmt"
	"math"
	"sort"
	"strings"

	"github.com/sharedcode/sop/encoding"
	"github.com/sharedcode/sop/jsondb"

	"verifharness/hx"
)

func main() { hx.Main(run, "", nil, nil) }

type doc = map[string]any

// ---- canonical tokens ----

func hexOrDash(b []byte) string {
	if len(b) == 0 {
		return "-"
	}
	return hx.Hexb(b)
}

func encVal(v any) string {
	switch x := v.(type) {
	case nil:
		return "z"
	case bool:
		if x {
			return "t"
		}
		return "f"
	case float64:
		// the %v text is produced by Go's fmt (not the code under test) and handed to the model as data
		return fmt.Sprintf("n:%d:%s", math.Float64bits(x), hx.Hexb([]byte(fmt.Sprintf("%v", x))))
	case int:
		return fmt.Sprintf("i:%d", x)
	case string:
		return "s:" + hexOrDash([]byte(x))
	}
	panic(fmt.Sprintf("encVal: unsupported %T", v))
}

func keysOf(d doc) []string {
	ks := make([]string, 0, len(d))
	for k := range d {
		ks = append(ks, k)
	}
	sort.Strings(ks)
	return ks
}

func encDoc(d doc) string {
	ks := keysOf(d)
	p := make([]string, len(ks))
	for i, k := range ks {
		p[i] = k + "=" + encVal(d[k])
	}
	return "{" + strings.Join(p, ";") + "}"
}

// kind = which closure btree.CoerceComparer(v) returns (computed here from the Go type, independently of btree)
func kind(v any) string {
	switch v.(type) {
	case float64:
		return "f64"
	case int:
		return "int"
	case string:
		return "str"
	}
	return "dflt"
}

type fieldSpec struct {
	name string
	asc  bool
}

// ---- the comparer instances of the real code ----

type instance struct {
	isDefault bool
	spec      []fieldSpec
	cmp       func(x, y doc) int
	lefts     []doc // left keys this instance has compared
}

func newInstance(isDefault bool, spec []fieldSpec) *instance {
	in := &instance{isDefault: isDefault, spec: spec}
	if isDefault {
		in.cmp = jsondb.VerifNewMapKeyComparer(nil)
	} else {
		fs := make([]jsondb.IndexFieldSpecification, len(spec))
		for i, f := range spec {
			fs[i] = jsondb.IndexFieldSpecification{FieldName: f.name, AscendingSortOrder: f.asc}
		}
		in.cmp = jsondb.VerifNewMapKeyComparer(jsondb.NewIndexSpecification(fs))
	}
	return in
}

// fields the instance walks: the spec, or (default comparer) the sorted names of its first left key
func (in *instance) fields(x doc) []fieldSpec {
	if !in.isDefault {
		return in.spec
	}
	first := x
	if len(in.lefts) > 0 {
		first = in.lefts[0]
	}
	var fs []fieldSpec
	for _, k := range keysOf(first) {
		fs = append(fs, fieldSpec{k, true})
	}
	return fs
}

// uniform: every listed field selects one comparer in all the documents
func uniform(fs []fieldSpec, docs ...doc) bool {
	for _, f := range fs {
		for _, d := range docs[1:] {
			if kind(d[f.name]) != kind(docs[0][f.name]) {
				return false
			}
		}
	}
	return true
}

func sameKeys(docs ...doc) bool {
	for _, d := range docs[1:] {
		if strings.Join(keysOf(d), ",") != strings.Join(keysOf(docs[0]), ",") {
			return false
		}
	}
	return true
}

// ---- native reference order for uniformly typed keys (never calls btree / jsondb) ----

func refVal(a, b any) int {
	if a == nil || b == nil {
		switch {
		case a == nil && b == nil:
			return 0
		case a == nil:
			return -1
		}
		return 1
	}
	switch x := a.(type) {
	case float64:
		y := b.(float64)
		xn, yn := x != x, y != y
		switch {
		case xn && yn:
			return 0
		case xn:
			return -1
		case yn:
			return 1
		case x < y:
			return -1
		case x > y:
			return 1
		}
		return 0
	case int:
		y := b.(int)
		if x < y {
			return -1
		} else if x > y {
			return 1
		}
		return 0
	case string:
		return strings.Compare(x, b.(string))
	case bool:
		y := b.(bool)
		if x == y {
			return 0
		} else if !x {
			return -1
		}
		return 1
	}
	panic("refVal")
}

func refDoc(fs []fieldSpec, x, y doc) int {
	for _, f := range fs {
		if r := refVal(x[f.name], y[f.name]); r != 0 {
			if !f.asc {
				return -r
			}
			return r
		}
	}
	return 0
}

// ---- generators ----

var nums = []float64{0, math.Copysign(0, -1), 1, 2, 9, 10, 1.5, -1, 100, 1e6, 1e21, 123456789, 0.1, -10, 1e-7}
var ints = []int{0, 1, 9, 10, -1, 100, 1000000, -10}
var strs = []string{"", "a", "b", "10", "9", "true", "false", "<nil>", "1e+06", "é", "ab"}

func genVal(p *hx.Prng, ty int) (any, bool) {
	switch ty {
	case 0: // absent
		return nil, false
	case 1:
		return nil, true
	case 2:
		return p.Chance(1, 2), true
	case 3:
		if p.Chance(1, 40) {
			return []float64{math.NaN(), math.Inf(1), math.Inf(-1)}[p.Intn(3)], true
		}
		return nums[p.Intn(len(nums))], true
	case 4:
		return ints[p.Intn(len(ints))], true
	}
	return strs[p.Intn(len(strs))], true
}

// roundTrip sends a key through the marshaler the store uses (ints come back as float64)
func roundTrip(d doc) doc {
	b, err := encoding.DefaultMarshaler.Marshal(d)
	if err != nil {
		return d // NaN/Inf cannot be stored
	}
	var out doc
	if err := encoding.DefaultMarshaler.Unmarshal(b, &out); err != nil || out == nil {
		return d
	}
	return out
}

type runner struct {
	s *hx.Session
}

func (r *runner) header(in *instance) string {
	if in.isDefault {
		return "def"
	}
	p := make([]string, len(in.spec))
	for i, f := range in.spec {
		a := "0"
		if f.asc {
			a = "1"
		}
		p[i] = f.name + ":" + a
	}
	return "idx " + strings.Join(p, ";")
}

// fresh evaluates the pair on a NEW instance of the same configuration (op `f`).
func (r *runner) fresh(in *instance, x, y doc) int {
	v := newInstance(in.isDefault, in.spec).cmp(x, y)
	r.s.Op("f "+encDoc(x)+" "+encDoc(y), fmt.Sprint(v))
	return v
}

// stateful compares on the case's instance (op `c`) and applies the history-independence oracle.
func (r *runner) stateful(in *instance, x, y doc) int {
	s := r.s
	fs := in.fields(x)
	v := in.cmp(x, y)
	s.Op("c "+encDoc(x)+" "+encDoc(y), fmt.Sprint(v))
	in.lefts = append(in.lefts, x)
	f := r.fresh(in, x, y)
	s.Hit("stateful")
	uni := uniform(fs, in.lefts...) && (!in.isDefault || sameKeys(in.lefts...))
	if uni {
		s.Hit("stateful_uniform_history")
	}
	if v != f {
		d := fmt.Sprintf("%s: after %d comparisons the instance says %d, a new instance says %d for x=%s y=%s", r.header(in), len(in.lefts)-1, v, f, encDoc(x), encDoc(y))
		switch {
		case in.isDefault && !sameKeys(in.lefts[0], x):
			s.Fail("C30/default-field-list-fixed-by-first-key", "default comparer: field list taken from the first left key is applied to a key with other field names", d)
		case !uniform(fs, in.lefts...):
			s.Fail("C30/field-comparer-fixed-by-first-key", "the per-field comparer chosen from the first left key is applied to a field value of another type", d)
		default:
			s.Fail("C30/history-dependent-on-uniform-keys", "an instance and a new instance disagree although every key had one type per field", d)
		}
	}
	if uni && uniform(fs, x, y) && (!in.isDefault || sameKeys(x, y)) {
		if want := refDoc(fs, x, y); v != want {
			s.Fail("C30/uniform-keys-wrong-order", "uniformly typed keys are not ordered field by field in natural order", fmt.Sprintf("%s x=%s y=%s got %d want %d", r.header(in), encDoc(x), encDoc(y), v, want))
		}
		s.Hit("stateful_checked_against_reference")
	}
	return v
}

// axioms on new instances for a triple
func (r *runner) triple(in *instance, x, y, z doc) {
	s := r.s
	a, b, c, d := r.fresh(in, x, y), r.fresh(in, y, x), r.fresh(in, y, z), r.fresh(in, x, z)
	s.Hit("triple")
	var fs []fieldSpec
	if in.isDefault {
		for _, k := range keysOf(x) {
			fs = append(fs, fieldSpec{k, true})
		}
	} else {
		fs = in.spec
	}
	uni := uniform(fs, x, y, z) && (!in.isDefault || sameKeys(x, y, z))
	antisym := a == -b
	trans := !((a <= 0 && c <= 0 && d > 0) || (a < 0 && c <= 0 && d >= 0) || (a <= 0 && c < 0 && d >= 0) || (a == 0 && c == 0 && d != 0))
	if a <= 0 && c <= 0 {
		s.Hit("triple_chain")
	}
	if antisym && trans {
		return
	}
	det := fmt.Sprintf("%s x=%s y=%s z=%s: xy=%d yx=%d yz=%d xz=%d", r.header(in), encDoc(x), encDoc(y), encDoc(z), a, b, c, d)
	what := "antisymmetry"
	if antisym {
		what = "transitivity"
	}
	if uni {
		s.Fail("C30/uniform-keys-order-axiom", what+" fails on new instances for uniformly typed keys", det)
	} else {
		s.Fail("C30/new-instance-order-depends-on-left-key", what+" fails on new instances: the left key's field types (default comparer: field names) select the comparers", det)
	}
}

func (r *runner) genCase(p *hx.Prng) {
	s := r.s
	isDefault := p.Chance(1, 3)
	names := []string{"a", "b", "c", "B"}
	var spec []fieldSpec
	if !isDefault {
		n := 1 + p.Intn(3)
		perm := []int{0, 1, 2}
		for i := 2; i > 0; i-- {
			j := p.Intn(i + 1)
			perm[i], perm[j] = perm[j], perm[i]
		}
		for i := 0; i < n; i++ {
			spec = append(spec, fieldSpec{names[perm[i]], p.Chance(2, 3)})
		}
	}
	mode := p.Intn(3) // 0 uniform, 1 mostly uniform with one odd key, 2 mixed
	ty := map[string]int{}
	present := map[string]bool{}
	for _, n := range names {
		ty[n] = 1 + p.Intn(5)
		present[n] = p.Chance(3, 4)
	}
	if !present["a"] && !present["b"] {
		present["a"] = true
	}
	mk := func(odd bool) doc {
		d := doc{}
		for _, n := range names {
			t := ty[n]
			pr := present[n]
			if mode == 2 || odd {
				if p.Chance(1, 2) {
					t = p.Intn(6)
					pr = t != 0
				}
			} else if mode == 0 && (t == 1 || t == 2) && p.Chance(1, 3) {
				t = 3 - t // null and bool select the same comparer
			}
			if !pr {
				continue
			}
			if v, ok := genVal(p, t); ok {
				d[n] = v
			}
		}
		return d
	}
	pool := make([]doc, 3+p.Intn(3))
	for i := range pool {
		pool[i] = mk(mode == 1 && i == 0 && p.Chance(1, 2) || mode == 1 && i == len(pool)-1)
		if p.Chance(1, 2) {
			pool[i] = roundTrip(pool[i])
		}
	}
	in := newInstance(isDefault, spec)
	s.BeginCase(r.header(in))
	s.Hit(map[bool]string{true: "case_default", false: "case_index"}[isDefault])
	s.Hit(fmt.Sprintf("case_mode_%d", mode))
	k := 4 + p.Intn(7)
	diff := false
	for i := 0; i < k; i++ {
		x, y := pool[p.Intn(len(pool))], pool[p.Intn(len(pool))]
		if r.stateful(in, x, y) != 0 {
			diff = true
		}
	}
	for i := 0; i < 3; i++ {
		r.triple(in, pool[p.Intn(len(pool))], pool[p.Intn(len(pool))], pool[p.Intn(len(pool))])
	}
	if diff {
		s.Nontrivial()
	}
}

func jsonDoc(text string) doc {
	var d doc
	if err := encoding.DefaultMarshaler.Unmarshal([]byte(text), &d); err != nil {
		panic(err)
	}
	return d
}

func (r *runner) directed() {
	s := r.s
	specA := []fieldSpec{{"a", true}}
	note := func(ok bool, hit, what string) {
		if ok {
			s.Hit(hit)
		} else {
			s.Rep.Notes = append(s.Rep.Notes, "directed witness no longer reproduces: "+what)
		}
	}
	k10, k9, kE := jsonDoc(`{"a":10}`), jsonDoc(`{"a":9}`), jsonDoc(`{}`)
	kA, kB, k1 := jsonDoc(`{"a":"a"}`), jsonDoc(`{"a":"b"}`), jsonDoc(`{"a":1}`)
	// Sop.C30.fresh_10_gt_9 / after_missing_10_lt_9 (= C30_counterexample)
	in := newInstance(false, specA)
	s.BeginCase(r.header(in))
	s.Nontrivial()
	r.stateful(in, kE, kE)
	v := r.stateful(in, k10, k9)
	note(v == -1, "directed_missing_then_10_lt_9", "index on a: {} vs {} then {a:10} vs {a:9} gave "+fmt.Sprint(v)+" (was -1; a new instance gives 1)")
	// Sop.C30.after_numbers_strings_equal
	in = newInstance(false, specA)
	s.BeginCase(r.header(in))
	s.Nontrivial()
	r.stateful(in, k10, k9)
	v = r.stateful(in, kB, kA)
	note(v == 0, "directed_numbers_then_strings_equal", "index on a: numbers first, then {a:b} vs {a:a} gave "+fmt.Sprint(v)+" (was 0)")
	// Sop.C30.fresh_left_type_selects
	in = newInstance(false, specA)
	s.BeginCase(r.header(in))
	s.Nontrivial()
	r.triple(in, k1, kA, k1)
	// Sop.C30.default_first_key_fixes_fields
	in = newInstance(true, nil)
	s.BeginCase(r.header(in))
	s.Nontrivial()
	r.stateful(in, k1, k1)
	v = r.stateful(in, jsonDoc(`{"a":1,"b":1}`), jsonDoc(`{"a":1,"b":2}`))
	note(v == 0, "directed_default_ignores_later_field", "default comparer: {a:1} first, then keys differing in b gave "+fmt.Sprint(v)+" (was 0)")
	in = newInstance(true, nil)
	s.BeginCase(r.header(in))
	s.Nontrivial()
	r.stateful(in, kE, kE)
	v = r.stateful(in, k10, k9)
	note(v == 0, "directed_default_empty_first_key", "default comparer: {} first, then {a:10} vs {a:9} gave "+fmt.Sprint(v)+" (was 0)")
}

func run(o hx.RunOpts) error {
	s := hx.NewSession(o, "cases: one comparer instance (index specification over 1-3 of the fields a,b,c with random directions, or the default comparer; both reached through JsonDBMapKey.proxyComparer) "+
		"and 4-10 comparisons among a pool of 3-5 keys whose fields are absent/null/bool/float64/int/string (uniformly typed, one odd key, or mixed; half of the keys round-tripped through the store's JSON marshaler); "+
		"every comparison is repeated on a NEW instance (history independence), then 3 triples on new instances (antisymmetry, transitivity); uniformly typed histories are also checked against a native field-by-field order. "+
		"distinct = canonical op-line hash; non-trivial = at least one comparison of the instance returned non-zero")
	p := hx.NewPrng(o.Seed)
	r := &runner{s}
	r.directed()
	n := o.N(6000, 150000)
	for i := 0; i < n; i++ {
		r.genCase(p)
	}
	return s.Finish()
}
