// Interleaved histories: several decoders / raw readers / encoders open on ONE streaming store (they all work on
// the store's single B-tree cursor), advanced in generated orders, with raw B-tree cursor operations in between.
package main

import (
	"bytes"
	"encoding/json"
	"fmt"
	"io"
	"sort"
	"strconv"
	"strings"

	sd "github.com/sharedcode/sop/streamingdata"

	"verifharness/hx"
)

// rslot is an open reader of the case: a json.Decoder from GetCurrentValue (public path) or the raw chunk reader.
type rslot struct {
	key   int
	dec   *json.Decoder
	raw   io.Reader
	want  [][]byte // the entry's chunks when the reader was opened (the entry is not rewritten while it is open)
	nvals int      // values decoded so far (public path)
	got   []byte   // bytes delivered so far (raw path)
	done  bool     // EOF (or an error) was reported
}

// wslot is an open encoder.
type wslot struct {
	key    int
	enc    *sd.Encoder[int]
	add    bool // add mode (Add / AddIfNotExist / Upsert of an absent key)
	vals   [][]byte
	closed bool
}

type ilState struct {
	rs []*rslot
	ws []*wslot
}

// newIL: the reader / writer slots of the case. Slot numbers run on through the whole case (the model appends every
// reader and writer it opens); what is still open from an earlier phase is abandoned.
func (r *runner) newIL() *ilState {
	if r.il == nil {
		r.il = &ilState{}
	}
	for _, sl := range r.il.rs {
		sl.done = true
	}
	for _, w := range r.il.ws {
		w.closed = true
	}
	return r.il
}

// wantedChunk: the chunk index the slot's next cursor-touching Read will ask for, and whether it is between chunks
// (nothing buffered in the reader).
func (sl *rslot) wantedChunk() (int, bool) {
	if sl.dec != nil {
		return sl.nvals, true
	}
	n := len(sl.got)
	for i, c := range sl.want {
		if n == 0 {
			return i, true
		}
		if n < len(c) {
			return i, false
		}
		n -= len(c)
	}
	return len(sl.want), true
}

// cursorNote classifies where the shared cursor rests relative to what slot sl will ask for next, BEFORE the step:
// this is the state the fast path of reader.Read looks at.
func (r *runner) cursorNote(sl *rslot) (deselected bool) {
	it := r.b.s.BtreeInterface.GetCurrentKey()
	want, between := sl.wantedChunk()
	if !between {
		r.s.Hit("il_step_from_buffered_chunk")
		return false
	}
	switch {
	case it.ID.IsNil():
		r.s.Hit("il_cursor_deselected_before_step")
		return true
	case it.Key.Key == sl.key && it.Key.ChunkIndex == want-1:
		r.s.Hit("il_cursor_on_own_previous_chunk")
	case it.Key.Key != sl.key && want >= 1 && it.Key.ChunkIndex == want-1:
		// the blind spot of a position-only fast path: same chunk index, other entry
		r.s.Hit("il_cursor_on_previous_chunk_of_OTHER_entry")
		r.s.Nontrivial()
	case it.Key.Key == sl.key:
		r.s.Hit("il_cursor_elsewhere_in_own_entry")
	default:
		r.s.Hit("il_cursor_on_other_entry")
	}
	return false
}

func (r *runner) openReader(st *ilState, k int, raw bool) *rslot {
	if r.dead {
		return nil
	}
	j := len(st.rs)
	op := fmt.Sprintf("open %d %d", j, k)
	found, err := r.b.s.FindOne(r.ctx, k)
	if err != nil {
		r.s.Op(op, "err")
		return nil
	}
	if !found {
		if _, ok := r.ref[k]; ok {
			r.s.Fail("C31/entry-lost", "an entry of the reference is not found", fmt.Sprint(k))
		}
		r.s.Op(op, "notfound")
		return nil
	}
	sl := &rslot{key: k, want: r.ref[k]}
	if raw {
		sl.raw = sd.VerifNewReader(r.ctx, r.b.s)
		r.s.Hit("il_open_raw_reader")
	} else {
		dec, err := r.b.s.GetCurrentValue(r.ctx)
		if err != nil {
			r.s.Op(op, "err")
			return nil
		}
		sl.dec = dec
		r.s.Hit("il_open_decoder")
	}
	st.rs = append(st.rs, sl)
	r.s.Op(op, "ok")
	return sl
}

// truncated reports an early EOF with the signature of its mechanism.
func (r *runner) truncated(sl *rslot, j int, delivered int, deselected bool, detail string) {
	if sl.key == 0 && delivered == 1 && deselected {
		r.s.Fail("C31/zero-key-reader-eof-at-chunk-1-cursor-deselected",
			"an entry whose key is the zero value is cut off after its first chunk: with nothing selected GetCurrentKey answers the zero key (0,0), which the reader's fast path takes for 'the cursor is on my chunk 0', and Next on nothing selected fails -> io.EOF",
			detail)
		r.s.Hit("il_zero_key_truncation")
		return
	}
	r.s.Fail("C31/interleaved-reader-truncated", "a reader reported end-of-stream before it had delivered all chunks of its entry (another reader/writer/cursor operation moved the store's shared cursor in between)",
		detail)
}

// decStep: one Decode on the public-path decoder in slot j.
func (r *runner) decStep(st *ilState, j int) (line []byte, eof bool) {
	sl := st.rs[j]
	if r.dead || sl.done {
		return nil, true
	}
	desel := r.cursorNote(sl)
	var rawv json.RawMessage
	err := sl.dec.Decode(&rawv)
	op := fmt.Sprintf("dec %d", j)
	r.s.Hit("il_step_dec")
	if err == io.EOF {
		sl.done = true
		r.s.Op(op, "eof")
		if sl.nvals != len(sl.want) {
			r.truncated(sl, j, sl.nvals, desel, fmt.Sprintf("decoder %d on key %d: EOF after %d of %d values", j, sl.key, sl.nvals, len(sl.want)))
		} else {
			r.s.Hit("il_reader_complete")
		}
		return nil, true
	}
	if err != nil {
		sl.done = true
		r.s.Op(op, "err")
		r.s.Fail("C31/interleaved-decode-error", "Decode returned an error", fmt.Sprintf("decoder %d key %d value %d: %v", j, sl.key, sl.nvals, err))
		return nil, true
	}
	line = append(append([]byte(nil), rawv...), '\n')
	r.s.Op(op, "v "+dig(line))
	if sl.nvals >= len(sl.want) {
		r.s.Fail("C31/interleaved-reader-extra-value", "a decoder delivered more values than were written for its entry", fmt.Sprintf("decoder %d key %d value %d", j, sl.key, sl.nvals))
	} else if !bytes.Equal(line, sl.want[sl.nvals]) {
		r.s.Fail("C31/interleaved-reader-wrong-value", "a decoder delivered a value that is not the next value written for its entry", fmt.Sprintf("decoder %d key %d value %d: got %s want %s", j, sl.key, sl.nvals, dig(line), dig(sl.want[sl.nvals])))
	}
	sl.nvals++
	return line, false
}

// rdStep: raw Read calls with the given buffer sizes on the reader in slot j.
func (r *runner) rdStep(st *ilState, j int, bufs []int) {
	sl := st.rs[j]
	if r.dead || sl.done {
		return
	}
	bs := make([]string, len(bufs))
	for i, b := range bufs {
		bs[i] = strconv.Itoa(b)
	}
	op := fmt.Sprintf("rd %d %s", j, strings.Join(bs, ","))
	var counts []string
	var all []byte
	eof := false
	desel := false
	for _, n := range bufs {
		desel = r.cursorNote(sl)
		p := make([]byte, n)
		c, err := sl.raw.Read(p)
		if err == io.EOF {
			eof = true
			break
		}
		if err != nil {
			sl.done = true
			r.s.Op(op, "err")
			return
		}
		counts = append(counts, strconv.Itoa(c))
		all = append(all, p[:c]...)
		sl.got = append(sl.got, p[:c]...)
	}
	tag := " more "
	if eof {
		tag = " eof "
		sl.done = true
	}
	r.s.Op(op, strings.Join(counts, ",")+tag+dig(all))
	r.s.Hit("il_step_rd")
	want := bytes.Join(sl.want, nil)
	switch {
	case !bytes.HasPrefix(want, sl.got):
		r.s.Fail("C31/interleaved-reader-wrong-value", "a raw reader delivered bytes that are not the next bytes of its entry", fmt.Sprintf("reader %d key %d after %d bytes", j, sl.key, len(sl.got)))
	case eof && len(sl.got) != len(want):
		nch, _ := sl.wantedChunk()
		r.truncated(sl, j, nch, desel, fmt.Sprintf("raw reader %d on key %d: EOF after %d of %d bytes (%d of %d chunks)", j, sl.key, len(sl.got), len(want), nch, len(sl.want)))
	case eof:
		r.s.Hit("il_reader_complete")
	}
}

func (r *runner) openWriter(st *ilState, kind string, k int) *wslot {
	if r.dead {
		return nil
	}
	j := len(st.ws)
	op := fmt.Sprintf("enc %d %s %d", j, kind, k)
	var enc *sd.Encoder[int]
	var err error
	_, existed := r.ref[k]
	add := false
	switch kind {
	case "add":
		enc, err = r.b.s.Add(r.ctx, k)
		add = true
	case "upd":
		enc, err = r.b.s.Update(r.ctx, k)
	case "ups":
		enc, err = r.b.s.Upsert(r.ctx, k)
		add = !existed
	default:
		enc, err = r.b.s.AddIfNotExist(r.ctx, k)
		add = true
	}
	if err != nil {
		r.s.Op(op, "err")
		return nil
	}
	if enc == nil {
		r.s.Op(op, "notfound")
		return nil
	}
	w := &wslot{key: k, enc: enc, add: add}
	st.ws = append(st.ws, w)
	r.s.Op(op, "ok")
	r.s.Hit("il_open_encoder_" + kind)
	return w
}

func (r *runner) putStep(st *ilState, j int, v val) {
	w := st.ws[j]
	if r.dead || w.closed {
		return
	}
	out := "ok"
	if err := w.enc.Encode(v.goValue()); err != nil {
		out = "err"
		r.s.Fail("C31/interleaved-encode-failed", "Encode on an open encoder failed", fmt.Sprintf("encoder %d key %d: %v", j, w.key, err))
	} else {
		w.vals = append(w.vals, v.chunk())
	}
	r.s.Op(fmt.Sprintf("put %d %s", j, v), out)
	r.s.Hit("il_step_put")
}

func (r *runner) closeStep(st *ilState, j int) {
	w := st.ws[j]
	if r.dead || w.closed {
		return
	}
	w.closed = true
	out := "ok"
	if err := w.enc.Close(); err != nil {
		out = "err"
		r.s.Fail("C31/interleaved-encode-failed", "Close of an open encoder failed", fmt.Sprintf("encoder %d key %d: %v", j, w.key, err))
	}
	if len(w.vals) > 0 {
		r.ref[w.key] = w.vals
	} else if !w.add {
		delete(r.ref, w.key)
	}
	r.s.Op(fmt.Sprintf("cls %d", j), out)
	r.s.Hit("il_step_cls")
}

// cpStep: stream copy, one value: decode from reader slot jd, encode what came out into encoder slot je.
func (r *runner) cpStep(st *ilState, jd, je int) (eof bool) {
	sl, w := st.rs[jd], st.ws[je]
	if r.dead || sl.done || w.closed {
		return true
	}
	desel := r.cursorNote(sl)
	op := fmt.Sprintf("cp %d %d", jd, je)
	var rawv json.RawMessage
	err := sl.dec.Decode(&rawv)
	r.s.Hit("il_step_cp")
	if err != nil {
		sl.done = true
		if err != io.EOF {
			r.s.Op(op, "err")
			return true
		}
		r.s.Op(op, "eof")
		if sl.nvals != len(sl.want) {
			r.truncated(sl, jd, sl.nvals, desel, fmt.Sprintf("stream copy: decoder %d on key %d: EOF after %d of %d values", jd, sl.key, sl.nvals, len(sl.want)))
		} else {
			r.s.Hit("il_reader_complete")
		}
		return true
	}
	line := append(append([]byte(nil), rawv...), '\n')
	if sl.nvals >= len(sl.want) || !bytes.Equal(line, sl.want[sl.nvals]) {
		r.s.Fail("C31/interleaved-reader-wrong-value", "stream copy: the decoder delivered a value that is not the next value of the source entry", fmt.Sprintf("decoder %d key %d value %d", jd, sl.key, sl.nvals))
	}
	sl.nvals++
	out := "ok"
	if err := w.enc.Encode(rawv); err != nil {
		out = "err"
		r.s.Fail("C31/interleaved-encode-failed", "stream copy: Encode failed", fmt.Sprintf("encoder %d key %d: %v", je, w.key, err))
	} else {
		w.vals = append(w.vals, line)
	}
	r.s.Op(op, "v "+dig(line)+" "+out)
	return false
}

// curFind: Find(k,i) on the underlying B-tree and, on a hit, n times Next (the cursor is exactly known then).
func (r *runner) curFind(k, i, n int) {
	if r.dead {
		return
	}
	bt := r.b.s.BtreeInterface
	op := fmt.Sprintf("cur find %d %d %d", k, i, n)
	ok, err := bt.Find(r.ctx, sd.StreamingDataKey[int]{Key: k, ChunkIndex: i}, false)
	if err != nil {
		r.s.Op(op, "err")
		return
	}
	if !ok {
		r.s.Op(op, "0")
		r.s.Hit("il_cur_find_miss")
		return
	}
	r.s.Op(op, strings.Join(append([]string{"1"}, r.nexts(n)...), " "))
	r.s.Hit("il_cur_find_hit")
}

func (r *runner) nexts(n int) []string {
	bt := r.b.s.BtreeInterface
	var out []string
	for ; n > 0; n-- {
		ok, err := bt.Next(r.ctx)
		if err != nil {
			return append(out, "err")
		}
		if !ok {
			r.s.Hit("il_cur_next_off_the_end")
			return append(out, "end")
		}
		k := bt.GetCurrentKey().Key
		out = append(out, fmt.Sprintf("%d:%d", k.Key, k.ChunkIndex))
	}
	return out
}

func (r *runner) curFirst(n int) {
	if r.dead {
		return
	}
	bt := r.b.s.BtreeInterface
	op := fmt.Sprintf("cur first %d", n)
	ok, err := bt.First(r.ctx)
	if err != nil {
		r.s.Op(op, "err")
		return
	}
	if !ok {
		r.s.Op(op, "empty")
		return
	}
	k := bt.GetCurrentKey().Key
	r.s.Op(op, strings.Join(append([]string{fmt.Sprintf("%d:%d", k.Key, k.ChunkIndex)}, r.nexts(n)...), " "))
	r.s.Hit("il_cur_first")
}

// txn: commit, begin a new transaction, reopen the store (infs). Open readers and writers die with the transaction.
func (r *runner) txn(st *ilState) error {
	if r.b.txn == nil || r.dead {
		return nil
	}
	if err := r.b.txn(); err != nil {
		return err
	}
	st.rs, st.ws = nil, nil
	r.il = nil
	r.s.Op("txn", "ok")
	r.s.Hit("il_txn_boundary")
	return nil
}

// ---- generators ----

// ilSize: value sizes around the things that matter to reader.Read: tiny, below / above the decoder's 512-byte
// first buffer, around 4 KiB, tens of kB.
func ilSize(p *hx.Prng) int {
	switch p.Intn(12) {
	case 0:
		return p.Intn(4)
	case 1, 2, 3:
		return 1 + p.Intn(60)
	case 4, 5:
		return 380 + p.Intn(400)
	case 6, 7:
		return 700 + p.Intn(3000)
	case 8:
		return 4085 + p.Intn(20)
	case 9:
		return 5000 + p.Intn(15000)
	case 10:
		if p.Chance(1, 4) {
			return 66000 + p.Intn(20000)
		}
		return 509 + p.Intn(6) // the closing quote / newline straddle the 512-byte buffer
	default:
		return 8
	}
}

func ilVals(p *hx.Prng, n int, seed *int) []val {
	vs := make([]val, n)
	for i := range vs {
		*seed++
		sz := ilSize(p)
		if p.Chance(1, 6) {
			vs[i] = val{'n', sz/4 + 1, *seed}
		} else {
			vs[i] = val{'s', sz, *seed}
		}
	}
	return vs
}

func (r *runner) refKeys() []int {
	ks := make([]int, 0, len(r.ref))
	for k := range r.ref {
		ks = append(ks, k)
	}
	sort.Ints(ks)
	return ks
}

// populate adds n entries with distinct keys from the pool, 1..maxChunks chunks each (sometimes all with the SAME
// number of chunks, so that lockstep readers sit on equal chunk indices).
func (r *runner) populate(p *hx.Prng, pool []int, n, maxChunks int, seed *int) {
	same := 0
	if p.Chance(1, 2) {
		same = 2 + p.Intn(maxChunks)
	}
	perm := append([]int(nil), pool...)
	for i := len(perm) - 1; i > 0; i-- {
		j := p.Intn(i + 1)
		perm[i], perm[j] = perm[j], perm[i]
	}
	for i := 0; i < n && i < len(perm); i++ {
		c := 1 + p.Intn(maxChunks)
		if same > 0 && p.Chance(3, 4) {
			c = same
		}
		r.add(perm[i], ilVals(p, c, seed))
	}
	r.dump(-1)
}

// disturb: something else uses the store's cursor: Find on a stored or an absent chunk key (+ Next steps), First.
func (r *runner) disturb(p *hx.Prng, avoidZero bool) {
	ks := r.refKeys()
	switch x := p.Intn(6); {
	case x < 3 && len(ks) > 0:
		k := ks[p.Intn(len(ks))]
		r.curFind(k, p.Intn(len(r.ref[k])), p.Intn(3))
	case x == 3 && len(ks) > 0:
		k := ks[p.Intn(len(ks))]
		r.curFind(k, len(r.ref[k])+p.Intn(2), 0) // just past the entry's last chunk: a miss
	case x == 4:
		r.curFind(90+p.Intn(5), p.Intn(2), 0) // absent entry
	default:
		n := p.Intn(4)
		if !avoidZero && p.Chance(1, 5) {
			n = 200 // walk off the end of the store: nothing selected afterwards
		}
		r.curFirst(n)
	}
}

// stepReader advances reader slot j by one step; false when it is finished.
func (r *runner) stepReader(p *hx.Prng, st *ilState, j int) bool {
	sl := st.rs[j]
	if sl.done {
		return false
	}
	if sl.dec != nil {
		_, eof := r.decStep(st, j)
		return !eof
	}
	// raw reader: 1-3 Read calls of generated sizes
	nb := 1 + p.Intn(3)
	bufs := make([]int, nb)
	for i := range bufs {
		switch p.Intn(5) {
		case 0:
			bufs[i] = 1 + p.Intn(16)
		case 1:
			bufs[i] = 512
		case 2:
			bufs[i] = 4096
		case 3:
			bufs[i] = 100 + p.Intn(3000)
		default:
			bufs[i] = 1 << 17
		}
	}
	r.rdStep(st, j, bufs)
	return !sl.done
}

// schedule advances the readers of st until all are finished: lockstep (0,1,2,0,1,2,…), round-robin in a shuffled
// order with random run lengths, or fully random; `between` runs between two reader steps with the given chance.
func (r *runner) schedule(p *hx.Prng, st *ilState, style int, between func()) {
	live := func() []int {
		var l []int
		for j, sl := range st.rs {
			if !sl.done {
				l = append(l, j)
			}
		}
		return l
	}
	r.s.Hit([]string{"il_schedule_lockstep", "il_schedule_round_robin_runs", "il_schedule_random"}[style])
	for guard := 0; guard < 4000; guard++ {
		l := live()
		if len(l) == 0 || r.dead {
			return
		}
		switch style {
		case 0:
			for _, j := range l {
				r.stepReader(p, st, j)
				if between != nil {
					between()
				}
			}
		case 1:
			for i := len(l) - 1; i > 0; i-- {
				x := p.Intn(i + 1)
				l[i], l[x] = l[x], l[i]
			}
			for _, j := range l {
				for n := 1 + p.Intn(2); n > 0 && r.stepReader(p, st, j); n-- {
				}
				if between != nil {
					between()
				}
			}
		default:
			r.stepReader(p, st, l[p.Intn(len(l))])
			if between != nil {
				between()
			}
		}
	}
}

func (r *runner) finalReadBack(keys []int) {
	r.dump(-1)
	for _, k := range keys {
		r.get(k)
	}
}

// famReaders: k readers (decoders and raw readers) over 2-4 entries, some on the same entry, interleaved, with
// cursor operations of the underlying store in between.
func (r *runner) famReaders(p *hx.Prng, pool []int) {
	seed := p.Intn(1000)
	r.populate(p, pool, 2+p.Intn(3), 1+p.Intn(6), &seed)
	st := r.newIL()
	ks := r.refKeys()
	if len(ks) == 0 {
		return
	}
	nr := 2 + p.Intn(4)
	for i := 0; i < nr; i++ {
		k := ks[i%len(ks)]
		if p.Chance(1, 4) {
			k = ks[p.Intn(len(ks))]
		}
		r.openReader(st, k, p.Chance(1, 3))
	}
	r.s.Hit(fmt.Sprintf("il_readers_%d", len(st.rs)))
	chance := p.Intn(3) // 0: never, 1: sometimes, 2: often
	r.schedule(p, st, p.Intn(3), func() {
		if chance > 0 && p.Chance(chance, 5) {
			r.disturb(p, false)
		}
	})
	r.finalReadBack(ks)
}

// famCopy: stream copies src -> dst on the same store (1 or 2 at once), dst below or above src in key order, dst new
// (Add / AddIfNotExist / Upsert) or, on the in-memory tree, an existing entry rewritten through Update / Upsert.
func (r *runner) famCopy(p *hx.Prng, pool []int, allowUpdate bool) {
	seed := p.Intn(1000)
	r.populate(p, pool[1:len(pool)-1], 2+p.Intn(2), 1+p.Intn(6), &seed)
	st := r.newIL()
	ks := r.refKeys()
	if len(ks) == 0 {
		return
	}
	type pair struct{ jd, je int }
	var pairs []pair
	ncopies := 1 + p.Intn(2)
	used := map[int]bool{}
	for c := 0; c < ncopies && c < len(ks); c++ {
		src := ks[c]
		used[src] = true
	}
	for c := 0; c < ncopies && c < len(ks); c++ {
		src := ks[c]
		sl := r.openReader(st, src, false)
		if sl == nil {
			continue
		}
		jd := len(st.rs) - 1
		var w *wslot
		if allowUpdate && len(ks) > ncopies && p.Chance(1, 3) {
			dst := ks[len(ks)-1-c]
			if !used[dst] {
				used[dst] = true
				w = r.openWriter(st, []string{"upd", "ups"}[p.Intn(2)], dst)
			}
		}
		if w == nil {
			// a fresh key: the lowest or the highest of the pool, or anything free
			dst := pool[0]
			if p.Chance(1, 2) {
				dst = pool[len(pool)-1]
			}
			for used[dst] || r.ref[dst] != nil {
				dst = 40 + p.Intn(40)
			}
			used[dst] = true
			w = r.openWriter(st, []string{"add", "add", "addne", "ups"}[p.Intn(4)], dst)
		}
		if w == nil {
			continue
		}
		pairs = append(pairs, pair{jd, len(st.ws) - 1})
	}
	r.s.Hit(fmt.Sprintf("il_copies_%d", len(pairs)))
	disturb := p.Chance(1, 3)
	for guard := 0; guard < 400 && len(pairs) > 0 && !r.dead; guard++ {
		i := 0
		if len(pairs) > 1 {
			if p.Chance(1, 2) {
				i = guard % len(pairs) // lockstep
			} else {
				i = p.Intn(len(pairs))
			}
		}
		if r.cpStep(st, pairs[i].jd, pairs[i].je) {
			r.closeStep(st, pairs[i].je)
			pairs = append(pairs[:i], pairs[i+1:]...)
		}
		if disturb && p.Chance(1, 4) {
			r.disturb(p, true)
		}
	}
	for j := range st.ws {
		r.closeStep(st, j)
	}
	r.finalReadBack(r.refKeys())
}

// famMixed: readers, encoders (Add of new entries, Update/Upsert of entries nobody reads), removes of entries nobody
// reads, cursor operations: one random schedule.
func (r *runner) famMixed(p *hx.Prng, pool []int, allowUpdate bool) {
	seed := p.Intn(1000)
	r.populate(p, pool, 3+p.Intn(2), 1+p.Intn(5), &seed)
	st := r.newIL()
	busy := map[int]bool{} // entries with an open reader or writer
	ks := r.refKeys()
	nr := 1 + p.Intn(3)
	for i := 0; i < nr && i < len(ks)-1; i++ {
		if r.openReader(st, ks[i], p.Chance(1, 4)) != nil {
			busy[ks[i]] = true
		}
	}
	wvals := map[int][]val{}
	for steps := 0; steps < 60 && !r.dead; steps++ {
		var liveR, liveW []int
		for j, sl := range st.rs {
			if !sl.done {
				liveR = append(liveR, j)
			}
		}
		for j, w := range st.ws {
			if !w.closed {
				liveW = append(liveW, j)
			}
		}
		if len(liveR) == 0 && len(liveW) == 0 && steps > 8 {
			break
		}
		x := p.Intn(12)
		switch {
		case x < 5 && len(liveR) > 0:
			r.stepReader(p, st, liveR[p.Intn(len(liveR))])
		case x < 8 && len(liveW) > 0:
			j := liveW[p.Intn(len(liveW))]
			if len(wvals[j]) == 0 {
				r.closeStep(st, j)
			} else {
				r.putStep(st, j, wvals[j][0])
				wvals[j] = wvals[j][1:]
			}
		case x < 10 && len(st.ws) < 3:
			// open an encoder on an entry nobody has open
			var k int
			kind := "add"
			free := []int{}
			for _, kk := range r.refKeys() {
				if !busy[kk] {
					free = append(free, kk)
				}
			}
			if allowUpdate && len(free) > 0 && p.Chance(1, 2) {
				k = free[p.Intn(len(free))]
				kind = []string{"upd", "ups"}[p.Intn(2)]
			} else {
				k = 40 + p.Intn(50)
				if p.Chance(1, 3) {
					k = 1 + p.Intn(3) // below the entries being read
				}
				if busy[k] || r.ref[k] != nil {
					continue
				}
				kind = []string{"add", "addne", "ups"}[p.Intn(3)]
			}
			if w := r.openWriter(st, kind, k); w != nil {
				busy[k] = true
				wvals[len(st.ws)-1] = ilVals(p, 1+p.Intn(5), &seed)
			}
		case x == 10 && allowUpdate:
			for _, kk := range r.refKeys() {
				if !busy[kk] && len(r.ref) > 2 {
					r.remove(kk)
					break
				}
			}
		default:
			r.disturb(p, true)
		}
	}
	for j, w := range st.ws {
		for _, v := range wvals[j] {
			if !w.closed {
				r.putStep(st, j, v)
			}
		}
		r.closeStep(st, j)
	}
	for guard := 0; guard < 200; guard++ {
		any := false
		for j := range st.rs {
			if r.stepReader(p, st, j) {
				any = true
			}
		}
		if !any {
			break
		}
	}
	r.finalReadBack(r.refKeys())
}

// famZeroKey: an entry under the ZERO key read by one reader while others (readers of other entries read to their
// end, cursor walks off the end of the store, removes of other entries) leave NOTHING selected in between.
func (r *runner) famZeroKey(p *hx.Prng) {
	seed := p.Intn(1000)
	r.add(0, ilVals(p, 2+p.Intn(4), &seed))
	n := 1 + p.Intn(3)
	for i := 0; i < n; i++ {
		r.add(3+2*i, ilVals(p, 1+p.Intn(3), &seed))
	}
	r.dump(-1)
	st := r.newIL()
	ks := r.refKeys()
	z := r.openReader(st, 0, p.Chance(1, 3))
	if z == nil {
		return
	}
	zj := len(st.rs) - 1
	for guard := 0; guard < 40 && !z.done && !r.dead; guard++ {
		r.stepReader(p, st, zj)
		if z.done {
			break
		}
		switch p.Intn(4) {
		case 0: // another entry decoded to its end: the last Next of the LAST entry runs off the end of the store
			k := ks[len(ks)-1]
			if p.Chance(1, 3) {
				k = ks[1+p.Intn(len(ks)-1)]
			}
			if _, ok := r.ref[k]; ok {
				r.get(k)
			}
		case 1:
			r.curFirst(200)
		case 2:
			if len(r.ref) > 2 {
				for _, k := range r.refKeys() {
					if k != 0 {
						r.remove(k) // RemoveCurrentItem deselects
						break
					}
				}
			}
		default:
			r.disturb(p, true)
		}
	}
	r.finalReadBack(r.refKeys())
}

// ---- directed corpus (runs first) ----

// corpusLockstep: two decoders over two 4-value entries advanced in lockstep; then a stream copy into a key below
// and one into a key above the source.
func corpusLockstep(r *runner) {
	for _, sz := range []int{8, 700, 5000} {
		r.add(10+sz, []val{{'s', sz, 1}, {'s', sz, 2}, {'s', sz, 3}, {'s', sz, 4}})
		r.add(20+sz, []val{{'s', sz, 5}, {'s', sz, 6}, {'s', sz, 7}, {'s', sz, 8}})
		st := r.newIL()
		b := len(st.rs)
		r.openReader(st, 10+sz, false)
		r.openReader(st, 20+sz, false)
		for i := 0; i < 5; i++ {
			r.decStep(st, b)
			r.decStep(st, b+1)
		}
		r.remove(10 + sz)
		r.remove(20 + sz)
	}
	r.add(50, []val{{'s', 30, 1}, {'s', 900, 2}, {'n', 40, 3}, {'s', 6000, 4}, {'s', 2, 5}})
	for _, dst := range []int{7, 77} {
		st := r.newIL()
		jd, je := len(st.rs), len(st.ws)
		r.openReader(st, 50, false)
		r.openWriter(st, "add", dst)
		for !r.cpStep(st, jd, je) {
		}
		r.closeStep(st, je)
		r.dump(dst)
		r.get(dst)
	}
	r.get(50)
}

// corpusZeroKey: the witness of finding C31-F3 (fixed by 7fc80460; Lean: Sop.C31.C31_zero_key_before_fix_truncates): on the
// tree before that fix decoder 0 is cut off after 1 of 3 values.
func corpusZeroKey(r *runner) {
	r.add(0, []val{{'s', 8, 1}, {'s', 8, 2}, {'s', 8, 3}})
	r.add(5, []val{{'s', 8, 4}, {'s', 8, 5}})
	st := r.newIL()
	r.openReader(st, 0, false)
	r.openReader(st, 5, false)
	r.decStep(st, 0)
	for i := 0; i < 3; i++ {
		r.decStep(st, 1)
	}
	for i := 0; i < 3; i++ {
		r.decStep(st, 0)
	}
	r.get(0)
}

// corpusUnclosedUpdate: outside C31_update_replaces — an update-mode encoder that is written to but not (yet) closed.
// The old tail is still there (Lean: Sop.C31.C31_update_needs_close); Close afterwards removes it. Also: the same with a
// neighbour on each side, a growing update, and an update with no value at all (Close removes the whole entry).
func corpusUnclosedUpdate(r *runner) {
	old := []val{{'s', 40, 1}, {'s', 900, 2}, {'s', 6, 3}}
	r.add(1, []val{{'s', 5, 9}})
	r.add(2, old)
	r.add(3, []val{{'s', 5, 8}})
	st := r.newIL()
	w := r.openWriter(st, "upd", 2)
	if w == nil {
		return
	}
	j := len(st.ws) - 1
	nv := val{'s', 70, 4}
	r.putStep(st, j, nv)
	// not closed: chunk 0 is the new value, chunks 1.. are still the OLD content
	r.ref[2] = append([][]byte{nv.chunk()}, chunks(old)[1:]...)
	r.s.Hit("update_not_closed_old_tail_kept")
	r.dump(2)
	r.get(2)
	r.closeStep(st, j) // Close after the fact: exactly the new value is left
	r.dump(2)
	r.get(2)
	r.update(2, []val{{'s', 3, 5}, {'s', 700, 6}, {'s', 3, 7}, {'s', 5000, 10}}) // grows
	r.dump(2)
	r.update(2, nil) // no value: Close removes every chunk of the entry
	r.dump(2)
	r.get(1)
	r.get(3)
}
