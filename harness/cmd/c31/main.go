// Command c31 drives the real streamingdata store (over the in-memory B-tree and, in the thorough tier, over
// infs on a temp directory) with add / update / upsert / remove / decode / raw-Read programs and writes the
// line protocol for the Lean model Sop.Stream.
package main

import (
	"bytes"
	"context"
	"encoding/json"
	"fmt"
	"io"
	"os"
	"sort"
	"strconv"
	"strings"

	"github.com/sharedcode/sop"
	"github.com/sharedcode/sop/fs"
	"github.com/sharedcode/sop/infs"
	"github.com/sharedcode/sop/inmemory"
	sd "github.com/sharedcode/sop/streamingdata"

	"verifharness/hx"
)

func main() { hx.Main(drive, "", nil, nil) }

// ---- value descriptors: both sides expand them with the same generator ----

type val struct {
	kind byte // 's' JSON string of n letters, 'n' JSON array of n small ints
	n    int
	seed int
}

func (v val) String() string { return fmt.Sprintf("%c%d:%d", v.kind, v.n, v.seed) }

func (v val) goValue() any {
	if v.kind == 's' {
		b := make([]byte, v.n)
		for j := range b {
			b[j] = byte(97 + (v.seed+j+j/31)%26)
		}
		return string(b)
	}
	a := make([]int, v.n)
	for j := range a {
		a[j] = (v.seed*7 + j*13) % 1000
	}
	return a
}

// chunk is what json.Encoder hands to Write for this value: the encoding plus a newline.
func (v val) chunk() []byte {
	b, _ := json.Marshal(v.goValue())
	return append(b, '\n')
}

func fnv(b []byte) uint32 {
	h := uint32(2166136261)
	for _, x := range b {
		h = (h ^ uint32(x)) * 16777619
	}
	return h
}
func dig(b []byte) string { return fmt.Sprintf("%d:%08x", len(b), fnv(b)) }

// ---- the store under test ----

type backend struct {
	name  string
	s     *sd.StreamingDataStore[int]
	close func() error
	// txn commits the current transaction and reopens the store in a new one (infs only; nil for mem)
	txn func() error
}

func newMem() *backend {
	b := inmemory.NewBtree[sd.StreamingDataKey[int], []byte](true)
	return &backend{name: "mem", s: &sd.StreamingDataStore[int]{BtreeInterface: b.Btree}, close: func() error { return nil }}
}

func newInfs(ctx context.Context) (*backend, error) {
	dir, err := os.MkdirTemp(hx.WorkRoot(), "c31-")
	if err != nil {
		return nil, err
	}
	to := sop.TransactionOptions{Mode: sop.ForWriting, MaxTime: -1, RegistryHashModValue: fs.MinimumModValue, StoresFolders: []string{dir}, CacheType: sop.InMemory}
	tr, err := infs.NewTransaction(ctx, to)
	if err != nil {
		os.RemoveAll(dir)
		return nil, err
	}
	if err := tr.Begin(ctx); err != nil {
		os.RemoveAll(dir)
		return nil, err
	}
	so := sop.ConfigureStore("sds", true, 100, "", sop.BigData, "")
	s, err := infs.NewStreamingDataStore[int](ctx, so, tr, nil)
	if err != nil {
		tr.Rollback(ctx)
		os.RemoveAll(dir)
		return nil, err
	}
	b := &backend{name: "infs", s: s}
	b.close = func() error {
		err := tr.Commit(ctx)
		os.RemoveAll(dir)
		return err
	}
	b.txn = func() error {
		if err := tr.Commit(ctx); err != nil {
			return err
		}
		var err error
		if tr, err = infs.NewTransaction(ctx, to); err != nil {
			return err
		}
		if err = tr.Begin(ctx); err != nil {
			return err
		}
		b.s, err = infs.OpenStreamingDataStore[int](ctx, "sds", tr, nil)
		return err
	}
	return b, nil
}

// ---- one case ----

type runner struct {
	ctx context.Context
	s   *hx.Session
	b   *backend
	ref map[int][][]byte // the reference: the chunk list of every entry
	// dead: the case was cut short because the infs-backed B-tree handed back an EMPTY value for a chunk of an
	// entry the last operation did not touch (a defect below streamingdata, finding C31-F2, which the
	// ordered-collection model does not and should not reproduce). Nothing after that point is compared.
	dead bool
	il   *ilState // open readers / writers of the case (interleave.go)
}

func vals2s(vs []val) string {
	p := make([]string, len(vs))
	for i, v := range vs {
		p[i] = v.String()
	}
	return strings.Join(p, " ")
}

func chunks(vs []val) [][]byte {
	out := make([][]byte, len(vs))
	for i, v := range vs {
		out[i] = v.chunk()
	}
	return out
}

func (r *runner) encodeAll(enc *sd.Encoder[int], vs []val) string {
	for _, v := range vs {
		if err := enc.Encode(v.goValue()); err != nil {
			return "err"
		}
	}
	if err := enc.Close(); err != nil {
		return "err"
	}
	return "ok"
}

func (r *runner) add(k int, vs []val) {
	if r.dead {
		return
	}
	enc, err := r.b.s.Add(r.ctx, k)
	out := "err"
	if err == nil {
		out = r.encodeAll(enc, vs)
	}
	_, existed := r.ref[k]
	if out == "ok" {
		if existed && len(vs) > 0 {
			r.s.Fail("C31/add-over-existing", "Add of an existing entry succeeded", fmt.Sprint(k))
		}
		if !existed && len(vs) > 0 {
			r.ref[k] = chunks(vs)
		}
	}
	r.s.Op(fmt.Sprintf("add %d %s", k, vals2s(vs)), out)
	r.s.Hit("op_add")
	if existed {
		r.s.Hit("add_existing")
	}
}

func (r *runner) update(k int, vs []val) {
	if r.dead {
		return
	}
	enc, err := r.b.s.Update(r.ctx, k)
	out := "err"
	if err == nil && enc == nil {
		out = "notfound"
	} else if err == nil {
		out = r.encodeAll(enc, vs)
	}
	old, existed := r.ref[k]
	if out == "ok" {
		if len(vs) == 0 {
			delete(r.ref, k)
		} else {
			r.ref[k] = chunks(vs)
		}
		switch {
		case len(vs) < len(old):
			r.s.Hit("update_fewer_chunks")
			r.s.Nontrivial()
		case len(vs) > len(old):
			r.s.Hit("update_more_chunks")
		default:
			r.s.Hit("update_same_chunks")
		}
	}
	if existed != (out != "notfound") {
		r.s.Fail("C31/update-found-mismatch", "Update found/not-found disagrees with the reference", fmt.Sprint(k))
	}
	r.s.Op(fmt.Sprintf("upd %d %s", k, vals2s(vs)), out)
	r.s.Hit("op_update")
}

func (r *runner) upsert(k int, vs []val) {
	if r.dead {
		return
	}
	enc, err := r.b.s.Upsert(r.ctx, k)
	out := "err"
	if err == nil && enc == nil {
		out = "notfound"
	} else if err == nil {
		out = r.encodeAll(enc, vs)
	}
	if out == "ok" {
		if len(vs) == 0 {
			delete(r.ref, k)
		} else {
			r.ref[k] = chunks(vs)
		}
	}
	r.s.Op(fmt.Sprintf("ups %d %s", k, vals2s(vs)), out)
	r.s.Hit("op_upsert")
}

func (r *runner) addIfNotExist(k int, vs []val) {
	if r.dead {
		return
	}
	enc, err := r.b.s.AddIfNotExist(r.ctx, k)
	out := "err"
	if err == nil && enc == nil {
		out = "notfound" // the model's name for "nil encoder, nil error"
	} else if err == nil {
		out = r.encodeAll(enc, vs)
	}
	if out == "ok" && len(vs) > 0 {
		r.ref[k] = chunks(vs)
	}
	r.s.Op(fmt.Sprintf("addne %d %s", k, vals2s(vs)), out)
	r.s.Hit("op_addne")
}

func (r *runner) remove(k int) {
	if r.dead {
		return
	}
	ok, err := r.b.s.Remove(r.ctx, k)
	out := "removed 0"
	if err != nil {
		out = "err"
	} else if ok {
		out = "removed 1"
	}
	_, existed := r.ref[k]
	if existed != ok {
		r.s.Fail("C31/remove-result", "Remove result disagrees with the reference", fmt.Sprintf("key %d existed=%v ok=%v err=%v", k, existed, ok, err))
	}
	if existed {
		r.s.Hit("remove_existing")
		if len(r.ref) > 1 {
			r.s.Nontrivial()
		}
	}
	delete(r.ref, k)
	r.s.Op(fmt.Sprintf("rm %d", k), out)
	r.s.Hit("op_remove")
}

// redelivered reports whether got is the chunks in order with at least one chunk delivered again right
// after itself (the signature of the reader not advancing past a drained chunk). With partial, got may
// stop anywhere (EOF not reached yet).
func redelivered(got []byte, want [][]byte, partial bool) bool {
	agree := func(rest, c []byte) bool { return bytes.HasPrefix(rest, c) || bytes.HasPrefix(c, rest) }
	p, again := 0, 0
	for i := 0; i < len(want); {
		c := want[i]
		rest := got[p:]
		if len(rest) < len(c) {
			return partial && bytes.HasPrefix(c, rest) && again > 0
		}
		if !bytes.HasPrefix(rest, c) {
			return false
		}
		p += len(c)
		rest = got[p:]
		if len(rest) == 0 {
			return again > 0 && (partial || i+1 == len(want))
		}
		nextIs := i+1 < len(want) && agree(rest, want[i+1])
		if agree(rest, c) && !nextIs {
			again++
			continue
		}
		i++
	}
	return p == len(got) && again > 0
}

func (r *runner) checkStream(op string, k int, got []byte, eof bool) {
	want := bytes.Join(r.ref[k], nil)
	if eof && bytes.Equal(got, want) || !eof && bytes.HasPrefix(want, got) {
		return
	}
	if redelivered(got, r.ref[k], !eof) {
		r.s.Fail("C31/drained-chunk-read-again", "a chunk that was copied out over several Read calls is delivered a second time (chunkIndex is not advanced when the buffered chunk is drained)",
			fmt.Sprintf("%s key %d: got %d bytes, want %d", op, k, len(got), len(want)))
		return
	}
	r.s.Fail("C31/stream-mismatch", "bytes read back differ from the bytes written", fmt.Sprintf("%s key %d: got %d bytes %s, want %d bytes %s", op, k, len(got), dig(got), len(want), dig(want)))
}

// get decodes the entry through the public path (GetCurrentValue's json.Decoder).
func (r *runner) get(k int) {
	if r.dead {
		return
	}
	found, err := r.b.s.FindOne(r.ctx, k)
	if err != nil {
		r.s.Op(fmt.Sprintf("get %d", k), "err")
		return
	}
	if !found {
		if _, ok := r.ref[k]; ok {
			r.s.Fail("C31/entry-lost", "an entry of the reference is not found", fmt.Sprint(k))
		}
		r.s.Op(fmt.Sprintf("get %d", k), "notfound")
		r.s.Hit("get_notfound")
		return
	}
	dec, err := r.b.s.GetCurrentValue(r.ctx)
	if err != nil {
		r.s.Op(fmt.Sprintf("get %d", k), "err")
		return
	}
	var parts []string
	var all []byte
	end := "eof"
	n := 0
	for {
		var raw json.RawMessage
		if err := dec.Decode(&raw); err != nil {
			if err != io.EOF {
				end = "err"
			}
			break
		}
		line := append(append([]byte(nil), raw...), '\n')
		parts = append(parts, dig(line))
		all = append(all, line...)
		n++
		if n > 4*len(r.ref[k])+8 {
			end = "runaway"
			break
		}
	}
	r.s.Op(fmt.Sprintf("get %d", k), strings.TrimSpace(fmt.Sprintf("n=%d %s", n, strings.Join(parts, " ")))+" "+end)
	r.checkStream("get", k, all, end == "eof")
	maxc := 0
	for _, c := range r.ref[k] {
		if len(c) > maxc {
			maxc = len(c)
		}
	}
	if maxc > 512 {
		r.s.Hit("get_chunk_exceeds_decoder_buffer")
		r.s.Nontrivial()
	}
	if maxc > 1<<20 {
		r.s.Hit("get_chunk_over_1MiB")
	}
	r.s.Hit("op_get")
}

// read drives reader.Read directly with the given buffer sizes.
func (r *runner) read(k int, bufs []int) {
	if r.dead {
		return
	}
	bs := make([]string, len(bufs))
	for i, b := range bufs {
		bs[i] = strconv.Itoa(b)
	}
	op := fmt.Sprintf("read %d %s", k, strings.Join(bs, ","))
	found, err := r.b.s.FindOne(r.ctx, k)
	if err != nil {
		r.s.Op(op, "err")
		return
	}
	if !found {
		r.s.Op(op, "notfound")
		return
	}
	rd := sd.VerifNewReader(r.ctx, r.b.s)
	var counts []string
	var all []byte
	eof := false
	partial := false
	for _, n := range bufs {
		p := make([]byte, n)
		c, err := rd.Read(p)
		if err == io.EOF {
			eof = true
			break
		}
		if err != nil {
			r.s.Op(op, "err")
			return
		}
		counts = append(counts, strconv.Itoa(c))
		all = append(all, p[:c]...)
		if c == n && n > 0 {
			partial = true
		}
	}
	tag := " more "
	if eof {
		tag = " eof "
	}
	r.s.Op(op, strings.Join(counts, ",")+tag+dig(all))
	r.checkStream("read", k, all, eof)
	if partial {
		r.s.Hit("read_buffer_filled")
		r.s.Nontrivial()
	}
	if eof {
		r.s.Hit("read_to_eof")
	}
	r.s.Hit("op_read")
}

// dump lists the chunk keys left in the store and compares them with the reference.
func (r *runner) dump(touched int) {
	if r.dead {
		return
	}
	type item struct {
		k, i int
		d    string
	}
	var items []item
	bt := r.b.s.BtreeInterface
	ok, err := bt.First(r.ctx)
	for ok && err == nil {
		key := bt.GetCurrentKey().Key
		v, e2 := bt.GetCurrentValue(r.ctx)
		if e2 != nil {
			err = e2
			break
		}
		items = append(items, item{key.Key, key.ChunkIndex, dig(v)})
		ok, err = bt.Next(r.ctx)
	}
	if err != nil {
		r.s.Op("dump", "err")
		return
	}
	sort.Slice(items, func(a, b int) bool {
		if items[a].k != items[b].k {
			return items[a].k < items[b].k
		}
		return items[a].i < items[b].i
	})
	parts := make([]string, len(items))
	have := map[[2]int]string{}
	for i, it := range items {
		parts[i] = fmt.Sprintf("%d:%d:%s", it.k, it.i, it.d)
		have[[2]int{it.k, it.i}] = it.d
	}
	// a defect of the layer below (see runner.dead): report it through the oracle and stop comparing this case
	if r.b.name == "infs" {
		for k, cs := range r.ref {
			for i, c := range cs {
				if d := have[[2]int{k, i}]; k != touched && len(c) > 0 && d == dig(nil) {
					r.s.Fail("C31/infs-untouched-chunk-reads-empty", "on the infs-backed store (values in their own segment) a chunk that was updated earlier in the transaction reads back EMPTY after chunks of ANOTHER entry are added or removed",
						fmt.Sprintf("key %d chunk %d (%d bytes) empty after an operation on key %d", k, i, len(c), touched))
					r.s.Hit("infs_case_cut_short_by_known_defect")
					r.dead = true
					return
				}
			}
		}
	}
	// oracle: exactly the reference's chunk keys
	for k, cs := range r.ref {
		for i, c := range cs {
			d, ok := have[[2]int{k, i}]
			if !ok || d != dig(c) {
				sig := "C31/chunk-missing-or-wrong"
				if k != touched {
					sig = "C31/other-entry-damaged"
				}
				r.s.Fail(sig, "a chunk of the reference is missing or different in the store", fmt.Sprintf("key %d chunk %d", k, i))
			}
			delete(have, [2]int{k, i})
		}
	}
	for ki := range have {
		r.s.Fail("C31/leftover-chunk", "the store holds a chunk the reference does not (left over after update or remove)", fmt.Sprintf("key %d chunk %d", ki[0], ki[1]))
	}
	out := "empty"
	if len(parts) > 0 {
		out = strings.Join(parts, " ")
	}
	r.s.Op("dump", out)
}

// ---- generators ----

func genSize(p *hx.Prng, thorough bool) int {
	switch p.Intn(10) {
	case 0:
		return p.Intn(4) // 0..3 payload bytes: chunks of 3..6 bytes
	case 1, 2:
		return 1 + p.Intn(40)
	case 3, 4:
		return 380 + p.Intn(800) // around the decoder's 512-byte first buffer
	case 5, 6:
		return 2000 + p.Intn(20000)
	case 7:
		return 4090 + p.Intn(12) // around 4096
	case 8:
		return 60000 + p.Intn(250000)
	default:
		if thorough && p.Chance(1, 3) {
			return 1000000 + p.Intn(3200000) // up to ~4 MB
		}
		return 5000
	}
}

func genVals(p *hx.Prng, thorough bool, seed *int) []val {
	n := 1 + p.Intn(4)
	if p.Chance(1, 12) {
		n = 0
	}
	if p.Chance(1, 10) {
		n = 5 + p.Intn(6)
	}
	vs := make([]val, n)
	for i := range vs {
		*seed++
		sz := genSize(p, thorough)
		if n > 5 && sz > 30000 {
			sz = 5000
		}
		if p.Chance(1, 5) {
			vs[i] = val{'n', sz / 4, *seed}
		} else {
			vs[i] = val{'s', sz, *seed}
		}
	}
	return vs
}

func genBufs(p *hx.Prng, total, nchunks int) []int {
	var bufs []int
	style := p.Intn(5)
	budget := total
	if total > 2000 && style == 0 {
		style = 2
	}
	for len(bufs) < 400 && (budget > 0 || len(bufs) < nchunks+2) {
		var b int
		switch style {
		case 0:
			b = 1 + p.Intn(7)
		case 1:
			b = 512
		case 2:
			b = 1 + p.Intn(2*total/(nchunks+1)+2)
		case 3:
			b = []int{1, 2, 3, 512, 4096, 65536, 0}[p.Intn(7)]
		default:
			b = 1 + p.Intn(total+1)
		}
		bufs = append(bufs, b)
		budget -= b
		if style == 0 && len(bufs) > 300 {
			style = 4
		}
	}
	// a few extra calls so that EOF is reached after empty tails
	for i := 0; i < nchunks+2 && len(bufs) < 420; i++ {
		bufs = append(bufs, 1+p.Intn(64))
	}
	return bufs
}

func (r *runner) program(p *hx.Prng, thorough bool, nops int) {
	seed := p.Intn(1000)
	keys := 1 + p.Intn(4)
	for i := 0; i < nops; i++ {
		k := 1 + p.Intn(keys)
		x := p.Intn(20)
		if x >= 5 && len(r.ref) > 0 && p.Chance(5, 6) {
			ks := make([]int, 0, len(r.ref))
			for kk := range r.ref {
				ks = append(ks, kk)
			}
			sort.Ints(ks)
			k = ks[p.Intn(len(ks))]
		}
		switch {
		case x < 5:
			if _, ok := r.ref[k]; ok && p.Chance(4, 5) {
				r.update(k, genVals(p, thorough, &seed))
			} else {
				r.add(k, genVals(p, thorough, &seed))
			}
			r.dump(k)
		case x < 9:
			r.update(k, genVals(p, thorough, &seed))
			r.dump(k)
		case x < 11:
			r.upsert(k, genVals(p, thorough, &seed))
			r.dump(k)
		case x < 12:
			r.addIfNotExist(k, genVals(p, thorough, &seed))
			r.dump(k)
		case x < 14:
			r.remove(k)
			r.dump(k)
		case x < 17:
			r.get(k)
		default:
			total, n := 0, len(r.ref[k])
			for _, c := range r.ref[k] {
				total += len(c)
			}
			if total > 300000 {
				r.get(k)
			} else {
				r.read(k, genBufs(p, total, n))
			}
		}
	}
	for k := 1; k <= keys; k++ {
		r.get(k)
	}
}

func drive(o hx.RunOpts) error {
	s := hx.NewSession(o, "cases: (a) programs of add / update (fewer, equal, more chunks) / upsert / add-if-absent / remove over 1-4 keys on the real streamingdata store "+
		"(in-memory B-tree; also infs on a temp directory), each mutating op followed by a dump of the remaining chunk keys, interleaved with decodes through GetCurrentValue's json.Decoder "+
		"and raw reader.Read calls with generated buffer sizes; (b) interleaved histories on the store's single shared cursor: 2-6 open decoders / raw readers over different and the same entries "+
		"(1-6 chunks, values of 3 B to 80 kB) advanced in lockstep, shuffled round-robin runs or random order; stream copies src->dst on the same store (1 or 2 at once, dst below / above src, new or rewritten); "+
		"readers mixed with Add / Update / Upsert / AddIfNotExist encoders and removes of other entries; B-tree Find / First / Next on other keys in between; an entry under the zero key; "+
		"on infs the same inside one transaction and over the committed entries in the following transactions. Per-step oracle: every decoder returns exactly its entry's values in order, then EOF; "+
		"what the encoders wrote reads back exactly afterwards. distinct = canonical op-line hash; non-trivial = the case decodes an entry with a chunk larger than the decoder's 512-byte buffer, "+
		"or fills a Read buffer (partial copy), or updates with fewer chunks, or removes one of several entries, or makes a reader step while the shared cursor rests on the previous chunk INDEX of ANOTHER entry")
	ctx := context.Background()
	p := hx.NewPrng(o.Seed)
	runCase := func(b *backend, hdr string, body func(r *runner)) error {
		s.BeginCase(hdr)
		r := &runner{ctx: ctx, s: s, b: b, ref: map[int][][]byte{}}
		body(r)
		return b.close()
	}

	// directed corpus first: the failing input recorded in DESIGN.md (three 5 kB values under one key),
	// then the same shape through raw Read calls with a 512-byte buffer.
	if err := runCase(newMem(), "mem corpus", func(r *runner) {
		r.add(1, []val{{'s', 5000, 1}, {'s', 5000, 2}, {'s', 5000, 3}})
		r.dump(1)
		r.get(1)
		r.read(1, []int{512, 512, 8192, 512, 8192, 8192, 8192, 8192, 8192, 8192})
		r.update(1, []val{{'s', 700, 4}})
		r.dump(1)
		r.get(1)
		r.add(2, []val{{'s', 3, 5}})
		r.remove(1)
		r.dump(1)
		r.get(2)
	}); err != nil {
		return err
	}

	// directed infs case: an update of one entry followed by an add/remove of another entry in the same transaction
	if b, err := newInfs(ctx); err != nil {
		return fmt.Errorf("infs backend: %w", err)
	} else if err := runCase(b, "infs corpus", func(r *runner) {
		r.add(2, []val{{'s', 277688, 403}, {'s', 905, 404}})
		r.dump(2)
		r.upsert(2, []val{{'s', 719, 405}})
		r.dump(2)
		r.add(1, []val{{'s', 4, 406}, {'s', 793, 407}, {'s', 24, 408}})
		r.dump(1)
		r.update(2, []val{{'s', 490, 409}})
		r.dump(2)
		r.remove(1)
		r.dump(1)
		r.get(2)
	}); err != nil {
		return fmt.Errorf("infs commit: %w", err)
	}

	// directed interleavings on the store's single shared cursor: two decoders in lockstep, stream copies
	if err := runCase(newMem(), "mem il-corpus", corpusLockstep); err != nil {
		return err
	}
	if b, err := newInfs(ctx); err != nil {
		return fmt.Errorf("infs backend: %w", err)
	} else if err := runCase(b, "infs il-corpus", corpusLockstep); err != nil {
		return fmt.Errorf("infs commit: %w", err)
	}
	// an update-mode encoder written to but not closed (outside C31_update_replaces), then closed
	if err := runCase(newMem(), "mem upd-unclosed-corpus", corpusUnclosedUpdate); err != nil {
		return err
	}
	// the zero-key witness (finding C31-F3, fixed by 7fc80460)
	if err := runCase(newMem(), "mem il-zerokey-corpus", corpusZeroKey); err != nil {
		return err
	}

	n := o.N(350, 2000)
	for i := 0; i < n; i++ {
		q := p.Fork()
		if err := runCase(newMem(), "mem", func(r *runner) { r.program(q, o.Thorough(), 4+q.Intn(10)) }); err != nil {
			return err
		}
	}
	// generated interleavings (in-memory B-tree): readers only / stream copies / readers + encoders + removes / zero key
	pool := []int{2, 3, 5, 8, 13, 21, 34}
	n = o.N(420, 4000)
	for i := 0; i < n; i++ {
		q := p.Fork()
		var hdr string
		var body func(r *runner)
		switch x := i % 10; {
		case x < 4:
			hdr, body = "mem il-readers", func(r *runner) { r.famReaders(q, pool) }
		case x < 7:
			hdr, body = "mem il-copy", func(r *runner) { r.famCopy(q, pool, true) }
		case x < 9:
			hdr, body = "mem il-mixed", func(r *runner) { r.famMixed(q, pool, true) }
		default:
			hdr, body = "mem il-zerokey", func(r *runner) { r.famZeroKey(q) }
		}
		if err := runCase(newMem(), hdr, body); err != nil {
			return err
		}
		s.Hit("il_case_" + strings.TrimPrefix(hdr, "mem il-"))
	}
	// the same on infs: interleavings inside one transaction, then the committed entries read by interleaved
	// readers (and copied) in the NEXT transaction, then once more after that one is committed. Add-mode encoders
	// only (rewrites inside one infs transaction run into open finding C31-F2).
	n = o.N(8, 120)
	for i := 0; i < n; i++ {
		q := p.Fork()
		b, err := newInfs(ctx)
		if err != nil {
			return fmt.Errorf("infs backend: %w", err)
		}
		var terr error
		if err := runCase(b, "infs il-txns", func(r *runner) {
			st := r.newIL()
			phase := func() {
				switch q.Intn(3) {
				case 0:
					r.famReaders(q, pool)
				case 1:
					r.famCopy(q, pool, false)
				default:
					r.famMixed(q, pool, false)
				}
			}
			phase()
			for t := 0; t < 2 && terr == nil && !r.dead; t++ {
				if terr = r.txn(st); terr != nil {
					return
				}
				// the entries committed so far, read by interleaved readers in the new transaction, plus new work
				st2 := r.newIL()
				for _, k := range r.refKeys() {
					if q.Chance(2, 3) {
						r.openReader(st2, k, q.Chance(1, 3))
					}
				}
				r.schedule(q, st2, q.Intn(3), func() {
					if q.Chance(1, 5) {
						r.disturb(q, true)
					}
				})
				if t == 0 {
					for _, k := range r.refKeys() {
						if len(r.ref) > 3 {
							r.remove(k)
						}
					}
					phase()
				}
			}
			r.finalReadBack(r.refKeys())
		}); err != nil {
			return fmt.Errorf("infs commit: %w", err)
		}
		if terr != nil {
			return fmt.Errorf("infs txn boundary: %w", terr)
		}
		s.Hit("il_case_infs_txns")
	}
	// infs-backed store (one writing transaction per case, committed at the end)
	n = o.N(6, 80)
	for i := 0; i < n; i++ {
		q := p.Fork()
		b, err := newInfs(ctx)
		if err != nil {
			return fmt.Errorf("infs backend: %w", err)
		}
		if err := runCase(b, "infs", func(r *runner) { r.program(q, o.Thorough(), 4+q.Intn(8)) }); err != nil {
			return fmt.Errorf("infs commit: %w", err)
		}
		s.Hit("backend_infs")
	}
	return s.Finish()
}
