// C32 — text search returns exactly the matching documents, ranked by BM25.
//
// The real search.Index (four infs B-trees behind database.NewBtree) indexes generated corpora in a random split
// into transactions; tokenizer output, the dumps of the four stores, the result sets and the rank order are diffed
// with the Lean model (Sop.Search); a direct oracle (Go maps) evaluates the property on the real results and
// recomputes every BM25 score from the integer statistics (a numeric TEST, not a theorem).
package main

import (
	"context"
	"fmt"
	"go/ast"
	"go/parser"
	"go/token"
	"math"
	"os"
	"path/filepath"
	"sort"
	"strconv"
	"strings"
	"unicode"

	"github.com/sharedcode/sop"
	"github.com/sharedcode/sop/btree"
	"github.com/sharedcode/sop/infs"
	"github.com/sharedcode/sop/search"

	"verifharness/hx"
)

func main() { hx.Main(run, "Sop.FactsC32", facts, nil) }

func repoDir() string {
	if r := os.Getenv("VERIF_REPO"); r != "" {
		return r
	}
	return "/repo"
}

// ---- the alphabet every generated text, id and query is drawn from; its classification goes to the facts file ----

var alphabet = func() []rune {
	var a []rune
	for c := 'a'; c <= 'z'; c++ {
		a = append(a, c)
	}
	for c := 'A'; c <= 'Z'; c++ {
		a = append(a, c)
	}
	for c := '0'; c <= '9'; c++ {
		a = append(a, c)
	}
	a = append(a, []rune(" \t|~!\"#$%&'()*+,-./:;<=>?@[\\]^_`{}")...)
	a = append(a, []rune("éÉßçÇñÑöÖüÜİıΣσςΩωЖжДдЯя日本語中文한글אבגعربي٣٧½²Ⅷ①́̈​ €©™😀🙂←—…")...)
	for _, w := range fixedWords {
		a = append(a, []rune(w)...)
	}
	for _, w := range seps {
		a = append(a, []rune(w)...)
	}
	seen := map[rune]bool{}
	var out []rune
	for _, c := range a {
		if !seen[c] {
			seen[c] = true
			out = append(out, c)
		}
	}
	sort.Slice(out, func(i, j int) bool { return out[i] < out[j] })
	return out
}()

func runesFact(name string, xs []int) hx.Fact { return hx.NatListFact(name, xs) }

// bm25Constants reads the literals k1 and b out of the search package's source (they are local to Search).
func bm25Constants() (k1, b float64, k1s, bs string, err error) {
	files, err := filepath.Glob(filepath.Join(repoDir(), "search", "*.go"))
	if err != nil {
		return
	}
	fset := token.NewFileSet()
	found := map[string]string{}
	for _, file := range files {
		if strings.HasSuffix(file, "_test.go") {
			continue
		}
		f, e := parser.ParseFile(fset, file, nil, 0)
		if e != nil {
			err = e
			return
		}
		rec := func(names []*ast.Ident, vals []ast.Expr) {
			for i, n := range names {
				if i < len(vals) && (n.Name == "k1" || n.Name == "b") {
					if bl, ok := vals[i].(*ast.BasicLit); ok && (bl.Kind == token.FLOAT || bl.Kind == token.INT) {
						found[n.Name] = bl.Value
					}
				}
			}
		}
		ast.Inspect(f, func(n ast.Node) bool {
			switch x := n.(type) {
			case *ast.AssignStmt:
				var ids []*ast.Ident
				for _, l := range x.Lhs {
					if id, ok := l.(*ast.Ident); ok {
						ids = append(ids, id)
					} else {
						ids = append(ids, ast.NewIdent("_"))
					}
				}
				rec(ids, x.Rhs)
			case *ast.ValueSpec:
				rec(x.Names, x.Values)
			}
			return true
		})
	}
	k1s, bs = found["k1"], found["b"]
	if k1s == "" || bs == "" {
		err = fmt.Errorf("BM25 constants k1/b not found as literals in %s/search", repoDir())
		return
	}
	if k1, err = strconv.ParseFloat(k1s, 64); err != nil {
		return
	}
	b, err = strconv.ParseFloat(bs, 64)
	return
}

func facts() []hx.Fact {
	var cs, toks, lows []int
	for _, c := range alphabet {
		cs = append(cs, int(c))
		t := 0
		if unicode.IsLetter(c) || unicode.IsNumber(c) {
			t = 1
		}
		toks = append(toks, t)
		lows = append(lows, int(unicode.ToLower(c)))
	}
	var stops []string
	for w, on := range search.DefaultStopWords {
		if on {
			stops = append(stops, w)
		}
	}
	sort.Strings(stops)
	var sw []string
	for _, w := range stops {
		var r []string
		for _, c := range w {
			r = append(r, fmt.Sprint(int(c)))
		}
		sw = append(sw, "["+strings.Join(r, ", ")+"]")
	}
	_, _, k1s, bs, err := bm25Constants()
	if err != nil {
		fmt.Fprintln(os.Stderr, "facts:", err)
		os.Exit(3)
	}
	return []hx.Fact{
		runesFact("alphabet", cs), runesFact("alphabetTok", toks), runesFact("alphabetLower", lows),
		{Name: "stopWords", Val: "[" + strings.Join(sw, ", ") + "]", Typ: "List (List Nat)"},
		hx.StrFact("bm25K1", k1s), hx.StrFact("bm25B", bs),
	}
}

// ---- line protocol encoding of strings: code points joined by '.', "-" for the empty string ----

func enc(s string) string {
	if s == "" {
		return "-"
	}
	var b strings.Builder
	for i, c := range s {
		if i > 0 {
			b.WriteByte('.')
		}
		b.WriteString(strconv.Itoa(int(c)))
	}
	return b.String()
}

func encList(xs []string) string {
	if len(xs) == 0 {
		return "-"
	}
	out := make([]string, len(xs))
	for i, x := range xs {
		out[i] = enc(x)
	}
	return strings.Join(out, ",")
}

// ---- generators ----

var fixedWords = []string{"the", "The", "THE", "quick", "Quick", "brown", "fox", "Fox", "FOX", "go", "Go", "GO", "in", "İn", "IN", "is", "not", "such",
	"École", "école", "ÉCOLE", "straße", "Σίσυφος", "ΣΊΣΥΦΟΣ", "σς", "Жук", "жук", "日本語", "中文", "한글", "אבג", "عربي", "٣٧", "½", "x²", "Ⅷ", "①", "a1", "A1", "42", "007",
	"fo", "foxy", "f", "fox1", "ı", "I", "i"}

var seps = []string{" ", " ", " ", "  ", ", ", ". ", "|", " | ", "-", "_", "\t", "~", "€", "😀", "́", "​", " ", "—", "!", "'", "/"}

func genWord(p *hx.Prng, vocab []string) string {
	if p.Chance(5, 6) {
		return vocab[p.Intn(len(vocab))]
	}
	n := 1 + p.Intn(4)
	var b strings.Builder
	for i := 0; i < n; i++ {
		b.WriteRune(alphabet[p.Intn(len(alphabet))])
	}
	return b.String()
}

func genText(p *hx.Prng, vocab []string, maxWords int) string {
	n := p.Intn(maxWords + 1)
	var b strings.Builder
	if p.Chance(1, 6) {
		b.WriteString(seps[p.Intn(len(seps))])
	}
	for i := 0; i < n; i++ {
		if i > 0 {
			b.WriteString(seps[p.Intn(len(seps))])
		}
		b.WriteString(genWord(p, vocab))
	}
	if p.Chance(1, 6) {
		b.WriteString(seps[p.Intn(len(seps))])
	}
	return b.String()
}

func genID(p *hx.Prng, i int, vocab []string) string {
	switch p.Intn(8) {
	case 0:
		return fmt.Sprintf("doc|%d", i)
	case 1:
		return fmt.Sprintf("|%d|", i)
	case 2:
		return vocab[p.Intn(len(vocab))] + "|" + fmt.Sprint(i) // looks like a postings key of another term
	case 3:
		return "日本|" + fmt.Sprint(i)
	case 4:
		return fmt.Sprintf("%d", i)
	case 5:
		return fmt.Sprintf("fox|doc%d", i)
	default:
		return fmt.Sprintf("doc%d", i)
	}
}

// ---- reference (the direct oracle): plain Go maps over the corpus ----

type refDoc struct {
	id   string
	toks []string
}

type refCorpus struct {
	docs []refDoc
	ids  map[string]bool
	dup  bool // a document id was added twice: outside the property's hypothesis
}

func (c *refCorpus) stats() (df map[string]int, totalLen int) {
	df = map[string]int{}
	for _, d := range c.docs {
		seen := map[string]bool{}
		for _, t := range d.toks {
			if !seen[t] {
				seen[t] = true
				df[t]++
			}
		}
		totalLen += len(d.toks)
	}
	return
}

// bm25 recomputes the scores from integer statistics with Go's math, accumulating in query-token order as the code does.
func (c *refCorpus) bm25(q []string, k1, b float64) map[string]float64 {
	scores := map[string]float64{}
	if len(q) == 0 || len(c.docs) == 0 {
		return scores
	}
	df, totalLen := c.stats()
	N := float64(len(c.docs))
	avgDL := float64(totalLen) / N
	for _, term := range q {
		if df[term] == 0 {
			continue
		}
		nq := float64(df[term])
		idf := math.Log((N-nq+0.5)/(nq+0.5) + 1)
		for _, d := range c.docs {
			tf := 0
			for _, t := range d.toks {
				if t == term {
					tf++
				}
			}
			if tf == 0 {
				continue
			}
			docLen := float64(len(d.toks))
			numerator := float64(tf) * (k1 + 1)
			denominator := float64(tf) + k1*(1-b+b*docLen/avgDL)
			scores[d.id] += idf * numerator / denominator
		}
	}
	return scores
}

// orderKey maps a float64 to an integer with the same order (the model never sees a float).
func orderKey(f float64) int64 {
	u := math.Float64bits(f)
	if u>>63 == 1 {
		return -int64(u &^ (1 << 63))
	}
	return int64(u)
}

// ---- the real index ----

type world struct {
	ctx   context.Context
	dir   string
	name  string
	tok   search.SimpleTokenizer
	k1, b float64
}

func (w *world) begin(mode sop.TransactionMode) (sop.Transaction, error) {
	t, err := infs.NewTransaction(w.ctx, sop.TransactionOptions{StoresFolders: []string{w.dir}, Mode: mode, CacheType: sop.InMemory})
	if err != nil {
		return nil, err
	}
	return t, t.Begin(w.ctx)
}

func (w *world) index(t sop.Transaction) (*search.Index, error) {
	return search.NewIndex(w.ctx, sop.DatabaseOptions{StoresFolders: []string{w.dir}}, t, w.name)
}

func dumpStore(ctx context.Context, t sop.Transaction, name string) (string, map[string]int, bool, error) {
	b3, err := infs.OpenBtree[string, int](ctx, name, t, nil)
	if err != nil {
		return "", nil, false, err
	}
	m := map[string]int{}
	var parts []string
	sorted := true
	prev, first := "", true
	ok, err := b3.First(ctx)
	for ok && err == nil {
		var it btree.Item[string, int]
		it, err = b3.GetCurrentItem(ctx)
		if err != nil {
			break
		}
		v := 0
		if it.Value != nil {
			v = *it.Value
		}
		parts = append(parts, fmt.Sprintf("%s=%d", enc(it.Key), v))
		m[it.Key] = v
		if !first && !(prev < it.Key) {
			sorted = false
		}
		prev, first = it.Key, false
		ok, err = b3.Next(ctx)
	}
	if err != nil {
		return "", nil, false, err
	}
	if len(parts) == 0 {
		return "-", m, sorted, nil
	}
	return strings.Join(parts, ","), m, sorted, nil
}

func errClass(err error) string {
	if err == nil {
		return "ok"
	}
	return "err"
}

func (w *world) doSearch(s *hx.Session, idx *search.Index, ref *refCorpus, q string, where string) error {
	res, err := idx.Search(w.ctx, q)
	if err != nil {
		s.Op("search "+enc(q), "err")
		s.Fail("C32/search-error", "Search returned an error", err.Error())
		return nil
	}
	// canonical: score descending, ties by id ascending
	can := append([]search.TextSearchResult(nil), res...)
	sort.SliceStable(can, func(i, j int) bool {
		if can[i].Score != can[j].Score {
			return can[i].Score > can[j].Score
		}
		return can[i].DocID < can[j].DocID
	})
	var ids, sc []string
	for _, r := range can {
		ids = append(ids, r.DocID)
		sc = append(sc, fmt.Sprintf("%s=%d", enc(r.DocID), orderKey(r.Score)))
	}
	scArg := "-"
	if len(sc) > 0 {
		scArg = strings.Join(sc, ",")
	}
	s.Op("search "+enc(q)+" "+scArg, encList(ids))
	s.Hit("search_" + where)
	s.HitN("hits", len(res))
	if len(res) == 0 {
		s.Hit("search_empty")
	}
	if len(res) >= 2 {
		s.Nontrivial()
	}
	// ---- direct oracle ----
	seen := map[string]bool{}
	for i, r := range res {
		if seen[r.DocID] {
			s.Fail("C32/duplicate-hit", "a document is returned twice", enc(r.DocID))
		}
		seen[r.DocID] = true
		if i > 0 && !(res[i-1].Score >= r.Score) {
			s.Fail("C32/order", "results are not in descending score order", fmt.Sprintf("%v then %v", res[i-1], r))
		}
		if math.IsNaN(r.Score) || math.IsInf(r.Score, 0) {
			s.Fail("C32/score-not-finite", "a score is NaN or infinite", fmt.Sprint(r))
		}
	}
	if ref.dup {
		s.Hit("search_dup_corpus")
		return nil
	}
	qt := w.tok.Tokenize(q)
	rep := map[string]bool{}
	for _, t := range qt {
		if rep[t] {
			s.Hit("query_repeated_term")
		}
		rep[t] = true
	}
	want := ref.bm25(qt, w.k1, w.b)
	for id := range want {
		if !seen[id] {
			s.Fail("C32/missing-hit", "a document containing a query term is not returned", enc(id)+" for "+enc(q))
		}
	}
	ties := false
	for i, r := range res {
		ws, ok := want[r.DocID]
		if !ok {
			s.Fail("C32/spurious-hit", "a document containing no query term is returned", enc(r.DocID)+" for "+enc(q))
			continue
		}
		if d := math.Abs(ws - r.Score); d > 1e-12*math.Max(math.Abs(ws), 1e-300) {
			s.Fail("C32/score-differs-from-bm25", "a score differs from BM25 recomputed from the integer statistics by more than 1e-12 relative",
				fmt.Sprintf("%s: got %v want %v", enc(r.DocID), r.Score, ws))
		}
		if i > 0 && res[i-1].Score == r.Score {
			ties = true
		}
		s.Hit("score_compared")
	}
	if ties {
		s.Hit("search_with_score_tie")
	}
	return nil
}

func (w *world) doDump(s *hx.Session, ref *refCorpus) error {
	t, err := w.begin(sop.ForReading)
	if err != nil {
		return err
	}
	defer t.Rollback(w.ctx)
	var outs []string
	maps := map[string]map[string]int{}
	for _, st := range []string{"postings", "term_stats", "doc_stats", "global"} {
		txt, m, sorted, err := dumpStore(w.ctx, t, w.name+"/"+st)
		if err != nil {
			return fmt.Errorf("dump %s: %w", st, err)
		}
		if !sorted {
			s.Fail("C32/store-walk-unordered", "a store's cursor walk is not in ascending key order", st)
		}
		outs = append(outs, txt)
		maps[st] = m
	}
	s.Op("dump", strings.Join(outs, " ; "))
	s.Hit("dump")
	if ref.dup {
		return nil
	}
	// direct oracle: the stores equal the corpus statistics
	df, totalLen := ref.stats()
	bad := func(what string) { s.Fail("C32/stats", "a store differs from the corpus statistics", what) }
	if len(ref.docs) > 0 && (maps["global"]["total_docs"] != len(ref.docs) || maps["global"]["total_len"] != totalLen) {
		bad(fmt.Sprintf("global %v want %d/%d", maps["global"], len(ref.docs), totalLen))
	}
	if len(maps["term_stats"]) != len(df) {
		bad("term_stats size")
	}
	for t, n := range df {
		if maps["term_stats"][t] != n {
			bad("term_stats " + enc(t))
		}
	}
	if len(maps["doc_stats"]) != len(ref.docs) {
		bad("doc_stats size")
	}
	np := 0
	for _, d := range ref.docs {
		if v, ok := maps["doc_stats"][d.id]; !ok || v != len(d.toks) {
			bad("doc_stats " + enc(d.id))
		}
		tf := map[string]int{}
		for _, t := range d.toks {
			tf[t]++
		}
		for t, n := range tf {
			np++
			if v, ok := maps["postings"][t+"|"+d.id]; !ok || v != n {
				bad("postings " + enc(t+"|"+d.id))
			}
		}
	}
	if len(maps["postings"]) != np {
		bad(fmt.Sprintf("postings size %d want %d", len(maps["postings"]), np))
	}
	return nil
}

type docIn struct{ id, text string }

// runCorpus indexes docs in the given batches (one transaction each), with searches inside and between transactions.
func (w *world) runCorpus(s *hx.Session, p *hx.Prng, batches [][]docIn, queries []string, header string) error {
	dir, err := os.MkdirTemp(hx.WorkRoot(), "c32-")
	if err != nil {
		return err
	}
	defer os.RemoveAll(dir)
	w.dir = dir
	w.name = "idx"
	ref := &refCorpus{ids: map[string]bool{}}
	s.BeginCase(header)
	s.Hit("case_" + strings.Fields(header)[0])
	if len(batches) > 1 {
		s.Hit("multi_transaction")
	}
	for bi, batch := range batches {
		t, err := w.begin(sop.ForWriting)
		if err != nil {
			return err
		}
		idx, err := w.index(t)
		if err != nil {
			t.Rollback(w.ctx)
			return fmt.Errorf("NewIndex: %w", err)
		}
		for _, d := range batch {
			err := idx.Add(w.ctx, d.id, d.text)
			s.Op("add "+enc(d.id)+" "+enc(d.text), errClass(err))
			if err != nil {
				s.Fail("C32/add-error", "Index.Add returned an error", err.Error())
				continue
			}
			toks := w.tok.Tokenize(d.text)
			if ref.ids[d.id] {
				ref.dup = true
				s.Hit("dup_id")
			} else {
				ref.ids[d.id] = true
				ref.docs = append(ref.docs, refDoc{d.id, toks})
			}
			s.Hit("add")
			if len(toks) == 0 {
				s.Hit("add_doc_without_tokens")
			}
			if strings.Contains(d.id, "|") {
				s.Hit("add_id_with_bar")
			}
			if d.id == "" {
				s.Hit("add_empty_id")
			}
		}
		// a search inside the writing transaction sees its own uncommitted documents
		if len(queries) > 0 && p.Chance(1, 2) {
			if err := w.doSearch(s, idx, ref, queries[p.Intn(len(queries))], "in_writer"); err != nil {
				return err
			}
		}
		if err := t.Commit(w.ctx); err != nil {
			s.Op("commit", "err")
			s.Fail("C32/commit-error", "commit of an indexing transaction failed", err.Error())
			return nil
		}
		s.Op("commit", "ok")
		s.Hit("commit")
		if bi+1 < len(batches) && p.Chance(1, 3) {
			if err := w.doDump(s, ref); err != nil {
				return err
			}
		}
	}
	if err := w.doDump(s, ref); err != nil {
		return err
	}
	t, err := w.begin(sop.ForReading)
	if err != nil {
		return err
	}
	idx, err := w.index(t)
	if err != nil {
		t.Rollback(w.ctx)
		return fmt.Errorf("NewIndex (reader): %w", err)
	}
	for _, q := range queries {
		if err := w.doSearch(s, idx, ref, q, "reader"); err != nil {
			return err
		}
	}
	if err := t.Commit(w.ctx); err != nil {
		s.Fail("C32/reader-commit-error", "commit of a read-only search transaction failed", err.Error())
	}
	return nil
}

func splitBatches(p *hx.Prng, docs []docIn) [][]docIn {
	if len(docs) == 0 {
		return [][]docIn{{}}
	}
	var out [][]docIn
	switch p.Intn(4) {
	case 0: // one transaction
		return [][]docIn{docs}
	case 1: // one document per transaction
		for _, d := range docs {
			out = append(out, []docIn{d})
		}
		return out
	}
	cur := []docIn{}
	for _, d := range docs {
		cur = append(cur, d)
		if p.Chance(1, 3) {
			out = append(out, cur)
			cur = []docIn{}
		}
	}
	if len(cur) > 0 || p.Chance(1, 5) { // sometimes a trailing empty transaction
		out = append(out, cur)
	}
	return out
}

func run(o hx.RunOpts) error {
	s := hx.NewSession(o, "cases: a generated corpus of documents with distinct ids (unicode words, stop words, repeated terms, ids containing '|', empty documents) is indexed through the real search.Index "+
		"in a random split into infs transactions; ops: tok (tokenizer output), add, commit, dump (cursor walk of the four stores), search (result set in canonical rank order; the float64 scores travel to the model as order keys). "+
		"distinct = canonical op-line hash; non-trivial = at least one search of the case returned two or more documents")
	p := hx.NewPrng(o.Seed)
	k1, b, _, _, err := bm25Constants()
	if err != nil {
		return err
	}
	w := &world{ctx: context.Background(), k1: k1, b: b}

	// (a) tokenizer alone
	s.BeginCase("tokenizer")
	s.Nontrivial()
	for _, c := range alphabet { // every character of the alphabet between two letters
		txt := "x" + string(c) + "Y"
		s.Op("tok "+enc(txt), encList(w.tok.Tokenize(txt)))
		s.Hit("tok_alphabet")
	}
	// every entry of the stop-word table, in each letter case, alone and among other words, and its near misses
	// (one letter more, one letter less): the table is filtered entry by entry, whatever the entry's length
	{
		var stops []string
		for sw, on := range search.DefaultStopWords {
			if on {
				stops = append(stops, sw)
			}
		}
		sort.Strings(stops)
		for _, sw := range stops {
			r := []rune(sw)
			forms := []string{sw, strings.ToUpper(sw), strings.ToUpper(string(r[:1])) + string(r[1:]), sw + "s", "x" + sw, "fox " + sw + " go", sw + " " + sw}
			if len(r) > 1 {
				forms = append(forms, string(r[:len(r)-1]))
			}
			for _, txt := range forms {
				toks := w.tok.Tokenize(txt)
				s.Op("tok "+enc(txt), encList(toks))
				s.Hit("tok_stopword_table")
				for _, t := range toks {
					if search.DefaultStopWords[t] {
						s.Fail("C32/stop-word-indexed", "the tokenizer let an entry of the stop-word table through (it would be indexed, counted in document lengths and matched by queries)", enc(txt)+" -> "+enc(t))
					}
				}
			}
		}
	}
	for i := 0; i < o.N(300, 5000); i++ {
		txt := genText(p, fixedWords, 8)
		toks := w.tok.Tokenize(txt)
		s.Op("tok "+enc(txt), encList(toks))
		s.Hit("tok_random")
		for _, t := range toks {
			if strings.Contains(t, "|") {
				s.Fail("C32/bar-in-token", "the tokenizer produced a token containing '|'", enc(t))
			}
		}
	}

	// (b) directed corpora
	directed := []struct {
		name    string
		batches [][]docIn
		queries []string
	}{
		{"directed repo-test-corpus", [][]docIn{{{"doc1", "the quick brown fox jumps over the lazy dog"}, {"doc2", "the quick brown fox"}}, {{"doc3", "jumps over the lazy dog"}, {"doc4", "programming in go is fun"}}},
			[]string{"fox", "go", "the", "quick dog", "fox fox", "nothing", ""}},
		{"directed bar-ids", [][]docIn{{{"fox|a", "fox fo"}, {"a", "fo fox|a"}}, {{"|", "fo|fox"}, {"fo|x", "fox"}, {"", "fox fo fo"}}},
			[]string{"fo", "fox", "fo|fox", "a", "|"}},
		{"directed prefix-terms", [][]docIn{{{"d1", "f fo fox foxy fox1"}}, {{"d2", "fo fo"}, {"d3", "foxy"}}, {{"d4", "the in is"}, {"d5", ""}}},
			[]string{"f", "fo", "fox", "foxy", "fox1", "the", "FO Fox"}},
		{"directed unicode", [][]docIn{{{"日本|1", "日本語 中文 École"}, {"é", "école ÉCOLE straße"}}, {{"σ", "Σίσυφος σς ΣΊΣΥΦΟΣ"}, {"i", "İn I ı i"}}},
			[]string{"école", "ÉCOLE", "日本語", "σς", "i", "İn", "ı"}},
		{"directed dup-id", [][]docIn{{{"d1", "fox go"}, {"d1", "fox dog"}}, {{"d2", "dog"}}},
			[]string{"fox", "dog", "go"}},
	}
	for _, d := range directed {
		if err := w.runCorpus(s, p.Fork(), d.batches, d.queries, d.name); err != nil {
			return err
		}
	}

	// (c) random corpora
	n := o.N(50, 2500)
	for i := 0; i < n; i++ {
		q := p.Fork()
		vs := 3 + q.Intn(10)
		vocab := make([]string, vs)
		for j := range vocab {
			vocab[j] = fixedWords[q.Intn(len(fixedWords))]
		}
		nd := q.Intn(9)
		if q.Chance(1, 10) {
			nd = 10 + q.Intn(30) // enough postings to split B-tree nodes? (slot length is large; still exercises longer walks)
		}
		var docs []docIn
		for j := 0; j < nd; j++ {
			docs = append(docs, docIn{genID(q, j, vocab), genText(q, vocab, 7)})
		}
		hdr := "random"
		if q.Chance(1, 25) && nd >= 2 {
			docs[nd-1].id = docs[0].id
			hdr = "random-dup-id"
		}
		var queries []string
		nq := 2 + q.Intn(4)
		for j := 0; j < nq; j++ {
			queries = append(queries, genText(q, vocab, 3))
		}
		if err := w.runCorpus(s, q, splitBatches(q, docs), queries, fmt.Sprintf("%s docs=%d", hdr, nd)); err != nil {
			return err
		}
	}
	// (d) thorough only: a corpus with more postings than one B-tree node holds (DefaultSlotLength), so that the
	// prefix scan crosses node boundaries
	if o.Thorough() {
		q := p.Fork()
		var vocab []string
		for j := 0; j < 90; j++ {
			vocab = append(vocab, fmt.Sprintf("w%d", j), fixedWords[j%len(fixedWords)])
		}
		var docs []docIn
		for j := 0; j < 900; j++ {
			docs = append(docs, docIn{genID(q, j, vocab), genText(q, vocab, 14)})
		}
		var batches [][]docIn
		for i := 0; i < len(docs); i += 300 {
			batches = append(batches, docs[i:i+300])
		}
		if err := w.runCorpus(s, q, batches, []string{"w1", "w2 w3", "fox fo", "école w89 w89", "w7|w8", "nothing"}, "big docs=900"); err != nil {
			return err
		}
	}
	return s.Finish()
}
