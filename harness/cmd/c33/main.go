// C33 — the vector store returns live items and correctly ranked query hits.
//
// Runs the real ai/vector store (file-system backend on a scratch folder, in-memory L2 cache) on generated
// programs of Upsert / UpsertBatch / Delete / Optimize over a small id domain and a fixed table of vectors,
// observes Get of every id, one Query and a dump of the Content / Vectors / TempVectors / Centroids stores
// after every step, and hands the same program to the Lean model (Sop/Model/Vector.lean). Every float-valued
// decision of the store (assigned centroid and distance, cosine scores, the two closest centroids of a query,
// the k-means outcome of Optimize) is passed to the model as an oracle input: the integers are the store's own
// float32 results mapped monotonically to Int (vecx.FKey).
package main

import (
	"context"
	"fmt"
	"io"
	"log/slog"
	"os"
	"os/exec"
	"sort"
	"strconv"
	"strings"
	"time"

	"github.com/sharedcode/sop"
	"github.com/sharedcode/sop/ai"
	aidb "github.com/sharedcode/sop/ai/database"
	"github.com/sharedcode/sop/ai/vector"
	"github.com/sharedcode/sop/btree"

	"verifharness/hx"
	"verifharness/vecx"
)

func main() {
	hx.Main(run, "", nil, map[string]func([]string) error{"big": bigChild})
}

type payloadT = map[string]any

// ---- one store under test ----

type env struct {
	dir     string
	db      *aidb.Database
	domain  string
	mode    ai.UsageMode
	buffer  bool
	dedup   bool
	ctx     context.Context
	version int64
}

func newEnv(domain string, mode ai.UsageMode, buffer, dedup bool) (*env, error) {
	dir, err := os.MkdirTemp(hx.WorkRoot(), "c33-")
	if err != nil {
		return nil, err
	}
	db := aidb.NewDatabase(sop.DatabaseOptions{StoresFolders: []string{dir}})
	return &env{dir: dir, db: db, domain: domain, mode: mode, buffer: buffer, dedup: dedup, ctx: context.Background()}, nil
}

func (e *env) close() { os.RemoveAll(e.dir) }

func (e *env) cfg() vector.Config {
	return vector.Config{UsageMode: e.mode, EnableIngestionBuffer: e.buffer}
}

// write runs f in its own writing transaction and commits it; -> "ok" | "err:op" | "err:commit".
func (e *env) write(f func(idx ai.VectorStore[payloadT]) error, selfCommit bool) (res string, rerr error) {
	defer func() {
		// a panic on the calling goroutine (the store's own code runs there) ends the case: see caseRun.abandon
		if r := recover(); r != nil {
			res, rerr = "panic "+panicClass(fmt.Sprint(r)), nil
		}
	}()
	tx, err := e.db.BeginTransaction(e.ctx, sop.ForWriting)
	if err != nil {
		return "", fmt.Errorf("write/begin: %w", err)
	}
	idx, err := e.db.OpenVectorStore(e.ctx, e.domain, tx, e.cfg())
	if err != nil {
		tx.Rollback(e.ctx)
		return "", fmt.Errorf("write/open: %w", err)
	}
	if d, ok := idx.(interface{ SetDeduplication(bool) }); ok {
		d.SetDeduplication(e.dedup)
	} else {
		return "", fmt.Errorf("store has no SetDeduplication")
	}
	if err := f(idx); err != nil {
		if tx.HasBegun() {
			tx.Rollback(e.ctx)
		}
		return "err:op " + errClass(err), nil
	}
	if selfCommit {
		return "ok", nil
	}
	if err := tx.Commit(e.ctx); err != nil {
		if os.Getenv("VERIF_C33_DEBUG") != "" {
			fmt.Fprintln(os.Stderr, "commit error:", err)
		}
		return "err:commit", nil
	}
	return "ok", nil
}

func panicClass(m string) string {
	switch {
	case strings.Contains(m, "index out of range"):
		return "index"
	case strings.Contains(m, "nil pointer"):
		return "nilptr"
	}
	return "other"
}

func errClass(err error) string {
	m := err.Error()
	switch {
	case strings.Contains(m, "TempVectors"):
		return "nf-temp"
	case strings.Contains(m, "invalid centroid ID (0)"):
		return "cid0"
	case strings.Contains(m, "not found in Vectors"):
		return "nf-vec"
	case strings.Contains(m, "item not found"):
		return "nf"
	case strings.Contains(m, "unsupported value") || strings.Contains(m, "+Inf") || strings.Contains(m, "NaN"):
		return "json-inf"
	}
	return "other"
}

// ---- observation: dump of the stores, Get of every id, one Query; all in one reading transaction ----

type cEnt struct {
	id      int
	key     ai.ContentKey
	payload int
}
type vEnt struct {
	key ai.VectorKey
	vec int
	nul bool
}
type tEnt struct {
	id  int
	vec int
	nul bool
}
type dump struct {
	version int64
	content []cEnt
	vectors []vEnt
	temp    []tEnt
	cents   [][2]int
}

func iter[K btree.Ordered, V any](ctx context.Context, b btree.BtreeInterface[K, V], f func(it btree.Item[K, V]) error) error {
	ok, err := b.First(ctx)
	if err != nil {
		return err
	}
	for ok {
		it, err := b.GetCurrentItem(ctx)
		if err != nil {
			return err
		}
		if err := f(it); err != nil {
			return err
		}
		ok, err = b.Next(ctx)
		if err != nil {
			return err
		}
	}
	return nil
}

type obs struct {
	d     dump
	gets  []string // per id
	hits  string
	qerr  string
	hitsL []ai.Hit[payloadT]
	// a centroid vector read back after the op holds Inf or NaN (the rolling average (c*n+v)/(n+1) of count tracking is
	// the only arithmetic Upsert does on centroid vectors: with finite inputs it is non-finite exactly when n+1 = 0)
	centNonFinite bool
}

type querySpec struct {
	q      int // index in vecx.Queries
	k      int
	filter int // 0 none, 1 even payload, 2 odd payload
}

func filterFn(f int) func(payloadT) bool {
	switch f {
	case 1:
		return func(p payloadT) bool { return payloadNum(p)%2 == 0 }
	case 2:
		return func(p payloadT) bool { return payloadNum(p)%2 == 1 }
	}
	return nil
}

func payloadNum(p payloadT) int {
	switch v := p["p"].(type) {
	case float64:
		return int(v)
	case int:
		return v
	}
	return -1
}

func (e *env) observe(nIDs int, qs *querySpec, skipQueryOver int) (*obs, error) {
	ctx := e.ctx
	tx, err := e.db.BeginTransaction(ctx, sop.ForReading)
	if err != nil {
		return nil, err
	}
	defer func() {
		if tx.HasBegun() {
			tx.Commit(ctx)
		}
	}()
	idx, err := e.db.OpenVectorStore(ctx, e.domain, tx, e.cfg())
	if err != nil {
		return nil, fmt.Errorf("observe/open: %w", err)
	}
	o := &obs{}
	ver, err := idx.Version(ctx)
	if err != nil {
		return nil, fmt.Errorf("observe/version: %w", err)
	}
	o.d.version = ver
	e.version = ver
	// Get of every id and the query come first (the dump must not disturb them)
	for i := 0; i < nIDs; i++ {
		it, err := idx.Get(ctx, vecx.IDName(i))
		if err != nil {
			o.gets = append(o.gets, errClass(err))
			continue
		}
		o.gets = append(o.gets, fmt.Sprintf("ok:%d:%d:%d", vecx.VecIndex(it.Vector), payloadNum(it.Payload), it.CentroidID))
	}
	cst, err := idx.Content(ctx)
	if err != nil {
		return nil, fmt.Errorf("observe/content: %w", err)
	}
	if err := iter(ctx, cst, func(it btree.Item[ai.ContentKey, string]) error {
		p := -1
		if it.Value != nil {
			var n int
			if _, err := fmt.Sscanf(*it.Value, `{"p":%d}`, &n); err == nil {
				p = n
			}
		}
		o.d.content = append(o.d.content, cEnt{vecx.IDNum(it.Key.ItemID), it.Key, p})
		return nil
	}); err != nil {
		return nil, fmt.Errorf("dump content: %w", err)
	}
	vst, err := idx.Vectors(ctx)
	if err != nil {
		return nil, err
	}
	if err := iter(ctx, vst, func(it btree.Item[ai.VectorKey, []float32]) error {
		ve := vEnt{key: it.Key}
		if it.Value == nil {
			ve.nul = true
		} else {
			ve.vec = vecx.VecIndex(*it.Value)
		}
		o.d.vectors = append(o.d.vectors, ve)
		return nil
	}); err != nil {
		return nil, fmt.Errorf("dump vectors: %w", err)
	}
	cs, err := idx.Centroids(ctx)
	if err != nil {
		return nil, err
	}
	if err := iter(ctx, cs, func(it btree.Item[int, ai.Centroid]) error {
		n := 0
		if it.Value != nil {
			n = it.Value.VectorCount
			for _, x := range it.Value.Vector {
				if x != x || x > 3e38 || x < -3e38 {
					o.centNonFinite = true
				}
			}
			if os.Getenv("VERIF_C33_DEBUG") != "" {
				fmt.Fprintln(os.Stderr, "centroid", it.Key, it.Value.Vector, n)
			}
		}
		o.d.cents = append(o.d.cents, [2]int{it.Key, n})
		return nil
	}); err != nil {
		return nil, fmt.Errorf("dump centroids: %w", err)
	}
	if e.buffer {
		arch, err := vector.OpenDomainStore(ctx, tx, e.domain, ver, e.cfg())
		if err != nil {
			return nil, err
		}
		if arch.TempVectors != nil {
			if err := iter(ctx, arch.TempVectors, func(it btree.Item[string, []float32]) error {
				te := tEnt{id: vecx.IDNum(it.Key)}
				if it.Value == nil {
					te.nul = true
				} else {
					te.vec = vecx.VecIndex(*it.Value)
				}
				o.d.temp = append(o.d.temp, te)
				return nil
			}); err != nil {
				return nil, fmt.Errorf("dump temp: %w", err)
			}
		}
	}
	if qs != nil {
		hits, err := idx.Query(ctx, vecx.Queries[qs.q], qs.k, filterFn(qs.filter))
		if err != nil {
			o.qerr = errClass(err)
		} else {
			o.hitsL = hits
			var parts []string
			for _, h := range hits {
				parts = append(parts, fmt.Sprintf("%d:%d:%d", vecx.IDNum(h.ID), vecx.FKey(h.Score), payloadNum(h.Payload)))
			}
			o.hits = strings.Join(parts, ",")
		}
	}
	return o, nil
}

func b01(b bool) string {
	if b {
		return "1"
	}
	return "0"
}

func (d *dump) String() string {
	var sb strings.Builder
	fmt.Fprintf(&sb, "v%d C[", d.version)
	for i, c := range d.content {
		if i > 0 {
			sb.WriteByte(' ')
		}
		k := c.key
		fmt.Fprintf(&sb, "%d:%d:%d:%d:%s:%d:%d:%d:%d", c.id, k.CentroidID, vecx.FKey(k.Distance), k.Version, b01(k.Deleted), k.NextCentroidID, vecx.FKey(k.NextDistance), k.NextVersion, c.payload)
	}
	sb.WriteString("] V[")
	for i, v := range d.vectors {
		if i > 0 {
			sb.WriteByte(' ')
		}
		fmt.Fprintf(&sb, "%d:%d:%d:%s:%d", v.key.CentroidID, vecx.FKey(v.key.DistanceToCentroid), vecx.IDNum(v.key.ItemID), b01(v.key.IsDeleted), v.vec)
	}
	sb.WriteString("] T[")
	for i, t := range d.temp {
		if i > 0 {
			sb.WriteByte(' ')
		}
		fmt.Fprintf(&sb, "%d:%d", t.id, t.vec)
	}
	sb.WriteString("] K[")
	for i, c := range d.cents {
		if i > 0 {
			sb.WriteByte(' ')
		}
		fmt.Fprintf(&sb, "%d:%d", c[0], c[1])
	}
	sb.WriteString("]")
	return sb.String()
}

// ---- the reference: a plain map id -> (vec, payload) ----

type refItem struct{ vec, payload int }

type caseRun struct {
	s        *hx.Session
	e        *env
	nIDs     int
	ref      map[int]refItem
	everUsed map[int]bool
	pcount   int
	lastOp   string
	tracking bool
	stage0   bool // ingestion buffer in use
	steps    int
	abandon  bool
	prev     *dump          // the dump observed after the previous step
	sticky   map[int]string // id -> signature of a defect already reported for it (kept until the id is written again)
	// count tracking: id -> the vector the harness SAW appear in that id's Vectors item while an Upsert of OTHER ids ran
	// (the `rw` oracle input: the rolling average wrote through the slice the centroid shares with that item). This is
	// the evidence the C33-F4 classification rests on; it is dropped when the id is written or deleted again.
	rwBy map[int]int
}

func modeName(m ai.UsageMode) string {
	switch m {
	case ai.BuildOnceQueryMany:
		return "bo"
	case ai.Dynamic:
		return "dyn"
	case ai.DynamicWithVectorCountTracking:
		return "trk"
	}
	return "?"
}

// activeAssign reads the centroid and distance the store recorded for id (the fields Get would use).
func activeAssign(d *dump, id int) (int, int64, bool) {
	for _, c := range d.content {
		if c.id == id {
			k := c.key
			if k.Version != d.version && k.NextVersion == d.version {
				return k.NextCentroidID, vecx.FKey(k.NextDistance), true
			}
			return k.CentroidID, vecx.FKey(k.Distance), true
		}
	}
	return 0, 0, false
}

type item struct {
	id, vec, payload, ecid int
}

func (c *caseRun) aiItem(it item) ai.Item[payloadT] {
	return ai.Item[payloadT]{ID: vecx.IDName(it.id), Vector: vecx.CopyVec(it.vec), Payload: payloadT{"p": it.payload}, CentroidID: it.ecid}
}

// step runs one mutating op, observes, emits the op line (with oracle inputs), then dump/get/query lines and
// evaluates the direct oracle.
func (c *caseRun) upsert(items []item, batch bool, qs *querySpec) error {
	// count tracking: the centroid the store is about to choose is recomputed BEFORE the op (a rejected commit
	// leaves non-finite centroid vectors in the process cache, so it cannot be recomputed afterwards)
	preCid := 0
	if c.tracking && !batch {
		preCid = c.closest(items[0])
	}
	res, err := c.e.write(func(idx ai.VectorStore[payloadT]) error {
		if !batch {
			return idx.Upsert(c.e.ctx, c.aiItem(items[0]))
		}
		var l []ai.Item[payloadT]
		for _, it := range items {
			l = append(l, c.aiItem(it))
		}
		return idx.UpsertBatch(c.e.ctx, l)
	}, false)
	if err != nil {
		return err
	}
	o, err := c.e.observe(c.nIDs, qs, 12)
	if err != nil {
		return err
	}
	var sb strings.Builder
	if batch {
		fmt.Fprintf(&sb, "batch %d", len(items))
	} else {
		sb.WriteString("up")
	}
	if res != "ok" && batch {
		// a rejected batch left no trace and the centroids it would have chosen item by item are not observable:
		// it is judged by the direct oracle and left out of the replayed program
		c.s.Hit("rejected_batch_not_replayed")
		c.failUpsert(res, len(items), o, items)
		c.abandon = true // see below: what the rejected commit left in the process cache is not modelled
		return nil
	}
	for _, it := range items {
		cid, dist, _ := activeAssign(&o.d, it.id)
		if res != "ok" {
			// rolled back: the assignment was never stored; the centroid is recomputed with the store's distance routine
			cid, dist = preCid, 0
		}
		fmt.Fprintf(&sb, " %d %d %d %d %d %d", it.id, it.vec, it.payload, it.ecid, cid, dist)
	}
	// oracle input: stored vectors of *other* ids that changed under this op (count tracking's rolling average
	// writes through slices it shares with stored vectors; the model applies this input in that mode only)
	if c.prev != nil && (res == "ok" || res == "err:commit") {
		touched := map[int]bool{}
		for _, it := range items {
			touched[it.id] = true
		}
		was := map[int]int{}
		for _, v := range c.prev.vectors {
			was[vecx.IDNum(v.key.ItemID)] = v.vec
		}
		var rw []string
		for _, v := range o.d.vectors {
			id := vecx.IDNum(v.key.ItemID)
			if w, ok := was[id]; ok && !touched[id] && w != v.vec {
				rw = append(rw, fmt.Sprintf("%d:%d", id, v.vec))
				if c.tracking {
					c.rwBy[id] = v.vec
					if v.vec > 0 {
						c.s.Hit("stored_vector_overwritten_with_exact_table_vector")
					}
				}
			}
		}
		if len(rw) > 0 {
			sb.WriteString(" rw " + strings.Join(rw, ","))
			c.s.Hit("stored_vector_overwritten_by_rolling_average")
		}
	}
	c.s.Op(sb.String(), res)
	if res == "ok" {
		for _, it := range items {
			c.ref[it.id] = refItem{it.vec, it.payload}
			c.everUsed[it.id] = true
			delete(c.sticky, it.id)
			delete(c.rwBy, it.id)
		}
		c.s.Hit("op_upsert_ok")
	} else {
		c.failUpsert(res, len(items), o, items)
		// a rejected commit leaves non-finite numbers in vectors held by the process cache; what later transactions
		// do with them (more rejected commits, a failing Optimize) is not modelled: the case ends after this step
		c.abandon = true
	}
	c.lastOp = "upsert"
	return c.after(o, qs)
}

func (c *caseRun) rwByIs(id, v int) bool {
	w, ok := c.rwBy[id]
	return ok && w == v
}

func (c *caseRun) failUpsert(res string, nItems int, o *obs, items []item) {
	c.s.Hit("op_upsert_" + res)
	sig := "C33/upsert-rejected:" + strings.ReplaceAll(res, " ", "-")
	if c.tracking && res == "err:commit" {
		// the division by zero happens when the op's increments step a centroid's count through -1: a count of -1
		// before a single Upsert, or a count of -m (the Delete miscount repeated) before a batch of at least m items
		minus1 := false
		if c.prev != nil {
			for _, ce := range c.prev.cents {
				if ce[1] < 0 && nItems >= -ce[1] {
					minus1 = true
					if ce[1] < -1 {
						c.s.Hit("rejected_batch_steps_count_through_minus_one")
					}
				}
			}
		}
		// ... or inside the op: a batch item that re-upserts a tombstoned id into another centroid decrements the old
		// centroid again (the same miscount), which can take a count of 0 to -1 before another item of the batch is
		// added to it. Whatever the path, the evidence is the same and is read back from the store: a centroid vector
		// is Inf/NaN after the rejected commit, which the rolling average produces exactly when the count was -1
		if o != nil && o.centNonFinite {
			if !minus1 {
				c.s.Hit("rejected_upsert_count_reached_minus_one_inside_the_op")
			}
			minus1 = true
		}
		if minus1 {
			sig = "C33/upsert-rejected:tracking-count-minus-one-division"
		}
	}
	detail := res
	if nItems > 1 {
		detail += " batch"
		for _, it := range items {
			detail += fmt.Sprintf(" %d:%d", it.id, it.vec)
		}
	}
	c.s.Fail(sig, "a valid Upsert is rejected with an error (the store keeps the previous state)", detail)
}

// closest recomputes the centroid an item would be assigned to (used only for a rejected Upsert).
func (c *caseRun) closest(it item) int {
	if it.ecid > 0 {
		return it.ecid
	}
	best, bd := 0, float32(0)
	tx, err := c.e.db.BeginTransaction(c.e.ctx, sop.ForReading)
	if err != nil {
		return 0
	}
	defer tx.Commit(c.e.ctx)
	idx, err := c.e.db.OpenVectorStore(c.e.ctx, c.e.domain, tx, c.e.cfg())
	if err != nil {
		return 0
	}
	cs, err := idx.Centroids(c.e.ctx)
	if err != nil {
		return 0
	}
	iter(c.e.ctx, cs, func(ci btree.Item[int, ai.Centroid]) error {
		if ci.Value == nil {
			return nil
		}
		d := vector.VerifEuclid(vecx.Table[it.vec], ci.Value.Vector)
		if best == 0 || d < bd {
			best, bd = ci.Key, d
		}
		return nil
	})
	if best == 0 {
		best = 1
	}
	return best
}

func (c *caseRun) del(id int, qs *querySpec) error {
	res, err := c.e.write(func(idx ai.VectorStore[payloadT]) error { return idx.Delete(c.e.ctx, vecx.IDName(id)) }, false)
	if err != nil {
		return err
	}
	o, err := c.e.observe(c.nIDs, qs, 12)
	if err != nil {
		return err
	}
	c.s.Op(fmt.Sprintf("del %d", id), res)
	if res == "ok" {
		delete(c.ref, id)
		delete(c.sticky, id)
		delete(c.rwBy, id)
		c.s.Hit("op_delete_ok")
	} else {
		c.s.Hit("op_delete_" + res)
		c.s.Fail("C33/delete-rejected:"+strings.ReplaceAll(res, " ", "-"), "a Delete is rejected with an error", res)
	}
	c.lastOp = "delete"
	return c.after(o, qs)
}

func (c *caseRun) optimize(before *dump, qs *querySpec, dropBuffer bool) error {
	res, err := c.e.write(func(idx ai.VectorStore[payloadT]) error { return idx.Optimize(c.e.ctx) }, true)
	if err != nil {
		return err
	}
	if strings.HasPrefix(res, "panic") {
		// the store's state after a panic in the middle of Optimize is not defined by anything: the case ends here
		c.s.Op("opt - - -", res)
		c.s.Hit("op_optimize_" + strings.ReplaceAll(res, " ", "_"))
		firstDeleted := before != nil && len(before.temp) > 0 && before.temp[0].vec == 0
		sig := "C33/optimize-panics:" + strings.ReplaceAll(res, " ", "-")
		if c.e.buffer && firstDeleted {
			sig += ":first-buffered-id-deleted"
		} else if c.e.buffer {
			sig += ":buffered-id-deleted"
		}
		c.s.Fail(sig, "Optimize panics", res)
		c.abandon = true
		return nil
	}
	if res != "ok" {
		c.s.Hit("op_optimize_" + strings.ReplaceAll(res, " ", "_"))
		c.s.Fail("C33/optimize-error:"+strings.ReplaceAll(res, " ", "-"), "Optimize returned an error", res)
		c.abandon = true
		return nil
	}
	wasBuffered := c.e.buffer
	if wasBuffered && dropBuffer {
		// usage rule (see props/C33.json): the ingestion buffer is the initial stage; after Optimize the store is
		// opened without it
		c.e.buffer = false
		c.stage0 = false
	}
	o, err := c.e.observe(c.nIDs, qs, 12)
	if err != nil {
		return err
	}
	// oracle inputs: (a) the assignment made by Consolidate for every buffered id (main fields of the content key),
	// (b) the assignment made by the migration for every (id, vector) (entries of the new Vectors store), (c) the
	// ids of the centroids k-means produced.
	var cons, mig, cents []string
	if wasBuffered && before != nil && len(before.temp) > 0 {
		// Consolidate found no centroid (the buffered path never makes one), made the first buffered vector centroid 1
		// and assigned every buffered id to it; the migration then overwrites these fields, so they are recomputed here
		// with the store's own distance routine rather than read back
		first := vecx.Table[before.temp[0].vec]
		for _, t := range before.temp {
			cons = append(cons, fmt.Sprintf("%d:1:%d", t.id, vecx.FKey(vector.VerifEuclid(vecx.Table[t.vec], first))))
		}
		if len(before.cents) != 0 {
			return fmt.Errorf("buffered stage with centroids: the harness's Consolidate oracle does not cover this")
		}
	}
	seen := map[string]string{}
	for _, v := range o.d.vectors {
		k := fmt.Sprintf("%d:%d", vecx.IDNum(v.key.ItemID), v.vec)
		val := fmt.Sprintf("%d:%d", v.key.CentroidID, vecx.FKey(v.key.DistanceToCentroid))
		if old, ok := seen[k]; ok {
			if old != val {
				c.abandon = true
			}
			continue
		}
		seen[k] = val
		mig = append(mig, k+":"+val)
	}
	for _, ce := range o.d.cents {
		cents = append(cents, fmt.Sprint(ce[0]))
	}
	if c.abandon {
		c.s.Hit("abandoned_numeric_tie")
		return nil
	}
	dash := func(l []string) string {
		if len(l) == 0 {
			return "-"
		}
		return strings.Join(l, ",")
	}
	c.s.Op(fmt.Sprintf("opt %s %s %s", dash(cons), dash(mig), dash(cents)), res)
	if wasBuffered && dropBuffer {
		c.s.Op("cfg buffer 0", "ok")
		c.s.Hit("op_reopen_without_buffer")
	}
	if res == "ok" {
		c.s.Hit("op_optimize_ok")
		c.s.Hit(fmt.Sprintf("optimize_to_version_%d", o.d.version))
	} else {
		c.s.Hit("op_optimize_" + res)
		c.s.Fail("C33/optimize-error:"+strings.ReplaceAll(res, " ", "-"), "Optimize returned an error", res)
	}
	c.lastOp = "optimize"
	return c.after(o, qs)
}

// after emits the observation lines of a step and evaluates the direct oracle against the reference map.
// A defect seen on an id keeps its first signature while the id is not written again (the same wrong answer is
// returned by every later Get).
func (c *caseRun) after(o *obs, qs *querySpec) error {
	s := c.s
	c.steps++
	c.prev = &o.d
	s.Op("dump", o.d.String())
	ctxTag := c.lastOp
	fail := func(id int, sig, what, detail string) {
		if old, ok := c.sticky[id]; ok {
			sig = old
		} else {
			c.sticky[id] = sig
		}
		s.Fail(sig, what, detail)
	}
	overwritten := map[int]bool{}
	for i := 0; i < c.nIDs; i++ {
		g := o.gets[i]
		s.Op(fmt.Sprintf("get %d", i), g)
		r, live := c.ref[i]
		switch {
		case live && strings.HasPrefix(g, "ok:"):
			var v, p, cid int
			fmt.Sscanf(g, "ok:%d:%d:%d", &v, &p, &cid)
			switch {
			case v == r.vec && p == r.payload:
				delete(c.sticky, i)
				s.Hit("get_live_ok")
			case v == -1 && p == r.payload && c.tracking:
				overwritten[i] = true
				fail(i, "C33/tracking-rolling-average-overwrites-stored-vector", "count tracking: Get of a live id returns a vector that was never upserted (the centroid's rolling average wrote through a shared slice)", fmt.Sprintf("id %d got %s want vec %d", i, g, r.vec))
			case c.tracking && p == r.payload && v != r.vec && c.rwByIs(i, v):
				// the same write-through, seen when the average happens to equal a table vector exactly (centroid count 0
				// after the Delete miscount: (c*0+v)/1 = v): the value Get returns is the one observed being written into
				// this id's item by an Upsert of another id
				overwritten[i] = true
				fail(i, "C33/tracking-rolling-average-overwrites-stored-vector", "count tracking: Get of a live id returns a vector that was never upserted for it (the centroid's rolling average wrote through a shared slice; here the average equals another id's vector exactly)", fmt.Sprintf("id %d got %s want vec %d (the harness saw vec %d written into this id's Vectors item by an Upsert of another id)", i, g, r.vec, v))
			case v != r.vec:
				fail(i, "C33/get-stale-vector:after-"+ctxTag, "Get of a live id does not return its latest vector", fmt.Sprintf("id %d got %s want vec %d payload %d", i, g, r.vec, r.payload))
			default:
				fail(i, "C33/get-stale-payload:after-"+ctxTag, "Get of a live id does not return its latest payload", fmt.Sprintf("id %d got %s want vec %d payload %d", i, g, r.vec, r.payload))
			}
		case live:
			fail(i, "C33/get-live-item-fails:"+g+":after-"+ctxTag, "Get of a live id returns an error", fmt.Sprintf("id %d: %s", i, g))
		case strings.HasPrefix(g, "ok:"):
			var v, p, cid int
			fmt.Sscanf(g, "ok:%d:%d:%d", &v, &p, &cid)
			kind := "never-stored"
			if c.everUsed[i] {
				kind = "deleted"
			}
			vtag := "with-vector"
			if v == 0 {
				vtag = "with-empty-vector"
			}
			fail(i, "C33/get-returns-"+kind+"-item:"+vtag+":after-"+ctxTag, "Get returns an item that was deleted or never stored", fmt.Sprintf("id %d: %s", i, g))
		default:
			delete(c.sticky, i)
			if g != "nf" {
				s.Hit("get_dead_error_class_" + g)
			}
			s.Hit("get_dead_ok")
		}
	}
	if qs != nil {
		// oracle inputs of the query: scores of every table vector against the query vector, the (at most two)
		// centroids the store scans, in scan order
		var scores []string
		for i := range vecx.Table {
			scores = append(scores, fmt.Sprint(vecx.FKey(vector.VerifCosine(vecx.Queries[qs.q], vecx.Table[i]))))
		}
		targets, tie := c.targets(o, qs)
		ncand := 0
		offTable := false
		if c.e.buffer {
			ncand = len(o.d.temp)
		} else {
			for _, v := range o.d.vectors {
				for _, t := range targets {
					if v.key.CentroidID == t && !v.key.IsDeleted {
						ncand++
						if v.vec < 0 {
							offTable = true
						}
					}
				}
			}
		}
		if tie || ncand > 12 || o.qerr != "" || offTable {
			// the order of equal-distance centroids comes from Go map iteration, sort.Slice is only stable up to 12
			// elements, and an overwritten stored vector has no table score: such a query has no single predicted
			// answer to diff, only the direct oracle applies
			s.Hit("query_not_diffed")
			if o.qerr != "" {
				s.Fail("C33/query-error:"+o.qerr, "Query returned an error", o.qerr)
			}
		} else {
			ts := "-"
			if len(targets) > 0 {
				var l []string
				for _, t := range targets {
					l = append(l, fmt.Sprint(t))
				}
				ts = strings.Join(l, ",")
			}
			out := o.hits
			if out == "" {
				out = "-"
			}
			s.Op(fmt.Sprintf("query %d %d %s %s", qs.k, qs.filter, ts, strings.Join(scores, ",")), "hits "+out)
			s.Hit("query_diffed")
		}
		c.judgeQuery(o, qs, ctxTag, overwritten)
	}
	return nil
}

// targets recomputes, with the store's own distance routine, which centroids Query scans (the two closest).
// The centroid vectors are read back from the store in a separate reading transaction.
func (c *caseRun) targets(o *obs, qs *querySpec) ([]int, bool) {
	if c.e.buffer {
		return nil, false
	}
	type cd struct {
		id int
		d  float32
	}
	var l []cd
	tx, err := c.e.db.BeginTransaction(c.e.ctx, sop.ForReading)
	if err != nil {
		return nil, true
	}
	defer tx.Commit(c.e.ctx)
	idx, err := c.e.db.OpenVectorStore(c.e.ctx, c.e.domain, tx, c.e.cfg())
	if err != nil {
		return nil, true
	}
	cs, err := idx.Centroids(c.e.ctx)
	if err != nil {
		return nil, true
	}
	iter(c.e.ctx, cs, func(it btree.Item[int, ai.Centroid]) error {
		var v []float32
		if it.Value != nil {
			v = it.Value.Vector
		}
		l = append(l, cd{it.Key, vector.VerifEuclid(vecx.Queries[qs.q], v)})
		return nil
	})
	sort.SliceStable(l, func(i, j int) bool { return l[i].d < l[j].d })
	tie := false
	for i := 0; i+1 < len(l) && i < 2; i++ {
		if l[i].d == l[i+1].d {
			tie = true
		}
	}
	if len(l) > 2 {
		l = l[:2]
	}
	var out []int
	for _, x := range l {
		out = append(out, x.id)
	}
	return out, tie
}

func (c *caseRun) judgeQuery(o *obs, qs *querySpec, ctxTag string, overwritten map[int]bool) {
	s := c.s
	if o.qerr != "" {
		return
	}
	hits := o.hitsL
	s.Hit(fmt.Sprintf("query_hits_%d", min(len(hits), 4)))
	if len(hits) > qs.k && !(qs.k < 0) {
		s.Fail("C33/query-more-than-k", "Query returned more than k hits", fmt.Sprint(len(hits), " > ", qs.k))
	}
	seen := map[string]bool{}
	f := filterFn(qs.filter)
	for i, h := range hits {
		id := vecx.IDNum(h.ID)
		if seen[h.ID] {
			s.Fail("C33/query-duplicate-hit:after-"+ctxTag, "Query returned the same id twice", h.ID)
		}
		seen[h.ID] = true
		r, live := c.ref[id]
		if !live {
			if sig, ok := c.sticky[id]; ok && strings.HasPrefix(sig, "C33/get-returns-deleted-item") {
				s.Fail(sig, "Query returns an item that was deleted (the same item Get returns)", h.ID)
				continue
			}
			s.Fail("C33/query-hit-not-live:after-"+ctxTag, "Query returned an id that is deleted or was never stored", h.ID)
			continue
		}
		if payloadNum(h.Payload) != r.payload {
			s.Fail("C33/query-stale-payload:after-"+ctxTag, "a hit carries a payload that is not the latest one", h.ID)
		}
		if f != nil && !f(h.Payload) {
			s.Fail("C33/query-filter", "a hit does not pass the filter", h.ID)
		}
		if want := vector.VerifCosine(vecx.Queries[qs.q], vecx.Table[r.vec]); want != h.Score && overwritten[id] {
			s.Fail("C33/tracking-rolling-average-overwrites-stored-vector", "count tracking: a hit is scored against a vector that was never upserted", h.ID)
		} else if want != h.Score {
			s.Fail("C33/query-stale-score:after-"+ctxTag, "a hit's score is not the cosine similarity of the id's latest vector", fmt.Sprintf("%s: %v want %v", h.ID, h.Score, want))
		}
		if i > 0 && hits[i-1].Score < h.Score {
			s.Fail("C33/query-not-sorted", "hits are not in descending score order", fmt.Sprint(i))
		}
	}
	if len(hits) > 0 {
		s.Hit("query_nonempty")
	}
}

// ---- generated programs ----

type caseKind struct {
	mode      ai.UsageMode
	buffer    bool
	dedup     bool
	freshOnly bool // dedup off: the documented usage rule (ids known to be unique) is respected
}

func genQuery(p *hx.Prng) *querySpec {
	return &querySpec{q: p.Intn(len(vecx.Queries)), k: []int{1, 2, 3, 10, 0}[p.Intn(5)], filter: p.Intn(3)}
}

func runCase(s *hx.Session, p *hx.Prng, caseNo int, kind caseKind, script []string, steps int) error {
	nIDs := 6
	e, err := newEnv(fmt.Sprintf("c%d", caseNo), kind.mode, kind.buffer, kind.dedup)
	if err != nil {
		return err
	}
	defer e.close()
	// the first transaction creates the stores (a reading transaction cannot open a store that does not exist)
	if r, err := e.write(func(idx ai.VectorStore[payloadT]) error { _, err := idx.Version(e.ctx); return err }, false); err != nil || r != "ok" {
		return fmt.Errorf("creating the stores: %v %v", r, err)
	}
	s.BeginCase(fmt.Sprintf("mode %s buffer %s dedup %s", modeName(kind.mode), b01(kind.buffer), b01(kind.dedup)))
	c := &caseRun{s: s, e: e, nIDs: nIDs, ref: map[int]refItem{}, everUsed: map[int]bool{}, sticky: map[int]string{}, rwBy: map[int]int{}, tracking: kind.mode == ai.DynamicWithVectorCountTracking, stage0: kind.buffer}
	s.Hit("case_mode_" + modeName(kind.mode))
	s.Hit("case_buffer_" + b01(kind.buffer))
	s.Hit("case_dedup_" + b01(kind.dedup))
	nextFresh := 0
	optimizes, delsAroundOpt := 0, 0
	var lastKind string
	doOptimize := func(qs *querySpec) error {
		var before *dump
		if c.e.buffer {
			o, err := c.e.observe(nIDs, nil, 12)
			if err != nil {
				return err
			}
			before = &o.d
		}
		if err := c.optimize(before, qs, true); err != nil {
			return err
		}
		optimizes++
		return nil
	}
	if script != nil {
		for _, l := range script {
			if c.abandon {
				break
			}
			var a, b, cc, d int
			switch {
			case strings.HasPrefix(l, "up "):
				d = 0
				fmt.Sscanf(l, "up %d %d %d", &a, &b, &d)
				c.pcount++
				if err := c.upsert([]item{{a, b, c.pcount, d}}, false, &querySpec{q: 0, k: 10}); err != nil {
					return err
				}
			case strings.HasPrefix(l, "batch "): // batch <id> <vec> <id> <vec> ...
				f := strings.Fields(l)[1:]
				var items []item
				for j := 0; j+1 < len(f); j += 2 {
					id, _ := strconv.Atoi(f[j])
					v, _ := strconv.Atoi(f[j+1])
					c.pcount++
					items = append(items, item{id, v, c.pcount, 0})
				}
				if err := c.upsert(items, true, &querySpec{q: 0, k: 10}); err != nil {
					return err
				}
			case strings.HasPrefix(l, "del "):
				fmt.Sscanf(l, "del %d", &a)
				if err := c.del(a, &querySpec{q: 0, k: 10}); err != nil {
					return err
				}
			case l == "opt":
				if err := doOptimize(&querySpec{q: 0, k: 10}); err != nil {
					return err
				}
			case l == "opt-keep-buffer":
				o, err := c.e.observe(nIDs, nil, 12)
				if err != nil {
					return err
				}
				if err := c.optimize(&o.d, &querySpec{q: 0, k: 10}, false); err != nil {
					return err
				}
			}
			_ = cc
		}
		s.Nontrivial()
		return nil
	}
	for st := 0; st < steps && !c.abandon; st++ {
		qs := genQuery(p)
		r := p.Intn(100)
		pickID := func() int {
			if kind.freshOnly {
				if nextFresh >= nIDs {
					return -1
				}
				nextFresh++
				return nextFresh - 1
			}
			return p.Intn(nIDs)
		}
		switch {
		case r < 42:
			id := pickID()
			if id < 0 {
				st--
				r = 60
				if err := c.del(p.Intn(nIDs), qs); err != nil {
					return err
				}
				lastKind = "del"
				continue
			}
			c.pcount++
			ecid := 0
			if !c.e.buffer && p.Chance(1, 8) {
				ecid = 1 + p.Intn(3)
			}
			if err := c.upsert([]item{{id, 1 + p.Intn(len(vecx.Table)-1), c.pcount, ecid}}, false, qs); err != nil {
				return err
			}
			lastKind = "up"
		case r < 52:
			n := 2 + p.Intn(4)
			var items []item
			used := map[int]bool{}
			for j := 0; j < n; j++ {
				id := pickID()
				if id < 0 || used[id] {
					continue
				}
				used[id] = true
				c.pcount++
				items = append(items, item{id, 1 + p.Intn(len(vecx.Table)-1), c.pcount, 0})
			}
			if len(items) == 0 {
				continue
			}
			if err := c.upsert(items, true, qs); err != nil {
				return err
			}
			s.Hit(fmt.Sprintf("batch_size_%d", len(items)))
			lastKind = "up"
		case r < 80:
			id := p.Intn(nIDs)
			if _, live := c.ref[id]; live {
				s.Hit("delete_live")
			} else if c.everUsed[id] {
				s.Hit("delete_already_deleted")
			} else {
				s.Hit("delete_never_stored")
			}
			if err := c.del(id, qs); err != nil {
				return err
			}
			if lastKind == "opt" {
				delsAroundOpt++
			}
			lastKind = "del"
		default:
			if lastKind == "del" {
				delsAroundOpt++
			}
			if err := doOptimize(qs); err != nil {
				return err
			}
			lastKind = "opt"
		}
	}
	if optimizes > 0 && len(c.everUsed) > 0 {
		s.Nontrivial()
	}
	if delsAroundOpt > 0 {
		s.Hit("case_delete_adjacent_to_optimize")
	}
	if optimizes >= 2 {
		s.Hit("case_two_or_more_optimizes")
	}
	return nil
}

// directed corpus: runs first. Each entry replays a witness from Sop/Props/C33.lean or a documented probe.
var corpus = []struct {
	name   string
	kind   caseKind
	script []string
}{
	// buffered item deleted before the first Optimize comes back (Consolidate re-upserts every buffered id)
	{"buffer-delete-optimize", caseKind{ai.Dynamic, true, true, false}, []string{"up 0 1", "up 1 2", "del 0", "opt"}},
	// a buffered id that is not the first one, deleted before the first Optimize, is live again after it (empty vector)
	{"buffer-delete-later-id", caseKind{ai.Dynamic, true, true, false}, []string{"up 0 1", "up 1 2", "del 1", "opt"}},
	// count tracking: delete / re-upsert cycles drive a centroid's count to -1, the next new id divides by zero
	{"tracking-count", caseKind{ai.DynamicWithVectorCountTracking, false, true, false}, []string{"up 0 1", "del 0", "up 0 1", "del 0", "up 0 1", "up 1 2"}},
	// dedup off and an id upserted twice (outside the documented usage rule): recorded, see run()
	{"dedup-off-reupsert", caseKind{ai.Dynamic, false, false, false}, []string{"up 0 1", "up 0 3"}},
	// the ingestion buffer flag kept after Optimize (outside the usage rule): recorded, see run()
	{"buffer-kept", caseKind{ai.Dynamic, true, true, false}, []string{"up 0 1", "opt-keep-buffer"}},
	// count tracking: Delete twice drives centroid 1's count to 0; the next new id's rolling average (c*0+v)/1 is exactly
	// its vector and is written through the slice id 0 shares with the centroid: Get(0) returns another id's vector
	{"tracking-overwrite-exact", caseKind{ai.DynamicWithVectorCountTracking, false, true, false}, []string{"up 0 6", "up 1 6", "del 1", "del 1", "up 2 8"}},
	// count tracking: repeated Deletes of tombstoned ids drive the count to -2; a batch of two new ids steps it through
	// -1 and the second item divides by zero: the whole batch is rejected (the C33-F5 mechanism from a count below -1)
	{"tracking-count-batch", caseKind{ai.DynamicWithVectorCountTracking, false, true, false}, []string{"up 0 1", "up 1 3", "del 1", "del 1", "del 0", "del 1", "batch 2 4 3 5"}},
	// count tracking: inside one batch, the re-upsert of tombstoned id 3 into another centroid decrements its old centroid 3
	// again (0 -> -1) and the next item, assigned to centroid 3, divides by zero (C33-F5 reached inside the op)
	{"tracking-count-batch-reupsert", caseKind{ai.DynamicWithVectorCountTracking, false, true, false}, []string{"up 0 6", "up 3 9 3", "del 3", "batch 3 6 1 9"}},
	{"plain", caseKind{ai.Dynamic, false, true, false}, []string{"up 0 1", "up 1 2", "up 2 5", "del 1", "opt", "up 1 4", "del 2", "opt", "up 0 6"}},
}

// corpus entries added after generated cases of a seed were reported: they get a generator of their own
var lateAdditions = map[string]bool{"tracking-overwrite-exact": true, "tracking-count-batch": true, "tracking-count-batch-reupsert": true}

func run(o hx.RunOpts) error {
	slog.SetDefault(slog.New(slog.NewTextHandler(io.Discard, nil)))
	if dn, err := os.OpenFile(os.DevNull, os.O_WRONLY, 0); err == nil {
		os.Stdout = dn // the store prints progress lines with fmt.Printf
	}
	s := hx.NewSession(o, "cases: programs of Upsert / UpsertBatch / Delete / Optimize over six ids and a table of 2-dimensional vectors against the real ai/vector store "+
		"(one writing transaction per op, fs backend on a scratch folder, in-memory L2 cache), in the three usage modes, with de-duplication on and off (off: fresh ids only, the documented rule), "+
		"with and without the ingestion buffer (buffer: dropped after the first Optimize, the usage the repository's lifecycle tests show). After every op: dump of Content/Vectors/TempVectors/Centroids, "+
		"Get of all six ids, one Query (k in {0,1,2,3,10}, filter none/even/odd). distinct = hash of the canonical op lines; non-trivial = at least one item stored and at least one Optimize in the program, or a directed corpus case")
	p := hx.NewPrng(o.Seed)
	caseNo := 0
	var notes []string
	for _, cc := range corpus {
		caseNo++
		before := len(s.Rep.OracleFailures)
		cp := hx.NewPrng(o.Seed + 7919)
		if !lateAdditions[cc.name] {
			cp = p.Fork() // (a scripted case draws nothing from it; later additions must not shift the generated cases of a seed)
		}
		if err := runCase(s, cp, caseNo, cc.kind, cc.script, 0); err != nil {
			return fmt.Errorf("corpus %s: %w", cc.name, err)
		}
		s.Hit("corpus_" + cc.name)
		if cc.name == "dedup-off-reupsert" || cc.name == "buffer-kept" {
			// outside the assumptions of the property (documented usage rules): what the oracle saw is recorded as a note
			var sigs []string
			for _, f := range s.Rep.OracleFailures[before:] {
				sigs = append(sigs, f.Signature)
			}
			s.Rep.OracleFailures = s.Rep.OracleFailures[:before]
			for k := range s.Rep.Histogram {
				if strings.HasPrefix(k, "oracle_fail:") {
					found := false
					for _, f := range s.Rep.OracleFailures {
						if "oracle_fail:"+f.Signature == k {
							found = true
						}
					}
					if !found {
						delete(s.Rep.Histogram, k)
					}
				}
			}
			notes = append(notes, fmt.Sprintf("directed case %s (outside the usage rules, not judged): oracle observations %v", cc.name, uniq(sigs)))
		}
	}
	// big buffered ingestion in a child process (Consolidate handles one batch of 100)
	caseNo++
	if err := bigCase(s, caseNo); err != nil {
		return err
	}
	kinds := []caseKind{
		{ai.Dynamic, false, true, false},
		{ai.BuildOnceQueryMany, false, true, false},
		{ai.DynamicWithVectorCountTracking, false, true, false},
		{ai.Dynamic, true, true, false},
		{ai.BuildOnceQueryMany, true, true, false},
		{ai.Dynamic, false, false, true},
		{ai.DynamicWithVectorCountTracking, false, false, true},
		{ai.BuildOnceQueryMany, true, false, true},
	}
	n := o.N(150, 2500)
	deadline := time.Now().Add(time.Duration(o.N(70, 780)) * time.Second)
	for i := 0; i < n && time.Now().Before(deadline); i++ {
		caseNo++
		kind := kinds[i%len(kinds)]
		steps := 8 + p.Intn(14)
		cp := p.Fork()
		if only := os.Getenv("VERIF_C33_ONLY"); only != "" && only != fmt.Sprint(caseNo) {
			continue // debugging aid: run one generated case of the sequence
		}
		if err := runCase(s, cp, caseNo, kind, nil, steps); err != nil {
			fmt.Fprintln(os.Stderr, strings.Join(s.CurrentOps(), "\n"))
			s.Finish()
			return fmt.Errorf("case %d: %w", caseNo, err)
		}
	}
	s.Rep.Notes = notes
	s.Rep.Extra = map[string]any{"directed_cases_outside_usage_rules": notes}
	s.Rep.CoverageGap = []string{
		"ids inside one UpsertBatch are distinct (the intermediate centroid of a repeated id is not observable)",
		"de-duplication is fixed per case; with it off only fresh ids are upserted (documented rule) apart from one directed case",
		"queries whose two closest centroids tie in distance, or with more than 12 candidates, are judged by the direct oracle only (Go map order / unstable sort)",
		"the Lookup store and SplitCentroid/AddCentroid are not exercised",
		"count tracking is not combined with the ingestion buffer; a case ends at its first rejected commit, failing or panicking Optimize (the state after it is not defined by the model)",
		"vectors are 2-dimensional rows of a fixed table of 9; six ids per case (one directed case with 105)",
	}
	return s.Finish()
}

func uniq(l []string) []string {
	m := map[string]bool{}
	var out []string
	for _, x := range l {
		if !m[x] {
			m[x] = true
			out = append(out, x)
		}
	}
	sort.Strings(out)
	return out
}

// ---- the >100 buffered items case (child process: a nil vector dereference in the migration would kill us) ----

func bigCase(s *hx.Session, caseNo int) error {
	exe := os.Getenv("VERIF_DRIVE")
	if exe == "" {
		exe = os.Args[0]
	}
	cmd := exec.Command(exe, "big")
	cmd.Env = os.Environ()
	out, err := cmd.Output()
	res := strings.TrimSpace(string(out))
	if i := strings.LastIndex(res, "RESULT "); i >= 0 {
		res = strings.TrimSpace(res[i+7:])
	} else if err != nil {
		res = "child-died"
	}
	s.BeginCase("big")
	s.Op("big 105", res)
	s.Hit("corpus_big_buffered_ingestion")
	s.Nontrivial()
	if res != "ok 105" {
		s.Fail("C33/buffered-items-beyond-first-100-lose-vector-at-optimize", "after ingesting 105 ids through the ingestion buffer and optimizing, Get fails for ids beyond the 100 that Consolidate moved", res)
	}
	return nil
}

func bigChild(args []string) error {
	slog.SetDefault(slog.New(slog.NewTextHandler(io.Discard, nil)))
	real := os.Stdout
	if dn, err := os.OpenFile(os.DevNull, os.O_WRONLY, 0); err == nil {
		os.Stdout = dn
	}
	e, err := newEnv("big", ai.BuildOnceQueryMany, true, true)
	if err != nil {
		return err
	}
	defer e.close()
	const n = 105
	res, err := e.write(func(idx ai.VectorStore[payloadT]) error {
		var l []ai.Item[payloadT]
		for i := 0; i < n; i++ {
			l = append(l, ai.Item[payloadT]{ID: vecx.IDName(i), Vector: []float32{float32(i%7) + 0.25, float32(i%11) + 0.5}, Payload: payloadT{"p": i}})
		}
		return idx.UpsertBatch(e.ctx, l)
	}, false)
	if err != nil || res != "ok" {
		fmt.Fprintln(real, "RESULT ingest", res, err)
		return nil
	}
	res, err = e.write(func(idx ai.VectorStore[payloadT]) error { return idx.Optimize(e.ctx) }, true)
	if err != nil || res != "ok" {
		fmt.Fprintln(real, "RESULT optimize", res, err)
		return nil
	}
	e.buffer = false
	tx, err := e.db.BeginTransaction(e.ctx, sop.ForReading)
	if err != nil {
		return err
	}
	idx, err := e.db.OpenVectorStore(e.ctx, e.domain, tx, e.cfg())
	if err != nil {
		return err
	}
	good := 0
	classes := map[string]int{}
	for i := 0; i < n; i++ {
		it, err := idx.Get(e.ctx, vecx.IDName(i))
		if err == nil && len(it.Vector) == 2 {
			good++
		} else if err != nil {
			classes[errClass(err)]++
		}
	}
	tx.Commit(e.ctx)
	if good == n {
		fmt.Fprintln(real, "RESULT ok", good)
	} else {
		var l []string
		for k, v := range classes {
			l = append(l, fmt.Sprintf("%s=%d", k, v))
		}
		sort.Strings(l)
		fmt.Fprintln(real, "RESULT ok", good, "of", n, strings.Join(l, ","))
	}
	return nil
}
