// C34 — access-control decisions respect system, ownership and grant rules.
//
// The real sop.Authorize / sop.CheckPolicy / sop.ResolveRBACMap are evaluated over a complete finite abstract
// domain of callers, resources, grant maps and actions (and, in the thorough tier, random compositions beyond it);
// every decision is diffed with the Lean model (Sop.Rbac) and checked against the rule as the property states it.
package main

import (
	"context"
	"fmt"
	"go/ast"
	"go/parser"
	"go/token"
	"os"
	"path/filepath"
	"sort"
	"strconv"
	"strings"

	"github.com/sharedcode/sop"

	"verifharness/hx"
)

func main() { hx.Main(run, "Sop.FactsRbac", facts, nil) }

func repoDir() string {
	if r := os.Getenv("VERIF_REPO"); r != "" {
		return r
	}
	return "/repo"
}

// packageStringLits returns the distinct string literals of the non-test Go files of the root package directory.
func packageStringLits(dir string) ([]string, error) {
	files, err := filepath.Glob(filepath.Join(dir, "*.go"))
	if err != nil {
		return nil, err
	}
	fset := token.NewFileSet()
	seen := map[string]bool{}
	var out []string
	for _, file := range files {
		if strings.HasSuffix(file, "_test.go") {
			continue
		}
		f, err := parser.ParseFile(fset, file, nil, 0)
		if err != nil {
			return nil, err
		}
		ast.Inspect(f, func(n ast.Node) bool {
			if bl, ok := n.(*ast.BasicLit); ok && bl.Kind == token.STRING {
				if v, err := strconv.Unquote(bl.Value); err == nil && !seen[v] {
					seen[v] = true
					out = append(out, v)
				}
			}
			return true
		})
	}
	sort.Strings(out)
	return out, nil
}

// The core (read-only) resource names and the wildcard grant are string literals in the code, not constants.
// Candidates are all string literals of the package source the binary was compiled from; which of them ARE core
// names / the wildcard is decided by asking the compiled functions, so moving the literals around does not matter.
func coreNames() ([]string, error) {
	lits, err := packageStringLits(repoDir())
	if err != nil {
		return nil, err
	}
	var core []string
	for _, l := range lits {
		if sop.IsSystemReadOnly(l) {
			core = append(core, l)
		}
	}
	// source order of the two known names first, so that the generated file is stable
	sort.SliceStable(core, func(i, j int) bool { return core[i] == "SOP" && core[j] != "SOP" })
	return core, nil
}

func wildcards() ([]string, error) {
	lits, err := packageStringLits(repoDir())
	if err != nil {
		return nil, err
	}
	const probe = "verif-probe-action"
	ctx := sop.ContextWithAuth(context.Background(), sop.AuthContext{UserID: "verif-u", Roles: []string{"verif-r"}})
	var w []string
	for _, l := range lits {
		if l == probe {
			continue
		}
		byUser := sop.Authorize(ctx, sop.ResourceAccess{Visibility: sop.VisibilityPrivate, Users: map[string][]string{"verif-u": {l}}}, probe)
		byRole := sop.Authorize(ctx, sop.ResourceAccess{Visibility: sop.VisibilityPrivate, Roles: map[string][]string{"verif-r": {l}}}, probe)
		if byUser || byRole {
			w = append(w, l)
		}
	}
	return w, nil
}

func facts() []hx.Fact {
	core, err := coreNames()
	if err != nil {
		fmt.Fprintln(os.Stderr, "facts:", err)
		os.Exit(3)
	}
	wc, err := wildcards()
	if err != nil || len(wc) != 1 {
		fmt.Fprintln(os.Stderr, "facts: expected exactly one string literal of the package to act as a wildcard grant, got", wc, err)
		os.Exit(3)
	}
	return []hx.Fact{
		hx.StrFact("roleAdmin", sop.RoleAdmin), hx.StrFact("roleUser", sop.RoleUser), hx.StrFact("roleGuest", sop.RoleGuest),
		hx.StrFact("actionRead", string(sop.ActionRead)), hx.StrFact("actionWrite", string(sop.ActionWrite)),
		hx.StrFact("actionDelete", string(sop.ActionDelete)), hx.StrFact("actionList", string(sop.ActionList)),
		hx.StrFact("actionAISelect", string(sop.ActionAISelect)),
		hx.StrFact("visPublic", string(sop.VisibilityPublic)), hx.StrFact("visPrivate", string(sop.VisibilityPrivate)),
		hx.StrFact("visSystem", string(sop.VisibilitySystem)),
		hx.StrFact("capRead", string(sop.UICapabilityRead)), hx.StrFact("capEdit", string(sop.UICapabilityEdit)),
		hx.StrFact("capDelete", string(sop.UICapabilityDelete)), hx.StrFact("capAISelect", string(sop.UICapabilityAISelect)),
		hx.StrListFact("coreNames", core),
		hx.StrFact("wildcard", wc[0]),
	}
}

// ---- encoding of strings on the protocol line: "" is "~", everything else must be a plain token ----

func tok(s string) string {
	if s == "" {
		return "~"
	}
	if strings.ContainsAny(s, " \t\n~,;:=") {
		panic("token not encodable: " + s)
	}
	return s
}

func toks(l []string) string {
	if len(l) == 0 {
		return "-"
	}
	q := make([]string, len(l))
	for i, s := range l {
		q[i] = tok(s)
	}
	return strings.Join(q, ",")
}

// grant map as "key:act,act;key:act" (keys sorted), "-" when nil
func gmap(m map[string][]string) string {
	if len(m) == 0 {
		return "-"
	}
	keys := make([]string, 0, len(m))
	for k := range m {
		keys = append(keys, k)
	}
	sort.Strings(keys)
	parts := make([]string, len(keys))
	for i, k := range keys {
		parts[i] = tok(k) + ":" + toks(m[k])
	}
	return strings.Join(parts, ";")
}

type caseIn struct {
	caller sop.AuthContext
	access sop.ResourceAccess
}

func (c caseIn) header() string {
	sys := "0"
	if c.caller.IsSystem {
		sys = "1"
	}
	return fmt.Sprintf("u=%s r=%s s=%s v=%s o=%s R=%s U=%s", tok(c.caller.UserID), toks(c.caller.Roles), sys,
		tok(string(c.access.Visibility)), tok(c.access.OwnerID), gmap(c.access.Roles), gmap(c.access.Users))
}

// ---- the rule as the property states it, evaluated independently of the code ----

func has(l []string, x string) bool {
	for _, y := range l {
		if y == x {
			return true
		}
	}
	return false
}

func specAuthorize(c caseIn, action string) bool {
	if string(c.access.Visibility) == "system" {
		return c.caller.IsSystem
	}
	admin := has(c.caller.Roles, "Admin")
	owner := c.access.OwnerID != "" && c.access.OwnerID == c.caller.UserID
	public := (c.access.Visibility == "public" || c.access.Visibility == "") && (action == "read" || action == "list")
	roleGrant := false
	for _, r := range c.caller.Roles {
		if acts, ok := c.access.Roles[r]; ok && (has(acts, action) || has(acts, "*")) {
			roleGrant = true
		}
	}
	userGrant := false
	if acts, ok := c.access.Users[c.caller.UserID]; ok && (has(acts, action) || has(acts, "*")) {
		userGrant = true
	}
	return admin || owner || public || roleGrant || userGrant
}

// decisiveBranch names, for the histogram, which disjunct of the rule decides an (ACL, caller, action) triple.
func decisiveBranch(c caseIn, action string, got bool) string {
	if string(c.access.Visibility) == "system" {
		if got {
			return "decision:system_visibility_allow_system_caller"
		}
		return "decision:system_visibility_deny"
	}
	var why []string
	if has(c.caller.Roles, "Admin") {
		why = append(why, "admin")
	}
	if c.access.OwnerID != "" && c.access.OwnerID == c.caller.UserID {
		why = append(why, "owner")
	}
	if (c.access.Visibility == "public" || c.access.Visibility == "") && (action == "read" || action == "list") {
		why = append(why, "public")
	}
	for _, r := range c.caller.Roles {
		if acts, ok := c.access.Roles[r]; ok && (has(acts, action) || has(acts, "*")) {
			why = append(why, "rolegrant")
			break
		}
	}
	if acts, ok := c.access.Users[c.caller.UserID]; ok && (has(acts, action) || has(acts, "*")) {
		why = append(why, "usergrant")
	}
	switch len(why) {
	case 0:
		return "decision:deny_no_disjunct"
	case 1:
		return "decision:allow_only_by_" + why[0]
	}
	return "decision:allow_by_several"
}

func specPolicy(c caseIn, name, action string) bool {
	if (name == "SOP" || name == "LongTermMemory") && (action == "write" || action == "delete") {
		return false
	}
	return specAuthorize(c, action)
}

// ---- blueprints registered by the harness (the registry is process-global; the names are ours) ----

type bpSpec struct {
	name    string
	actions []sop.Action
	eval    map[sop.Action]bool // nil = no custom evaluator
}

var blueprints []bpSpec

func registerBlueprints(extraActions []string) {
	std := []sop.Action{sop.ActionRead, sop.ActionWrite, sop.ActionDelete, sop.ActionAISelect}
	withList := []sop.Action{sop.ActionList, sop.ActionRead, sop.ActionWrite, sop.ActionDelete, sop.ActionAISelect, sop.Action(extraActions[0])}
	// two actions mapping to one capability: "write" -> can_edit and the literal action "can_edit" -> can_edit (Go map: last wins)
	collide := []sop.Action{sop.ActionWrite, sop.ActionRead, sop.Action(sop.UICapabilityEdit), sop.Action(sop.UICapabilityRead), sop.ActionDelete}
	collide2 := []sop.Action{sop.Action(sop.UICapabilityEdit), sop.ActionRead, sop.ActionWrite, sop.ActionRead}
	blueprints = []bpSpec{
		{"verif.std", std, nil},
		{"verif.list", withList, nil},
		{"verif.collide", collide, nil},
		{"verif.collide2", collide2, nil},
		{"verif.empty", nil, nil},
		{"verif.custom", std, map[sop.Action]bool{sop.ActionRead: true, sop.ActionWrite: false, sop.ActionDelete: true, sop.ActionAISelect: false}},
	}
	for _, b := range blueprints {
		bp := sop.AssetBlueprint{AssetType: b.name, Description: "verif", Actions: b.actions}
		if b.eval != nil {
			tbl := b.eval
			bp.Evaluator = func(ctx context.Context, ec sop.EntitlementContext, a sop.Action) bool { return tbl[a] }
		}
		sop.RegisterAssetRBAC(bp)
	}
	blueprints = append(blueprints, bpSpec{"verif.unregistered", nil, nil})
}

func (b bpSpec) opArgs() string {
	if b.name == "verif.unregistered" {
		return "none"
	}
	acts := make([]string, len(b.actions))
	for i, a := range b.actions {
		acts[i] = string(a)
	}
	ev := "-"
	if b.eval != nil {
		var t []string
		for _, a := range b.actions {
			if b.eval[a] {
				t = append(t, string(a))
			}
		}
		ev = "ev:" + toks(t)
	}
	return toks(acts) + " " + ev
}

func showMap(m sop.ContextRBACMap) string {
	if len(m) == 0 {
		return "-"
	}
	keys := make([]string, 0, len(m))
	for k := range m {
		keys = append(keys, string(k))
	}
	sort.Strings(keys)
	parts := make([]string, len(keys))
	for i, k := range keys {
		v := "0"
		if m[sop.UICapability(k)] {
			v = "1"
		}
		parts[i] = tok(k) + "=" + v
	}
	return strings.Join(parts, ",")
}

type domain struct {
	actions []string
	names   []string
}

// evalCase runs the three entry points for one (caller, access) over all actions and names and records the lines.
func evalCase(s *hx.Session, c caseIn, d domain, bps []int, withNilAccess bool) {
	ctx := sop.ContextWithAuth(context.Background(), c.caller)
	s.BeginCase(c.header())
	// Authorize
	var sb strings.Builder
	allowedSome, deniedSome := false, false
	for _, a := range d.actions {
		got := sop.Authorize(ctx, c.access, sop.Action(a))
		if got {
			sb.WriteByte('1')
			allowedSome = true
		} else {
			sb.WriteByte('0')
			deniedSome = true
		}
		if got != specAuthorize(c, a) {
			cls := "allows"
			if !got {
				cls = "denies"
			}
			s.Fail("C34/authorize-"+cls+"-against-rule", "Authorize "+cls+" although the stated rule says otherwise", c.header()+" action="+a)
		}
		s.Hit(decisiveBranch(c, a, got))
		if string(c.access.Visibility) == "system" && got != c.caller.IsSystem {
			s.Fail("C34/system-visibility", "a system-visibility resource is not decided by the caller's system flag alone", c.header()+" action="+a)
		}
	}
	s.Op("auth "+toks(d.actions), sb.String())
	// CheckPolicy / CanPerformAction / EnforcePolicy
	sb.Reset()
	for i, n := range d.names {
		if i > 0 {
			sb.WriteByte(' ')
		}
		for _, a := range d.actions {
			err := sop.CheckPolicy(ctx, n, c.access, sop.Action(a))
			ch := byte('?')
			switch err {
			case nil:
				ch = 'o'
			case sop.ErrSystemReadOnly:
				ch = 'r'
			case sop.ErrUnauthorized:
				ch = 'u'
			}
			sb.WriteByte(ch)
			if (err == nil) != specPolicy(c, n, a) {
				if err == nil && sop.IsSystemReadOnly(n) && (a == "write" || a == "delete") {
					s.Fail("C34/core-resource-writable", "a core system resource can be written or deleted", c.header()+" name="+n+" action="+a)
				} else {
					s.Fail("C34/policy-against-rule", "CheckPolicy decides against the stated rule", c.header()+" name="+n+" action="+a)
				}
			}
			if sop.CanPerformAction(ctx, n, c.access, sop.Action(a)) != (err == nil) || (sop.EnforcePolicy(ctx, n, c.access, sop.Action(a)) == nil) != (err == nil) {
				s.Fail("C34/entry-points-disagree", "CanPerformAction/EnforcePolicy disagree with CheckPolicy", c.header()+" name="+n+" action="+a)
			}
			if ch == 'r' {
				s.Hit("policy_core_readonly_denied")
			}
		}
	}
	s.Op("pol "+toks(d.names)+" "+toks(d.actions), sb.String())
	// ResolveRBACMap
	for _, bi := range bps {
		b := blueprints[bi]
		for ni, n := range d.names {
			if ni != 0 && ni != len(d.names)-1 {
				continue // first (core) and last (ordinary) name
			}
			acc := c.access
			var get func() sop.ResourceAccess
			accTok := "acc"
			if withNilAccess && bi%2 == 1 {
				accTok = "nil"
				acc = sop.ResourceAccess{}
			} else {
				get = func() sop.ResourceAccess { return c.access }
			}
			m := sop.ResolveRBACMap(ctx, b.name, sop.EntitlementContext{AssetID: n, UserID: c.caller.UserID}, get)
			s.Op(fmt.Sprintf("map %s %s %s", tok(n), accTok, b.opArgs()), showMap(m))
			s.Hit("map_" + b.name)
			if b.eval == nil {
				// the UI map agrees with enforcement (for the last action that maps to each capability)
				last := map[sop.UICapability]sop.Action{}
				for _, a := range b.actions {
					last[sop.ActionToUICapability(a)] = a
				}
				if len(m) != len(last) {
					s.Fail("C34/ui-map-keys", "the capability map does not have one entry per capability of the blueprint", c.header()+" "+b.name)
				}
				for cp, a := range last {
					if m[cp] != (sop.CheckPolicy(ctx, n, acc, a) == nil) {
						s.Fail("C34/ui-disagrees-with-enforcement", "the UI capability map disagrees with CheckPolicy", c.header()+" "+b.name+" name="+n+" action="+string(a))
					}
				}
			}
		}
	}
	if allowedSome && deniedSome {
		s.Hit("case_mixed_decisions")
	} else if allowedSome {
		s.Hit("case_all_allowed")
	} else {
		s.Hit("case_all_denied")
	}
	switch {
	case string(c.access.Visibility) == "system":
		s.Hit("branch_system")
	case has(c.caller.Roles, sop.RoleAdmin):
		s.Hit("branch_admin")
	case c.access.OwnerID != "" && c.access.OwnerID == c.caller.UserID:
		s.Hit("branch_owner")
	default:
		s.Hit("branch_public_or_grants")
	}
	// non-trivial: the decision is not settled by the system flag or the admin short cut alone
	if string(c.access.Visibility) != "system" && !has(c.caller.Roles, sop.RoleAdmin) {
		s.Nontrivial()
	}
}

func subsets(l []string) [][]string {
	var out [][]string
	for m := 0; m < 1<<len(l); m++ {
		var sub []string
		for i, x := range l {
			if m&(1<<i) != 0 {
				sub = append(sub, x)
			}
		}
		out = append(out, sub)
	}
	return out
}

func run(o hx.RunOpts) error {
	core, err := coreNames()
	if err != nil {
		return err
	}
	if len(core) == 0 {
		return fmt.Errorf("no core resource names found in IsSystemReadOnly")
	}
	s := hx.NewSession(o, "cases: one case = (caller, resource ACL); every case evaluates the real sop.Authorize over 7 actions, sop.CheckPolicy/CanPerformAction/EnforcePolicy over "+
		"names x actions and sop.ResolveRBACMap over blueprints. COMPLETE enumeration of the abstract domain: roles = every subset of {Admin,User,Guest,x}; user in {'',a,b}; system flag; "+
		"visibility in {public,private,system,'',unknown}; owner in {'',a,b}; Roles grant map in {nil, one key User|x with [write]|[read,delete]|[*]|[other]|[], two keys}; Users grant map likewise over keys a,'',b; "+
		"names = the core names, their lower-case variants, an ordinary name; actions = read,write,delete,list,ai_select,an unknown action,'*'. "+
		"thorough adds random compositions (longer role lists with repeats, several grants, case variants, nil access). distinct = canonical op-line hash; "+
		"non-trivial = the decision is not settled by system visibility or the Admin short cut")
	d := domain{actions: []string{string(sop.ActionRead), string(sop.ActionWrite), string(sop.ActionDelete), string(sop.ActionList), string(sop.ActionAISelect), "exec", "*"}}
	d.names = append(d.names, core...)
	for _, c := range core {
		if l := strings.ToLower(c); l != c {
			d.names = append(d.names, l)
		}
	}
	d.names = append(d.names, "inventory")
	registerBlueprints([]string{"exec"})

	roleSets := subsets([]string{sop.RoleAdmin, sop.RoleUser, sop.RoleGuest, "x"})
	users := []string{"", "a", "b"}
	vis := []sop.Visibility{sop.VisibilityPublic, sop.VisibilityPrivate, sop.VisibilitySystem, "", "internal"}
	owners := []string{"", "a", "b"}
	grantLists := [][]string{{"write"}, {"read", "delete"}, {"*"}, {"other"}, {}}
	var roleMaps, userMaps []map[string][]string
	roleMaps = append(roleMaps, nil)
	userMaps = append(userMaps, nil)
	for _, g := range grantLists {
		roleMaps = append(roleMaps, map[string][]string{sop.RoleUser: g}, map[string][]string{"x": g})
		userMaps = append(userMaps, map[string][]string{"a": g}, map[string][]string{"": g})
	}
	roleMaps = append(roleMaps, map[string][]string{sop.RoleUser: {"list"}, "x": {"ai_select", "write"}}, map[string][]string{sop.RoleGuest: {"*"}, sop.RoleAdmin: {}})
	userMaps = append(userMaps, map[string][]string{"b": {"*"}, "a": {"exec"}}, map[string][]string{"b": {"delete"}})

	// directed corpus first: the dozen hand cases of rbac_test.go and the edges the property names
	directed := []caseIn{
		{sop.AuthContext{UserID: "a", Roles: []string{sop.RoleAdmin}, IsSystem: true}, sop.ResourceAccess{Visibility: sop.VisibilityPublic}}, // core names stay read-only even for system+admin
		{sop.AuthContext{UserID: "a", Roles: []string{sop.RoleAdmin}}, sop.ResourceAccess{Visibility: sop.VisibilitySystem, OwnerID: "a"}},   // admin+owner denied on system visibility
		{sop.AuthContext{IsSystem: true}, sop.ResourceAccess{Visibility: sop.VisibilitySystem}},                                              // system caller
		{sop.AuthContext{}, sop.ResourceAccess{}}, // anonymous on a zero ACL: read and list only
		{sop.AuthContext{}, sop.ResourceAccess{Visibility: sop.VisibilityPrivate, Users: map[string][]string{"": {"*"}}}}, // a grant to the empty user id applies to anonymous callers
		{sop.AuthContext{UserID: "a", Roles: []string{"admin"}}, sop.ResourceAccess{Visibility: sop.VisibilityPrivate}},   // role names are case sensitive
		{sop.AuthContext{UserID: "b", Roles: []string{sop.RoleUser}}, sop.ResourceAccess{Visibility: sop.VisibilityPrivate, OwnerID: "a", Roles: map[string][]string{sop.RoleUser: {"write"}}}},
	}
	allBps := []int{0, 1, 2, 3, 4, 5, 6}
	for _, c := range directed {
		evalCase(s, c, d, allBps, false)
		s.Hit("directed")
	}
	n := 0
	for _, rs := range roleSets {
		for _, u := range users {
			for sys := 0; sys < 2; sys++ {
				for _, v := range vis {
					for _, ow := range owners {
						for _, rm := range roleMaps {
							for _, um := range userMaps {
								c := caseIn{sop.AuthContext{UserID: u, Roles: rs, IsSystem: sys == 1}, sop.ResourceAccess{Visibility: v, OwnerID: ow, Roles: rm, Users: um}}
								// blueprints rotate over the cases: every blueprint meets every 7th case; std always
								evalCase(s, c, d, []int{0, 1 + n%6}, false)
								n++
							}
						}
					}
				}
			}
		}
	}
	s.Rep.Exhaustive = true
	s.Rep.Extra = map[string]any{"enumerated_domain_cases": n, "decisions_per_case": len(d.actions) * (1 + len(d.names))}

	if o.Thorough() {
		p := hx.NewPrng(o.Seed)
		rolePool := []string{sop.RoleAdmin, sop.RoleUser, sop.RoleGuest, "x", "admin", "ADMIN", "Admin2", "", "*"}
		userPool := []string{"", "a", "b", "A", "*", "root"}
		visPool := []sop.Visibility{sop.VisibilityPublic, sop.VisibilityPrivate, sop.VisibilitySystem, "", "internal", "Public", "SYSTEM", "System"}
		actPool := []string{"read", "write", "delete", "list", "ai_select", "exec", "*", "Read", "", "other"}
		pick := func(pool []string) string { return pool[p.Intn(len(pool))] }
		genMap := func(keys []string) map[string][]string {
			if p.Chance(1, 4) {
				return nil
			}
			m := map[string][]string{}
			for k := p.Intn(4); k > 0; k-- {
				var acts []string
				for j := p.Intn(4); j > 0; j-- {
					acts = append(acts, pick(actPool))
				}
				m[pick(keys)] = acts
			}
			return m
		}
		for i := 0; i < 300000*o.Scale; i++ {
			var roles []string
			for k := p.Intn(5); k > 0; k-- {
				roles = append(roles, pick(rolePool))
			}
			c := caseIn{sop.AuthContext{UserID: pick(userPool), Roles: roles, IsSystem: p.Chance(1, 3)},
				sop.ResourceAccess{Visibility: visPool[p.Intn(len(visPool))], OwnerID: pick(userPool), Roles: genMap(rolePool), Users: genMap(userPool)}}
			dd := d
			dd.actions = append(append([]string{}, d.actions...), "Read", "")
			evalCase(s, c, dd, []int{p.Intn(7), p.Intn(7)}, true)
			s.Hit("random")
		}
	}
	return s.Finish()
}
