// Command c35 generates create/refresh/revoke/validate scripts with token mutations and clock positions, runs
// them against the real SessionStore of tools/httpserver (package main: reached by compiling an overlay test
// file into the package, in workspace mode with a private go.work outside the repository) and writes the line
// protocol for the Lean model Sop.Auth. The direct oracle evaluates the property on the real answers.
package main

import (
	"bufio"
	"encoding/json"
	"fmt"
	"os"
	"os/exec"
	"path/filepath"
	"strconv"
	"strings"

	"verifharness/hx"
)

func main() { hx.Main(drive, "", nil, nil) }

type tcase struct {
	hdr string
	ops []string
	tag string
}

// ---- running the real code ----

func repoDir() string {
	if r := os.Getenv("VERIF_REPO"); r != "" {
		return r
	}
	return "/repo"
}

func verifRoot() string {
	if r := os.Getenv("VERIF_ROOT"); r != "" {
		return r
	}
	return "/verif"
}

func gitStatus(repo string) string {
	out, err := exec.Command("git", "-C", repo, "status", "--porcelain").CombinedOutput()
	if err != nil {
		return "git-error: " + err.Error()
	}
	return string(out)
}

// runScript compiles the package's test binary (overlay test file injected, private go.work) and replays the
// script. Nothing is written under the repository: the binary, the databases and the logs live in scratch.
func runScript(cases []tcase) ([][]string, string, error) {
	repo := repoDir()
	scratch, err := os.MkdirTemp(hx.WorkRoot(), "c35-")
	if err != nil {
		return nil, "", err
	}
	defer os.RemoveAll(scratch)
	before := gitStatus(repo)
	mods := []string{".", "adapters/cassandra", "adapters/redis", "ai", "incfs", "infs", "jsondb", "search"}
	var gw strings.Builder
	gw.WriteString("go 1.26.4\n\nuse (\n")
	for _, m := range mods {
		gw.WriteString("\t" + filepath.Join(repo, m) + "\n")
	}
	gw.WriteString(")\n")
	if err := os.WriteFile(filepath.Join(scratch, "go.work"), []byte(gw.String()), 0o644); err != nil {
		return nil, "", err
	}
	if b, err := os.ReadFile(filepath.Join(repo, "go.work.sum")); err == nil {
		os.WriteFile(filepath.Join(scratch, "go.work.sum"), b, 0o644)
	}
	ov := map[string]map[string]string{"Replace": {
		filepath.Join(repo, "tools/httpserver/zz_verif_c35_test.go"): filepath.Join(verifRoot(), "harness/overlay/tools/httpserver/zz_verif_c35_test.go"),
	}}
	ob, _ := json.Marshal(ov)
	ovPath := filepath.Join(scratch, "overlay.json")
	os.WriteFile(ovPath, ob, 0o644)
	gobin := os.Getenv("VERIF_GO")
	if gobin == "" {
		gobin = "go1.26.8"
	}
	env := []string{}
	for _, e := range os.Environ() {
		k := strings.SplitN(e, "=", 2)[0]
		switch k {
		case "GOFLAGS", "GOWORK", "GOPROXY", "GOSUMDB", "GOTOOLCHAIN", "SOP_SESSION_SECRET":
		default:
			env = append(env, e)
		}
	}
	env = append(env, "GOWORK="+filepath.Join(scratch, "go.work"), "GOFLAGS=-mod=readonly", "GOPROXY=off", "GOSUMDB=off", "GOTOOLCHAIN=local")
	bin := filepath.Join(scratch, "c35.test")
	cmd := exec.Command(gobin, "test", "-c", "-vet=off", "-o", bin, "-overlay", ovPath, "-tags", "verif", filepath.Join(repo, "tools/httpserver"))
	cmd.Env = env
	cmd.Dir = scratch
	if out, err := cmd.CombinedOutput(); err != nil {
		return nil, "", fmt.Errorf("building the tools/httpserver test binary: %v\n%s", err, tail(string(out), 3000))
	}
	script := filepath.Join(scratch, "script.txt")
	f, err := os.Create(script)
	if err != nil {
		return nil, "", err
	}
	w := bufio.NewWriter(f)
	for i, c := range cases {
		fmt.Fprintf(w, "case %d %s\n", i+1, c.hdr)
		for _, o := range c.ops {
			fmt.Fprintln(w, o)
		}
	}
	w.Flush()
	f.Close()
	outPath := filepath.Join(scratch, "impl.txt")
	run := exec.Command(bin, "-test.run", "^TestVerifC35$", "-test.count=1", "-test.timeout=100m")
	run.Dir = scratch
	run.Env = append(env, "VERIF_C35_SCRIPT="+script, "VERIF_C35_OUT="+outPath, "VERIF_C35_TMP="+scratch)
	logf, _ := os.Create(filepath.Join(scratch, "test.log"))
	run.Stdout, run.Stderr = logf, logf
	err = run.Run()
	logf.Close()
	if err != nil {
		lg, _ := os.ReadFile(filepath.Join(scratch, "test.log"))
		return nil, "", fmt.Errorf("running the overlay test: %v\n%s", err, tail(string(lg), 3000))
	}
	b, err := os.ReadFile(outPath)
	if err != nil {
		return nil, "", err
	}
	var res [][]string
	for _, l := range strings.Split(strings.TrimRight(string(b), "\n"), "\n") {
		if strings.HasPrefix(l, "case ") {
			res = append(res, nil)
			continue
		}
		if len(res) == 0 {
			return nil, "", fmt.Errorf("output before the first case: %q", l)
		}
		res[len(res)-1] = append(res[len(res)-1], l)
	}
	after := gitStatus(repo)
	note := "repository tree unchanged by the run (git status identical before and after)"
	if before != after {
		return nil, "", fmt.Errorf("the run changed the repository tree:\nbefore:\n%s\nafter:\n%s", before, after)
	}
	return res, note, nil
}

func tail(s string, n int) string {
	if len(s) > n {
		return s[len(s)-n:]
	}
	return s
}

// ---- generator (keeps a specification-level reference only to aim the ops; the oracle below re-derives
// everything from the real answers) ----

type sess struct {
	j        int
	hasR     bool
	exp      int64 // specification: issue instant + ttl
	rexp     int64
	dead     bool // revoked, rotated or cleaned up (as far as the generator guesses)
	user     int
	role     int
	secretNo int
}

type gen struct {
	p        *hx.Prng
	ttl      int64
	rttl     int64
	T        int64
	j        int
	secret   int
	sessions []*sess
	instants map[int64]bool
	ops      []string
}

func (g *gen) emit(f string, a ...any) { g.ops = append(g.ops, fmt.Sprintf(f, a...)) }

func (g *gen) advance() {
	cands := []int64{60, 300, g.ttl - 60, g.ttl + 60, 2 * g.ttl, g.rttl - 120, g.rttl + 60}
	for try := 0; try < 6; try++ {
		d := cands[g.p.Intn(len(cands))]
		if g.p.Chance(1, 2) {
			d = cands[g.p.Intn(4)]
		}
		if d <= 0 || g.instants[g.T+d] {
			continue
		}
		g.T += d
		return
	}
}

func (g *gen) create(session bool) {
	g.j++
	u, r := g.p.Intn(4), g.p.Intn(4)
	if g.p.Chance(3, 4) {
		u, r = 1+g.p.Intn(3), 1+g.p.Intn(3)
	}
	s := &sess{j: g.j, hasR: session, exp: g.T + g.ttl, rexp: g.T + g.rttl, user: u, role: r, secretNo: g.secret}
	g.sessions = append(g.sessions, s)
	g.instants[s.exp], g.instants[s.rexp] = true, true
	if session {
		g.emit("cs %d %d %d", g.T, u, r)
	} else {
		g.emit("ct %d %d %d", g.T, u, r)
	}
}

var accessMut = []string{"sig", "pay", "hdr", "ws", "trunc2", "resignD", "resignS0", "resignS7", "resignS5"}

func (g *gen) tokenExpr(preferRefresh bool) string {
	if len(g.sessions) == 0 || g.p.Chance(1, 14) {
		e := fmt.Sprintf("X%d", g.p.Intn(3))
		if g.p.Chance(1, 3) {
			e += "~x"
		}
		return e
	}
	s := g.sessions[g.p.Intn(len(g.sessions))]
	if g.p.Chance(2, 3) { // recent sessions matter most
		s = g.sessions[len(g.sessions)-1-g.p.Intn(min(2, len(g.sessions)))]
	}
	useR := s.hasR && (preferRefresh && g.p.Chance(4, 5) || !preferRefresh && g.p.Chance(1, 5))
	if useR {
		e := fmt.Sprintf("R%d", s.j)
		if g.p.Chance(1, 8) {
			e += "~x"
		}
		return e
	}
	e := fmt.Sprintf("A%d", s.j)
	if !preferRefresh && g.p.Chance(2, 5) || preferRefresh && g.p.Chance(1, 6) {
		e += "~" + accessMut[g.p.Intn(len(accessMut))]
	}
	return e
}

func (g *gen) refresh() {
	e := g.tokenExpr(true)
	g.j++
	g.emit("ref %d %s", g.T, e)
	// a refresh that may have succeeded defines A<j>/R<j>; the statement says the new access token is valid now
	s := &sess{j: g.j, hasR: true, exp: g.T + g.ttl, rexp: 0, secretNo: g.secret}
	g.sessions = append(g.sessions, s)
	g.instants[s.exp] = true
	g.emit("val %d A%d", g.T, g.j)
	if g.p.Chance(1, 2) {
		g.emit("ref %d %s", g.T, e) // the old refresh token must have stopped working
		g.j++
		g.sessions = append(g.sessions, &sess{j: g.j, hasR: true, exp: g.T + g.ttl, secretNo: g.secret})
	}
}

func (g *gen) core() {
	if g.p.Chance(35, 100) {
		g.advance()
	}
	switch x := g.p.Intn(100); {
	case x < 22 || len(g.sessions) == 0:
		g.create(true)
	case x < 27:
		g.create(false)
	case x < 57:
		g.emit("val %d %s", g.T, g.tokenExpr(false))
	case x < 79:
		g.refresh()
	case x < 93:
		e := g.tokenExpr(g.p.Chance(1, 2))
		g.emit("rev %d %s", g.T, e)
		// revocation must take effect at once: look at the session's own tokens
		if b := strings.SplitN(e, "~", 2); len(b) == 1 && (e[0] == 'A' || e[0] == 'R') {
			g.emit("val %d A%s", g.T, e[1:])
		}
	default:
		g.secret = []int{0, 5, 6}[g.p.Intn(3)]
		g.emit("secret %d %d", g.T, g.secret)
	}
}

func genCase(p *hx.Prng, n int) tcase {
	g := &gen{p: p, ttl: []int64{600, 1800, 3600}[p.Intn(3)], rttl: []int64{7200, 604800}[p.Intn(2)], instants: map[int64]bool{}}
	g.secret = []int{5, 5, 6, 0}[p.Intn(4)]
	hdr := fmt.Sprintf("%d %d %d", g.secret, g.ttl, g.rttl)
	for i := 0; i < n; i++ {
		g.core()
	}
	// closing sweep: every token the case has seen, then the table
	if p.Chance(1, 2) {
		g.advance()
	}
	for _, s := range g.sessions {
		g.emit("val %d A%d", g.T, s.j)
		if s.hasR {
			g.emit("val %d R%d", g.T, s.j)
		}
	}
	g.emit("dump %d", g.T)
	return tcase{hdr: hdr, ops: g.ops, tag: "gen"}
}

func corpus() []tcase {
	return []tcase{
		{"5 1800 604800", []string{"cs 0 1 1", "val 0 A1", "rev 0 A1", "val 0 A1", "ref 0 R1", "dump 0"}, "corpus_revoke_then_validate"},
		{"5 1800 604800", []string{"cs 0 1 1", "ref 1860 R1", "val 1860 A2", "val 1860 R1", "ref 1860 R1", "dump 1860"}, "corpus_refresh_after_access_expiry"},
		{"5 1800 604800", []string{"cs 0 2 2", "val 0 R1", "val 60 R1~x", "dump 60"}, "corpus_refresh_token_as_access_token"},
		{"5 1800 604800", []string{"cs 0 1 1", "ref 60 R1", "val 60 A2", "val 60 A1", "ref 60 R1", "dump 60"}, "corpus_rotated_access_token"},
		{"5 1800 604800", []string{"cs 0 1 2", "secret 0 6", "val 0 A1", "val 0 A1~resignS5", "cs 0 2 2", "val 0 A3", "dump 0"}, "corpus_secret_changed"},
		{"0 1800 604800", []string{"cs 0 1 2", "val 0 A1~resignD", "val 0 A1~sig", "val 0 A1~pay", "val 0 A1~hdr", "val 0 A1~ws", "val 0 A1~trunc2", "val 0 A1~resignS7", "dump 0"}, "corpus_default_secret_forgery"},
		{"5 1800 604800", []string{"cs 0 1 2", "val 0 A1~resignD", "val 0 A1~sig", "val 0 A1~pay", "val 0 A1~hdr", "val 0 A1~ws", "val 0 A1~trunc2", "val 0 A1~resignS7", "val 0 X1", "dump 0"}, "corpus_mutations_configured_secret"},
		{"5 1800 604800", []string{"cs 0 1 1", "val 1860 A1", "ref 1860 R1", "dump 1860"}, "corpus_expired_validation_removes_refresh_token"},
		{"5 1800 604800", []string{"cs 0 1 1", "ref 0 A1", "val 0 A2", "val 0 A1", "dump 0"}, "corpus_access_token_used_as_refresh_token"},
		{"5 600 7200", []string{"ct 0 3 3", "val 0 A1", "ref 0 A1", "val 0 A1", "dump 0", "cs 0 0 0", "val 0 A3", "val 660 A3", "dump 660"}, "corpus_create_token_and_empty_identity"},
		{"5 600 7200", []string{"cs 0 1 1", "ref 7260 R1", "val 7260 A1", "dump 7260"}, "corpus_refresh_token_expired"},
		// thorough seed 1 false alarm, minimised: the refreshed token (empty role: store fallback only) is valid when issued;
		// the refresh lifetime is inherited (7200), so Refresh(R2) at 7380 answers "expired refresh token" and its cleanup
		// removes A2 (expiry 10680) too. With a non-empty role the signed fast path keeps accepting A2.
		{"0 3600 7200", []string{"cs 0 2 0", "ref 7080 R1", "val 7080 A2", "val 7140 A2", "ref 7380 R2", "val 7440 A2", "dump 7440"}, "corpus_expired_refresh_cleanup_removes_unexpired_access_token"},
		{"0 3600 7200", []string{"cs 0 2 1", "ref 7080 R1", "val 7080 A2", "ref 7380 R2", "val 7440 A2", "dump 7440"}, "corpus_expired_refresh_cleanup_signed_token_survives"},
	}
}

// ---- the direct oracle: the property evaluated on the real answers ----

type issuedTok struct {
	user, role string
	exp        int64
	secretNo   int
	revoked    bool
	rotated    bool
	cleanedUp  bool // the code's own answer "expired refresh token" shows that Refresh's cleanup removed this session's records
}

func evaluate(s *hx.Session, c tcase, outs []string) {
	parts := strings.Fields(c.hdr)
	secret, _ := strconv.Atoi(parts[0])
	ttl, _ := strconv.ParseInt(parts[1], 10, 64)
	rttl, _ := strconv.ParseInt(parts[2], 10, 64)
	acc := map[int]*issuedTok{} // A<j>
	hasR := map[int]bool{}
	pairOf := func(name string) (int, bool) { // session index of A<j>/R<j>
		j, err := strconv.Atoi(name[1:])
		return j, err == nil
	}
	j := 0
	var lastRefreshed, lastRefreshArg string
	var lastRefreshedAt int64 // the instant of the successful Refresh that returned lastRefreshed
	for i, op := range c.ops {
		out := outs[i]
		s.Op(op, out)
		f := strings.Fields(op)
		T, _ := strconv.ParseInt(f[1], 10, 64)
		if strings.HasPrefix(out, "harness-error") || strings.HasPrefix(out, "err:other") || out == "bad-op" {
			s.Fail("C35/harness", "the overlay test could not run an op", op+" -> "+out)
			continue
		}
		switch f[0] {
		case "ct", "cs":
			j++
			if out == "ok" {
				acc[j] = &issuedTok{user: f[2], role: f[3], exp: T + ttl, secretNo: secret}
				hasR[j] = f[0] == "cs"
			}
			s.Hit("op_" + f[0])
		case "secret":
			secret, _ = strconv.Atoi(f[2])
			s.Hit("op_secret")
		case "rev":
			s.Hit("op_revoke")
			if b := strings.Split(f[2], "~"); len(b) == 1 && (b[0][0] == 'A' || b[0][0] == 'R') {
				if k, ok := pairOf(b[0]); ok && acc[k] != nil && (b[0][0] == 'A' || hasR[k]) {
					acc[k].revoked = true
					s.Hit("revoke_issued_token")
					s.Nontrivial()
				}
			}
		case "ref":
			j++
			s.Hit("op_refresh")
			b := strings.Split(f[2], "~")
			if out == "ok" {
				s.Hit("refresh_ok")
				s.Nontrivial()
				k, ok := pairOf(b[0])
				if len(b) != 1 || b[0][0] == 'X' || !ok || acc[k] == nil {
					s.Fail("C35/refresh-with-foreign-token", "Refresh accepted a token the server did not issue", op)
					break
				}
				if f[2] == lastRefreshArg {
					s.Fail("C35/old-refresh-token-still-works", "a refresh token already used for a successful Refresh was accepted again", op)
				}
				if b[0][0] == 'A' {
					s.Hit("refresh_accepts_access_token")
				}
				if acc[k].revoked {
					s.Fail("C35/refresh-after-revoke", "Refresh succeeded with a token of a session that RevokeToken had torn down", op)
				}
				if T > acc[k].exp-ttl+rttl {
					s.Fail("C35/refresh-after-refresh-expiry", "Refresh succeeded after the refresh lifetime", op)
				}
				if T > acc[k].exp {
					s.Hit("refresh_after_access_expiry")
				}
				old := acc[k]
				old.rotated = true
				acc[j] = &issuedTok{user: old.user, role: old.role, exp: T + ttl, secretNo: secret}
				hasR[j] = true
				lastRefreshed, lastRefreshArg, lastRefreshedAt = fmt.Sprintf("A%d", j), f[2], T
			} else {
				s.Hit("refresh_" + out)
				// "expired refresh token" is answered only after Refresh found the presented key in the table and ran
				// removeSessionRecord on the record under it: the session of that (unmodified, issued) token is torn down
				// by the code's cleanup from here on - its access token may have an expiry of its own that is later
				// (Refresh hands out a full ttl but the refresh lifetime is inherited from the first session).
				if out == "err:expired-refresh" && len(b) == 1 && (b[0][0] == 'A' || b[0][0] == 'R') {
					if k, ok := pairOf(b[0]); ok && acc[k] != nil && (b[0][0] == 'A' || hasR[k]) {
						acc[k].cleanedUp = true
						s.Hit("expired_refresh_cleanup_of_issued_session")
						if T <= acc[k].exp {
							s.Hit("expired_refresh_cleanup_removes_unexpired_access_token")
						}
					}
				}
			}
		case "val":
			s.Hit("op_validate")
			b := strings.Split(f[2], "~")
			if len(b) == 2 {
				s.Hit("mutation_" + b[1])
				s.Nontrivial()
			}
			if !strings.HasPrefix(out, "user ") {
				s.Hit("validate_" + out)
				if f[2] == lastRefreshed {
					k, _ := pairOf(b[0])
					switch t := acc[k]; {
					case t == nil || t.revoked || t.cleanedUp:
						// torn down by an earlier op of this history (RevokeToken, or the cleanup Refresh runs when it is
						// presented with the session's expired refresh token): the statement promises nothing for it any more
						if t != nil && t.cleanedUp && !t.revoked {
							s.Hit("refreshed_token_rejected_after_expired_session_cleanup")
						}
					case T == lastRefreshedAt:
						s.Fail("C35/refreshed-token-invalid-when-issued", "the access token returned by a successful Refresh does not validate at the instant it was issued", op+" -> "+out)
					case T <= t.exp:
						// later than the statement's "valid when issued", kept so that nothing the oracle used to catch is lost
						s.Fail("C35/refreshed-token-invalid-before-its-expiry", fmt.Sprintf("the access token returned by the successful Refresh at %d is rejected at %d, before its expiry %d, although no RevokeToken, no later Refresh and no expired-session cleanup touched its session", lastRefreshedAt, T, t.exp), op+" -> "+out)
					}
				}
				break
			}
			s.Hit("validate_ok")
			got := strings.Fields(out)
			k, ok := pairOf(b[0])
			switch {
			case len(b) == 2 && (b[1] == "resignD" || b[1] == "resignS0") && secret == 0:
				s.Fail("C35/forgery-with-built-in-default-secret", "no session secret is configured, so the server signs with the constant in the source; a token forged with that constant (role admin, later expiry) is accepted", op+" -> "+out)
			case len(b) == 2 && strings.HasPrefix(b[1], "resignS") && b[1] != "resignS0" && b[1] == fmt.Sprintf("resignS%d", secret):
				// the forger holds the server's current secret: outside what any MAC can promise (and outside the hypothesis)
				s.Hit("forged_with_the_current_secret_out_of_scope")
			case len(b) == 2 || b[0][0] == 'X' || !ok:
				s.Fail("C35/forged-or-modified-token-accepted", "a token the server did not issue (modified, truncated or re-signed) is accepted", op+" -> "+out)
			case b[0][0] == 'R':
				s.Fail("C35/refresh-token-accepted-as-access-token", "ValidateToken accepts a refresh token through the store fallback", op+" -> "+out)
			case acc[k] == nil:
				s.Fail("C35/unissued-name-accepted", "a token name that was never issued validated", op)
			case T > acc[k].exp:
				s.Fail("C35/expired-token-accepted", "an access token is accepted after its expiry", op+" -> "+out)
			case got[1] != acc[k].user || got[2] != acc[k].role:
				s.Fail("C35/wrong-identity", "ValidateToken returned another identity than the token was issued for", op+" -> "+out)
			case acc[k].revoked:
				s.Fail("C35/revoked-token-validates-via-signed-fast-path", "ValidateToken(access) returns a user after RevokeToken tore the session down: the signed fast path never consults the session table", op+" -> "+out)
			case acc[k].rotated:
				s.Fail("C35/rotated-token-validates-via-signed-fast-path", "the access token replaced by a successful Refresh keeps validating until its own expiry (signed fast path)", op+" -> "+out)
			case acc[k].secretNo != secret:
				s.Fail("C35/old-secret-token-validates-via-store-fallback", "after the session secret was changed an access token signed with the previous secret still validates through the store fallback", op+" -> "+out)
			default:
				s.Hit("validate_ok_legitimate")
			}
		case "dump":
			s.Hit("op_dump")
		}
	}
	s.Hit(c.tag)
}

func drive(o hx.RunOpts) error {
	s := hx.NewSession(o, "cases: a directed corpus (one per known mechanism), then generated scripts of up to 5 (thorough 6) core operations "+
		"- CreateSession / CreateToken / Refresh / RevokeToken / ValidateToken / secret change - with clock advances chosen around the access and refresh expiries, "+
		"token mutations (signature, payload, header, payload re-encoding, truncation, re-signing with the default and with other secrets, unknown opaque strings), "+
		"each Refresh followed by a validation of the new token, each case closed by validating every token seen and dumping the session table; "+
		"run on the real SessionStore over a fresh temp database. distinct = canonical op-line hash; non-trivial = the case contains a successful Refresh, "+
		"a revocation of an issued token, or a mutated token")
	p := hx.NewPrng(o.Seed)
	cases := corpus()
	n := o.N(300, 12000)
	maxLen := 5
	if o.Thorough() {
		maxLen = 6
	}
	for i := 0; i < n; i++ {
		q := p.Fork()
		cases = append(cases, genCase(q, 1+q.Intn(maxLen)))
	}
	res, note, err := runScript(cases)
	if err != nil {
		return err
	}
	if len(res) != len(cases) {
		return fmt.Errorf("overlay test answered %d cases, expected %d", len(res), len(cases))
	}
	for i, c := range cases {
		if len(res[i]) != len(c.ops) {
			return fmt.Errorf("case %d: %d answers for %d ops", i+1, len(res[i]), len(c.ops))
		}
		s.BeginCase(c.hdr)
		evaluate(s, c, res[i])
	}
	s.Rep.Notes = append(s.Rep.Notes, note)
	return s.Finish()
}
