package main

import (
	"context"
	"fmt"
	"os"
	"sort"
	"strconv"
	"strings"
	"sync"
	"time"

	"github.com/sharedcode/sop"
	"github.com/sharedcode/sop/cache"
	"github.com/sharedcode/sop/common"

	"verifharness/commitx"
	"verifharness/hx"
	"verifharness/txk"
)

func main() { hx.Main(run, "", nil, nil) }

// ev is one backend call of one transaction, in global order.
type ev struct {
	txn       int
	line      string
	performed bool // the call took effect (no fault, or failAfter)
}

func parseImgs(body string) map[string]string {
	out := map[string]string{}
	for _, f := range strings.Fields(body) {
		parts := strings.Split(f, ":")
		if len(parts) == 7 {
			out[parts[0]] = f
		}
	}
	return out
}

func between(l, open, close string) string {
	i := strings.Index(l, open)
	if i < 0 {
		return ""
	}
	r := l[i+len(open):]
	j := strings.Index(r, close)
	if j < 0 {
		return r
	}
	return r[:j]
}

func hasKey(l, lid string) bool {
	for _, k := range strings.Fields(between(l, "[", "]")) {
		if k == "lock:"+lid {
			return true
		}
	}
	return false
}

func hasID(l, id string) bool {
	for _, k := range strings.Split(between(l, "[", "]"), ",") {
		if strings.TrimSpace(k) == id {
			return true
		}
	}
	return false
}

// emitNode replays on the handle-protocol model everything the transactions did to ONE node (logical id `lid`).
// The model must show the same handle image after every step.
func emitNode(s *hx.Session, header, lid, initImg string, evs []ev) {
	s.BeginCase(header + " lid=" + lid)
	cur := initImg
	s.Op("init "+strings.ReplaceAll(initImg, ":", " "), initImg+" holder=- installs=0")
	holder := "-"
	installs := 0
	staged := map[int]string{} // txn -> reserved inactive id
	flipped := map[int]bool{}
	basedOn := map[string]int{} // version an install was based on -> installing transaction
	line := func() string { return fmt.Sprintf("%s holder=%s installs=%d", cur, holder, installs) }
	for _, e := range evs {
		l := e.line
		t := e.txn
		switch {
		case l == "FREE":
			s.Op("free", "ok")
		case l == "LOSE":
			holder = "-"
			s.Op("lose", line())
			s.Hit("lock_lost")
		case strings.HasPrefix(l, "l2.Lock ") || strings.HasPrefix(l, "l2.DualLock "):
			if !hasKey(l, lid) {
				continue
			}
			if e.performed && strings.Contains(l, "-> true") {
				holder = strconv.Itoa(t)
				s.Op(fmt.Sprintf("lock %d", t), line())
				s.Hit("lock")
			} else if strings.Contains(l, "-> false") {
				s.Op(fmt.Sprintf("lock %d", t), line()) // refused: the model must refuse too
				s.Hit("lock_refused")
			}
		case strings.HasPrefix(l, "l2.Unlock "):
			if !hasKey(l, lid) || !e.performed {
				continue
			}
			if holder == strconv.Itoa(t) {
				holder = "-"
			}
			s.Op(fmt.Sprintf("unlock %d", t), line())
			s.Hit("unlock")
		case strings.HasPrefix(l, "reg.Get "):
			if !e.performed || !strings.Contains(l, "->") {
				continue
			}
			imgs := parseImgs(between(l[strings.Index(l, "->"):], "[", "]"))
			if img, ok := imgs[lid]; ok && holder == strconv.Itoa(t) {
				if img != cur {
					s.Fail("C37/get-returned-other-image", "a transaction holding the node lock read an image that is not the last one written", fmt.Sprintf("lid %s: read %s, last written %s", lid, img, cur))
				}
				s.Op(fmt.Sprintf("get %d", t), line())
				s.Hit("get")
			}
		case strings.HasPrefix(l, "reg.UpdateNoLocks aon "):
			if !e.performed {
				continue
			}
			imgs := parseImgs(between(l, "[", "]"))
			img, ok := imgs[lid]
			if !ok {
				continue
			}
			f := strings.Split(img, ":")
			if f[6] == "1" && f[5] == "0" {
				continue // a removed node's final image: not the update protocol
			}
			base := "?"
			if v, err := strconv.Atoi(f[4]); err == nil {
				base = strconv.Itoa(v - 1)
			}
			if other, ok := basedOn[base]; ok && other != t {
				s.Fail("C37/two-successors-of-one-version", "two transactions both installed their own successor of the same version of a node",
					fmt.Sprintf("lid %s version %s: installed by transaction %d and by transaction %d; image before the second install %s, after %s", lid, base, other, t, cur, img))
			}
			basedOn[base] = t
			cur = img
			installs++
			flipped[t] = true
			s.Op(fmt.Sprintf("flip %d", t), line())
			s.Hit("flip")
			s.Nontrivial()
		case strings.HasPrefix(l, "reg.UpdateNoLocks [") || strings.HasPrefix(l, "reg.Update ["):
			if !e.performed {
				continue
			}
			imgs := parseImgs(between(l, "[", "]"))
			img, ok := imgs[lid]
			if !ok {
				continue
			}
			f := strings.Split(img, ":")
			inactive := f[2]
			if f[3] == "1" {
				inactive = f[1]
			}
			withLock := strings.HasPrefix(l, "reg.Update [")
			switch {
			case f[6] == "1":
				continue // marked removed: other protocol
			case inactive != "0" && f[5] == "t" && flipped[t]:
				// the transaction's own priority rollback after a failed phase 2: the pre-flip image comes back
				cur = img
				installs--
				flipped[t] = false
				for k, v := range basedOn {
					if v == t {
						delete(basedOn, k)
					}
				}
				s.Op(fmt.Sprintf("restore %d", t), line())
				s.Hit("restore")
			case inactive != "0" && f[5] == "t":
				// reservation: the image carries the version the transaction read and the fresh id
				s.Op(fmt.Sprintf("txn %d %s %s", t, f[4], inactive), "ok")
				cur = img
				staged[t] = inactive
				s.Op(fmt.Sprintf("reserve %d", t), line())
				s.Hit("reserve")
			default:
				// undo of a reservation (or a no-op clear); registry.Update takes the node's lock itself
				if pf := strings.Split(cur, ":"); len(pf) == 7 {
					pin := pf[2]
					if pf[3] == "1" {
						pin = pf[1]
					}
					if pin != "0" && staged[t] != pin {
						s.Hit("undo_of_foreign_reservation")
					}
				}
				if withLock {
					s.Op(fmt.Sprintf("lock %d", t), fmt.Sprintf("%s holder=%d installs=%d", cur, t, installs))
				}
				cur = img
				if withLock {
					s.Op(fmt.Sprintf("undo %d", t), fmt.Sprintf("%s holder=%d installs=%d", cur, t, installs))
					s.Op(fmt.Sprintf("unlock %d", t), line())
				} else {
					s.Op(fmt.Sprintf("undo %d", t), line())
				}
				s.Hit("undo")
			}
		case strings.HasPrefix(l, "blob.Add "):
			if id, ok := staged[t]; ok && e.performed && hasID(l, id) {
				s.Op(fmt.Sprintf("stage %d", t), line())
				s.Hit("stage")
			}
		case strings.HasPrefix(l, "plog.Add"):
			if _, ok := staged[t]; ok && e.performed {
				s.Op(fmt.Sprintf("logpre %d", t), line())
			}
		}
	}
}

func updatedLids(e *txk.Env, ws []common.VerifNode) []string {
	var out []string
	for _, n := range ws {
		if n.Action == "update" {
			out = append(out, e.Canon.ID(n.ID))
		}
	}
	sort.Strings(out)
	return out
}

func traceEvs(txn int, trace []string, failAfter bool) []ev {
	var out []ev
	for _, l := range trace {
		performed := true
		if strings.HasSuffix(l, "!err") {
			performed = failAfter
		}
		out = append(out, ev{txn, strings.TrimSuffix(l, " !err"), performed})
	}
	return out
}

func run(o hx.RunOpts) error {
	ctx := context.Background()
	p := hx.NewPrng(o.Seed)
	s := hx.NewSession(o, "per-node replay of real registry traffic on the handle-protocol model: (A) generated programs committed through the real code, fault-free and with one injected fault per run, followed by a second transaction making the same changes; (B) two real transactions updating the same node concurrently, the first parked at a chosen backend call while the second tries to commit; "+
		"for every node either transaction updates, its lock / Get / reservation / staging / flip / undo events in global order are fed to the model, which must show the same handle image after every step; oracle: two installs never start from one version, a lock holder reads the last written image. distinct = canonical case hash; non-trivial = at least one install on the node")
	// ---- (A)
	nprog := o.N(6, 40)
	for i := 0; i < nprog; i++ {
		pr := commitx.Gen(p.Fork())
		pr.SepVals = false
		base, err := commitx.Run(ctx, pr, "", 0, txk.None, false)
		if err != nil {
			return err
		}
		if base.SetupErr != nil || base.Res.OpenErr != nil {
			continue
		}
		emitObs(s, base, pr.Header()+" nofault")
		calls := commitx.CommitCalls(base.Res)
		occ := map[string]int{}
		for ci, name := range calls {
			occ[name]++
			if !strings.HasPrefix(name, "reg.") && !strings.HasPrefix(name, "blob.") && !strings.HasPrefix(name, "tlog.") && !strings.HasPrefix(name, "plog.") {
				continue
			}
			for _, kind := range []txk.Fault{txk.FailBefore, txk.FailAfter} {
				if !o.Thorough() && (ci+int(kind))%2 != i%2 {
					continue
				}
				ob, err := commitx.Run(ctx, pr, name, occ[name], kind, true)
				if err != nil {
					return err
				}
				emitObs(s, ob, fmt.Sprintf("%s %s#%d:%v", pr.Header(), name, occ[name], kind))
			}
		}
	}
	// ---- (B)
	npair := o.N(12, 80)
	for i := 0; i < npair; i++ {
		if err := pairCase(ctx, s, p.Fork(), i); err != nil {
			return err
		}
	}
	// ---- (C) the reservation as a claim: T1 finishes phase 1 and is parked before its flip, the lock service loses
	// every lock (cache restart), T2 - based on the same version - tries to commit, T1 is released
	nloss := o.N(4, 24)
	for i := 0; i < nloss; i++ {
		if err := lockLossCase(ctx, s, p.Fork(), i); err != nil {
			return err
		}
	}
	return s.Finish()
}

func emitObs(s *hx.Session, ob *commitx.Obs, header string) {
	e := ob.Env
	lids := updatedLids(e, ob.Res.WriteSet)
	if ob.Retry != nil {
		for _, l := range updatedLids(e, ob.Retry.WriteSet) {
			found := false
			for _, x := range lids {
				if x == l {
					found = true
				}
			}
			if !found {
				lids = append(lids, l)
			}
		}
	}
	evs := traceEvs(0, ob.Trace, ob.FaultKind == txk.FailAfter)
	evs = append(evs, traceEvs(1, ob.RetryTrace, false)...)
	for _, lid := range lids {
		var init string
		for _, n := range append(append([]common.VerifNode{}, ob.Res.WriteSet...), retryWS(ob)...) {
			if e.Canon.ID(n.ID) == lid {
				if h, ok := ob.Pre.Find(n.ID); ok {
					init = e.Canon.Handle(h)
				}
			}
		}
		if init == "" {
			continue
		}
		emitNode(s, header, lid, init, evs)
	}
}

func retryWS(ob *commitx.Obs) []common.VerifNode {
	if ob.Retry == nil {
		return nil
	}
	return ob.Retry.WriteSet
}

// lockLossCase: T1 and T2 both update the same key (both read the node at the same version). T1 runs phase 1 and is
// parked before its flip (its second registry.UpdateNoLocks); then the L2 cache is cleared (every lock and lock record
// is gone: a cache restart); T2 commits (bounded by its maxTime); T1 is released. The model runs the same events
// with the lock discipline off: T1's reservation alone must keep T2 out.
func lockLossCase(ctx context.Context, s *hx.Session, p *hx.Prng, n int) error {
	dir, err := os.MkdirTemp(hx.WorkRoot(), "c37l-")
	if err != nil {
		return err
	}
	defer os.RemoveAll(dir)
	e := txk.NewEnv(dir, 3)
	e.ColdRestart()
	slot := []int{2, 4, 8}[p.Intn(3)]
	t0, err := e.NewTxn(ctx, sop.ForWriting, time.Minute, nil)
	if err != nil {
		return err
	}
	t0.T.Begin(ctx)
	b0, err := txk.NewBtree[int, string](ctx, t0, e.StoreOpts("st0", slot, true))
	if err != nil {
		return err
	}
	nitems := 3 + p.Intn(8)
	for k := 0; k < nitems; k++ {
		b0.Add(ctx, k*10, "v")
	}
	if err := t0.T.Commit(ctx); err != nil {
		return err
	}
	pre, err := commitx.ReadDisk(dir)
	if err != nil {
		return err
	}
	key := p.Intn(nitems) * 10
	sc1, sc2 := txk.NewScript(e.Canon), txk.NewScript(e.Canon)
	mk := func(sc *txk.Script, val string, maxTime time.Duration) (*txk.Txn, error) {
		t, err := e.NewTxn(ctx, sop.ForWriting, maxTime, sc)
		if err != nil {
			return nil, err
		}
		if err := t.T.Begin(ctx); err != nil {
			return nil, err
		}
		b, err := txk.OpenBtree[int, string](ctx, t, "st0")
		if err != nil {
			return nil, err
		}
		if ok, err := b.Update(ctx, key, val); err != nil || !ok {
			return nil, fmt.Errorf("update failed: %v %v", ok, err)
		}
		return t, nil
	}
	t1, err := mk(sc1, "one", 30*time.Second)
	if err != nil {
		return err
	}
	t2, err := mk(sc2, "two", time.Duration(1500+p.Intn(1500))*time.Millisecond)
	if err != nil {
		return err
	}
	ws1 := common.VerifWriteSet(t1.P)
	ws2 := common.VerifWriteSet(t2.P)
	for _, nd := range append(append([]common.VerifNode{}, ws1...), ws2...) {
		e.Canon.ID(nd.ID)
	}
	start1, start2 := sc1.N()+1, sc2.N()+1
	release := make(chan struct{})
	parked := make(chan struct{}, 1)
	nUpd := 0
	sc1.Gate = func(idx int, name string) {
		if idx >= start1 && name == "reg.UpdateNoLocks" {
			nUpd++
			if nUpd == 2 {
				parked <- struct{}{}
				<-release
			}
		}
	}
	var err1, err2 error
	done1 := make(chan struct{})
	go func() { defer func() { recover() }(); err1 = t1.T.Commit(ctx); close(done1) }()
	select {
	case <-parked:
	case <-done1:
		s.Hit("loss_t1_not_parked")
		return nil
	case <-time.After(20 * time.Second):
		close(release)
		<-done1
		return fmt.Errorf("lockLossCase: T1 neither parked nor finished")
	}
	e.L2.Clear(ctx)
	if !cache.VerifLoseLocks(e.L2) {
		return fmt.Errorf("lockLossCase: the L2 cache is not the in-memory one")
	}
	lossSeq := txk.NextSeq()
	done2 := make(chan struct{})
	go func() { defer func() { recover() }(); err2 = t2.T.Commit(ctx); close(done2) }()
	select {
	case <-done2:
	case <-time.After(25 * time.Second):
		s.Hit("loss_t2_still_running")
	}
	close(release)
	<-done1
	<-done2
	s.Hit("loss")
	if err1 == nil {
		s.Hit("loss_t1_ok")
	}
	if err2 == nil {
		s.Hit("loss_t2_ok")
	}
	type sev struct {
		seq int64
		e   ev
	}
	all := []sev{{0, ev{0, "FREE", true}}, {lossSeq, ev{0, "LOSE", true}}}
	for _, c := range sc1.Calls {
		if c.Idx >= start1 {
			all = append(all, sev{c.Seq, ev{0, strings.TrimSuffix(c.String(), " !err"), !c.Err}})
		}
	}
	for _, c := range sc2.Calls {
		if c.Idx >= start2 {
			all = append(all, sev{c.Seq, ev{1, strings.TrimSuffix(c.String(), " !err"), !c.Err}})
		}
	}
	sort.SliceStable(all, func(i, j int) bool { return all[i].seq < all[j].seq })
	evs := make([]ev, len(all))
	for i := range all {
		evs[i] = all[i].e
	}
	seen := map[string]bool{}
	for _, lid := range updatedLids(e, append(append([]common.VerifNode{}, ws1...), ws2...)) {
		if seen[lid] {
			continue
		}
		seen[lid] = true
		var init string
		for _, nd := range append(append([]common.VerifNode{}, ws1...), ws2...) {
			if e.Canon.ID(nd.ID) == lid {
				if h, ok := pre.Find(nd.ID); ok {
					init = e.Canon.Handle(h)
				}
			}
		}
		if init != "" {
			emitNode(s, fmt.Sprintf("lockloss slot=%d items=%d", slot, nitems), lid, init, evs)
		}
	}
	// outcome: the key holds the value of a writer that committed, and every node still loads
	d, rerr := commitx.ReadAll(ctx, e)
	if rerr != nil {
		s.Fail("C37/store-unreadable-after-lock-loss", "after a lock loss between T1's phase 1 and phase 2 the store cannot be read (a node points at missing data)", rerr.Error())
		return nil
	}
	val := ""
	for _, it := range d["st0"].Items {
		if strings.HasPrefix(it, fmt.Sprintf("%d=", key)) {
			val = strings.SplitN(it, "=", 2)[1]
		}
	}
	switch {
	case err1 == nil && err2 != nil && val != "one":
		s.Fail("C37/committed-value-missing", "T1 committed alone but its value is not there", val)
	case err1 != nil && err2 == nil && val != "two":
		s.Fail("C37/committed-value-missing", "T2 committed alone but its value is not there", val)
	case err1 == nil && err2 == nil && val != "one" && val != "two":
		s.Fail("C37/both-committed-value-lost", "both writers committed but the key holds neither value", val)
	}
	return nil
}

// pairCase: a store with a few items; T1 and T2 both update the value of the same key, so both want to install a
// successor of the same version of that key's node. T1 is parked before a chosen call of its commit; T2 then
// starts its commit and runs until it has been refused the node lock a few times or finished; T1 is released.
func pairCase(ctx context.Context, s *hx.Session, p *hx.Prng, n int) error {
	dir, err := os.MkdirTemp(hx.WorkRoot(), "c37-")
	if err != nil {
		return err
	}
	defer os.RemoveAll(dir)
	e := txk.NewEnv(dir, 3)
	e.ColdRestart()
	slot := []int{2, 4}[p.Intn(2)]
	// setup
	t0, err := e.NewTxn(ctx, sop.ForWriting, time.Minute, nil)
	if err != nil {
		return err
	}
	t0.T.Begin(ctx)
	b0, err := txk.NewBtree[int, string](ctx, t0, e.StoreOpts("st0", slot, true))
	if err != nil {
		return err
	}
	nitems := 3 + p.Intn(8)
	for k := 0; k < nitems; k++ {
		b0.Add(ctx, k*10, "v")
	}
	if err := t0.T.Commit(ctx); err != nil {
		return err
	}
	pre, err := commitx.ReadDisk(dir)
	if err != nil {
		return err
	}
	key := p.Intn(nitems) * 10
	sc1, sc2 := txk.NewScript(e.Canon), txk.NewScript(e.Canon)
	mk := func(sc *txk.Script, val string) (*txk.Txn, error) {
		t, err := e.NewTxn(ctx, sop.ForWriting, 20*time.Second, sc)
		if err != nil {
			return nil, err
		}
		if err := t.T.Begin(ctx); err != nil {
			return nil, err
		}
		b, err := txk.OpenBtree[int, string](ctx, t, "st0")
		if err != nil {
			return nil, err
		}
		if ok, err := b.Update(ctx, key, val); err != nil || !ok {
			return nil, fmt.Errorf("update failed: %v %v", ok, err)
		}
		return t, nil
	}
	t1, err := mk(sc1, "one")
	if err != nil {
		return err
	}
	t2, err := mk(sc2, "two")
	if err != nil {
		return err
	}
	ws1 := common.VerifWriteSet(t1.P)
	ws2 := common.VerifWriteSet(t2.P)
	for _, nd := range append(append([]common.VerifNode{}, ws1...), ws2...) {
		e.Canon.ID(nd.ID)
	}
	start1, start2 := sc1.N()+1, sc2.N()+1
	// where to park T1: one of the calls of a solo commit of this shape (about 20-30 calls)
	parkAt := start1 + p.Intn(26)
	release := make(chan struct{})
	parked := make(chan struct{}, 1)
	sc1.Gate = func(idx int, name string) {
		if idx == parkAt {
			parked <- struct{}{}
			<-release
		}
	}
	var err1, err2 error
	done1 := make(chan struct{})
	go func() { err1 = t1.T.Commit(ctx); close(done1) }()
	select {
	case <-parked:
	case <-done1: // T1 finished before reaching the park point
	}
	refused := 0
	done2 := make(chan struct{})
	var mu sync.Mutex
	sc2.Gate = func(idx int, name string) {}
	go func() { err2 = t2.T.Commit(ctx); close(done2) }()
	// let T2 run until it finishes or has been refused the lock three times
	tick := time.NewTicker(5 * time.Millisecond)
	defer tick.Stop()
	deadline := time.After(8 * time.Second)
wait:
	for {
		select {
		case <-done2:
			break wait
		case <-deadline:
			break wait
		case <-tick.C:
			mu.Lock()
			refused = 0
			for _, l := range sc2.Lines() {
				if strings.HasPrefix(l, "l2.Lock") && strings.Contains(l, "-> false") {
					refused++
				}
			}
			mu.Unlock()
			if refused >= 3 {
				break wait
			}
		}
	}
	close(release)
	<-done1
	<-done2
	s.Hit("pair")
	if err1 == nil {
		s.Hit("pair_t1_ok")
	}
	if err2 == nil {
		s.Hit("pair_t2_ok")
	}
	if refused > 0 {
		s.Hit("pair_t2_refused_lock")
	}
	// merged events in global order
	type sev struct {
		seq int64
		e   ev
	}
	var all []sev
	for _, c := range sc1.Calls {
		if c.Idx >= start1 {
			all = append(all, sev{c.Seq, ev{0, strings.TrimSuffix(c.String(), " !err"), !c.Err}})
		}
	}
	for _, c := range sc2.Calls {
		if c.Idx >= start2 {
			all = append(all, sev{c.Seq, ev{1, strings.TrimSuffix(c.String(), " !err"), !c.Err}})
		}
	}
	sort.Slice(all, func(i, j int) bool { return all[i].seq < all[j].seq })
	evs := make([]ev, len(all))
	for i := range all {
		evs[i] = all[i].e
	}
	lids := updatedLids(e, append(append([]common.VerifNode{}, ws1...), ws2...))
	seen := map[string]bool{}
	for _, lid := range lids {
		if seen[lid] {
			continue
		}
		seen[lid] = true
		var init string
		for _, nd := range append(append([]common.VerifNode{}, ws1...), ws2...) {
			if e.Canon.ID(nd.ID) == lid {
				if h, ok := pre.Find(nd.ID); ok {
					init = e.Canon.Handle(h)
				}
			}
		}
		if init != "" {
			emitNode(s, fmt.Sprintf("pair slot=%d park=%d", slot, parkAt-start1), lid, init, evs)
		}
	}
	// oracle on the outcome: final value is one of the two, and if both committed the later install wins
	d, err := commitx.ReadAll(ctx, e)
	if err == nil {
		val := ""
		for _, it := range d["st0"].Items {
			if strings.HasPrefix(it, fmt.Sprintf("%d=", key)) {
				val = strings.SplitN(it, "=", 2)[1]
			}
		}
		switch {
		case err1 == nil && err2 == nil && val != "one" && val != "two":
			s.Fail("C37/both-committed-value-lost", "both writers committed but the key holds neither value", val)
		case err1 == nil && err2 != nil && val != "one":
			s.Fail("C37/committed-value-missing", "T1 committed alone but its value is not there", val)
		case err1 != nil && err2 == nil && val != "two":
			s.Fail("C37/committed-value-missing", "T2 committed alone but its value is not there", val)
		}
	}
	return nil
}
